import RedisVerif.Model.ManifestJson

/-
  Lemmas about M4j (`Model/ManifestJson.lean`): what the reader makes of what the writer wrote,
  token by token — numbers, strings, whitespace — as the building blocks of
  `C12.manifest_json_roundtrip`.
-/
namespace RedisVerif
namespace ManifestJson

/-! ## numbers -/

theorem digitsRev_fuel : ∀ (n fuel : Nat), n < fuel → digitsRev fuel n = digitsRev (n + 1) n := by
  intro n
  induction n using Nat.strongRecOn with
  | _ n ih =>
    intro fuel hf
    cases fuel with
    | zero => omega
    | succ f =>
      unfold digitsRev
      by_cases h : n < 10
      · simp [h]
      · simp only [h, if_false]
        have hd : n / 10 < n := Nat.div_lt_self (by omega) (by omega)
        rw [ih (n / 10) hd f (by omega), ih (n / 10) hd n hd]

theorem encNat_small {n : Nat} (h : n < 10) : encNat n = [48 + n] := by
  unfold encNat digitsRev
  simp [h]

theorem encNat_big {n : Nat} (h : ¬ n < 10) : encNat n = encNat (n / 10) ++ [48 + n % 10] := by
  unfold encNat
  have hd : n / 10 < n := Nat.div_lt_self (by omega) (by omega)
  conv => lhs; unfold digitsRev
  simp only [h, if_false, List.reverse_cons]
  rw [digitsRev_fuel (n / 10) n hd]

theorem takeDigits_cons_digit {b : Nat} (h : isDigit b = true) (acc : Nat) (r : List Nat) :
    takeDigits acc (b :: r) = takeDigits (acc * 10 + (b - 48)) r := by
  conv => lhs; unfold takeDigits
  simp [h]

/-- reading the digits the writer wrote, whatever follows -/
theorem takeDigits_encNat : ∀ (n acc : Nat) (rest : List Nat),
    takeDigits acc (encNat n ++ rest) = takeDigits (acc * 10 ^ (encNat n).length + n) rest := by
  intro n
  induction n using Nat.strongRecOn with
  | _ n ih =>
    intro acc rest
    by_cases h : n < 10
    · rw [encNat_small h]
      simp only [List.singleton_append, List.length_singleton, Nat.pow_one]
      have : isDigit (48 + n) = true := by unfold isDigit; simp; omega
      rw [takeDigits_cons_digit this]
      have e : 48 + n - 48 = n := by omega
      rw [e]
    · have hd : n / 10 < n := Nat.div_lt_self (by omega) (by omega)
      rw [encNat_big h, List.append_assoc, ih (n / 10) hd]
      simp only [List.singleton_append, List.length_append, List.length_singleton]
      have : isDigit (48 + n % 10) = true := by unfold isDigit; simp; omega
      rw [takeDigits_cons_digit this]
      congr 1
      rw [Nat.pow_succ]
      have := Nat.div_add_mod n 10
      have e : 48 + n % 10 - 48 = n % 10 := by omega
      rw [e]
      calc (acc * 10 ^ (encNat (n / 10)).length + n / 10) * 10 + n % 10
          = acc * 10 ^ (encNat (n / 10)).length * 10 + (10 * (n / 10) + n % 10) := by
            rw [Nat.add_mul]; omega
        _ = acc * (10 ^ (encNat (n / 10)).length * 10) + n := by rw [this, Nat.mul_assoc]

/-- the first digit the writer writes is `0` only for the number 0 -/
theorem encNat_head (n : Nat) : ∃ d ds, encNat n = d :: ds ∧ isDigit d = true ∧ (d = 48 ↔ n = 0) ∧ (n = 0 → ds = []) := by
  induction n using Nat.strongRecOn with
  | _ n ih =>
    by_cases h : n < 10
    · refine ⟨48 + n, [], encNat_small h, ?_, by omega, fun _ => rfl⟩
      unfold isDigit; simp; omega
    · have hd : n / 10 < n := Nat.div_lt_self (by omega) (by omega)
      obtain ⟨d, ds, he, hdig, hz, _⟩ := ih (n / 10) hd
      refine ⟨d, ds ++ [48 + n % 10], by rw [encNat_big h, he]; rfl, hdig, ?_, by omega⟩
      rw [hz]
      omega

def nonDigitHead (s : List Nat) : Prop :=
  match s with
  | [] => True
  | b :: _ => isDigit b = false

theorem takeDigits_stop {acc : Nat} {rest : List Nat} (h : nonDigitHead rest) : takeDigits acc rest = (acc, rest) := by
  cases rest with
  | nil => rfl
  | cons b r =>
    unfold takeDigits
    simp only [nonDigitHead] at h
    simp [h]

/-- **a number the writer wrote reads back**, for every value within the field's range, when what
    follows is neither a digit nor the start of a fraction / exponent -/
theorem parseUInt_encNat (max n : Nat) (rest : List Nat) (hn : n ≤ max) (h1 : nonDigitHead rest)
    (h2 : floatMark rest = false) : parseUInt max (encNat n ++ rest) = some (n, rest) := by
  obtain ⟨d, ds, he, hdig, hz, hds⟩ := encNat_head n
  have hfull := takeDigits_encNat n 0 rest
  rw [he] at hfull ⊢
  simp only [List.cons_append]
  unfold parseUInt
  by_cases h0 : n = 0
  · have hd48 : d = 48 := hz.mpr h0
    have : ds = [] := hds h0
    subst this
    subst hd48
    simp only [List.nil_append, beq_self_eq_true, if_true]
    cases rest with
    | nil => simp [h0]
    | cons c r =>
      simp only [nonDigitHead] at h1
      simp [h1, h2, h0]
  · have hd48 : ¬ d = 48 := fun hh => h0 (hz.mp hh)
    have hb : (d == 48) = false := by simpa using hd48
    simp only [hb, hdig, if_true, Bool.false_eq_true, if_false]
    have hstep : takeDigits 0 (d :: (ds ++ rest)) = takeDigits (d - 48) (ds ++ rest) := by
      rw [takeDigits_cons_digit hdig]; simp
    simp only [List.cons_append] at hfull
    rw [hstep] at hfull
    rw [hfull, takeDigits_stop h1]
    simp [h2, hn]

/-! ## strings -/

theorem hexVal_hexDigit {n : Nat} (h : n < 16) : hexVal (hexDigit n) = some n := by
  unfold hexDigit
  by_cases h10 : n < 10
  · simp only [h10, if_true]
    unfold hexVal
    have h1 : (decide (48 ≤ 48 + n) && decide (48 + n ≤ 57)) = true := by simp; omega
    simp only [h1, if_true]
    congr 1; omega
  · simp only [h10, if_false]
    unfold hexVal
    have h1 : (decide (48 ≤ 87 + n) && decide (87 + n ≤ 57)) = false := by simp; omega
    have h2 : (decide (97 ≤ 87 + n) && decide (87 + n ≤ 102)) = true := by simp; omega
    simp only [h1, h2, if_true, Bool.false_eq_true, if_false]
    congr 1; omega

/-- what the writer emits for one byte of a string is read back as that byte -/
theorem parseStrBody_escByte (b : Nat) (fuel : Nat) (acc r : List Nat) :
    parseStrBody (fuel + 1) (escByte b ++ r) acc = parseStrBody fuel r (b :: acc) := by
  unfold escByte
  by_cases h34 : b = 34
  · subst h34; simp [parseStrBody, parseEscape]
  by_cases h92 : b = 92
  · subst h92; simp [parseStrBody, parseEscape]
  by_cases h8 : b = 8
  · subst h8; simp [parseStrBody, parseEscape]
  by_cases h12 : b = 12
  · subst h12; simp [parseStrBody, parseEscape]
  by_cases h10 : b = 10
  · subst h10; simp [parseStrBody, parseEscape]
  by_cases h13 : b = 13
  · subst h13; simp [parseStrBody, parseEscape]
  by_cases h9 : b = 9
  · subst h9; simp [parseStrBody, parseEscape]
  simp only [h34, h92, h8, h12, h10, h13, h9, if_false]
  by_cases hc : b < 32
  · simp only [hc, if_true]
    have hhi : b / 16 < 16 := by omega
    have hlo : b % 16 < 16 := by omega
    have hx : hex4 (48 :: 48 :: hexDigit (b / 16) :: hexDigit (b % 16) :: r) = some (b, r) := by
      unfold hex4
      have z : hexVal 48 = some 0 := by decide
      simp only [z, hexVal_hexDigit hhi, hexVal_hexDigit hlo]
      congr 2
      omega
    have hu : utf8Of b = [b] := by unfold utf8Of; simp; omega
    simp only [List.cons_append, List.nil_append]
    conv => lhs; unfold parseStrBody
    simp only [show ((92 : Nat) == 34) = false by decide, show ((92 : Nat) == 92) = true by decide, if_true,
      Bool.false_eq_true, if_false]
    unfold parseEscape
    simp only [show ((117 : Nat) == 34) = false by decide, show ((117 : Nat) == 92) = false by decide,
      show ((117 : Nat) == 47) = false by decide, show ((117 : Nat) == 98) = false by decide,
      show ((117 : Nat) == 102) = false by decide, show ((117 : Nat) == 110) = false by decide,
      show ((117 : Nat) == 114) = false by decide, show ((117 : Nat) == 116) = false by decide,
      show ((117 : Nat) == 117) = true by decide, if_true, Bool.false_eq_true, if_false, hx]
    have c1 : (decide (0xDC00 ≤ b) && decide (b ≤ 0xDFFF)) = false := by simp; omega
    have c2 : (decide (b < 0xD800) || decide (b > 0xDBFF)) = true := by simp; omega
    simp only [c1, c2, hu, if_true, Bool.false_eq_true, if_false, List.reverse_singleton, List.singleton_append]
  · simp only [hc, if_false, List.singleton_append]
    conv => lhs; unfold parseStrBody
    have e1 : (b == 34) = false := by simpa using h34
    have e2 : (b == 92) = false := by simpa using h92
    simp [e1, e2, hc]

/-- **a string the writer wrote reads back** (before the UTF-8 check), whatever follows -/
theorem parseStrBody_enc : ∀ (s : List Nat) (fuel : Nat) (acc rest : List Nat), s.length < fuel →
    parseStrBody fuel (s.flatMap escByte ++ 34 :: rest) acc = some (acc.reverse ++ s, rest) := by
  intro s
  induction s with
  | nil =>
    intro fuel acc rest hf
    cases fuel with
    | zero => simp at hf
    | succ f => simp [parseStrBody]
  | cons b s ih =>
    intro fuel acc rest hf
    cases fuel with
    | zero => simp at hf
    | succ f =>
      simp only [List.flatMap_cons, List.append_assoc]
      rw [parseStrBody_escByte, ih f (b :: acc) rest (by simpa using hf)]
      simp

theorem length_le_flatMap_escByte (s : List Nat) : s.length ≤ (s.flatMap escByte).length := by
  induction s with
  | nil => simp
  | cons b s ih =>
    simp only [List.flatMap_cons, List.length_append, List.length_cons]
    have : 1 ≤ (escByte b).length := by
      unfold escByte
      split <;> (try split) <;> (try split) <;> (try split) <;> (try split) <;> (try split) <;> (try split) <;> (try split) <;> simp
    omega

/-- `parse_str` (after the opening quote) on what `serialize_str` wrote, for a valid UTF-8 string -/
theorem parseStr_enc (s rest : List Nat) (hv : validUtf8 (s.length + 1) s = true) :
    parseStr (s.flatMap escByte ++ 34 :: rest) = some (s, rest) := by
  unfold parseStr
  rw [parseStrBody_enc s _ [] rest (by
    have := length_le_flatMap_escByte s
    simp only [List.length_append, List.length_cons]
    omega)]
  simp [hv]

/-- `deserialize_string` on what `serialize_str` wrote -/
theorem parseString_encStr (s rest : List Nat) (hv : validUtf8 (s.length + 1) s = true) :
    parseString (encStr s ++ rest) = some (s, rest) := by
  unfold encStr parseString
  simp only [List.cons_append, List.append_assoc, List.nil_append]
  exact parseStr_enc s rest hv

/-! ## whitespace -/

theorem skipWs_cons_ws {b : Nat} (h : isWs b = true) (r : List Nat) : skipWs (b :: r) = skipWs r := by
  conv => lhs; unfold skipWs
  simp [h]

theorem skipWs_cons_nonws {b : Nat} (h : isWs b = false) (r : List Nat) : skipWs (b :: r) = b :: r := by
  conv => lhs; unfold skipWs
  simp [h]

theorem skipWs_indent (k : Nat) (s : List Nat) : skipWs (indent k ++ s) = skipWs s := by
  unfold indent
  induction (2 * k) with
  | zero => simp
  | succ n ih =>
    rw [List.replicate_succ, List.cons_append, skipWs_cons_ws (by decide)]
    exact ih

theorem skipWs_nl_indent (k : Nat) (s : List Nat) : skipWs (10 :: (indent k ++ s)) = skipWs s := by
  rw [skipWs_cons_ws (by decide), skipWs_indent]

/-- the byte that follows a value inside a pretty-printed object or array: `,` or a newline -/
def sepHead (s : List Nat) : Prop :=
  match s with
  | c :: _ => c = 44 ∨ c = 10
  | [] => False

theorem sepHead_nonDigit {s : List Nat} (h : sepHead s) : nonDigitHead s ∧ floatMark s = false := by
  cases s with
  | nil => cases h
  | cons c r =>
    simp only [sepHead] at h
    rcases h with h | h <;> subst h <;> exact ⟨by simp [nonDigitHead, isDigit], by simp [floatMark]⟩

theorem skipWs_encNat (n : Nat) (rest : List Nat) : skipWs (encNat n ++ rest) = encNat n ++ rest := by
  obtain ⟨d, ds, he, hdig, _, _⟩ := encNat_head n
  rw [he, List.cons_append]
  apply skipWs_cons_nonws
  unfold isDigit at hdig
  unfold isWs
  simp at hdig ⊢
  omega

/-! ## members -/

theorem sepHead_member (lvl : Nat) (name value rest : List Nat) : sepHead (member lvl false name value ++ rest) := by
  simp [member, sepHead]

theorem sepHead_closeObj (lvl : Nat) (rest : List Nat) : sepHead (closeObj lvl ++ rest) := by
  simp [closeObj, sepHead]

/-- one `"name": value` member the writer wrote, read by the `visit_map` loop -/
theorem parseMembers_member (fuel : Nat) (sk : SKind) (first : Bool) (lvl : Nat) (name value rest : List Nat)
    (vals : List (Nat × FVal)) (i : Nat) (k : FKind) (v : FVal) (r4 : List Nat)
    (hname : validUtf8 (name.length + 1) name = true)
    (hidx : fieldIndex (fieldsOf sk) name = some (i, k)) (hdup : vals.lookup i = none)
    (hval : parseField fuel k (32 :: (value ++ rest)) = some (v, r4)) :
    parseMembers (fuel + 1) sk first (member lvl first name value ++ rest) vals =
      parseMembers fuel sk false r4 ((i, v) :: vals) := by
  have hkey : parseStr (name.flatMap escByte ++ 34 :: (58 :: 32 :: (value ++ rest))) =
      some (name, 58 :: 32 :: (value ++ rest)) := parseStr_enc name _ hname
  cases first with
  | true =>
    simp only [member, if_true, encStr, List.append_assoc, List.cons_append, List.nil_append]
    conv => lhs; unfold parseMembers
    rw [skipWs_nl_indent, skipWs_cons_nonws (by decide)]
    simp only [show ((34 : Nat) == 125) = false by decide, Bool.false_eq_true, if_false, if_true, hkey,
      skipWs_cons_nonws (show isWs 58 = false by decide), hidx, hdup, Option.isSome_none, hval]
  | false =>
    simp only [member, Bool.false_eq_true, if_false, encStr, List.append_assoc, List.cons_append, List.nil_append]
    conv => lhs; unfold parseMembers
    rw [skipWs_cons_nonws (show isWs 44 = false by decide)]
    simp only [show ((44 : Nat) == 125) = false by decide, show ((44 : Nat) == 44) = true by decide,
      Bool.false_eq_true, if_false, if_true, skipWs_nl_indent, skipWs_cons_nonws (show isWs 34 = false by decide), hkey,
      skipWs_cons_nonws (show isWs 58 = false by decide), hidx, hdup, Option.isSome_none, hval]

/-- the end of an object -/
theorem parseMembers_close (fuel : Nat) (sk : SKind) (lvl : Nat) (rest : List Nat) (vals : List (Nat × FVal)) :
    parseMembers (fuel + 1) sk false (closeObj lvl ++ rest) vals = some (vals, rest) := by
  simp only [closeObj, List.append_assoc, List.cons_append, List.nil_append]
  conv => lhs; unfold parseMembers
  rw [skipWs_nl_indent, skipWs_cons_nonws (by decide)]
  simp

/-! ## field values -/

theorem parseField_u64 (fuel n : Nat) (rest : List Nat) (hn : n ≤ u64Max) (hr : sepHead rest) :
    parseField (fuel + 1) .u64 (32 :: (encNat n ++ rest)) = some (.num n, rest) := by
  conv => lhs; unfold parseField
  simp only [skipWs_cons_ws (show isWs 32 = true by decide), skipWs_encNat]
  rw [parseUInt_encNat u64Max n rest hn (sepHead_nonDigit hr).1 (sepHead_nonDigit hr).2]
  rfl

theorem parseField_u32 (fuel n : Nat) (rest : List Nat) (hn : n ≤ u32Max) (hr : sepHead rest) :
    parseField (fuel + 1) .u32 (32 :: (encNat n ++ rest)) = some (.num n, rest) := by
  conv => lhs; unfold parseField
  simp only [skipWs_cons_ws (show isWs 32 = true by decide), skipWs_encNat]
  rw [parseUInt_encNat u32Max n rest hn (sepHead_nonDigit hr).1 (sepHead_nonDigit hr).2]
  rfl

theorem parseField_text (fuel : Nat) (s rest : List Nat) (hv : validUtf8 (s.length + 1) s = true) :
    parseField (fuel + 1) .text (32 :: (encStr s ++ rest)) = some (.text s, rest) := by
  conv => lhs; unfold parseField
  have : skipWs (32 :: (encStr s ++ rest)) = encStr s ++ rest := by
    rw [skipWs_cons_ws (by decide)]
    unfold encStr
    simp only [List.singleton_append, List.cons_append]
    exact skipWs_cons_nonws (by decide) _
  simp only [this, parseString_encStr s rest hv]
  rfl

/-! ## well-formed values: what the Rust types guarantee (`u64`, `u32`, `String`) -/

def JSeg.WF (s : JSeg) : Prop :=
  s.id ≤ u64Max ∧ s.count ≤ u32Max ∧ s.size ≤ u64Max ∧ s.minTs ≤ u64Max ∧ s.maxTs ≤ u64Max ∧
  validUtf8 (s.key.length + 1) s.key = true

def JChk.WF (c : JChk) : Prop :=
  c.ts ≤ u64Max ∧ c.keyCount ≤ u64Max ∧ c.last ≤ u64Max ∧ validUtf8 (c.key.length + 1) c.key = true

def JMan.WF (m : JMan) : Prop :=
  m.version ≤ u64Max ∧ m.rid ≤ u64Max ∧ m.next ≤ u64Max ∧ (∀ s ∈ m.segments, s.WF) ∧
  (∀ c, m.checkpoint = some c → c.WF)

instance (s : JSeg) : Decidable s.WF := by unfold JSeg.WF; infer_instance
instance (c : JChk) : Decidable c.WF := by unfold JChk.WF; infer_instance
instance decChkAll (o : Option JChk) : Decidable (∀ c, o = some c → c.WF) :=
  match o with
  | none => isTrue (by intro c h; cases h)
  | some c =>
    if h : c.WF then isTrue (by intro c' h'; cases h'; exact h)
    else isFalse (fun hh => h (hh c rfl))

instance (m : JMan) : Decidable m.WF := by unfold JMan.WF; exact inferInstance

/-! ## structs -/

/-- a `SegmentInfo` object the writer wrote, read by `deserialize_struct` -/
theorem parseStruct_encSeg (lvl : Nat) (s : JSeg) (rest : List Nat) (fuel : Nat) (hw : s.WF) (hf : 8 ≤ fuel) :
    ∃ vals, parseStruct fuel .seg (encSeg lvl s ++ rest) = some (vals, rest) ∧ buildSeg vals = some s := by
  obtain ⟨f, rfl⟩ : ∃ f, fuel = f + 8 := ⟨fuel - 8, by omega⟩
  obtain ⟨h1, h2, h3, h4, h5, h6⟩ := hw
  refine ⟨[(5, .num s.maxTs), (4, .num s.minTs), (3, .num s.size), (2, .num s.count), (1, .text s.key), (0, .num s.id)], ?_, ?_⟩
  · unfold encSeg
    simp only [List.append_assoc, List.cons_append, List.nil_append]
    conv => lhs; unfold parseStruct
    rw [skipWs_cons_nonws (show isWs 123 = false by decide)]
    simp only
    refine (parseMembers_member (f + 6) .seg true (lvl + 1) [105, 100] (encNat s.id) _ [] 0 .u64 (.num s.id) _
      (by decide) (by decide) rfl (parseField_u64 _ _ _ h1 (sepHead_member _ _ _ _))).trans ?_
    refine (parseMembers_member (f + 5) .seg false (lvl + 1) [107, 101, 121] (encStr s.key) _ _ 1 .text (.text s.key) _
      (by decide) (by decide) rfl (parseField_text _ _ _ h6)).trans ?_
    refine (parseMembers_member (f + 4) .seg false (lvl + 1) [114, 101, 99, 111, 114, 100, 95, 99, 111, 117, 110, 116]
      (encNat s.count) _ _ 2 .u32 (.num s.count) _
      (by decide) (by decide) rfl (parseField_u32 _ _ _ h2 (sepHead_member _ _ _ _))).trans ?_
    refine (parseMembers_member (f + 3) .seg false (lvl + 1) [115, 105, 122, 101, 95, 98, 121, 116, 101, 115]
      (encNat s.size) _ _ 3 .u64 (.num s.size) _
      (by decide) (by decide) rfl (parseField_u64 _ _ _ h3 (sepHead_member _ _ _ _))).trans ?_
    refine (parseMembers_member (f + 2) .seg false (lvl + 1) [109, 105, 110, 95, 116, 105, 109, 101, 115, 116, 97, 109, 112]
      (encNat s.minTs) _ _ 4 .u64 (.num s.minTs) _
      (by decide) (by decide) rfl (parseField_u64 _ _ _ h4 (sepHead_member _ _ _ _))).trans ?_
    refine (parseMembers_member (f + 1) .seg false (lvl + 1) [109, 97, 120, 95, 116, 105, 109, 101, 115, 116, 97, 109, 112]
      (encNat s.maxTs) _ _ 5 .u64 (.num s.maxTs) _
      (by decide) (by decide) rfl (parseField_u64 _ _ _ h5 (sepHead_closeObj _ _))).trans ?_
    exact parseMembers_close f .seg lvl rest _
  · simp [buildSeg, getNum, getText, List.lookup]

/-- a `CheckpointInfo` object the writer wrote -/
theorem parseStruct_encChk (lvl : Nat) (c : JChk) (rest : List Nat) (fuel : Nat) (hw : c.WF) (hf : 6 ≤ fuel) :
    ∃ vals, parseStruct fuel .chk (encChk lvl c ++ rest) = some (vals, rest) ∧ buildChk vals = some c := by
  obtain ⟨f, rfl⟩ : ∃ f, fuel = f + 6 := ⟨fuel - 6, by omega⟩
  obtain ⟨h1, h2, h3, h4⟩ := hw
  refine ⟨[(3, .num c.last), (2, .num c.keyCount), (1, .num c.ts), (0, .text c.key)], ?_, ?_⟩
  · unfold encChk
    simp only [List.append_assoc, List.cons_append, List.nil_append]
    conv => lhs; unfold parseStruct
    rw [skipWs_cons_nonws (show isWs 123 = false by decide)]
    simp only
    refine (parseMembers_member (f + 4) .chk true (lvl + 1) [107, 101, 121] (encStr c.key) _ [] 0 .text (.text c.key) _
      (by decide) (by decide) rfl (parseField_text _ _ _ h4)).trans ?_
    refine (parseMembers_member (f + 3) .chk false (lvl + 1) [116, 105, 109, 101, 115, 116, 97, 109, 112, 95, 109, 115]
      (encNat c.ts) _ _ 1 .u64 (.num c.ts) _
      (by decide) (by decide) rfl (parseField_u64 _ _ _ h1 (sepHead_member _ _ _ _))).trans ?_
    refine (parseMembers_member (f + 2) .chk false (lvl + 1) [107, 101, 121, 95, 99, 111, 117, 110, 116]
      (encNat c.keyCount) _ _ 2 .u64 (.num c.keyCount) _
      (by decide) (by decide) rfl (parseField_u64 _ _ _ h2 (sepHead_member _ _ _ _))).trans ?_
    refine (parseMembers_member (f + 1) .chk false (lvl + 1) [108, 97, 115, 116, 95, 115, 101, 103, 109, 101, 110, 116, 95, 105, 100]
      (encNat c.last) _ _ 3 .u64 (.num c.last) _
      (by decide) (by decide) rfl (parseField_u64 _ _ _ h3 (sepHead_closeObj _ _))).trans ?_
    exact parseMembers_close f .chk lvl rest _
  · simp [buildChk, getNum, getText, List.lookup]

/-! ## the segment array -/

/-- the elements of a pretty-printed non-empty array, read by the `SeqAccess` loop up to and
    including the closing `]` -/
theorem parseSegElems_enc (lvl k : Nat) : ∀ (l : List JSeg) (first : Bool) (acc : List JSeg) (rest : List Nat) (fuel : Nat),
    (∀ s ∈ l, s.WF) → l.length + 9 ≤ fuel →
    parseSegElems fuel first (encSegElems lvl first l ++ (10 :: (indent k ++ 93 :: rest))) acc =
      some (acc.reverse ++ l, rest) := by
  intro l
  induction l with
  | nil =>
    intro first acc rest fuel _ hf
    obtain ⟨f, rfl⟩ : ∃ f, fuel = f + 1 := ⟨fuel - 1, by omega⟩
    simp only [encSegElems, List.nil_append]
    conv => lhs; unfold parseSegElems
    rw [skipWs_nl_indent, skipWs_cons_nonws (show isWs 93 = false by decide)]
    simp
  | cons s l ih =>
    intro first acc rest fuel hw hf
    obtain ⟨f, rfl⟩ : ∃ f, fuel = f + 1 := ⟨fuel - 1, by omega⟩
    have hs : s.WF := hw s (by simp)
    have hl : ∀ t ∈ l, t.WF := fun t ht => hw t (by simp [ht])
    simp only [List.length_cons] at hf
    obtain ⟨vals, hp, hb⟩ := parseStruct_encSeg lvl s
      (encSegElems lvl false l ++ (10 :: (indent k ++ 93 :: rest))) f hs (by omega)
    have hrec := ih false (s :: acc) rest f hl (by omega)
    have hstart : skipWs (encSeg lvl s ++ (encSegElems lvl false l ++ (10 :: (indent k ++ 93 :: rest)))) =
        encSeg lvl s ++ (encSegElems lvl false l ++ (10 :: (indent k ++ 93 :: rest))) := by
      unfold encSeg
      simp only [List.append_assoc, List.cons_append, List.nil_append]
      exact skipWs_cons_nonws (by decide) _
    have hhead : ∃ r, encSeg lvl s ++ (encSegElems lvl false l ++ (10 :: (indent k ++ 93 :: rest))) = 123 :: r := by
      unfold encSeg
      simp only [List.append_assoc, List.cons_append, List.nil_append]
      exact ⟨_, rfl⟩
    obtain ⟨r0, hr0⟩ := hhead
    cases first with
    | true =>
      simp only [encSegElems, if_true, List.append_assoc, List.cons_append, List.nil_append]
      conv => lhs; unfold parseSegElems
      rw [skipWs_nl_indent, hstart, hr0]
      simp only [show ((123 : Nat) == 93) = false by decide, Bool.false_eq_true, if_false, if_true]
      rw [← hr0, hp]
      simp only [hb, hrec]
      simp
    | false =>
      simp only [encSegElems, Bool.false_eq_true, if_false, List.append_assoc, List.cons_append, List.nil_append]
      conv => lhs; unfold parseSegElems
      rw [skipWs_cons_nonws (show isWs 44 = false by decide)]
      simp only [show ((44 : Nat) == 93) = false by decide, show ((44 : Nat) == 44) = true by decide,
        Bool.false_eq_true, if_false, if_true]
      rw [skipWs_nl_indent, hstart, hr0]
      simp only
      rw [← hr0, hp]
      simp only [hb, hrec]
      simp

theorem parseField_segs (fuel lvl : Nat) (l : List JSeg) (rest : List Nat) (hw : ∀ s ∈ l, s.WF)
    (hf : l.length + 10 ≤ fuel) :
    parseField fuel .segs (32 :: (encSegs lvl l ++ rest)) = some (.segs l, rest) := by
  obtain ⟨f, rfl⟩ : ∃ f, fuel = f + 1 := ⟨fuel - 1, by omega⟩
  conv => lhs; unfold parseField
  rw [skipWs_cons_ws (show isWs 32 = true by decide)]
  cases l with
  | nil =>
    simp only [encSegs, List.cons_append, List.nil_append]
    rw [skipWs_cons_nonws (show isWs 91 = false by decide)]
    simp only
    obtain ⟨g, rfl⟩ : ∃ g, f = g + 1 := ⟨f - 1, by simp at hf; omega⟩
    conv => lhs; unfold parseSegElems
    rw [skipWs_cons_nonws (show isWs 93 = false by decide)]
    simp
  | cons s l =>
    simp only [encSegs, List.append_assoc, List.cons_append, List.nil_append]
    rw [skipWs_cons_nonws (show isWs 91 = false by decide)]
    simp only
    rw [parseSegElems_enc (lvl + 1) lvl (s :: l) true [] rest f hw (by simp only [List.length_cons] at hf ⊢; omega)]
    simp

theorem parseField_null (fuel : Nat) (rest : List Nat) :
    parseField (fuel + 1) .optChk (32 :: ([110, 117, 108, 108] ++ rest)) = some (.chk none, rest) := by
  conv => lhs; unfold parseField
  rw [skipWs_cons_ws (show isWs 32 = true by decide)]
  simp only [List.cons_append, List.nil_append]
  rw [skipWs_cons_nonws (show isWs 110 = false by decide)]
  simp [expectBytes]

theorem parseField_someChk (fuel lvl : Nat) (c : JChk) (rest : List Nat) (hw : c.WF) (hf : 7 ≤ fuel) :
    parseField fuel .optChk (32 :: (encChk lvl c ++ rest)) = some (.chk (some c), rest) := by
  obtain ⟨f, rfl⟩ : ∃ f, fuel = f + 1 := ⟨fuel - 1, by omega⟩
  obtain ⟨vals, hp, hb⟩ := parseStruct_encChk lvl c rest f hw (by omega)
  have hhead : ∃ r, encChk lvl c ++ rest = 123 :: r := by
    unfold encChk
    simp only [List.append_assoc, List.cons_append, List.nil_append]
    exact ⟨_, rfl⟩
  obtain ⟨r0, hr0⟩ := hhead
  conv => lhs; unfold parseField
  rw [skipWs_cons_ws (show isWs 32 = true by decide), hr0, skipWs_cons_nonws (show isWs 123 = false by decide)]
  simp only
  rw [← hr0, hp]
  simp [hb]

/-! ## the whole manifest -/

theorem length_encSegElems_ge (lvl : Nat) : ∀ (l : List JSeg) (first : Bool), l.length ≤ (encSegElems lvl first l).length := by
  intro l
  induction l with
  | nil => intro _; simp [encSegElems]
  | cons s l ih =>
    intro first
    have := ih false
    cases first <;> simp only [encSegElems, List.length_append, List.length_cons] <;> simp <;> omega

theorem length_encSegs_ge (lvl : Nat) (l : List JSeg) : l.length ≤ (encSegs lvl l).length := by
  unfold encSegs
  cases l with
  | nil => simp
  | cons s l =>
    have := length_encSegElems_ge (lvl + 1) (s :: l) true
    simp only [List.length_append, List.length_cons] at this ⊢
    omega

theorem length_encode_ge (m : JMan) (rest : List Nat) : m.segments.length + 20 ≤ (encode m ++ rest).length := by
  unfold encode member closeObj encSegs
  have h := length_encSegElems_ge 2 m.segments true
  cases hs : m.segments with
  | nil => simp [encStr, indent]; omega
  | cons s l =>
    rw [hs] at h
    simp only [List.length_cons] at h
    simp [encStr, indent]
    omega

/-- every member of the manifest object in turn, the closing brace, the end of the input -/
theorem parseStruct_encode (m : JMan) (hw : m.WF) (rest : List Nat) (fuel : Nat) (hf : m.segments.length + 20 ≤ fuel) :
    ∃ vals, parseStruct fuel .man (encode m ++ rest) = some (vals, rest) ∧ buildMan vals = some m := by
  obtain ⟨f, rfl⟩ : ∃ f, fuel = f + 7 := ⟨fuel - 7, by omega⟩
  obtain ⟨h1, h2, h3, h4, h5⟩ := hw
  refine ⟨[(4, .num m.next), (3, .chk m.checkpoint), (2, .segs m.segments), (1, .num m.rid), (0, .num m.version)], ?_, ?_⟩
  · unfold encode
    simp only [List.append_assoc, List.cons_append, List.nil_append]
    conv => lhs; unfold parseStruct
    rw [skipWs_cons_nonws (show isWs 123 = false by decide)]
    simp only
    refine (parseMembers_member (f + 5) .man true 1 [118, 101, 114, 115, 105, 111, 110] (encNat m.version) _ [] 0 .u64
      (.num m.version) _ (by decide) (by decide) rfl (parseField_u64 _ _ _ h1 (sepHead_member _ _ _ _))).trans ?_
    refine (parseMembers_member (f + 4) .man false 1 [114, 101, 112, 108, 105, 99, 97, 95, 105, 100] (encNat m.rid) _ _ 1 .u64
      (.num m.rid) _ (by decide) (by decide) rfl (parseField_u64 _ _ _ h2 (sepHead_member _ _ _ _))).trans ?_
    refine (parseMembers_member (f + 3) .man false 1 [115, 101, 103, 109, 101, 110, 116, 115] (encSegs 1 m.segments) _ _ 2 .segs
      (.segs m.segments) _ (by decide) (by decide) rfl (parseField_segs _ _ _ _ h4 (by omega))).trans ?_
    have hchk : ∀ rest, parseField (f + 2) .optChk (32 :: (encChkOpt 1 m.checkpoint ++ rest)) =
        some (.chk m.checkpoint, rest) := by
      intro rest
      cases hc : m.checkpoint with
      | none => exact parseField_null (f + 1) rest
      | some c => exact parseField_someChk (f + 2) 1 c rest (h5 c hc) (by omega)
    refine (parseMembers_member (f + 2) .man false 1 [99, 104, 101, 99, 107, 112, 111, 105, 110, 116] _ _ _ 3 .optChk
      (.chk m.checkpoint) _ (by decide) (by decide) rfl (hchk _)).trans ?_
    refine (parseMembers_member (f + 1) .man false 1 [110, 101, 120, 116, 95, 115, 101, 103, 109, 101, 110, 116, 95, 105, 100]
      (encNat m.next) _ _ 4 .u64 (.num m.next) _ (by decide) (by decide) rfl
      (parseField_u64 _ _ _ h3 (sepHead_closeObj _ _))).trans ?_
    exact parseMembers_close f .man 0 rest _
  · simp [buildMan, getNum, List.lookup]

/-! ## skipped values (`IgnoredAny`) over what the writer wrote -/

theorem skipStrBody_escByte (b : Nat) (fuel : Nat) (r : List Nat) :
    skipStrBody (fuel + 1) (escByte b ++ r) = skipStrBody fuel r := by
  unfold escByte
  by_cases h34 : b = 34
  · subst h34; simp [skipStrBody]
  by_cases h92 : b = 92
  · subst h92; simp [skipStrBody]
  by_cases h8 : b = 8
  · subst h8; simp [skipStrBody]
  by_cases h12 : b = 12
  · subst h12; simp [skipStrBody]
  by_cases h10 : b = 10
  · subst h10; simp [skipStrBody]
  by_cases h13 : b = 13
  · subst h13; simp [skipStrBody]
  by_cases h9 : b = 9
  · subst h9; simp [skipStrBody]
  simp only [h34, h92, h8, h12, h10, h13, h9, if_false]
  by_cases hc : b < 32
  · simp only [hc, if_true]
    have hhi : b / 16 < 16 := by omega
    have hlo : b % 16 < 16 := by omega
    have hx : hex4 (48 :: 48 :: hexDigit (b / 16) :: hexDigit (b % 16) :: r) = some (b, r) := by
      unfold hex4
      have z : hexVal 48 = some 0 := by decide
      simp only [z, hexVal_hexDigit hhi, hexVal_hexDigit hlo]
      congr 2
      omega
    simp only [List.cons_append, List.nil_append]
    conv => lhs; unfold skipStrBody
    simp [hx]
  · simp only [hc, if_false, List.singleton_append]
    conv => lhs; unfold skipStrBody
    have e1 : (b == 34) = false := by simpa using h34
    have e2 : (b == 92) = false := by simpa using h92
    simp [e1, e2, hc]

theorem skipStrBody_enc : ∀ (s : List Nat) (fuel : Nat) (rest : List Nat), s.length < fuel →
    skipStrBody fuel (s.flatMap escByte ++ 34 :: rest) = some rest := by
  intro s
  induction s with
  | nil =>
    intro fuel rest hf
    cases fuel with
    | zero => simp at hf
    | succ f => simp [skipStrBody]
  | cons b s ih =>
    intro fuel rest hf
    cases fuel with
    | zero => simp at hf
    | succ f =>
      simp only [List.flatMap_cons, List.append_assoc]
      rw [skipStrBody_escByte, ih f rest (by simpa using hf)]

theorem encNat_all_digits (n : Nat) : ∀ x ∈ encNat n, isDigit x = true := by
  induction n using Nat.strongRecOn with
  | _ n ih =>
    by_cases h : n < 10
    · rw [encNat_small h]
      intro x hx
      simp only [List.mem_singleton] at hx
      subst hx
      unfold isDigit; simp; omega
    · have hd : n / 10 < n := Nat.div_lt_self (by omega) (by omega)
      rw [encNat_big h]
      intro x hx
      rcases List.mem_append.mp hx with hx | hx
      · exact ih (n / 10) hd x hx
      · simp only [List.mem_singleton] at hx
        subst hx
        unfold isDigit; simp; omega

theorem dropDigits_digits : ∀ (l rest : List Nat), (∀ x ∈ l, isDigit x = true) → dropDigits (l ++ rest) = dropDigits rest := by
  intro l
  induction l with
  | nil => intro rest _; rfl
  | cons b l ih =>
    intro rest h
    simp only [List.cons_append]
    conv => lhs; unfold dropDigits
    simp only [h b (by simp), if_true]
    exact ih rest (fun x hx => h x (by simp [hx]))

theorem dropDigits_sep {rest : List Nat} (h : sepHead rest) : dropDigits rest = rest := by
  cases rest with
  | nil => cases h
  | cons c r =>
    simp only [sepHead] at h
    unfold dropDigits
    rcases h with h | h <;> subst h <;> simp [isDigit]

theorem skipFraction_sep {rest : List Nat} (h : sepHead rest) : skipFraction rest = some rest := by
  cases rest with
  | nil => cases h
  | cons c r =>
    simp only [sepHead] at h
    rcases h with h | h <;> subst h <;> simp [skipFraction]

/-- a number the writer wrote, skipped -/
theorem skipNumber_encNat (n : Nat) (rest : List Nat) (hr : sepHead rest) : skipNumber (encNat n ++ rest) = some rest := by
  obtain ⟨d, ds, he, hdig, hz, hds⟩ := encNat_head n
  have hall := encNat_all_digits n
  rw [he] at hall ⊢
  simp only [List.cons_append]
  unfold skipNumber
  by_cases h0 : n = 0
  · have hd48 : d = 48 := hz.mpr h0
    have : ds = [] := hds h0
    subst this
    subst hd48
    simp only [List.nil_append, beq_self_eq_true, if_true]
    cases rest with
    | nil => cases hr
    | cons c r =>
      have := (sepHead_nonDigit hr).1
      simp only [nonDigitHead] at this
      simp only [this, Bool.false_eq_true, if_false]
      exact skipFraction_sep hr
  · have hd48 : ¬ d = 48 := fun hh => h0 (hz.mp hh)
    have hb : (d == 48) = false := by simpa using hd48
    simp only [hb, hdig, if_true, Bool.false_eq_true, if_false]
    rw [dropDigits_digits ds rest (fun x hx => hall x (by simp [hx])), dropDigits_sep hr]
    exact skipFraction_sep hr

theorem skipValue_num (fuel n : Nat) (rest : List Nat) (hr : sepHead rest) :
    skipValue (fuel + 1) (32 :: (encNat n ++ rest)) = some rest := by
  obtain ⟨d, ds, he, hdig, _, _⟩ := encNat_head n
  conv => lhs; unfold skipValue
  rw [skipWs_cons_ws (show isWs 32 = true by decide), skipWs_encNat]
  have hsk := skipNumber_encNat n rest hr
  rw [he] at hsk ⊢
  simp only [List.cons_append] at hsk ⊢
  have hd : 48 ≤ d ∧ d ≤ 57 := by unfold isDigit at hdig; simpa using hdig
  have e1 : (d == 110) = false := by simp; omega
  have e2 : (d == 116) = false := by simp; omega
  have e3 : (d == 102) = false := by simp; omega
  have e4 : (d == 45) = false := by simp; omega
  simp only [e1, e2, e3, e4, hdig, Bool.false_eq_true, if_false, if_true]
  exact hsk

theorem skipValue_str (fuel : Nat) (s rest : List Nat) :
    skipValue (fuel + 1) (32 :: (encStr s ++ rest)) = some rest := by
  conv => lhs; unfold skipValue
  rw [skipWs_cons_ws (show isWs 32 = true by decide)]
  unfold encStr
  simp only [List.cons_append, List.append_assoc, List.nil_append]
  rw [skipWs_cons_nonws (show isWs 34 = false by decide)]
  simp only [show ((34 : Nat) == 110) = false by decide, show ((34 : Nat) == 116) = false by decide,
    show ((34 : Nat) == 102) = false by decide, show ((34 : Nat) == 45) = false by decide,
    show isDigit 34 = false by decide, show ((34 : Nat) == 34) = true by decide, Bool.false_eq_true, if_false, if_true]
  exact skipStrBody_enc s _ rest (by
    have := length_le_flatMap_escByte s
    simp only [List.length_append, List.length_cons]
    omega)

theorem member_false (lvl : Nat) (name value : List Nat) :
    member lvl false name value = 44 :: member lvl true name value := by
  simp [member]

/-- one member of a skipped object, more members follow -/
theorem skipMembers_member (fuel lvl : Nat) (name value rest2 : List Nat)
    (hval : skipValue fuel (32 :: (value ++ 44 :: rest2)) = some (44 :: rest2)) :
    skipMembers (fuel + 1) (member lvl true name value ++ 44 :: rest2) = skipMembers fuel rest2 := by
  simp only [member, if_true, encStr, List.cons_append, List.append_assoc, List.nil_append]
  conv => lhs; unfold skipMembers
  rw [skipWs_nl_indent, skipWs_cons_nonws (show isWs 34 = false by decide)]
  simp only
  rw [skipStrBody_enc name _ _ (by
    have := length_le_flatMap_escByte name
    simp only [List.length_append, List.length_cons]
    omega)]
  simp only [skipWs_cons_nonws (show isWs 58 = false by decide), hval, skipWs_cons_nonws (show isWs 44 = false by decide)]

/-- the last member of a skipped object and its closing brace -/
theorem skipMembers_last (fuel lvl lvl' : Nat) (name value rest : List Nat)
    (hval : skipValue fuel (32 :: (value ++ (closeObj lvl' ++ rest))) = some (closeObj lvl' ++ rest)) :
    skipMembers (fuel + 1) (member lvl true name value ++ (closeObj lvl' ++ rest)) = some rest := by
  simp only [member, if_true, encStr, List.cons_append, List.append_assoc, List.nil_append]
  conv => lhs; unfold skipMembers
  rw [skipWs_nl_indent, skipWs_cons_nonws (show isWs 34 = false by decide)]
  simp only
  rw [skipStrBody_enc name _ _ (by
    have := length_le_flatMap_escByte name
    simp only [List.length_append, List.length_cons]
    omega)]
  simp only [skipWs_cons_nonws (show isWs 58 = false by decide), hval]
  simp only [closeObj, List.cons_append, List.append_assoc, List.nil_append]
  rw [skipWs_nl_indent, skipWs_cons_nonws (show isWs 125 = false by decide)]
  rfl

/-- a `CheckpointInfo` object the writer wrote, skipped as the value of an unknown field -/
theorem skipValue_encChk (fuel lvl : Nat) (c : JChk) (rest : List Nat) (hf : 6 ≤ fuel) :
    skipValue fuel (32 :: (encChk lvl c ++ rest)) = some rest := by
  obtain ⟨f, rfl⟩ : ∃ f, fuel = f + 6 := ⟨fuel - 6, by omega⟩
  conv => lhs; unfold skipValue
  rw [skipWs_cons_ws (show isWs 32 = true by decide)]
  unfold encChk
  simp only [member_false, List.cons_append, List.append_assoc, List.nil_append]
  rw [skipWs_cons_nonws (show isWs 123 = false by decide)]
  have hnot : ∀ r, skipWs (member (lvl + 1) true [107, 101, 121] (encStr c.key) ++ r) =
      34 :: ([107, 101, 121].flatMap escByte ++ 34 :: (58 :: 32 :: (encStr c.key ++ r))) := by
    intro r
    simp only [member, if_true, encStr, List.cons_append, List.append_assoc, List.nil_append]
    rw [skipWs_nl_indent, skipWs_cons_nonws (show isWs 34 = false by decide)]
  simp only [show ((123 : Nat) == 110) = false by decide, show ((123 : Nat) == 116) = false by decide,
    show ((123 : Nat) == 102) = false by decide, show ((123 : Nat) == 45) = false by decide,
    show isDigit 123 = false by decide, show ((123 : Nat) == 34) = false by decide,
    show ((123 : Nat) == 91) = false by decide, show ((123 : Nat) == 123) = true by decide,
    Bool.false_eq_true, if_false, if_true, hnot]
  refine (skipMembers_member (f + 4) (lvl + 1) [107, 101, 121] (encStr c.key) _ (skipValue_str _ _ _)).trans ?_
  refine (skipMembers_member (f + 3) (lvl + 1) [116, 105, 109, 101, 115, 116, 97, 109, 112, 95, 109, 115] (encNat c.ts) _
    (skipValue_num _ _ _ (by simp [sepHead]))).trans ?_
  refine (skipMembers_member (f + 2) (lvl + 1) [107, 101, 121, 95, 99, 111, 117, 110, 116] (encNat c.keyCount) _
    (skipValue_num _ _ _ (by simp [sepHead]))).trans ?_
  exact skipMembers_last (f + 1) (lvl + 1) lvl [108, 97, 115, 116, 95, 115, 101, 103, 109, 101, 110, 116, 95, 105, 100]
    (encNat c.last) rest (skipValue_num _ _ _ (sepHead_closeObj _ _))

theorem skipValue_null (fuel : Nat) (rest : List Nat) :
    skipValue (fuel + 1) (32 :: ([110, 117, 108, 108] ++ rest)) = some rest := by
  conv => lhs; unfold skipValue
  rw [skipWs_cons_ws (show isWs 32 = true by decide)]
  simp only [List.cons_append, List.nil_append]
  rw [skipWs_cons_nonws (show isWs 110 = false by decide)]
  simp [expectBytes]

theorem skipValue_encChkOpt (lvl : Nat) (o : Option JChk) (rest : List Nat) :
    skipValue ((32 :: (encChkOpt lvl o ++ rest)).length + 1) (32 :: (encChkOpt lvl o ++ rest)) = some rest := by
  cases o with
  | none => exact skipValue_null _ rest
  | some c =>
    apply skipValue_encChk
    simp [encChkOpt, encChk, member]
    omega

/-- a member whose name the reader does not know: the value is skipped, nothing is recorded -/
theorem parseMembers_unknown (fuel : Nat) (sk : SKind) (lvl : Nat) (name value rest : List Nat)
    (vals : List (Nat × FVal)) (r4 : List Nat)
    (hname : validUtf8 (name.length + 1) name = true)
    (hidx : fieldIndex (fieldsOf sk) name = none)
    (hval : skipValue ((32 :: (value ++ rest)).length + 1) (32 :: (value ++ rest)) = some r4) :
    parseMembers (fuel + 1) sk false (member lvl false name value ++ rest) vals = parseMembers fuel sk false r4 vals := by
  have hkey : parseStr (name.flatMap escByte ++ 34 :: (58 :: 32 :: (value ++ rest))) =
      some (name, 58 :: 32 :: (value ++ rest)) := parseStr_enc name _ hname
  simp only [member, Bool.false_eq_true, if_false, encStr, List.append_assoc, List.cons_append, List.nil_append]
  conv => lhs; unfold parseMembers
  rw [skipWs_cons_nonws (show isWs 44 = false by decide)]
  simp only [show ((44 : Nat) == 125) = false by decide, show ((44 : Nat) == 44) = true by decide,
    Bool.false_eq_true, if_false, if_true, skipWs_nl_indent, skipWs_cons_nonws (show isWs 34 = false by decide), hkey,
    skipWs_cons_nonws (show isWs 58 = false by decide), hidx, hval]

/-- the manifest object with the NAME of the checkpoint member replaced by a name the reader does
    not know: everything else is read as before, the checkpoint is not -/
theorem parseStruct_checkpoint_renamed (m : JMan) (hw : m.WF) (name' : List Nat)
    (hv : validUtf8 (name'.length + 1) name' = true) (hunk : fieldIndex manFields name' = none)
    (rest : List Nat) (fuel : Nat) (hf : m.segments.length + 20 ≤ fuel) :
    ∃ vals, parseStruct fuel .man
        ([123] ++ member 1 true [118, 101, 114, 115, 105, 111, 110] (encNat m.version) ++
          member 1 false [114, 101, 112, 108, 105, 99, 97, 95, 105, 100] (encNat m.rid) ++
          member 1 false [115, 101, 103, 109, 101, 110, 116, 115] (encSegs 1 m.segments) ++
          member 1 false name' (encChkOpt 1 m.checkpoint) ++
          member 1 false [110, 101, 120, 116, 95, 115, 101, 103, 109, 101, 110, 116, 95, 105, 100] (encNat m.next) ++
          closeObj 0 ++ rest) = some (vals, rest) ∧
      buildMan vals = some { m with checkpoint := none } := by
  obtain ⟨f, rfl⟩ : ∃ f, fuel = f + 7 := ⟨fuel - 7, by omega⟩
  obtain ⟨h1, h2, h3, h4, _⟩ := hw
  refine ⟨[(4, .num m.next), (2, .segs m.segments), (1, .num m.rid), (0, .num m.version)], ?_, ?_⟩
  · simp only [List.append_assoc, List.cons_append, List.nil_append]
    conv => lhs; unfold parseStruct
    rw [skipWs_cons_nonws (show isWs 123 = false by decide)]
    simp only
    refine (parseMembers_member (f + 5) .man true 1 [118, 101, 114, 115, 105, 111, 110] (encNat m.version) _ [] 0 .u64
      (.num m.version) _ (by decide) (by decide) rfl (parseField_u64 _ _ _ h1 (sepHead_member _ _ _ _))).trans ?_
    refine (parseMembers_member (f + 4) .man false 1 [114, 101, 112, 108, 105, 99, 97, 95, 105, 100] (encNat m.rid) _ _ 1 .u64
      (.num m.rid) _ (by decide) (by decide) rfl (parseField_u64 _ _ _ h2 (sepHead_member _ _ _ _))).trans ?_
    refine (parseMembers_member (f + 3) .man false 1 [115, 101, 103, 109, 101, 110, 116, 115] (encSegs 1 m.segments) _ _ 2 .segs
      (.segs m.segments) _ (by decide) (by decide) rfl (parseField_segs _ _ _ _ h4 (by omega))).trans ?_
    refine (parseMembers_unknown (f + 2) .man 1 name' (encChkOpt 1 m.checkpoint) _ _ _ hv hunk
      (skipValue_encChkOpt 1 m.checkpoint _)).trans ?_
    refine (parseMembers_member (f + 1) .man false 1 [110, 101, 120, 116, 95, 115, 101, 103, 109, 101, 110, 116, 95, 105, 100]
      (encNat m.next) _ _ 4 .u64 (.num m.next) _ (by decide) (by decide) rfl
      (parseField_u64 _ _ _ h3 (sepHead_closeObj _ _))).trans ?_
    exact parseMembers_close f .man 0 rest _
  · simp [buildMan, getNum, List.lookup]

end ManifestJson
end RedisVerif
