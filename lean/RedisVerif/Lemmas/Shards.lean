import RedisVerif.Model.Shards
import RedisVerif.Lemmas.NMap

/-!
  Lemmas about the sharding-layer model (`Model/Shards.lean`): locality of the per-shard
  executor, the abstraction `abs`, the home invariant, refinement of every routable command.
-/
namespace RedisVerif
namespace Shards

open NMap

/-! ## lists of shards -/

section lists
variable {ν : Type}

theorem shard_set (st : Shards ν) (i j : Nat) (s : Store ν) :
    shard (st.set i s) j = if i = j ∧ i < st.length then s else shard st j := by
  unfold shard
  simp only [List.getD_eq_getElem?_getD, List.getElem?_set]
  by_cases h : i = j
  · subst h
    by_cases h2 : i < st.length
    · simp [h2]
    · simp [h2]
  · simp [h]

theorem shard_set_self (st : Shards ν) (i : Nat) : st.set i (shard st i) = st := by
  apply List.ext_getElem?
  intro j
  rw [List.getElem?_set]
  by_cases h : i = j
  · subst h
    by_cases h2 : i < st.length
    · simp [h2, shard, List.getD_eq_getElem?_getD]
    · simp [h2]
  · simp [h]

theorem shard_of_ge (st : Shards ν) (i : Nat) (h : st.length ≤ i) : shard st i = [] := by
  unfold shard
  simp [List.getD_eq_getElem?_getD, h]

theorem shard_mem (st : Shards ν) (i : Nat) (h : i < st.length) : shard st i ∈ st := by
  unfold shard
  simp [List.getD_eq_getElem?_getD, h]

theorem mem_shard (st : Shards ν) (s : Store ν) (h : s ∈ st) : ∃ i, i < st.length ∧ shard st i = s := by
  obtain ⟨i, hi, he⟩ := List.getElem_of_mem h
  exact ⟨i, hi, by simp [shard, List.getD_eq_getElem?_getD, hi, he]⟩

end lists

/-! ## the abstraction -/

section absn
variable {ν : Type}

theorem wf_abs (st : Shards ν) (h : ∀ s ∈ st, WF s) : WF (abs st) := by
  induction st with
  | nil => exact wf_nil
  | cons s rest ih =>
    exact wf_merge (h s (by simp)) (ih (fun x hx => h x (by simp [hx])))

theorem get_abs_cons (s : Store ν) (rest : Shards ν) (h : ∀ x ∈ s :: rest, WF x) (k : Nat) :
    get (abs (s :: rest)) k = (get s k).or (get (abs rest) k) := by
  have hs := h s (by simp)
  have hr := wf_abs rest (fun x hx => h x (by simp [hx]))
  show get (merge (fun x _ => x) s (abs rest)) k = _
  rw [get_merge hs hr]
  cases get s k <;> cases get (abs rest) k <;> rfl

/-- if at most shard `i` stores `k`, the union stores what shard `i` stores -/
theorem get_abs_of_unique (st : Shards ν) (h : ∀ s ∈ st, WF s) (k i : Nat)
    (hu : ∀ j, j ≠ i → get (shard st j) k = none) : get (abs st) k = get (shard st i) k := by
  induction st generalizing i with
  | nil => simp [abs, shard]
  | cons s rest ih =>
    rw [get_abs_cons s rest h]
    have hr : ∀ x ∈ rest, WF x := fun x hx => h x (by simp [hx])
    cases i with
    | zero =>
      have h0 : get (abs rest) k = none := by
        rw [ih hr rest.length]
        · rw [shard_of_ge _ _ (Nat.le_refl _)]; rfl
        · intro j _
          have := hu (j + 1) (by omega)
          simpa [shard] using this
      rw [h0]
      show _ = get s k
      cases get s k <;> rfl
    | succ i' =>
      have h0 : get s k = none := by
        have := hu 0 (by omega)
        simpa [shard] using this
      rw [h0]
      show get (abs rest) k = get (shard rest i') k
      apply ih hr
      intro j hj
      have := hu (j + 1) (by omega)
      simpa [shard] using this

end absn

/-! ## the invariant of reachable sharded states -/

/-- `R.N` canonical stores, every stored key in its home shard (`hash_key_bytes`) -/
structure Inv {ν : Type} (R : Routes) (st : Shards ν) : Prop where
  len : st.length = R.N
  wf : ∀ s ∈ st, WF s
  home : ∀ i k, (get (shard st i) k).isSome → R.bytes k = i

/-- both hashes are reduced modulo the shard count -/
def Routes.Valid (R : Routes) : Prop := ∀ k, R.str k < R.N ∧ R.bytes k < R.N

/-- every `hash_key` call site routes like `hash_key_bytes` -/
def Consistent (R : Routes) (fixed : Bool) : Prop := ∀ k, R.gen fixed k = R.bytes k

theorem consistent_fixed (R : Routes) : Consistent R true := fun _ => rfl

theorem consistent_of_routeConsistent (R : Routes) (h : ∀ k, R.str k = R.bytes k) (fixed : Bool) :
    Consistent R fixed := by
  intro k; cases fixed
  · exact h k
  · rfl

section inv
variable {ν : Type} {R : Routes}

theorem Inv.wf_shard {st : Shards ν} (h : Inv R st) (i : Nat) : WF (shard st i) := by
  by_cases hi : i < st.length
  · exact h.wf _ (shard_mem st i hi)
  · rw [shard_of_ge st i (by omega)]; exact wf_nil

theorem Inv.wf_abs {st : Shards ν} (h : Inv R st) : WF (abs st) := Shards.wf_abs st h.wf

theorem Inv.get_abs {st : Shards ν} (h : Inv R st) (k : Nat) :
    get (abs st) k = get (shard st (R.bytes k)) k := by
  apply get_abs_of_unique st h.wf
  intro j hj
  cases hg : get (shard st j) k with
  | none => rfl
  | some v =>
    have := h.home j k (by simp [hg])
    exact absurd this.symm hj

theorem inv_init (R : Routes) : Inv (ν := ν) R (init ν R.N) := by
  refine ⟨by simp [init], ?_, ?_⟩
  · intro s hs
    have : s = [] := by simpa [init] using (List.eq_of_mem_replicate hs)
    subst this; exact wf_nil
  · intro i k hk
    have : shard (init ν R.N) i = [] := by
      unfold shard init
      rw [List.getD_eq_getElem?_getD]
      cases h : (List.replicate R.N ([] : Store ν))[i]? with
      | none => rfl
      | some x =>
        have := List.mem_of_getElem? h
        simpa using (List.eq_of_mem_replicate this)
    rw [this] at hk; simp at hk

theorem abs_init (n : Nat) : abs (init ν n) = [] := by
  induction n with
  | zero => rfl
  | succ n ih =>
    show merge (fun x _ => x) [] (abs (List.replicate n [])) = []
    rw [merge_nil_left]; exact ih

/-- replacing one shard by a canonical store whose keys all live there keeps the invariant -/
theorem Inv.set {st : Shards ν} (h : Inv R st) (i : Nat) (s' : Store ν) (hwf : WF s')
    (hh : ∀ k, (get s' k).isSome → R.bytes k = i) : Inv R (st.set i s') := by
  refine ⟨by simp [h.len], ?_, ?_⟩
  · intro s hs
    rcases List.mem_or_eq_of_mem_set hs with hm | he
    · exact h.wf s hm
    · subst he; exact hwf
  · intro j k hk
    rw [shard_set] at hk
    split at hk
    · rename_i hc; rw [← hc.1]; exact hh k hk
    · exact h.home j k hk

/-- **refinement of one message to one shard**: a transformer `f` that (on canonical stores)
    reads and writes only the keys `K`, all of which live in shard `i`, does to shard `i`
    exactly what it does to the union -/
theorem refine_onShard {ρ : Type} {st : Shards ν} (h : Inv R st) (i : Nat) (hi : i < R.N)
    (f : Store ν → Store ν × ρ) (K : List Nat)
    (hK : ∀ k ∈ K, R.bytes k = i)
    (fwf : ∀ x, WF x → WF (f x).1)
    (fframe : ∀ x k, WF x → k ∉ K → get (f x).1 k = get x k)
    (flocal : ∀ x y, WF x → WF y → (∀ k ∈ K, get x k = get y k) →
        (f x).2 = (f y).2 ∧ ∀ k ∈ K, get (f x).1 k = get (f y).1 k) :
    Inv R (st.set i (f (shard st i)).1) ∧
    abs (st.set i (f (shard st i)).1) = (f (abs st)).1 ∧
    (f (shard st i)).2 = (f (abs st)).2 := by
  have hws := h.wf_shard i
  have hwa := h.wf_abs
  have hagree : ∀ k ∈ K, get (shard st i) k = get (abs st) k := by
    intro k hk; rw [h.get_abs k, hK k hk]
  have hloc := flocal (shard st i) (abs st) hws hwa hagree
  have hinv : Inv R (st.set i (f (shard st i)).1) := by
    apply h.set i _ (fwf _ hws)
    intro k hk
    by_cases hkK : k ∈ K
    · exact hK k hkK
    · rw [fframe _ k hws hkK] at hk
      exact h.home i k hk
  refine ⟨hinv, ?_, hloc.1⟩
  apply NMap.ext hinv.wf_abs (fwf _ hwa)
  intro k
  rw [hinv.get_abs k, shard_set]
  by_cases hkK : k ∈ K
  · have : R.bytes k = i := hK k hkK
    simp only [this, h.len, hi, and_self, if_true]
    exact hloc.2 k hkK
  · rw [fframe _ k hwa hkK, h.get_abs k]
    split
    · rename_i hc
      rw [fframe _ k hws hkK, hc.1]
    · rfl

end inv

/-! ## locality of the per-shard executor -/

/-- the locality laws assumed of the abstract part of the executor: a command reads and writes
    only the keys it names (and keeps the store canonical) -/
structure Exec.Local {S : Sig} (E : Exec S) : Prop where
  wf1 : ∀ s k op, WF s → WF (E.exec1 s k op).1
  frame1 : ∀ s k op k', WF s → k' ≠ k → get (E.exec1 s k op).1 k' = get s k'
  local1 : ∀ s s' k op, WF s → WF s' → get s k = get s' k →
    (E.exec1 s k op).2 = (E.exec1 s' k op).2 ∧ get (E.exec1 s k op).1 k = get (E.exec1 s' k op).1 k
  wf2 : ∀ s a b op, WF s → WF (E.exec2 s a b op).1
  frame2 : ∀ s a b op k', WF s → k' ≠ a → k' ≠ b → get (E.exec2 s a b op).1 k' = get s k'
  local2 : ∀ s s' a b op, WF s → WF s' → get s a = get s' a → get s b = get s' b →
    (E.exec2 s a b op).2 = (E.exec2 s' a b op).2 ∧
    get (E.exec2 s a b op).1 a = get (E.exec2 s' a b op).1 a ∧
    get (E.exec2 s a b op).1 b = get (E.exec2 s' a b op).1 b

/-- the keys a command names -/
def keyList {S : Sig} : Cmd S → List Key
  | .single k _ => [k]
  | .two a b _ => [a, b]
  | .mget ks => ks
  | .mset kvs => kvs.map (·.1)
  | .msetnx kvs => kvs.map (·.1)
  | .del ks => ks
  | .exists ks => ks
  | .fastGet k => [k]
  | .fastSet k _ => [k]
  | .batchGet ks => ks
  | .batchSet kvs => kvs.map (·.1)
  | _ => []

/-- commands whose effect and reply are determined by the keys they name -/
def Keyed {S : Sig} : Cmd S → Bool
  | .keys _ | .dbsize | .flush | .scan _ _ _ | .randomkey => false
  | _ => true

section keyed
variable {S : Sig} (E : Exec S)

theorem wf_foldl_setStr (kvs : List (Key × Bytes)) (x : Store S.Val) (h : WF x) :
    WF (kvs.foldl (setStr E) x) := by
  induction kvs generalizing x with
  | nil => exact h
  | cons kv kvs ih => exact ih _ (wf_insert h)

theorem get_foldl_setStr_frame (kvs : List (Key × Bytes)) (x : Store S.Val) (k : Nat)
    (hk : k ∉ kvs.map (·.1)) : get (kvs.foldl (setStr E) x) k = get x k := by
  induction kvs generalizing x with
  | nil => rfl
  | cons kv kvs ih =>
    simp only [List.map_cons, List.mem_cons, not_or] at hk
    rw [List.foldl_cons, ih _ hk.2]
    unfold setStr
    rw [get_insert]; simp [hk.1]

theorem get_foldl_setStr_congr (kvs : List (Key × Bytes)) (x y : Store S.Val) (k : Nat)
    (h : get x k = get y k) : get (kvs.foldl (setStr E) x) k = get (kvs.foldl (setStr E) y) k := by
  induction kvs generalizing x y with
  | nil => exact h
  | cons kv kvs ih =>
    rw [List.foldl_cons, List.foldl_cons]
    apply ih
    unfold setStr
    rw [get_insert, get_insert, h]

theorem present_congr {x y : Store S.Val} {k : Nat} (h : get x k = get y k) :
    present x k = present y k := by unfold present; rw [h]

theorem wf_delKeys (ks : List Key) (x : Store S.Val) (h : WF x) : WF (delKeys x ks).1 := by
  induction ks generalizing x with
  | nil => exact h
  | cons k ks ih => exact ih _ (wf_erase h)

theorem get_delKeys_frame (ks : List Key) (x : Store S.Val) (h : WF x) (k : Nat) (hk : k ∉ ks) :
    get (delKeys x ks).1 k = get x k := by
  induction ks generalizing x with
  | nil => rfl
  | cons a ks ih =>
    simp only [List.mem_cons, not_or] at hk
    show get (delKeys (erase a x) ks).1 k = _
    rw [ih _ (wf_erase h) hk.2, get_erase h]; simp [hk.1]

theorem get_delKeys_congr (ks : List Key) (x y : Store S.Val) (hx : WF x) (hy : WF y) (k : Nat)
    (h : get x k = get y k) : get (delKeys x ks).1 k = get (delKeys y ks).1 k := by
  induction ks generalizing x y with
  | nil => exact h
  | cons a ks ih =>
    show get (delKeys (erase a x) ks).1 k = get (delKeys (erase a y) ks).1 k
    apply ih _ _ (wf_erase hx) (wf_erase hy)
    rw [get_erase hx, get_erase hy, h]

theorem delKeys_count_congr (ks : List Key) (x y : Store S.Val) (hx : WF x) (hy : WF y)
    (h : ∀ k ∈ ks, get x k = get y k) : (delKeys x ks).2 = (delKeys y ks).2 := by
  induction ks generalizing x y with
  | nil => rfl
  | cons a ks ih =>
    show (if present x a then 1 else 0) + (delKeys (erase a x) ks).2 =
      (if present y a then 1 else 0) + (delKeys (erase a y) ks).2
    rw [present_congr (h a (by simp))]
    rw [ih _ _ (wf_erase hx) (wf_erase hy)]
    intro k hk
    rw [get_erase hx, get_erase hy, h k (by simp [hk])]

theorem mgetSlot_congr {x y : Store S.Val} {k : Nat} (h : get x k = get y k) :
    mgetSlot E x k = mgetSlot E y k := by unfold mgetSlot; rw [h]

theorem getDirect_congr {x y : Store S.Val} {k : Nat} (h : get x k = get y k) :
    getDirect E x k = getDirect E y k := by unfold getDirect; rw [h]

theorem existsCount_congr (ks : List Key) {x y : Store S.Val} (h : ∀ k ∈ ks, get x k = get y k) :
    existsCount x ks = existsCount y ks := by
  unfold existsCount
  congr 1
  apply List.filter_congr
  intro k hk
  exact present_congr (h k hk)

theorem exec_msetnx (x : Store S.Val) (kvs : List (Key × Bytes)) :
    E.exec x (.msetnx kvs) =
      if kvs.any (fun kv => present x kv.1) then (x, .one (.int 0))
      else (kvs.foldl (setStr E) x, .one (.int 1)) := rfl

theorem any_present_congr (kvs : List (Key × Bytes)) {x y : Store S.Val}
    (h : ∀ k ∈ kvs.map (·.1), get x k = get y k) :
    (kvs.any fun kv => present x kv.1) = (kvs.any fun kv => present y kv.1) := by
  induction kvs with
  | nil => rfl
  | cons kv kvs ih =>
    simp only [List.any_cons]
    rw [present_congr (h kv.1 (by simp)), ih (fun k hk => h k (by simp [hk]))]

variable {E}

/-- canonical form is preserved by every keyed command -/
theorem exec_wf (hL : E.Local) (c : Cmd S) (x : Store S.Val) (hx : WF x) : WF (E.exec x c).1 := by
  cases c with
  | single k op => exact hL.wf1 x k op hx
  | two a b op => exact hL.wf2 x a b op hx
  | mset kvs => exact wf_foldl_setStr E kvs x hx
  | msetnx kvs =>
    rw [exec_msetnx]
    split
    · exact hx
    · exact wf_foldl_setStr E kvs x hx
  | del ks => exact wf_delKeys ks x hx
  | flush => exact wf_nil
  | fastSet k v => exact wf_insert hx
  | batchSet kvs => exact wf_foldl_setStr E kvs x hx
  | _ => exact hx

/-- frame: a keyed command leaves every key it does not name alone -/
theorem exec_frame (hL : E.Local) (c : Cmd S) (hc : Keyed c = true) (x : Store S.Val) (hx : WF x)
    (k : Nat) (hk : k ∉ keyList c) : get (E.exec x c).1 k = get x k := by
  cases c with
  | single a op => exact hL.frame1 x a op k hx (by simpa [keyList] using hk)
  | two a b op =>
    simp only [keyList, List.mem_cons, List.not_mem_nil, or_false, not_or] at hk
    exact hL.frame2 x a b op k hx hk.1 hk.2
  | mset kvs => exact get_foldl_setStr_frame E kvs x k hk
  | msetnx kvs =>
    rw [exec_msetnx]
    split
    · rfl
    · exact get_foldl_setStr_frame E kvs x k hk
  | del ks => exact get_delKeys_frame ks x hx k hk
  | fastSet a v =>
    show get (insert a (E.str v) x) k = _
    rw [get_insert]
    have : k ≠ a := by simpa [keyList] using hk
    simp [this]
  | batchSet kvs => exact get_foldl_setStr_frame E kvs x k hk
  | keys _ | dbsize | flush | scan _ _ _ | randomkey => simp [Keyed] at hc
  | _ => rfl

/-- locality: reply and the new contents of the named keys depend only on the old contents of
    the named keys -/
theorem exec_local (hL : E.Local) (c : Cmd S) (hc : Keyed c = true) (x y : Store S.Val)
    (hx : WF x) (hy : WF y) (h : ∀ k ∈ keyList c, get x k = get y k) :
    (E.exec x c).2 = (E.exec y c).2 ∧ ∀ k ∈ keyList c, get (E.exec x c).1 k = get (E.exec y c).1 k := by
  cases c with
  | single a op =>
    have := hL.local1 x y a op hx hy (h a (by simp [keyList]))
    refine ⟨this.1, ?_⟩
    intro k hk
    have : k = a := by simpa [keyList] using hk
    subst this; exact this.2
  | two a b op =>
    have := hL.local2 x y a b op hx hy (h a (by simp [keyList])) (h b (by simp [keyList]))
    refine ⟨this.1, ?_⟩
    intro k hk
    simp only [keyList, List.mem_cons, List.not_mem_nil, or_false] at hk
    rcases hk with rfl | rfl
    · exact this.2.1
    · exact this.2.2
  | mget ks =>
    refine ⟨?_, fun k hk => h k hk⟩
    show Reply.many _ = Reply.many _
    congr 1
    apply List.map_congr_left
    intro k hk
    exact mgetSlot_congr E (h k hk)
  | mset kvs =>
    exact ⟨rfl, fun k hk => get_foldl_setStr_congr E kvs x y k (h k hk)⟩
  | msetnx kvs =>
    have hany := any_present_congr kvs h
    rw [exec_msetnx, exec_msetnx]
    rw [hany]
    split
    · exact ⟨rfl, fun k hk => h k hk⟩
    · exact ⟨rfl, fun k hk => get_foldl_setStr_congr E kvs x y k (h k hk)⟩
  | del ks =>
    refine ⟨?_, fun k hk => get_delKeys_congr ks x y hx hy k (h k hk)⟩
    show Reply.one (.int _) = Reply.one (.int _)
    rw [delKeys_count_congr ks x y hx hy h]
  | «exists» ks =>
    refine ⟨?_, fun k hk => h k hk⟩
    show Reply.one (.int _) = Reply.one (.int _)
    rw [existsCount_congr ks h]
  | fastGet a =>
    refine ⟨?_, fun k hk => h k hk⟩
    show Reply.one _ = Reply.one _
    rw [getDirect_congr E (h a (by simp [keyList]))]
  | fastSet a v =>
    refine ⟨rfl, ?_⟩
    intro k hk
    show get (insert a (E.str v) x) k = get (insert a (E.str v) y) k
    rw [get_insert, get_insert, h k hk]
  | batchGet ks =>
    refine ⟨?_, fun k hk => h k hk⟩
    show Reply.many _ = Reply.many _
    congr 1
    apply List.map_congr_left
    intro k hk
    exact getDirect_congr E (h k hk)
  | batchSet kvs =>
    exact ⟨rfl, fun k hk => get_foldl_setStr_congr E kvs x y k (h k hk)⟩
  | keys _ | dbsize | flush | scan _ _ _ | randomkey => simp [Keyed] at hc

end keyed

/-! ## one message to one shard -/

section onshard
variable {S : Sig} {E : Exec S} {R : Routes}

/-- a keyed command all of whose keys live in shard `i`, sent to shard `i` -/
theorem refine_keyed (hL : E.Local) {st : Shards S.Val} (h : Inv R st) (c : Cmd S)
    (hc : Keyed c = true) (i : Nat) (hi : i < R.N) (hK : ∀ k ∈ keyList c, R.bytes k = i) :
    Inv R (onShard E st i c).1 ∧ abs (onShard E st i c).1 = (E.exec (abs st) c).1 ∧
    (onShard E st i c).2 = (E.exec (abs st) c).2 :=
  refine_onShard h i hi (fun x => E.exec x c) (keyList c) hK
    (fun x hx => exec_wf hL c x hx)
    (fun x k hx hk => exec_frame hL c hc x hx k hk)
    (fun x y hx hy hxy => exec_local hL c hc x y hx hy hxy)

end onshard

/-! ## grouping by shard -/

section grouping
variable {α : Type}

theorem zipIdx_filter_map_fst (xs : List α) (p : α → Bool) (n : Nat) :
    ((xs.zipIdx n).filter (fun q => p q.1)).map (·.1) = xs.filter p := by
  induction xs generalizing n with
  | nil => rfl
  | cons x xs ih =>
    simp only [List.zipIdx_cons, List.filter_cons]
    split
    · simp [ih]
    · exact ih _

theorem batch_map_fst (route : α → Nat) (i : Nat) (xs : List α) :
    (batch route i xs).map (·.1) = xs.filter (fun x => route x == i) :=
  zipIdx_filter_map_fst xs (fun x => route x == i) 0

end grouping

section grouped
variable {S : Sig} (E : Exec S) {α : Type}

/-- the first `n` shards processed by `groupedN` -/
def groupedPrefix (n : Nat) (route : α → Nat) (st : Shards S.Val) (mk : List α → Cmd S)
    (xs : List α) : Shards S.Val × List Reply :=
  (List.range n).foldl (fun acc i =>
      let b := (batch route i xs).map (·.1)
      if b.isEmpty then acc else
      let r := onShard E acc.1 i (mk b)
      (r.1, acc.2 ++ [r.2]))
    (st, [])

theorem groupedPrefix_succ (n : Nat) (route : α → Nat) (st : Shards S.Val) (mk : List α → Cmd S)
    (xs : List α) :
    groupedPrefix E (n + 1) route st mk xs =
      (let acc := groupedPrefix E n route st mk xs
       let b := (batch route n xs).map (·.1)
       if b.isEmpty then acc else
       let r := onShard E acc.1 n (mk b)
       (r.1, acc.2 ++ [r.2])) := by
  unfold groupedPrefix
  rw [List.range_succ, List.foldl_append]
  rfl

/-- what `groupedN` leaves in every shard, and the integer it would sum up -/
theorem groupedPrefix_spec (n : Nat) (route : α → Nat) (st : Shards S.Val) (mk : List α → Cmd S)
    (xs : List α) :
    (groupedPrefix E n route st mk xs).1.length = st.length ∧
    (∀ j, shard (groupedPrefix E n route st mk xs).1 j =
      if j < n ∧ j < st.length ∧ xs.filter (fun x => route x == j) ≠ [] then
        (E.exec (shard st j) (mk (xs.filter (fun x => route x == j)))).1
      else shard st j) ∧
    ((groupedPrefix E n route st mk xs).2.map replyInt).sum =
      ((List.range n).map (fun i =>
        if xs.filter (fun x => route x == i) = [] then 0
        else replyInt (E.exec (shard st i) (mk (xs.filter (fun x => route x == i)))).2)).sum := by
  induction n with
  | zero => simp [groupedPrefix]
  | succ n ih =>
    obtain ⟨ihl, ihs, ihr⟩ := ih
    rw [groupedPrefix_succ]
    simp only [batch_map_fst]
    by_cases hb : xs.filter (fun x => route x == n) = []
    · simp only [hb, List.isEmpty_nil, if_true]
      refine ⟨ihl, ?_, ?_⟩
      · intro j
        rw [ihs j]
        by_cases hjn : j = n
        · subst hjn; simp [hb]
        · have : (j < n + 1) ↔ (j < n) := by omega
          simp only [this]
      · rw [ihr, List.range_succ, List.map_append, List.sum_append]
        simp only [List.map_cons, List.map_nil, List.sum_cons, List.sum_nil, if_pos hb]
        omega
    · have hne : (xs.filter (fun x => route x == n)).isEmpty = false := by
        cases hx : xs.filter (fun x => route x == n) with
        | nil => exact absurd hx hb
        | cons _ _ => rfl
      simp only [hne, Bool.false_eq_true, if_false]
      have hsn : shard (groupedPrefix E n route st mk xs).1 n = shard st n := by
        rw [ihs n]; simp
      refine ⟨by simp [onShard, ihl], ?_, ?_⟩
      · intro j
        simp only [onShard]
        rw [shard_set, ihl, hsn]
        by_cases hjn : n = j
        · subst hjn
          by_cases hlt : n < st.length
          · simp [hlt, hb]
          · simp only [hlt, and_false, if_false, false_and]
            rw [ihs n]; simp
        · simp only [hjn, false_and, if_false]
          rw [ihs j]
          have : (j < n + 1) ↔ (j < n) := by omega
          simp only [this]
      · simp only [onShard]
        rw [List.map_append, List.sum_append, ihr, hsn, List.range_succ, List.map_append,
          List.sum_append]
        simp only [List.map_cons, List.map_nil, List.sum_cons, List.sum_nil, if_neg hb]

theorem groupedN_eq (N : Nat) (route : α → Nat) (st : Shards S.Val) (mk : List α → Cmd S)
    (xs : List α) : groupedN E N route st mk xs = groupedPrefix E N route st mk xs := rfl

end grouped

section groupedRefine
variable {S : Sig} {E : Exec S} {R : Routes} {α : Type}

theorem inv_of_shards {ν : Type} {st : Shards ν} (hl : st.length = R.N)
    (hw : ∀ j, WF (shard st j)) (hh : ∀ j k, (get (shard st j) k).isSome → R.bytes k = j) :
    Inv R st := by
  refine ⟨hl, ?_, hh⟩
  intro s hs
  obtain ⟨i, _, he⟩ := mem_shard st s hs
  rw [← he]; exact hw i

/-- **grouped fan-out** (MSET, multi-key DEL, `fast_batch_set_pipeline`): sending every shard its
    own sub-list (original order) does to the union what the whole list does to one store,
    provided the per-key effect of the command depends only on the items of that key -/
theorem grouped_refine (hL : E.Local) {st : Shards S.Val} (h : Inv R st) (hv : R.Valid)
    (keyOf : α → Key) (mk : List α → Cmd S) (hmk : ∀ l, Keyed (mk l) = true)
    (hkl : ∀ l, keyList (mk l) = l.map keyOf)
    (hfilter : ∀ (a : Store S.Val), WF a → ∀ (xs : List α) (P : α → Bool) (k : Nat),
      (∀ x ∈ xs, keyOf x = k → P x = true) →
      get (E.exec a (mk (xs.filter P))).1 k = get (E.exec a (mk xs)).1 k)
    (xs : List α) :
    Inv R (groupedN E R.N (fun x => R.bytes (keyOf x)) st mk xs).1 ∧
    abs (groupedN E R.N (fun x => R.bytes (keyOf x)) st mk xs).1 = (E.exec (abs st) (mk xs)).1 := by
  rw [groupedN_eq]
  obtain ⟨hlen, hsh, _⟩ := groupedPrefix_spec E R.N (fun x => R.bytes (keyOf x)) st mk xs
  generalize (groupedPrefix E R.N (fun x => R.bytes (keyOf x)) st mk xs).1 = fin at hlen hsh
  -- keys of the sub-list of shard j live in shard j
  have hsub : ∀ j k, k ∈ keyList (mk (xs.filter (fun x => R.bytes (keyOf x) == j))) → R.bytes k = j := by
    intro j k hk
    rw [hkl, List.mem_map] at hk
    obtain ⟨x, hx, rfl⟩ := hk
    have := (List.mem_filter.mp hx).2
    simpa using this
  -- uniform description of every shard's contents
  have hget : ∀ j k, j < R.N → get (shard fin j) k =
      get (E.exec (shard st j) (mk (xs.filter (fun x => R.bytes (keyOf x) == j)))).1 k := by
    intro j k hj
    rw [hsh j]
    split
    · rfl
    · rename_i hc
      have : xs.filter (fun x => R.bytes (keyOf x) == j) = [] := by
        apply Classical.byContradiction
        intro hne
        exact hc ⟨hj, by rw [h.len]; exact hj, hne⟩
      rw [this, exec_frame hL _ (hmk _) _ (h.wf_shard j)]
      rw [hkl]; simp
  have hinv : Inv R fin := by
    apply inv_of_shards (by rw [hlen, h.len])
    · intro j
      rw [hsh j]
      split
      · exact exec_wf hL _ _ (h.wf_shard j)
      · exact h.wf_shard j
    · intro j k hk
      rw [hsh j] at hk
      split at hk
      · by_cases hkK : k ∈ keyList (mk (xs.filter (fun x => R.bytes (keyOf x) == j)))
        · exact hsub j k hkK
        · rw [exec_frame hL _ (hmk _) _ (h.wf_shard j) k hkK] at hk
          exact h.home j k hk
      · exact h.home j k hk
  refine ⟨hinv, ?_⟩
  apply NMap.ext hinv.wf_abs (exec_wf hL _ _ h.wf_abs)
  intro k
  rw [hinv.get_abs k, hget _ k (hv k).2]
  rw [← hfilter (abs st) h.wf_abs xs (fun x => R.bytes (keyOf x) == R.bytes k) k
    (by intro x _ hx; simp [hx])]
  -- shard `bytes k` and the union agree on every key of the sub-list
  have hagree : ∀ k' ∈ keyList (mk (xs.filter (fun x => R.bytes (keyOf x) == R.bytes k))),
      get (shard st (R.bytes k)) k' = get (abs st) k' := by
    intro k' hk'
    rw [h.get_abs k', hsub _ k' hk']
  by_cases hkK : k ∈ keyList (mk (xs.filter (fun x => R.bytes (keyOf x) == R.bytes k)))
  · exact (exec_local hL _ (hmk _) _ _ (h.wf_shard _) h.wf_abs hagree).2 k hkK
  · rw [exec_frame hL _ (hmk _) _ (h.wf_shard _) k hkK, exec_frame hL _ (hmk _) _ h.wf_abs k hkK,
      h.get_abs k]

end groupedRefine

/-! ## single-store facts used by the fan-out commands -/

section single
variable {S : Sig} (E : Exec S)

/-- the final content of key `k` after a run of SETs depends only on the SETs of `k` -/
theorem get_foldl_setStr_filter (kvs : List (Key × Bytes)) (a : Store S.Val) (P : Key × Bytes → Bool)
    (k : Nat) (hP : ∀ x ∈ kvs, x.1 = k → P x = true) :
    get ((kvs.filter P).foldl (setStr E) a) k = get (kvs.foldl (setStr E) a) k := by
  induction kvs generalizing a with
  | nil => rfl
  | cons x kvs ih =>
    have hP' : ∀ y ∈ kvs, y.1 = k → P y = true := fun y hy => hP y (by simp [hy])
    rw [List.filter_cons]
    split
    · exact ih _ hP'
    · rename_i hx
      have hne : x.1 ≠ k := fun he => hx (hP x (by simp) he)
      rw [ih a hP', List.foldl_cons]
      apply get_foldl_setStr_congr
      unfold setStr
      rw [get_insert]
      simp [Ne.symm hne]

theorem get_delKeys_filter (ks : List Key) (a : Store S.Val) (ha : WF a) (P : Key → Bool) (k : Nat)
    (hP : ∀ x ∈ ks, x = k → P x = true) :
    get (delKeys a (ks.filter P)).1 k = get (delKeys a ks).1 k := by
  induction ks generalizing a with
  | nil => rfl
  | cons x ks ih =>
    have hP' : ∀ y ∈ ks, y = k → P y = true := fun y hy => hP y (by simp [hy])
    rw [List.filter_cons]
    split
    · exact ih _ (wf_erase ha) hP'
    · rename_i hx
      have hne : x ≠ k := fun he => hx (hP x (by simp) he)
      rw [ih a ha hP']
      show _ = get (delKeys (erase x a) ks).1 k
      apply get_delKeys_congr ks a (erase x a) ha (wf_erase ha)
      rw [get_erase ha]
      simp [Ne.symm hne]

theorem existsCount_cons (s : Store S.Val) (k : Key) (ks : List Key) :
    existsCount s (k :: ks) = (if present s k then 1 else 0) + existsCount s ks := by
  unfold existsCount
  rw [List.filter_cons]
  split <;> simp <;> omega

end single

theorem sum_map_zero (l : List Nat) : (l.map (fun _ => (0 : Int))).sum = 0 := by
  induction l with
  | nil => rfl
  | cons _ l ih => simp [ih]

theorem sum_range_add_ite (N j : Nat) (hj : j < N) (g : Nat → Int) (c : Int) :
    ((List.range N).map (fun i => g i + if i = j then c else 0)).sum =
      ((List.range N).map g).sum + c := by
  induction N with
  | zero => omega
  | succ n ih =>
    rw [List.range_succ, List.map_append, List.map_append, List.sum_append, List.sum_append]
    simp only [List.map_cons, List.map_nil, List.sum_cons, List.sum_nil]
    by_cases hn : n = j
    · subst hn
      have : ((List.range n).map (fun i => g i + if i = n then c else 0)) = (List.range n).map g := by
        apply List.map_congr_left
        intro i hi
        have : i ≠ n := by have := List.mem_range.mp hi; omega
        simp [this]
      rw [this]; simp; omega
    · rw [ih (by omega)]; simp [hn]; omega

section delcount
variable {S : Sig} {E : Exec S} {R : Routes}

/-- erasing one key in its home shard erases it in the union -/
theorem erase_refine {st : Shards S.Val} (h : Inv R st) (hv : R.Valid) (k : Nat) :
    Inv R (st.set (R.bytes k) (erase k (shard st (R.bytes k)))) ∧
    abs (st.set (R.bytes k) (erase k (shard st (R.bytes k)))) = erase k (abs st) := by
  have := refine_onShard (ρ := Unit) h (R.bytes k) (hv k).2 (fun x => (erase k x, ())) [k]
    (by simp) (fun x hx => wf_erase hx)
    (fun x k' hx hk' => by
      have : k' ≠ k := by simpa using hk'
      show get (erase k x) k' = _
      rw [get_erase hx]; simp [this])
    (fun x y hx hy hxy => ⟨rfl, fun k' hk' => by
      show get (erase k x) k' = get (erase k y) k'
      rw [get_erase hx, get_erase hy, hxy k' hk']⟩)
  exact ⟨this.1, this.2.1⟩

/-- the integers summed by the DEL fan-out add up to the single-store count -/
theorem del_count_sum (ks : List Key) {st : Shards S.Val} (h : Inv R st) (hv : R.Valid) :
    ((List.range R.N).map (fun i =>
        (((delKeys (shard st i) (ks.filter (fun x => R.bytes x == i))).2 : Nat) : Int))).sum =
      (((delKeys (abs st) ks).2 : Nat) : Int) := by
  induction ks generalizing st with
  | nil => exact sum_map_zero _
  | cons k ks ih =>
    obtain ⟨hinv', habs'⟩ := erase_refine h hv k
    have hj := (hv k).2
    have hterm : ∀ i, i ∈ List.range R.N →
        (((delKeys (shard st i) ((k :: ks).filter (fun x => R.bytes x == i))).2 : Nat) : Int) =
        (((delKeys (shard (st.set (R.bytes k) (erase k (shard st (R.bytes k)))) i)
            (ks.filter (fun x => R.bytes x == i))).2 : Nat) : Int) +
          (if i = R.bytes k then ((if present (shard st (R.bytes k)) k then 1 else 0 : Nat) : Int) else 0) := by
      intro i _
      rw [shard_set, List.filter_cons]
      by_cases hik : R.bytes k = i
      · subst hik
        simp only [beq_self_eq_true, if_true, h.len, hj, and_self]
        show (((if present _ k then 1 else 0) + (delKeys (erase k _) _).2 : Nat) : Int) = _
        omega
      · have h1 : (R.bytes k == i) = false := by simp [hik]
        have h2 : ¬ (i = R.bytes k) := fun e => hik e.symm
        simp [h1, hik, h2]
    rw [List.map_congr_left hterm, sum_range_add_ite R.N (R.bytes k) hj, ih hinv', habs']
    show _ = (((if present (abs st) k then 1 else 0) + (delKeys (erase k (abs st)) ks).2 : Nat) : Int)
    have : present (shard st (R.bytes k)) k = present (abs st) k :=
      present_congr (h.get_abs k).symm
    rw [this]; omega

end delcount

/-! ## grouped reads, reassembled by original index -/

theorem foldl_set_getElem? {β : Type} (F : Nat → β) (ps : List (Nat × β)) (res : List β)
    (hF : ∀ p ∈ ps, p.2 = F p.1) (j : Nat) :
    (ps.foldl (fun r p => r.set p.1 p.2) res)[j]? =
      if j < res.length ∧ j ∈ ps.map (·.1) then some (F j) else res[j]? := by
  induction ps generalizing res with
  | nil => simp
  | cons p ps ih =>
    rw [List.foldl_cons, ih _ (fun q hq => hF q (by simp [hq])), List.length_set, List.getElem?_set]
    have hp := hF p (by simp)
    by_cases hlen : j < res.length
    · by_cases hmem : j ∈ ps.map (·.1)
      · simp [hlen, hmem]
      · by_cases hpj : p.1 = j
        · subst hpj; simp [hlen, hmem, hp]
        · have : ¬ (j = p.1) := fun e => hpj e.symm
          simp [hlen, hmem, hpj, this]
    · have hnone : res[j]? = none := List.getElem?_eq_none (by omega)
      by_cases hpj : p.1 = j
      · subst hpj; simp [hlen]
      · simp [hlen, hpj]

theorem foldl_set_length {β : Type} (ps : List (Nat × β)) (res : List β) :
    (ps.foldl (fun r p => r.set p.1 p.2) res).length = res.length := by
  induction ps generalizing res with
  | nil => rfl
  | cons p ps ih => rw [List.foldl_cons, ih, List.length_set]

section gather
variable {S : Sig} (E : Exec S)

def gatherPrefix (n : Nat) (route : Key → Nat) (st : Shards S.Val) (mk : List Key → Cmd S)
    (ks : List Key) : List R1 :=
  (List.range n).foldl (fun res i =>
      let b := batch route i ks
      scatter res (b.map (·.2)) (replyMany (E.exec (shard st i) (mk (b.map (·.1)))).2))
    (List.replicate ks.length R1.nil)

theorem gatherPrefix_spec (n : Nat) (route : Key → Nat) (st : Shards S.Val) (mk : List Key → Cmd S)
    (slot : Store S.Val → Key → R1)
    (hmk : ∀ s l, (E.exec s (mk l)).2 = .many (l.map (slot s))) (ks : List Key) :
    (gatherPrefix E n route st mk ks).length = ks.length ∧
    ∀ (j : Nat) (k : Key), ks[j]? = some k →
      (gatherPrefix E n route st mk ks)[j]? =
        if route k < n then some (slot (shard st (route k)) k) else some R1.nil := by
  induction n with
  | zero =>
    refine ⟨by simp [gatherPrefix], ?_⟩
    intro j k hk
    have hj : j < ks.length := by
      apply Classical.byContradiction; intro hc
      rw [List.getElem?_eq_none (by omega)] at hk; cases hk
    simp [gatherPrefix, hj]
  | succ n ih =>
    obtain ⟨ihl, ihg⟩ := ih
    have hstep : gatherPrefix E (n + 1) route st mk ks =
        scatter (gatherPrefix E n route st mk ks) ((batch route n ks).map (·.2))
          (replyMany (E.exec (shard st n) (mk ((batch route n ks).map (·.1)))).2) := by
      unfold gatherPrefix
      rw [List.range_succ, List.foldl_append]; rfl
    have hz : ((batch route n ks).map (·.2)).zip
        (replyMany (Reply.many (((batch route n ks).map (·.1)).map (slot (shard st n))))) =
        (batch route n ks).map (fun a => (a.2, slot (shard st n) a.1)) := by
      show ((batch route n ks).map (·.2)).zip (((batch route n ks).map (·.1)).map (slot (shard st n))) = _
      rw [List.map_map, List.zip_map']
      rfl
    rw [hstep, hmk]
    unfold scatter
    rw [hz]
    -- the value written at index `i` is the slot of the key at index `i`
    let F : Nat → R1 := fun i => match ks[i]? with
      | some k => slot (shard st (route k)) k
      | none => R1.nil
    have hF : ∀ p ∈ (batch route n ks).map (fun a => (a.2, slot (shard st n) a.1)), p.2 = F p.1 := by
      intro p hp
      obtain ⟨a, ha, rfl⟩ := List.mem_map.mp hp
      have ha' := List.mem_filter.mp ha
      have hget : ks[a.2]? = some a.1 := List.mem_zipIdx_iff_getElem?.mp ha'.1
      have hr : route a.1 = n := by simpa using ha'.2
      show slot (shard st n) a.1 = F a.2
      simp only [F, hget, hr]
    refine ⟨by rw [foldl_set_length, ihl], ?_⟩
    intro j k hk
    have hj : j < ks.length := by
      apply Classical.byContradiction; intro hc
      rw [List.getElem?_eq_none (by omega)] at hk; cases hk
    rw [foldl_set_getElem? F _ _ hF j, ihl, ihg j k hk]
    have hmem : j ∈ ((batch route n ks).map (fun a => (a.2, slot (shard st n) a.1))).map (·.1) ↔
        route k = n := by
      rw [List.map_map]
      constructor
      · intro hm
        obtain ⟨a, ha, rfl⟩ := List.mem_map.mp hm
        have ha' := List.mem_filter.mp ha
        have hget : ks[a.2]? = some a.1 := List.mem_zipIdx_iff_getElem?.mp ha'.1
        have : a.1 = k := by
          have h2 : ks[a.2]? = some k := hk
          rw [hget] at h2; exact Option.some.inj h2
        rw [← this]; simpa using ha'.2
      · intro hr
        apply List.mem_map.mpr
        refine ⟨(k, j), ?_, rfl⟩
        apply List.mem_filter.mpr
        exact ⟨List.mem_zipIdx_iff_getElem?.mpr hk, by simp [hr]⟩
    by_cases hr : route k = n
    · have : F j = slot (shard st (route k)) k := by simp only [F, hk]
      rw [if_pos ⟨hj, hmem.mpr hr⟩, this, if_pos (by omega)]
    · have hm : ¬ _ := fun x => hr (hmem.mp x)
      simp only [hm, and_false, if_false]
      have : (route k < n + 1) ↔ (route k < n) := by omega
      simp only [this]

/-- **grouped reads** (MGET, `fast_batch_get_pipeline`): every slot of the reassembled reply is
    what the key's own shard answers -/
theorem gatherN_spec (N : Nat) (route : Key → Nat) (st : Shards S.Val) (mk : List Key → Cmd S)
    (slot : Store S.Val → Key → R1)
    (hmk : ∀ s l, (E.exec s (mk l)).2 = .many (l.map (slot s))) (ks : List Key)
    (hr : ∀ k ∈ ks, route k < N) :
    gatherN E N route st mk ks = ks.map (fun k => slot (shard st (route k)) k) := by
  obtain ⟨hl, hg⟩ := gatherPrefix_spec E N route st mk slot hmk ks
  show gatherPrefix E N route st mk ks = _
  apply List.ext_getElem?
  intro j
  rw [List.getElem?_map]
  cases hk : ks[j]? with
  | none =>
    have : ks.length ≤ j := by
      apply Classical.byContradiction; intro hc
      have hlt : j < ks.length := by omega
      rw [List.getElem?_eq_getElem hlt] at hk; cases hk
    rw [List.getElem?_eq_none (by omega)]; rfl
  | some k =>
    rw [hg j k hk]
    have := hr k (List.mem_of_getElem? hk)
    simp [this]

end gather

/-! ## commands sent to every shard -/

section fanall
variable {ν : Type}

theorem nodup_keys {m : NMap ν} (h : WF m) : (NMap.keys m).Nodup := by
  unfold NMap.keys List.Nodup
  rw [List.pairwise_map]
  exact List.Pairwise.imp (fun hab => by omega) h

theorem mem_keys_iff {m : NMap ν} (h : WF m) (k : Nat) : k ∈ NMap.keys m ↔ (get m k).isSome := by
  unfold NMap.keys
  constructor
  · intro hk
    obtain ⟨p, hp, rfl⟩ := List.mem_map.mp hk
    rw [get_of_mem h hp]; rfl
  · intro hk
    cases hg : get m k with
    | none => rw [hg] at hk; cases hk
    | some v => exact List.mem_map.mpr ⟨(k, v), mem_of_get hg, rfl⟩

theorem nodup_flatMap_keys (l : List (NMap ν)) (hw : ∀ s ∈ l, WF s)
    (hd : l.Pairwise (fun a b => ∀ k, k ∈ NMap.keys a → k ∉ NMap.keys b)) :
    (l.flatMap NMap.keys).Nodup := by
  induction l with
  | nil => exact List.Pairwise.nil
  | cons s rest ih =>
    rw [List.flatMap_cons, List.nodup_append]
    rw [List.pairwise_cons] at hd
    refine ⟨nodup_keys (hw s (by simp)), ih (fun x hx => hw x (by simp [hx])) hd.2, ?_⟩
    intro a ha b hb hab
    subst hab
    obtain ⟨t, ht, hbt⟩ := List.mem_flatMap.mp hb
    exact hd.1 t ht a ha hbt

variable {R : Routes}

/-- the concatenation of the shards' key lists is a permutation of the union's key list -/
theorem keys_abs_perm {st : Shards ν} (h : Inv R st) :
    (st.flatMap NMap.keys).Perm (NMap.keys (abs st)) := by
  have hnd : (st.flatMap NMap.keys).Nodup := by
    apply nodup_flatMap_keys st h.wf
    rw [List.pairwise_iff_getElem]
    intro i j hi hj hij k hki hkj
    have e1 : shard st i = st[i] := by simp [shard, List.getD_eq_getElem?_getD, hi]
    have e2 : shard st j = st[j] := by simp [shard, List.getD_eq_getElem?_getD, hj]
    have h1 := h.home i k (by rw [e1]; exact (mem_keys_iff (h.wf _ (List.getElem_mem hi)) k).mp hki)
    have h2 := h.home j k (by rw [e2]; exact (mem_keys_iff (h.wf _ (List.getElem_mem hj)) k).mp hkj)
    omega
  rw [List.perm_ext_iff_of_nodup hnd (nodup_keys h.wf_abs)]
  intro k
  rw [mem_keys_iff h.wf_abs, h.get_abs k, List.mem_flatMap]
  constructor
  · rintro ⟨s, hs, hk⟩
    obtain ⟨i, _, he⟩ := mem_shard st s hs
    have hp := (mem_keys_iff (h.wf s hs) k).mp hk
    rw [← he] at hp
    have := h.home i k hp
    rw [this]; exact hp
  · intro hk
    have hlt : R.bytes k < st.length := by
      apply Classical.byContradiction; intro hc
      rw [shard_of_ge st _ (by omega)] at hk; cases hk
    exact ⟨_, shard_mem st _ hlt, (mem_keys_iff (h.wf _ (shard_mem st _ hlt)) k).mpr hk⟩

theorem length_abs {st : Shards ν} (h : Inv R st) :
    (abs st).length = (st.map List.length).sum := by
  have := (keys_abs_perm h).length_eq
  rw [List.length_flatMap] at this
  unfold NMap.keys at this
  simp only [List.length_map] at this
  exact this.symm

theorem abs_all_empty (st : Shards ν) : abs (st.map (fun _ => ([] : Store ν))) = [] := by
  induction st with
  | nil => rfl
  | cons s rest ih =>
    show merge (fun x _ => x) [] (abs (rest.map (fun _ => []))) = []
    rw [merge_nil_left]; exact ih

theorem inv_all_empty {st : Shards ν} (h : Inv R st) : Inv R (st.map (fun _ => ([] : Store ν))) := by
  refine ⟨by simp [h.len], ?_, ?_⟩
  · intro s hs
    obtain ⟨_, _, rfl⟩ := List.mem_map.mp hs
    exact wf_nil
  · intro i k hk
    have : shard (st.map (fun _ => ([] : Store ν))) i = [] := by
      unfold shard
      rw [List.getD_eq_getElem?_getD, List.getElem?_map]
      cases st[i]? <;> rfl
    rw [this] at hk; cases hk

end fanall

/-! ## RANDOMKEY: the shards are asked in turn -/

section randomkey
variable {S : Sig} (E : Exec S)

theorem randomkeyFrom_spec (st : Shards S.Val) (is : List Nat) :
    randomkeyFrom E st is =
      (st, .rkey (is.findSome? (fun i => (NMap.keys (shard st i)).head?))) := by
  induction is with
  | nil => rfl
  | cons i is ih =>
    have h1 : onShard E st i .randomkey = (st, .rkey (NMap.keys (shard st i)).head?) := by
      show (st.set i (shard st i), _) = _
      rw [shard_set_self]; rfl
    unfold randomkeyFrom
    simp only [h1, List.findSome?_cons]
    cases hk : (NMap.keys (shard st i)).head? with
    | none => simp [ih]
    | some k => simp

variable {E} {R : Routes}

/-- **RANDOMKEY on N shards**: the state is untouched; the reply is nil iff the union of the
    shards is empty (iff ONE executor on the union answers nil), and a non-nil reply names a key
    of the union -/
theorem randomkey_spec {st : Shards S.Val} (h : Inv R st) :
    (randomkeyFrom E st (List.range R.N)).1 = st ∧
    ∃ o, (randomkeyFrom E st (List.range R.N)).2 = .rkey o ∧
      (o = none ↔ (NMap.keys (abs st)).head? = none) ∧
      (∀ k, o = some k → present (abs st) k = true) := by
  rw [randomkeyFrom_spec]
  refine ⟨rfl, _, rfl, ?_, ?_⟩
  · rw [List.findSome?_eq_none_iff]
    constructor
    · intro hall
      have hempty : st.flatMap NMap.keys = [] := by
        rw [List.flatMap_eq_nil_iff]
        intro s hs
        obtain ⟨i, hi, he⟩ := mem_shard st s hs
        have := hall i (List.mem_range.mpr (by rw [← h.len]; exact hi))
        rw [he] at this
        cases hk : NMap.keys s with
        | nil => rfl
        | cons a l => rw [hk] at this; cases this
      have := (keys_abs_perm h).length_eq
      rw [hempty] at this
      cases hk : NMap.keys (abs st) with
      | nil => rfl
      | cons a l => rw [hk] at this; cases this
    · intro hnone i _
      have habs : NMap.keys (abs st) = [] := by
        cases hk : NMap.keys (abs st) with
        | nil => rfl
        | cons a l => rw [hk] at hnone; cases hnone
      have hp := keys_abs_perm h
      rw [habs] at hp
      have hempty : st.flatMap NMap.keys = [] := List.perm_nil.mp hp
      by_cases hi : i < st.length
      · have := List.flatMap_eq_nil_iff.mp hempty _ (shard_mem st i hi)
        rw [this]; rfl
      · rw [shard_of_ge st i (by omega)]; rfl
  · intro k hk
    obtain ⟨i, hi, hki⟩ := List.exists_of_findSome?_eq_some hk
    have hmem : k ∈ NMap.keys (shard st i) := List.mem_of_head? hki
    have hlt : i < st.length := by
      apply Classical.byContradiction; intro hc
      rw [shard_of_ge st i (by omega)] at hmem; cases hmem
    have : k ∈ st.flatMap NMap.keys := List.mem_flatMap.mpr ⟨_, shard_mem st i hlt, hmem⟩
    have := (keys_abs_perm h).mem_iff.mp this
    unfold present
    exact (mem_keys_iff h.wf_abs k).mp this

end randomkey

end Shards
end RedisVerif
