import RedisVerif.Lemmas.RedisStep
import RedisVerif.Model.RedisKeys

/-!
  LOCALITY of the M7 reference executor (`Model/Redis.lean`, the model C01 ties to the real
  `CommandExecutor`): every command that names its keys reads and writes only those keys.

  `LocalOn K f` (for `f = fun s => exec s now c`, `K = cmdKeys c`):
    * `wf`    — canonical form is preserved,
    * `frame` — a key outside `K` keeps its entry,
    * `loc`   — the reply and the new entries of the keys in `K` depend only on the old entries of
                the keys in `K` (and on `now` and the command's arguments).
  `exec_localOn` proves it for EVERY command of the model that names keys (single-key commands of all
  five value types, expiry commands, the two-key commands RENAME / RENAMENX / RPOPLPUSH / LMOVE /
  SORT … STORE, the multi-key commands MGET / MSET / MSETNX / DEL / EXISTS); the commands for which
  it is FALSE (KEYS, DBSIZE, FLUSHDB, FLUSHALL, RANDOMKEY) are exactly those with `cmdKeys c = none`
  (`global_not_local`).  This discharges the assumption `Shards.Exec.Local` of the sharding model
  for the executor model that C01 validates (`Lemmas/Shards7.lean`).
-/
namespace RedisVerif.Redis
open RedisVerif NMap

structure LocalOn (K : List Nat) (f : State → State × Reply) : Prop where
  wf : ∀ s, WF s → WF (f s).1
  frame : ∀ s k', WF s → k' ∉ K → get (f s).1 k' = get s k'
  loc : ∀ s s', WF s → WF s' → (∀ k ∈ K, get s k = get s' k) →
    (f s).2 = (f s').2 ∧ ∀ k ∈ K, get (f s).1 k = get (f s').1 k

macro "ge_simp" hs:ident hs':ident : tactic =>
  `(tactic| (simp_all [get_insert, get_erase $hs, get_erase $hs', get_erase (wf_erase $hs),
      get_erase (wf_erase $hs'), get_erase (wf_insert $hs), get_erase (wf_insert $hs')]; done))

macro "fin_tac" hs:ident hs':ident : tactic =>
  `(tactic| (first
      | rfl
      | exact ⟨rfl, rfl⟩
      | ge_simp $hs $hs'
      | (repeat' split
         all_goals (first | rfl | exact ⟨rfl, rfl⟩ | ge_simp $hs $hs'))))

macro "wf_fin" hs:ident : tactic =>
  `(tactic| (
      repeat' split
      all_goals (first
        | exact $hs
        | exact wf_insert $hs
        | exact wf_erase $hs
        | exact wf_insert (wf_erase $hs)
        | exact wf_insert (wf_insert $hs)
        | exact wf_erase (wf_erase $hs)
        | exact wf_erase (wf_insert $hs)
        | exact wf_nil)))

/-- proves `LocalOn [k] (fun s => execX s k …)` for a function that looks at the store only through
    `get s k` and changes it only by `insert k` / `erase k`: case split on the slot of `k` (absent /
    each value type), unfold, finish by `get_insert` / `get_erase` -/
macro "local1" k:term:max "[" defs:Lean.Parser.Tactic.simpLemma,* "]" : tactic =>
  `(tactic| (
    refine ⟨?_, ?_, ?_⟩
    · intro s hs
      cases hg : NMap.get s $k with
      | none => simp only [$defs,*, hg]; wf_fin hs
      | some e =>
        obtain ⟨val, dl⟩ := e
        cases val <;> simp only [$defs,*, hg] <;> wf_fin hs
    · intro s k' hs hk'
      simp only [List.mem_singleton] at hk'
      cases hg : NMap.get s $k with
      | none => simp only [$defs,*, hg]; fin_tac hs hs
      | some e =>
        obtain ⟨val, dl⟩ := e
        cases val <;> simp only [$defs,*, hg] <;> fin_tac hs hs
    · intro s s' hs hs' h
      have hk := h _ (List.mem_singleton.mpr rfl)
      simp only [List.mem_singleton, forall_eq]
      cases hg : NMap.get s' $k with
      | none => rw [hg] at hk; simp only [$defs,*, hk, hg]; fin_tac hs hs'
      | some e =>
        rw [hg] at hk
        obtain ⟨val, dl⟩ := e
        cases val <;> simp only [$defs,*, hk, hg] <;> fin_tac hs hs'))

macro "local2" a:term:max b:term:max "[" defs:Lean.Parser.Tactic.simpLemma,* "]" : tactic =>
  `(tactic| (
    refine ⟨?_, ?_, ?_⟩
    · intro s hs
      cases hga : NMap.get s $a with
      | none =>
        cases hgb : NMap.get s $b with
        | none => simp only [$defs,*, hga, hgb]; wf_fin hs
        | some e =>
          obtain ⟨val, dl⟩ := e
          cases val <;> simp only [$defs,*, hga, hgb] <;> wf_fin hs
      | some ea =>
        obtain ⟨vala, dla⟩ := ea
        cases hgb : NMap.get s $b with
        | none => cases vala <;> simp only [$defs,*, hga, hgb] <;> wf_fin hs
        | some e =>
          obtain ⟨val, dl⟩ := e
          cases vala <;> cases val <;> simp only [$defs,*, hga, hgb] <;> wf_fin hs
    · intro s k' hs hk'
      simp only [List.mem_cons, List.not_mem_nil, or_false, not_or] at hk'
      obtain ⟨hka, hkb⟩ := hk'
      cases hga : NMap.get s $a with
      | none =>
        cases hgb : NMap.get s $b with
        | none => simp only [$defs,*, hga, hgb]; fin_tac hs hs
        | some e =>
          obtain ⟨val, dl⟩ := e
          cases val <;> simp only [$defs,*, hga, hgb] <;> fin_tac hs hs
      | some ea =>
        obtain ⟨vala, dla⟩ := ea
        cases hgb : NMap.get s $b with
        | none => cases vala <;> simp only [$defs,*, hga, hgb] <;> fin_tac hs hs
        | some e =>
          obtain ⟨val, dl⟩ := e
          cases vala <;> cases val <;> simp only [$defs,*, hga, hgb] <;> fin_tac hs hs
    · intro s s' hs hs' h
      have hka := h $a (by simp)
      have hkb := h $b (by simp)
      simp only [List.mem_cons, List.not_mem_nil, or_false, forall_eq_or_imp, forall_eq]
      cases hga : NMap.get s' $a with
      | none =>
        rw [hga] at hka
        cases hgb : NMap.get s' $b with
        | none => rw [hgb] at hkb; simp only [$defs,*, hka, hkb, hga, hgb]; fin_tac hs hs'
        | some e =>
          rw [hgb] at hkb
          obtain ⟨val, dl⟩ := e
          cases val <;> simp only [$defs,*, hka, hkb, hga, hgb] <;> fin_tac hs hs'
      | some ea =>
        rw [hga] at hka
        obtain ⟨vala, dla⟩ := ea
        cases hgb : NMap.get s' $b with
        | none => rw [hgb] at hkb; cases vala <;> simp only [$defs,*, hka, hkb, hga, hgb] <;> fin_tac hs hs'
        | some e =>
          rw [hgb] at hkb
          obtain ⟨val, dl⟩ := e
          cases vala <;> cases val <;> simp only [$defs,*, hka, hkb, hga, hgb] <;> fin_tac hs hs'))

/-! ### single-key commands -/

theorem local_execGet (k : Nat) : LocalOn [k] (fun s => execGet s k) := by
  local1 k [execGet, lookupStr]
theorem local_execSet (now k : Nat) (v : BS) (c : SetCond) (e : SetExp) (g : Bool) : LocalOn [k] (fun s => execSet s now k v c e g) := by
  local1 k [execSet, setCore, wrongStr, oldStrReply, oldDl, lookupStr]
theorem local_execSetNx (k : Nat) (v : BS) : LocalOn [k] (fun s => execSetNx s k v) := by
  local1 k [execSetNx]
theorem local_execAppend (k : Nat) (v : BS) : LocalOn [k] (fun s => execAppend s k v) := by
  local1 k [execAppend, lookupStr]
theorem local_execGetSet (k : Nat) (v : BS) : LocalOn [k] (fun s => execGetSet s k v) := by
  local1 k [execGetSet, lookupStr]
theorem local_execStrLen (k : Nat) : LocalOn [k] (fun s => execStrLen s k) := by
  local1 k [execStrLen, lookupStr]
theorem local_execGetRange (k : Nat) (a b : Int) : LocalOn [k] (fun s => execGetRange s k a b) := by
  local1 k [execGetRange, lookupStr]
theorem local_execSetRange (k off : Nat) (v : BS) : LocalOn [k] (fun s => execSetRange s k off v) := by
  local1 k [execSetRange, lookupStr]
theorem local_execGetEx (now k : Nat) (o : GetExOpt) : LocalOn [k] (fun s => execGetEx s now k o) := by
  local1 k [execGetEx, lookupStr]
theorem local_execGetDel (k : Nat) : LocalOn [k] (fun s => execGetDel s k) := by
  local1 k [execGetDel, lookupStr]
theorem local_execIncrBy (k : Nat) (d : Int) : LocalOn [k] (fun s => execIncrBy s k d) := by
  local1 k [execIncrBy, lookupStr]
theorem local_execDecrBy (k : Nat) (d : Int) : LocalOn [k] (fun s => execDecrBy s k d) := by
  local1 k [execDecrBy, execIncrBy, lookupStr]
theorem local_execType (k : Nat) : LocalOn [k] (fun s => execType s k) := by
  local1 k [execType]
theorem local_execExpire (now k : Nat) (v : Int) (f : ExpFlags) : LocalOn [k] (fun s => execExpire s now k v f) := by
  local1 k [execExpire, expireAt]
theorem local_execPExpire (now k : Nat) (v : Int) (f : ExpFlags) : LocalOn [k] (fun s => execPExpire s now k v f) := by
  local1 k [execPExpire, expireAt]
theorem local_execExpireAt (now k : Nat) (v : Int) (f : ExpFlags) : LocalOn [k] (fun s => execExpireAt s now k v f) := by
  local1 k [execExpireAt, expireAt]
theorem local_execPExpireAt (now k : Nat) (v : Int) (f : ExpFlags) : LocalOn [k] (fun s => execPExpireAt s now k v f) := by
  local1 k [execPExpireAt, expireAt]
theorem local_execTtl (now k : Nat) : LocalOn [k] (fun s => execTtl s now k) := by
  local1 k [execTtl, ttlReply]
theorem local_execPTtl (now k : Nat) : LocalOn [k] (fun s => execPTtl s now k) := by
  local1 k [execPTtl, ttlReply]
theorem local_execExpireTime (k : Nat) : LocalOn [k] (fun s => execExpireTime s k) := by
  local1 k [execExpireTime, ttlReply]
theorem local_execPExpireTime (k : Nat) : LocalOn [k] (fun s => execPExpireTime s k) := by
  local1 k [execPExpireTime, ttlReply]
theorem local_execPersist (k : Nat) : LocalOn [k] (fun s => execPersist s k) := by
  local1 k [execPersist]
theorem local_execPush (sd : Side) (k : Nat) (vs : List BS) : LocalOn [k] (fun s => execPush sd s k vs) := by
  local1 k [execPush, lookupList, putList]
theorem local_execPop (sd : Side) (k : Nat) : LocalOn [k] (fun s => execPop sd s k) := by
  local1 k [execPop, lookupList, putList]
theorem local_execLLen (k : Nat) : LocalOn [k] (fun s => execLLen s k) := by
  local1 k [execLLen, lookupList]
theorem local_execLIndex (k : Nat) (i : Int) : LocalOn [k] (fun s => execLIndex s k i) := by
  local1 k [execLIndex, lookupList]
theorem local_execLRange (k : Nat) (a b : Int) : LocalOn [k] (fun s => execLRange s k a b) := by
  local1 k [execLRange, lookupList]
theorem local_execLSet (k : Nat) (i : Int) (v : BS) : LocalOn [k] (fun s => execLSet s k i v) := by
  local1 k [execLSet, lookupList, putList]
theorem local_execLTrim (k : Nat) (a b : Int) : LocalOn [k] (fun s => execLTrim s k a b) := by
  local1 k [execLTrim, lookupList, putList]
theorem local_execSAdd (k : Nat) (ms : List Nat) : LocalOn [k] (fun s => execSAdd s k ms) := by
  local1 k [execSAdd, lookupSet, putSet]
theorem local_execSRem (k : Nat) (ms : List Nat) : LocalOn [k] (fun s => execSRem s k ms) := by
  local1 k [execSRem, lookupSet, putSet]
theorem local_execSMembers (k : Nat) : LocalOn [k] (fun s => execSMembers s k) := by
  local1 k [execSMembers, lookupSet]
theorem local_execSIsMember (k m : Nat) : LocalOn [k] (fun s => execSIsMember s k m) := by
  local1 k [execSIsMember, lookupSet]
theorem local_execSCard (k : Nat) : LocalOn [k] (fun s => execSCard s k) := by
  local1 k [execSCard, lookupSet]
theorem local_execSPop1 (k : Nat) (ch : List Nat) : LocalOn [k] (fun s => execSPop1 s k ch) := by
  local1 k [execSPop1, lookupSet, putSet]
theorem local_execSPopN (k n : Nat) (ch : List Nat) : LocalOn [k] (fun s => execSPopN s k n ch) := by
  local1 k [execSPopN, lookupSet, putSet]
theorem local_execHSet (k : Nat) (fvs : List (Nat × BS)) : LocalOn [k] (fun s => execHSet s k fvs) := by
  local1 k [execHSet, lookupHash, putHash]
theorem local_execHGet (k f : Nat) : LocalOn [k] (fun s => execHGet s k f) := by
  local1 k [execHGet, lookupHash]
theorem local_execHDel (k : Nat) (fs : List Nat) : LocalOn [k] (fun s => execHDel s k fs) := by
  local1 k [execHDel, lookupHash, putHash]
theorem local_execHGetAll (k : Nat) : LocalOn [k] (fun s => execHGetAll s k) := by
  local1 k [execHGetAll, lookupHash]
theorem local_execHKeys (k : Nat) : LocalOn [k] (fun s => execHKeys s k) := by
  local1 k [execHKeys, lookupHash]
theorem local_execHVals (k : Nat) : LocalOn [k] (fun s => execHVals s k) := by
  local1 k [execHVals, lookupHash]
theorem local_execHLen (k : Nat) : LocalOn [k] (fun s => execHLen s k) := by
  local1 k [execHLen, lookupHash]
theorem local_execHExists (k f : Nat) : LocalOn [k] (fun s => execHExists s k f) := by
  local1 k [execHExists, lookupHash]
theorem local_execHIncrBy (k f : Nat) (d : Int) : LocalOn [k] (fun s => execHIncrBy s k f d) := by
  local1 k [execHIncrBy, lookupHash, putHash]
theorem local_execZAdd (k : Nat) (f : ZFlags) (ps : List (BS × Score)) : LocalOn [k] (fun s => execZAdd s k f ps) := by
  local1 k [execZAdd, lookupZ, putZ]
theorem local_execZRem (k : Nat) (ms : List BS) : LocalOn [k] (fun s => execZRem s k ms) := by
  local1 k [execZRem, lookupZ, putZ]
theorem local_execZRange (k : Nat) (a b : Int) (ws rev : Bool) : LocalOn [k] (fun s => execZRange s k a b ws rev) := by
  local1 k [execZRange, lookupZ]
theorem local_execZScore (k : Nat) (m : BS) : LocalOn [k] (fun s => execZScore s k m) := by
  local1 k [execZScore, lookupZ]
theorem local_execZRank (k : Nat) (m : BS) : LocalOn [k] (fun s => execZRank s k m) := by
  local1 k [execZRank, lookupZ]
theorem local_execZCard (k : Nat) : LocalOn [k] (fun s => execZCard s k) := by
  local1 k [execZCard, lookupZ]
theorem local_execZCount (k : Nat) (lo hi : Option Bound) : LocalOn [k] (fun s => execZCount s k lo hi) := by
  local1 k [execZCount, lookupZ]
theorem local_execZRangeByScore (k : Nat) (lo hi : Option Bound) (ws : Bool) (lim : Option (Int × Nat)) : LocalOn [k] (fun s => execZRangeByScore s k lo hi ws lim) := by
  local1 k [execZRangeByScore, lookupZ]
theorem local_execSortNoStore (k : Nat) : LocalOn [k] (fun s => execSort s k none) := by
  local1 k [execSort, sortSource]

/-! ### two-key commands -/

theorem local_execRename (a b : Nat) : LocalOn [a, b] (fun s => execRename s a b) := by
  local2 a b [execRename]
theorem local_execRenameNx (a b : Nat) : LocalOn [a, b] (fun s => execRenameNx s a b) := by
  local2 a b [execRenameNx]
theorem local_execLMove (a b : Nat) (f t : Side) : LocalOn [a, b] (fun s => execLMove s a b f t) := by
  local2 a b [execLMove, lookupList, putList]
theorem local_execSortStore (a b : Nat) : LocalOn [a, b] (fun s => execSort s a (some b)) := by
  local2 a b [execSort, sortSource, putList]

/-! ### multi-key commands -/

theorem mgetElem_congr {s s' : State} {k : Nat} (h : get s k = get s' k) : mgetElem s k = mgetElem s' k := by
  unfold mgetElem lookupStr; rw [h]

theorem local_execMGet (ks : List Nat) : LocalOn ks (fun s => execMGet s ks) := by
  refine ⟨fun s hs => hs, fun s k' _ _ => rfl, ?_⟩
  intro s s' _ _ h
  refine ⟨?_, fun k hk => h k hk⟩
  show Reply.arr _ = Reply.arr _
  congr 1
  exact List.map_congr_left (fun k hk => mgetElem_congr (h k hk))

theorem wf_msetAll (kvs : List (Nat × BS)) (s : State) (hs : WF s) : WF (msetAll s kvs) := by
  induction kvs generalizing s with
  | nil => exact hs
  | cons kv kvs ih => obtain ⟨k, v⟩ := kv; exact ih _ (wf_insert hs)

theorem get_msetAll_frame (kvs : List (Nat × BS)) (s : State) (k' : Nat) (hk : k' ∉ kvs.map (·.1)) :
    get (msetAll s kvs) k' = get s k' := by
  induction kvs generalizing s with
  | nil => rfl
  | cons kv kvs ih =>
    obtain ⟨k, v⟩ := kv
    simp only [List.map_cons, List.mem_cons, not_or] at hk
    show get (msetAll (NMap.insert k _ s) kvs) k' = _
    rw [ih _ hk.2, get_insert]; simp [hk.1]

theorem get_msetAll_congr (kvs : List (Nat × BS)) (s s' : State) (k : Nat) (h : get s k = get s' k) :
    get (msetAll s kvs) k = get (msetAll s' kvs) k := by
  induction kvs generalizing s s' with
  | nil => exact h
  | cons kv kvs ih =>
    obtain ⟨a, v⟩ := kv
    show get (msetAll (NMap.insert a _ s) kvs) k = get (msetAll (NMap.insert a _ s') kvs) k
    apply ih
    rw [get_insert, get_insert, h]

theorem local_execMSet (kvs : List (Nat × BS)) : LocalOn (kvs.map (·.1)) (fun s => execMSet s kvs) :=
  ⟨fun s hs => wf_msetAll kvs s hs, fun s k' _ hk => get_msetAll_frame kvs s k' hk,
   fun s s' _ _ h => ⟨rfl, fun k hk => get_msetAll_congr kvs s s' k (h k hk)⟩⟩

theorem any_isSome_congr (kvs : List (Nat × BS)) {s s' : State}
    (h : ∀ k ∈ kvs.map (·.1), get s k = get s' k) :
    (kvs.any fun p => (get s p.1).isSome) = (kvs.any fun p => (get s' p.1).isSome) := by
  induction kvs with
  | nil => rfl
  | cons kv kvs ih =>
    simp only [List.any_cons]
    rw [h kv.1 (by simp), ih (fun k hk => h k (by simp [hk]))]

theorem local_execMSetNx (kvs : List (Nat × BS)) : LocalOn (kvs.map (·.1)) (fun s => execMSetNx s kvs) := by
  refine ⟨?_, ?_, ?_⟩
  · intro s hs; simp only [execMSetNx]; split
    · exact hs
    · exact wf_msetAll kvs s hs
  · intro s k' _ hk; simp only [execMSetNx]; split
    · rfl
    · exact get_msetAll_frame kvs s k' hk
  · intro s s' _ _ h
    simp only [execMSetNx, any_isSome_congr kvs h]
    split
    · exact ⟨rfl, fun k hk => h k hk⟩
    · exact ⟨rfl, fun k hk => get_msetAll_congr kvs s s' k (h k hk)⟩

theorem wf_delKeys (ks : List Nat) (s : State) (hs : WF s) : WF (delKeys s ks).1 := by
  induction ks generalizing s with
  | nil => exact hs
  | cons k ks ih =>
    simp only [delKeys]
    split
    · exact ih s hs
    · exact ih _ (wf_erase hs)

theorem get_delKeys_frame (ks : List Nat) (s : State) (hs : WF s) (k' : Nat) (hk : k' ∉ ks) :
    get (delKeys s ks).1 k' = get s k' := by
  induction ks generalizing s with
  | nil => rfl
  | cons k ks ih =>
    simp only [List.mem_cons, not_or] at hk
    simp only [delKeys]
    split
    · exact ih s hs hk.2
    · rw [ih _ (wf_erase hs) hk.2, get_erase hs]; simp [hk.1]

theorem delKeys_congr (ks : List Nat) (s s' : State) (hs : WF s) (hs' : WF s')
    (h : ∀ k ∈ ks, get s k = get s' k) :
    (delKeys s ks).2 = (delKeys s' ks).2 ∧ ∀ k ∈ ks, get (delKeys s ks).1 k = get (delKeys s' ks).1 k := by
  induction ks generalizing s s' with
  | nil => exact ⟨rfl, fun _ hk => by cases hk⟩
  | cons a ks ih =>
    have ha := h a (by simp)
    simp only [delKeys]
    cases hg : get s' a with
    | none =>
      rw [hg] at ha
      simp only [ha]
      obtain ⟨e1, e2⟩ := ih s s' hs hs' (fun k hk => h k (by simp [hk]))
      refine ⟨e1, ?_⟩
      intro k hk
      by_cases hm : k ∈ ks
      · exact e2 k hm
      · rw [get_delKeys_frame ks s hs k hm, get_delKeys_frame ks s' hs' k hm]
        exact h k hk
    | some e =>
      rw [hg] at ha
      simp only [ha]
      have hh : ∀ k ∈ ks, get (erase a s) k = get (erase a s') k := by
        intro k hk; rw [get_erase hs, get_erase hs', h k (by simp [hk])]
      obtain ⟨e1, e2⟩ := ih _ _ (wf_erase hs) (wf_erase hs') hh
      refine ⟨by rw [e1], ?_⟩
      intro k hk
      by_cases hm : k ∈ ks
      · exact e2 k hm
      · rw [get_delKeys_frame ks _ (wf_erase hs) k hm, get_delKeys_frame ks _ (wf_erase hs') k hm,
          get_erase hs, get_erase hs', h k hk]

theorem local_execDel (ks : List Nat) : LocalOn ks (fun s => execDel s ks) := by
  refine ⟨fun s hs => wf_delKeys ks s hs, fun s k' hs hk => get_delKeys_frame ks s hs k' hk, ?_⟩
  intro s s' hs hs' h
  obtain ⟨e1, e2⟩ := delKeys_congr ks s s' hs hs' h
  exact ⟨by simp only [execDel, e1], e2⟩

theorem local_execExists (ks : List Nat) : LocalOn ks (fun s => execExists s ks) := by
  refine ⟨fun s hs => hs, fun s k' _ _ => rfl, ?_⟩
  intro s s' _ _ h
  refine ⟨?_, fun k hk => h k hk⟩
  simp only [execExists]
  have : ks.filter (fun k => (get s k).isSome) = ks.filter (fun k => (get s' k).isSome) :=
    List.filter_congr (fun k hk => by rw [h k hk])
  rw [this]

/-! ### every command that names its keys -/

/-- **locality of the reference executor**: every command that names keys reads and writes only
    those keys -/
theorem exec_localOn (now : Nat) (c : Cmd) (K : List Nat) (hK : cmdKeys c = some K) :
    LocalOn K (fun s => exec s now c) := by
  cases c <;> simp only [cmdKeys, Option.some.injEq, reduceCtorEq] at hK <;> try subst hK
  case get k => exact local_execGet k
  case set k v c e g => exact local_execSet now k v c e g
  case setnx k v => exact local_execSetNx k v
  case append k v => exact local_execAppend k v
  case getset k v => exact local_execGetSet k v
  case strlen k => exact local_execStrLen k
  case mget ks => exact local_execMGet ks
  case mset kvs => exact local_execMSet kvs
  case msetnx kvs => exact local_execMSetNx kvs
  case getrange k a b => exact local_execGetRange k a b
  case setrange k o v => exact local_execSetRange k o v
  case getex k o => exact local_execGetEx now k o
  case getdel k => exact local_execGetDel k
  case incr k => exact local_execIncrBy k 1
  case decr k => exact local_execIncrBy k (-1)
  case incrby k d => exact local_execIncrBy k d
  case decrby k d => exact local_execDecrBy k d
  case del ks => exact local_execDel ks
  case «exists» ks => exact local_execExists ks
  case type k => exact local_execType k
  case rename a b => exact local_execRename a b
  case renamenx a b => exact local_execRenameNx a b
  case expire k v f => exact local_execExpire now k v f
  case pexpire k v f => exact local_execPExpire now k v f
  case expireat k v f => exact local_execExpireAt now k v f
  case pexpireat k v f => exact local_execPExpireAt now k v f
  case ttl k => exact local_execTtl now k
  case pttl k => exact local_execPTtl now k
  case expiretime k => exact local_execExpireTime k
  case pexpiretime k => exact local_execPExpireTime k
  case persist k => exact local_execPersist k
  case lpush k vs => exact local_execPush .left k vs
  case rpush k vs => exact local_execPush .right k vs
  case lpop k => exact local_execPop .left k
  case rpop k => exact local_execPop .right k
  case llen k => exact local_execLLen k
  case lindex k i => exact local_execLIndex k i
  case lrange k a b => exact local_execLRange k a b
  case lset k i v => exact local_execLSet k i v
  case ltrim k a b => exact local_execLTrim k a b
  case rpoplpush a b => exact local_execLMove a b .right .left
  case lmove a b f t => exact local_execLMove a b f t
  case sadd k ms => exact local_execSAdd k ms
  case srem k ms => exact local_execSRem k ms
  case smembers k => exact local_execSMembers k
  case sismember k m => exact local_execSIsMember k m
  case scard k => exact local_execSCard k
  case spop k n ch =>
    cases n
    · exact local_execSPop1 k ch
    · exact local_execSPopN k _ ch
  case hset k fvs => exact local_execHSet k fvs
  case hget k f => exact local_execHGet k f
  case hdel k fs => exact local_execHDel k fs
  case hgetall k => exact local_execHGetAll k
  case hkeys k => exact local_execHKeys k
  case hvals k => exact local_execHVals k
  case hlen k => exact local_execHLen k
  case hexists k f => exact local_execHExists k f
  case hincrby k f d => exact local_execHIncrBy k f d
  case zadd k f ps => exact local_execZAdd k f ps
  case zrem k ms => exact local_execZRem k ms
  case zrange k a b ws => exact local_execZRange k a b ws false
  case zrevrange k a b ws => exact local_execZRange k a b ws true
  case zscore k m => exact local_execZScore k m
  case zrank k m => exact local_execZRank k m
  case zcard k => exact local_execZCard k
  case zcount k lo hi => exact local_execZCount k lo hi
  case zrangebyscore k lo hi ws lim => exact local_execZRangeByScore k lo hi ws lim
  case sort k st =>
    cases st with
    | none => simp only [Option.some.injEq] at hK; subst hK; exact local_execSortNoStore k
    | some d => simp only [Option.some.injEq] at hK; subst hK; exact local_execSortStore k d

end RedisVerif.Redis
