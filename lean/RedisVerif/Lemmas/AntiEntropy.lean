import RedisVerif.Model.AntiEntropy
import RedisVerif.Lemmas.NMap
import RedisVerif.Lemmas.Crdt

/-! Helper lemmas for C18 (`Model/AntiEntropy.lean`). -/
namespace RedisVerif
namespace AE

variable {vs : ValueStream} {arr : Arrange}

/-! ## sorting `(key_hash, value_hash)` pairs -/

theorem pairLe_total (a b : Nat × Nat) : pairLe a b = true ∨ pairLe b a = true := by
  unfold pairLe
  simp only [Bool.or_eq_true, Bool.and_eq_true, decide_eq_true_eq, beq_iff_eq]
  omega

theorem pairLe_trans {a b c : Nat × Nat} (h1 : pairLe a b = true) (h2 : pairLe b c = true) :
    pairLe a c = true := by
  unfold pairLe at *
  simp only [Bool.or_eq_true, Bool.and_eq_true, decide_eq_true_eq, beq_iff_eq] at *
  omega

theorem pairLe_antisymm {a b : Nat × Nat} (h1 : pairLe a b = true) (h2 : pairLe b a = true) : a = b := by
  unfold pairLe at *
  simp only [Bool.or_eq_true, Bool.and_eq_true, decide_eq_true_eq, beq_iff_eq] at *
  obtain ⟨a1, a2⟩ := a
  obtain ⟨b1, b2⟩ := b
  simp only [Prod.mk.injEq] at *
  omega

theorem insertPair_perm (e : Nat × Nat) (l : List (Nat × Nat)) : (insertPair e l).Perm (e :: l) := by
  induction l with
  | nil => exact List.Perm.refl _
  | cons x xs ih =>
    simp only [insertPair]
    split
    · exact List.Perm.refl _
    · exact (List.Perm.cons x ih).trans (List.Perm.swap e x xs)

theorem sortPairs_perm (l : List (Nat × Nat)) : (sortPairs l).Perm l := by
  induction l with
  | nil => exact List.Perm.refl _
  | cons x xs ih =>
    simp only [sortPairs, List.foldr_cons]
    exact (insertPair_perm x _).trans (List.Perm.cons x ih)

theorem sorted_insertPair {e : Nat × Nat} {l : List (Nat × Nat)}
    (h : l.Pairwise (fun a b => pairLe a b = true)) :
    (insertPair e l).Pairwise (fun a b => pairLe a b = true) := by
  induction l with
  | nil => simp [insertPair]
  | cons x xs ih =>
    simp only [insertPair]
    rw [List.pairwise_cons] at h
    split
    · rename_i hle
      rw [List.pairwise_cons]
      refine ⟨?_, List.pairwise_cons.mpr h⟩
      intro b hb
      rcases List.mem_cons.mp hb with rfl | hb
      · exact hle
      · exact pairLe_trans hle (h.1 b hb)
    · rename_i hle
      rw [List.pairwise_cons]
      refine ⟨?_, ih h.2⟩
      intro b hb
      rcases List.mem_cons.mp ((insertPair_perm e xs).subset hb) with rfl | hb
      · rcases pairLe_total x b with h' | h'
        · exact h'
        · exact absurd h' hle
      · exact h.1 b hb

theorem sorted_sortPairs (l : List (Nat × Nat)) :
    (sortPairs l).Pairwise (fun a b => pairLe a b = true) := by
  induction l with
  | nil => simp [sortPairs]
  | cons x xs ih =>
    simp only [sortPairs, List.foldr_cons]
    exact sorted_insertPair ih

/-- sorting forgets the order of the input -/
theorem sortPairs_eq_of_perm {l l' : List (Nat × Nat)} (h : l.Perm l') : sortPairs l = sortPairs l' := by
  apply List.Perm.eq_of_pairwise (le := fun a b => pairLe a b = true) _ (sorted_sortPairs l) (sorted_sortPairs l')
  · exact (sortPairs_perm l).trans (h.trans (sortPairs_perm l').symm)
  · intro a b _ _ h1 h2; exact pairLe_antisymm h1 h2

/-! ## iteration order -/

theorem iter_perm {π π' : List Nat} (s : NMap RV) (h : π.Perm π') : (iter π s).Perm (iter π' s) :=
  h.filterMap _

theorem bucketDigests_perm (H : Hasher) (depth : Nat) {π π' : List Nat} (s : NMap RV) (b : Nat)
    (h : π.Perm π') : (bucketDigests H vs depth π s b).Perm (bucketDigests H vs depth π' s b) :=
  ((iter_perm s h).map _).filter _

theorem foldl_maxTs_perm {ds ds' : List KeyDigest} (h : ds.Perm ds') (m : Nat) :
    ds.foldl (fun m d => max m d.timestamp) m = ds'.foldl (fun m d => max m d.timestamp) m := by
  apply h.foldl_eq'
  intro x _ y _ z
  simp only [Nat.max_assoc, Nat.max_comm x.timestamp y.timestamp]

theorem fromDigests_sorted_perm (H : Hasher) {ds ds' : List KeyDigest} (h : ds.Perm ds') :
    fromDigests H true ds = fromDigests H true ds' := by
  unfold fromDigests
  have hlen := h.length_eq
  have he : ds.isEmpty = ds'.isEmpty := by
    cases ds <;> cases ds' <;> simp_all
  rw [he]
  split
  · rfl
  · have hp : hashedPairs true ds = hashedPairs true ds' := by
      unfold hashedPairs
      simp only [if_true]
      exact sortPairs_eq_of_perm (h.map _)
    rw [hp, hlen, foldl_maxTs_perm h]

theorem fromState_sorted_perm (H : Hasher) (depth : Nat) {π π' : List Nat} (s : NMap RV)
    (h : π.Perm π') : fromState H true vs depth π s = fromState H true vs depth π' s := by
  unfold fromState
  have : (List.range (2 ^ depth)).map (fun b => fromDigests H true (bucketDigests H vs depth π s b))
      = (List.range (2 ^ depth)).map (fun b => fromDigests H true (bucketDigests H vs depth π' s b)) := by
    apply List.map_congr_left
    intro b _
    exact fromDigests_sorted_perm H (bucketDigests_perm H depth s b h)
  simp only [this]

/-! ## what the digest looks at -/

/-- the outer time can be read off the value stream (`pinnedStream` and `canonicalStream` start
    with it, `byteStream` with its 8 little-endian bytes): `KeyDigest.timestamp` is then a function
    of the stream -/
def StreamOK (vs : ValueStream) : Prop := ∃ tsOf : List Nat → Nat, ∀ v : RV, tsOf (vs v) = v.ts.time

theorem streamOK_pinned : StreamOK pinnedStream := ⟨fun l => l.headD 0, fun _ => rfl⟩
theorem streamOK_canonical : StreamOK canonicalStream := ⟨fun l => l.headD 0, fun _ => rfl⟩

/-- the projection of a state that the digest is a function of: per key, the value stream -/
def proj (vs : ValueStream) (s : NMap RV) : NMap (List Nat) := s.map fun p => (p.1, vs p.2)

/-- digest of one projected entry -/
def kdOf (H : Hasher) (tsOf : List Nat → Nat) (p : Nat × List Nat) : KeyDigest :=
  { keyHash := H.key p.1, valueHash := H.val p.2, timestamp := tsOf p.2 }

def projBucket (H : Hasher) (vs : ValueStream) (depth b : Nat) (s : NMap RV) : NMap (List Nat) :=
  (proj vs s).filter fun p => H.key p.1 % 2 ^ depth == b

theorem keyDigest_eq_kdOf (H : Hasher) {tsOf : List Nat → Nat} (hvs : ∀ v : RV, tsOf (vs v) = v.ts.time)
    (k : Nat) (v : RV) : keyDigest H vs k v = kdOf H tsOf (k, vs v) := by
  simp only [keyDigest, kdOf, hvs v]

theorem wf_proj {s : NMap RV} (h : NMap.WF s) : NMap.WF (proj vs s) := by
  unfold NMap.WF proj at *
  rw [List.pairwise_map]
  exact h

theorem wf_projBucket {s : NMap RV} (H : Hasher) (depth b : Nat) (h : NMap.WF s) :
    NMap.WF (projBucket H vs depth b s) := List.Pairwise.filter _ (wf_proj h)

/-- two canonical maps with the same entries are equal -/
theorem nmap_eq_of_perm {ν : Type} {a b : NMap ν} (ha : NMap.WF a) (hb : NMap.WF b) (h : a.Perm b) :
    a = b := by
  apply List.Perm.eq_of_pairwise (le := fun x y : Nat × ν => x.1 < y.1) _ ha hb h
  intro x y _ _ h1 h2
  omega

theorem filterMap_eq_self {α : Type} {f : α → Option α} {l : List α} (h : ∀ p ∈ l, f p = some p) :
    l.filterMap f = l := by
  induction l with
  | nil => rfl
  | cons x xs ih =>
    rw [List.filterMap_cons, h x List.mem_cons_self]
    simp only
    rw [ih (fun p hp => h p (List.mem_cons_of_mem _ hp))]

theorem iter_keys {s : NMap RV} (h : NMap.WF s) : iter (NMap.keys s) s = s := by
  unfold iter NMap.keys
  rw [List.filterMap_map]
  have : ∀ p ∈ s, ((fun k => (NMap.get s k).map fun v => (k, v)) ∘ fun p : Nat × RV => p.1) p = some p := by
    intro p hp
    simp only [Function.comp, Crdt.get_of_mem h hp, Option.map_some]
  exact filterMap_eq_self this

theorem iter_valid_perm {π : List Nat} {s : NMap RV} (hs : NMap.WF s) (hπ : ValidOrder π s) :
    (iter π s).Perm s := by
  have := iter_perm s hπ
  rw [iter_keys hs] at this
  exact this

/-- the digests pushed into bucket `b`, up to order, are those of the projected bucket -/
theorem bucketDigests_perm_proj (H : Hasher) {tsOf : List Nat → Nat} (hvs : ∀ v : RV, tsOf (vs v) = v.ts.time)
    (depth : Nat) {π : List Nat} {s : NMap RV}
    (b : Nat) (hs : NMap.WF s) (hπ : ValidOrder π s) :
    (bucketDigests H vs depth π s b).Perm ((projBucket H vs depth b s).map (kdOf H tsOf)) := by
  unfold bucketDigests projBucket proj
  have h1 := ((iter_valid_perm hs hπ).map (fun p => keyDigest H vs p.1 p.2)).filter (fun d => bucketOf depth d == b)
  refine h1.trans ?_
  have hk : (fun p : Nat × RV => keyDigest H vs p.1 p.2) = (kdOf H tsOf ∘ fun p : Nat × RV => (p.1, vs p.2)) := by
    funext p; exact keyDigest_eq_kdOf H hvs p.1 p.2
  rw [hk]
  simp only [List.filter_map, List.map_map]
  exact List.Perm.of_eq rfl

/-! ## ideal hash -/

/-- the idealised hasher: no collisions, and no stream hashes to the value `0` that
    `MerkleNode::empty` uses -/
structure Ideal (H : Hasher) : Prop where
  keyInj : ∀ a b, H.key a = H.key b → a = b
  valInj : ∀ a b, H.val a = H.val b → a = b
  wordsInj : ∀ a b, H.words a = H.words b → a = b
  wordsNe0 : ∀ a, H.words a ≠ 0

def flat (l : List (Nat × Nat)) : List Nat := l.flatMap fun p => [p.1, p.2]

theorem flat_inj {l l' : List (Nat × Nat)} (h : flat l = flat l') : l = l' := by
  induction l generalizing l' with
  | nil =>
    cases l' with
    | nil => rfl
    | cons y ys => simp [flat] at h
  | cons x xs ih =>
    cases l' with
    | nil => simp [flat] at h
    | cons y ys =>
      simp only [flat, List.flatMap_cons, List.cons_append, List.nil_append, List.cons.injEq] at h
      obtain ⟨h1, h2, h3⟩ := h
      rw [ih h3]
      congr 1
      exact Prod.ext h1 h2

theorem perm_of_map_injective {α β : Type} [DecidableEq α] [DecidableEq β] {g : α → β}
    (hg : ∀ x y, g x = g y → x = y) {l l' : List α} (h : (l.map g).Perm (l'.map g)) : l.Perm l' := by
  rw [List.perm_iff_count] at h ⊢
  intro a
  have h1 : ∀ l : List α, List.count (g a) (l.map g) = List.count a l := by
    intro l
    induction l with
    | nil => rfl
    | cons x xs ih =>
      simp only [List.map_cons, List.count_cons, ih]
      congr 1
      by_cases hx : x = a
      · subst hx; simp
      · have : g x ≠ g a := fun hc => hx (hg _ _ hc)
        simp [hx, this]
  rw [← h1 l, ← h1 l']
  exact h (g a)

theorem pair_kdOf_injective {H : Hasher} (hI : Ideal H) (tsOf : List Nat → Nat) (x y : Nat × List Nat)
    (h : ((kdOf H tsOf x).keyHash, (kdOf H tsOf x).valueHash) = ((kdOf H tsOf y).keyHash, (kdOf H tsOf y).valueHash)) :
    x = y := by
  obtain ⟨k, st⟩ := x
  obtain ⟨k', st'⟩ := y
  simp only [kdOf, Prod.mk.injEq] at h
  obtain ⟨h1, h2⟩ := h
  rw [hI.keyInj _ _ h1, hI.valInj _ _ h2]

/-- equal `from_digests` hashes: the same multiset of `(key_hash, value_hash)` pairs was hashed
    (with or without the sort) -/
theorem pairs_perm_of_hash_eq {H : Hasher} (hI : Ideal H) (sb : Bool) {ds ds' : List KeyDigest}
    (h : (fromDigests H sb ds).hash = (fromDigests H sb ds').hash) :
    (ds.map fun d => (d.keyHash, d.valueHash)).Perm (ds'.map fun d => (d.keyHash, d.valueHash)) := by
  unfold fromDigests at h
  cases ds with
  | nil =>
    cases ds' with
    | nil => exact List.Perm.refl _
    | cons y ys =>
      simp only [List.isEmpty_nil, if_true, MerkleNode.empty, List.isEmpty_cons, Bool.false_eq_true,
        if_false] at h
      exact absurd h.symm (hI.wordsNe0 _)
  | cons x xs =>
    cases ds' with
    | nil =>
      simp only [List.isEmpty_nil, if_true, MerkleNode.empty, List.isEmpty_cons, Bool.false_eq_true,
        if_false] at h
      exact absurd h (hI.wordsNe0 _)
    | cons y ys =>
      simp only [List.isEmpty_cons, Bool.false_eq_true, if_false] at h
      have h1 := flat_inj (hI.wordsInj _ _ h)
      unfold hashedPairs at h1
      cases sb with
      | false =>
        simp only [Bool.false_eq_true, if_false] at h1
        rw [h1]
      | true =>
        simp only [if_true] at h1
        exact (sortPairs_perm _).symm.trans (h1 ▸ sortPairs_perm _)

/-- **per bucket**: equal bucket hashes force equal projected buckets (ideal hash), for the
    sorted and for the unsorted fold -/
theorem projBucket_eq_of_hash_eq {H : Hasher} (hI : Ideal H) (hvs : StreamOK vs) (sb : Bool) (depth : Nat) {π π' : List Nat}
    {s t : NMap RV} (b : Nat) (hs : NMap.WF s) (ht : NMap.WF t) (hπ : ValidOrder π s)
    (hπ' : ValidOrder π' t)
    (h : (fromDigests H sb (bucketDigests H vs depth π s b)).hash
        = (fromDigests H sb (bucketDigests H vs depth π' t b)).hash) :
    projBucket H vs depth b s = projBucket H vs depth b t := by
  obtain ⟨tsOf, hvs⟩ := hvs
  have p1 := (bucketDigests_perm_proj H hvs depth b hs hπ).map fun d => (d.keyHash, d.valueHash)
  have p2 := (bucketDigests_perm_proj H hvs depth b ht hπ').map fun d => (d.keyHash, d.valueHash)
  have h2 := p1.symm.trans ((pairs_perm_of_hash_eq hI sb h).trans p2)
  apply nmap_eq_of_perm (wf_projBucket H depth b hs) (wf_projBucket H depth b ht)
  rw [List.map_map, List.map_map] at h2
  exact perm_of_map_injective (fun a b hab => pair_kdOf_injective hI tsOf a b hab) h2

/-- … and conversely equal projected buckets give equal bucket nodes -/
theorem node_eq_of_projBucket_eq (H : Hasher) (hvs : StreamOK vs) (depth : Nat) {π π' : List Nat}
    {s t : NMap RV} (b : Nat) (hs : NMap.WF s) (ht : NMap.WF t) (hπ : ValidOrder π s)
    (hπ' : ValidOrder π' t) (h : projBucket H vs depth b s = projBucket H vs depth b t) :
    fromDigests H true (bucketDigests H vs depth π s b) = fromDigests H true (bucketDigests H vs depth π' t b) := by
  obtain ⟨tsOf, hvs⟩ := hvs
  rw [fromDigests_sorted_perm H (bucketDigests_perm_proj H hvs depth b hs hπ),
    fromDigests_sorted_perm H (bucketDigests_perm_proj H hvs depth b ht hπ'), h]

/-! ## the root hash determines every bucket hash (ideal hash) -/

/-- nodes built by `from_digests` / `combine`: the hash is `0` exactly for the empty node -/
def NodeOK (n : MerkleNode) : Prop := (n.count = 0 ↔ n.hash = 0)

theorem nodeOK_fromDigests {H : Hasher} (hI : Ideal H) (sb : Bool) (ds : List KeyDigest) :
    NodeOK (fromDigests H sb ds) := by
  unfold fromDigests NodeOK
  cases ds with
  | nil => simp [MerkleNode.empty]
  | cons d ds =>
    simp only [List.isEmpty_cons, Bool.false_eq_true, if_false, List.length_cons]
    constructor
    · intro h; omega
    · intro h; exact absurd h (hI.wordsNe0 _)

theorem nodeOK_combine {H : Hasher} (hI : Ideal H) (l r : MerkleNode) : NodeOK (combine H l r) := by
  unfold combine NodeOK
  split
  · simp [MerkleNode.empty]
  · rename_i hc
    simp only []
    constructor
    · intro h; exfalso; apply hc; omega
    · intro h; exact absurd h (hI.wordsNe0 _)

theorem combine_hash_inj {H : Hasher} (hI : Ideal H) {l r l' r' : MerkleNode}
    (hl : NodeOK l) (hr : NodeOK r) (hl' : NodeOK l') (hr' : NodeOK r')
    (h : (combine H l r).hash = (combine H l' r').hash) : l.hash = l'.hash ∧ r.hash = r'.hash := by
  unfold combine at h
  by_cases h1 : l.count = 0 ∧ r.count = 0
  · by_cases h2 : l'.count = 0 ∧ r'.count = 0
    · rw [hl.mp h1.1, hr.mp h1.2, hl'.mp h2.1, hr'.mp h2.2]; exact ⟨rfl, rfl⟩
    · rw [if_pos h1, if_neg h2] at h
      exact absurd h.symm (hI.wordsNe0 _)
  · by_cases h2 : l'.count = 0 ∧ r'.count = 0
    · rw [if_neg h1, if_pos h2] at h
      exact absurd h (hI.wordsNe0 _)
    · rw [if_neg h1, if_neg h2] at h
      have := hI.wordsInj _ _ h
      simp only [List.cons.injEq, and_true] at this
      exact this

theorem foldl_combine_hash_inj {H : Hasher} (hI : Ideal H) :
    ∀ (rest rest' : List MerkleNode) (c c' : MerkleNode), rest.length = rest'.length →
      NodeOK c → NodeOK c' → (∀ n ∈ rest, NodeOK n) → (∀ n ∈ rest', NodeOK n) →
      (rest.foldl (combine H) c).hash = (rest'.foldl (combine H) c').hash →
      c.hash = c'.hash ∧ rest.map (·.hash) = rest'.map (·.hash) := by
  intro rest
  induction rest with
  | nil =>
    intro rest' c c' hlen _ _ _ _ h
    cases rest' with
    | nil => exact ⟨h, rfl⟩
    | cons _ _ => simp at hlen
  | cons b bs ih =>
    intro rest' c c' hlen hc hc' hok hok' h
    cases rest' with
    | nil => simp at hlen
    | cons b' bs' =>
      simp only [List.foldl_cons] at h
      have hb := hok b List.mem_cons_self
      have hb' := hok' b' List.mem_cons_self
      obtain ⟨h1, h2⟩ := ih bs' (combine H c b) (combine H c' b') (by simpa using hlen)
        (nodeOK_combine hI c b) (nodeOK_combine hI c' b')
        (fun n hn => hok n (List.mem_cons_of_mem _ hn)) (fun n hn => hok' n (List.mem_cons_of_mem _ hn)) h
      obtain ⟨h3, h4⟩ := combine_hash_inj hI hc hb hc' hb' h1
      exact ⟨h3, by simp [h4, h2]⟩

theorem rootOf_hash_inj {H : Hasher} (hI : Ideal H) {bs bs' : List MerkleNode}
    (hlen : bs.length = bs'.length) (hok : ∀ n ∈ bs, NodeOK n) (hok' : ∀ n ∈ bs', NodeOK n)
    (h : (rootOf H bs).hash = (rootOf H bs').hash) : bs.map (·.hash) = bs'.map (·.hash) := by
  cases bs with
  | nil =>
    cases bs' with
    | nil => rfl
    | cons _ _ => simp at hlen
  | cons b rest =>
    cases bs' with
    | nil => simp at hlen
    | cons b' rest' =>
      simp only [rootOf] at h
      obtain ⟨h1, h2⟩ := foldl_combine_hash_inj hI rest rest' b b' (by simpa using hlen)
        (hok b List.mem_cons_self) (hok' b' List.mem_cons_self)
        (fun n hn => hok n (List.mem_cons_of_mem _ hn)) (fun n hn => hok' n (List.mem_cons_of_mem _ hn)) h
      simp [h1, h2]

/-! ## a map is determined by its buckets -/

theorem perm_of_buckets {α : Type} [DecidableEq α] (f : α → Nat) (n : Nat) {l l' : List α}
    (hf : ∀ x, f x < n) (h : ∀ b, b < n → l.filter (fun x => f x == b) = l'.filter (fun x => f x == b)) :
    l.Perm l' := by
  rw [List.perm_iff_count]
  intro a
  have h1 : ∀ l : List α, List.count a (l.filter (fun x => f x == f a)) = List.count a l := by
    intro l; exact List.count_filter (by simp)
  rw [← h1 l, ← h1 l', h (f a) (hf a)]

theorem proj_eq_of_buckets (H : Hasher) (depth : Nat) {s t : NMap RV} (hs : NMap.WF s) (ht : NMap.WF t)
    (h : ∀ b, b < 2 ^ depth → projBucket H vs depth b s = projBucket H vs depth b t) : proj vs s = proj vs t := by
  apply nmap_eq_of_perm (wf_proj hs) (wf_proj ht)
  apply perm_of_buckets (fun p => H.key p.1 % 2 ^ depth) (2 ^ depth)
  · intro x; exact Nat.mod_lt _ (Nat.two_pow_pos depth)
  · exact h

theorem fromState_buckets_length (H : Hasher) (sb : Bool) (depth : Nat) (π : List Nat) (s : NMap RV) :
    (fromState H sb vs depth π s).buckets.length = 2 ^ depth := by
  simp [fromState]

theorem fromState_bucket_get (H : Hasher) (sb : Bool) (depth : Nat) (π : List Nat) (s : NMap RV)
    (b : Nat) (hb : b < 2 ^ depth) :
    (fromState H sb vs depth π s).buckets[b]? = some (fromDigests H sb (bucketDigests H vs depth π s b)) := by
  simp [fromState, hb]

/-- **completeness**: with an ideal hash equal root hashes force equal projections -/
theorem proj_eq_of_root_eq {H : Hasher} (hI : Ideal H) (hvs : StreamOK vs) (sb : Bool) (depth : Nat) {π π' : List Nat} {s t : NMap RV}
    (hs : NMap.WF s) (ht : NMap.WF t) (hπ : ValidOrder π s) (hπ' : ValidOrder π' t)
    (h : (fromState H sb vs depth π s).rootHash = (fromState H sb vs depth π' t).rootHash) :
    proj vs s = proj vs t := by
  apply proj_eq_of_buckets H depth hs ht
  intro b hb
  apply projBucket_eq_of_hash_eq hI hvs sb depth b hs ht hπ hπ'
  have hroot : (rootOf H (fromState H sb vs depth π s).buckets).hash
      = (rootOf H (fromState H sb vs depth π' t).buckets).hash := h
  have hmap := rootOf_hash_inj hI
    (by rw [fromState_buckets_length, fromState_buckets_length])
    (by intro n hn; simp only [fromState, List.mem_map] at hn; obtain ⟨_, _, rfl⟩ := hn
        exact nodeOK_fromDigests hI _ _)
    (by intro n hn; simp only [fromState, List.mem_map] at hn; obtain ⟨_, _, rfl⟩ := hn
        exact nodeOK_fromDigests hI _ _) hroot
  have h1 : ((fromState H sb vs depth π s).buckets.map (·.hash))[b]? = ((fromState H sb vs depth π' t).buckets.map (·.hash))[b]? := by
    rw [hmap]
  rw [List.getElem?_map, List.getElem?_map, fromState_bucket_get _ _ _ _ _ _ hb,
    fromState_bucket_get _ _ _ _ _ _ hb] at h1
  simpa using h1

/-- **soundness**: equal projections give equal digests, whatever the two iteration orders -/
theorem fromState_eq_of_proj_eq (H : Hasher) (hvs : StreamOK vs) (depth : Nat) {π π' : List Nat} {s t : NMap RV}
    (hs : NMap.WF s) (ht : NMap.WF t) (hπ : ValidOrder π s) (hπ' : ValidOrder π' t)
    (h : proj vs s = proj vs t) : fromState H true vs depth π s = fromState H true vs depth π' t := by
  unfold fromState
  have : (List.range (2 ^ depth)).map (fun b => fromDigests H true (bucketDigests H vs depth π s b))
      = (List.range (2 ^ depth)).map (fun b => fromDigests H true (bucketDigests H vs depth π' t b)) := by
    apply List.map_congr_left
    intro b _
    apply node_eq_of_projBucket_eq H hvs depth b hs ht hπ hπ'
    unfold projBucket; rw [h]
  simp only [this]

/-! ## divergent buckets -/

theorem mem_divergentBuckets {a b : StateDigest} (h : a.buckets.length = b.buckets.length) (i : Nat) :
    i ∈ divergentBuckets a b ↔ i < a.buckets.length ∧ a.buckets[i]? ≠ b.buckets[i]? := by
  unfold divergentBuckets
  have hdrop : ∀ n : Nat, (List.range n).drop n = [] := by
    intro n; apply List.drop_eq_nil_of_le; simp
  simp only [h, Nat.min_self, hdrop, List.filter_nil, List.append_nil, List.mem_filter, List.mem_range,
    bne_iff_ne, ne_eq]

/-! ## one exchange -/

/-- what a replica holds for a key after merging a received value into it -/
def mergeInto (loc : Option RV) (v : RV) : RV :=
  match loc with
  | some l => RV.merge l v
  | none => v

theorem get_applyDelta {s : NMap RV} (d : Nat × RV) (k : Nat) :
    NMap.get (applyDelta s d) k = if k = d.1 then some (mergeInto (NMap.get s d.1) d.2) else NMap.get s k := by
  unfold applyDelta mergeInto
  cases h : NMap.get s d.1 <;> simp only [NMap.get_insert]

theorem wf_applyDelta {s : NMap RV} (d : Nat × RV) (h : NMap.WF s) : NMap.WF (applyDelta s d) := by
  unfold applyDelta
  cases NMap.get s d.1 <;> exact NMap.wf_insert h

theorem wf_applyDeltas {s : NMap RV} (ds : List (Nat × RV)) (h : NMap.WF s) : NMap.WF (applyDeltas s ds) := by
  unfold applyDeltas
  induction ds generalizing s with
  | nil => exact h
  | cons d ds ih => exact ih (wf_applyDelta d h)

theorem get_applyDeltas (ds : List (Nat × RV)) :
    ∀ (s : NMap RV) (k : Nat), (ds.map (·.1)).Nodup →
      NMap.get (applyDeltas s ds) k =
        match ds.lookup k with
        | some v => some (mergeInto (NMap.get s k) v)
        | none => NMap.get s k := by
  induction ds with
  | nil => intro s k _; rfl
  | cons d ds ih =>
    intro s k hn
    rw [List.map_cons, List.nodup_cons] at hn
    have hstep : applyDeltas s (d :: ds) = applyDeltas (applyDelta s d) ds := rfl
    rw [hstep, ih _ k hn.2, get_applyDelta]
    obtain ⟨dk, dv⟩ := d
    simp only [List.lookup_cons]
    by_cases hk : k = dk
    · subst hk
      have hnone : ds.lookup k = none := by
        rw [List.lookup_eq_none_iff]
        intro p hp
        rw [bne_iff_ne]
        intro heq
        apply hn.1
        rw [List.mem_map]
        exact ⟨p, hp, heq.symm⟩
      simp [hnone]
    · have : (k == dk) = false := by simpa using hk
      simp only [this, if_neg hk]

theorem lookup_filter_key {β : Type} (q : Nat → Bool) (l : List (Nat × β)) (k : Nat) :
    (l.filter fun p => q p.1).lookup k = if q k then l.lookup k else none := by
  induction l with
  | nil => simp
  | cons x xs ih =>
    obtain ⟨xk, xv⟩ := x
    simp only [List.filter_cons]
    by_cases hq : q xk = true
    · simp only [hq, if_true, List.lookup_cons]
      by_cases hk : (k == xk) = true
      · have : k = xk := beq_iff_eq.mp hk
        subst this; simp [hq]
      · simp only [Bool.not_eq_true] at hk
        simp only [hk, ih]
    · simp only [hq, Bool.false_eq_true, if_false, ih, List.lookup_cons]
      by_cases hk : (k == xk) = true
      · have : k = xk := beq_iff_eq.mp hk
        subst this
        simp only [Bool.not_eq_true] at hq
        simp [hq]
      · simp only [Bool.not_eq_true] at hk
        simp only [hk]

theorem lookup_of_get {ν : Type} {s : NMap ν} (k : Nat) : List.lookup k s = NMap.get s k := by
  induction s with
  | nil => rfl
  | cons x xs ih =>
    obtain ⟨xk, xv⟩ := x
    simp only [List.lookup_cons, NMap.get]
    by_cases hk : k = xk
    · subst hk; simp
    · have : (k == xk) = false := by simpa using hk
      simp only [this, if_neg hk, ih]

theorem lookup_perm_of_nodup {β : Type} {l l' : List (Nat × β)} (h : l.Perm l')
    (hn : (l.map (·.1)).Nodup) (k : Nat) : l.lookup k = l'.lookup k := by
  induction h with
  | nil => rfl
  | cons x _ ih =>
    obtain ⟨xk, xv⟩ := x
    rw [List.map_cons, List.nodup_cons] at hn
    simp only [List.lookup_cons]
    rw [ih hn.2]
  | swap x y l =>
    obtain ⟨xk, xv⟩ := x
    obtain ⟨yk, yv⟩ := y
    simp only [List.map_cons, List.nodup_cons, List.mem_cons, not_or] at hn
    simp only [List.lookup_cons]
    by_cases h1 : k = xk
    · by_cases h2 : k = yk
      · exfalso; exact hn.1.1 (h2 ▸ h1 ▸ rfl)
      · have e1 : (k == xk) = true := by simpa using h1
        have e2 : (k == yk) = false := by simpa using h2
        simp [e1, e2]
    · have e1 : (k == xk) = false := by simpa using h1
      simp [e1]
  | trans p1 _ ih1 ih2 =>
    rw [ih1 hn]
    apply ih2
    exact (p1.map (·.1)).nodup_iff.mp hn

theorem keys_nodup {s : NMap RV} (h : NMap.WF s) : (NMap.keys s).Nodup := by
  unfold NMap.keys NMap.WF at *
  rw [List.Nodup, List.pairwise_map]
  exact h.imp (fun hlt => by omega)

theorem lookup_iter {π : List Nat} {s : NMap RV} (hs : NMap.WF s) (hπ : ValidOrder π s) (k : Nat) :
    (iter π s).lookup k = NMap.get s k := by
  rw [← lookup_of_get]
  have hp := iter_valid_perm hs hπ
  apply lookup_perm_of_nodup hp
  have : ((iter π s).map (·.1)).Perm (NMap.keys s) := hp.map _
  exact this.nodup_iff.mpr (keys_nodup hs)

theorem iter_keys_nodup {π : List Nat} {s : NMap RV} (hs : NMap.WF s) (hπ : ValidOrder π s) :
    ((iter π s).map (·.1)).Nodup := by
  have : ((iter π s).map (·.1)).Perm (NMap.keys s) := (iter_valid_perm hs hπ).map _
  exact this.nodup_iff.mpr (keys_nodup hs)

/-- the keys a side would send for the divergent buckets with no limit -/
def candidates (H : Hasher) (depth : Nat) (π : List Nat) (s : NMap RV) (div : List Nat) : List (Nat × RV) :=
  (iter π s).filter fun p => div.contains (H.key p.1 % 2 ^ depth)

/-- an arrangement only reorders -/
def ArrOK (arr : Arrange) : Prop := ∀ l, (arr l).Perm l

theorem arrOK_id : ArrOK (fun l => l) := fun l => List.Perm.refl l

theorem insertByKey_perm (le : Nat → Nat → Bool) (e : Nat × RV) (l : List (Nat × RV)) :
    (insertByKey le e l).Perm (e :: l) := by
  induction l with
  | nil => exact List.Perm.refl _
  | cons x xs ih =>
    simp only [insertByKey]
    split
    · exact List.Perm.refl _
    · exact (List.Perm.cons x ih).trans (List.Perm.swap e x xs)

theorem arrOK_sortByKey (le : Nat → Nat → Bool) : ArrOK (sortByKey le) := by
  intro l
  induction l with
  | nil => exact List.Perm.refl _
  | cons x xs ih =>
    simp only [sortByKey, List.foldr_cons]
    exact (insertByKey_perm le x _).trans (List.Perm.cons x ih)

theorem arrOK_arrangeOf (so : SimOrder) (le : Nat → Nat → Bool) : ArrOK (arrangeOf so le) := by
  cases so
  · exact arrOK_id
  · exact arrOK_sortByKey le

theorem getKeysInBuckets_eq_take (H : Hasher) (depth limit : Nat) (π : List Nat) (s : NMap RV)
    (div : List Nat) :
    getKeysInBuckets arr H vs depth limit π s div = (arr (candidates H depth π s div)).take limit := rfl

theorem getKeysInBuckets_full {H : Hasher} {depth limit : Nat} {π : List Nat} {s : NMap RV}
    {div : List Nat} (harr : ArrOK arr) (h : (candidates H depth π s div).length ≤ limit) :
    getKeysInBuckets arr H vs depth limit π s div = arr (candidates H depth π s div) := by
  rw [getKeysInBuckets_eq_take, List.take_of_length_le (by rw [(harr _).length_eq]; exact h)]

theorem lookup_candidates {H : Hasher} {depth : Nat} {π : List Nat} {s : NMap RV} (div : List Nat)
    (hs : NMap.WF s) (hπ : ValidOrder π s) (k : Nat) :
    (candidates H depth π s div).lookup k
      = if div.contains (H.key k % 2 ^ depth) then NMap.get s k else none := by
  unfold candidates
  rw [lookup_filter_key (fun k => div.contains (H.key k % 2 ^ depth)), lookup_iter hs hπ]

theorem candidates_keys_nodup {H : Hasher} {depth : Nat} {π : List Nat} {s : NMap RV} (div : List Nat)
    (hs : NMap.WF s) (hπ : ValidOrder π s) : ((candidates H depth π s div).map (·.1)).Nodup := by
  unfold candidates
  have := iter_keys_nodup hs hπ
  rw [List.Nodup, List.pairwise_map] at this ⊢
  exact List.Pairwise.filter _ this

/-- after applying the other side's full candidate set -/
theorem get_apply_candidates {H : Hasher} {depth : Nat} {π : List Nat} {s t : NMap RV} (div : List Nat)
    (hs : NMap.WF s) (hπ : ValidOrder π s) (k : Nat) :
    NMap.get (applyDeltas t (candidates H depth π s div)) k
      = if div.contains (H.key k % 2 ^ depth) then optMerge RV.merge (NMap.get t k) (NMap.get s k)
        else NMap.get t k := by
  rw [get_applyDeltas _ _ _ (candidates_keys_nodup div hs hπ), lookup_candidates div hs hπ]
  by_cases hd : div.contains (H.key k % 2 ^ depth) = true
  · simp only [hd, if_true]
    cases h1 : NMap.get s k <;> cases h2 : NMap.get t k <;> simp [optMerge, mergeInto]
  · simp only [hd, Bool.false_eq_true, if_false]

/-- … in whatever arrangement the candidates are sent -/
theorem get_apply_arr_candidates {H : Hasher} {depth : Nat} {π : List Nat} {s t : NMap RV} (div : List Nat)
    (harr : ArrOK arr) (hs : NMap.WF s) (hπ : ValidOrder π s) (k : Nat) :
    NMap.get (applyDeltas t (arr (candidates H depth π s div))) k
      = if div.contains (H.key k % 2 ^ depth) then optMerge RV.merge (NMap.get t k) (NMap.get s k)
        else NMap.get t k := by
  have hp := harr (candidates H depth π s div)
  have hn : ((arr (candidates H depth π s div)).map (·.1)).Nodup :=
    (hp.map (·.1)).nodup_iff.mpr (candidates_keys_nodup div hs hπ)
  rw [get_applyDeltas _ _ _ hn, lookup_perm_of_nodup hp hn, lookup_candidates div hs hπ]
  by_cases hd : div.contains (H.key k % 2 ^ depth) = true
  · simp only [hd, if_true]
    cases h1 : NMap.get s k <;> cases h2 : NMap.get t k <;> simp [optMerge, mergeInto]
  · simp only [hd, Bool.false_eq_true, if_false]

/-! ## key order: the arranged response does not depend on the iteration order -/

/-- the laws of a key order (byte-wise `String::cmp` satisfies them) -/
structure TotalOrder (le : Nat → Nat → Bool) : Prop where
  total : ∀ a b, le a b = true ∨ le b a = true
  trans : ∀ a b c, le a b = true → le b c = true → le a c = true
  antisymm : ∀ a b, le a b = true → le b a = true → a = b

theorem totalOrder_natLe : TotalOrder (fun a b => decide (a ≤ b)) :=
  ⟨fun a b => by simp only [decide_eq_true_eq]; omega,
   fun a b c h1 h2 => by simp only [decide_eq_true_eq] at *; omega,
   fun a b h1 h2 => by simp only [decide_eq_true_eq] at *; omega⟩

theorem sorted_insertByKey {le : Nat → Nat → Bool} (hle : TotalOrder le) {e : Nat × RV} {l : List (Nat × RV)}
    (h : l.Pairwise (fun a b => le a.1 b.1 = true)) :
    (insertByKey le e l).Pairwise (fun a b => le a.1 b.1 = true) := by
  induction l with
  | nil => simp [insertByKey]
  | cons x xs ih =>
    simp only [insertByKey]
    rw [List.pairwise_cons] at h
    split
    · rename_i hc
      rw [List.pairwise_cons]
      refine ⟨?_, List.pairwise_cons.mpr h⟩
      intro b hb
      rcases List.mem_cons.mp hb with rfl | hb
      · exact hc
      · exact hle.trans _ _ _ hc (h.1 b hb)
    · rename_i hc
      rw [List.pairwise_cons]
      refine ⟨?_, ih h.2⟩
      intro b hb
      rcases List.mem_cons.mp ((insertByKey_perm le e xs).subset hb) with rfl | hb
      · rcases hle.total x.1 b.1 with h' | h'
        · exact h'
        · exact absurd h' hc
      · exact h.1 b hb

theorem sorted_sortByKey {le : Nat → Nat → Bool} (hle : TotalOrder le) (l : List (Nat × RV)) :
    (sortByKey le l).Pairwise (fun a b => le a.1 b.1 = true) := by
  induction l with
  | nil => simp [sortByKey]
  | cons x xs ih =>
    simp only [sortByKey, List.foldr_cons]
    exact sorted_insertByKey hle ih

theorem eq_of_key_eq_of_nodup {l : List (Nat × RV)} (hn : (l.map (·.1)).Nodup) {a b : Nat × RV}
    (ha : a ∈ l) (hb : b ∈ l) (h : a.1 = b.1) : a = b := by
  induction l with
  | nil => cases ha
  | cons x xs ih =>
    rw [List.map_cons, List.nodup_cons] at hn
    rcases List.mem_cons.mp ha with rfl | ha' <;> rcases List.mem_cons.mp hb with rfl | hb'
    · rfl
    · exfalso; apply hn.1; rw [h]; exact List.mem_map_of_mem hb'
    · exfalso; apply hn.1; rw [← h]; exact List.mem_map_of_mem ha'
    · exact ih hn.2 ha' hb'

/-- sorting by key forgets the order of the input (distinct keys) -/
theorem sortByKey_eq_of_perm {le : Nat → Nat → Bool} (hle : TotalOrder le) {l l' : List (Nat × RV)}
    (hp : l.Perm l') (hn : (l.map (·.1)).Nodup) : sortByKey le l = sortByKey le l' := by
  have p1 := arrOK_sortByKey le l
  have p2 := arrOK_sortByKey le l'
  apply List.Perm.eq_of_pairwise (le := fun a b : Nat × RV => le a.1 b.1 = true) _
    (sorted_sortByKey hle l) (sorted_sortByKey hle l') (p1.trans (hp.trans p2.symm))
  intro a b ha hb h1 h2
  have ha' : a ∈ l := p1.subset ha
  have hb' : b ∈ l := hp.symm.subset (p2.subset hb)
  exact eq_of_key_eq_of_nodup hn ha' hb' (hle.antisymm _ _ h1 h2)

theorem candidates_perm (H : Hasher) (depth : Nat) {π π' : List Nat} (s : NMap RV) (div : List Nat)
    (h : π.Perm π') : (candidates H depth π s div).Perm (candidates H depth π' s div) :=
  (iter_perm s h).filter _

theorem getKeysInBuckets_sorted_perm {le : Nat → Nat → Bool} (hle : TotalOrder le) (H : Hasher)
    (depth limit : Nat) {π π' : List Nat} {s : NMap RV} (div : List Nat) (hs : NMap.WF s)
    (hπ : ValidOrder π s) (hπ' : ValidOrder π' s) :
    getKeysInBuckets (sortByKey le) H vs depth limit π s div
      = getKeysInBuckets (sortByKey le) H vs depth limit π' s div := by
  rw [getKeysInBuckets_eq_take, getKeysInBuckets_eq_take,
    sortByKey_eq_of_perm hle (candidates_perm H depth s div (hπ.trans hπ'.symm)) (candidates_keys_nodup div hs hπ)]

theorem get_proj (s : NMap RV) (k : Nat) : NMap.get (proj vs s) k = (NMap.get s k).map vs := by
  unfold proj
  induction s with
  | nil => rfl
  | cons x xs ih =>
    simp only [List.map_cons, NMap.get]
    split
    · rfl
    · exact ih

theorem get_projBucket (H : Hasher) (depth b : Nat) (s : NMap RV) (k : Nat) :
    NMap.get (projBucket H vs depth b s) k
      = if H.key k % 2 ^ depth == b then (NMap.get s k).map vs else none := by
  unfold projBucket
  rw [← lookup_of_get, lookup_filter_key (fun k => H.key k % 2 ^ depth == b), lookup_of_get, get_proj]

/-! ## the canonical value stream determines the value

  Every serialiser below is *prefix-injective*: `f a ++ r = f b ++ r'` forces `a = b` and
  `r = r'` (tags and length prefixes make the stream uniquely decodable). -/

def PI {α : Type} (f : α → List Nat) : Prop :=
  ∀ (a b : α) (r r' : List Nat), f a ++ r = f b ++ r' → a = b ∧ r = r'

theorem PI_single : PI (fun n : Nat => [n]) := by
  intro a b r r' h
  simp only [List.cons_append, List.nil_append, List.cons.injEq] at h
  exact h

theorem PI_pairNat : PI (fun p : Nat × Nat => [p.1, p.2]) := by
  intro a b r r' h
  simp only [List.cons_append, List.nil_append, List.cons.injEq] at h
  exact ⟨Prod.ext h.1 h.2.1, h.2.2⟩

theorem flatMap_prefix_inj {α : Type} {f : α → List Nat} (hf : PI f) :
    ∀ (l l' : List α) (r r' : List Nat), l.length = l'.length →
      l.flatMap f ++ r = l'.flatMap f ++ r' → l = l' ∧ r = r' := by
  intro l
  induction l with
  | nil =>
    intro l' r r' hl h
    cases l' with
    | nil => exact ⟨rfl, by simpa using h⟩
    | cons _ _ => simp at hl
  | cons x xs ih =>
    intro l' r r' hl h
    cases l' with
    | nil => simp at hl
    | cons y ys =>
      simp only [List.flatMap_cons, List.append_assoc] at h
      obtain ⟨h1, h2⟩ := hf x y _ _ h
      obtain ⟨h3, h4⟩ := ih ys r r' (by simpa using hl) h2
      exact ⟨by rw [h1, h3], h4⟩

theorem PI_serList {α : Type} {f : α → List Nat} (hf : PI f) : PI (serList f) := by
  intro a b r r' h
  simp only [serList, List.cons_append, List.cons.injEq] at h
  exact flatMap_prefix_inj hf a b r r' h.1 h.2

theorem PI_serBytes : PI serBytes := PI_serList PI_single
theorem PI_serCounts : PI serCounts := PI_serList PI_pairNat
theorem PI_serNSet : PI serNSet := PI_serList PI_single

theorem PI_serOptBytes : PI serOptBytes := by
  intro a b r r' h
  cases a <;> cases b <;> simp only [serOptBytes, List.cons_append, List.nil_append, List.cons.injEq] at h
  · exact ⟨rfl, h.2⟩
  · omega
  · omega
  · obtain ⟨h1, h2⟩ := PI_serBytes _ _ _ _ h.2
    exact ⟨by rw [h1], h2⟩

theorem PI_serLww : PI serLww := by
  intro a b r r' h
  obtain ⟨va, ⟨ta, ra⟩, tba⟩ := a
  obtain ⟨vb, ⟨tb, rb⟩, tbb⟩ := b
  simp only [serLww, serStamp, List.append_assoc] at h
  obtain ⟨h1, h2⟩ := PI_serOptBytes _ _ _ _ h
  simp only [List.cons_append, List.nil_append, List.cons.injEq] at h2
  obtain ⟨h3, h4, h5, h6⟩ := h2
  subst h1; subst h3; subst h4
  have : tba = tbb := by
    cases tba <;> cases tbb <;> simp at h5 <;> rfl
  subst this
  exact ⟨rfl, h6⟩

theorem PI_keyed {β : Type} {g : β → List Nat} (hg : PI g) : PI (fun p : Nat × β => p.1 :: g p.2) := by
  intro a b r r' h
  simp only [List.cons_append, List.cons.injEq] at h
  obtain ⟨h1, h2⟩ := hg _ _ _ _ h.2
  exact ⟨Prod.ext h.1 h1, h2⟩

theorem PI_serCrdt : PI serCrdt := by
  intro a b r r' h
  cases a with
  | lww x =>
    cases b <;> simp only [serCrdt, List.cons_append, List.cons.injEq] at h <;> try omega
    obtain ⟨h1, h2⟩ := PI_serLww _ _ _ _ h.2
    exact ⟨by rw [h1], h2⟩
  | gcounter x =>
    cases b <;> simp only [serCrdt, List.cons_append, List.cons.injEq] at h <;> try omega
    obtain ⟨h1, h2⟩ := PI_serCounts _ _ _ _ h.2
    exact ⟨by rw [h1], h2⟩
  | pncounter x y =>
    cases b <;> simp only [serCrdt, List.cons_append, List.cons.injEq, List.append_assoc] at h <;> try omega
    obtain ⟨h1, h2⟩ := PI_serCounts _ _ _ _ h.2
    obtain ⟨h3, h4⟩ := PI_serCounts _ _ _ _ h2
    exact ⟨by rw [h1, h3], h4⟩
  | gset x =>
    cases b <;> simp only [serCrdt, List.cons_append, List.cons.injEq] at h <;> try omega
    obtain ⟨h1, h2⟩ := PI_serNSet _ _ _ _ h.2
    exact ⟨by rw [h1], h2⟩
  | orset x y =>
    cases b <;> simp only [serCrdt, List.cons_append, List.cons.injEq, List.append_assoc] at h <;> try omega
    obtain ⟨h1, h2⟩ := PI_serList (PI_keyed PI_serNSet) _ _ _ _ h.2
    obtain ⟨h3, h4⟩ := PI_serCounts _ _ _ _ h2
    exact ⟨by rw [h1, h3], h4⟩
  | hash x =>
    cases b <;> simp only [serCrdt, List.cons_append, List.cons.injEq] at h <;> try omega
    obtain ⟨h1, h2⟩ := PI_serList (PI_keyed PI_serLww) _ _ _ _ h.2
    exact ⟨by rw [h1], h2⟩

theorem PI_serOptNat : PI serOptNat := by
  intro a b r r' h
  cases a <;> cases b <;> simp only [serOptNat, List.cons_append, List.nil_append, List.cons.injEq] at h
  · exact ⟨rfl, h.2⟩
  · omega
  · omega
  · exact ⟨by rw [h.2.1], h.2.2⟩

theorem PI_serOptCounts : PI serOptCounts := by
  intro a b r r' h
  cases a <;> cases b <;> simp only [serOptCounts, List.cons_append, List.nil_append, List.cons.injEq] at h
  · exact ⟨rfl, h.2⟩
  · omega
  · omega
  · obtain ⟨h1, h2⟩ := PI_serCounts _ _ _ _ h.2
    exact ⟨by rw [h1], h2⟩

/-- **two values that differ anywhere feed different streams to the value hasher** -/
theorem canonicalStream_inj {v w : RV} (h : canonicalStream v = canonicalStream w) : v = w := by
  obtain ⟨cv, vcv, ev, ⟨tv, rv⟩, rfv⟩ := v
  obtain ⟨cw, vcw, ew, ⟨tw, rw'⟩, rfw⟩ := w
  simp only [canonicalStream, serStamp, List.cons_append, List.nil_append, List.cons.injEq] at h
  obtain ⟨h1, h2, h3⟩ := h
  obtain ⟨h4, h5⟩ := PI_serCrdt _ _ _ _ h3
  obtain ⟨h6, h7⟩ := PI_serOptCounts _ _ _ _ h5
  obtain ⟨h8, h9⟩ := PI_serOptNat _ _ _ _ h7
  have h10 : serOptNat rfv ++ [] = serOptNat rfw ++ [] := by simpa using h9
  obtain ⟨h11, _⟩ := PI_serOptNat _ _ _ _ h10
  subst h1; subst h2; subst h4; subst h6; subst h8; subst h11
  rfl

/-- what the pinned stream determines: outer stamp and live bytes -/
theorem pinnedStream_inj {v w : RV} (h : pinnedStream v = pinnedStream w) :
    v.ts = w.ts ∧ v.get = w.get := by
  obtain ⟨cv, vcv, ev, ⟨tv, rv⟩, rfv⟩ := v
  obtain ⟨cw, vcw, ew, ⟨tw, rw'⟩, rfw⟩ := w
  simp only [pinnedStream, serStamp, List.cons_append, List.nil_append, List.cons.injEq] at h
  obtain ⟨h1, h2, h3⟩ := h
  subst h1; subst h2
  refine ⟨rfl, ?_⟩
  generalize RV.get _ = g1 at h3 ⊢
  generalize RV.get _ = g2 at h3 ⊢
  cases g1 <;> cases g2 <;> simp only [serBytes, serList] at h3
  · rfl
  · simp at h3
  · simp at h3
  · rename_i b1 b2
    have h4 : serBytes b1 ++ [] = serBytes b2 ++ [] := by simpa [serBytes, serList] using h3
    obtain ⟨h5, _⟩ := PI_serBytes _ _ _ _ h4
    rw [h5]

theorem proj_canonical_inj {s t : NMap RV} (h : proj canonicalStream s = proj canonicalStream t) : s = t := by
  unfold proj at h
  induction s generalizing t with
  | nil =>
    cases t with
    | nil => rfl
    | cons _ _ => simp at h
  | cons p ps ih =>
    cases t with
    | nil => simp at h
    | cons q qs =>
      simp only [List.map_cons, List.cons.injEq, Prod.mk.injEq] at h
      obtain ⟨⟨hk, hp⟩, hrest⟩ := h
      rw [ih hrest]
      congr 1
      exact Prod.ext hk (canonicalStream_inj hp)

/-! ## a concrete ideal hasher (non-vacuity of `Ideal`, and a hasher the kernel can run) -/

/-- injective code of a list of naturals: `2^x * (2·code(xs) + 1)` -/
def enc : List Nat → Nat
  | [] => 0
  | x :: xs => 2 ^ x * (2 * enc xs + 1)

theorem pow_mul_odd_inj : ∀ (x y a b : Nat), 2 ^ x * (2 * a + 1) = 2 ^ y * (2 * b + 1) → x = y ∧ a = b := by
  intro x
  induction x with
  | zero =>
    intro y a b h
    cases y with
    | zero => simp at h; omega
    | succ y =>
      exfalso
      rw [Nat.pow_succ, Nat.mul_comm (2 ^ y) 2, Nat.mul_assoc] at h
      generalize 2 ^ y * (2 * b + 1) = m at h
      omega
  | succ x ih =>
    intro y a b h
    cases y with
    | zero =>
      exfalso
      rw [Nat.pow_succ, Nat.mul_comm (2 ^ x) 2, Nat.mul_assoc] at h
      generalize 2 ^ x * (2 * a + 1) = m at h
      omega
    | succ y =>
      rw [Nat.pow_succ, Nat.pow_succ, Nat.mul_comm (2 ^ x) 2, Nat.mul_comm (2 ^ y) 2, Nat.mul_assoc,
        Nat.mul_assoc] at h
      have h' : 2 ^ x * (2 * a + 1) = 2 ^ y * (2 * b + 1) := by omega
      obtain ⟨h1, h2⟩ := ih y a b h'
      exact ⟨by omega, h2⟩

theorem enc_pos (x : Nat) (xs : List Nat) : 0 < enc (x :: xs) := by
  simp only [enc]
  exact Nat.mul_pos (Nat.two_pow_pos x) (by omega)

theorem enc_inj : ∀ (l l' : List Nat), enc l = enc l' → l = l' := by
  intro l
  induction l with
  | nil =>
    intro l' h
    cases l' with
    | nil => rfl
    | cons y ys => have := enc_pos y ys; simp only [enc] at h this; omega
  | cons x xs ih =>
    intro l' h
    cases l' with
    | nil => have := enc_pos x xs; simp only [enc] at h this; omega
    | cons y ys =>
      simp only [enc] at h
      obtain ⟨h1, h2⟩ := pow_mul_odd_inj _ _ _ _ h
      rw [h1, ih ys h2]

/-- a pairing function of polynomial growth: `(a+b)² + b` -/
def sqpair (a b : Nat) : Nat := (a + b) * (a + b) + b

theorem sqpair_inj {a b a' b' : Nat} (h : sqpair a b = sqpair a' b') : a = a' ∧ b = b' := by
  unfold sqpair at h
  have key : ∀ s s' c c' : Nat, c ≤ s → s * s + c = s' * s' + c' → ¬ s < s' := by
    intro s s' c c' hc he hlt
    have h1 : (s + 1) * (s + 1) ≤ s' * s' := Nat.mul_le_mul hlt hlt
    have h2 : (s + 1) * (s + 1) = s * s + 2 * s + 1 := by
      rw [Nat.add_mul, Nat.mul_add, Nat.mul_one, Nat.one_mul]; omega
    rw [h2] at h1
    generalize s * s = q at *
    generalize s' * s' = q' at *
    omega
  have hs : a + b = a' + b' := by
    rcases Nat.lt_trichotomy (a + b) (a' + b') with h1 | h1 | h1
    · exact absurd h1 (key _ _ b b' (by omega) h)
    · exact h1
    · exact absurd h1 (key _ _ b' b (by omega) h.symm)
  rw [hs] at h
  generalize (a' + b') * (a' + b') = q at h
  omega

/-- injective code of a list whose elements may be large -/
def encS : List Nat → Nat
  | [] => 0
  | x :: xs => sqpair x (encS xs) + 1

theorem encS_inj : ∀ (l l' : List Nat), encS l = encS l' → l = l' := by
  intro l
  induction l with
  | nil =>
    intro l' h
    cases l' with
    | nil => rfl
    | cons y ys => simp only [encS] at h; omega
  | cons x xs ih =>
    intro l' h
    cases l' with
    | nil => simp only [encS] at h; omega
    | cons y ys =>
      simp only [encS] at h
      obtain ⟨h1, h2⟩ := sqpair_inj (by omega : sqpair x (encS xs) = sqpair y (encS ys))
      rw [h1, ih ys h2]

/-- a collision-free hasher that never returns 0 for a word stream: value streams (many small
    words) are coded by `enc`, word streams (few large words) by `encS` -/
def idealH : Hasher :=
  { key := fun k => k
    val := fun l => enc l
    words := fun l => encS l + 1 }

theorem ideal_idealH : Ideal idealH := by
  refine ⟨fun a b h => h, fun a b h => enc_inj a b h, ?_, ?_⟩
  · intro a b h
    simp only [idealH] at h
    exact encS_inj _ _ (by omega)
  · intro a
    simp only [idealH]
    omega

end AE
end RedisVerif
