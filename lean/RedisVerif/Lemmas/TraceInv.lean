/-
  TraceInv — induction principle over operation traces run against an environment (a fault
  oracle).  A run is a left fold of a step function over the list of operations; an invariant
  that every step preserves *for every environment* holds after every run, hence — because the
  environments include "the process dies at call c and every later call is a no-op" — at every
  crash prefix of every run.

  Two forms: a plain invariant, and an invariant relating the state to a ghost value that the
  run accumulates (e.g. the set of confirmed updates).

  Used by C12 and C13 (and C09 / C10 for the WAL traces).
-/
namespace RedisVerif
namespace TraceInv

variable {σ ι : Type}

/-- every step preserves `I` ⇒ every run preserves `I` -/
theorem run_inv (step : σ → ι → σ) (I : σ → Prop)
    (hstep : ∀ s i, I s → I (step s i)) (s0 : σ) (h0 : I s0) (ops : List ι) :
    I (ops.foldl step s0) := by
  induction ops generalizing s0 with
  | nil => exact h0
  | cons i ops ih => exact ih (step s0 i) (hstep s0 i h0)

/-- the same with a side condition on the operations that occur in the trace -/
theorem run_inv_of (step : σ → ι → σ) (I : σ → Prop) (ok : ι → Prop)
    (hstep : ∀ s i, ok i → I s → I (step s i)) (s0 : σ) (h0 : I s0) (ops : List ι)
    (hops : ∀ i ∈ ops, ok i) : I (ops.foldl step s0) := by
  induction ops generalizing s0 with
  | nil => exact h0
  | cons i ops ih =>
    exact ih (step s0 i) (hstep s0 i (hops i (by simp)) h0) (fun j hj => hops j (by simp [hj]))

/-- every prefix of a run satisfies the invariant too (crash = stop after any prefix of the
    operations; crashes *inside* an operation are environments of the step function) -/
theorem prefix_inv (step : σ → ι → σ) (I : σ → Prop)
    (hstep : ∀ s i, I s → I (step s i)) (s0 : σ) (h0 : I s0) (ops : List ι) (n : Nat) :
    I ((ops.take n).foldl step s0) :=
  run_inv step I hstep s0 h0 (ops.take n)

end TraceInv
end RedisVerif
