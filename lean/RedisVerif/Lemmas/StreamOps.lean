import RedisVerif.Lemmas.Stream
import RedisVerif.Lemmas.TraceInv

/-!
  Operational lemmas about M4: what each store call, `load_or_create`, `save`, `flush` and
  `compact` can do to the store **for every fault oracle** (which includes the process dying at
  any call: after `crash` every later call is a no-op, so "the final store of the run under an
  oracle that crashes at call c" is "the store image at crash point c").

  Main results (shared by C12 and C13):
  * `StoreInv`: the manifest object is complete, lists only complete segment objects with ids
    below `next`, and has no checkpoint — preserved by `flushWith` / `compactWith` for all flags,
    all oracles (`storeInv_flush`, `storeInv_compact`);
  * `recover_ok_of_storeInv`: recovery succeeds on every such store;
  * `flush_content`: a flush adds exactly its buffer to the listed content, and only if it
    returns `Ok`; otherwise the listed content is unchanged;
  * `compact_content_repaired`: with the repaired compactor (merge, NotFound-only) and no
    tombstone GC, whatever faults hit, the listed content is either unchanged or the selected
    segments' deltas are replaced by their per-key merge.
-/
namespace RedisVerif
namespace Stream

/-! ### names -/

theorem segName_ne_manifest (id : Nat) : segName id ≠ manifestName := by
  unfold segName manifestName; omega
theorem segName_ne_tmp (id : Nat) : segName id ≠ tmpName := by
  unfold segName tmpName; omega
theorem segName_inj {a b : Nat} (h : segName a = segName b) : a = b := by
  unfold segName at h; omega
theorem tmp_ne_manifest : tmpName ≠ manifestName := by unfold tmpName manifestName; omega

theorem get_erase_ne {ν : Type} {k k' : Nat} (m : NMap ν) (h : k' ≠ k) :
    NMap.get (NMap.erase k m) k' = NMap.get m k' := by
  induction m with
  | nil => rfl
  | cons q m ih =>
    obtain ⟨kq, vq⟩ := q
    simp only [NMap.erase]
    split
    · rename_i heq
      subst heq
      simp [NMap.get, h]
    · simp only [NMap.get]
      split
      · rfl
      · exact ih

/-! ### store calls -/

/-- two stores agree on every name outside `X` -/
def Agree (X : Nat → Prop) (st st' : Store) : Prop := ∀ n, ¬ X n → NMap.get st' n = NMap.get st n

theorem Agree.refl (X : Nat → Prop) (st : Store) : Agree X st st := fun _ _ => rfl

theorem Agree.trans {X : Nat → Prop} {a b c : Store} (h1 : Agree X a b) (h2 : Agree X b c) :
    Agree X a c := fun n hn => (h2 n hn).trans (h1 n hn)

theorem Agree.mono {X Y : Nat → Prop} {a b : Store} (h : Agree X a b) (hxy : ∀ n, X n → Y n) :
    Agree Y a b := fun n hn => h n (fun hx => hn (hxy n hx))

theorem agree_insert (st : Store) (n : Nat) (o : Obj) : Agree (· = n) st (NMap.insert n o st) := by
  intro k hk
  rw [NMap.get_insert]
  simp [hk]

theorem agree_erase (st : Store) (n : Nat) : Agree (· = n) st (NMap.erase n st) := by
  intro k hk
  exact get_erase_ne st hk

theorem put_agree (F : Oracle) (w : World) (n : Nat) (o : Obj) :
    Agree (· = n) w.store (w.put F n o).1.store := by
  unfold World.put
  split
  · exact Agree.refl _ _
  · split <;> first | exact Agree.refl _ _ | exact agree_insert _ _ _

theorem put_ok {F : Oracle} {w w' : World} {n : Nat} {o : Obj} {u : Unit}
    (h : w.put F n o = (w', .ok u)) : w'.store = NMap.insert n o w.store := by
  unfold World.put at h
  split at h
  · cases h
  · split at h <;> cases h
    all_goals rfl

theorem get_store (F : Oracle) (w : World) (n : Nat) : (w.get F n).1.store = w.store := by
  unfold World.get
  split
  · rfl
  · split <;> (try split) <;> rfl

/-- a successful `get` returns the stored object, or — under a read-corruption fault — a body
    that no parser accepts (`torn`) while the object at rest is untouched -/
theorem get_ok {F : Oracle} {w w' : World} {n : Nat} {o : Obj}
    (h : w.get F n = (w', .ok o)) :
    NMap.get w.store n = some o ∨ (o = .torn ∧ ∃ o', NMap.get w.store n = some o') := by
  unfold World.get at h
  split at h
  · cases h
  · split at h
    · split at h
      · rename_i o' hg
        cases h
        exact Or.inl hg
      · cases h
    · split at h
      · rename_i o' hg
        cases h
        exact Or.inr ⟨rfl, o', hg⟩
      · cases h
    all_goals cases h

theorem get_notFound {F : Oracle} {w w' : World} {n : Nat}
    (h : w.get F n = (w', .err true)) : NMap.get w.store n = none := by
  unfold World.get at h
  split at h
  · cases h
  · split at h
    · split at h
      · cases h
      · rename_i hg
        exact hg
    · split at h
      · cases h
      · rename_i hg
        exact hg
    all_goals cases h

theorem rename_ok {F : Oracle} {w w' : World} {a b : Nat} {u : Unit}
    (h : w.rename F a b = (w', .ok u)) :
    ∃ o, NMap.get w.store a = some o ∧ w'.store = NMap.insert b o (NMap.erase a w.store) := by
  unfold World.rename at h
  split at h
  · cases h
  · split at h
    · split at h
      · rename_i o hg
        cases h
        exact ⟨o, hg, rfl⟩
      · cases h
    · split at h
      · rename_i o hg
        cases h
        exact ⟨o, hg, rfl⟩
      · cases h
    all_goals cases h

theorem rename_err {F : Oracle} {w w' : World} {a b : Nat} {e : Bool}
    (h : w.rename F a b = (w', .err e)) : w'.store = w.store := by
  unfold World.rename at h
  split at h
  · cases h; rfl
  · split at h
    · split at h
      · cases h
      · cases h; rfl
    · split at h
      · cases h
      · cases h; rfl
    all_goals (cases h; rfl)

theorem delete_agree (F : Oracle) (w : World) (n : Nat) :
    Agree (· = n) w.store (w.delete F n).1.store := by
  unfold World.delete
  split
  · exact Agree.refl _ _
  · split <;> first | exact Agree.refl _ _ | exact agree_erase _ _

/-! ### load_or_create / save -/

theorem loadOrCreate_store (F : Oracle) (w : World) (rid : Nat) :
    (loadOrCreate F w rid).1.store = w.store := by
  unfold loadOrCreate
  have := get_store F w manifestName
  split <;> rename_i heq <;> rw [heq] at this <;> exact this

/-- what `load_or_create` returns is what the store holds -/
theorem loadOrCreate_some {F : Oracle} {w w1 : World} {rid : Nat} {m : Manifest}
    (h : loadOrCreate F w rid = (w1, some m)) :
    NMap.get w.store manifestName = some (.manifest m) ∨
      (NMap.get w.store manifestName = none ∧ m = Manifest.new rid) := by
  unfold loadOrCreate at h
  split at h
  · rename_i w' m' heq
    cases h
    rcases get_ok heq with hg | ⟨ht, _⟩
    · exact Or.inl hg
    · cases ht
  · cases h
  · rename_i w' heq
    cases h
    exact Or.inr ⟨get_notFound heq, rfl⟩
  · cases h

/-- a successful `save` replaces the manifest object and touches nothing but the temp name -/
theorem saveManifest_true {F : Oracle} {w w' : World} {m : Manifest}
    (h : saveManifest F w m = (w', true)) :
    NMap.get w'.store manifestName = some (.manifest m) ∧
      Agree (fun n => n = manifestName ∨ n = tmpName) w.store w'.store := by
  unfold saveManifest at h
  split at h
  · cases h
  · rename_i w1 u hput
    split at h
    · rename_i w2 u2 hren
      cases h
      obtain ⟨o, ho, hst⟩ := rename_ok hren
      have hw1 := put_ok hput
      rw [hw1, NMap.get_insert] at ho
      simp only [if_true, Option.some.injEq] at ho
      subst ho
      rw [hst]
      refine ⟨by rw [NMap.get_insert]; simp, ?_⟩
      intro n hn
      have h1 : n ≠ manifestName := fun h => hn (Or.inl h)
      have h2 : n ≠ tmpName := fun h => hn (Or.inr h)
      rw [NMap.get_insert, if_neg h1, get_erase_ne _ h2, hw1, NMap.get_insert, if_neg h2]
    · cases h

/-- a failed `save` touches nothing but the temp name -/
theorem saveManifest_false {F : Oracle} {w w' : World} {m : Manifest}
    (h : saveManifest F w m = (w', false)) : Agree (· = tmpName) w.store w'.store := by
  unfold saveManifest at h
  split at h
  · rename_i w1 e hput
    cases h
    have := put_agree F w tmpName (.manifest m)
    rw [hput] at this
    exact this
  · rename_i w1 u hput
    split at h
    · cases h
    · rename_i w2 e hren
      cases h
      rw [rename_err hren]
      have := put_agree F w tmpName (.manifest m)
      rw [hput] at this
      exact this

/-! ### the store invariant -/

/-- the manifest `m` is backed by the store: every listed segment is a complete object with an
    id below `next`; no checkpoint (workloads of push / flush / compact never create one) -/
def Backed (st : Store) (m : Manifest) : Prop :=
  (∀ s ∈ m.segments, s.id < m.next ∧ ∃ ds, NMap.get st (segName s.id) = some (.segment ds)) ∧
  m.checkpoint = none

/-- the store invariant -/
def StoreInv (st : Store) : Prop :=
  NMap.get st manifestName = none ∨ ∃ m, NMap.get st manifestName = some (.manifest m) ∧ Backed st m

theorem backed_new (st : Store) (rid : Nat) : Backed st (Manifest.new rid) := by
  refine ⟨?_, rfl⟩
  intro s hs
  cases hs

theorem backed_congr {st st' : Store} {m : Manifest}
    (h : ∀ s ∈ m.segments, NMap.get st' (segName s.id) = NMap.get st (segName s.id))
    (hb : Backed st m) : Backed st' m := by
  refine ⟨?_, hb.2⟩
  intro s hs
  obtain ⟨h1, ds, h2⟩ := hb.1 s hs
  exact ⟨h1, ds, by rw [h s hs]; exact h2⟩

/-- the invariant survives any change that leaves the manifest object and every listed
    segment object alone -/
theorem storeInv_congr {st st' : Store} (hm : NMap.get st' manifestName = NMap.get st manifestName)
    (hs : ∀ m, NMap.get st manifestName = some (.manifest m) →
      ∀ s ∈ m.segments, NMap.get st' (segName s.id) = NMap.get st (segName s.id))
    (h : StoreInv st) : StoreInv st' := by
  rcases h with h | ⟨m, h1, h2⟩
  · exact Or.inl (by rw [hm]; exact h)
  · exact Or.inr ⟨m, by rw [hm]; exact h1, backed_congr (hs m h1) h2⟩

/-- loading under the invariant yields a backed manifest -/
theorem backed_of_load {F : Oracle} {w w1 : World} {rid : Nat} {m : Manifest}
    (hinv : StoreInv w.store) (h : loadOrCreate F w rid = (w1, some m)) : Backed w.store m := by
  rcases loadOrCreate_some h with h1 | ⟨_, h2⟩
  · rcases hinv with h0 | ⟨m', h3, h4⟩
    · rw [h0] at h1; cases h1
    · rw [h3] at h1
      cases h1
      exact h4
  · subst h2
    exact backed_new _ _

/-- installing a manifest that is backed by the resulting store establishes the invariant -/
theorem storeInv_of_save {F : Oracle} {w w' : World} {m : Manifest}
    (h : saveManifest F w m = (w', true)) (hb : Backed w.store m) : StoreInv w'.store := by
  obtain ⟨h1, h2⟩ := saveManifest_true h
  refine Or.inr ⟨m, h1, backed_congr ?_ hb⟩
  intro s _
  apply h2
  intro hc
  rcases hc with hc | hc
  · exact segName_ne_manifest _ hc
  · exact segName_ne_tmp _ hc

theorem mem_insertSeg' (info : SegInfo) (l : List SegInfo) (s : SegInfo) :
    s ∈ Manifest.insertSeg info l ↔ s = info ∨ s ∈ l := by
  induction l with
  | nil => simp [Manifest.insertSeg]
  | cons t l ih =>
    simp only [Manifest.insertSeg]
    split
    · simp only [List.mem_cons, ih]
      constructor
      · rintro (h | h | h)
        · exact Or.inr (Or.inl h)
        · exact Or.inl h
        · exact Or.inr (Or.inr h)
      · rintro (h | h | h)
        · exact Or.inr (Or.inl h)
        · exact Or.inl h
        · exact Or.inr (Or.inr h)
    · simp

/-! ### recovery succeeds under the invariant -/

theorem recover_ok_of_storeInv {st : Store} (h : StoreInv st) (rid : Nat) :
    ∃ r, recover st rid = .ok r := by
  have hload : ∀ m : Manifest, Backed st m → ∃ ds, loadSegments st (segmentsToLoad m) = .ok ds := by
    intro m hb
    apply loadSegments_ok_iff.mpr
    intro s hs
    have : s ∈ m.segments := by
      unfold segmentsToLoad at hs
      rw [mem_sortBy, hb.2] at hs
      exact hs
    exact (hb.1 s this).2
  unfold recover
  rcases h with h | ⟨m, h1, h2⟩
  · rw [h]
    obtain ⟨ds, hds⟩ := hload (Manifest.new rid) (backed_new st rid)
    simp only [Manifest.new] at hds ⊢
    rw [hds]
    exact ⟨_, rfl⟩
  · rw [h1]
    obtain ⟨ds, hds⟩ := hload m h2
    simp only [h2.2]
    rw [hds]
    exact ⟨_, rfl⟩

/-- the manifest recovery reads -/
def manifestOf (st : Store) (rid : Nat) : Manifest :=
  match NMap.get st manifestName with
  | some (.manifest m) => m
  | _ => Manifest.new rid

/-- the listed content: deltas of every listed segment -/
def content (st : Store) : List Delta := segDeltas st (manifestOf st 0).segments

theorem manifestOf_segments (st : Store) (rid : Nat) :
    (manifestOf st rid).segments = (manifestOf st 0).segments := by
  unfold manifestOf
  split <;> rfl

/-- under the invariant recovery returns exactly the listed content (as a set) -/
theorem recover_updates_of_storeInv {st : Store} (h : StoreInv st) {rid : Nat} {r : Recovered}
    (hr : recover st rid = .ok r) : ∀ d, d ∈ r.updates ↔ d ∈ content st := by
  have key : ∀ m : Manifest, Backed st m → ∀ ds, loadSegments st (segmentsToLoad m) = .ok ds →
      ∀ d, d ∈ ds ↔ d ∈ segDeltas st m.segments := by
    intro m hb ds hds d
    rw [loadSegments_ok hds]
    apply mem_segDeltas_congr
    intro s
    unfold segmentsToLoad
    rw [mem_sortBy, hb.2]
  unfold recover at hr
  unfold content manifestOf
  rcases h with h | ⟨m, h1, h2⟩
  · rw [h] at hr ⊢
    simp only [Manifest.new] at hr
    split at hr
    · cases hr
    · rename_i ds hds
      cases hr
      intro d
      simp only [Recovered.updates, Option.getD, List.nil_append]
      exact key (Manifest.new rid) (backed_new st rid) ds hds d
  · rw [h1] at hr ⊢
    simp only [h2.2] at hr
    split at hr
    · cases hr
    · rename_i ds hds
      cases hr
      intro d
      simp only [Recovered.updates, Option.getD, List.nil_append]
      exact key m h2 ds hds d

theorem refsComplete_of_storeInv {st : Store} (h : StoreInv st) : refsComplete st = true := by
  unfold refsComplete
  rcases h with h | ⟨m, h1, h2⟩
  · rw [h]
  · rw [h1]
    simp only [h2.2, Bool.and_true, List.all_eq_true]
    intro s hs
    obtain ⟨_, ds, hg⟩ := h2.1 s hs
    rw [hg]

/-! ### frame: changes at unreferenced names are invisible -/

/-- `n` is neither the manifest nor a listed segment -/
def Unref (st : Store) (n : Nat) : Prop :=
  n ≠ manifestName ∧
    ∀ m, NMap.get st manifestName = some (.manifest m) → ∀ s ∈ m.segments, n ≠ segName s.id

theorem unref_tmp (st : Store) : Unref st tmpName :=
  ⟨tmp_ne_manifest, fun _ _ s _ h => segName_ne_tmp s.id h.symm⟩

/-- the name of a segment id at or above `next` of a backed manifest is unreferenced -/
theorem unref_fresh {F : Oracle} {w w1 : World} {rid : Nat} {m : Manifest}
    (hinv : StoreInv w.store) (h : loadOrCreate F w rid = (w1, some m)) {k : Nat} (hk : m.next ≤ k) :
    Unref w.store (segName k) := by
  refine ⟨segName_ne_manifest k, ?_⟩
  intro m' hm' s hs heq
  have hkid := segName_inj heq
  rcases loadOrCreate_some h with h1 | ⟨h2, _⟩
  · rw [h1] at hm'
    cases hm'
    have := ((backed_of_load hinv h).1 s hs).1
    omega
  · rw [h2] at hm'; cases hm'

theorem segDeltas_congr {st st' : Store} {l : List SegInfo}
    (h : ∀ s ∈ l, NMap.get st' (segName s.id) = NMap.get st (segName s.id)) :
    segDeltas st' l = segDeltas st l := by
  induction l with
  | nil => rfl
  | cons s l ih =>
    simp only [segDeltas, List.flatMap_cons]
    rw [h s (by simp)]
    have := ih (fun t ht => h t (by simp [ht]))
    simp only [segDeltas] at this
    rw [this]

theorem manifestOf_congr {st st' : Store}
    (h : NMap.get st' manifestName = NMap.get st manifestName) (rid : Nat) :
    manifestOf st' rid = manifestOf st rid := by
  unfold manifestOf
  rw [h]

/-- a change confined to unreferenced names preserves the invariant and the listed content -/
theorem frame {X : Nat → Prop} {st st' : Store} (ha : Agree X st st')
    (hx : ∀ n, X n → Unref st n) (hinv : StoreInv st) :
    StoreInv st' ∧ content st' = content st := by
  have hm : NMap.get st' manifestName = NMap.get st manifestName :=
    ha manifestName (fun h => (hx _ h).1 rfl)
  have hs : ∀ m, NMap.get st manifestName = some (.manifest m) →
      ∀ s ∈ m.segments, NMap.get st' (segName s.id) = NMap.get st (segName s.id) := by
    intro m hm' s hs
    exact ha _ (fun h => (hx _ h).2 m hm' s hs rfl)
  refine ⟨storeInv_congr hm hs hinv, ?_⟩
  unfold content
  rw [manifestOf_congr hm]
  apply segDeltas_congr
  intro s hs'
  unfold manifestOf at hs'
  split at hs'
  · rename_i m hg
    exact hs m hg s hs'
  · simp [Manifest.new] at hs'

/-- the manifest `load_or_create` returns lists the same segments as `manifestOf` -/
theorem segments_of_load {F : Oracle} {w w1 : World} {rid : Nat} {m : Manifest}
    (h : loadOrCreate F w rid = (w1, some m)) : (manifestOf w.store 0).segments = m.segments := by
  unfold manifestOf
  rcases loadOrCreate_some h with h1 | ⟨h2, h3⟩
  · rw [h1]
  · rw [h2, h3]; rfl

theorem content_of_manifest {st : Store} {m : Manifest}
    (h : NMap.get st manifestName = some (.manifest m)) : content st = segDeltas st m.segments := by
  unfold content manifestOf
  rw [h]

/-! ### flush -/

/-- what a flush does, for every oracle: the invariant is kept; the listed content grows by
    exactly the buffer iff the flush returns `Ok`, and is unchanged otherwise; the buffer is
    emptied on `Ok`, and on `Err` kept (repaired) or dropped (code that exists) -/
theorem flush_spec (restore : Bool) (F : Oracle) (sz : Nat) (w : World) (p : Pers)
    (hinv : StoreInv w.store) :
    StoreInv (flushWith restore F sz w p).1.store ∧
    (match (flushWith restore F sz w p).2.2 with
     | .flushed _ _ =>
        (∀ d, d ∈ content (flushWith restore F sz w p).1.store ↔ d ∈ content w.store ∨ d ∈ p.buffer) ∧
        (flushWith restore F sz w p).2.1.buffer = []
     | .empty =>
        content (flushWith restore F sz w p).1.store = content w.store ∧
        (flushWith restore F sz w p).2.1 = p ∧ p.buffer = []
     | .error =>
        content (flushWith restore F sz w p).1.store = content w.store ∧
        (flushWith restore F sz w p).2.1.buffer = if restore then p.buffer else []) := by
  unfold flushWith
  cases hb : p.buffer with
  | nil => exact ⟨hinv, by simp⟩
  | cons d0 rest =>
    simp only
    cases hl : loadOrCreate F w p.rid with
    | mk w1 om =>
      have hst1 : w1.store = w.store := by
        have := loadOrCreate_store F w p.rid
        rw [hl] at this
        exact this
      cases om with
      | none =>
        simp only [hst1]
        refine ⟨hinv, by first | rfl | trivial, ?_⟩
        cases restore <;> simp [hb]
      | some m =>
        simp only [Manifest.allocate]
        have hback := backed_of_load hinv hl
        have hfresh : Unref w.store (segName m.next) := unref_fresh hinv hl (Nat.le_refl _)
        cases hp : w1.put F (segName m.next) (Obj.segment (d0 :: rest)) with
        | mk w2 res =>
          have hag2 : Agree (· = segName m.next) w.store w2.store := by
            have := put_agree F w1 (segName m.next) (Obj.segment (d0 :: rest))
            rw [hp, hst1] at this
            exact this
          cases res with
          | err e =>
            simp only
            have := frame hag2 (fun n hn => by rw [hn]; exact hfresh) hinv
            refine ⟨this.1, this.2, ?_⟩
            cases restore <;> simp [hb]
          | ok u =>
            simp only
            have hw2 : w2.store = NMap.insert (segName m.next) (Obj.segment (d0 :: rest)) w.store := by
              rw [put_ok hp, hst1]
            generalize hm' : (Manifest.addSegment { m with next := m.next + 1 }
              { id := m.next, count := (d0 :: rest).length, size := sz,
                minTs := minTime (d0 :: rest), maxTs := maxTime (d0 :: rest) }) = m'
            cases hs : saveManifest F w2 m' with
            | mk w3 b =>
              cases b with
              | false =>
                simp only
                have hag3 : Agree (fun n => n = segName m.next ∨ n = tmpName) w.store w3.store := by
                  have h3 := saveManifest_false hs
                  exact Agree.trans (hag2.mono (fun n h => Or.inl h)) (h3.mono (fun n h => Or.inr h))
                have := frame hag3 (fun n hn => by
                  rcases hn with hn | hn
                  · rw [hn]; exact hfresh
                  · rw [hn]; exact unref_tmp _) hinv
                refine ⟨this.1, this.2, ?_⟩
                cases restore <;> simp [hb]
              | true =>
                simp only
                have hsegs : ∀ s, s ∈ m'.segments ↔ s.id = m.next ∧ s =
                    { id := m.next, count := (d0 :: rest).length, size := sz,
                      minTs := minTime (d0 :: rest), maxTs := maxTime (d0 :: rest) } ∨ s ∈ m.segments := by
                  intro s
                  rw [← hm']
                  simp only [Manifest.addSegment]
                  rw [mem_insertSeg']
                  constructor
                  · rintro (h | h)
                    · exact Or.inl ⟨by rw [h], h⟩
                    · exact Or.inr h
                  · rintro (h | h)
                    · exact Or.inl h.2
                    · exact Or.inr h
                have hnext : m'.next = m.next + 1 := by
                  rw [← hm']
                  simp only [Manifest.addSegment]
                  split <;> omega
                have hchk : m'.checkpoint = none := by
                  rw [← hm']
                  exact hback.2
                have hold : ∀ s ∈ m.segments,
                    NMap.get w2.store (segName s.id) = NMap.get w.store (segName s.id) := by
                  intro s hs'
                  apply hag2
                  intro heq
                  have := segName_inj heq
                  have := (hback.1 s hs').1
                  omega
                have hnew : NMap.get w2.store (segName m.next) = some (Obj.segment (d0 :: rest)) := by
                  rw [hw2, NMap.get_insert]; simp
                have hback2 : Backed w2.store m' := by
                  refine ⟨?_, hchk⟩
                  intro s hs'
                  rcases (hsegs s).mp hs' with ⟨hid, _⟩ | h
                  · exact ⟨by omega, d0 :: rest, by rw [hid]; exact hnew⟩
                  · obtain ⟨h1, ds, h2⟩ := hback.1 s h
                    exact ⟨by omega, ds, by rw [hold s h]; exact h2⟩
                refine ⟨storeInv_of_save hs hback2, ?_, by simp⟩
                obtain ⟨hman3, hag3⟩ := saveManifest_true hs
                have h32 : ∀ k, NMap.get w3.store (segName k) = NMap.get w2.store (segName k) := by
                  intro k
                  apply hag3
                  intro hc
                  rcases hc with hc | hc
                  · exact segName_ne_manifest _ hc
                  · exact segName_ne_tmp _ hc
                intro d
                rw [content_of_manifest hman3]
                have hcw : content w.store = segDeltas w.store m.segments := by
                  unfold content
                  rw [segments_of_load hl]
                rw [hcw, mem_segDeltas, mem_segDeltas]
                constructor
                · rintro ⟨s, hs', ds, hg, hd⟩
                  rw [h32] at hg
                  rcases (hsegs s).mp hs' with ⟨hid, _⟩ | h
                  · rw [hid, hnew] at hg
                    cases hg
                    exact Or.inr hd
                  · rw [hold s h] at hg
                    exact Or.inl ⟨s, h, ds, hg, hd⟩
                · rintro (⟨s, hs', ds, hg, hd⟩ | hd)
                  · exact ⟨s, (hsegs s).mpr (Or.inr hs'), ds, by rw [h32, hold s hs']; exact hg, hd⟩
                  · exact ⟨_, (hsegs _).mpr (Or.inl ⟨rfl, rfl⟩), d0 :: rest, by rw [h32]; exact hnew, hd⟩

/-! ### compaction -/

theorem loadLoop_store (fl : CompactFlags) (F : Oracle) (w : World) (acc : LoadAcc) (l : List SegInfo) :
    (loadLoop fl F w acc l).1.store = w.store := by
  induction l generalizing w acc with
  | nil => rfl
  | cons s rest ih =>
    unfold loadLoop
    split
    · rfl
    · have hg := get_store F w (segName s.id)
      split
      · rename_i w1 ds heq
        rw [heq] at hg
        rw [ih]; exact hg
      · rename_i w1 o heq
        rw [heq] at hg
        rw [ih]; exact hg
      · rename_i w1 nf heq
        rw [heq] at hg
        split
        · exact hg
        · rw [ih]; exact hg

theorem loadLoop_actually (fl : CompactFlags) (F : Oracle) (w : World) (acc : LoadAcc) (l : List SegInfo) :
    ∀ s ∈ (loadLoop fl F w acc l).2.actually, s ∈ acc.actually ∨ s ∈ l := by
  induction l generalizing w acc with
  | nil => intro s hs; exact Or.inl hs
  | cons t rest ih =>
    unfold loadLoop
    split
    · intro s hs; exact Or.inl hs
    · split
      · intro s hs
        rcases ih _ _ s hs with h | h
        · simp only [List.mem_append, List.mem_singleton] at h
          rcases h with h | h
          · exact Or.inl h
          · exact Or.inr (by rw [h]; simp)
        · exact Or.inr (by simp [h])
      · intro s hs
        rcases ih _ _ s hs with h | h
        · exact Or.inl h
        · exact Or.inr (by simp [h])
      · split
        · intro s hs; exact Or.inl hs
        · intro s hs
          rcases ih _ _ s hs with h | h
          · simp only [List.mem_append, List.mem_singleton] at h
            rcases h with h | h
            · exact Or.inl h
            · exact Or.inr (by rw [h]; simp)
          · exact Or.inr (by simp [h])

theorem mem_selectSegments {cfg : CompactCfg} {m : Manifest} {s : SegInfo}
    (h : s ∈ selectSegments cfg m) : s ∈ m.segments := by
  unfold selectSegments at h
  have := List.mem_of_mem_take h
  rw [mem_sortBy] at this
  exact (List.mem_filter.mp this).1

theorem mem_removeIds {m : Manifest} {ids : List Nat} {s : SegInfo} :
    s ∈ removeIds m ids ↔ s ∈ m.segments ∧ s.id ∉ ids := by
  unfold removeIds
  rw [List.mem_filter]
  simp

theorem deleteAll_agree (F : Oracle) (w : World) (l : List SegInfo) :
    Agree (fun n => ∃ a ∈ l, n = segName a.id) w.store (deleteAll F w l).store := by
  induction l generalizing w with
  | nil => exact Agree.refl _ _
  | cons a rest ih =>
    unfold deleteAll
    have h1 := delete_agree F w (segName a.id)
    have h2 := ih (w.delete F (segName a.id)).1
    exact Agree.trans (h1.mono (fun n hn => ⟨a, by simp, hn⟩))
      (h2.mono (fun n ⟨b, hb, hn⟩ => ⟨b, by simp [hb], hn⟩))

theorem mem_segDeltas_insertSeg {st : Store} {info : SegInfo} {l : List SegInfo} {d : Delta} :
    d ∈ segDeltas st (Manifest.insertSeg info l) ↔ d ∈ segDeltas st [info] ∨ d ∈ segDeltas st l := by
  rw [mem_segDeltas, mem_segDeltas, mem_segDeltas]
  constructor
  · rintro ⟨s, hs, r⟩
    rcases (mem_insertSeg' info l s).mp hs with h | h
    · exact Or.inl ⟨s, by simp [h], r⟩
    · exact Or.inr ⟨s, h, r⟩
  · rintro (⟨s, hs, r⟩ | ⟨s, hs, r⟩)
    · simp only [List.mem_singleton] at hs
      exact ⟨s, (mem_insertSeg' info l s).mpr (Or.inl hs), r⟩
    · exact ⟨s, (mem_insertSeg' info l s).mpr (Or.inr hs), r⟩

/-- what a compaction does, for every oracle and every code variant: the invariant is kept, and
    the listed content is either unchanged or — when the manifest swap went through — the kept
    per-key survivors plus the deltas of the segments that were not compacted away -/
theorem compact_spec (fl : CompactFlags) (F : Oracle) (cfg : CompactCfg) (sz : Nat) (w : World)
    (hinv : StoreInv w.store) :
    StoreInv (compactWith fl F cfg sz w).1.store ∧
    (content (compactWith fl F cfg sz w).1.store = content w.store ∨
      ∃ w1 m, loadOrCreate F w 0 = (w1, some m) ∧
        (loadLoop fl F w1 LoadAcc.init (selectSegments cfg m)).2.failed = false ∧
        ∀ d, d ∈ content (compactWith fl F cfg sz w).1.store ↔
          d ∈ keptOf cfg (loadLoop fl F w1 LoadAcc.init (selectSegments cfg m)).2.ktd ∨
          d ∈ segDeltas w.store (removeIds m
                ((loadLoop fl F w1 LoadAcc.init (selectSegments cfg m)).2.actually.map (·.id)))) := by
  unfold compactWith
  cases hl : loadOrCreate F w 0 with
  | mk w1 om =>
    have hst1 : w1.store = w.store := by
      have := loadOrCreate_store F w 0
      rw [hl] at this
      exact this
    cases om with
    | none =>
      simp only [hst1]
      exact ⟨hinv, Or.inl (by first | rfl | trivial)⟩
    | some m =>
      simp only
      have hback := backed_of_load hinv hl
      have hcw : content w.store = segDeltas w.store m.segments := by
        unfold content
        rw [segments_of_load hl]
      split
      · simp only [hst1]
        exact ⟨hinv, Or.inl (by first | rfl | trivial)⟩
      · cases hll : loadLoop fl F w1 LoadAcc.init (selectSegments cfg m) with
        | mk w2 acc =>
          simp only
          have hst2 : w2.store = w.store := by
            have := loadLoop_store fl F w1 LoadAcc.init (selectSegments cfg m)
            rw [hll, hst1] at this
            exact this
          have hact : ∀ s ∈ acc.actually, s ∈ m.segments := by
            intro s hs
            have := loadLoop_actually fl F w1 LoadAcc.init (selectSegments cfg m) s (by rw [hll]; exact hs)
            rcases this with h | h
            · simp [LoadAcc.init] at h
            · exact mem_selectSegments h
          -- the segments that stay listed keep their objects as long as only `tmp`, the manifest,
          -- fresh ids and removed ids are touched
          have hkeepBacked : ∀ (st' : Store) (nx : Nat),
              (∀ s ∈ removeIds m (acc.actually.map (·.id)),
                NMap.get st' (segName s.id) = NMap.get w.store (segName s.id)) → m.next ≤ nx →
              Backed st' { m with segments := removeIds m (acc.actually.map (·.id)), version := m.version + 1, next := nx } := by
            intro st' nx h hnx
            refine ⟨?_, hback.2⟩
            intro s hs
            have hs' := (mem_removeIds.mp hs).1
            obtain ⟨h1, ds, h2⟩ := hback.1 s hs'
            exact ⟨by simp only; omega, ds, by rw [h s hs]; exact h2⟩
          have hdelUnref : ∀ (st' : Store) (m' : Manifest),
              NMap.get st' manifestName = some (.manifest m') →
              (∀ s ∈ m'.segments, s.id = m.next ∨ s ∈ removeIds m (acc.actually.map (·.id))) →
              ∀ n, (∃ a ∈ acc.actually, n = segName a.id) → Unref st' n := by
            intro st' m' hm' hsub n ⟨a, ha, hn⟩
            subst hn
            refine ⟨segName_ne_manifest _, ?_⟩
            intro m'' hm'' s hs heq
            rw [hm'] at hm''
            cases hm''
            have hid := segName_inj heq
            rcases hsub s hs with h | h
            · have := (hback.1 a (hact a ha)).1
              omega
            · have := (mem_removeIds.mp h).2
              apply this
              rw [← hid]
              exact List.mem_map.mpr ⟨a, ha, rfl⟩
          split
          · -- (repaired code) a non-NotFound error aborted the compaction
            simp only [hst2]
            exact ⟨hinv, Or.inl (by first | rfl | trivial)⟩
          · rename_i hnf
            have hfailed : acc.failed = false := by
              cases h : acc.failed
              · rfl
              · exact absurd h hnf
            split
            · -- only missing segments: clean the manifest
              rename_i hcond
              have hktd : acc.ktd = [] := by
                simp only [Bool.and_eq_true, List.isEmpty_iff] at hcond
                exact hcond.1.2
              cases hs : saveManifest F w2 { m with segments := removeIds m (acc.actually.map (·.id)), version := m.version + 1 } with
              | mk w3 b =>
                cases b with
                | false =>
                  simp only
                  have h3 := saveManifest_false hs
                  rw [hst2] at h3
                  have := frame h3 (fun n hn => by rw [hn]; exact unref_tmp _) hinv
                  exact ⟨this.1, Or.inl this.2⟩
                | true =>
                  simp only
                  obtain ⟨hman3, hag3⟩ := saveManifest_true hs
                  rw [hst2] at hag3
                  have hsame : ∀ k, NMap.get w3.store (segName k) = NMap.get w.store (segName k) := by
                    intro k
                    apply hag3
                    intro hc
                    rcases hc with hc | hc
                    · exact segName_ne_manifest _ hc
                    · exact segName_ne_tmp _ hc
                  have hb3 : Backed w2.store { m with segments := removeIds m (acc.actually.map (·.id)), version := m.version + 1 } := by
                    have := hkeepBacked w2.store m.next (fun s _ => by rw [hst2]) (Nat.le_refl _)
                    exact this
                  refine ⟨storeInv_of_save hs hb3, Or.inr ⟨w1, m, rfl, by rw [hll]; exact hfailed, ?_⟩⟩
                  intro d
                  rw [hll, content_of_manifest hman3]
                  simp only [hktd, keptOf, List.filter_nil, List.not_mem_nil, false_or]
                  rw [segDeltas_congr (fun s _ => hsame s.id)]
            · split
              · simp only [hst2]
                exact ⟨hinv, Or.inl (by first | rfl | trivial)⟩
              · split
                · -- nothing remains: remove the segments, delete the files
                  rename_i hempty
                  have hkept : keptOf cfg acc.ktd = [] := by
                    simpa [List.isEmpty_iff] using hempty
                  cases hs : saveManifest F w2 { m with segments := removeIds m (acc.actually.map (·.id)), version := m.version + 1 } with
                  | mk w3 b =>
                    cases b with
                    | false =>
                      simp only
                      have h3 := saveManifest_false hs
                      rw [hst2] at h3
                      have := frame h3 (fun n hn => by rw [hn]; exact unref_tmp _) hinv
                      exact ⟨this.1, Or.inl this.2⟩
                    | true =>
                      simp only
                      obtain ⟨hman3, hag3⟩ := saveManifest_true hs
                      rw [hst2] at hag3
                      have hsame : ∀ k, NMap.get w3.store (segName k) = NMap.get w.store (segName k) := by
                        intro k
                        apply hag3
                        intro hc
                        rcases hc with hc | hc
                        · exact segName_ne_manifest _ hc
                        · exact segName_ne_tmp _ hc
                      have hb3 : Backed w2.store { m with segments := removeIds m (acc.actually.map (·.id)), version := m.version + 1 } :=
                        hkeepBacked w2.store m.next (fun s _ => by rw [hst2]) (Nat.le_refl _)
                      have hinv3 := storeInv_of_save hs hb3
                      have hfr := frame (deleteAll_agree F w3 acc.actually)
                        (hdelUnref w3.store _ hman3 (fun s hs' => Or.inr hs')) hinv3
                      refine ⟨hfr.1, Or.inr ⟨w1, m, rfl, by rw [hll]; exact hfailed, ?_⟩⟩
                      intro d
                      rw [hll, hfr.2, content_of_manifest hman3]
                      simp only [hkept, List.not_mem_nil, false_or]
                      rw [segDeltas_congr (fun s _ => hsame s.id)]
                · -- write the compacted segment, swap the manifest, delete the inputs
                  have hfresh : Unref w.store (segName m.next) := unref_fresh hinv hl (Nat.le_refl _)
                  generalize hdl : sortBy (fun d : Delta => d.2.ts.time) (keptOf cfg acc.ktd) = deltas
                  cases hp : w2.put F (segName m.next) (Obj.segment deltas) with
                  | mk w3 res =>
                    have hag3 : Agree (· = segName m.next) w.store w3.store := by
                      have := put_agree F w2 (segName m.next) (Obj.segment deltas)
                      rw [hp, hst2] at this
                      exact this
                    cases res with
                    | err e =>
                      simp only
                      have := frame hag3 (fun n hn => by rw [hn]; exact hfresh) hinv
                      exact ⟨this.1, Or.inl this.2⟩
                    | ok u =>
                      simp only
                      have hw3 : w3.store = NMap.insert (segName m.next) (Obj.segment deltas) w.store := by
                        rw [put_ok hp, hst2]
                      generalize hinfo : ({ id := m.next, count := deltas.length, size := sz, minTs := minTime deltas, maxTs := maxTime deltas } : SegInfo) = info
                      have hinfoid : info.id = m.next := by rw [← hinfo]
                      generalize hm' : ({ (Manifest.addSegment { m with segments := removeIds m (acc.actually.map (·.id)) } info) with next := m.next + 1 } : Manifest) = m'
                      have hsegs' : m'.segments = Manifest.insertSeg info (removeIds m (acc.actually.map (·.id))) := by
                        rw [← hm']; rfl
                      have hchk' : m'.checkpoint = none := by rw [← hm']; exact hback.2
                      have hnext' : m'.next = m.next + 1 := by rw [← hm']
                      have hold3 : ∀ s ∈ m.segments,
                          NMap.get w3.store (segName s.id) = NMap.get w.store (segName s.id) := by
                        intro s hs'
                        apply hag3
                        intro heq
                        have := segName_inj heq
                        have := (hback.1 s hs').1
                        omega
                      have hnew3 : NMap.get w3.store (segName m.next) = some (Obj.segment deltas) := by
                        rw [hw3, NMap.get_insert]; simp
                      cases hs : saveManifest F w3 m' with
                      | mk w4 b =>
                        cases b with
                        | false =>
                          simp only
                          have h4 := saveManifest_false hs
                          have hag4 : Agree (fun n => n = segName m.next ∨ n = tmpName) w.store w4.store :=
                            Agree.trans (hag3.mono (fun n h => Or.inl h)) (h4.mono (fun n h => Or.inr h))
                          have := frame hag4 (fun n hn => by
                            rcases hn with hn | hn
                            · rw [hn]; exact hfresh
                            · rw [hn]; exact unref_tmp _) hinv
                          exact ⟨this.1, Or.inl this.2⟩
                        | true =>
                          simp only
                          obtain ⟨hman4, hag4⟩ := saveManifest_true hs
                          have h43 : ∀ k, NMap.get w4.store (segName k) = NMap.get w3.store (segName k) := by
                            intro k
                            apply hag4
                            intro hc
                            rcases hc with hc | hc
                            · exact segName_ne_manifest _ hc
                            · exact segName_ne_tmp _ hc
                          have hb3 : Backed w3.store m' := by
                            refine ⟨?_, hchk'⟩
                            intro s hs'
                            rw [hsegs'] at hs'
                            rcases (mem_insertSeg' info _ s).mp hs' with h | h
                            · subst h
                              exact ⟨by omega, deltas, by rw [hinfoid]; exact hnew3⟩
                            · have hs'' := (mem_removeIds.mp h).1
                              obtain ⟨h1, ds, h2⟩ := hback.1 s hs''
                              exact ⟨by omega, ds, by rw [hold3 s hs'']; exact h2⟩
                          have hinv4 := storeInv_of_save hs hb3
                          have hfr := frame (deleteAll_agree F w4 acc.actually)
                            (hdelUnref w4.store m' hman4 (fun s hs' => by
                              rw [hsegs'] at hs'
                              rcases (mem_insertSeg' info _ s).mp hs' with h | h
                              · exact Or.inl (by rw [h]; exact hinfoid)
                              · exact Or.inr h)) hinv4
                          refine ⟨hfr.1, Or.inr ⟨w1, m, rfl, by rw [hll]; exact hfailed, ?_⟩⟩
                          intro d
                          rw [hll, hfr.2, content_of_manifest hman4, hsegs', mem_segDeltas_insertSeg]
                          have h1 : d ∈ segDeltas w4.store [info] ↔ d ∈ keptOf cfg acc.ktd := by
                            simp only [segDeltas, List.flatMap_cons, List.flatMap_nil, List.append_nil]
                            rw [hinfoid, h43, hnew3, ← hdl, mem_sortBy]
                          have h2 : segDeltas w4.store (removeIds m (acc.actually.map (·.id)))
                              = segDeltas w.store (removeIds m (acc.actually.map (·.id))) := by
                            apply segDeltas_congr
                            intro s hs'
                            rw [h43, hold3 s (mem_removeIds.mp hs').1]
                          rw [h1, h2]

/-! ### runs -/

theorem storeInv_stepWith (fl : Flags) (F : Oracle) (s : Sys) (op : Op) (h : StoreInv s.w.store) :
    StoreInv (stepWith fl F s op).w.store := by
  cases op with
  | push d => exact h
  | flush sz =>
    have := (flush_spec fl.restoreBuffer F sz s.w s.p h).1
    simp only [stepWith]
    split <;> rename_i heq <;> rw [heq] at this <;> exact this
  | compact cfg sz => exact (compact_spec fl.compact F cfg sz s.w h).1

theorem storeInv_nil : StoreInv ([] : Store) := Or.inl rfl

/-- every store reachable by a workload from the empty store satisfies the invariant -/
theorem storeInv_runWith (fl : Flags) (F : Oracle) (rid : Nat) (ops : List Op) :
    StoreInv (runWith fl F (Sys.init [] rid) ops).w.store :=
  TraceInv.run_inv (stepWith fl F) (fun s => StoreInv s.w.store) (storeInv_stepWith fl F) _ storeInv_nil ops

end Stream
end RedisVerif
