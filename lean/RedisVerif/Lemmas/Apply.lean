import RedisVerif.Model.Apply
import RedisVerif.Lemmas.Stream

/-!
  Lemmas about `applyRecoveredState`: key by key, for every router, the value a node holds after
  the application is the checkpoint value of the key (if any; the last one if the list had
  several) with the key's deltas merged in, in order.
-/
namespace RedisVerif
namespace Stream

open FoldACI

theorem shard_upd (n : Node) (i : Nat) (s : Shard) (j : Nat) :
    (n.upd i s).shard j = if j = i then s else n.shard j := by
  unfold Node.upd Node.shard
  simp only [NMap.get_insert]
  split <;> rfl

theorem value_applyChkEntry (route : Nat → Nat) (n : Node) (d : Delta) (k : Nat) :
    (applyChkEntry route n d).value route k = if k = d.1 then some d.2 else n.value route k := by
  obtain ⟨k', v⟩ := d
  unfold applyChkEntry Node.value
  rw [shard_upd]
  by_cases hk : k = k'
  · subst hk
    simp [Shard.applyRecovered, Shard.applyRecoveredWith, NMap.get_insert]
  · by_cases hr : route k = route k'
    · simp [hr, hk, Shard.applyRecovered, Shard.applyRecoveredWith, NMap.get_insert]
    · simp [hr, hk]

theorem value_applyDeltaNode (route : Nat → Nat) (n : Node) (d : Delta) (k : Nat) :
    (applyDeltaNode route n d).value route k =
      if k = d.1 then some (match n.value route k with
        | some l => RV.merge l d.2
        | none => d.2)
      else n.value route k := by
  obtain ⟨k', v⟩ := d
  unfold applyDeltaNode Node.value
  rw [shard_upd]
  by_cases hk : k = k'
  · subst hk
    simp only [if_true, Shard.applyRemote, NMap.get_insert]
    cases NMap.get (n.shard (route k)).keys k <;> rfl
  · by_cases hr : route k = route k'
    · simp [hr, hk, Shard.applyRemote, NMap.get_insert]
    · simp [hr, hk]

/-- after the checkpoint entries: the last checkpoint value of the key, else what was there -/
theorem value_foldl_chk (route : Nat → Nat) (n : Node) (chk : List Delta) (k : Nat) :
    (chk.foldl (applyChkEntry route) n).value route k =
      match (vals k chk).getLast? with
      | some c => some c
      | none => n.value route k := by
  induction chk generalizing n with
  | nil => simp [vals]
  | cons d chk ih =>
    obtain ⟨k', v⟩ := d
    simp only [List.foldl_cons]
    rw [ih, value_applyChkEntry]
    by_cases hk : k = k'
    · subst hk
      rw [vals_cons_eq]
      simp only [if_true]
      cases h : vals k chk with
      | nil => simp
      | cons x xs =>
        cases hgl : (x :: xs).getLast? with
        | none => simp at hgl
        | some c => rw [List.getLast?_cons_cons, hgl]
    · have hk' : k' ≠ k := fun h => hk h.symm
      rw [vals_cons_ne hk']
      simp [hk]

/-- after the deltas: the key's deltas merged, in order, into what was there -/
theorem value_foldl_deltas (route : Nat → Nat) (n : Node) (ds : List Delta) (k : Nat) :
    (ds.foldl (applyDeltaNode route) n).value route k =
      match n.value route k with
      | some o => some ((vals k ds).foldl RV.merge o)
      | none => fold1 RV.merge (vals k ds) := by
  induction ds generalizing n with
  | nil => simp [vals, fold1]; cases n.value route k <;> rfl
  | cons d ds ih =>
    obtain ⟨k', v⟩ := d
    simp only [List.foldl_cons]
    rw [ih, value_applyDeltaNode]
    by_cases hk : k = k'
    · subst hk
      simp only [if_true, vals_cons_eq]
      cases n.value route k <;> simp [fold1]
    · have hk' : k' ≠ k := fun h => hk h.symm
      simp only [hk, if_false, vals_cons_ne hk']

/-- in a canonical map a key has at most one value -/
theorem vals_of_wf {m : NMap RV} (h : NMap.WF m) (k : Nat) :
    vals k m = match NMap.get m k with
      | some c => [c]
      | none => [] := by
  induction m with
  | nil => rfl
  | cons p m ih =>
    obtain ⟨k', v⟩ := p
    have ⟨hlb, hw⟩ := NMap.wf_cons.mp h
    by_cases hk : k = k'
    · subst hk
      rw [vals_cons_eq, ih hw, NMap.get_eq_none_of_LB hlb (Nat.le_refl _)]
      simp [NMap.get]
    · have hk' : k' ≠ k := fun h => hk h.symm
      rw [vals_cons_ne hk', ih hw]
      simp [NMap.get, hk]

/-- once a value absorbs every element of a list, folding the list into it changes nothing -/
theorem foldl_absorb {α : Type} {m : α → α → α} {C : α → Prop} (h : ACI m C) {u : α} (hu : C u)
    {l : List α} (hl : ∀ y ∈ l, C y) (hle : ∀ y ∈ l, le m y u) : l.foldl m u = u := by
  induction l with
  | nil => rfl
  | cons y l ih =>
    simp only [List.foldl_cons]
    have hy : C y := hl y (by simp)
    have : m u y = u := by
      rw [h.comm u y hu hy]
      exact hle y (by simp)
    rw [this]
    exact ih (fun z hz => hl z (by simp [hz])) (fun z hz => hle z (by simp [hz]))

end Stream
end RedisVerif
