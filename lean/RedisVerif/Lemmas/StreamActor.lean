import RedisVerif.Model.StreamActor
import RedisVerif.Lemmas.StreamOps
import RedisVerif.Lemmas.TraceInv

/-
  Lemmas about M4b (`Model/StreamActor.lean`): where the buffer goes in a flush, how a batch splits
  in the `PushDeltas` loop, and the per-event bookkeeping behind the conservation theorems of
  `Props/C12.lean`.
-/
namespace RedisVerif
namespace StreamActor

open _root_.RedisVerif.Stream

/-! ## flush -/

/-- where the buffer is after a flush of the repaired code (`restore = true`), for every oracle -/
theorem flushWith_true_buffer (F : Oracle) (sz : Nat) (w : World) (p : Pers) :
    (flushWith true F sz w p).2.1.rid = p.rid ∧
    match (flushWith true F sz w p).2.2 with
    | .flushed _ _ => (flushWith true F sz w p).2.1.buffer = []
    | .empty => (flushWith true F sz w p).2.1 = p ∧ p.buffer = []
    | .error => (flushWith true F sz w p).2.1 = p := by
  unfold flushWith
  cases hb : p.buffer with
  | nil => simp
  | cons d0 rest =>
    simp only [if_true]
    cases hl : loadOrCreate F w p.rid with
    | mk w1 om =>
      cases om with
      | none => simp
      | some m =>
        simp only [Manifest.allocate]
        cases hp : w1.put F (segName m.next) (Obj.segment (d0 :: rest)) with
        | mk w2 res =>
          cases res with
          | err e => simp
          | ok u =>
            simp only
            cases hs : saveManifest F w2
              (Manifest.addSegment { m with next := m.next + 1 }
                { id := m.next, count := (d0 :: rest).length, size := sz, minTs := minTime (d0 :: rest), maxTs := maxTime (d0 :: rest) }) with
            | mk w3 ok =>
              cases ok <;> simp

theorem current_restores : current.restoreBuffer = true := rfl

/-- `flushX`: the buffer is emptied exactly when the flush returns `Ok` with a segment, and is
    the same buffer otherwise; the world is the one `Stream.flushWith` leaves -/
theorem flushX_spec (F : Oracle) (sz now : Nat) (w : World) (x : PX) :
    (flushX F sz now w x).1 = (flushWith true F sz w x.p).1 ∧
    (flushX F sz now w x).2.2 = (flushWith true F sz w x.p).2.2 ∧
    (flushX F sz now w x).2.1.p = (flushWith true F sz w x.p).2.1 := by
  unfold flushX
  rw [current_restores]
  split <;> rename_i heq <;> simp [heq]

/-! ## the `PushDeltas` loop -/

theorem pushX_true {cfg : WbCfg} {x x' : PX} {d : SDelta} (h : pushX cfg x d = (x', true)) :
    x'.p.buffer = x.p.buffer ++ [d.1] ∧ x'.p.rid = x.p.rid ∧ x'.size = x.size + estimate d.2 ∧
    x'.last = x.last ∧ x.size < cfg.backpressure := by
  unfold pushX at h
  split at h
  · cases h
  · rename_i hlt
    cases h
    exact ⟨rfl, rfl, rfl, rfl, by omega⟩

theorem pushX_false {cfg : WbCfg} {x x' : PX} {d : SDelta} (h : pushX cfg x d = (x', false)) :
    x' = x ∧ x.size ≥ cfg.backpressure := by
  unfold pushX at h
  split at h
  · rename_i hge; cases h; exact ⟨rfl, hge⟩
  · cases h

/-- the batch splits, in order, into accepted ++ rejected ++ skipped; the buffer grows by exactly
    the accepted ones; at most one is rejected -/
theorem pushLoop_spec (cfg : WbCfg) (x : PX) (ds : List SDelta) :
    ds = (pushLoop cfg x ds).accepted ++ (pushLoop cfg x ds).rejected ++ (pushLoop cfg x ds).skipped ∧
    (pushLoop cfg x ds).x.p.buffer = x.p.buffer ++ (pushLoop cfg x ds).accepted.map (·.1) ∧
    (pushLoop cfg x ds).x.p.rid = x.p.rid ∧
    (pushLoop cfg x ds).rejected.length ≤ 1 ∧
    ((pushLoop cfg x ds).rejected = [] → (pushLoop cfg x ds).skipped = []) := by
  induction ds generalizing x with
  | nil => simp [pushLoop]
  | cons d rest ih =>
    unfold pushLoop
    cases h : pushX cfg x d with
    | mk x' ok =>
      cases ok with
      | false => simp
      | true =>
        obtain ⟨hb, hr, _, _, _⟩ := pushX_true h
        obtain ⟨i1, i2, i3, i4, i5⟩ := ih x'
        simp only
        refine ⟨?_, ?_, ?_, i4, i5⟩
        · simp only [List.cons_append]
          exact congrArg (d :: ·) i1
        · rw [i2, hb]; simp
        · rw [i3, hr]

/-! ## bookkeeping -/

theorem mboxDeltas_append (l : List Msg) (m : Msg) : mboxDeltas (l ++ [m]) = mboxDeltas l ++ deltasOf m := by
  induction l with
  | nil => simp [mboxDeltas]
  | cons a l ih => simp [mboxDeltas, ih]

/-- how often an update occurs among everything that was not lost track of -/
def ledger (a : A) (d : Delta) : Nat :=
  (a.sink.map (·.1)).count d + (mboxDeltas a.mailbox).count d + a.x.p.buffer.count d +
  a.acked.count d + a.rejected.count d + a.skipped.count d + a.dropped.count d

/-- invariant of every run: nothing handed to the sink is unaccounted for, and everything `push`
    accepted is in the buffer or in a confirmed segment -/
def Inv (a : A) : Prop :=
  (∀ d, a.sent.count d = ledger a d) ∧
  (∀ d, a.accepted.count d = a.x.p.buffer.count d + a.acked.count d)

theorem inv_init (st : Store) (rid now : Nat) : Inv (A.init st rid now) := by
  constructor <;> intro d <;> simp [A.init, ledger, mboxDeltas, PX.init]

/-- a flush moves the buffer to `acked` or leaves both alone; nothing else changes -/
theorem doFlush_spec (F : Oracle) (sz : Nat) (a : A) :
    (∀ d, (doFlush F sz a).x.p.buffer.count d + (doFlush F sz a).acked.count d =
          a.x.p.buffer.count d + a.acked.count d) ∧
    (doFlush F sz a).sink = a.sink ∧ (doFlush F sz a).mailbox = a.mailbox ∧
    (doFlush F sz a).sent = a.sent ∧ (doFlush F sz a).accepted = a.accepted ∧
    (doFlush F sz a).rejected = a.rejected ∧ (doFlush F sz a).skipped = a.skipped ∧
    (doFlush F sz a).dropped = a.dropped ∧ (doFlush F sz a).alive = a.alive ∧
    (doFlush F sz a).bridge = a.bridge ∧ (doFlush F sz a).now = a.now := by
  have hx := flushX_spec F sz a.now a.w a.x
  have hb := (flushWith_true_buffer F sz a.w a.x.p).2
  unfold doFlush
  split
  · rename_i w' x' id n heq
    rw [heq] at hx
    simp only at hx
    rw [← hx.2.1] at hb
    simp only at hb
    refine ⟨?_, rfl, rfl, rfl, rfl, rfl, rfl, rfl, rfl, rfl, rfl⟩
    intro d
    simp only [hx.2.2, hb, List.count_nil, List.count_append]
    omega
  · rename_i w' x' out hne heq
    rw [heq] at hx
    simp only at hx
    rw [← hx.2.1] at hb
    refine ⟨?_, rfl, rfl, rfl, rfl, rfl, rfl, rfl, rfl, rfl, rfl⟩
    intro d
    cases out with
    | flushed i n => exact absurd rfl (hne i n)
    | empty => simp only at hb; simp only [hx.2.2, hb.1]
    | error => simp only at hb; simp only [hx.2.2, hb]

theorem maybeFlush_spec (F : Oracle) (cfg : WbCfg) (sz : Nat) (a : A) :
    (∀ d, (maybeFlush F cfg sz a).x.p.buffer.count d + (maybeFlush F cfg sz a).acked.count d =
          a.x.p.buffer.count d + a.acked.count d) ∧
    (maybeFlush F cfg sz a).sink = a.sink ∧ (maybeFlush F cfg sz a).mailbox = a.mailbox ∧
    (maybeFlush F cfg sz a).sent = a.sent ∧ (maybeFlush F cfg sz a).accepted = a.accepted ∧
    (maybeFlush F cfg sz a).rejected = a.rejected ∧ (maybeFlush F cfg sz a).skipped = a.skipped ∧
    (maybeFlush F cfg sz a).dropped = a.dropped ∧ (maybeFlush F cfg sz a).alive = a.alive ∧
    (maybeFlush F cfg sz a).bridge = a.bridge ∧ (maybeFlush F cfg sz a).now = a.now := by
  unfold maybeFlush
  split
  · exact doFlush_spec F sz a
  · exact ⟨fun _ => rfl, rfl, rfl, rfl, rfl, rfl, rfl, rfl, rfl, rfl, rfl⟩

theorem trySend_spec (cap : Nat) (a : A) (m : Msg) :
    ((trySend cap a m).2 = true ∧ (trySend cap a m).1 = { a with mailbox := a.mailbox ++ [m] } ∧
      a.alive = true ∧ a.mailbox.length < cap) ∨
    ((trySend cap a m).2 = false ∧ (trySend cap a m).1 = a ∧ (a.alive = false ∨ cap ≤ a.mailbox.length)) := by
  unfold trySend
  split
  · rename_i h
    simp only [Bool.and_eq_true, decide_eq_true_eq] at h
    exact Or.inl ⟨rfl, rfl, h.1, h.2⟩
  · rename_i h
    refine Or.inr ⟨rfl, rfl, ?_⟩
    cases hal : a.alive with
    | false => exact Or.inl rfl
    | true =>
      right
      simp only [hal, Bool.true_and, decide_eq_true_eq] at h
      omega

theorem sendBatch_inv (cap : Nat) (a : A) (ds : List SDelta)
    (h1 : ∀ d, a.sent.count d = ledger a d + (ds.map (·.1)).count d)
    (h2 : ∀ d, a.accepted.count d = a.x.p.buffer.count d + a.acked.count d) :
    Inv (sendBatch cap a ds) := by
  unfold sendBatch
  split
  · rename_i he
    have : ds = [] := by simpa using he
    subst this
    exact ⟨fun d => by simpa using h1 d, h2⟩
  · rcases trySend_spec cap a (.pushDeltas ds) with ⟨hb, ha, _, _⟩ | ⟨hb, ha, _⟩
    · have : trySend cap a (.pushDeltas ds) = ({ a with mailbox := a.mailbox ++ [.pushDeltas ds] }, true) :=
        Prod.ext ha hb
      rw [this]
      refine ⟨?_, h2⟩
      intro d
      have := h1 d
      simp only [ledger, mboxDeltas_append, deltasOf, List.count_append] at this ⊢
      omega
    · have : trySend cap a (.pushDeltas ds) = (a, false) := Prod.ext ha hb
      rw [this]
      refine ⟨?_, h2⟩
      intro d
      have := h1 d
      simp only [ledger, List.count_append] at this ⊢
      omega

theorem handle_inv (F : Oracle) (cfg : WbCfg) (sz : Nat) (a : A) (m : Msg)
    (h1 : ∀ d, a.sent.count d = ledger a d + (deltasOf m).count d)
    (h2 : ∀ d, a.accepted.count d = a.x.p.buffer.count d + a.acked.count d) :
    Inv (handle F cfg sz a m) := by
  cases m with
  | pushDelta e =>
    cases hp : pushX cfg a.x e with
    | mk x' ok =>
      cases ok with
      | true =>
        obtain ⟨hb, _⟩ := pushX_true hp
        simp only [handle, hp]
        have hm := maybeFlush_spec F cfg sz { a with x := x', accepted := a.accepted ++ [e.1] }
        obtain ⟨c, s1, s2, s3, s4, s5, s6, s7, _⟩ := hm
        constructor
        · intro d
          have := h1 d; have hc := c d
          simp only [ledger, s1, s2, s3, s5, s6, s7, deltasOf, hb, List.count_append] at this hc ⊢
          omega
        · intro d
          have := h2 d; have hc := c d
          simp only [s4, hb, List.count_append] at this hc ⊢
          omega
      | false =>
        simp only [handle, hp]
        have hm := maybeFlush_spec F cfg sz { a with rejected := a.rejected ++ [e.1] }
        obtain ⟨c, s1, s2, s3, s4, s5, s6, s7, _⟩ := hm
        constructor
        · intro d
          have := h1 d; have hc := c d
          simp only [ledger, s1, s2, s3, s5, s6, s7, deltasOf, List.count_append] at this hc ⊢
          omega
        · intro d
          have := h2 d; have hc := c d
          simp only [s4] at this hc ⊢
          omega
  | pushDeltas ds =>
    simp only [handle]
    obtain ⟨hsplit, hbuf, _, _, _⟩ := pushLoop_spec cfg a.x ds
    generalize pushLoop cfg a.x ds = r at hsplit hbuf
    have hm := maybeFlush_spec F cfg sz
      { a with x := r.x
               accepted := a.accepted ++ r.accepted.map (·.1)
               rejected := a.rejected ++ r.rejected.map (·.1)
               skipped := a.skipped ++ r.skipped.map (·.1) }
    obtain ⟨c, s1, s2, s3, s4, s5, s6, s7, _⟩ := hm
    have hds : ∀ d, (ds.map (·.1)).count d =
        (r.accepted.map (·.1)).count d + (r.rejected.map (·.1)).count d + (r.skipped.map (·.1)).count d := by
      intro d
      conv => lhs; rw [hsplit]
      simp only [List.map_append, List.count_append]
    constructor
    · intro d
      have := h1 d; have hc := c d; have hd := hds d
      simp only [ledger, s1, s2, s3, s5, s6, s7, deltasOf, hbuf, List.count_append] at this hc ⊢
      omega
    · intro d
      have := h2 d; have hc := c d
      simp only [s4, hbuf, List.count_append] at this hc ⊢
      omega
  | flush =>
    simp only [handle]
    obtain ⟨c, s1, s2, s3, s4, s5, s6, s7, _⟩ := doFlush_spec F sz a
    constructor
    · intro d
      have := h1 d; have hc := c d
      simp only [ledger, s1, s2, s3, s5, s6, s7, deltasOf, List.count_nil] at this hc ⊢
      omega
    · intro d
      have := h2 d; have hc := c d
      simp only [s4] at this hc ⊢
      omega
  | tick =>
    simp only [handle]
    obtain ⟨c, s1, s2, s3, s4, s5, s6, s7, _⟩ := maybeFlush_spec F cfg sz a
    constructor
    · intro d
      have := h1 d; have hc := c d
      simp only [ledger, s1, s2, s3, s5, s6, s7, deltasOf, List.count_nil] at this hc ⊢
      omega
    · intro d
      have := h2 d; have hc := c d
      simp only [s4] at this hc ⊢
      omega
  | shutdown =>
    simp only [handle]
    obtain ⟨c, s1, s2, s3, s4, s5, s6, s7, _⟩ := doFlush_spec F sz a
    constructor
    · intro d
      have := h1 d; have hc := c d
      simp only [ledger, s1, s2, s3, s5, s6, s7, deltasOf, mboxDeltas, List.count_nil, List.count_append] at this hc ⊢
      omega
    · intro d
      have := h2 d; have hc := c d
      simp only [s4] at this hc ⊢
      omega

/-- every event keeps the books balanced — for every configuration, capacity and fault oracle -/
theorem inv_step (F : Oracle) (cfg : WbCfg) (cap : Nat) (a : A) (ev : Ev) (h : Inv a) :
    Inv (step F cfg cap a ev) := by
  obtain ⟨h1, h2⟩ := h
  cases ev with
  | send e =>
    simp only [step]
    split
    · constructor
      · intro d; have := h1 d
        simp only [ledger, List.map_append, List.count_append, List.map_cons, List.map_nil] at this ⊢
        omega
      · exact h2
    · constructor
      · intro d; have := h1 d
        simp only [ledger, List.count_append] at this ⊢
        omega
      · exact h2
  | drain =>
    simp only [step]
    split
    · apply sendBatch_inv
      · intro d; have := h1 d
        simp only [ledger, List.map_nil, List.count_nil] at this ⊢
        omega
      · exact h2
    · exact ⟨h1, h2⟩
  | bridgeTick =>
    simp only [step]
    split
    · rcases trySend_spec cap a .tick with ⟨_, ha, _, _⟩ | ⟨_, ha, _⟩
      · rw [ha]
        refine ⟨?_, h2⟩
        intro d; have := h1 d
        simp only [ledger, mboxDeltas_append, deltasOf, List.count_append, List.count_nil] at this ⊢
        omega
      · rw [ha]; exact ⟨h1, h2⟩
    · exact ⟨h1, h2⟩
  | stopBridge =>
    simp only [step]
    split
    · have := sendBatch_inv cap { a with sink := [] } a.sink
        (by intro d; have := h1 d
            simp only [ledger, List.map_nil, List.count_nil] at this ⊢
            omega) h2
      exact ⟨fun d => by simpa [ledger] using this.1 d, fun d => by simpa using this.2 d⟩
    · exact ⟨h1, h2⟩
  | reqPush e =>
    simp only [step]
    rcases trySend_spec cap { a with sent := a.sent ++ [e.1] } (.pushDelta e) with ⟨hb, ha, _, _⟩ | ⟨hb, ha, _⟩
    · have : trySend cap { a with sent := a.sent ++ [e.1] } (.pushDelta e) =
          ({ a with sent := a.sent ++ [e.1], mailbox := a.mailbox ++ [.pushDelta e] }, true) := Prod.ext ha hb
      rw [this]
      refine ⟨?_, h2⟩
      intro d; have := h1 d
      simp only [ledger, mboxDeltas_append, deltasOf, List.count_append] at this ⊢
      omega
    · have : trySend cap { a with sent := a.sent ++ [e.1] } (.pushDelta e) =
          ({ a with sent := a.sent ++ [e.1] }, false) := Prod.ext ha hb
      rw [this]
      refine ⟨?_, h2⟩
      intro d; have := h1 d
      simp only [ledger, List.count_append] at this ⊢
      omega
  | reqFlush =>
    simp only [step]
    rcases trySend_spec cap a .flush with ⟨_, ha, _, _⟩ | ⟨_, ha, _⟩
    · rw [ha]
      refine ⟨?_, h2⟩
      intro d; have := h1 d
      simp only [ledger, mboxDeltas_append, deltasOf, List.count_append, List.count_nil] at this ⊢
      omega
    · rw [ha]; exact ⟨h1, h2⟩
  | reqShutdown =>
    simp only [step]
    rcases trySend_spec cap a .shutdown with ⟨_, ha, _, _⟩ | ⟨_, ha, _⟩
    · rw [ha]
      refine ⟨?_, h2⟩
      intro d; have := h1 d
      simp only [ledger, mboxDeltas_append, deltasOf, List.count_append, List.count_nil] at this ⊢
      omega
    · rw [ha]; exact ⟨h1, h2⟩
  | actor sz =>
    simp only [step]
    split
    · cases hm : a.mailbox with
      | nil => exact ⟨h1, h2⟩
      | cons m rest =>
        simp only
        apply handle_inv
        · intro d; have := h1 d
          simp only [ledger, hm, mboxDeltas, List.count_append] at this ⊢
          omega
        · exact h2
    · exact ⟨h1, h2⟩
  | advance ms => exact ⟨h1, h2⟩

theorem inv_run (F : Oracle) (cfg : WbCfg) (cap : Nat) (a : A) (evs : List Ev) (h : Inv a) :
    Inv (run F cfg cap a evs) :=
  TraceInv.run_inv (step F cfg cap) Inv (fun s e hs => inv_step F cfg cap s e hs) a h evs

/-! ## refinement: the store, the buffer and the confirmed set of an actor run are those of a
`Stream.run` of pushes and flushes -/

theorem core_doFlush (F : Oracle) (sz : Nat) (a : A) :
    core (doFlush F sz a) = stepWith current F (core a) (.flush sz) := by
  have hx := flushX_spec F sz a.now a.w a.x
  unfold doFlush
  simp only [stepWith, core, current_restores]
  split
  · rename_i w' x' id n heq
    rw [heq] at hx
    simp only at hx
    obtain ⟨e1, e2, e3⟩ := hx
    have : flushWith true F sz a.w a.x.p = (w', x'.p, .flushed id n) := by
      rw [e1, e3, e2]
    rw [this]
  · rename_i w' x' out hne heq
    rw [heq] at hx
    simp only at hx
    obtain ⟨e1, e2, e3⟩ := hx
    have : flushWith true F sz a.w a.x.p = (w', x'.p, out) := by
      rw [e1, e3, e2]
    rw [this]
    cases out with
    | flushed i n => exact absurd rfl (hne i n)
    | empty => rfl
    | error => rfl

/-- what an op list may contain here: pushes and flushes -/
def NoCompact (ops : List Op) : Prop := ∀ o ∈ ops, o.isCompact = false

theorem noCompact_nil : NoCompact [] := by intro o ho; cases ho

theorem core_maybeFlush (F : Oracle) (cfg : WbCfg) (sz : Nat) (a : A) :
    ∃ ops, NoCompact ops ∧ pushes ops = [] ∧
      core (maybeFlush F cfg sz a) = Stream.run F (core a) ops ∧
      (maybeFlush F cfg sz a).accepted = a.accepted := by
  unfold maybeFlush
  split
  · refine ⟨[.flush sz], ?_, rfl, ?_, (doFlush_spec F sz a).2.2.2.2.1⟩
    · intro o ho; simp at ho; subst ho; rfl
    · rw [core_doFlush]; rfl
  · exact ⟨[], noCompact_nil, rfl, rfl, rfl⟩

theorem run_append (F : Oracle) (s : Sys) (l l' : List Op) :
    Stream.run F s (l ++ l') = Stream.run F (Stream.run F s l) l' := by
  unfold Stream.run runWith
  rw [List.foldl_append]

theorem pushes_append (l l' : List Op) : pushes (l ++ l') = pushes l ++ pushes l' := by
  unfold pushes; rw [List.filterMap_append]

theorem noCompact_append {l l' : List Op} (h : NoCompact l) (h' : NoCompact l') : NoCompact (l ++ l') := by
  intro o ho
  rcases List.mem_append.mp ho with ho | ho
  · exact h o ho
  · exact h' o ho

/-- the accepted part of a batch is a run of pushes -/
theorem core_pushLoop (F : Oracle) (cfg : WbCfg) (x : PX) (ds : List SDelta) (w : World) (acked : List Delta) :
    ({ w := w, p := (pushLoop cfg x ds).x.p, acked := acked } : Sys) =
      Stream.run F { w := w, p := x.p, acked := acked } ((pushLoop cfg x ds).accepted.map (fun d => Op.push d.1)) := by
  induction ds generalizing x with
  | nil => rfl
  | cons d rest ih =>
    unfold pushLoop
    cases h : pushX cfg x d with
    | mk x' ok =>
      cases ok with
      | false => rfl
      | true =>
        simp only [List.map_cons]
        rw [ih x']
        have hx : x'.p = push x.p d.1 := by
          unfold pushX at h
          split at h
          · cases h
          · cases h; rfl
        unfold Stream.run runWith
        simp only [List.foldl_cons, stepWith, hx]

theorem pushes_map_push (l : List SDelta) : pushes (l.map (fun d => Op.push d.1)) = l.map (·.1) := by
  induction l with
  | nil => rfl
  | cons d l ih =>
    simp only [pushes, List.map_cons, List.filterMap_cons, Op.pushed?] at ih ⊢
    rw [ih]

theorem noCompact_map_push (l : List SDelta) : NoCompact (l.map (fun d => Op.push d.1)) := by
  intro o ho
  obtain ⟨d, _, rfl⟩ := List.mem_map.mp ho
  rfl

theorem core_handle (F : Oracle) (cfg : WbCfg) (sz : Nat) (a : A) (m : Msg) :
    ∃ ops, NoCompact ops ∧ core (handle F cfg sz a m) = Stream.run F (core a) ops ∧
      (handle F cfg sz a m).accepted = a.accepted ++ pushes ops := by
  cases m with
  | pushDelta e =>
    cases hp : pushX cfg a.x e with
    | mk x' ok =>
      cases ok with
      | true =>
        simp only [handle, hp]
        obtain ⟨ops, h1, h2, h3, h4⟩ := core_maybeFlush F cfg sz { a with x := x', accepted := a.accepted ++ [e.1] }
        refine ⟨.push e.1 :: ops, ?_, ?_, ?_⟩
        · intro o ho
          rcases List.mem_cons.mp ho with ho | ho
          · subst ho; rfl
          · exact h1 o ho
        · rw [h3]
          have hx : x'.p = push a.x.p e.1 := by
            unfold pushX at hp
            split at hp
            · cases hp
            · cases hp; rfl
          show _ = Stream.run F (stepWith current F (core a) (.push e.1)) ops
          simp only [core, stepWith, hx]
        · rw [h4]
          simp only [pushes, List.filterMap_cons, Op.pushed?] at h2 ⊢
          rw [h2]
      | false =>
        simp only [handle, hp]
        obtain ⟨ops, h1, h2, h3, h4⟩ := core_maybeFlush F cfg sz { a with rejected := a.rejected ++ [e.1] }
        exact ⟨ops, h1, h3, by rw [h4, h2]; simp⟩
  | pushDeltas ds =>
    simp only [handle]
    obtain ⟨ops, h1, h2, h3, h4⟩ := core_maybeFlush F cfg sz
      { a with x := (pushLoop cfg a.x ds).x
               accepted := a.accepted ++ (pushLoop cfg a.x ds).accepted.map (·.1)
               rejected := a.rejected ++ (pushLoop cfg a.x ds).rejected.map (·.1)
               skipped := a.skipped ++ (pushLoop cfg a.x ds).skipped.map (·.1) }
    refine ⟨(pushLoop cfg a.x ds).accepted.map (fun d => Op.push d.1) ++ ops,
      noCompact_append (noCompact_map_push _) h1, ?_, ?_⟩
    · rw [h3, run_append]
      congr 1
      exact core_pushLoop F cfg a.x ds a.w a.acked
    · rw [h4, pushes_append, h2, pushes_map_push]; simp
  | flush =>
    simp only [handle]
    refine ⟨[.flush sz], ?_, ?_, ?_⟩
    · intro o ho; simp at ho; subst ho; rfl
    · rw [core_doFlush]; rfl
    · rw [(doFlush_spec F sz a).2.2.2.2.1]; simp [pushes, Op.pushed?]
  | tick =>
    simp only [handle]
    obtain ⟨ops, h1, h2, h3, h4⟩ := core_maybeFlush F cfg sz a
    exact ⟨ops, h1, h3, by rw [h4, h2]; simp⟩
  | shutdown =>
    simp only [handle]
    refine ⟨[.flush sz], ?_, ?_, ?_⟩
    · intro o ho; simp at ho; subst ho; rfl
    · show core (doFlush F sz a) = _
      rw [core_doFlush]; rfl
    · show (doFlush F sz a).accepted = _
      rw [(doFlush_spec F sz a).2.2.2.2.1]; simp [pushes, Op.pushed?]

theorem core_sendBatch (cap : Nat) (a : A) (ds : List SDelta) :
    core (sendBatch cap a ds) = core a ∧ (sendBatch cap a ds).accepted = a.accepted := by
  unfold sendBatch
  split
  · exact ⟨rfl, rfl⟩
  · have := trySend_spec cap a (.pushDeltas ds)
    split <;> rename_i heq <;> rw [heq] at this <;> simp only at this
    · rcases this with ⟨_, h, _⟩ | ⟨h, _⟩
      · rw [h]; exact ⟨rfl, rfl⟩
      · cases h
    · rcases this with ⟨h, _⟩ | ⟨_, h, _⟩
      · cases h
      · rw [h]; exact ⟨rfl, rfl⟩

theorem core_trySend (cap : Nat) (a : A) (m : Msg) :
    core (trySend cap a m).1 = core a ∧ (trySend cap a m).1.accepted = a.accepted := by
  unfold trySend
  split <;> exact ⟨rfl, rfl⟩

theorem core_step (F : Oracle) (cfg : WbCfg) (cap : Nat) (a : A) (ev : Ev) :
    ∃ ops, NoCompact ops ∧ core (step F cfg cap a ev) = Stream.run F (core a) ops ∧
      (step F cfg cap a ev).accepted = a.accepted ++ pushes ops := by
  have nil : ∀ b : A, core b = core a → b.accepted = a.accepted →
      ∃ ops, NoCompact ops ∧ core b = Stream.run F (core a) ops ∧ b.accepted = a.accepted ++ pushes ops :=
    fun b h h' => ⟨[], noCompact_nil, h, by rw [h']; simp [pushes]⟩
  cases ev with
  | send e => simp only [step]; split <;> exact nil _ rfl rfl
  | drain =>
    simp only [step]; split
    · exact nil _ (core_sendBatch cap _ _).1 (core_sendBatch cap _ _).2
    · exact nil _ rfl rfl
  | bridgeTick =>
    simp only [step]; split
    · exact nil _ (core_trySend cap a _).1 (core_trySend cap a _).2
    · exact nil _ rfl rfl
  | stopBridge =>
    simp only [step]; split
    · exact nil _ (core_sendBatch cap _ _).1 (core_sendBatch cap _ _).2
    · exact nil _ rfl rfl
  | reqPush e =>
    simp only [step]
    have := core_trySend cap { a with sent := a.sent ++ [e.1] } (.pushDelta e)
    split <;> rename_i heq <;> rw [heq] at this <;> exact nil _ this.1 this.2
  | reqFlush => simp only [step]; exact nil _ (core_trySend cap a _).1 (core_trySend cap a _).2
  | reqShutdown => simp only [step]; exact nil _ (core_trySend cap a _).1 (core_trySend cap a _).2
  | actor sz =>
    simp only [step]
    split
    · cases hm : a.mailbox with
      | nil => exact nil _ rfl rfl
      | cons m rest => exact core_handle F cfg sz { a with mailbox := rest } m
    · exact nil _ rfl rfl
  | advance ms => exact nil _ rfl rfl

/-- **refinement**: for every configuration, mailbox capacity, fault oracle and event trace the
    world, the buffer and the confirmed set of the actor are those of a `Stream.run` of pushes
    and flushes (no compaction), whose pushes are exactly the updates `push` accepted -/
theorem core_run (F : Oracle) (cfg : WbCfg) (cap : Nat) (a : A) (evs : List Ev) :
    ∃ ops, NoCompact ops ∧ core (run F cfg cap a evs) = Stream.run F (core a) ops ∧
      (run F cfg cap a evs).accepted = a.accepted ++ pushes ops := by
  induction evs generalizing a with
  | nil => exact ⟨[], noCompact_nil, rfl, by simp [run, pushes]⟩
  | cons e evs ih =>
    obtain ⟨o1, n1, c1, p1⟩ := core_step F cfg cap a e
    obtain ⟨o2, n2, c2, p2⟩ := ih (step F cfg cap a e)
    refine ⟨o1 ++ o2, noCompact_append n1 n2, ?_, ?_⟩
    · show core (run F cfg cap (step F cfg cap a e) evs) = _
      rw [c2, c1, run_append]
    · show (run F cfg cap (step F cfg cap a e) evs).accepted = _
      rw [p2, p1, pushes_append, List.append_assoc]

end StreamActor
end RedisVerif

namespace RedisVerif
namespace StreamActor

open _root_.RedisVerif.Stream

/-! ## nothing is lost while the process keeps running below the mailbox capacity and the
back-pressure threshold -/

def estOf (ds : List SDelta) : Nat := (ds.map (fun d => estimate d.2)).foldl (· + ·) 0

theorem estOf_nil : estOf [] = 0 := rfl

theorem foldl_add_shift (l : List Nat) (a : Nat) : l.foldl (· + ·) a = a + l.foldl (· + ·) 0 := by
  induction l generalizing a with
  | nil => simp
  | cons x l ih => simp only [List.foldl_cons]; rw [ih (a + x), ih (0 + x)]; omega

theorem estOf_cons (d : SDelta) (ds : List SDelta) : estOf (d :: ds) = estimate d.2 + estOf ds := by
  unfold estOf
  simp only [List.map_cons, List.foldl_cons]
  rw [foldl_add_shift]; omega

theorem estOf_append (a b : List SDelta) : estOf (a ++ b) = estOf a + estOf b := by
  induction a with
  | nil => simp [estOf_nil]
  | cons d a ih => simp only [List.cons_append, estOf_cons, ih]; omega

/-- the byte estimates a message carries -/
def msgEst : Msg → Nat
  | .pushDelta d => estimate d.2
  | .pushDeltas ds => estOf ds
  | _ => 0

def mboxEst : List Msg → Nat
  | [] => 0
  | m :: r => msgEst m + mboxEst r

theorem mboxEst_append (l : List Msg) (m : Msg) : mboxEst (l ++ [m]) = mboxEst l + msgEst m := by
  induction l with
  | nil => simp [mboxEst]
  | cons a l ih => simp only [List.cons_append, mboxEst, ih]; omega

/-- what an event adds to the byte budget -/
def evEst : Ev → Nat
  | .send d => estimate d.2
  | .reqPush d => estimate d.2
  | _ => 0

def evsEst : List Ev → Nat
  | [] => 0
  | e :: r => evEst e + evsEst r

/-- the process keeps running: no shutdown of the bridge or of the actor is requested -/
def Ev.keepsRunning : Ev → Bool
  | .stopBridge => false
  | .reqShutdown => false
  | _ => true

/-- with room for the whole batch every update is accepted -/
theorem pushLoop_all_accepted (cfg : WbCfg) (x : PX) (ds : List SDelta)
    (h : x.size + estOf ds ≤ cfg.backpressure) :
    (pushLoop cfg x ds).rejected = [] ∧ (pushLoop cfg x ds).skipped = [] ∧
    (pushLoop cfg x ds).x.size = x.size + estOf ds := by
  induction ds generalizing x with
  | nil => simp [pushLoop, estOf_nil]
  | cons d rest ih =>
    rw [estOf_cons] at h
    have hlt : x.size < cfg.backpressure := by unfold estimate at h; omega
    unfold pushLoop
    cases hp : pushX cfg x d with
    | mk x' ok =>
      cases ok with
      | false => have := (pushX_false hp).2; omega
      | true =>
        obtain ⟨_, _, hs, _, _⟩ := pushX_true hp
        have := ih x' (by rw [hs]; omega)
        simp only
        refine ⟨this.1, this.2.1, ?_⟩
        rw [this.2.2, hs, estOf_cons]; omega

theorem flushX_size_le (F : Oracle) (sz now : Nat) (w : World) (x : PX) : (flushX F sz now w x).2.1.size ≤ x.size := by
  unfold flushX
  split <;> simp

theorem doFlush_quiet (F : Oracle) (sz : Nat) (a : A) : (doFlush F sz a).x.size ≤ a.x.size := by
  have := flushX_size_le F sz a.now a.w a.x
  unfold doFlush
  split <;> rename_i heq <;> rw [heq] at this <;> exact this

theorem maybeFlush_quiet (F : Oracle) (cfg : WbCfg) (sz : Nat) (a : A) : (maybeFlush F cfg sz a).x.size ≤ a.x.size := by
  unfold maybeFlush
  split
  · exact doFlush_quiet F sz a
  · exact Nat.le_refl _

/-- quiet state: everything alive, no `Shutdown` queued, `k` bounds the mailbox, `E` bounds the
    bytes on their way, and nothing was rejected, skipped or dropped so far -/
def Quiet (a : A) (k E : Nat) : Prop :=
  a.alive = true ∧ a.bridge = true ∧ a.mailbox.length ≤ k ∧
  a.x.size + mboxEst a.mailbox + estOf a.sink ≤ E ∧
  a.rejected = [] ∧ a.skipped = [] ∧ a.dropped = [] ∧ Msg.shutdown ∉ a.mailbox

theorem not_mem_append_single {l : List Msg} {m : Msg} (h : Msg.shutdown ∉ l) (hm : m ≠ .shutdown) :
    Msg.shutdown ∉ l ++ [m] := by
  intro hc
  rcases List.mem_append.mp hc with hc | hc
  · exact h hc
  · simp only [List.mem_singleton] at hc; exact hm hc.symm

theorem quiet_step (F : Oracle) (cfg : WbCfg) (cap : Nat) (a : A) (ev : Ev) (k E : Nat)
    (hq : Quiet a k E) (hrun : ev.keepsRunning = true) (hk : k < cap) (hE : E + evEst ev ≤ cfg.backpressure) :
    Quiet (step F cfg cap a ev) (k + 1) (E + evEst ev) := by
  obtain ⟨hal, hbr, hml, hsz, hr, hs, hd, hns⟩ := hq
  have hts : ∀ m, trySend cap a m = ({ a with mailbox := a.mailbox ++ [m] }, true) := by
    intro m
    unfold trySend
    have : (a.alive && decide (a.mailbox.length < cap)) = true := by simp [hal]; omega
    simp [this]
  cases ev with
  | send e =>
    simp only [step]
    rw [if_pos hbr]
    refine ⟨hal, hbr, by simp only; omega, ?_, hr, hs, hd, hns⟩
    simp only [evEst, estOf_append, estOf_cons, estOf_nil]; omega
  | drain =>
    simp only [step]
    rw [if_pos hbr]
    unfold sendBatch
    split
    · rename_i he
      have : a.sink = [] := by simpa using he
      refine ⟨hal, hbr, by simp only; omega, ?_, hr, hs, hd, hns⟩
      simp only [estOf_nil, evEst]; rw [this] at hsz; simp only [estOf_nil] at hsz; omega
    · have hts' : trySend cap { a with sink := [] } (.pushDeltas a.sink) =
          ({ a with sink := [], mailbox := a.mailbox ++ [.pushDeltas a.sink] }, true) := by
        unfold trySend
        have : (a.alive && decide (a.mailbox.length < cap)) = true := by simp [hal]; omega
        simp [this]
      rw [hts']
      refine ⟨hal, hbr, by simp; omega, ?_, hr, hs, hd, not_mem_append_single hns (by simp)⟩
      simp only [mboxEst_append, msgEst, estOf_nil, evEst]; omega
  | bridgeTick =>
    simp only [step]
    rw [if_pos hbr, hts]
    refine ⟨hal, hbr, by simp; omega, ?_, hr, hs, hd, not_mem_append_single hns (by simp)⟩
    simp only [mboxEst_append, msgEst, evEst]; omega
  | stopBridge => simp [Ev.keepsRunning] at hrun
  | reqShutdown => simp [Ev.keepsRunning] at hrun
  | reqPush e =>
    simp only [step]
    have : trySend cap { a with sent := a.sent ++ [e.1] } (.pushDelta e) =
        ({ a with sent := a.sent ++ [e.1], mailbox := a.mailbox ++ [.pushDelta e] }, true) := by
      unfold trySend
      have : (a.alive && decide (a.mailbox.length < cap)) = true := by simp [hal]; omega
      simp [this]
    rw [this]
    refine ⟨hal, hbr, by simp; omega, ?_, hr, hs, hd, not_mem_append_single hns (by simp)⟩
    simp only [mboxEst_append, msgEst, evEst]; omega
  | reqFlush =>
    simp only [step, hts]
    refine ⟨hal, hbr, by simp; omega, ?_, hr, hs, hd, not_mem_append_single hns (by simp)⟩
    simp only [mboxEst_append, msgEst, evEst]; omega
  | advance ms => exact ⟨hal, hbr, by simp only [step]; omega, by simp only [step, evEst]; omega, hr, hs, hd, hns⟩
  | actor sz =>
    simp only [step]
    rw [if_pos hal]
    cases hm : a.mailbox with
    | nil =>
      simp only
      refine ⟨hal, hbr, by rw [hm]; simp, ?_, hr, hs, hd, hns⟩
      rw [hm] at hsz; simp only [evEst, mboxEst] at hsz ⊢; rw [hm]; simp only [mboxEst]; omega
    | cons m rest =>
      rw [hm] at hml hsz hns
      simp only [List.length_cons, mboxEst] at hml hsz
      simp only [evEst, Nat.add_zero] at hE ⊢
      have hns' : Msg.shutdown ∉ rest := fun h => hns (List.mem_cons_of_mem _ h)
      cases m with
      | pushDelta e =>
        simp only [msgEst] at hsz
        have hlt : a.x.size < cfg.backpressure := by unfold estimate at hsz; omega
        cases hp : pushX cfg a.x e with
        | mk x' ok =>
          cases ok with
          | false => have := (pushX_false hp).2; omega
          | true =>
            obtain ⟨_, _, hs', _, _⟩ := pushX_true hp
            simp only [handle, hp]
            obtain ⟨_, s1, s2, _, _, s5, s6, s7, s8, s9, _⟩ := maybeFlush_spec F cfg sz { a with mailbox := rest, x := x', accepted := a.accepted ++ [e.1] }
            have hq := maybeFlush_quiet F cfg sz { a with mailbox := rest, x := x', accepted := a.accepted ++ [e.1] }
            refine ⟨by rw [s8]; exact hal, by rw [s9]; exact hbr, by rw [s2]; simp only; omega, ?_, by rw [s5]; exact hr, by rw [s6]; exact hs, by rw [s7]; exact hd, by rw [s2]; exact hns'⟩
            rw [s1, s2]; simp only at hq ⊢; omega
      | pushDeltas ds =>
        simp only [msgEst] at hsz
        obtain ⟨r1, r2, r3⟩ := pushLoop_all_accepted cfg a.x ds (by omega)
        simp only [handle]
        obtain ⟨_, s1, s2, _, _, s5, s6, s7, s8, s9, _⟩ := maybeFlush_spec F cfg sz
          { a with mailbox := rest, x := (pushLoop cfg a.x ds).x
                   accepted := a.accepted ++ (pushLoop cfg a.x ds).accepted.map (·.1)
                   rejected := a.rejected ++ (pushLoop cfg a.x ds).rejected.map (·.1)
                   skipped := a.skipped ++ (pushLoop cfg a.x ds).skipped.map (·.1) }
        have hq := maybeFlush_quiet F cfg sz
          { a with mailbox := rest, x := (pushLoop cfg a.x ds).x
                   accepted := a.accepted ++ (pushLoop cfg a.x ds).accepted.map (·.1)
                   rejected := a.rejected ++ (pushLoop cfg a.x ds).rejected.map (·.1)
                   skipped := a.skipped ++ (pushLoop cfg a.x ds).skipped.map (·.1) }
        refine ⟨by rw [s8]; exact hal, by rw [s9]; exact hbr, by rw [s2]; simp only; omega, ?_,
          by rw [s5]; simp [hr, r1], by rw [s6]; simp [hs, r2], by rw [s7]; exact hd, by rw [s2]; exact hns'⟩
        rw [s1, s2]; simp only at hq ⊢; rw [r3] at hq; omega
      | flush =>
        simp only [handle]
        obtain ⟨_, s1, s2, _, _, s5, s6, s7, s8, s9, _⟩ := doFlush_spec F sz { a with mailbox := rest }
        have hq := doFlush_quiet F sz { a with mailbox := rest }
        simp only [msgEst] at hsz
        refine ⟨by rw [s8]; exact hal, by rw [s9]; exact hbr, by rw [s2]; simp only; omega, ?_, by rw [s5]; exact hr, by rw [s6]; exact hs, by rw [s7]; exact hd, by rw [s2]; exact hns'⟩
        rw [s1, s2]; simp only at hq ⊢; omega
      | tick =>
        simp only [handle]
        obtain ⟨_, s1, s2, _, _, s5, s6, s7, s8, s9, _⟩ := maybeFlush_spec F cfg sz { a with mailbox := rest }
        have hq := maybeFlush_quiet F cfg sz { a with mailbox := rest }
        simp only [msgEst] at hsz
        refine ⟨by rw [s8]; exact hal, by rw [s9]; exact hbr, by rw [s2]; simp only; omega, ?_, by rw [s5]; exact hr, by rw [s6]; exact hs, by rw [s7]; exact hd, by rw [s2]; exact hns'⟩
        rw [s1, s2]; simp only at hq ⊢; omega
      | shutdown => exact absurd (List.mem_cons_self) hns

/-- a whole run that keeps running, with fewer events than the mailbox holds messages and all
    bytes handed in below the back-pressure threshold, stays quiet -/
theorem quiet_run (F : Oracle) (cfg : WbCfg) (cap : Nat) (evs : List Ev) (a : A) (k E : Nat)
    (hq : Quiet a k E) (hrun : ∀ e ∈ evs, e.keepsRunning = true)
    (hk : k + evs.length ≤ cap) (hE : E + evsEst evs ≤ cfg.backpressure) :
    Quiet (run F cfg cap a evs) (k + evs.length) (E + evsEst evs) := by
  induction evs generalizing a k E with
  | nil => simpa [run, evsEst] using hq
  | cons e rest ih =>
    simp only [List.length_cons, evsEst] at hk hE ⊢
    have h1 := quiet_step F cfg cap a e k E hq (hrun e (by simp)) (by omega) (by omega)
    have := ih (step F cfg cap a e) (k + 1) (E + evEst e) h1 (fun x hx => hrun x (by simp [hx])) (by omega) (by omega)
    have e1 : k + 1 + rest.length = k + (rest.length + 1) := by omega
    have e2 : E + evEst e + evsEst rest = E + (evEst e + evsEst rest) := by omega
    rw [e1, e2] at this
    exact this

/-! ## the mailbox never holds more than its capacity -/

theorem trySend_len (cap : Nat) (a : A) (m : Msg) (h : a.mailbox.length ≤ cap) :
    (trySend cap a m).1.mailbox.length ≤ cap := by
  rcases trySend_spec cap a m with ⟨_, ha, _, hl⟩ | ⟨_, ha, _⟩
  · rw [ha]; simp; omega
  · rw [ha]; exact h

theorem bounded_step (F : Oracle) (cfg : WbCfg) (cap : Nat) (a : A) (ev : Ev) (h : a.mailbox.length ≤ cap) :
    (step F cfg cap a ev).mailbox.length ≤ cap := by
  have hsb : ∀ (b : A) (ds : List SDelta), b.mailbox.length ≤ cap → (sendBatch cap b ds).mailbox.length ≤ cap := by
    intro b ds hb
    unfold sendBatch
    split
    · exact hb
    · have := trySend_len cap b (.pushDeltas ds) hb
      split <;> rename_i heq <;> rw [heq] at this <;> exact this
  cases ev with
  | send e => simp only [step]; split <;> exact h
  | drain => simp only [step]; split; exact hsb _ _ h; exact h
  | bridgeTick => simp only [step]; split; exact trySend_len cap a _ h; exact h
  | stopBridge => simp only [step]; split; exact hsb _ _ h; exact h
  | reqPush e =>
    simp only [step]
    have := trySend_len cap { a with sent := a.sent ++ [e.1] } (.pushDelta e) h
    split <;> rename_i heq <;> rw [heq] at this <;> exact this
  | reqFlush => simp only [step]; exact trySend_len cap a _ h
  | reqShutdown => simp only [step]; exact trySend_len cap a _ h
  | advance ms => exact h
  | actor sz =>
    simp only [step]
    split
    · cases hm : a.mailbox with
      | nil => simp only; rw [hm]; simp
      | cons m rest =>
        rw [hm] at h
        simp only [List.length_cons] at h
        have hr : rest.length ≤ cap := by omega
        cases m with
        | pushDelta e =>
          cases hp : pushX cfg a.x e with
          | mk x' ok =>
            cases ok <;> simp only [handle, hp] <;>
              (rw [(maybeFlush_spec F cfg sz _).2.2.1]; exact hr)
        | pushDeltas ds => simp only [handle]; rw [(maybeFlush_spec F cfg sz _).2.2.1]; exact hr
        | flush => simp only [handle]; rw [(doFlush_spec F sz _).2.2.1]; exact hr
        | tick => simp only [handle]; rw [(maybeFlush_spec F cfg sz _).2.2.1]; exact hr
        | shutdown => simp only [handle]; simp
    · exact h

end StreamActor
end RedisVerif
