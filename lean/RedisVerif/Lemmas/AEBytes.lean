import RedisVerif.Lemmas.AntiEntropy

/-!
  The byte stream `canonical_hash` feeds to the value hasher (`AE.byteStream`) is uniquely
  decodable: fixed-width little-endian integers, length-prefixed vectors and byte strings,
  `0xff`-terminated UTF-8 strings, one-byte tags.  Hence distinct (canonical, UTF-8) values feed
  distinct streams, and the `Ideal`-hash assumption of C18 reduces to an assumption about the
  64-bit hash function alone (`SipIdeal`).
-/
namespace RedisVerif
namespace AE

open HB

/-! ## relative prefix-injectivity -/

/-- `f` is prefix-injective on the values satisfying `P` -/
def PIOn {α : Type} (P : α → Prop) (f : α → List Nat) : Prop :=
  ∀ (a b : α) (r r' : List Nat), P a → P b → f a ++ r = f b ++ r' → a = b ∧ r = r'

theorem PIOn_of_PI {α : Type} {f : α → List Nat} (h : PI f) (P : α → Prop) : PIOn P f :=
  fun a b r r' _ _ e => h a b r r' e

theorem flatMap_prefix_injOn {α : Type} {P : α → Prop} {f : α → List Nat} (hf : PIOn P f) :
    ∀ (l l' : List α) (r r' : List Nat), l.length = l'.length → (∀ x ∈ l, P x) → (∀ x ∈ l', P x) →
      l.flatMap f ++ r = l'.flatMap f ++ r' → l = l' ∧ r = r' := by
  intro l
  induction l with
  | nil =>
    intro l' r r' hl _ _ h
    cases l' with
    | nil => exact ⟨rfl, by simpa using h⟩
    | cons _ _ => simp at hl
  | cons x xs ih =>
    intro l' r r' hl hP hP' h
    cases l' with
    | nil => simp at hl
    | cons y ys =>
      simp only [List.flatMap_cons, List.append_assoc] at h
      obtain ⟨h1, h2⟩ := hf x y _ _ (hP x List.mem_cons_self) (hP' y List.mem_cons_self) h
      obtain ⟨h3, h4⟩ := ih ys r r' (by simpa using hl)
        (fun z hz => hP z (List.mem_cons_of_mem _ hz)) (fun z hz => hP' z (List.mem_cons_of_mem _ hz)) h2
      exact ⟨by rw [h1, h3], h4⟩

/-! ## fixed-width integers -/

theorem PI_leBytes : ∀ w : Nat, PI (leBytes (w + 1)) := by
  intro w
  induction w with
  | zero =>
    intro a b r r' h
    simp only [leBytes, List.cons_append, List.nil_append, List.cons.injEq] at h
    exact h
  | succ w ih =>
    intro a b r r' h
    simp only [leBytes, List.cons_append, List.cons.injEq] at h
    obtain ⟨h1, h2⟩ := h
    obtain ⟨h3, h4⟩ := ih _ _ _ _ h2
    refine ⟨?_, h4⟩
    have ea := Nat.div_add_mod a 256
    have eb := Nat.div_add_mod b 256
    omega

theorem PI_le64 : PI le64 := PI_leBytes 7
theorem PI_le32 : PI le32 := PI_leBytes 3

theorem le64_length (n : Nat) : (le64 n).length = 8 := rfl

/-- exactly `to_le_bytes` below `2^64`: every byte is a byte -/
theorem le64_bytes {n : Nat} (h : n < 2 ^ 64) : ∀ x ∈ le64 n, x < 256 := by
  intro x hx
  simp only [le64, leBytes, List.mem_cons, List.mem_nil_iff, or_false] at hx
  omega

/-- a byte string behind its length -/
theorem PI_lenBytes : PI (fun b : List Nat => le64 b.length ++ b) := by
  intro a b r r' h
  simp only [List.append_assoc] at h
  obtain ⟨h1, h2⟩ := PI_le64 _ _ _ _ h
  obtain ⟨h3, h4⟩ := List.append_inj h2 h1
  exact ⟨h3, h4⟩

theorem PI_pairLe64 : PI (fun p : Nat × Nat => le64 p.1 ++ le64 p.2) := by
  intro a b r r' h
  simp only [List.append_assoc] at h
  obtain ⟨h1, h2⟩ := PI_le64 _ _ _ _ h
  obtain ⟨h3, h4⟩ := PI_le64 _ _ _ _ h2
  exact ⟨Prod.ext h1 h3, h4⟩

theorem PI_pairsBytes : PI pairsBytes := by
  intro a b r r' h
  simp only [pairsBytes, List.append_assoc] at h
  obtain ⟨h1, h2⟩ := PI_le64 _ _ _ _ h
  exact flatMap_prefix_inj PI_pairLe64 a b r r' h1 h2

/-- a tag code `replica * 2^64 + sequence` as two words -/
theorem PI_tag : PI (fun c : Nat => le64 (c / 2 ^ 64) ++ le64 (c % 2 ^ 64)) := by
  intro a b r r' h
  simp only [List.append_assoc] at h
  obtain ⟨h1, h2⟩ := PI_le64 _ _ _ _ h
  obtain ⟨h3, h4⟩ := PI_le64 _ _ _ _ h2
  refine ⟨?_, h4⟩
  have ea := Nat.div_add_mod a (2 ^ 64)
  have eb := Nat.div_add_mod b (2 ^ 64)
  rw [← ea, ← eb, h1, h3]

theorem PI_bTags : PI bTags := by
  intro a b r r' h
  simp only [bTags, List.append_assoc] at h
  obtain ⟨h1, h2⟩ := PI_le64 _ _ _ _ h
  exact flatMap_prefix_inj PI_tag a b r r' h1 h2

theorem le64_0_ne_1 {r r' : List Nat} : le64 0 ++ r ≠ le64 1 ++ r' := by
  intro h
  have := (PI_le64 _ _ _ _ h).1
  omega

theorem PI_bLww : PI bLww := by
  intro a b r r' h
  obtain ⟨va, ⟨ta, ra⟩, tba⟩ := a
  obtain ⟨vb, ⟨tb, rb⟩, tbb⟩ := b
  simp only [bLww, List.append_assoc] at h
  have key : va = vb ∧ le64 ta ++ (le64 ra ++ ([if tba = true then 1 else 0] ++ r))
      = le64 tb ++ (le64 rb ++ ([if tbb = true then 1 else 0] ++ r')) := by
    cases va <;> cases vb
    · simp only at h
      exact ⟨rfl, (PI_le64 _ _ _ _ h).2⟩
    · simp only [List.append_assoc] at h
      exact absurd h le64_0_ne_1
    · simp only [List.append_assoc] at h
      exact absurd h.symm le64_0_ne_1
    · rename_i x y
      simp only [List.append_assoc] at h
      have h2 := (PI_le64 _ _ _ _ h).2
      have h3 : (fun b : List Nat => le64 b.length ++ b) x ++ (le64 ta ++ (le64 ra ++ ([if tba = true then 1 else 0] ++ r)))
          = (fun b : List Nat => le64 b.length ++ b) y ++ (le64 tb ++ (le64 rb ++ ([if tbb = true then 1 else 0] ++ r'))) := by
        simpa only [List.append_assoc] using h2
      obtain ⟨h4, h5⟩ := PI_lenBytes _ _ _ _ h3
      exact ⟨by rw [h4], h5⟩
  obtain ⟨hv, h2⟩ := key
  obtain ⟨h3, h4⟩ := PI_le64 _ _ _ _ h2
  obtain ⟨h5, h6⟩ := PI_le64 _ _ _ _ h4
  simp only [List.cons_append, List.nil_append, List.cons.injEq] at h6
  have : tba = tbb := by
    cases tba <;> cases tbb <;> simp at h6 <;> rfl
  subst hv; subst h3; subst h5; subst this
  exact ⟨rfl, h6.2⟩

/-! ## `0xff`-terminated strings -/

theorem PIOn_str : PIOn (fun b : List Nat => noFF b = true) (fun b => b ++ [255]) := by
  intro a
  induction a with
  | nil =>
    intro b r r' _ hb h
    cases b with
    | nil => exact ⟨rfl, by simpa using h⟩
    | cons y ys =>
      simp only [List.nil_append, List.cons_append, List.cons.injEq] at h
      simp only [noFF, List.all_cons, Bool.and_eq_true, bne_iff_ne] at hb
      exact absurd h.1.symm hb.1
  | cons x xs ih =>
    intro b r r' ha hb h
    cases b with
    | nil =>
      simp only [List.nil_append, List.cons_append, List.cons.injEq] at h
      simp only [noFF, List.all_cons, Bool.and_eq_true, bne_iff_ne] at ha
      exact absurd h.1 ha.1
    | cons y ys =>
      simp only [List.cons_append, List.cons.injEq] at h
      simp only [noFF, List.all_cons, Bool.and_eq_true] at ha hb
      obtain ⟨h1, h2⟩ := ih ys r r' ha.2 hb.2 h.2
      exact ⟨by rw [h.1, h1], h2⟩

/-- a string-keyed entry: the string, `0xff`, the payload -/
theorem PIOn_strKeyed {β : Type} {g : β → List Nat} (hg : PI g) :
    PIOn (fun p : List Nat × β => noFF p.1 = true) (strEntry g) := by
  intro a b r r' ha hb h
  simp only [strEntry, List.append_assoc] at h
  have h' : (fun b : List Nat => b ++ [255]) a.1 ++ (g a.2 ++ r) = (fun b : List Nat => b ++ [255]) b.1 ++ (g b.2 ++ r') := by
    simpa only [List.append_assoc] using h
  obtain ⟨h1, h2⟩ := PIOn_str _ _ _ _ ha hb h'
  obtain ⟨h3, h4⟩ := hg _ _ _ _ h2
  exact ⟨Prod.ext h1 h3, h4⟩

/-! ## sorting -/

theorem insertBy_perm {α : Type} (le : α → α → Bool) (e : α) (l : List α) : (insertBy le e l).Perm (e :: l) := by
  induction l with
  | nil => exact List.Perm.refl _
  | cons x xs ih =>
    unfold insertBy
    split
    · exact List.Perm.refl _
    · exact (List.Perm.cons x ih).trans (List.Perm.swap e x xs)

theorem isort_perm {α : Type} (le : α → α → Bool) (l : List α) : (isort le l).Perm l := by
  induction l with
  | nil => exact List.Perm.refl _
  | cons x xs ih => exact (insertBy_perm le x _).trans (List.Perm.cons x ih)

/-- equal sorted images under an injective map: the same canonical set / map -/
theorem perm_of_isort_map_eq {α β : Type} [DecidableEq α] [DecidableEq β] {g : α → β}
    (hg : ∀ x y, g x = g y → x = y) (le : β → β → Bool) {l l' : List α}
    (h : isort le (l.map g) = isort le (l'.map g)) : l.Perm l' := by
  apply perm_of_map_injective hg
  exact (isort_perm le _).symm.trans (h ▸ isort_perm le _)

theorem nset_eq_of_perm {a b : NSet} (ha : NSet.WF a) (hb : NSet.WF b) (h : a.Perm b) : a = b := by
  apply List.Perm.eq_of_pairwise (le := fun x y : Nat => x < y) _ ha hb h
  intro x y _ _ h1 h2
  omega

/-! ## the value stream -/

/-- every string inside the value (set elements, hash field names) is free of `0xff` — true of
    every Rust `String` (UTF-8) -/
def strSafeCrdt (kb : Nat → List Nat) : Crdt → Bool
  | .gset s => s.all fun k => noFF (kb k)
  | .orset e _ => e.all fun p => noFF (kb p.1)
  | .hash h => h.all fun p => noFF (kb p.1)
  | _ => true

def StrSafe (kb : Nat → List Nat) (v : RV) : Prop := strSafeCrdt kb v.crdt = true

instance (kb : Nat → List Nat) (v : RV) : Decidable (StrSafe kb v) := by unfold StrSafe; infer_instance

def KbInj (kb : Nat → List Nat) : Prop := ∀ a b, kb a = kb b → a = b

theorem mem_isort {α : Type} {le : α → α → Bool} {l : List α} {x : α} : x ∈ isort le l ↔ x ∈ l :=
  (isort_perm le l).mem_iff

theorem PIOn_bCrdt {kb : Nat → List Nat} (hkb : KbInj kb) :
    PIOn (fun c : Crdt => c.WF ∧ strSafeCrdt kb c = true) (bCrdt kb) := by
  intro a b r r' ha hb h
  cases a with
  | lww x =>
    cases b <;> simp only [bCrdt, List.cons_append, List.cons.injEq] at h <;> try omega
    obtain ⟨h1, h2⟩ := PI_bLww _ _ _ _ h.2
    exact ⟨by rw [h1], h2⟩
  | gcounter x =>
    cases b <;> simp only [bCrdt, List.cons_append, List.cons.injEq] at h <;> try omega
    obtain ⟨h1, h2⟩ := PI_pairsBytes _ _ _ _ h.2
    exact ⟨by rw [h1], h2⟩
  | pncounter x y =>
    cases b <;> simp only [bCrdt, List.cons_append, List.cons.injEq, List.append_assoc] at h <;> try omega
    obtain ⟨h1, h2⟩ := PI_pairsBytes _ _ _ _ h.2
    obtain ⟨h3, h4⟩ := PI_pairsBytes _ _ _ _ h2
    exact ⟨by rw [h1, h3], h4⟩
  | gset x =>
    cases b <;> simp only [bCrdt, List.cons_append, List.cons.injEq, List.append_assoc] at h <;> try omega
    rename_i y
    obtain ⟨h1, h2⟩ := PI_le64 _ _ _ _ h.2
    have hsx : ∀ s ∈ isort bytesLe (x.map kb), noFF s = true := by
      intro s hs
      rw [mem_isort, List.mem_map] at hs
      obtain ⟨k, hk, rfl⟩ := hs
      have := ha.2
      simp only [strSafeCrdt, List.all_eq_true] at this
      exact this k hk
    have hsy : ∀ s ∈ isort bytesLe (y.map kb), noFF s = true := by
      intro s hs
      rw [mem_isort, List.mem_map] at hs
      obtain ⟨k, hk, rfl⟩ := hs
      have := hb.2
      simp only [strSafeCrdt, List.all_eq_true] at this
      exact this k hk
    obtain ⟨h3, h4⟩ := flatMap_prefix_injOn PIOn_str _ _ r r' h1 hsx hsy h2
    have hp := perm_of_isort_map_eq hkb bytesLe h3
    have : x = y := nset_eq_of_perm ha.1 hb.1 hp
    exact ⟨by rw [this], h4⟩
  | orset x nx =>
    cases b <;> simp only [bCrdt, List.cons_append, List.cons.injEq, List.append_assoc] at h <;> try omega
    rename_i y ny
    obtain ⟨h1, h2⟩ := PI_le64 _ _ _ _ h.2
    have hsafe : ∀ (e : NMap NSet), (e.all fun p => noFF (kb p.1)) = true →
        ∀ p ∈ sortByStr kb e, noFF p.1 = true := by
      intro e he p hp
      unfold sortByStr at hp
      rw [mem_isort, List.mem_map] at hp
      obtain ⟨q, hq, rfl⟩ := hp
      simp only [List.all_eq_true] at he
      exact he q hq
    have hsx := hsafe x (by have := ha.2; simpa only [strSafeCrdt] using this)
    have hsy := hsafe y (by have := hb.2; simpa only [strSafeCrdt] using this)
    obtain ⟨h3, h4⟩ := flatMap_prefix_injOn (PIOn_strKeyed PI_bTags) _ _ _ _ h1 hsx hsy h2
    obtain ⟨h5, h6⟩ := PI_pairsBytes _ _ _ _ h4
    have hinj : ∀ p q : Nat × NSet, (kb p.1, p.2) = (kb q.1, q.2) → p = q := by
      intro p q hpq
      simp only [Prod.mk.injEq] at hpq
      exact Prod.ext (hkb _ _ hpq.1) hpq.2
    have hp : x.Perm y := perm_of_isort_map_eq hinj _ h3
    have : x = y := nmap_eq_of_perm ha.1.1 hb.1.1 hp
    exact ⟨by rw [this, h5], h6⟩
  | hash x =>
    cases b <;> simp only [bCrdt, List.cons_append, List.cons.injEq, List.append_assoc] at h <;> try omega
    rename_i y
    obtain ⟨h1, h2⟩ := PI_le64 _ _ _ _ h.2
    have hsafe : ∀ (e : NMap Lww), (e.all fun p => noFF (kb p.1)) = true →
        ∀ p ∈ sortByStr kb e, noFF p.1 = true := by
      intro e he p hp
      unfold sortByStr at hp
      rw [mem_isort, List.mem_map] at hp
      obtain ⟨q, hq, rfl⟩ := hp
      simp only [List.all_eq_true] at he
      exact he q hq
    have hsx := hsafe x (by have := ha.2; simpa only [strSafeCrdt] using this)
    have hsy := hsafe y (by have := hb.2; simpa only [strSafeCrdt] using this)
    obtain ⟨h3, h4⟩ := flatMap_prefix_injOn (PIOn_strKeyed PI_bLww) _ _ _ _ h1 hsx hsy h2
    have hinj : ∀ p q : Nat × Lww, (kb p.1, p.2) = (kb q.1, q.2) → p = q := by
      intro p q hpq
      simp only [Prod.mk.injEq] at hpq
      exact Prod.ext (hkb _ _ hpq.1) hpq.2
    have hp : x.Perm y := perm_of_isort_map_eq hinj _ h3
    have : x = y := nmap_eq_of_perm ha.1 hb.1 hp
    exact ⟨by rw [this], h4⟩

theorem PI_optU64 : PI optU64 := by
  intro a b r r' h
  cases a <;> cases b <;> simp only [optU64, List.append_assoc] at h
  · exact ⟨rfl, (PI_le64 _ _ _ _ h).2⟩
  · exact absurd h le64_0_ne_1
  · exact absurd h.symm le64_0_ne_1
  · obtain ⟨h1, h2⟩ := PI_le64 _ _ _ _ (PI_le64 _ _ _ _ h).2
    exact ⟨by rw [h1], h2⟩

theorem PI_optU8 : PI optU8 := by
  intro a b r r' h
  cases a <;> cases b <;> simp only [optU8, List.append_assoc] at h
  · exact ⟨rfl, (PI_le64 _ _ _ _ h).2⟩
  · exact absurd h le64_0_ne_1
  · exact absurd h.symm le64_0_ne_1
  · have h2 := (PI_le64 _ _ _ _ h).2
    simp only [List.cons_append, List.nil_append, List.cons.injEq] at h2
    exact ⟨by rw [h2.1], h2.2⟩

/-- **two canonical UTF-8 values that differ anywhere feed different BYTE streams to the value
    hasher** -/
theorem byteStream_inj {kb : Nat → List Nat} (hkb : KbInj kb) {v w : RV} (hv : v.WF) (hw : w.WF)
    (sv : StrSafe kb v) (sw : StrSafe kb w) (h : byteStream kb v = byteStream kb w) : v = w := by
  obtain ⟨cv, vcv, ev, ⟨tv, rv⟩, rfv⟩ := v
  obtain ⟨cw, vcw, ew, ⟨tw, rw'⟩, rfw⟩ := w
  simp only [byteStream] at h
  obtain ⟨h1, h2⟩ := PI_le64 _ _ _ _ h
  obtain ⟨h3, h4⟩ := PI_le64 _ _ _ _ h2
  obtain ⟨h5, h6⟩ := PIOn_bCrdt hkb _ _ _ _ ⟨hv.1, sv⟩ ⟨hw.1, sw⟩ h4
  have hvc : vcv = vcw ∧ optU64 ev ++ optU8 rfv = optU64 ew ++ optU8 rfw := by
    cases vcv <;> cases vcw <;> simp only [List.cons_append, List.nil_append, List.cons.injEq] at h6
    · exact ⟨rfl, h6.2⟩
    · omega
    · omega
    · obtain ⟨h7, h8⟩ := PI_pairsBytes _ _ _ _ h6.2
      exact ⟨by rw [h7], h8⟩
  obtain ⟨h7, h8⟩ := hvc
  obtain ⟨h9, h10⟩ := PI_optU64 _ _ _ _ h8
  have h11 : optU8 rfv ++ [] = optU8 rfw ++ [] := by simpa using h10
  obtain ⟨h12, _⟩ := PI_optU8 _ _ _ _ h11
  subst h1; subst h3; subst h5; subst h7; subst h9; subst h12
  rfl

/-- the hypothesis `StrSafe` is necessary: strings are `0xff`-TERMINATED, not length-prefixed;
    with a `0xff` byte inside a string two different sets feed the same bytes
    (`{"a", "\xffb"}` and `{"a\xff", "b"}`) — unreachable with Rust `String`s, which are UTF-8 -/
def ffA : RV := { crdt := .gset [code [97], code [255, 98]], vc := none, expiry := none, ts := ⟨1, 1⟩, rf := none }
def ffB : RV := { crdt := .gset [code [98], code [97, 255]], vc := none, expiry := none, ts := ⟨1, 1⟩, rf := none }

theorem byteStream_ff_ambiguous :
    ffA ≠ ffB ∧ ffA.WF ∧ ffB.WF ∧ byteStream keyStr ffA = byteStream keyStr ffB
    ∧ ¬ StrSafe keyStr ffA := by
  decide

/-! ## the decoder of the drivers -/

theorem digitsAux_lt : ∀ (fuel n : Nat) (acc : List Nat), (∀ x ∈ acc, x < 256) →
    ∀ x ∈ digitsAux fuel n acc, x < 256 := by
  intro fuel
  induction fuel with
  | zero => intro n acc h; exact h
  | succ f ih =>
    intro n acc h
    unfold digitsAux
    split
    · exact h
    · apply ih
      intro x hx
      simp only [List.mem_cons] at hx
      rcases hx with rfl | hx
      · exact Nat.mod_lt _ (by decide)
      · exact h x hx

/-- `keyStr` is injective on ALL of `Nat` -/
theorem keyStr_inj : KbInj keyStr := by
  intro a b h
  unfold keyStr at h
  by_cases ha : code (digits a) = a <;> by_cases hb : code (digits b) = b
  · rw [if_pos ha, if_pos hb] at h
    rw [← ha, ← hb, h]
  · rw [if_pos ha, if_neg hb] at h
    have := digitsAux_lt a a [] (by simp) 256 (by rw [show digitsAux a a [] = digits a from rfl, h]; simp)
    omega
  · rw [if_neg ha, if_pos hb] at h
    have := digitsAux_lt b b [] (by simp) 256 (by rw [show digitsAux b b [] = digits b from rfl, ← h]; simp)
    omega
  · rw [if_neg ha, if_neg hb] at h
    simp only [List.cons.injEq, and_true, true_and] at h
    exact h

/-- the decoder inverts the codec: the bytes hashed for a key ARE the key's bytes -/
theorem code_pos (b : List Nat) : 1 ≤ code b := by
  unfold code
  have : ∀ (l : List Nat) (acc : Nat), 1 ≤ acc → 1 ≤ l.foldl (fun acc x => acc * 256 + x) acc := by
    intro l
    induction l with
    | nil => intro acc h; exact h
    | cons x xs ih =>
      intro acc h
      rw [List.foldl_cons]
      apply ih
      omega
  exact this b 1 (Nat.le_refl 1)

theorem code_append_single (b : List Nat) (x : Nat) : code (b ++ [x]) = code b * 256 + x := by
  unfold code
  rw [List.foldl_append]
  rfl

theorem digitsAux_code_rev : ∀ (r acc : List Nat) (fuel : Nat), code r.reverse ≤ fuel → (∀ x ∈ r, x < 256) →
    digitsAux fuel (code r.reverse) acc = r.reverse ++ acc := by
  intro r
  induction r with
  | nil =>
    intro acc fuel _ _
    cases fuel with
    | zero => rfl
    | succ f => simp [digitsAux, code]
  | cons x r ih =>
    intro acc fuel hf hb
    have hx : x < 256 := hb x (by simp)
    have hcb := code_pos r.reverse
    rw [List.reverse_cons, code_append_single] at hf ⊢
    cases fuel with
    | zero => omega
    | succ f =>
      unfold digitsAux
      rw [if_neg (by omega)]
      have h1 : (code r.reverse * 256 + x) / 256 = code r.reverse := by omega
      have h2 : (code r.reverse * 256 + x) % 256 = x := by omega
      rw [h1, h2, ih (x :: acc) f (by omega) (fun y hy => hb y (by simp [hy]))]
      simp

theorem digitsAux_code (b acc : List Nat) (fuel : Nat) (hf : code b ≤ fuel) (hb : ∀ x ∈ b, x < 256) :
    digitsAux fuel (code b) acc = b ++ acc := by
  have := digitsAux_code_rev b.reverse acc fuel (by rw [List.reverse_reverse]; exact hf)
    (fun x hx => hb x (List.mem_reverse.mp hx))
  rw [List.reverse_reverse] at this
  exact this

theorem keyStr_code {b : List Nat} (hb : ∀ x ∈ b, x < 256) : keyStr (code b) = b := by
  have hd : digits (code b) = b := by
    unfold digits
    rw [digitsAux_code b [] (code b) (Nat.le_refl _) hb, List.append_nil]
  unfold keyStr
  rw [hd, if_pos rfl]

/-! ## the key order of `get_keys_in_buckets` -/

theorem bytesLe_refl : ∀ a : List Nat, bytesLe a a = true := by
  intro a
  induction a with
  | nil => rfl
  | cons x xs ih => simp [bytesLe, ih]

theorem bytesLe_total : ∀ a b : List Nat, bytesLe a b = true ∨ bytesLe b a = true := by
  intro a
  induction a with
  | nil => intro b; left; cases b <;> rfl
  | cons x xs ih =>
    intro b
    cases b with
    | nil => right; rfl
    | cons y ys =>
      simp only [bytesLe]
      by_cases h1 : x < y
      · left; simp [h1]
      · by_cases h2 : y < x
        · right; simp [h2]
        · have : x = y := by omega
          subst this
          simp only [Nat.lt_irrefl, if_false]
          exact ih ys

theorem bytesLe_antisymm : ∀ a b : List Nat, bytesLe a b = true → bytesLe b a = true → a = b := by
  intro a
  induction a with
  | nil => intro b _ h2; cases b with
    | nil => rfl
    | cons _ _ => simp [bytesLe] at h2
  | cons x xs ih =>
    intro b h1 h2
    cases b with
    | nil => simp [bytesLe] at h1
    | cons y ys =>
      simp only [bytesLe] at h1 h2
      by_cases hxy : x < y
      · have : ¬ y < x := by omega
        simp [hxy, this] at h2
      · by_cases hyx : y < x
        · simp [hxy, hyx] at h1
        · have : x = y := by omega
          subst this
          simp only [Nat.lt_irrefl, if_false] at h1 h2
          rw [ih ys h1 h2]

theorem bytesLe_trans : ∀ a b c : List Nat, bytesLe a b = true → bytesLe b c = true → bytesLe a c = true := by
  intro a
  induction a with
  | nil => intro b c _ _; cases c <;> rfl
  | cons x xs ih =>
    intro b c h1 h2
    cases b with
    | nil => simp [bytesLe] at h1
    | cons y ys =>
      cases c with
      | nil => simp [bytesLe] at h2
      | cons z zs =>
        simp only [bytesLe] at h1 h2 ⊢
        by_cases hxy : x < y
        · by_cases hyz : y < z
          · have : x < z := by omega
            simp [this]
          · by_cases hzy : z < y
            · simp [hyz, hzy] at h2
            · have : y = z := by omega
              subst this
              simp [hxy]
        · by_cases hyx : y < x
          · simp [hxy, hyx] at h1
          · have : x = y := by omega
            subst this
            simp only [Nat.lt_irrefl, if_false] at h1
            by_cases hxz : x < z
            · simp [hxz]
            · by_cases hzx : z < x
              · simp [hxz, hzx] at h2
              · have : x = z := by omega
                subst this
                simp only [Nat.lt_irrefl, if_false] at h2 ⊢
                exact ih ys zs h1 h2

/-- the order the driver sorts by — byte-wise `String::cmp` on the decoded keys — is a total
    order on key codes: the hypothesis `TotalOrder le` of `sim_response_order_independent` /
    `sim_round_order_independent` is discharged for the instance that is actually run -/
theorem totalOrder_keyLe : TotalOrder (fun a b => bytesLe (keyStr a) (keyStr b)) :=
  ⟨fun a b => bytesLe_total _ _,
   fun a b c h1 h2 => bytesLe_trans _ _ _ h1 h2,
   fun a b h1 h2 => keyStr_inj a b (bytesLe_antisymm _ _ h1 h2)⟩

/-! ## an ideal byte-stream hash -/

/-- the idealised 64-bit hash: no collisions, never `0` (`MerkleNode::empty`'s hash) -/
structure SipIdeal (sip : List Nat → Nat) : Prop where
  inj : ∀ a b, sip a = sip b → a = b
  ne0 : ∀ a, sip a ≠ 0

theorem flatMap_le64_inj : ∀ (a b : List Nat), a.flatMap le64 = b.flatMap le64 → a = b := by
  intro a
  induction a with
  | nil =>
    intro b h
    cases b with
    | nil => rfl
    | cons y ys =>
      have := congrArg List.length h
      simp [List.flatMap_cons, le64_length] at this <;> omega
  | cons x xs ih =>
    intro b h
    cases b with
    | nil =>
      have := congrArg List.length h
      simp [List.flatMap_cons, le64_length] at this <;> omega
    | cons y ys =>
      simp only [List.flatMap_cons] at h
      obtain ⟨h1, h2⟩ := PI_le64 _ _ _ _ h
      rw [h1, ih ys h2]

/-- the `Ideal` hasher assumption of the C18 theorems follows from an ideal BYTE hash: what is
    assumed about SipHash is stated about the one function, not about its three uses -/
theorem ideal_sipHasher {sip : List Nat → Nat} {kb : Nat → List Nat} (hs : SipIdeal sip) (hkb : KbInj kb) :
    Ideal (sipHasher sip kb) := by
  refine ⟨?_, fun a b h => hs.inj a b h, ?_, fun a => hs.ne0 _⟩
  · intro a b h
    have := hs.inj _ _ h
    simp only [strBytes] at this
    exact hkb _ _ (List.append_cancel_right this)
  · intro a b h
    exact flatMap_le64_inj a b (hs.inj _ _ h)

/-- `KeyDigest.timestamp` can be read off the byte stream (its first 8 bytes) -/
def tsOfBytes (l : List Nat) : Nat :=
  (l.take 8).foldr (fun b acc => b + 256 * acc) 0

theorem decode_leBytes : ∀ (w n : Nat), (leBytes (w + 1) n).foldr (fun b acc => b + 256 * acc) 0 = n := by
  intro w
  induction w with
  | zero => intro n; simp [leBytes]
  | succ w ih =>
    intro n
    simp only [leBytes, List.foldr_cons, ih]
    have := Nat.div_add_mod n 256
    omega

theorem streamOK_byteStream (kb : Nat → List Nat) : StreamOK (byteStream kb) := by
  refine ⟨tsOfBytes, fun v => ?_⟩
  unfold tsOfBytes byteStream
  rw [List.take_left' (le64_length _)]
  exact decode_leBytes 7 _

end AE
end RedisVerif
