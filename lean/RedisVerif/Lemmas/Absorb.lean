import RedisVerif.Lemmas.Converge
import RedisVerif.Props.C08

/-!
A local write is a merge: the value a node stores after a local operation equals the merge of
the value it stored before with the delta it emits (on the stripped projection and within one
CRDT kind).  This is what lets every node's value be described as a least upper bound of the
deltas it has absorbed, whether it created them or received them.
-/
namespace RedisVerif
namespace Shard

/-- Ord-level clock domination: no stored outer stamp is greater than the clock -/
def Inv2 (s : Shard) : Prop := ∀ p ∈ s.keys, s.clock.lt p.2.ts = false

/-- every stored value is in canonical form -/
def AllWF (s : Shard) : Prop := ∀ p ∈ s.keys, p.2.WF

/-- `new` absorbs `old` -/
def Below (old new : RV) : Prop := RV.merge old.strip new.strip = new.strip

/-! ### register maps that only got newer -/

/-- `h'` agrees with `h` except where it holds a register stamped later than `T` -/
def NewerMap (T : Nat) (h h' : NMap Lww) : Prop :=
  NMap.WF h' ∧ ∀ k, NMap.get h' k = NMap.get h k ∨ ∃ r', NMap.get h' k = some r' ∧ T < r'.ts.time

theorem newer_refl {T : Nat} {h : NMap Lww} (hw : NMap.WF h) : NewerMap T h h :=
  ⟨hw, fun _ => Or.inl rfl⟩

theorem newer_insert {T : Nat} {h h' : NMap Lww} (hn : NewerMap T h h') (f : Nat) (r : Lww)
    (hr : T < r.ts.time) : NewerMap T h (NMap.insert f r h') := by
  refine ⟨NMap.wf_insert hn.1, ?_⟩
  intro k
  rw [NMap.get_insert]
  by_cases hk : k = f
  · right; exact ⟨r, by simp [hk], hr⟩
  · simp only [hk, if_false]; exact hn.2 k

theorem hashSet_fold_newer (fs : List (Nat × Bytes)) (T : Nat) (c : Stamp) (h h' : NMap Lww)
    (hT : T ≤ c.time) (hn : NewerMap T h h') :
    NewerMap T h (fs.foldl hashSetStep (c, h')).2 := by
  induction fs generalizing c h' with
  | nil => exact hn
  | cons f fs ih =>
    simp only [List.foldl_cons, hashSetStep]
    apply ih
    · simp; omega
    · exact newer_insert hn _ _ (by simp [Lww.set]; omega)

theorem hashDel_fold_newer (fs : List Nat) (T : Nat) (c : Stamp) (h h' : NMap Lww)
    (hT : T ≤ c.time) (hn : NewerMap T h h') :
    NewerMap T h (fs.foldl hashDelStep (c, h')).2 := by
  induction fs generalizing c h' with
  | nil => exact hn
  | cons f fs ih =>
    simp only [List.foldl_cons, hashDelStep]
    split
    · apply ih
      · simp; omega
      · exact newer_insert hn _ _ (by simp [Lww.delete]; omega)
    · exact ih c h' hT hn

/-- merging a register map into a newer version of itself gives the newer version -/
theorem merge_newer {T : Nat} {h h' : NMap Lww} (hw : NMap.WF h) (hn : NewerMap T h h')
    (hT : ∀ p ∈ h, p.2.ts.time ≤ T) : NMap.merge Lww.merge h h' = h' := by
  apply NMap.ext (NMap.wf_merge hw hn.1) hn.1
  intro k
  rw [NMap.get_merge hw hn.1]
  rcases hn.2 k with heq | ⟨r', hr', hlt⟩
  · rw [heq]
    exact NMap.optMerge_idem (fun u _ => Lww.merge_idem u)
  · rw [hr']
    cases hg : NMap.get h k with
    | none => rfl
    | some r =>
      simp only [optMerge]
      have : r.ts.time ≤ T := hT (k, r) (NMap.mem_of_get hg)
      have hlt' : r.ts.lt r'.ts = true := Stamp.lt_of_time_lt (by omega)
      simp [Lww.merge, hlt']

/-! ### the two absorption patterns -/

theorem stamp_max_of_not_lt {a b : Stamp} (h : b.lt a = false) : Stamp.max a b = b := by
  unfold Stamp.max
  cases h1 : a.lt b
  · simp; exact Stamp.eq_of_not_lt h1 h
  · simp

theorem lww_absorb (old new : RV) (r r' : Lww) (ho : old.crdt = .lww r) (hn : new.crdt = .lww r')
    (hr : r.ts.lt r'.ts = true) (hts : new.ts.lt old.ts = false) : Below old new := by
  unfold Below
  obtain ⟨oc, ov, oe, ot, orf⟩ := old
  obtain ⟨nc, nv, ne, nt, nrf⟩ := new
  simp only at ho hn hts
  subst ho hn
  simp [RV.strip, RV.merge, RV.mergeWith, RV.stampMerge, Crdt.mergeWithTimestamps, Crdt.tryMerge,
    Lww.merge, hr, optMerge, stamp_max_of_not_lt hts]

theorem hash_absorb (old new : RV) (h h' : NMap Lww) (T : Nat) (ho : old.crdt = .hash h)
    (hn : new.crdt = .hash h') (hw : NMap.WF h) (hnew : NewerMap T h h')
    (hT : ∀ p ∈ h, p.2.ts.time ≤ T) (hts : new.ts.lt old.ts = false) : Below old new := by
  unfold Below
  obtain ⟨oc, ov, oe, ot, orf⟩ := old
  obtain ⟨nc, nv, ne, nt, nrf⟩ := new
  simp only at ho hn hts
  subst ho hn
  simp [RV.strip, RV.merge, RV.mergeWith, RV.stampMerge, Crdt.mergeWithTimestamps, Crdt.tryMerge,
    optMerge, stamp_max_of_not_lt hts, merge_newer hw hnew hT]

theorem below_self (v : RV) (hw : v.WF) : Below v v := by
  unfold Below
  exact C07.rv_merge_idem v.strip ⟨hw.1, by simp [RV.strip, RV.vcWF]⟩

end Shard
end RedisVerif
