import RedisVerif.Model.Stream
import RedisVerif.Lemmas.NMap
import RedisVerif.Lemmas.RVCarrier

/-!
  Lemmas about M4 that C11, C12 and C13 share:
  * the stable sort `sortBy` keeps exactly the elements;
  * `foldState` is, key by key, the `fold1` of `RV.merge` over the values of that key;
  * `Coherent l` (decidable) puts, for every key, the values of that key into one carrier
    `RVCarrier.Car`, hence `foldState` depends only on the set of updates.
-/
namespace RedisVerif
namespace Stream

open FoldACI RVCarrier

/-! ### sortBy -/

theorem mem_insertBy {α : Type} (key : α → Nat) (x y : α) (l : List α) :
    y ∈ insertBy key x l ↔ y = x ∨ y ∈ l := by
  induction l with
  | nil => simp [insertBy]
  | cons z l ih =>
    simp only [insertBy]
    split
    · simp only [List.mem_cons, ih]
      constructor
      · rintro (h | h | h)
        · exact Or.inr (Or.inl h)
        · exact Or.inl h
        · exact Or.inr (Or.inr h)
      · rintro (h | h | h)
        · exact Or.inr (Or.inl h)
        · exact Or.inl h
        · exact Or.inr (Or.inr h)
    · simp

theorem mem_sortBy {α : Type} (key : α → Nat) (y : α) (l : List α) :
    y ∈ sortBy key l ↔ y ∈ l := by
  induction l with
  | nil => simp [sortBy]
  | cons x l ih =>
    have : sortBy key (x :: l) = insertBy key x (sortBy key l) := rfl
    rw [this, mem_insertBy, ih]
    simp

theorem length_insertBy {α : Type} (key : α → Nat) (x : α) (l : List α) :
    (insertBy key x l).length = l.length + 1 := by
  induction l with
  | nil => simp [insertBy]
  | cons z l ih =>
    simp only [insertBy]
    split <;> simp [ih]

theorem length_sortBy {α : Type} (key : α → Nat) (l : List α) : (sortBy key l).length = l.length := by
  induction l with
  | nil => rfl
  | cons x l ih =>
    have : sortBy key (x :: l) = insertBy key x (sortBy key l) := rfl
    rw [this, length_insertBy, ih]
    simp

/-! ### per-key view of `foldState` -/

/-- the values a list of updates carries for key `k`, in order -/
def vals (k : Nat) (l : List Delta) : List RV :=
  l.filterMap (fun p => if p.1 = k then some p.2 else none)

theorem mem_vals {k : Nat} {l : List Delta} {v : RV} : v ∈ vals k l ↔ (k, v) ∈ l := by
  unfold vals
  rw [List.mem_filterMap]
  constructor
  · rintro ⟨⟨k', v'⟩, hm, h⟩
    by_cases hk : k' = k
    · simp [hk] at h; subst hk; subst h; exact hm
    · simp [hk] at h
  · intro h
    exact ⟨(k, v), h, by simp⟩

theorem vals_append (k : Nat) (l l' : List Delta) : vals k (l ++ l') = vals k l ++ vals k l' := by
  simp [vals, List.filterMap_append]

theorem vals_cons_eq (k : Nat) (v : RV) (l : List Delta) : vals k ((k, v) :: l) = v :: vals k l := by
  simp [vals]

theorem vals_cons_ne {k k' : Nat} (h : k' ≠ k) (v : RV) (l : List Delta) :
    vals k ((k', v) :: l) = vals k l := by
  simp [vals, h]

theorem wf_applyDelta {m : NMap RV} (hm : NMap.WF m) (d : Delta) : NMap.WF (applyDelta m d) :=
  NMap.wf_insertWith hm

theorem wf_applyAll {m : NMap RV} (hm : NMap.WF m) (l : List Delta) : NMap.WF (applyAll m l) := by
  induction l generalizing m with
  | nil => exact hm
  | cons d l ih => exact ih (wf_applyDelta hm d)

theorem wf_foldState (l : List Delta) : NMap.WF (foldState l) := wf_applyAll NMap.wf_nil l

/-- the value of key `k` after applying `l` to `m` -/
theorem get_applyAll {m : NMap RV} (hm : NMap.WF m) (l : List Delta) (k : Nat) :
    NMap.get (applyAll m l) k =
      match NMap.get m k with
      | some o => some ((vals k l).foldl RV.merge o)
      | none => fold1 RV.merge (vals k l) := by
  induction l generalizing m with
  | nil => simp [applyAll, vals, fold1]; cases NMap.get m k <;> rfl
  | cons d l ih =>
    obtain ⟨k', v⟩ := d
    have hstep : applyAll m ((k', v) :: l) = applyAll (applyDelta m (k', v)) l := rfl
    rw [hstep, ih (wf_applyDelta hm _)]
    unfold applyDelta
    rw [NMap.get_insertWith hm]
    by_cases hk : k = k'
    · subst hk
      simp only [if_true, vals_cons_eq]
      cases NMap.get m k <;> simp [fold1]
    · have hk' : k' ≠ k := fun h => hk h.symm
      simp only [hk, if_false, vals_cons_ne hk']

theorem get_foldState (l : List Delta) (k : Nat) :
    NMap.get (foldState l) k = fold1 RV.merge (vals k l) := by
  unfold foldState
  rw [get_applyAll NMap.wf_nil]
  rfl

/-! ### coherence: every key's values live in one carrier -/

/-- decidable hypothesis on a list of updates: all values well-formed and, per key, of one
    CRDT kind and pairwise tie-consistent (what replicas produce when C08 holds and a key
    never changes its type) -/
def Coherent (l : List Delta) : Prop :=
  ∀ p ∈ l, p.2.WF ∧ ∀ q ∈ l, p.1 = q.1 → p.2.crdt.kind = q.2.crdt.kind ∧ C07.TieConsistent p.2 q.2

instance (l : List Delta) : Decidable (Coherent l) := by unfold Coherent; infer_instance

/-- the register regUniverse of key `k` -/
def regUniverse (k : Nat) (l : List Delta) : List (Nat × Lww) :=
  (vals k l).flatMap (fun v => regs v.crdt)

theorem ucons_universe {l : List Delta} (hc : Coherent l) (k : Nat) : UCons (regUniverse k l) := by
  intro p hp q hq
  unfold regUniverse at hp hq
  rw [List.mem_flatMap] at hp hq
  obtain ⟨a, ha, hpa⟩ := hp
  obtain ⟨b, hb, hqb⟩ := hq
  have ha' := mem_vals.mp ha
  have hb' := mem_vals.mp hb
  have h := ((hc (k, a) ha').2 (k, b) hb' rfl)
  have ht : C07.tieOk a.crdt b.crdt a.ts b.ts = true := h.2
  rw [tieOk_iff_regs a.ts b.ts h.1] at ht
  exact ht p hpa q hqb

/-- under coherence every value of key `k` is in the carrier of that key -/
theorem car_of_coherent {l : List Delta} (hc : Coherent l) {k : Nat} {v0 v : RV}
    (h0 : v0 ∈ vals k l) (hv : v ∈ vals k l) : Car (regUniverse k l) v0.crdt.kind v := by
  have hv' := mem_vals.mp hv
  have h0' := mem_vals.mp h0
  refine ⟨(hc (k, v) hv').1, ((hc (k, v) hv').2 (k, v0) h0' rfl).1, ?_⟩
  intro p hp
  unfold regUniverse
  rw [List.mem_flatMap]
  exact ⟨v, hv, hp⟩

theorem coherent_of_subset {l l' : List Delta} (hc : Coherent l) (h : ∀ d ∈ l', d ∈ l) :
    Coherent l' := by
  intro p hp
  refine ⟨(hc p (h p hp)).1, ?_⟩
  intro q hq
  exact (hc p (h p hp)).2 q (h q hq)

/-- **`foldState` depends only on the set of updates** (order and multiplicity are irrelevant) -/
theorem foldState_eq_of_same_set {l l' : List Delta} (hc : Coherent l)
    (hset : ∀ d, d ∈ l ↔ d ∈ l') : foldState l = foldState l' := by
  apply NMap.ext (wf_foldState l) (wf_foldState l')
  intro k
  rw [get_foldState, get_foldState]
  have hvs : ∀ y, y ∈ vals k l ↔ y ∈ vals k l' := by
    intro y
    rw [mem_vals, mem_vals]
    exact hset (k, y)
  cases hl : vals k l with
  | nil =>
    cases hl' : vals k l' with
    | nil => rfl
    | cons x _ =>
      have : x ∈ vals k l := (hvs x).mpr (by simp [hl'])
      rw [hl] at this; cases this
  | cons v0 rest =>
    have h0 : v0 ∈ vals k l := by simp [hl]
    rw [← hl]
    exact fold1_eq_of_same_set (RVCarrier.aci v0.crdt.kind (ucons_universe hc k))
      (fun y hy => car_of_coherent hc h0 hy) hvs

/-- every update is absorbed by the fold: merging it in again changes nothing -/
theorem absorbed_of_mem {l : List Delta} (hc : Coherent l) {k : Nat} {v : RV} (h : (k, v) ∈ l) :
    ∃ u, NMap.get (foldState l) k = some u ∧ RV.merge v u = u := by
  rw [get_foldState]
  have hv : v ∈ vals k l := mem_vals.mpr h
  cases hl : vals k l with
  | nil => rw [hl] at hv; cases hv
  | cons v0 rest =>
    have h0 : v0 ∈ vals k l := by simp [hl]
    rw [← hl]
    exact le_fold1 (RVCarrier.aci v0.crdt.kind (ucons_universe hc k))
      (fun y hy => car_of_coherent hc h0 hy) hv

/-! ### recovery reads exactly the listed segments -/

/-- deltas of the complete segment objects a list of segment infos points to -/
def segDeltas (st : Store) (l : List SegInfo) : List Delta :=
  l.flatMap (fun s => match NMap.get st (segName s.id) with
    | some (.segment ds) => ds
    | _ => [])

theorem loadSegments_ok {st : Store} {l : List SegInfo} {ds : List Delta}
    (h : loadSegments st l = .ok ds) : ds = segDeltas st l := by
  induction l generalizing ds with
  | nil => simp [loadSegments] at h; subst h; rfl
  | cons s rest ih =>
    simp only [loadSegments] at h
    split at h
    · rename_i ds0 hg
      split at h
      · rename_i r hr
        cases h
        simp only [segDeltas, List.flatMap_cons, hg]
        rw [ih hr]
        rfl
      · cases h
    · cases h
    · cases h

/-- every listed segment is a complete object iff loading succeeds -/
theorem loadSegments_ok_iff {st : Store} {l : List SegInfo} :
    (∃ ds, loadSegments st l = .ok ds) ↔
      ∀ s ∈ l, ∃ ds, NMap.get st (segName s.id) = some (.segment ds) := by
  induction l with
  | nil => simp [loadSegments]
  | cons s rest ih =>
    constructor
    · rintro ⟨ds, h⟩
      simp only [loadSegments] at h
      split at h
      · rename_i ds0 hg
        split at h
        · rename_i r hr
          intro t ht
          cases ht with
          | head => exact ⟨ds0, hg⟩
          | tail _ ht' => exact (ih.mp ⟨r, hr⟩) t ht'
        · cases h
      · cases h
      · cases h
    · intro h
      obtain ⟨ds0, hg⟩ := h s (by simp)
      obtain ⟨r, hr⟩ := ih.mpr (fun t ht => h t (by simp [ht]))
      exact ⟨ds0 ++ r, by simp [loadSegments, hg, hr]⟩

theorem mem_segDeltas {st : Store} {l : List SegInfo} {d : Delta} :
    d ∈ segDeltas st l ↔
      ∃ s ∈ l, ∃ ds, NMap.get st (segName s.id) = some (.segment ds) ∧ d ∈ ds := by
  unfold segDeltas
  rw [List.mem_flatMap]
  constructor
  · rintro ⟨s, hs, hd⟩
    split at hd
    · rename_i ds hg; exact ⟨s, hs, ds, hg, hd⟩
    · cases hd
  · rintro ⟨s, hs, ds, hg, hd⟩
    exact ⟨s, hs, by rw [hg]; exact hd⟩

/-- `segDeltas` depends only on the set of listed segments -/
theorem mem_segDeltas_congr {st : Store} {l l' : List SegInfo} (h : ∀ s, s ∈ l ↔ s ∈ l') (d : Delta) :
    d ∈ segDeltas st l ↔ d ∈ segDeltas st l' := by
  rw [mem_segDeltas, mem_segDeltas]
  constructor
  · rintro ⟨s, hs, r⟩; exact ⟨s, (h s).mp hs, r⟩
  · rintro ⟨s, hs, r⟩; exact ⟨s, (h s).mpr hs, r⟩

/-! ### decidable "recovery succeeds and its result satisfies P" (for `decide`d examples) -/

def OkAnd {ε α : Type} (x : Except ε α) (P : α → Prop) : Prop :=
  match x with
  | .ok r => P r
  | .error _ => False

instance {ε α : Type} (x : Except ε α) (P : α → Prop) [DecidablePred P] : Decidable (OkAnd x P) := by
  unfold OkAnd
  cases x <;> infer_instance

theorem okAnd_iff {ε α : Type} {x : Except ε α} {P : α → Prop} : OkAnd x P ↔ ∃ r, x = .ok r ∧ P r := by
  unfold OkAnd
  cases x <;> simp

end Stream
end RedisVerif
