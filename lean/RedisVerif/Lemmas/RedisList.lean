import RedisVerif.Lemmas.Redis

/-! Per-command lemmas, lists. -/
namespace RedisVerif.Redis
open RedisVerif

theorem inv_putList {s : State} (h : Inv s) (k : Nat) (l : List BS) (dl : Option Nat) :
    Inv (putList s k l dl) := by
  unfold putList
  split
  · exact inv_erase h
  · exact inv_insert h (by simp [ValueOk])

theorem inv_execPush {s : State} (h : Inv s) (side : Side) (k : Nat) (vs : List BS) :
    Inv (execPush side s k vs).1 := by
  unfold execPush
  split
  · exact h
  · split
    · exact h
    · exact inv_putList h ..
    · exact inv_putList h ..

theorem execPush_err {s : State} {side : Side} {k : Nat} {vs : List BS}
    (he : (execPush side s k vs).2.isError = true) : (execPush side s k vs).1 = s := by
  unfold execPush at *
  split
  · rfl
  · split <;> simp_all [Reply.isError]

theorem inv_execPop {s : State} (h : Inv s) (side : Side) (k : Nat) : Inv (execPop side s k).1 := by
  unfold execPop
  split
  · exact h
  · exact h
  · split
    · exact h
    · exact inv_putList h ..

theorem execPop_err {s : State} {side : Side} {k : Nat}
    (he : (execPop side s k).2.isError = true) : (execPop side s k).1 = s := by
  unfold execPop at *
  split
  · rfl
  · rfl
  · split <;> simp_all [Reply.isError]

theorem execLLen_ro (s : State) (k : Nat) : (execLLen s k).1 = s := by
  unfold execLLen; split <;> rfl

theorem execLIndex_ro (s : State) (k : Nat) (i : Int) : (execLIndex s k i).1 = s := by
  unfold execLIndex
  split
  · rfl
  · rfl
  · split
    · rfl
    · split <;> rfl

theorem execLRange_ro (s : State) (k : Nat) (a b : Int) : (execLRange s k a b).1 = s := by
  unfold execLRange; split <;> rfl

theorem inv_execLSet {s : State} (h : Inv s) (k : Nat) (i : Int) (v : BS) :
    Inv (execLSet s k i v).1 := by
  unfold execLSet
  split
  · exact h
  · exact h
  · split
    · exact h
    · exact inv_putList h ..

theorem execLSet_err {s : State} {k : Nat} {i : Int} {v : BS}
    (he : (execLSet s k i v).2.isError = true) : (execLSet s k i v).1 = s := by
  unfold execLSet at *
  split
  · rfl
  · rfl
  · split <;> simp_all [Reply.isError, Reply.ok]

theorem inv_execLTrim {s : State} (h : Inv s) (k : Nat) (a b : Int) :
    Inv (execLTrim s k a b).1 := by
  unfold execLTrim
  split
  · exact h
  · exact h
  · exact inv_putList h ..

theorem execLTrim_err {s : State} {k : Nat} {a b : Int}
    (he : (execLTrim s k a b).2.isError = true) : (execLTrim s k a b).1 = s := by
  unfold execLTrim at *
  split <;> simp_all [Reply.isError, Reply.ok]

theorem inv_execLMove {s : State} (h : Inv s) (src dst : Nat) (f t : Side) :
    Inv (execLMove s src dst f t).1 := by
  unfold execLMove
  split
  · exact h
  · exact h
  · split
    · exact h
    · split
      · exact inv_putList h ..
      · split
        · exact h
        · dsimp only; exact inv_putList (inv_putList h _ _ _) _ _ _
        · dsimp only; exact inv_putList (inv_putList h _ _ _) _ _ _

theorem execLMove_err {s : State} {src dst : Nat} {f t : Side}
    (he : (execLMove s src dst f t).2.isError = true) : (execLMove s src dst f t).1 = s := by
  unfold execLMove at *
  split
  · rfl
  · rfl
  · split
    · rfl
    · split
      · simp_all [Reply.isError]
      · split <;> simp_all [Reply.isError]

/-! ### SORT -/

theorem inv_execSort {s : State} (h : Inv s) (k : Nat) (st : Option Nat) : Inv (execSort s k st).1 := by
  unfold execSort
  split
  · exact h
  · split
    · exact h
    · split
      · exact h
      · exact inv_putList h ..

theorem execSort_err {s : State} {k : Nat} {st : Option Nat}
    (he : (execSort s k st).2.isError = true) : (execSort s k st).1 = s := by
  unfold execSort at *
  cases hs : sortSource s k with
  | none => rfl
  | some es =>
    simp only [hs] at he ⊢
    by_cases hb : es.any (fun e => (sortNum e).isNone) = true
    · simp only [hb, if_true]
    · simp only [hb] at he ⊢
      cases st <;> simp [Reply.isError] at he

end RedisVerif.Redis
