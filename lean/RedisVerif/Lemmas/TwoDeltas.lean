import RedisVerif.Lemmas.ClusterInv

/-!
Convergence without kind stability, for keys with at most two distinct deltas: only
commutativity and idempotence of `RV.merge` (both proved for ALL kinds, cross-kind included, in
`Props/C07.lean`) are needed — the three-way associativity that fails across a type change
(`C07:assoc:cross-kind`) never comes into play.

* a local write absorbs the value it replaces also ACROSS a type change (fresh, greater stamp);
* `{a, b, a ⊔ b}` is closed under merge and merge is ACI on it, for any two canonical,
  tie-consistent stripped values `a`, `b` of any kinds.
-/
namespace RedisVerif

theorem Crdt.tryMerge_none_of_kind_ne {a b : Crdt} (h : a.kind ≠ b.kind) : Crdt.tryMerge a b = none := by
  cases a <;> cases b <;> simp_all [Crdt.kind, Crdt.tryMerge]

/-- a value of another kind with a greater outer stamp absorbs the old one -/
theorem Shard.cross_below (old d : RV) (hk : old.crdt.kind ≠ d.crdt.kind)
    (hlt : old.ts.lt d.ts = true) : Shard.Below old d := by
  unfold Shard.Below
  obtain ⟨oc, ov, oe, ot, orf⟩ := old
  obtain ⟨nc, nv, ne, nt, nrf⟩ := d
  simp only at hk hlt
  simp [RV.strip, RV.merge, RV.mergeWith, RV.stampMerge, Crdt.mergeWithTimestamps,
    Crdt.tryMerge_none_of_kind_ne hk, hlt, optMerge, Stamp.max]

namespace Shard

/-- a local write that changes the CRDT kind of the key (SET over a hash, HSET with at least one
    pair over a string) absorbs the old value: its stamp is the fresh clock value -/
theorem local_below_cross (s : Shard) (op : LOp) (old d : RV) (hinv : s.Inv)
    (hg : NMap.get s.keys op.key = some old) (hd : (step s op.toOp).2 = some d)
    (hk : old.crdt.kind ≠ d.crdt.kind) (hne : ∀ k, op ≠ .hwrite k []) : Below old d := by
  have ⟨hot, _⟩ := old_facts hinv hg
  cases op with
  | write k v e =>
    simp only [LOp.toOp, step] at hd
    have hd' := Option.some.inj hd
    subst hd'
    apply cross_below _ _ hk
    apply Stamp.lt_of_time_lt
    simp only [recordWrite, Stamp.tick]
    omega
  | hwrite k fs =>
    simp only [LOp.toOp, step] at hd
    have hd' := Option.some.inj hd
    subst hd'
    have hc := C08.hwrite_clock s k fs
    have hfs : fs.isEmpty = false := by
      cases fs with
      | nil => exact absurd rfl (hne k)
      | cons p l => rfl
    apply cross_below _ _ hk
    apply Stamp.lt_of_time_lt
    rw [hc.2.2 hfs, hc.1]
    have : 0 < fs.length := by cases fs with | nil => simp at hfs | cons p l => simp
    omega
  | delete k =>
    simp only [LOp.toOp, step, LOp.key] at hd hg
    exfalso
    by_cases hc0 : old.crdt.kind = 0
    · obtain ⟨r, hr⟩ := kind_lww hc0
      rw [recordDelete_lww hg hr] at hd
      simp only [Option.some.injEq] at hd
      subst hd
      exact hk (by rw [hr]; rfl)
    · by_cases hc5 : old.crdt.kind = 5
      · obtain ⟨m, hm⟩ := kind_hash hc5
        rw [recordDelete_hash hg hm] at hd
        simp only [Option.some.injEq] at hd
        subst hd
        exact hk (by rw [hm]; rfl)
      · rw [recordDelete_other hg hc0 hc5] at hd
        simp only [Option.some.injEq] at hd
        subst hd
        exact hk rfl
  | hdelete k fs =>
    simp only [LOp.toOp, step, LOp.key] at hd hg
    exfalso
    by_cases hc5 : old.crdt.kind = 5
    · obtain ⟨m, hm⟩ := kind_hash hc5
      rw [recordHashDelete_hash hg hm] at hd
      simp only [Option.some.injEq] at hd
      subst hd
      exact hk (by rw [hm]; rfl)
    · rw [recordHashDelete_other hg hc5] at hd
      cases hd

end Shard

/-! ### two values -/

namespace TwoDeltas

/-- a stripped value (what replicas converge on) -/
def Stripped (a : RV) : Prop := a.vc = none ∧ a.expiry = none ∧ a.rf = none

theorem stripped_strip (v : RV) : Stripped v.strip := ⟨rfl, rfl, rfl⟩

theorem strip_wf {v : RV} (h : v.WF) : v.strip.WF := ⟨h.1, by simp [RV.strip, RV.vcWF]⟩

/-- across kinds the merge of two stripped values with different stamps is one of them -/
theorem merge_cross {a b : RV} (ha : Stripped a) (hb : Stripped b)
    (hk : a.crdt.kind ≠ b.crdt.kind) : RV.merge a b = if a.ts.lt b.ts then b else a := by
  obtain ⟨ac, av, ae, at', arf⟩ := a
  obtain ⟨bc, bv, be, bt, brf⟩ := b
  obtain ⟨h1, h2, h3⟩ := ha
  obtain ⟨h4, h5, h6⟩ := hb
  simp only at h1 h2 h3 h4 h5 h6 hk
  subst h1 h2 h3 h4 h5 h6
  simp only [RV.merge, RV.mergeWith, RV.stampMerge, Crdt.mergeWithTimestamps,
    Crdt.tryMerge_none_of_kind_ne hk, optMerge, Stamp.max]
  split <;> rfl

/-- the operation table of merge on `{a, b, a ⊔ b}` -/
structure Table (a b : RV) : Prop where
  aa : RV.merge a a = a
  bb : RV.merge b b = b
  ba : RV.merge b a = RV.merge a b
  mm : RV.merge (RV.merge a b) (RV.merge a b) = RV.merge a b
  am : RV.merge a (RV.merge a b) = RV.merge a b
  bm : RV.merge b (RV.merge a b) = RV.merge a b
  ma : RV.merge (RV.merge a b) a = RV.merge a b
  mb : RV.merge (RV.merge a b) b = RV.merge a b

theorem table {a b : RV} (ha : a.WF) (hb : b.WF) (hsa : Stripped a) (hsb : Stripped b)
    (ht : C07.TieConsistent a b) : Table a b := by
  have aa := C07.rv_merge_idem a ha
  have bb := C07.rv_merge_idem b hb
  have ab := C07.rv_merge_comm a b ha hb ht
  have mm := C07.rv_merge_idem _ (C07.rv_merge_wf ha hb)
  by_cases hk : a.crdt.kind = b.crdt.kind
  · -- one kind: associativity is available
    have as1 := C07.rv_merge_assoc_partial a a b ha ha hb ⟨rfl, hk⟩
    have as2 := C07.rv_merge_assoc_partial b b a hb hb ha ⟨rfl, hk.symm⟩
    have as3 := C07.rv_merge_assoc_partial a b a ha hb ha ⟨hk, hk.symm⟩
    have as4 := C07.rv_merge_assoc_partial a b b ha hb hb ⟨hk, rfl⟩
    have am : RV.merge a (RV.merge a b) = RV.merge a b := by rw [as1, aa]
    have bm : RV.merge b (RV.merge a b) = RV.merge a b := by rw [ab, as2, bb]
    refine ⟨aa, bb, ab.symm, mm, am, bm, ?_, ?_⟩
    · rw [← as3, ← ab, am]
    · rw [← as4, bb]
  · -- two kinds: the merge is one of the two
    have hne : a.ts ≠ b.ts := by
      intro h
      have ht' := ht
      unfold C07.TieConsistent at ht'
      have hkk : (a.crdt.kind == b.crdt.kind) = false := by simp [hk]
      cases hac : a.crdt <;> cases hbc : b.crdt <;>
        simp_all [C07.tieOk, Crdt.kind]
    have hm := merge_cross hsa hsb hk
    by_cases hlt : a.ts.lt b.ts = true
    · have hmb : RV.merge a b = b := by rw [hm]; simp [hlt]
      refine ⟨aa, bb, ab.symm, mm, ?_, ?_, ?_, ?_⟩ <;> rw [hmb]
      · exact hmb
      · exact bb
      · rw [← ab]; exact hmb
      · exact bb
    · have hma : RV.merge a b = a := by rw [hm]; simp [hlt]
      refine ⟨aa, bb, ab.symm, mm, ?_, ?_, ?_, ?_⟩ <;> rw [hma]
      · exact aa
      · rw [← ab]; exact hma
      · exact aa
      · exact hma

/-- the carrier `{a, b, a ⊔ b}` -/
def In (a b x : RV) : Prop := x = a ∨ x = b ∨ x = RV.merge a b

/-- merge is ACI on `{a, b, a ⊔ b}` — by the table, no general associativity needed -/
theorem aci {a b : RV} (t : Table a b) : ACI RV.merge (In a b) where
  closed := by
    rintro x y (rfl | rfl | rfl) (rfl | rfl | rfl) <;>
      simp only [In, t.aa, t.bb, t.ba, t.mm, t.am, t.bm, t.ma, t.mb, true_or, or_true]
  comm := by
    rintro x y (rfl | rfl | rfl) (rfl | rfl | rfl) <;>
      simp only [t.aa, t.bb, t.ba, t.mm, t.am, t.bm, t.ma, t.mb]
  assoc := by
    rintro x y z (rfl | rfl | rfl) (rfl | rfl | rfl) (rfl | rfl | rfl) <;>
      simp only [t.aa, t.bb, t.ba, t.mm, t.am, t.bm, t.ma, t.mb]
  idem := by
    rintro x (rfl | rfl | rfl) <;> simp only [t.aa, t.bb, t.mm]

end TwoDeltas
end RedisVerif

namespace RedisVerif
namespace Cluster

/-- the cluster invariant ("a node's value is the merge-fold of what it absorbed, in absorption
    order") needs no hypothesis on kinds: a local write absorbs the old value within a kind
    (`local_below`) and across kinds (`local_below_cross`) -/
theorem J_step_loc_any {U : List Msg} {k K : Nat} {c : Cluster} (hj : J U k K c)
    (i : Nat) (op : LOp) (hsub : ∀ m ∈ (c.step (.loc i op)).sent, m ∈ U)
    (hne : ∀ k', op ≠ .hwrite k' []) : J U k K (c.step (.loc i op)) := by
  apply J_step_loc_gen hj i op hsub
  intro s old d hs hgo hkk hd _
  obtain ⟨hinv, hinv2, hnwf, _⟩ := hj.nodes_inv s (List.mem_of_getElem? hs)
  by_cases hkind : old.crdt.kind = d.crdt.kind
  · exact Shard.local_below s op old d hinv hinv2 hnwf.2 (by rw [hkk]; exact hgo) hd hkind
  · exact Shard.local_below_cross s op old d hinv (by rw [hkk]; exact hgo) hd hkind hne

theorem J_run_any {U : List Msg} {k K : Nat} (c : Cluster) (evs : List Ev)
    (hne : ∀ e ∈ evs, ∀ i k', e ≠ .loc i (.hwrite k' []))
    (hj : J U k K c) (hsub : ∀ m ∈ (c.run evs).sent, m ∈ U) : J U k K (c.run evs) := by
  induction evs generalizing c with
  | nil => exact hj
  | cons e evs ih =>
    have hsub' : ∀ m ∈ (c.step e).sent, m ∈ U :=
      fun m hm => hsub m (sent_mono_run (c.step e) evs m hm)
    apply ih (c.step e) (fun e' he' => hne e' (by simp [he'])) _ hsub
    cases e with
    | loc i op =>
      exact J_step_loc_any hj i op hsub' (fun k' h => hne (.loc i op) (by simp) i k' (by rw [h]))
    | deliver j idx => exact J_step_deliver hj j idx

/-- folds over the same set of elements agree, for any carrier on which merge is ACI -/
theorem foldOpt_eq_of_aci {P : RV → Prop} (h : ACI RV.merge P) {l l' : List RV}
    (hl : ∀ a ∈ l, P a) (hl' : ∀ a ∈ l', P a) (hs : ∀ a, a ∈ l ↔ a ∈ l') :
    foldOpt l = foldOpt l' := by
  cases l with
  | nil =>
    cases l' with
    | nil => rfl
    | cons b l' => exact absurd ((hs b).mpr (by simp)) (by simp)
  | cons a l =>
    cases l' with
    | nil => exact absurd ((hs a).mp (by simp)) (by simp)
    | cons b l' =>
      simp only [foldOpt, Option.some.injEq]
      exact h.fold_eq_of_same_elems a b l l' (hl a (by simp))
        (fun x hx => hl x (by simp [hx])) (hl' b (by simp)) (fun x hx => hl' x (by simp [hx])) hs

end Cluster
end RedisVerif
