import RedisVerif.Lemmas.SimCluster

/-!
  Copy accounting for the simulator cluster: as long as nothing is lost — no outbox overflow, no
  gossip round while a partition exists, no packet loss — every delta a node recorded is, for every
  node its gossip round sends it to (everybody else, or the targets of its router), still in the
  origin's outbox, or in flight to that node, or absorbed by it.  Hence: outboxes and queue empty ⇒
  delivered to every destination.
-/
namespace RedisVerif
namespace SimC
open Gossip Cluster

/-- this event loses nothing in state `c` (sufficient, decidable) -/
def Calm (cfg : Cfg) (c : Sim) : SEv → Prop
  | .exec i op => ∀ nd, c.nodes[i]? = some nd → nd.ps.pending.length + op.lops.length ≤ cfg.pendingCap
  | .gossip oracle => c.parts = [] ∧ ∀ p ∈ oracle, p.1 = false
  | _ => True

instance (cfg : Cfg) (c : Sim) (e : SEv) : Decidable (Calm cfg c e) := by
  cases e <;> simp only [Calm] <;> infer_instance

/-- every event of the run is calm in the state it meets -/
def CalmRun (H : AE.Hasher) (cfg : Cfg) : Sim → List SEv → Prop
  | _, [] => True
  | c, e :: es => Calm cfg c e ∧ CalmRun H cfg (c.step H cfg e) es

instance (H : AE.Hasher) (cfg : Cfg) : ∀ (c : Sim) (evs : List SEv), Decidable (CalmRun H cfg c evs)
  | _, [] => isTrue trivial
  | c, e :: es =>
    have := instDecidableCalmRun H cfg (c.step H cfg e) es
    by unfold CalmRun; infer_instance

/-- the nodes the gossip round of node `o` sends a delta of key `k` to -/
def destsOf (routers : List (Option Router)) (n o k : Nat) : List Nat :=
  match routers[o]? with
  | some (some r) =>
    if r.selective then (r.targetsOf k).map (· - 1)
    else (List.range n).filter (· ≠ o)
  | _ => (List.range n).filter (· ≠ o)

/-- the nodes the gossip round of `m`'s origin sends `m` to -/
def dests (routers : List (Option Router)) (n : Nat) (m : Msg) : List Nat := destsOf routers n m.origin m.key

structure SAcc (c : Sim) : Prop where
  /-- a delta in the outbox of node `i` was recorded there -/
  porg : ∀ (i : Nat) (nd : SNode), c.nodes[i]? = some nd → ∀ m ∈ nd.ps.pending, m.origin = i
  /-- every recorded delta was recorded by an existing node -/
  iorg : ∀ m ∈ c.issued, m.origin < c.nodes.length
  acc : ∀ m ∈ c.issued, ∀ j ∈ dests c.routers c.nodes.length m, j < c.nodes.length →
    (∃ nd : SNode, c.nodes[m.origin]? = some nd ∧ m ∈ nd.ps.pending) ∨
    (∃ f ∈ c.queue, f.dst = j ∧ m ∈ f.deltas) ∨
    (⟨j, m.key, m.val⟩ : Absorbed) ∈ c.log

theorem acc_init (n : Nat) (causal : Bool) (routers : List (Option Router)) (autoAE : Bool) :
    SAcc (Sim.init n causal routers autoAE) := by
  constructor
  · intro i nd hnd m hm
    have hmem := List.mem_of_getElem? hnd
    simp only [Sim.init, List.mem_map, List.mem_range] at hmem
    obtain ⟨x, _, rfl⟩ := hmem
    simp [SNode.init, PShard.init] at hm
  · intro m hm; simp [Sim.init] at hm
  · intro m hm; simp [Sim.init] at hm

/-! ### routing is complete -/

theorem routeSelective_complete (r : Router) (deltas : List Msg) (d : Msg) (hd : d ∈ deltas) (t : Nat)
    (ht : t ∈ r.targetsOf d.key) : ∃ row, (t, row) ∈ routeSelective r deltas ∧ d ∈ row := by
  unfold routeSelective
  -- generalise over the table built so far: a row once there only grows
  have grow_inner : ∀ (x : Msg) (tgs : List Nat) (tbl : NMap (List Msg)) (t' : Nat) (y : Msg),
      (∃ row, NMap.get tbl t' = some row ∧ y ∈ row) →
      ∃ row, NMap.get (tgs.foldl (fun t tg => NMap.insert tg ((NMap.get t tg).getD [] ++ [x]) t) tbl) t' = some row ∧ y ∈ row := by
    intro x tgs
    induction tgs with
    | nil => intro tbl t' y h; exact h
    | cons tg tgs ih =>
      intro tbl t' y ⟨row, hrow, hy⟩
      simp only [List.foldl_cons]
      apply ih
      rw [NMap.get_insert]
      by_cases he : t' = tg
      · subst he
        simp only [if_true, hrow, Option.getD_some]
        exact ⟨row ++ [x], rfl, List.mem_append_left _ hy⟩
      · simp only [he, if_false]
        exact ⟨row, hrow, hy⟩
  have put_inner : ∀ (x : Msg) (tgs : List Nat) (tbl : NMap (List Msg)) (t' : Nat), t' ∈ tgs →
      ∃ row, NMap.get (tgs.foldl (fun t tg => NMap.insert tg ((NMap.get t tg).getD [] ++ [x]) t) tbl) t' = some row ∧ x ∈ row := by
    intro x tgs
    induction tgs with
    | nil => intro tbl t' h; cases h
    | cons tg tgs ih =>
      intro tbl t' h
      simp only [List.foldl_cons]
      rcases List.mem_cons.mp h with h1 | h1
      · subst h1
        apply grow_inner
        rw [NMap.get_insert]
        simp only [if_true]
        exact ⟨_, rfl, by simp⟩
      · exact ih _ t' h1
  have outer : ∀ (ds : List Msg) (tbl : NMap (List Msg)), d ∈ ds →
      ∃ row, NMap.get (ds.foldl (fun t d' =>
        (r.targetsOf d'.key).foldl (fun t tg => NMap.insert tg ((NMap.get t tg).getD [] ++ [d']) t) t) tbl) t = some row ∧ d ∈ row := by
    intro ds
    induction ds with
    | nil => intro tbl h; cases h
    | cons x ds ih =>
      intro tbl h
      simp only [List.foldl_cons]
      rcases List.mem_cons.mp h with h1 | h1
      · subst h1
        -- put by the inner fold, kept by the rest
        have hput := put_inner d (r.targetsOf d.key) tbl t ht
        have keep : ∀ (ds : List Msg) (tbl : NMap (List Msg)), (∃ row, NMap.get tbl t = some row ∧ d ∈ row) →
            ∃ row, NMap.get (ds.foldl (fun t d' =>
              (r.targetsOf d'.key).foldl (fun t tg => NMap.insert tg ((NMap.get t tg).getD [] ++ [d']) t) t) tbl) t = some row ∧ d ∈ row := by
          intro ds
          induction ds with
          | nil => intro tbl h; exact h
          | cons y ds ih2 =>
            intro tbl h
            simp only [List.foldl_cons]
            exact ih2 _ (grow_inner y _ tbl t d h)
        exact keep ds _ hput
      · exact ih _ h1
  obtain ⟨row, hrow, hd'⟩ := outer deltas [] hd
  exact ⟨row, NMap.mem_of_get hrow, hd'⟩

/-- whoever is a destination of `m` gets a send whose deltas contain `m` -/
theorem sendsOf_complete (routers : List (Option Router)) (n src : Nat) (ds : List Msg) (m : Msg) (hm : m ∈ ds)
    (hsrc : m.origin = src) (j : Nat) (hj : j ∈ dests routers n m) :
    ∃ p ∈ Sim.sendsOf routers n src ds, p.1 = j ∧ m ∈ p.2 := by
  have hne : ds.isEmpty = false := by cases ds with | nil => cases hm | cons _ _ => rfl
  unfold Sim.sendsOf
  simp only [hne, Bool.false_eq_true, if_false]
  unfold dests destsOf at hj
  rw [hsrc] at hj
  have bc : j ∈ (List.range n).filter (· ≠ src) →
      ∃ p ∈ ((List.range n).filter (· ≠ src)).map (fun t => (t, ds)), p.1 = j ∧ m ∈ p.2 := by
    intro h
    exact ⟨(j, ds), List.mem_map.mpr ⟨j, h, rfl⟩, rfl, hm⟩
  cases hr : routers[src]? with
  | none => rw [hr] at hj; simp only [hr]; exact bc hj
  | some ro =>
    rw [hr] at hj
    cases ro with
    | none => simp only [hr]; exact bc hj
    | some r =>
      simp only [hr]
      simp only at hj
      by_cases hs : r.selective = true
      · simp only [hs, if_true] at hj ⊢
        simp only [List.mem_map] at hj
        obtain ⟨t, ht, rfl⟩ := hj
        obtain ⟨row, hrow, hmr⟩ := routeSelective_complete r ds m hm t ht
        exact ⟨(t - 1, row), List.mem_map.mpr ⟨(t, row), hrow, rfl⟩, rfl, hmr⟩
      · simp only [hs, Bool.false_eq_true, if_false] at hj ⊢
        exact bc hj

/-! ### sending without loss -/

theorem sendFold_mono (parts : List (Nat × Nat)) (now : Nat) (sends : List (Nat × Nat × List Msg)) :
    ∀ (acc : List Flight × List (Bool × Nat)), ∀ f ∈ acc.1,
      f ∈ (sends.foldl (fun acc sp => Sim.sendOne parts now acc sp.1 sp.2) acc).1 := by
  induction sends with
  | nil => intro acc f hf; exact hf
  | cons sp sends ih =>
    intro acc f hf
    simp only [List.foldl_cons]
    apply ih
    unfold Sim.sendOne
    split
    · exact hf
    · simp only []
      split
      · exact hf
      · exact List.mem_append_left _ hf

theorem sendFold_complete (now : Nat) (sends : List (Nat × Nat × List Msg)) :
    ∀ (acc : List Flight × List (Bool × Nat)), (∀ p ∈ acc.2, p.1 = false) →
    ∀ sp ∈ sends, ∃ f ∈ (sends.foldl (fun acc sp => Sim.sendOne [] now acc sp.1 sp.2) acc).1,
      f.dst = sp.2.1 ∧ f.deltas = sp.2.2 := by
  induction sends with
  | nil => intro acc _ sp hsp; cases hsp
  | cons x sends ih =>
    intro acc hor sp hsp
    simp only [List.foldl_cons]
    -- one lossless send
    have hone : Sim.sendOne [] now acc x.1 x.2 =
        (acc.1 ++ [⟨x.1, x.2.1, x.2.2, now + (acc.2.headD (false, 1)).2⟩], acc.2.tail) := by
      unfold Sim.sendOne
      have hc : Sim.canComm [] x.1 x.2.1 = true := rfl
      simp only [hc, Bool.not_true, Bool.false_eq_true, if_false]
      have : (acc.2.headD (false, 1)).1 = false := by
        cases h : acc.2 with
        | nil => rfl
        | cons p ps => simp only [List.headD_cons]; exact hor p (by rw [h]; simp)
      simp only [this, Bool.false_eq_true, if_false]
    have hor' : ∀ p ∈ (Sim.sendOne [] now acc x.1 x.2).2, p.1 = false := by
      rw [hone]
      intro p hp
      exact hor p (List.mem_of_mem_tail hp)
    rcases List.mem_cons.mp hsp with h1 | h1
    · subst h1
      refine ⟨⟨sp.1, sp.2.1, sp.2.2, now + (acc.2.headD (false, 1)).2⟩, ?_, rfl, rfl⟩
      apply sendFold_mono
      rw [hone]
      simp
    · exact ih _ hor' sp h1

/-! ### deliveries -/

theorem deliverFlights_log (fs : List Flight) : ∀ (c : Sim),
    (∀ a ∈ c.log, a ∈ (fs.foldl Sim.deliverFlight c).log) ∧
    (fs.foldl Sim.deliverFlight c).nodes.length = c.nodes.length ∧
    (fs.foldl Sim.deliverFlight c).routers = c.routers ∧
    (∀ f ∈ fs, f.dst < c.nodes.length → ∀ m ∈ f.deltas,
      (⟨f.dst, m.key, m.val⟩ : Absorbed) ∈ (fs.foldl Sim.deliverFlight c).log) := by
  induction fs with
  | nil => intro c; exact ⟨fun a ha => ha, rfl, rfl, fun f hf => by cases hf⟩
  | cons g fs ih =>
    intro c
    simp only [List.foldl_cons]
    obtain ⟨h1, h2, h3, h4⟩ := ih (Sim.deliverFlight c g)
    have hstep : (∀ a ∈ c.log, a ∈ (Sim.deliverFlight c g).log) ∧
        (Sim.deliverFlight c g).nodes.length = c.nodes.length ∧ (Sim.deliverFlight c g).routers = c.routers ∧
        (g.dst < c.nodes.length → ∀ m ∈ g.deltas, (⟨g.dst, m.key, m.val⟩ : Absorbed) ∈ (Sim.deliverFlight c g).log) := by
      unfold Sim.deliverFlight
      cases hn : c.nodes[g.dst]? with
      | none =>
        refine ⟨fun a ha => ha, rfl, rfl, ?_⟩
        intro hlt
        rw [List.getElem?_eq_getElem hlt] at hn; cases hn
      | some nd =>
        refine ⟨fun a ha => List.mem_append_left _ ha, by simp, rfl, ?_⟩
        intro _ m hm
        exact List.mem_append_right _ (List.mem_map.mpr ⟨m, hm, rfl⟩)
    refine ⟨fun a ha => h1 a (hstep.1 a ha), by rw [h2, hstep.2.1], by rw [h3, hstep.2.2.1], ?_⟩
    intro f hf hlt m hm
    rcases List.mem_cons.mp hf with h5 | h5
    · subst h5
      exact h1 _ (hstep.2.2.2 hlt m hm)
    · exact h4 f h5 (by rw [hstep.2.1]; exact hlt) m hm

/-! ### recording without overflow -/

theorem record_pending (cap i : Nat) : ∀ (ops : List LOp) (ps : PShard) (acc : List Msg),
    ps.pending.length + ops.length ≤ cap →
    ∃ ds, (ops.foldl (recF cap i) (ps, acc)).2 = acc ++ ds ∧
      (ops.foldl (recF cap i) (ps, acc)).1.pending = ps.pending ++ ds ∧ ∀ m ∈ ds, m.origin = i := by
  intro ops
  induction ops with
  | nil => intro ps acc _; exact ⟨[], by simp, by simp, fun m hm => by cases hm⟩
  | cons op ops ih =>
    intro ps acc hlen
    simp only [List.foldl_cons, List.length_cons] at hlen ⊢
    cases hd : (Shard.step ps.sh op.toOp).2 with
    | none =>
      have hrec : recF cap i (ps, acc) op = ({ ps with sh := (Shard.step ps.sh op.toOp).1 }, acc) := by
        simp only [recF, PShard.localOp, hd]
      rw [hrec]
      exact ih _ acc (by simp only; omega)
    | some d =>
      have hcap : enforceCap cap (ps.pending ++ [⟨i, op.key, d⟩]) = ps.pending ++ [⟨i, op.key, d⟩] :=
        enforceCap_of_le (by simp; omega)
      have hrec : recF cap i (ps, acc) op =
          ({ sh := (Shard.step ps.sh op.toOp).1, pending := ps.pending ++ [⟨i, op.key, d⟩] }, acc ++ [⟨i, op.key, d⟩]) := by
        simp only [recF, PShard.localOp, hd, hcap]
      rw [hrec]
      obtain ⟨ds, h1, h2, h3⟩ := ih { sh := (Shard.step ps.sh op.toOp).1, pending := ps.pending ++ [⟨i, op.key, d⟩] }
        (acc ++ [⟨i, op.key, d⟩]) (by simp; omega)
      refine ⟨⟨i, op.key, d⟩ :: ds, by rw [h1]; simp, by rw [h2]; simp, ?_⟩
      intro m hm
      rcases List.mem_cons.mp hm with h | h
      · rw [h]
      · exact h3 m h

theorem deliverFlights_pending (fs : List Flight) : ∀ (c : Sim), (∀ nd ∈ c.nodes, nd.ps.pending = []) →
    (∀ nd ∈ (fs.foldl Sim.deliverFlight c).nodes, nd.ps.pending = []) ∧
    (fs.foldl Sim.deliverFlight c).issued = c.issued ∧ (fs.foldl Sim.deliverFlight c).queue = c.queue := by
  induction fs with
  | nil => intro c h; exact ⟨h, rfl, rfl⟩
  | cons g fs ih =>
    intro c h
    simp only [List.foldl_cons]
    have hstep : (∀ nd ∈ (Sim.deliverFlight c g).nodes, nd.ps.pending = []) ∧
        (Sim.deliverFlight c g).issued = c.issued ∧ (Sim.deliverFlight c g).queue = c.queue := by
      unfold Sim.deliverFlight
      cases hn : c.nodes[g.dst]? with
      | none => exact ⟨h, rfl, rfl⟩
      | some nd =>
        refine ⟨?_, rfl, rfl⟩
        intro nd' hnd'
        rcases mem_set hnd' with h1 | h1
        · rw [h1, (applyAll_sh g.deltas nd).2]; exact h nd (List.mem_of_getElem? hn)
        · exact h nd' h1
    obtain ⟨h1, h2, h3⟩ := ih _ hstep.1
    exact ⟨h1, by rw [h2, hstep.2.1], by rw [h3, hstep.2.2]⟩

/-! ### the invariant is preserved by calm events -/

theorem syncStep_shape (H : AE.Hasher) (cfg : Cfg) (c : Sim) (a b : Nat) :
    (Sim.syncStep H cfg c a b).issued = c.issued ∧ (Sim.syncStep H cfg c a b).queue = c.queue ∧
    (Sim.syncStep H cfg c a b).routers = c.routers ∧ (Sim.syncStep H cfg c a b).nodes.length = c.nodes.length ∧
    (∀ x ∈ c.log, x ∈ (Sim.syncStep H cfg c a b).log) ∧
    (∀ (i : Nat) (nd' : SNode), (Sim.syncStep H cfg c a b).nodes[i]? = some nd' →
      ∃ nd, c.nodes[i]? = some nd ∧ nd'.ps.pending = nd.ps.pending) := by
  cases hna : c.nodes[a]? with
  | none =>
    have : Sim.syncStep H cfg c a b = c := by simp only [Sim.syncStep, hna]
    rw [this]; exact ⟨rfl, rfl, rfl, rfl, fun x hx => hx, fun i nd' h => ⟨nd', h, rfl⟩⟩
  | some na =>
    cases hnb : c.nodes[b]? with
    | none =>
      have : Sim.syncStep H cfg c a b = c := by simp only [Sim.syncStep, hna, hnb]
      rw [this]; exact ⟨rfl, rfl, rfl, rfl, fun x hx => hx, fun i nd' h => ⟨nd', h, rfl⟩⟩
    | some nb =>
      cases hsd : Sim.syncDeltas H cfg na.ps.sh.keys nb.ps.sh.keys with
      | none =>
        have : Sim.syncStep H cfg c a b = c := by simp only [Sim.syncStep, hna, hnb, hsd]
        rw [this]; exact ⟨rfl, rfl, rfl, rfl, fun x hx => hx, fun i nd' h => ⟨nd', h, rfl⟩⟩
      | some dd =>
        obtain ⟨da, db⟩ := dd
        have hst : Sim.syncStep H cfg c a b =
            { c with
              nodes := (c.nodes.set b (nb.applyAll (Sim.toMsgs a da))).set a (na.applyAll (Sim.toMsgs b db))
              syncs := c.syncs + 1
              snaps := c.snaps ++ Sim.snapsOf c.log a da ++ Sim.snapsOf c.log b db
              log := c.log ++ Sim.absorbedOf b (Sim.snapsOf c.log a da) ++ Sim.absorbedOf a (Sim.snapsOf c.log b db) } := by
          simp only [Sim.syncStep, hna, hnb, hsd]
        rw [hst]
        refine ⟨rfl, rfl, rfl, by simp, ?_, ?_⟩
        · intro x hx
          simp only [List.append_assoc]
          exact List.mem_append_left _ hx
        · intro i nd' h
          simp only at h
          rcases getElem?_set_cases h with ⟨rfl, rfl⟩ | ⟨hia, h1⟩
          · exact ⟨na, hna, (applyAll_sh _ na).2⟩
          · rcases getElem?_set_cases h1 with ⟨rfl, rfl⟩ | ⟨_, h2⟩
            · exact ⟨nb, hnb, (applyAll_sh _ nb).2⟩
            · exact ⟨nd', h2, rfl⟩

theorem sacc_syncStep (H : AE.Hasher) (cfg : Cfg) (c : Sim) (h : SAcc c) (a b : Nat) :
    SAcc (Sim.syncStep H cfg c a b) := by
  obtain ⟨h1, h2, h3, h4, h5, h6⟩ := syncStep_shape H cfg c a b
  constructor
  · intro i nd' hnd' m hm
    obtain ⟨nd, hnd, hp⟩ := h6 i nd' hnd'
    rw [hp] at hm
    exact h.porg i nd hnd m hm
  · intro m hm
    rw [h1] at hm; rw [h4]; exact h.iorg m hm
  · intro m hm j hj hjn
    rw [h1] at hm
    rw [h3, h4] at hj
    rw [h4] at hjn
    rcases h.acc m hm j hj hjn with ⟨nd, hnd, hmp⟩ | ⟨f, hf, hfd, hfm⟩ | hg
    · left
      have hlt : m.origin < (Sim.syncStep H cfg c a b).nodes.length := by
        rw [h4]; exact (List.getElem?_eq_some_iff.mp hnd).1
      obtain ⟨nd0, hnd0, hp⟩ := h6 m.origin _ (List.getElem?_eq_getElem hlt)
      rw [hnd] at hnd0
      cases hnd0
      exact ⟨_, List.getElem?_eq_getElem hlt, by rw [hp]; exact hmp⟩
    · right; left; exact ⟨f, by rw [h2]; exact hf, hfd, hfm⟩
    · right; right; exact h5 _ hg

theorem sacc_syncFold (H : AE.Hasher) (cfg : Cfg) (ps : List (Nat × Nat)) : ∀ (c : Sim), SAcc c →
    SAcc (ps.foldl (fun c p => if Sim.canComm c.parts p.1 p.2 then Sim.syncStep H cfg c p.1 p.2 else c) c) := by
  induction ps with
  | nil => intro c h; exact h
  | cons p ps ih =>
    intro c h
    simp only [List.foldl_cons]
    split
    · exact ih _ (sacc_syncStep H cfg c h p.1 p.2)
    · exact ih c h

theorem sacc_step (H : AE.Hasher) (cfg : Cfg) (c : Sim) (h : SAcc c) (e : SEv) (hc : Calm cfg c e) :
    SAcc (c.step H cfg e) := by
  cases e with
  | exec i op =>
    cases hn : c.nodes[i]? with
    | none =>
      have : c.step H cfg (.exec i op) = c := by simp only [Sim.step, hn]
      rw [this]; exact h
    | some nd =>
      have hst : c.step H cfg (.exec i op) =
          { c with
            nodes := c.nodes.set i { ps := (SNode.record cfg.pendingCap i nd.ps op.lops).1, kv := SNode.kvExec nd.kv op }
            issued := c.issued ++ (SNode.record cfg.pendingCap i nd.ps op.lops).2
            log := c.log ++ (SNode.record cfg.pendingCap i nd.ps op.lops).2.map (fun m => ⟨i, m.key, m.val⟩) } := by
        simp only [Sim.step, hn]
      obtain ⟨ds, h1, h2, h3⟩ := record_pending cfg.pendingCap i op.lops nd.ps [] (hc nd hn)
      rw [record_eq] at hst
      simp only [List.nil_append] at h1
      rw [h1] at hst
      have hilt : i < c.nodes.length := (List.getElem?_eq_some_iff.mp hn).1
      rw [hst]
      constructor
      · intro i' nd' hnd' m hm
        simp only at hnd'
        rcases getElem?_set_cases hnd' with ⟨rfl, rfl⟩ | ⟨_, h4⟩
        · simp only [h2, List.mem_append] at hm
          rcases hm with h5 | h5
          · exact h.porg _ nd hn m h5
          · exact h3 m h5
        · exact h.porg i' nd' h4 m hm
      · intro m hm
        simp only [List.length_set]
        rcases List.mem_append.mp hm with h5 | h5
        · exact h.iorg m h5
        · rw [h3 m h5]; exact hilt
      · intro m hm j hj hjn
        simp only [List.length_set] at hj hjn
        simp only [List.mem_append] at hm
        rcases hm with hm | hm
        · rcases h.acc m hm j hj hjn with ⟨nd0, hnd0, hmp⟩ | ⟨f, hf, hfd, hfm⟩ | hg
          · left
            by_cases ho : m.origin = i
            · rw [ho] at hnd0 ⊢
              rw [hn] at hnd0; cases hnd0
              refine ⟨_, List.getElem?_set_self hilt, ?_⟩
              simp only [h2, List.mem_append]
              exact Or.inl hmp
            · exact ⟨nd0, by simp only; rw [List.getElem?_set_ne (Ne.symm ho)]; exact hnd0, hmp⟩
          · right; left; exact ⟨f, hf, hfd, hfm⟩
          · right; right; exact List.mem_append_left _ hg
        · left
          rw [h3 m hm]
          refine ⟨_, List.getElem?_set_self hilt, ?_⟩
          simp only [h2, List.mem_append]
          exact Or.inr hm
  | gossip oracle =>
    obtain ⟨hparts, hor⟩ := hc
    simp only [Sim.step]
    generalize hq : ((((List.range c.nodes.length).flatMap fun src =>
        (Sim.sendsOf c.routers c.nodes.length src ((c.nodes.map fun nd => nd.ps.pending)[src]?.getD [])).map
          fun p => (src, p)).foldl (fun acc sp => Sim.sendOne c.parts c.now acc sp.1 sp.2) (c.queue, oracle)).1) = q
    have hsplit := popReady_split c.parts c.now q
    -- what is in the queue after the sends
    have hold : ∀ f ∈ c.queue, f ∈ q := by
      intro f hf; rw [← hq]; exact sendFold_mono c.parts c.now _ (c.queue, oracle) f hf
    have hnew : ∀ m ∈ c.issued, ∀ j ∈ dests c.routers c.nodes.length m, ∀ nd : SNode,
        c.nodes[m.origin]? = some nd → m ∈ nd.ps.pending → ∃ f ∈ q, f.dst = j ∧ m ∈ f.deltas := by
      intro m _ j hj nd hnd hmp
      have holt : m.origin < c.nodes.length := (List.getElem?_eq_some_iff.mp hnd).1
      have hdr : ((c.nodes.map fun nd => nd.ps.pending)[m.origin]?.getD []) = nd.ps.pending := by
        simp [List.getElem?_map, hnd]
      obtain ⟨p, hp, hpj, hpm⟩ := sendsOf_complete c.routers c.nodes.length m.origin nd.ps.pending m hmp rfl j hj
      have hsp : (m.origin, p) ∈ (List.range c.nodes.length).flatMap fun src =>
          (Sim.sendsOf c.routers c.nodes.length src ((c.nodes.map fun nd => nd.ps.pending)[src]?.getD [])).map
            fun p => (src, p) := by
        simp only [List.mem_flatMap, List.mem_map, List.mem_range]
        exact ⟨m.origin, holt, p, by rw [hdr]; exact hp, rfl⟩
      rw [hparts] at hq
      obtain ⟨f, hf, hfd, hfm⟩ := sendFold_complete c.now _ (c.queue, oracle) hor _ hsp
      rw [hq] at hf
      exact ⟨f, hf, by rw [hfd, hpj], by rw [hfm]; exact hpm⟩
    obtain ⟨hl1, hl2, hl3, hl4⟩ := deliverFlights_log (Sim.popReady c.parts c.now q).1
      { c with nodes := c.nodes.map (fun nd => { nd with ps := { nd.ps with pending := [] } }),
               queue := (Sim.popReady c.parts c.now q).2 }
    have hpend := deliverFlights_pending (Sim.popReady c.parts c.now q).1
      { c with nodes := c.nodes.map (fun nd => { nd with ps := { nd.ps with pending := [] } }),
               queue := (Sim.popReady c.parts c.now q).2 }
      (by
        intro nd hnd
        simp only [List.mem_map] at hnd
        obtain ⟨x, _, rfl⟩ := hnd
        rfl)
    have hlen0 : (c.nodes.map (fun nd : SNode => ({ nd with ps := { nd.ps with pending := [] } } : SNode))).length
        = c.nodes.length := by simp
    constructor
    · intro i nd hnd m hm
      rw [hpend.1 nd (List.mem_of_getElem? hnd)] at hm
      cases hm
    · intro m hm
      rw [hpend.2.1] at hm
      rw [hl2]
      simp only [hlen0]
      exact h.iorg m hm
    · intro m hm j hj hjn
      rw [hpend.2.1] at hm
      rw [hl3, hl2] at hj
      rw [hl2] at hjn
      simp only [hlen0] at hj hjn
      -- where the copy for `j` is after the sends
      have hin : (∃ f ∈ q, f.dst = j ∧ m ∈ f.deltas) ∨ (⟨j, m.key, m.val⟩ : Absorbed) ∈ c.log := by
        rcases h.acc m hm j hj hjn with ⟨nd, hnd, hmp⟩ | ⟨f, hf, hfd, hfm⟩ | hg
        · exact Or.inl (hnew m hm j hj nd hnd hmp)
        · exact Or.inl ⟨f, hold f hf, hfd, hfm⟩
        · exact Or.inr hg
      rcases hin with ⟨f, hf, hfd, hfm⟩ | hg
      · rw [← hsplit] at hf
        rcases List.mem_append.mp hf with h1 | h1
        · right; right
          have := hl4 f h1 (by simp only [hlen0]; rw [hfd]; exact hjn) m hfm
          rw [hfd] at this
          exact this
        · right; left
          exact ⟨f, by rw [hpend.2.2]; exact h1, hfd, hfm⟩
      · right; right
        exact hl1 _ hg
  | advance ms => exact ⟨h.porg, h.iorg, h.acc⟩
  | partition a b => exact ⟨h.porg, h.iorg, h.acc⟩
  | heal a b =>
    simp only [Sim.step]
    have h1 : SAcc { c with parts := c.parts.filter (· ≠ Sim.norm a b) } := ⟨h.porg, h.iorg, h.acc⟩
    split
    · exact sacc_syncStep H cfg _ h1 a b
    · exact h1
  | sync a b => exact sacc_syncStep H cfg c h a b
  | fullSync => exact sacc_syncFold H cfg _ c h

theorem sacc_run (H : AE.Hasher) (cfg : Cfg) (evs : List SEv) : ∀ (c : Sim), SAcc c → CalmRun H cfg c evs →
    SAcc (c.run H cfg evs) := by
  induction evs with
  | nil => intro c h _; exact h
  | cons e evs ih =>
    intro c h hc
    exact ih _ (sacc_step H cfg c h e hc.1) hc.2

/-- outboxes and queue empty: every copy has arrived -/
theorem delivered_of_quiet (c : Sim) (h : SAcc c) (hq : c.queue = [])
    (hp : ∀ nd ∈ c.nodes, nd.ps.pending = []) :
    ∀ m ∈ c.issued, ∀ j ∈ dests c.routers c.nodes.length m, j < c.nodes.length →
      (⟨j, m.key, m.val⟩ : Absorbed) ∈ c.log := by
  intro m hm j hj hjn
  rcases h.acc m hm j hj hjn with ⟨nd, hnd, hmp⟩ | ⟨f, hf, _, _⟩ | hg
  · rw [hp nd (List.mem_of_getElem? hnd)] at hmp; cases hmp
  · rw [hq] at hf; cases hf
  · exact hg

end SimC
end RedisVerif
