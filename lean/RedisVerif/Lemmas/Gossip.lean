import RedisVerif.Model.Gossip
import RedisVerif.Lemmas.NMap

/-!
  Lemmas for the message-level model (`Model/Gossip.lean`): what sits in a queue or on the wire
  is always a delta of the history, and a received frame is a run of layer-1 `deliver` events.
-/
namespace RedisVerif
namespace Gossip

theorem mem_enforceCap {α : Type} {cap : Nat} {q : List α} {x : α} (h : x ∈ enforceCap cap q) : x ∈ q := by
  unfold enforceCap at h
  split at h
  · exact List.mem_of_mem_drop h
  · exact h

theorem enforceCap_eq_drop {α : Type} (cap : Nat) (q : List α) : enforceCap cap q = q.drop (q.length - cap) := by
  unfold enforceCap
  split
  · rfl
  · rename_i h
    have : q.length - cap = 0 := by omega
    rw [this]; rfl

theorem enforceCap_length_le {α : Type} (cap : Nat) (q : List α) : (enforceCap cap q).length ≤ cap := by
  rw [enforceCap_eq_drop, List.length_drop]; omega

theorem enforceCap_of_le {α : Type} {cap : Nat} {q : List α} (h : q.length ≤ cap) : enforceCap cap q = q := by
  unfold enforceCap
  split
  · omega
  · rfl

theorem overflow_of_le {α : Type} {cap : Nat} {q : List α} (h : q.length ≤ cap) : overflow cap q = [] := by
  unfold overflow
  split
  · omega
  · rfl

/-- nothing vanishes silently: the queue before = what was dropped ++ what is kept -/
theorem overflow_append_enforceCap {α : Type} (cap : Nat) (q : List α) :
    overflow cap q ++ enforceCap cap q = q := by
  unfold overflow enforceCap
  split
  · exact List.take_append_drop _ _
  · rfl

theorem mem_ofList {ν : Type} {l : List (Nat × ν)} {p : Nat × ν} (h : p ∈ NMap.ofList l) : p ∈ l := by
  have gen : ∀ (l : List (Nat × ν)) (m : NMap ν), p ∈ l.foldl (fun m q => NMap.insert q.1 q.2 m) m →
      p ∈ m ∨ p ∈ l := by
    intro l
    induction l with
    | nil => intro m h; exact Or.inl h
    | cons q l ih =>
      intro m h
      simp only [List.foldl_cons] at h
      rcases ih _ h with h | h
      · rcases NMap.mem_insert h with h | h
        · right; rw [h]; exact List.mem_cons_self
        · exact Or.inl h
      · exact Or.inr (List.mem_cons_of_mem _ h)
  rcases gen l [] h with h | h
  · cases h
  · exact h

/-- an address the gossip loop looks up is one of the configured peers -/
theorem peerMap_mem {cfg : NodeCfg} {t addr : Nat} (h : NMap.get (peerMap cfg) t = some addr) :
    addr ∈ cfg.peers := by
  have := mem_ofList (NMap.mem_of_get h)
  simp only [peerMap, List.mem_map] at this
  obtain ⟨q, hq, he⟩ := this
  have := (List.of_mem_zip hq).2
  simp only [Prod.mk.injEq] at he
  rw [← he.2]; exact this

/-! ## routing only re-arranges the deltas it was given -/

theorem routeSelective_mem (r : Router) (deltas : List Msg) :
    ∀ p ∈ routeSelective r deltas, ∀ m ∈ p.2, m ∈ deltas := by
  have inner : ∀ (d : Msg) (tgs : List Nat) (t : NMap (List Msg)) (D : List Msg), d ∈ D →
      (∀ p ∈ t, ∀ m ∈ p.2, m ∈ D) →
      ∀ p ∈ tgs.foldl (fun t tg => NMap.insert tg ((NMap.get t tg).getD [] ++ [d]) t) t,
        ∀ m ∈ p.2, m ∈ D := by
    intro d tgs
    induction tgs with
    | nil => intro t D _ h; exact h
    | cons tg tgs ih =>
      intro t D hd h
      simp only [List.foldl_cons]
      apply ih _ D hd
      intro p hp m hm
      rcases NMap.mem_insert hp with hp | hp
      · rw [hp] at hm
        simp only [List.mem_append, List.mem_singleton] at hm
        rcases hm with hm | hm
        · cases hg : NMap.get t tg with
          | none => rw [hg] at hm; cases hm
          | some l =>
            rw [hg] at hm
            exact h _ (NMap.mem_of_get hg) m hm
        · rw [hm]; exact hd
      · exact h p hp m hm
  have outer : ∀ (ds : List Msg) (t : NMap (List Msg)) (D : List Msg), (∀ d ∈ ds, d ∈ D) →
      (∀ p ∈ t, ∀ m ∈ p.2, m ∈ D) →
      ∀ p ∈ ds.foldl (fun t d =>
        (r.targetsOf d.key).foldl (fun t tg => NMap.insert tg ((NMap.get t tg).getD [] ++ [d]) t) t) t,
        ∀ m ∈ p.2, m ∈ D := by
    intro ds
    induction ds with
    | nil => intro t D _ h; exact h
    | cons d ds ih =>
      intro t D hD h
      simp only [List.foldl_cons]
      apply ih _ D (fun x hx => hD x (List.mem_cons_of_mem _ hx))
      exact inner d _ t D (hD d List.mem_cons_self) h
  exact outer deltas [] deltas (fun _ h => h) (fun p hp => by cases hp)

theorem tableInOrder_mem (order : List Nat) (t : NMap (List Msg)) :
    ∀ p ∈ tableInOrder order t, p ∈ t := by
  intro p hp
  simp only [tableInOrder, List.mem_append, List.mem_filterMap, List.mem_filter] at hp
  rcases hp with ⟨tg, _, h⟩ | ⟨h, _⟩
  · cases hg : NMap.get t tg with
    | none => rw [hg] at h; cases h
    | some ds =>
      rw [hg] at h
      simp only [Option.map_some, Option.some.injEq] at h
      rw [← h]; exact NMap.mem_of_get hg
  · exact h

/-- the deltas inside the messages of one `queue_deltas(deltas)` call are among `deltas` -/
theorem routedFor_deltas (g : GState) (order : List Nat) (deltas : List Msg) :
    ∀ m ∈ MCluster.deltasOf (g.routedFor order deltas), m ∈ deltas := by
  intro m hm
  simp only [MCluster.deltasOf, List.mem_flatMap] at hm
  obtain ⟨r, hr, hmr⟩ := hm
  unfold GState.routedFor at hr
  split at hr
  · cases hr
  · split at hr
    · rename_i rt _
      split at hr
      · simp only [List.mem_filterMap] at hr
        obtain ⟨p, hp, he⟩ := hr
        split at he
        · cases he
        · simp only [Option.some.injEq] at he
          rw [← he] at hmr
          simp only [GMsg.payload, GMsg.intoDeltas, Option.getD_some] at hmr
          exact routeSelective_mem rt deltas p (tableInOrder_mem _ _ p hp) m hmr
      · simp only [List.mem_singleton] at hr
        rw [hr] at hmr
        simpa [GMsg.payload, GMsg.intoDeltas] using hmr
    · simp only [List.mem_singleton] at hr
      rw [hr] at hmr
      simpa [GMsg.payload, GMsg.intoDeltas] using hmr

theorem deltasOf_append (a b : List Routed) :
    MCluster.deltasOf (a ++ b) = MCluster.deltasOf a ++ MCluster.deltasOf b := by
  simp [MCluster.deltasOf]

theorem deltasOf_enforceCap {cap : Nat} {q : List Routed} {m : Msg}
    (h : m ∈ MCluster.deltasOf (enforceCap cap q)) : m ∈ MCluster.deltasOf q := by
  simp only [MCluster.deltasOf, List.mem_flatMap] at h ⊢
  obtain ⟨r, hr, hm⟩ := h
  exact ⟨r, mem_enforceCap hr, hm⟩

/-- after `queue_deltas`, the queue holds deltas of the old queue or of the argument -/
theorem queueDeltas_deltas (cap : Nat) (g : GState) (order : List Nat) (deltas : List Msg) :
    ∀ m ∈ MCluster.deltasOf (g.queueDeltas cap order deltas).outbound,
      m ∈ MCluster.deltasOf g.outbound ∨ m ∈ deltas := by
  intro m hm
  unfold GState.queueDeltas at hm
  split at hm
  · exact Or.inl hm
  · simp only [GState.push] at hm
    have := deltasOf_enforceCap hm
    rw [deltasOf_append, List.mem_append] at this
    rcases this with h | h
    · exact Or.inl h
    · exact Or.inr (routedFor_deltas g order deltas m h)

/-! ## sending -/

theorem sendOne_spec (cfg : NodeCfg) (r : Routed) (oks : List Bool) :
    ∀ pk ∈ (MCluster.sendOne cfg r oks).1, pk.msg = r.msg ∧ pk.to ∈ cfg.peers := by
  unfold MCluster.sendOne
  split
  · rename_i t _
    split
    · rename_i addr hg
      split
      · intro pk hpk
        simp only [List.mem_singleton] at hpk
        rw [hpk]; exact ⟨rfl, peerMap_mem hg⟩
      · intro pk hpk; cases hpk
    · intro pk hpk; cases hpk
  · have gen : ∀ (ps : List Nat) (acc : List Packet × List (Msg × Loss × Option Nat) × List Bool),
        (∀ a ∈ ps, a ∈ cfg.peers) →
        (∀ pk ∈ acc.1, pk.msg = r.msg ∧ pk.to ∈ cfg.peers) →
        ∀ pk ∈ (ps.foldl (fun acc addr =>
          if acc.2.2.headD true then (acc.1 ++ [⟨addr, r.msg⟩], acc.2.1, acc.2.2.tail)
          else (acc.1, acc.2.1 ++ r.msg.payload.map (fun d => (d, Loss.sendFailed, some addr)), acc.2.2.tail))
          acc).1, pk.msg = r.msg ∧ pk.to ∈ cfg.peers := by
      intro ps
      induction ps with
      | nil => intro acc _ h; exact h
      | cons a ps ih =>
        intro acc hps h
        simp only [List.foldl_cons]
        apply ih _ (fun x hx => hps x (List.mem_cons_of_mem _ hx))
        split
        · intro pk hpk
          simp only [List.mem_append, List.mem_singleton] at hpk
          rcases hpk with hpk | hpk
          · exact h pk hpk
          · rw [hpk]; exact ⟨rfl, hps a List.mem_cons_self⟩
        · exact h
    exact gen cfg.peers _ (fun _ h => h) (fun pk h => by cases h)

theorem sendAll_spec (cfg : NodeCfg) (rs : List Routed) (oks : List Bool) :
    ∀ pk ∈ (MCluster.sendAll cfg rs oks).1, (∃ r ∈ rs, pk.msg = r.msg) ∧ pk.to ∈ cfg.peers := by
  have gen : ∀ (l : List Routed) (acc : List Packet × List (Msg × Loss × Option Nat) × List Bool),
      (∀ r ∈ l, r ∈ rs) →
      (∀ pk ∈ acc.1, (∃ r ∈ rs, pk.msg = r.msg) ∧ pk.to ∈ cfg.peers) →
      ∀ pk ∈ (l.foldl (fun acc r =>
        let s := MCluster.sendOne cfg r acc.2.2
        (acc.1 ++ s.1, acc.2.1 ++ s.2.1, s.2.2)) acc).1,
        (∃ r ∈ rs, pk.msg = r.msg) ∧ pk.to ∈ cfg.peers := by
    intro l
    induction l with
    | nil => intro acc _ h; exact h
    | cons r l ih =>
      intro acc hl h
      simp only [List.foldl_cons]
      apply ih _ (fun x hx => hl x (List.mem_cons_of_mem _ hx))
      intro pk hpk
      simp only [List.mem_append] at hpk
      rcases hpk with hpk | hpk
      · exact h pk hpk
      · have := sendOne_spec cfg r acc.2.2 pk hpk
        exact ⟨⟨r, hl r List.mem_cons_self, this.1⟩, this.2⟩
  intro pk hpk
  exact gen rs ([], [], oks) (fun _ h => h) (fun pk h => by cases h) pk hpk

/-! ## a received frame is a run of layer-1 deliveries -/

/-- the layer-1 events of one received frame -/
def deliverEvs (sent : List Msg) (j : Nat) (ds : List Msg) : List Ev :=
  ds.map (fun m => Ev.deliver j (sent.idxOf m))

theorem getElem?_idxOf {l : List Msg} {m : Msg} (h : m ∈ l) : l[l.idxOf m]? = some m := by
  have hlt : l.idxOf m < l.length := List.idxOf_lt_length_iff.mpr h
  rw [List.getElem?_eq_getElem hlt, List.getElem_idxOf hlt]

theorem run_deliverEvs (ds : List Msg) : ∀ (c : Cluster) (j : Nat) (s : Shard),
    c.nodes[j]? = some s → (∀ m ∈ ds, m ∈ c.sent) →
    c.run (deliverEvs c.sent j ds) =
      { nodes := c.nodes.set j (MCluster.applyAll s ds)
        sent := c.sent
        log := c.log ++ ds.map (fun d => ⟨j, d.key, d.val⟩) } := by
  induction ds with
  | nil =>
    intro c j s hs _
    simp only [deliverEvs, List.map_nil, Cluster.run, List.foldl_nil, MCluster.applyAll, List.append_nil]
    have : c.nodes.set j s = c.nodes := by
      apply List.ext_getElem?
      intro n
      rw [List.getElem?_set]
      split
      · rename_i h; subst h
        split
        · exact hs.symm
        · rename_i h; rw [List.getElem?_eq_none (by omega)]
      · rfl
    rw [this]
  | cons d ds ih =>
    intro c j s hs hall
    have hd := hall d List.mem_cons_self
    have hstep : c.step (.deliver j (c.sent.idxOf d)) =
        { c with nodes := c.nodes.set j (Shard.applyRemote s d.key d.val)
                 log := c.log ++ [⟨j, d.key, d.val⟩] } := by
      simp only [Cluster.step, hs, getElem?_idxOf hd]
    simp only [deliverEvs, List.map_cons, Cluster.run, List.foldl_cons]
    rw [hstep]
    have hjlt : j < c.nodes.length := (List.getElem?_eq_some_iff.mp hs).1
    have := ih { c with nodes := c.nodes.set j (Shard.applyRemote s d.key d.val)
                        log := c.log ++ [⟨j, d.key, d.val⟩] } j (Shard.applyRemote s d.key d.val)
      (by simp only; exact List.getElem?_set_self hjlt)
      (fun m hm => hall m (List.mem_cons_of_mem _ hm))
    simp only [deliverEvs, Cluster.run] at this
    rw [this]
    simp only [List.set_set, MCluster.applyAll, List.foldl_cons, List.map_cons, List.append_assoc,
      List.singleton_append]

end Gossip
end RedisVerif
