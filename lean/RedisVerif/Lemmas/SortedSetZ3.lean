import RedisVerif.Lemmas.SortedSetZ2
namespace RedisVerif.SkipList
open RedisVerif RedisVerif.Redis RedisVerif.DataStructs

theorem zrank_spec {z : ZS} (hz : ZInv z) (m : BS) : zrank z m = some (zRankAux (keys z.sl) m 0) := by
  unfold zrank
  rw [hz.agree m]
  cases hsc : zScore (keys z.sl) m with
  | none => simp only; rw [zRankAux_none (zScore_none hsc)]
  | some sc =>
    simp only
    obtain ⟨i, hi⟩ := zScore_some_mem hsc
    have hfacts := zfacts_of_getElem hz.canon.2 hi
    obtain ⟨t, ht, hk⟩ : ∃ t, z.sl.towers[i]? = some t ∧ t.key = (m, sc) := by
      simp only [keys, List.getElem?_map] at hi
      cases ht : z.sl.towers[i]? with
      | none => rw [ht] at hi; simp at hi
      | some t => rw [ht] at hi; exact ⟨t, rfl, by simpa using hi⟩
    have hc : cntLt (m, sc) z.sl.towers = i := by rw [← hk]; exact cntLt_of_key hz.wf.sorted ht
    rw [rank_spec hz.wf, hc, ht, hfacts.2.2 0]
    have : t.member = m ∧ t.score = sc := by simpa [Tower.key] using hk
    simp [this]

theorem normRange_unfold (n : Nat) (a b : Int) :
    normRange n a b = if n = 0 then none
      else if normStart n a > normStop n b ∨ normStart n a ≥ n then none
      else some ((normStart n a).toNat, (normStop n b).toNat) := rfl

theorem normStart_nonneg (n : Nat) (a : Int) : 0 ≤ normStart n a := by
  unfold normStart; split <;> omega

theorem normStop_lt (n : Nat) (b : Int) : normStop n b < n := by
  unfold normStop; split <;> omega

/-- the index normalisation of `RedisSortedSet::range` is the one of `LRANGE` / `ZRANGE` -/
theorem normRange_eq (n : Nat) (a b : Int) :
    lrangeNorm n a b = (normRange n a b).map (fun p => (p.1, p.2 - p.1 + 1)) := by
  rw [lrangeNorm_eq, normRange_unfold]
  have h1 := normStart_nonneg n a
  have h2 := normStop_lt n b
  generalize normStart n a = S at *
  generalize normStop n b = E at *
  by_cases hn : n = 0
  · subst hn
    rw [if_pos rfl, if_pos (by omega)]; rfl
  · rw [if_neg hn]
    by_cases hc : S > E ∨ S ≥ n
    · rw [if_pos hc, if_pos hc]; rfl
    · rw [if_neg hc, if_neg hc]
      simp only [Option.map_some, Option.some.injEq, Prod.mk.injEq, true_and]
      omega

theorem normRange_bounds {n : Nat} {a b : Int} {s e : Nat} (h : normRange n a b = some (s, e)) :
    s ≤ e ∧ e < n := by
  rw [normRange_unfold] at h
  have h1 := normStart_nonneg n a
  have h2 := normStop_lt n b
  generalize normStart n a = S at *
  generalize normStop n b = E at *
  by_cases hn : n = 0
  · rw [if_pos hn] at h; cases h
  · rw [if_neg hn] at h
    by_cases hc : S > E ∨ S ≥ n
    · rw [if_pos hc] at h; cases h
    · rw [if_neg hc] at h
      simp only [Option.some.injEq, Prod.mk.injEq] at h
      omega

theorem zrange_spec {z : ZS} (hz : ZInv z) (a b : Int) :
    zrange z a b = some (slice (keys z.sl) (lrangeNorm (keys z.sl).length a b)) := by
  have hn : (keys z.sl).length = z.sl.length := by simp [keys, hz.wf.len]
  unfold zrange
  rw [normRange_eq, hn]
  cases h : normRange z.sl.length a b with
  | none => rfl
  | some p =>
    obtain ⟨s, e⟩ := p
    have hb := normRange_bounds h
    rw [hz.wf.len] at hb
    simp only [Option.map_some, slice]
    rw [range_spec hz.wf, if_neg (by omega)]
    congr 2
    omega

theorem zrevRange_spec {z : ZS} (hz : ZInv z) (a b : Int) :
    zrevRange z a b = some (slice (keys z.sl).reverse (lrangeNorm (keys z.sl).length a b)) := by
  have hn : (keys z.sl).length = z.sl.length := by simp [keys, hz.wf.len]
  unfold zrevRange
  rw [normRange_eq, hn]
  cases h : normRange z.sl.length a b with
  | none => rfl
  | some p =>
    obtain ⟨s, e⟩ := p
    have hb := normRange_bounds h
    rw [hz.wf.len] at hb
    simp only [Option.map_some, slice]
    rw [revRange_spec hz.wf, if_neg (by omega)]
    congr 2
    omega

theorem isSortedAux_of_sorted : ∀ (l : List (BS × Score)) (ps : Score) (pm : BS),
    l.Pairwise (fun a b => zLt a b = true) → (∀ p ∈ l, zLt p (pm, ps) = false) →
    isSortedAux l ps pm = true
  | [], _, _, _, _ => rfl
  | (m, s) :: r, ps, pm, hs, hp => by
    rw [List.pairwise_cons] at hs
    have h0 := hp (m, s) (List.mem_cons_self ..)
    simp only [zLt] at h0
    simp only [isSortedAux, h0, Bool.false_eq_true, if_false]
    exact isSortedAux_of_sorted r s m hs.2 (fun p hpm => zLt_asymm (hs.1 p hpm))

theorem isSorted_spec {z : ZS} (hz : ZInv z) : isSorted z = true := by
  unfold isSorted
  apply isSortedAux_of_sorted _ _ _ hz.canon.1
  intro p _
  obtain ⟨m, s⟩ := p
  simp only [zLt, bsLt]
  cases s <;> cases m <;> simp [Score.lt, bsLt]

end RedisVerif.SkipList
