import RedisVerif.Model.Crdt
import RedisVerif.Lemmas.NMap

/-! Helper lemmas for M1 (CRDT merge). Property theorems are in `Props/C07.lean`. -/
namespace RedisVerif

namespace Stamp

theorem lt_iff (a b : Stamp) :
    a.lt b = true ↔ a.time < b.time ∨ (a.time = b.time ∧ a.rid < b.rid) := by
  simp [lt]

theorem lt_irrefl (a : Stamp) : a.lt a = false := by
  simp [lt]

theorem lt_trans {a b c : Stamp} (h1 : a.lt b = true) (h2 : b.lt c = true) : a.lt c = true := by
  rw [lt_iff] at *; omega

theorem lt_asymm {a b : Stamp} (h : a.lt b = true) : b.lt a = false := by
  have : ¬ (b.lt a = true) := by rw [lt_iff] at *; omega
  simpa using this

theorem eq_of_not_lt {a b : Stamp} (h1 : a.lt b = false) (h2 : b.lt a = false) : a = b := by
  have h1' : ¬ (a.lt b = true) := by simp [h1]
  have h2' : ¬ (b.lt a = true) := by simp [h2]
  rw [lt_iff] at h1' h2'
  cases a; cases b; simp at *; omega

theorem lt_of_not_lt_of_ne {a b : Stamp} (h1 : a.lt b = false) (hne : a ≠ b) : b.lt a = true := by
  cases h : b.lt a
  · exact absurd (eq_of_not_lt h1 h) hne
  · rfl

theorem max_idem (a : Stamp) : max a a = a := by simp [max]

theorem max_comm (a b : Stamp) : max a b = max b a := by
  unfold max
  cases h1 : a.lt b <;> cases h2 : b.lt a <;> simp
  · exact eq_of_not_lt h1 h2
  · rw [lt_asymm h1] at h2; cases h2

theorem not_lt_iff (a b : Stamp) :
    a.lt b = false ↔ ¬ (a.time < b.time ∨ (a.time = b.time ∧ a.rid < b.rid)) := by
  rw [← lt_iff]; simp

theorem max_assoc (a b c : Stamp) : max a (max b c) = max (max a b) c := by
  unfold max
  cases h1 : a.lt b <;> cases h2 : b.lt c <;> cases h3 : a.lt c <;> simp [h1, h2, h3]
  · exfalso; rw [not_lt_iff] at h1 h2; rw [lt_iff] at h3; omega
  · exfalso; rw [lt_iff] at h1 h2; rw [not_lt_iff] at h3; omega

theorem max_ge_left (a b : Stamp) : (max a b).lt a = false := by
  unfold max
  cases h : a.lt b <;> simp
  · exact lt_irrefl a
  · exact lt_asymm h

theorem max_ge_right (a b : Stamp) : (max a b).lt b = false := by
  rw [max_comm]; exact max_ge_left b a

end Stamp

namespace Lww

theorem merge_idem (a : Lww) : merge a a = a := by simp [merge]

/-- `LwwRegister::merge` is commutative exactly when equal stamps carry equal registers -/
theorem merge_comm {a b : Lww} (h : a.ts = b.ts → a = b) : merge a b = merge b a := by
  unfold merge
  cases h1 : a.ts.lt b.ts <;> cases h2 : b.ts.lt a.ts <;> simp
  · exact h (Stamp.eq_of_not_lt h1 h2)
  · rw [Stamp.lt_asymm h1] at h2; cases h2

theorem merge_assoc (a b c : Lww) : merge a (merge b c) = merge (merge a b) c := by
  unfold merge
  cases h1 : a.ts.lt b.ts <;> cases h2 : b.ts.lt c.ts <;> cases h3 : a.ts.lt c.ts <;>
    simp [h1, h2, h3]
  · have hb : ¬ (b.ts.lt c.ts = true) := by simp [h2]
    have ha : ¬ (a.ts.lt b.ts = true) := by simp [h1]
    rw [Stamp.lt_iff] at hb ha h3; omega
  · have := Stamp.lt_trans h1 h2
    rw [this] at h3; cases h3

theorem merge_ts (a b : Lww) : (merge a b).ts = Stamp.max a.ts b.ts := by
  unfold merge Stamp.max; split <;> rfl

end Lww

theorem Nat.max_idem' (a : Nat) : Max.max a a = a := Nat.max_self a

namespace Crdt

/-- no-op filter: unions of non-empty tag sets are non-empty -/
theorem merge_union_nonempty {a b : NMap NSet}
    (ha : ∀ p ∈ a, p.2 ≠ []) (hb : ∀ p ∈ b, p.2 ≠ []) :
    ∀ p ∈ NMap.merge NSet.union a b, p.2 ≠ [] :=
  NMap.merge_forall (P := fun s => s ≠ []) (fun _ _ hx _ => NSet.union_ne_nil_left hx) ha hb

theorem orsetMergeElems_eq {a b : NMap NSet}
    (ha : ∀ p ∈ a, p.2 ≠ []) (hb : ∀ p ∈ b, p.2 ≠ []) :
    orsetMergeElems a b = NMap.merge NSet.union a b := by
  unfold orsetMergeElems
  apply List.filter_eq_self.mpr
  intro p hp
  have := merge_union_nonempty ha hb p hp
  cases h : p.2 with
  | nil => exact absurd h this
  | cons _ _ => simp

/-- membership in a canonical map gives a lookup -/
theorem get_of_mem {ν : Type} {m : NMap ν} (hwf : NMap.WF m) {p : Nat × ν} (hp : p ∈ m) :
    NMap.get m p.1 = some p.2 := by
  induction m with
  | nil => cases hp
  | cons q m ih =>
    have ⟨hlb, hw⟩ := NMap.wf_cons.mp hwf
    rw [NMap.get_cons]
    cases hp with
    | head => simp
    | tail _ hp' =>
      have : q.1 < p.1 := hlb p hp'
      rw [if_neg (by omega)]
      exact ih hw hp'

theorem mem_of_get {ν : Type} {m : NMap ν} {k : Nat} {v : ν} (h : NMap.get m k = some v) :
    (k, v) ∈ m := by
  induction m with
  | nil => simp at h
  | cons q m ih =>
    rw [NMap.get_cons] at h
    split at h
    · rename_i hk
      cases h
      obtain ⟨kq, vq⟩ := q
      simp at hk
      subst hk
      simp
    · exact List.mem_cons_of_mem _ (ih h)

/-- tag sets of a merged OR-set are canonical -/
theorem merge_union_wf {a b : NMap NSet}
    (ha : ∀ p ∈ a, NSet.WF p.2) (hb : ∀ p ∈ b, NSet.WF p.2) :
    ∀ p ∈ NMap.merge NSet.union a b, NSet.WF p.2 :=
  NMap.merge_forall (P := NSet.WF) (fun _ _ hx hy => NSet.wf_union hx hy) ha hb

theorem natmax_comm (a b : Nat) : Max.max a b = Max.max b a := Nat.max_comm a b
theorem natmax_assoc (a b c : Nat) : Max.max a (Max.max b c) = Max.max (Max.max a b) c :=
  (Nat.max_assoc a b c).symm

theorem cmerge_comm {a b : NMap Nat} (ha : NMap.WF a) (hb : NMap.WF b) :
    NMap.merge Max.max a b = NMap.merge Max.max b a :=
  NMap.merge_comm ha hb (fun _ u v _ _ => Nat.max_comm u v)

theorem cmerge_idem {a : NMap Nat} (ha : NMap.WF a) : NMap.merge Max.max a a = a :=
  NMap.merge_idem ha (fun _ u _ => Nat.max_self u)

theorem cmerge_assoc {a b c : NMap Nat} (ha : NMap.WF a) (hb : NMap.WF b) (hc : NMap.WF c) :
    NMap.merge Max.max a (NMap.merge Max.max b c) = NMap.merge Max.max (NMap.merge Max.max a b) c :=
  NMap.merge_assoc ha hb hc (fun _ u v w _ _ _ => (Nat.max_assoc u v w).symm)

end Crdt
end RedisVerif
