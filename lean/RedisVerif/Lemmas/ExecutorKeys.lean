import RedisVerif.Lemmas.ExecutorSet

/-! Refinement of the key / expiry functions of `Model.Executor` (key_ops.rs, mod.rs) to M7. -/
set_option linter.unusedSimpArgs false
set_option linter.unusedVariables false

namespace RedisVerif.Executor
open RedisVerif RedisVerif.Redis

/-- close a goal that is `rfl` or has already been simplified to `True` -/
macro "triv" : tactic => `(tactic| first | rfl | trivial)

theorem liveKey_true {cs : CState} (h : CInv cs) {k : Nat} (hl : liveKey cs k = true) :
    ∃ v, NMap.get cs.data k = some v ∧ isExpired cs k = false ∧
      NMap.get (absP cs) k = some ⟨v, (NMap.get cs.exp k).map (· + cs.epoch)⟩ := by
  unfold liveKey at hl
  simp only [Bool.and_eq_true, Bool.not_eq_true'] at hl
  obtain ⟨hx, hs⟩ := hl
  cases hv : NMap.get cs.data k with
  | none => simp [hv] at hs
  | some v =>
    refine ⟨v, by triv, hx, ?_⟩
    rw [get_absP h.wfd, entryAt_live hx, hv]
    rfl

theorem liveKey_false {cs : CState} (h : CInv cs) {k : Nat} (hl : liveKey cs k = false) :
    NMap.get (absP cs) k = none := by
  have := liveKey_eq h k
  rw [hl] at this
  cases hg : NMap.get (absP cs) k with
  | none => rfl
  | some e => simp [hg] at this

theorem cExists_sim {cs : CState} (h : CInv cs) (ks : List Nat) : Sim cs (.exists ks) (cExists cs ks) := by
  unfold cExists
  simp only [Sim, SimF, exec, execExists, liveKey_fun h]
  exact ⟨by triv, by rw [purge_absP], h, by triv, by triv⟩

theorem cType_sim {cs : CState} (h : CInv cs) (k : Nat) : Sim cs (.type k) (cType cs k) := by
  unfold cType
  gv h k
  simp only [Sim, SimF, exec, execType]
  rw [glook]
  cases o with
  | none => simp [gsame, purge_absP, ginv, gnow, gep]
  | some v => simp [gsame, purge_absP, ginv, gnow, gep]

theorem cFlush_sim {cs : CState} (h : CInv cs) : Sim cs .flushdb (cFlush cs) := by
  unfold cFlush
  simp only [Sim, SimF, exec, execFlush]
  refine ⟨by triv, by triv, ?_, by triv, by triv⟩
  exact ⟨NMap.wf_nil, NMap.wf_nil, (fun k hk => by simp at hk), (fun p hp => by cases hp), h.timeOk,
    (fun k d hd => by simp at hd)⟩

theorem cFlushAll_sim {cs : CState} (h : CInv cs) : Sim cs .flushall (cFlush cs) := cFlush_sim h

/-- the live keys of `data`, in order, are the keys of `absP` -/
theorem liveKeys_eq (cs : CState) :
    (cs.data.filter (fun p => !isExpired cs p.1)).map (fun p => p.1) = (absP cs).map (fun p => p.1) := by
  unfold absP abs purge
  generalize cs.data = d
  induction d with
  | nil => rfl
  | cons q d ih =>
    obtain ⟨kq, vq⟩ := q
    simp only [List.filter, List.map, live_absEntry]
    cases isExpired cs kq
    · simp only [Bool.not_false, List.map]
      rw [ih]
    · simp only [Bool.not_true]
      exact ih

theorem cKeys_sim {cs : CState} (h : CInv cs) : Sim cs .keys (cKeys cs) := by
  unfold cKeys
  simp only [Sim, SimF, exec, execKeys]
  refine ⟨?_, by rw [purge_absP], h, by triv, by triv⟩
  have := congrArg (List.map Elem.key) (liveKeys_eq cs)
  simp only [List.map_map] at this
  exact congrArg Reply.arr this

theorem cDbSize_sim {cs : CState} (h : CInv cs) : Sim cs .dbsize (cDbSize cs) := by
  unfold cDbSize
  simp only [Sim, SimF, exec, execDbSize]
  refine ⟨?_, by rw [purge_absP], h, by triv, by triv⟩
  have := congrArg List.length (liveKeys_eq cs)
  simp only [List.length_map] at this
  rw [this]

theorem cRandomKey_sim {cs : CState} (h : CInv cs) (ch : Option Nat) :
    Sim cs (.randomkey ch) (cRandomKey cs ch) := by
  unfold cRandomKey
  simp only [Sim, SimF, exec, execRandomKey]
  have hk := liveKeys_eq cs
  have hpp := purge_absP cs
  cases hl : cs.data.filter (fun p => !isExpired cs p.1) with
  | nil =>
    rw [hl] at hk
    cases ha : absP cs with
    | nil => exact ⟨by triv, by rw [ha] at hpp; simpa using hpp.symm, h, by triv, by triv⟩
    | cons q r => rw [ha] at hk; simp at hk
  | cons p r =>
    rw [hl] at hk
    cases ha : absP cs with
    | nil => rw [ha] at hk; simp at hk
    | cons q r' =>
      rw [ha] at hk hpp
      simp only [List.map_cons, List.cons.injEq] at hk
      have hpq : p.1 = q.1 := hk.1
      cases ch with
      | none => exact ⟨by simp [hpq], by rw [ha]; simpa using hpp.symm, h, by triv, by triv⟩
      | some c =>
        simp only [liveKey_eq h, ha]
        split
        · exact ⟨by triv, by rw [ha]; simpa using hpp.symm, h, by triv, by triv⟩
        · exact ⟨by simp [hpq], by rw [ha]; simpa using hpp.symm, h, by triv, by triv⟩

/-! ### DEL -/

theorem cDelLoop_spec (ks : List Nat) : ∀ {cs : CState} (n : Int), CInv cs →
    CInv (cDelLoop cs ks n).1 ∧ absP (cDelLoop cs ks n).1 = (delKeys (absP cs) ks).1 ∧
    (cDelLoop cs ks n).1.now = cs.now ∧ (cDelLoop cs ks n).1.epoch = cs.epoch ∧
    (cDelLoop cs ks n).2 = n + ((delKeys (absP cs) ks).2 : Int) := by
  induction ks with
  | nil => intro cs n h; exact ⟨h, by triv, by triv, by triv, by simp [cDelLoop, delKeys]⟩
  | cons k ks ih =>
    intro cs n h
    simp only [cDelLoop, delKeys]
    have hlive : ((NMap.get cs.data k).isSome && !isExpired cs k) = (NMap.get (absP cs) k).isSome := by
      rw [← liveKey_eq h k, liveKey, Bool.and_comm]
    rw [hlive]
    cases hg : NMap.get (absP cs) k with
    | none =>
      simp only [Option.isSome_none, Bool.false_eq_true, if_false]
      obtain ⟨i1, i2, i3, i4, i5⟩ := ih (cs := dropKey cs k) n (cinv_drop h)
      rw [upd_drop h, erase_none (wf_absP h.wfd) hg] at i2 i5
      exact ⟨i1, i2, i3, i4, i5⟩
    | some e =>
      simp only [Option.isSome_some, if_true]
      obtain ⟨i1, i2, i3, i4, i5⟩ := ih (cs := dropKey cs k) (n + 1) (cinv_drop h)
      rw [upd_drop h] at i2 i5
      refine ⟨i1, i2, i3, i4, ?_⟩
      rw [i5]
      push_cast
      omega

theorem purge_delKeys (now : Nat) (ks : List Nat) : ∀ {s : State}, NMap.WF s →
    purge s now = s → purge (delKeys s ks).1 now = (delKeys s ks).1 := by
  induction ks with
  | nil => intro s _ h; exact h
  | cons k ks ih =>
    intro s hw h
    simp only [delKeys]
    cases NMap.get s k with
    | none => exact ih hw h
    | some e =>
      simp only []
      apply ih (NMap.wf_erase hw)
      rw [purge_erase hw, h]

theorem cDel_sim {cs : CState} (h : CInv cs) (ks : List Nat) : Sim cs (.del ks) (cDel cs ks) := by
  obtain ⟨i1, i2, i3, i4, i5⟩ := cDelLoop_spec ks (cs := cs) 0 h
  unfold cDel
  simp only [Sim, SimF, exec, execDel]
  refine ⟨by rw [i5]; simp, ?_, i1, i3, i4⟩
  rw [i2, purge_delKeys _ _ (wf_absP h.wfd) (purge_absP cs)]

/-! ### RENAME / RENAMENX -/

theorem renameMove_data (cs : CState) (h : CInv cs) (a b : Nat) (v : Value) (k' : Nat) :
    NMap.get (renameMove cs a b v).data k' =
      if k' = b then some v else if k' = a then none else NMap.get cs.data k' := by
  simp only [renameMove, NMap.get_insert, NMap.get_erase h.wfd]

theorem renameMove_exp (cs : CState) (h : CInv cs) (a b : Nat) (v : Value) (k' : Nat) :
    NMap.get (renameMove cs a b v).exp k' =
      if k' = b then NMap.get cs.exp a else if k' = a then none else NMap.get cs.exp k' := by
  unfold renameMove
  cases he : NMap.get cs.exp a with
  | some t => simp only [NMap.get_insert, NMap.get_erase h.wfe]
  | none =>
    simp only [NMap.get_erase (NMap.wf_erase h.wfe), NMap.get_erase h.wfe]

theorem renameMove_wfd (cs : CState) (h : CInv cs) (a b : Nat) (v : Value) :
    NMap.WF (renameMove cs a b v).data := NMap.wf_insert (NMap.wf_erase h.wfd)

theorem renameMove_wfe (cs : CState) (h : CInv cs) (a b : Nat) (v : Value) :
    NMap.WF (renameMove cs a b v).exp := by
  unfold renameMove
  cases NMap.get cs.exp a with
  | some t => exact NMap.wf_insert (NMap.wf_erase h.wfe)
  | none => exact NMap.wf_erase (NMap.wf_erase h.wfe)

theorem renameMove_inv {cs : CState} (h : CInv cs) {a b : Nat} {v : Value}
    (hv : NMap.get cs.data a = some v) : CInv (renameMove cs a b v) where
  wfd := renameMove_wfd cs h a b v
  wfe := renameMove_wfe cs h a b v
  sub := fun k' hk => by
    rw [renameMove_exp cs h] at hk
    rw [renameMove_data cs h]
    by_cases h1 : k' = b
    · simp [h1]
    · by_cases h2 : k' = a
      · subst h2
        simp only [h1, if_false, if_true] at hk
        cases hk
      · simp only [h1, h2, if_false] at hk ⊢
        exact h.sub k' hk
  ok := fun p hp => by
    cases Redis.mem_insert hp with
    | inl e => subst e; exact h.ok (a, v) (Redis.get_mem hv)
    | inr e => exact h.ok p (Redis.mem_erase e)
  timeOk := h.timeOk
  dlOk := fun k' d hd => by
    rw [renameMove_exp cs h] at hd
    by_cases h1 : k' = b
    · simp only [h1, if_true] at hd
      exact h.dlOk a d hd
    · by_cases h2 : k' = a
      · subst h2
        simp only [h1, if_false, if_true] at hd
        cases hd
      · simp only [h1, h2, if_false] at hd
        exact h.dlOk k' d hd

theorem renameMove_isExpired (cs : CState) (h : CInv cs) (a b : Nat) (v : Value) (k' : Nat) :
    isExpired (renameMove cs a b v) k' =
      if k' = b then isExpired cs a else if k' = a then false else isExpired cs k' := by
  have hnow : (renameMove cs a b v).now = cs.now := rfl
  unfold isExpired
  rw [renameMove_exp cs h, hnow]
  by_cases h1 : k' = b
  · simp only [h1, if_true]
  · by_cases h2 : k' = a
    · subst h2
      simp only [h1, if_false, if_true]
    · simp only [h1, h2, if_false]

theorem renameMove_abs {cs : CState} (h : CInv cs) {a b : Nat} {v : Value}
    (hv : NMap.get cs.data a = some v) (hx : isExpired cs a = false) :
    absP (renameMove cs a b v) =
      if a = b then absP cs
      else NMap.insert b ⟨v, (NMap.get cs.exp a).map (· + cs.epoch)⟩ (NMap.erase a (absP cs)) := by
  have hw := wf_absP h.wfd
  have hentry : ∀ k', entryAt (renameMove cs a b v) k' =
      if k' = b then some ⟨v, (NMap.get cs.exp a).map (· + cs.epoch)⟩
      else if k' = a then none else entryAt cs k' := by
    intro k'
    have hep : (renameMove cs a b v).epoch = cs.epoch := rfl
    unfold entryAt absEntry
    rw [renameMove_isExpired cs h, renameMove_data cs h, renameMove_exp cs h, hep]
    by_cases h1 : k' = b
    · simp only [h1, if_true, hx, Bool.false_eq_true, if_false, Option.map_some]
    · by_cases h2 : k' = a
      · subst h2
        simp only [h1, if_false, if_true, Bool.false_eq_true, Option.map_none]
      · simp only [h1, h2, if_false]
  by_cases hab : a = b
  · subst hab
    simp only [if_true]
    apply absP_congr h.wfd (renameMove_wfd cs h a a v)
    intro k'
    rw [hentry]
    by_cases h1 : k' = a
    · subst h1
      simp only [if_true, entryAt_live hx, hv]
      rfl
    · simp only [h1, if_false]
  · simp only [hab, if_false]
    apply NMap.ext (wf_absP (renameMove_wfd cs h a b v)) (NMap.wf_insert (NMap.wf_erase hw))
    intro k'
    rw [get_absP (renameMove_wfd cs h a b v), hentry, NMap.get_insert, NMap.get_erase hw, get_absP h.wfd]

theorem cRename_sim {cs : CState} (h : CInv cs) (a b : Nat) : Sim cs (.rename a b) (cRename cs a b) := by
  unfold cRename
  simp only [Sim, SimF, exec, execRename]
  by_cases hl : liveKey cs a = true
  · obtain ⟨v, hv, hx, hg⟩ := liveKey_true h hl
    simp only [hx, Bool.false_eq_true, if_false, hv, hg]
    refine ⟨by split <;> rfl, ?_, renameMove_inv h hv, by triv, by triv⟩
    rw [renameMove_abs h hv hx]
    by_cases hab : a = b
    · simp [hab, purge_absP]
    · simp only [hab, if_false]
      rw [purge_insert (NMap.wf_erase (wf_absP h.wfd)), purge_erase (wf_absP h.wfd), purge_absP,
        live_of_get_absP hg]
      rfl
  · have hl' : liveKey cs a = false := by simpa using hl
    have hg := liveKey_false h hl'
    simp only [hg]
    unfold liveKey at hl'
    by_cases hx : isExpired cs a = true
    · simp only [hx, if_true]
      exact ⟨by triv, by rw [purge_absP], h, by triv, by triv⟩
    · have hx' : isExpired cs a = false := by simpa using hx
      simp only [hx', Bool.not_false, Bool.true_and] at hl'
      cases hv : NMap.get cs.data a with
      | some v => simp [hv] at hl'
      | none =>
        simp only [hx', Bool.false_eq_true, if_false]
        exact ⟨by triv, by rw [purge_absP], h, by triv, by triv⟩

theorem cRenameNx_sim {cs : CState} (h : CInv cs) (a b : Nat) : Sim cs (.renamenx a b) (cRenameNx cs a b) := by
  unfold cRenameNx
  simp only [Sim, SimF, exec, execRenameNx]
  by_cases hl : liveKey cs a = true
  · obtain ⟨v, hv, hx, hg⟩ := liveKey_true h hl
    simp only [hx, Bool.false_eq_true, if_false, hv, hg, liveKey_eq h b]
    by_cases hb : (NMap.get (absP cs) b).isSome = true
    · simp only [hb, if_true]
      exact ⟨by triv, by rw [purge_absP], h, by triv, by triv⟩
    · simp only [hb, Bool.false_eq_true, if_false]
      refine ⟨by triv, ?_, renameMove_inv h hv, by triv, by triv⟩
      rw [renameMove_abs h hv hx]
      have hab : a ≠ b := by
        intro e; subst e; rw [hg] at hb; simp at hb
      simp only [hab, if_false]
      rw [purge_insert (NMap.wf_erase (wf_absP h.wfd)), purge_erase (wf_absP h.wfd), purge_absP,
        live_of_get_absP hg]
      rfl
  · have hl' : liveKey cs a = false := by simpa using hl
    have hg := liveKey_false h hl'
    simp only [hg]
    unfold liveKey at hl'
    by_cases hx : isExpired cs a = true
    · simp only [hx, if_true]
      exact ⟨by triv, by rw [purge_absP], h, by triv, by triv⟩
    · have hx' : isExpired cs a = false := by simpa using hx
      simp only [hx', Bool.not_false, Bool.true_and] at hl'
      cases hv : NMap.get cs.data a with
      | some v => simp [hv] at hl'
      | none =>
        simp only [hx', Bool.false_eq_true, if_false]
        exact ⟨by triv, by rw [purge_absP], h, by triv, by triv⟩

end RedisVerif.Executor
