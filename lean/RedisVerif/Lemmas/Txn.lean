import RedisVerif.Model.Txn

/-
  Helper lemmas for C05 about the schedule bookkeeping of `Txn.checkWatch` / `Txn.runQueue`.
-/
namespace RedisVerif
namespace Txn

variable {σ κ γ ρ : Type}

theorem foreign_nil (B : Backend σ κ γ ρ) (s : σ) : foreign B s [] = s := rfl

theorem foreign_append (B : Backend σ κ γ ρ) (s : σ) (a b : List γ) :
    foreign B s (a ++ b) = foreign B (foreign B s a) b := by
  simp [foreign, List.foldl_append]

/-- applying the head slot and then everything that is left = applying the whole schedule -/
theorem foreign_head_tail (B : Backend σ κ γ ρ) (s : σ) (sc : List (List γ)) :
    foreign B (foreign B s (sc.headD [])) sc.tail.flatten = foreign B s sc.flatten := by
  cases sc with
  | nil => rfl
  | cons h tl => simp [foreign_append]

theorem noInterleaving_nil : NoInterleaving ([] : List (List γ)) := by
  simp [NoInterleaving]

theorem noInterleaving_headD {sc : List (List γ)} (h : NoInterleaving sc) : sc.headD [] = [] := by
  cases sc with
  | nil => rfl
  | cons a tl =>
    simp [NoInterleaving] at h
    simpa using h.1

theorem noInterleaving_tail {sc : List (List γ)} (h : NoInterleaving sc) : NoInterleaving sc.tail := by
  cases sc with
  | nil => exact h
  | cons a tl =>
    simp [NoInterleaving] at h ⊢
    exact h.2

theorem noInterleaving_flatten {sc : List (List γ)} (h : NoInterleaving sc) : sc.flatten = [] := by
  induction sc with
  | nil => rfl
  | cons a tl ih =>
    have h1 := noInterleaving_headD h
    have h2 := noInterleaving_tail h
    simp at h1 h2
    simp [h1, ih h2]

/-- phase 1 of EXEC contributes nothing of its own to the store: what it has applied plus what is
    left of the schedule is exactly the schedule -/
theorem checkWatch_foreign [DecidableEq ρ] (B : Backend σ κ γ ρ) (ws : List (κ × ρ)) :
    ∀ (sc : List (List γ)) (s : σ),
      foreign B (checkWatch B sc s ws).2.1 (checkWatch B sc s ws).1.flatten = foreign B s sc.flatten := by
  induction ws with
  | nil => intro sc s; rfl
  | cons p rest ih =>
    intro sc s
    obtain ⟨k, old⟩ := p
    simp only [checkWatch]
    split
    · rw [ih]; exact foreign_head_tail B s sc
    · exact foreign_head_tail B s sc

/-- with no interleaving phase 1 leaves the store alone and fails iff some snapshot differs -/
theorem checkWatch_quiet [DecidableEq ρ] (B : Backend σ κ γ ρ) (ws : List (κ × ρ)) :
    ∀ (sc : List (List γ)) (s : σ), NoInterleaving sc →
      NoInterleaving (checkWatch B sc s ws).1 ∧ (checkWatch B sc s ws).2.1 = s ∧
      (checkWatch B sc s ws).2.2 = ws.any (fun p => decide (B.getReply s p.1 ≠ p.2)) := by
  induction ws with
  | nil => intro sc s h; exact ⟨h, rfl, rfl⟩
  | cons p rest ih =>
    intro sc s h
    obtain ⟨k, old⟩ := p
    have h1 := noInterleaving_headD h
    have h2 := noInterleaving_tail h
    simp only [checkWatch, h1, foreign_nil]
    by_cases hg : B.getReply s k = old
    · rw [if_pos hg]
      obtain ⟨a, b, c⟩ := ih sc.tail s h2
      refine ⟨a, b, ?_⟩
      rw [c]; simp [hg]
    · rw [if_neg hg]
      refine ⟨h2, rfl, ?_⟩
      simp [hg]

theorem runQueue_length (B : Backend σ κ γ ρ) (q : List γ) :
    ∀ (sc : List (List γ)) (s : σ), (runQueue B sc s q).2.2.length = q.length := by
  induction q with
  | nil => intro sc s; rfl
  | cons c cs ih => intro sc s; simp [runQueue, ih]

theorem runSeq_length (B : Backend σ κ γ ρ) (q : List γ) :
    ∀ (s : σ), (runSeq B s q).2.length = q.length := by
  induction q with
  | nil => intro s; rfl
  | cons c cs ih => intro s; simp [runSeq, ih]

/-- with no interleaving phase 2 is the consecutive run -/
theorem runQueue_quiet (B : Backend σ κ γ ρ) (q : List γ) :
    ∀ (sc : List (List γ)) (s : σ), NoInterleaving sc →
      NoInterleaving (runQueue B sc s q).1 ∧ (runQueue B sc s q).2.1 = (runSeq B s q).1 ∧
      (runQueue B sc s q).2.2 = (runSeq B s q).2 := by
  induction q with
  | nil => intro sc s h; exact ⟨h, rfl, rfl⟩
  | cons c cs ih =>
    intro sc s h
    have h1 := noInterleaving_headD h
    have h2 := noInterleaving_tail h
    simp only [runQueue, runSeq, h1, foreign_nil]
    obtain ⟨a, b, c'⟩ := ih sc.tail (B.exec s c).1 h2
    exact ⟨a, b, by rw [c']⟩

theorem runSeq_append (B : Backend σ κ γ ρ) (a b : List γ) :
    ∀ (s : σ), runSeq B s (a ++ b) =
      ((runSeq B (runSeq B s a).1 b).1, (runSeq B s a).2 ++ (runSeq B (runSeq B s a).1 b).2) := by
  induction a with
  | nil => intro s; rfl
  | cons c cs ih => intro s; simp [runSeq, ih]

end Txn
end RedisVerif
