import RedisVerif.Lemmas.SkipListBase
namespace RedisVerif.SkipList
open RedisVerif RedisVerif.Redis

/-- the spans of a tower list are the distances (`TowersOk`, positional form) -/
def TowersOk (T : List Tower) : Prop :=
  ∀ k t, T[k]? = some t → ∀ j, j < t.ht → t.spans[j]? = some (distTo j (T.drop (k + 1)))

theorem TowersOk.tail {t : Tower} {ts : List Tower} (h : TowersOk (t :: ts)) : TowersOk ts := by
  intro k t' hk j hj
  have := h (k + 1) t' (by simpa using hk) j hj
  simpa using this

theorem TowersOk.drop {T : List Tower} (h : TowersOk T) (p : Nat) : TowersOk (T.drop p) := by
  intro k t hk j hj
  have := h (p + k) t (by simpa [List.getElem?_drop] using hk) j hj
  simpa [List.drop_drop, Nat.add_assoc, Nat.add_comm, Nat.add_left_comm] using this

theorem walk_spec (go : Tower → Nat → Bool) (i c : Nat) :
    ∀ (rest : List Tower) (p sk cs acc : Nat),
      cs = sk + distTo i rest → acc = p → TowersOk rest →
      (∀ k t, rest[k]? = some t → go t (p + sk + 1 + k) = decide (p + sk + 1 + k ≤ c)) →
      (walk go i rest p sk cs acc).2 = (walk go i rest p sk cs acc).1 ∧
      p ≤ (walk go i rest p sk cs acc).1 ∧
      ((walk go i rest p sk cs acc).1 = p ∨
        ∃ k t, rest[k]? = some t ∧ (walk go i rest p sk cs acc).1 = p + sk + 1 + k ∧ i < t.ht ∧
          (walk go i rest p sk cs acc).1 ≤ c) ∧
      (∀ k t, rest[k]? = some t → (walk go i rest p sk cs acc).1 < p + sk + 1 + k →
          p + sk + 1 + k ≤ c → t.ht ≤ i)
  | [], p, sk, cs, acc, _, hacc, _, _ => by simp [walk, hacc]
  | t :: ts, p, sk, cs, acc, hcs, hacc, hok, hgo => by
    cases hsp : t.spans[i]? with
    | none =>
      have hlt : ¬ i < t.ht := by
        intro h; have := hok 0 t rfl i h; rw [hsp] at this; cases this
      have ih := walk_spec go i c ts p (sk + 1) cs acc
        (by simp only [distTo, hlt, if_false] at hcs; omega) hacc hok.tail
        (fun k t' hk => by
          have := hgo (k + 1) t' (by simpa using hk)
          have e : p + sk + 1 + (k + 1) = p + (sk + 1) + 1 + k := by omega
          rwa [e] at this)
      simp only [walk, hsp]
      refine ⟨ih.1, ih.2.1, ?_, ?_⟩
      · rcases ih.2.2.1 with h | ⟨k, t', hk, he, hi, hc⟩
        · exact Or.inl h
        · exact Or.inr ⟨k + 1, t', by simpa using hk, by omega, hi, hc⟩
      · intro k t' hk hlt' hc
        cases k with
        | zero => simp at hk; subst hk; omega
        | succ k =>
          exact ih.2.2.2 k t' (by simpa using hk) (by omega) (by omega)
    | some cs' =>
      have hlt : i < t.ht := by
        have := List.getElem?_eq_some_iff.mp hsp; exact this.1
      have hcs' : cs' = distTo i ts := by
        have := hok 0 t rfl i hlt; rw [hsp] at this; simpa using this
      have hcsv : acc + cs = p + sk + 1 := by
        simp only [distTo, hlt, if_true] at hcs; omega
      have hg := hgo 0 t rfl
      simp only [Nat.add_zero] at hg
      simp only [walk, hsp, hcsv, hg]
      by_cases hle : p + sk + 1 ≤ c
      · simp only [hle, decide_true, if_true]
        have ih := walk_spec go i c ts (p + sk + 1) 0 cs' (p + sk + 1)
          (by omega) rfl hok.tail
          (fun k t' hk => by
            have := hgo (k + 1) t' (by simpa using hk)
            have e : p + sk + 1 + (k + 1) = p + sk + 1 + 0 + 1 + k := by omega
            rwa [e] at this)
        refine ⟨ih.1, by omega, ?_, ?_⟩
        · rcases ih.2.2.1 with h | ⟨k, t', hk, he, hi, hc⟩
          · exact Or.inr ⟨0, t, rfl, by omega, hlt, by omega⟩
          · exact Or.inr ⟨k + 1, t', by simpa using hk, by omega, hi, hc⟩
        · intro k t' hk hlt' hc
          cases k with
          | zero => omega
          | succ k => exact ih.2.2.2 k t' (by simpa using hk) (by omega) (by omega)
      · simp only [hle, decide_false, Bool.false_eq_true, if_false]
        refine ⟨hacc, Nat.le_refl _, Or.inl trivial, ?_⟩
        intro k t' hk _ hc
        omega
termination_by rest => rest.length


/-- the spans of a list are the distances, for every level below `L` of the header and every level
    of every tower; every tower has between 1 and `L` levels -/
structure Spans (sl : SL) (L : Nat) : Prop where
  hdrLen : sl.hdr.length = maxLevel
  L_le : L ≤ maxLevel
  hdr : ∀ j, j < L → sl.hdr[j]? = some (distTo j sl.towers)
  tw : TowersOk sl.towers
  hts : ∀ t ∈ sl.towers, 1 ≤ t.ht ∧ t.ht ≤ L

/-- `u` is the last position `≤ c` that is the header (0) or a tower with a level `j` -/
def IsUpd (T : List Tower) (c j u : Nat) : Prop :=
  u ≤ c ∧ (u = 0 ∨ ∃ t, T[u - 1]? = some t ∧ j < t.ht) ∧
  (∀ q t, u ≤ q → q < c → T[q]? = some t → t.ht ≤ j)

theorem spanAt_ok {sl : SL} {L : Nat} (hs : Spans sl L) {u j : Nat}
    (hu : (u = 0 ∧ j < L) ∨ (0 < u ∧ ∃ t, sl.towers[u - 1]? = some t ∧ j < t.ht)) :
    spanAt sl u j = some (distTo j (sl.towers.drop u)) := by
  rcases hu with ⟨rfl, hj⟩ | ⟨hpos, t, ht, hj⟩
  · simpa [spanAt] using hs.hdr j hj
  · obtain ⟨q, rfl⟩ : ∃ q, u = q + 1 := ⟨u - 1, by omega⟩
    simp only [Nat.add_sub_cancel] at ht
    simp only [spanAt, ht]
    exact hs.tw q t ht j hj

theorem descend_spec {sl : SL} {L : Nat} (hs : Spans sl L) (go : Tower → Nat → Bool) (c : Nat)
    (hgo : ∀ k t, sl.towers[k]? = some t → go t (k + 1) = decide (k + 1 ≤ c)) :
    ∀ (n p : Nat), n ≤ L → p ≤ c →
      (p = 0 ∨ ∃ t, sl.towers[p - 1]? = some t ∧ n ≤ t.ht) →
      (∀ q t, p ≤ q → q < c → sl.towers[q]? = some t → t.ht ≤ n) →
      ∃ l, descend go sl n p p = some l ∧ l.length = n ∧
        ∀ j, j < n → ∃ u, l[j]? = some (u, u) ∧ IsUpd sl.towers c j u ∧ p ≤ u
  | 0, p, _, _, _, _ => ⟨[], rfl, rfl, fun j hj => absurd hj (Nat.not_lt_zero _)⟩
  | n + 1, p, hn, hp, hhp, hbig => by
    have hsp : spanAt sl p n = some (distTo n (sl.towers.drop p)) := by
      apply spanAt_ok hs
      rcases hhp with rfl | ⟨t, ht, hle⟩
      · exact Or.inl ⟨rfl, by omega⟩
      · by_cases hp0 : p = 0
        · subst hp0; exact Or.inl ⟨rfl, by omega⟩
        · exact Or.inr ⟨by omega, t, ht, by omega⟩
    have hw := walk_spec go n c (sl.towers.drop p) p 0 (distTo n (sl.towers.drop p)) p
      (by omega) rfl (hs.tw.drop p)
      (fun k t hk => by
        have := hgo (p + k) t (by simpa [List.getElem?_drop] using hk)
        have e : p + 0 + 1 + k = p + k + 1 := by omega
        rwa [e])
    generalize hr : walk go n (sl.towers.drop p) p 0 (distTo n (sl.towers.drop p)) p = r at hw
    obtain ⟨hacc, hpr, hwho, hrest⟩ := hw
    have hrc : r.1 ≤ c := by
      rcases hwho with h | ⟨_, _, _, _, _, h⟩
      · omega
      · exact h
    have hupd : IsUpd sl.towers c n r.1 := by
      refine ⟨hrc, ?_, ?_⟩
      · rcases hwho with h | ⟨k, t, hk, he, hi, _⟩
        · rw [h]
          rcases hhp with h0 | ⟨t, ht, hle⟩
          · exact Or.inl h0
          · exact Or.inr ⟨t, ht, by omega⟩
        · refine Or.inr ⟨t, ?_, hi⟩
          have : r.1 - 1 = p + k := by omega
          rw [this]; simpa [List.getElem?_drop] using hk
      · intro q t hq hqc hqt
        have hk : (sl.towers.drop p)[q - p]? = some t := by
          rw [List.getElem?_drop]; have : p + (q - p) = q := by omega
          rw [this]; exact hqt
        exact hrest (q - p) t hk (by omega) (by omega)
    obtain ⟨l, hl, hlen, hall⟩ := descend_spec hs go c hgo n r.1 (by omega) hrc
      (by
        rcases hupd.2.1 with h | ⟨t, ht, hlt⟩
        · exact Or.inl h
        · exact Or.inr ⟨t, ht, by omega⟩)
      (fun q t hq hqc hqt => hupd.2.2 q t hq hqc hqt)
    refine ⟨l ++ [r], ?_, by simp [hlen], ?_⟩
    · simp only [descend, hsp, hr]
      rw [hacc] at *
      rw [hl]
    · intro j hj
      by_cases hjn : j = n
      · subst hjn
        refine ⟨r.1, ?_, hupd, hpr⟩
        rw [List.getElem?_append_right (by omega), hlen]
        simp only [Nat.sub_self, List.getElem?_cons_zero, Option.some.injEq]
        exact Prod.ext rfl hacc
      · obtain ⟨u, hu, hupdj, hle⟩ := hall j (by omega)
        refine ⟨u, ?_, hupdj, by omega⟩
        rw [List.getElem?_append_left (by omega)]; exact hu

end RedisVerif.SkipList
