import RedisVerif.Model.Actors
import RedisVerif.Lemmas.NMap

/-! Lemmas about logs, replay and the linearizability checker (`Model/Actors.lean`). -/
namespace RedisVerif
namespace Actors

open NMap

section replay
variable {σ Req Resp : Type} [DecidableEq Resp] (step : σ → Req → σ × Resp)

theorem replay_append (r : RState σ Req Resp) (a b : List (Ev Req Resp)) :
    replay step r (a ++ b) = (replay step r a).bind (fun r' => replay step r' b) := by
  induction a generalizing r with
  | nil => rfl
  | cons e es ih =>
    show (match stepEv step r e with | none => none | some r' => replay step r' (es ++ b)) = _
    cases h : stepEv step r e with
    | none => simp [replay, h]
    | some r' => simp [replay, h, ih]

theorem replay_snoc (r r' : RState σ Req Resp) (log : List (Ev Req Resp)) (e : Ev Req Resp)
    (h : replay step r log = some r') :
    replay step r (log ++ [e]) = stepEv step r' e := by
  rw [replay_append, h]
  show (match stepEv step r' e with | none => none | some x => replay step x []) = _
  cases stepEv step r' e <;> rfl

omit [DecidableEq Resp] in
theorem history_cons_lin (id : Nat) (resp : Resp) (log : List (Ev Req Resp)) :
    history (.lin id resp :: log) = history log := rfl

omit [DecidableEq Resp] in
theorem history_cons_of_not_lin (e : Ev Req Resp) (he : e.isLin = false) (log : List (Ev Req Resp)) :
    history (e :: log) = e :: history log := by
  unfold history
  rw [List.filter_cons]; simp [he]

/-- **soundness of the search**: a successful search has found where every operation takes effect -/
theorem search_sound (exp : NMap Resp) (fuel : Nat) (r : RState σ Req Resp) (h : List (Ev Req Resp))
    (hnl : ∀ e ∈ h, e.isLin = false) (hs : search step exp fuel r h = true) :
    ∃ log, history log = h ∧ (replay step r log).isSome := by
  induction fuel generalizing r h with
  | zero => simp [search] at hs
  | succ fuel ih =>
    unfold search at hs
    cases h with
    | nil => exact ⟨[], rfl, rfl⟩
    | cons e es =>
      simp only at hs
      cases he : stepEv step r e with
      | some r' =>
        rw [he] at hs
        obtain ⟨log, hl, hv⟩ := ih r' es (fun x hx => hnl x (by simp [hx])) hs
        refine ⟨e :: log, ?_, ?_⟩
        · rw [history_cons_of_not_lin e (hnl e (by simp)), hl]
        · show (match stepEv step r e with | none => none | some r' => replay step r' log).isSome
          rw [he]; exact hv
      | none =>
        rw [he] at hs
        simp only at hs
        rw [List.any_eq_true] at hs
        obtain ⟨p, _, hp⟩ := hs
        rw [Bool.and_eq_true] at hp
        have hp2 := hp.2
        cases hl1 : stepEv step r (.lin p.1 (step r.s p.2).2) with
        | none => rw [hl1] at hp2; cases hp2
        | some r' =>
          rw [hl1] at hp2
          obtain ⟨log, hl, hv⟩ := ih r' (e :: es) hnl hp2
          refine ⟨.lin p.1 (step r.s p.2).2 :: log, ?_, ?_⟩
          · rw [history_cons_lin, hl]
          · show (match stepEv step r (.lin p.1 (step r.s p.2).2) with
              | none => none | some r' => replay step r' log).isSome
            rw [hl1]; exact hv

theorem checkLinOne_sound (s0 : σ) (h : List (Ev Req Resp)) (hc : checkLinOne step s0 h = true) :
    Linearizable step s0 h := by
  unfold checkLinOne at hc
  rw [Bool.and_eq_true] at hc
  have hnl : ∀ e ∈ h, e.isLin = false := by
    intro e he
    have := List.all_eq_true.mp hc.1 e he
    simpa using this
  exact search_sound step _ _ _ h hnl hc.2

theorem linearizable_nil (s0 : σ) : Linearizable step s0 ([] : List (Ev Req Resp)) :=
  ⟨[], rfl, rfl⟩

end replay

section perkey
variable {σ Req Resp : Type} [DecidableEq Resp] (step : σ → Req → σ × Resp) (keyOf : Req → Nat)

/-- **the checker is sound**: it only accepts per-key linearizable histories -/
theorem lin_check_sound (s0 : σ) (h : List (Ev Req Resp)) (hc : checkLin step keyOf s0 h = true) :
    PerKeyLinearizable step keyOf s0 h := by
  intro k
  unfold checkLin at hc
  by_cases hk : k ∈ (keyMap keyOf h).map (·.2)
  · have := List.all_eq_true.mp hc k (List.mem_eraseDups.mpr hk)
    exact checkLinOne_sound step s0 _ this
  · have : projKey (keyMap keyOf h) k h = [] := by
      unfold projKey
      rw [List.filter_eq_nil_iff]
      intro e _ he
      have hg : NMap.get (keyMap keyOf h) e.id = some k := by simpa using he
      exact hk (List.mem_map.mpr ⟨(e.id, k), mem_of_get hg, rfl⟩)
    rw [this]
    exact linearizable_nil step s0

end perkey

end Actors
end RedisVerif

/-! ## the transition system: invariant -/

namespace RedisVerif
namespace Actors

open NMap

section sysinv
variable {σ Req Resp : Type} [DecidableEq Resp] (step : σ → Req → σ × Resp) (route : Req → Nat) (s0 : σ)

theorem upd_same {α : Type} (f : Nat → α) (i : Nat) (v : α) : upd f i v i = v := by simp [upd]
theorem upd_other {α : Type} (f : Nat → α) (i j : Nat) (v : α) (h : j ≠ i) : upd f i v j = f j := by
  simp [upd, h]

/-- two messages of one mailbox with the same id are the same message -/
theorem msg_eq_of_nodup {l : List (Msg Req)} (hnd : (l.map (·.id)).Nodup) {m m' : Msg Req}
    (hm : m ∈ l) (hm' : m' ∈ l) (he : m.id = m'.id) : m = m' := by
  induction l with
  | nil => cases hm
  | cons x l ih =>
    rw [List.map_cons, List.nodup_cons] at hnd
    rcases List.mem_cons.mp hm with e | e <;> rcases List.mem_cons.mp hm' with e' | e'
    · rw [e, e']
    · subst e; exact absurd (List.mem_map.mpr ⟨m', e', he.symm⟩) hnd.1
    · subst e'; exact absurd (List.mem_map.mpr ⟨m, e, he⟩) hnd.1
    · exact ih hnd.2 e e'

/-- what ties the concrete state (mailboxes, clients, slots, pool) to the replayed log -/
structure Inv (s : Sys σ Req Resp) (r : RState σ Req Resp) : Prop where
  rep : replay step (initR s0) s.log = some r
  st : r.s = s.st
  next : r.next = s.nextId
  wfp : WF r.pend
  wfd : WF r.done
  /-- a waiting client: its request is either still in the mailbox of its shard (slot empty), or
      has been executed, no message mentions it any more, and its slot holds exactly the
      response computed for it -/
  cl : ∀ c id req sid, s.client c = .waiting id req sid →
    id < s.nextId ∧ sid < s.fresh ∧ sid ∉ s.pool ∧ (.inv id req) ∈ s.log ∧
    ((⟨id, sid, req⟩ ∈ s.mail (route req) ∧ s.slot sid = none ∧ get r.pend id = some req) ∨
     ((∀ i m, m ∈ s.mail i → m.id ≠ id) ∧
      ∃ resp, s.slot sid = some resp ∧ get r.done id = some resp ∧ (.lin id resp) ∈ s.log))
  distinct : ∀ c c' id req sid id' req' sid', c ≠ c' →
    s.client c = .waiting id req sid → s.client c' = .waiting id' req' sid' → id ≠ id' ∧ sid ≠ sid'
  /-- every message in flight — whether its client still waits or has ABANDONED it — sits in the
      right mailbox, is a pending operation of the log, and references a slot that is allocated
      and NOT in the pool -/
  msg : ∀ i m, m ∈ s.mail i →
    route m.req = i ∧ m.id < s.nextId ∧ m.slot < s.fresh ∧ m.slot ∉ s.pool ∧
    get r.pend m.id = some m.req
  /-- a message that references a waiting client's slot is that client's own request -/
  owner : ∀ c id req sid i m, s.client c = .waiting id req sid → m ∈ s.mail i → m.slot = sid →
    m.id = id
  cross : ∀ i j m m', m ∈ s.mail i → m' ∈ s.mail j → m.id = m'.id → i = j
  nodup : ∀ i, ((s.mail i).map (·.id)).Nodup
  /-- a slot in the pool (or never allocated) is empty -/
  slots_free : ∀ sid, (sid ∈ s.pool ∨ s.fresh ≤ sid) → s.slot sid = none
  pool_nodup : s.pool.Nodup
  pool_lt : ∀ sid ∈ s.pool, sid < s.fresh

theorem inv_init (pool : Nat) : Inv step route s0 (Sys.init s0 pool) (initR s0) where
  rep := rfl
  st := rfl
  next := rfl
  wfp := wf_nil
  wfd := wf_nil
  cl := by intro c id req sid h; cases h
  distinct := by intro c c' id req sid id' req' sid' _ h; cases h
  msg := by intro i m h; cases h
  owner := by intro c id req sid i m h; cases h
  cross := by intro i j m m' h; cases h
  nodup := by intro i; exact List.Pairwise.nil
  slots_free := by intro sid _; rfl
  pool_nodup := List.nodup_range
  pool_lt := by intro sid h; exact List.mem_range.mp h

/-- invocation: a slot that is free (popped from the pool, or never allocated) is handed out -/
theorem inv_invoke {s : Sys σ Req Resp} {r : RState σ Req Resp} (h : Inv step route s0 s r)
    (c : Nat) (req : Req) (sid : Nat) (pool' : List Nat) (fresh' : Nat)
    (hc : s.client c = .idle) (h1 : sid < fresh') (h2 : sid ∉ pool') (h3 : ∀ x ∈ pool', x ∈ s.pool)
    (h4 : s.fresh ≤ fresh') (h5 : sid ∈ s.pool ∨ s.fresh ≤ sid) (h6 : pool'.Nodup) :
    Inv step route s0
      { s with
        client := upd s.client c (.waiting s.nextId req sid)
        pool := pool'
        fresh := fresh'
        mail := upd s.mail (route req) (s.mail (route req) ++ [⟨s.nextId, sid, req⟩])
        nextId := s.nextId + 1
        log := s.log ++ [.inv s.nextId req] }
      { r with pend := insert s.nextId req r.pend, next := s.nextId + 1 } := by
  -- the slot handed out is referenced by no waiting client and no message in flight
  have hslot_ne : ∀ c' id' req' sid', s.client c' = .waiting id' req' sid' → sid' ≠ sid := by
    intro c' id' req' sid' hw he
    obtain ⟨_, hlt, hnp, _⟩ := h.cl c' id' req' sid' hw
    subst he
    rcases h5 with hp | hf
    · exact hnp hp
    · omega
  have hmsg_ne : ∀ i m, m ∈ s.mail i → m.slot ≠ sid := by
    intro i m hm he
    obtain ⟨_, _, hlt, hnp, _⟩ := h.msg i m hm
    rw [he] at hlt hnp
    rcases h5 with hp | hf
    · exact hnp hp
    · omega
  -- membership in the new mailboxes
  have hmem : ∀ i m, m ∈ upd s.mail (route req) (s.mail (route req) ++ [⟨s.nextId, sid, req⟩]) i →
      m ∈ s.mail i ∨ (m = ⟨s.nextId, sid, req⟩ ∧ i = route req) := by
    intro i m hm
    by_cases hi : i = route req
    · subst hi
      rw [upd_same] at hm
      rcases List.mem_append.mp hm with e | e
      · exact Or.inl e
      · exact Or.inr ⟨by simpa using e, rfl⟩
    · rw [upd_other _ _ _ _ hi] at hm; exact Or.inl hm
  refine
    { rep := ?_, st := h.st, next := rfl, wfp := wf_insert h.wfp, wfd := h.wfd, cl := ?_,
      distinct := ?_, msg := ?_, owner := ?_, cross := ?_, nodup := ?_, slots_free := ?_,
      pool_nodup := h6, pool_lt := ?_ }
  · show replay step (initR s0) (s.log ++ [.inv s.nextId req]) = _
    rw [replay_snoc step _ _ _ _ h.rep]
    show (if r.next ≤ s.nextId then _ else none) = _
    rw [if_pos (by rw [h.next]; exact Nat.le_refl _)]
  · intro c' id' req' sid' hw
    dsimp only at hw ⊢
    by_cases hcc : c' = c
    · subst hcc
      rw [upd_same] at hw
      injection hw with e1 e2 e3
      subst e1; subst e2; subst e3
      refine ⟨Nat.lt_succ_self _, h1, h2, by simp, Or.inl ⟨?_, ?_, ?_⟩⟩
      · rw [upd_same]; simp
      · exact h.slots_free _ h5
      · show get (insert s.nextId req r.pend) s.nextId = _
        rw [get_insert]; simp
    · rw [upd_other _ _ _ _ hcc] at hw
      obtain ⟨a1, a2, a3, a4, a5⟩ := h.cl c' id' req' sid' hw
      refine ⟨Nat.lt_succ_of_lt a1, Nat.lt_of_lt_of_le a2 h4, fun hx => a3 (h3 _ hx),
        by simp [a4], ?_⟩
      rcases a5 with ⟨b1, b2, b3⟩ | ⟨b1, resp, b2, b3, b4⟩
      · refine Or.inl ⟨?_, b2, ?_⟩
        · by_cases hr : route req' = route req
          · rw [hr, upd_same]; rw [hr] at b1; simp [b1]
          · rw [upd_other _ _ _ _ hr]; exact b1
        · show get (insert s.nextId req r.pend) id' = _
          rw [get_insert, if_neg (by omega)]; exact b3
      · refine Or.inr ⟨?_, resp, b2, b3, by simp [b4]⟩
        intro i m hm
        rcases hmem i m hm with e | ⟨e, _⟩
        · exact b1 i m e
        · subst e; show s.nextId ≠ id'; omega
  · intro c1 c2 id1 req1 sid1 id2 req2 sid2 hne hw1 hw2
    dsimp only at hw1 hw2
    by_cases e1 : c1 = c
    · subst e1
      have e2 : c2 ≠ c1 := fun e => hne e.symm
      rw [upd_same] at hw1
      rw [upd_other _ _ _ _ e2] at hw2
      injection hw1 with a1 a2 a3
      subst a1; subst a3
      have := (h.cl c2 id2 req2 sid2 hw2).1
      exact ⟨by omega, fun e => hslot_ne c2 id2 req2 sid2 hw2 e.symm⟩
    · rw [upd_other _ _ _ _ e1] at hw1
      by_cases e2 : c2 = c
      · subst e2
        rw [upd_same] at hw2
        injection hw2 with a1 a2 a3
        subst a1; subst a3
        have := (h.cl c1 id1 req1 sid1 hw1).1
        exact ⟨by omega, hslot_ne c1 id1 req1 sid1 hw1⟩
      · rw [upd_other _ _ _ _ e2] at hw2
        exact h.distinct c1 c2 _ _ _ _ _ _ hne hw1 hw2
  · intro i m hm
    dsimp only at hm ⊢
    rcases hmem i m hm with e | ⟨e, ei⟩
    · obtain ⟨g1, g2, g3, g4, g5⟩ := h.msg i m e
      refine ⟨g1, Nat.lt_succ_of_lt g2, Nat.lt_of_lt_of_le g3 h4, fun hx => g4 (h3 _ hx), ?_⟩
      show get (insert s.nextId req r.pend) m.id = _
      rw [get_insert, if_neg (by omega)]; exact g5
    · subst e; subst ei
      refine ⟨rfl, Nat.lt_succ_self _, h1, h2, ?_⟩
      show get (insert s.nextId req r.pend) s.nextId = _
      rw [get_insert]; simp
  · intro c' id' req' sid' i m hw hm hs
    dsimp only at hw hm
    by_cases hcc : c' = c
    · subst hcc
      rw [upd_same] at hw
      injection hw with e1 e2 e3
      subst e1; subst e3
      rcases hmem i m hm with e | ⟨e, _⟩
      · exact absurd hs (hmsg_ne i m e)
      · subst e; rfl
    · rw [upd_other _ _ _ _ hcc] at hw
      rcases hmem i m hm with e | ⟨e, _⟩
      · exact h.owner c' id' req' sid' i m hw e hs
      · subst e
        exact absurd hs.symm (hslot_ne c' id' req' sid' hw)
  · intro i j m m' hm hm' he
    dsimp only at hm hm'
    rcases hmem i m hm with e | ⟨e, ei⟩ <;> rcases hmem j m' hm' with e' | ⟨e', ej⟩
    · exact h.cross i j m m' e e' he
    · subst e'
      have := (h.msg i m e).2.1
      have he' : m.id = s.nextId := he
      omega
    · subst e
      have := (h.msg j m' e').2.1
      have he' : s.nextId = m'.id := he
      omega
    · rw [ei, ej]
  · intro i
    dsimp only
    by_cases hi : i = route req
    · subst hi
      rw [upd_same, List.map_append, List.nodup_append]
      refine ⟨h.nodup _, by simp, ?_⟩
      intro a ha b hb
      have hb' : b = s.nextId := by simpa using hb
      obtain ⟨m, hm, rfl⟩ := List.mem_map.mp ha
      have := (h.msg _ m hm).2.1
      omega
    · rw [upd_other _ _ _ _ hi]
      exact h.nodup i
  · intro x hx
    apply h.slots_free
    rcases hx with hx | hx
    · exact Or.inl (h3 x hx)
    · exact Or.inr (Nat.le_trans h4 hx)
  · intro x hx
    exact Nat.lt_of_lt_of_le (h.pool_lt x (h3 x hx)) h4

/-- a shard actor pops the head of its mailbox, runs the executor, answers into the message's
    slot — whether or not the client still waits -/
theorem inv_exec {s : Sys σ Req Resp} {r : RState σ Req Resp} (h : Inv step route s0 s r)
    (i : Nat) (m : Msg Req) (rest : List (Msg Req)) (hm : s.mail i = m :: rest) :
    Inv step route s0
      { s with
        st := (step s.st m.req).1
        mail := upd s.mail i rest
        slot := upd s.slot m.slot (some (step s.st m.req).2)
        log := s.log ++ [.lin m.id (step s.st m.req).2] }
      { r with s := (step s.st m.req).1, pend := erase m.id r.pend,
               done := insert m.id (step s.st m.req).2 r.done } := by
  have hmem : m ∈ s.mail i := by rw [hm]; simp
  obtain ⟨g1, g2, g3, g4, g5⟩ := h.msg i m hmem
  -- no other message carries this id
  have hno : ∀ j m', m' ∈ upd s.mail i rest j → m'.id ≠ m.id := by
    intro j m' hm' he
    by_cases hj : j = i
    · subst hj
      rw [upd_same] at hm'
      have hnd := h.nodup j
      rw [hm, List.map_cons, List.nodup_cons] at hnd
      exact hnd.1 (List.mem_map.mpr ⟨m', hm', he⟩)
    · rw [upd_other _ _ _ _ hj] at hm'
      exact hj (h.cross j i m' m hm' hmem he)
  have hsub : ∀ j m', m' ∈ upd s.mail i rest j → m' ∈ s.mail j := by
    intro j m' hm'
    by_cases hj : j = i
    · subst hj; rw [upd_same] at hm'; rw [hm]; simp [hm']
    · rw [upd_other _ _ _ _ hj] at hm'; exact hm'
  refine
    { rep := ?_, st := rfl, next := h.next, wfp := wf_erase h.wfp, wfd := wf_insert h.wfd, cl := ?_,
      distinct := h.distinct, msg := ?_, owner := ?_, cross := ?_, nodup := ?_, slots_free := ?_,
      pool_nodup := h.pool_nodup, pool_lt := h.pool_lt }
  · show replay step (initR s0) (s.log ++ [.lin m.id (step s.st m.req).2]) = _
    rw [replay_snoc step _ _ _ _ h.rep]
    show (match get r.pend m.id with | none => none | some req => _) = _
    rw [g5]
    show (if (step r.s m.req).2 = (step s.st m.req).2 then _ else none) = _
    rw [h.st, if_pos rfl]
  · intro c' id' req' sid' hw
    dsimp only at hw ⊢
    obtain ⟨a1, a2, a3, a4, a5⟩ := h.cl c' id' req' sid' hw
    refine ⟨a1, a2, a3, by simp [a4], ?_⟩
    by_cases hid : id' = m.id
    · -- the executed message is this client's own request
      rcases a5 with ⟨b1, _, _⟩ | ⟨b1, _⟩
      · have hi : route req' = i := h.cross _ _ _ _ b1 hmem hid
        rw [hi] at b1
        have hmm : (⟨id', sid', req'⟩ : Msg Req) = m := msg_eq_of_nodup (h.nodup i) b1 hmem hid
        have e2 : sid' = m.slot := congrArg Msg.slot hmm
        refine Or.inr ⟨fun j m' hm' => by rw [hid]; exact hno j m' hm', (step s.st m.req).2, ?_, ?_, ?_⟩
        · rw [e2]; exact upd_same _ _ _
        · show get (insert m.id _ r.done) id' = _
          rw [get_insert, if_pos hid]
        · rw [hid]; simp
      · exact absurd hid.symm (b1 i m hmem)
    · have hsid : sid' ≠ m.slot := fun e => hid (h.owner c' id' req' sid' i m hw hmem e.symm).symm
      rcases a5 with ⟨b1, b2, b3⟩ | ⟨b1, resp, b2, b3, b4⟩
      · refine Or.inl ⟨?_, ?_, ?_⟩
        · by_cases hj : route req' = i
          · rw [hj, upd_same]
            rw [hj, hm] at b1
            rcases List.mem_cons.mp b1 with e | e
            · exact absurd (congrArg Msg.id e) hid
            · exact e
          · rw [upd_other _ _ _ _ hj]; exact b1
        · rw [upd_other _ _ _ _ hsid]; exact b2
        · show get (erase m.id r.pend) id' = _
          rw [get_erase h.wfp, if_neg hid]; exact b3
      · refine Or.inr ⟨fun j m' hm' => b1 j m' (hsub j m' hm'), resp, ?_, ?_, by simp [b4]⟩
        · rw [upd_other _ _ _ _ hsid]; exact b2
        · show get (insert m.id _ r.done) id' = _
          rw [get_insert, if_neg hid]; exact b3
  · intro j m' hm'
    dsimp only at hm' ⊢
    obtain ⟨k1, k2, k3, k4, k5⟩ := h.msg j m' (hsub j m' hm')
    refine ⟨k1, k2, k3, k4, ?_⟩
    show get (erase m.id r.pend) m'.id = _
    rw [get_erase h.wfp, if_neg (hno j m' hm')]; exact k5
  · intro c' id' req' sid' j m' hw hm' hs
    exact h.owner c' id' req' sid' j m' hw (hsub j m' hm') hs
  · intro j k m1 m2 h1 h2 he
    exact h.cross j k m1 m2 (hsub j m1 h1) (hsub k m2 h2) he
  · intro j
    dsimp only
    by_cases hj : j = i
    · subst hj
      rw [upd_same]
      have := h.nodup j
      rw [hm, List.map_cons, List.nodup_cons] at this
      exact this.2
    · rw [upd_other _ _ _ _ hj]; exact h.nodup j
  · intro x hx
    dsimp only at hx ⊢
    have : x ≠ m.slot := by
      intro e; subst e
      rcases hx with hx | hx
      · exact g4 hx
      · omega
    rw [upd_other _ _ _ _ this]
    exact h.slots_free x hx

/-- the client's future resolves: the value is taken out of the slot, the slot goes back to the
    pool (or is dropped) -/
theorem inv_ret {s : Sys σ Req Resp} {r : RState σ Req Resp} (h : Inv step route s0 s r)
    (c id : Nat) (req : Req) (sid : Nat) (resp : Resp) (pool' : List Nat)
    (hc : s.client c = .waiting id req sid) (hs : s.slot sid = some resp)
    (hp1 : ∀ x ∈ pool', x ∈ s.pool ∨ x = sid) (hp2 : pool'.Nodup) :
    Inv step route s0
      { s with
        client := upd s.client c .idle
        slot := upd s.slot sid none
        pool := pool'
        log := s.log ++ [.res id resp] }
      { r with done := erase id r.done } := by
  obtain ⟨c1, c2, c3, c4, c5⟩ := h.cl c _ _ _ hc
  -- the request has been executed and the slot holds ITS response
  have hex : (∀ i m, m ∈ s.mail i → m.id ≠ id) ∧ get r.done id = some resp := by
    rcases c5 with ⟨_, b2, _⟩ | ⟨b1, resp', b2, b3, _⟩
    · rw [hs] at b2; cases b2
    · rw [hs] at b2; injection b2 with e; subst e; exact ⟨b1, b3⟩
  -- … so no message in flight references the slot that goes back to the pool
  have hmsg_ne : ∀ i m, m ∈ s.mail i → m.slot ≠ sid := by
    intro i m hm he
    exact hex.1 i m hm (h.owner c id req sid i m hc hm he)
  refine
    { rep := ?_, st := h.st, next := h.next, wfp := h.wfp, wfd := wf_erase h.wfd, cl := ?_,
      distinct := ?_, msg := ?_, owner := ?_, cross := h.cross, nodup := h.nodup, slots_free := ?_,
      pool_nodup := hp2, pool_lt := ?_ }
  · show replay step (initR s0) (s.log ++ [.res id resp]) = _
    rw [replay_snoc step _ _ _ _ h.rep]
    show (if get r.done id = some resp then _ else none) = _
    rw [if_pos hex.2]
  · intro c' id' req' sid' hw
    dsimp only at hw ⊢
    by_cases hcc : c' = c
    · subst hcc; rw [upd_same] at hw; cases hw
    · rw [upd_other _ _ _ _ hcc] at hw
      obtain ⟨a1, a2, a3, a4, a5⟩ := h.cl c' id' req' sid' hw
      obtain ⟨hid, hsid⟩ := h.distinct c' c _ _ _ _ _ _ hcc hw hc
      refine ⟨a1, a2, ?_, by simp [a4], ?_⟩
      · intro hx
        rcases hp1 _ hx with e | e
        · exact a3 e
        · exact hsid e
      · rcases a5 with ⟨b1, b2, b3⟩ | ⟨b1, resp', b2, b3, b4⟩
        · exact Or.inl ⟨b1, by rw [upd_other _ _ _ _ hsid]; exact b2, b3⟩
        · refine Or.inr ⟨b1, resp', by rw [upd_other _ _ _ _ hsid]; exact b2, ?_, by simp [b4]⟩
          show get (erase id r.done) id' = _
          rw [get_erase h.wfd, if_neg hid]; exact b3
  · intro x y id1 req1 sid1 id2 req2 sid2 hne hw1 hw2
    dsimp only at hw1 hw2
    have hx : x ≠ c := by intro e; subst e; rw [upd_same] at hw1; cases hw1
    have hy : y ≠ c := by intro e; subst e; rw [upd_same] at hw2; cases hw2
    rw [upd_other _ _ _ _ hx] at hw1
    rw [upd_other _ _ _ _ hy] at hw2
    exact h.distinct x y _ _ _ _ _ _ hne hw1 hw2
  · intro i m hm
    dsimp only at hm ⊢
    obtain ⟨k1, k2, k3, k4, k5⟩ := h.msg i m hm
    refine ⟨k1, k2, k3, ?_, k5⟩
    intro hx
    rcases hp1 _ hx with e | e
    · exact k4 e
    · exact hmsg_ne i m hm e
  · intro c' id' req' sid' i m hw hm hs'
    dsimp only at hw hm
    have hcc : c' ≠ c := by intro e; subst e; rw [upd_same] at hw; cases hw
    rw [upd_other _ _ _ _ hcc] at hw
    exact h.owner c' id' req' sid' i m hw hm hs'
  · intro x hx
    dsimp only at hx ⊢
    by_cases e : x = sid
    · subst e; exact upd_same _ _ _
    · rw [upd_other _ _ _ _ e]
      apply h.slots_free
      rcases hx with hx | hx
      · rcases hp1 _ hx with e' | e'
        · exact Or.inl e'
        · exact absurd e' e
      · exact Or.inr hx
  · intro x hx
    dsimp only at hx ⊢
    rcases hp1 _ hx with e | e
    · exact h.pool_lt x e
    · subst e; exact c2

/-- the client gives up: its slot leaks (stays out of the pool), a queued message keeps it -/
theorem inv_abandon {s : Sys σ Req Resp} {r : RState σ Req Resp} (h : Inv step route s0 s r)
    (c : Nat) : Inv step route s0 { s with client := upd s.client c .idle } r := by
  have hcl : ∀ c' id req sid, upd s.client c CState.idle c' = .waiting id req sid →
      s.client c' = .waiting id req sid := by
    intro c' id req sid hw
    by_cases hcc : c' = c
    · subst hcc; rw [upd_same] at hw; cases hw
    · rw [upd_other _ _ _ _ hcc] at hw; exact hw
  exact
    { rep := h.rep, st := h.st, next := h.next, wfp := h.wfp, wfd := h.wfd
      cl := fun c' id req sid hw => h.cl c' id req sid (hcl _ _ _ _ hw)
      distinct := fun c1 c2 _ _ _ _ _ _ hne hw1 hw2 =>
        h.distinct c1 c2 _ _ _ _ _ _ hne (hcl _ _ _ _ hw1) (hcl _ _ _ _ hw2)
      msg := h.msg
      owner := fun c' id req sid i m hw hm hs => h.owner c' id req sid i m (hcl _ _ _ _ hw) hm hs
      cross := h.cross, nodup := h.nodup, slots_free := h.slots_free
      pool_nodup := h.pool_nodup, pool_lt := h.pool_lt }

/-- a batched call: the items are posted one after the other, each with a fresh channel -/
theorem inv_batch (items : List (Nat × Req)) {s : Sys σ Req Resp} {r : RState σ Req Resp}
    (h : Inv step route s0 s r) (hidle : ∀ p ∈ items, s.client p.1 = .idle)
    (hnd : (items.map (·.1)).Nodup) :
    ∃ r', Inv step route s0 (items.foldl (fun s p => postFresh route s p.1 p.2) s) r' := by
  induction items generalizing s r with
  | nil => exact ⟨r, h⟩
  | cons p items ih =>
    rw [List.map_cons, List.nodup_cons] at hnd
    have h1 := inv_invoke step route s0 h p.1 p.2 s.fresh s.pool (s.fresh + 1) (hidle p (by simp))
      (Nat.lt_succ_self _) (fun hx => Nat.lt_irrefl _ (h.pool_lt _ hx)) (fun x hx => hx)
      (Nat.le_succ _) (Or.inr (Nat.le_refl _)) h.pool_nodup
    rw [List.foldl_cons]
    apply ih h1 _ hnd.2
    intro q hq
    have hne : q.1 ≠ p.1 := fun e => hnd.1 (e ▸ List.mem_map.mpr ⟨q, hq, rfl⟩)
    show upd s.client p.1 _ q.1 = .idle
    rw [upd_other _ _ _ _ hne]
    exact hidle q (by simp [hq])

/-- the invariant is inductive -/
theorem inv_step {s s' : Sys σ Req Resp} {r : RState σ Req Resp} (h : Inv step route s0 s r)
    (hs : Step step route s s') : ∃ r', Inv step route s0 s' r' := by
  cases hs with
  | invokePooled c req sid rest hc hp =>
    have hnd := h.pool_nodup
    rw [hp, List.nodup_cons] at hnd
    exact ⟨_, inv_invoke step route s0 h c req sid rest s.fresh hc
      (h.pool_lt sid (by rw [hp]; simp)) hnd.1 (fun x hx => by rw [hp]; simp [hx])
      (Nat.le_refl _) (Or.inl (by rw [hp]; simp)) hnd.2⟩
  | invokeFresh c req hc =>
    exact ⟨_, inv_invoke step route s0 h c req s.fresh s.pool (s.fresh + 1) hc
      (Nat.lt_succ_self _) (fun hx => Nat.lt_irrefl _ (h.pool_lt _ hx)) (fun x hx => hx)
      (Nat.le_succ _) (Or.inr (Nat.le_refl _)) h.pool_nodup⟩
  | exec i m rest hm => exact ⟨_, inv_exec step route s0 h i m rest hm⟩
  | retRelease c id req sid resp hc hsl =>
    refine ⟨_, inv_ret step route s0 h c id req sid resp (s.pool ++ [sid]) hc hsl ?_ ?_⟩
    · intro x hx
      rcases List.mem_append.mp hx with e | e
      · exact Or.inl e
      · exact Or.inr (by simpa using e)
    · rw [List.nodup_append]
      refine ⟨h.pool_nodup, by simp, ?_⟩
      intro a ha b hb
      have : b = sid := by simpa using hb
      subst this
      intro e; subst e
      exact (h.cl c _ _ _ hc).2.2.1 ha
  | retDrop c id req sid resp hc hsl =>
    exact ⟨_, inv_ret step route s0 h c id req sid resp s.pool hc hsl (fun x hx => Or.inl hx)
      h.pool_nodup⟩
  | abandon c id req sid hc => exact ⟨r, inv_abandon step route s0 h c⟩
  | invokeBatch items hidle hnd => exact inv_batch step route s0 items h hidle hnd

theorem reach_inv {pool : Nat} {s : Sys σ Req Resp} (hr : Reach step route s0 pool s) :
    ∃ r, Inv step route s0 s r := by
  induction hr with
  | init => exact ⟨_, inv_init step route s0 pool⟩
  | step _ hs ih =>
    obtain ⟨r, hi⟩ := ih
    exact inv_step step route s0 hi hs

end sysinv

/-! ## order of the events of one operation in a valid log -/

section order
variable {σ Req Resp : Type} [DecidableEq Resp] (step : σ → Req → σ × Resp)

theorem stepEv_wf {r r' : RState σ Req Resp} {e : Ev Req Resp} (h : stepEv step r e = some r')
    (hp : WF r.pend) (hd : WF r.done) : WF r'.pend ∧ WF r'.done := by
  cases e with
  | inv id req =>
    simp only [stepEv] at h
    split at h
    · injection h with h; subst h; exact ⟨wf_insert hp, hd⟩
    · cases h
  | lin id resp =>
    simp only [stepEv] at h
    split at h
    · cases h
    · split at h
      · injection h with h; subst h; exact ⟨wf_erase hp, wf_insert hd⟩
      · cases h
  | res id resp =>
    simp only [stepEv] at h
    split at h
    · injection h with h; subst h; exact ⟨hp, wf_erase hd⟩
    · cases h

/-- an operation that is pending was invoked earlier -/
theorem pend_of_replay (pre : List (Ev Req Resp)) (r0 r1 : RState σ Req Resp)
    (h : replay step r0 pre = some r1) (hp : WF r0.pend) (hd : WF r0.done) (id : Nat) (req : Req)
    (hg : get r1.pend id = some req) : get r0.pend id = some req ∨ (.inv id req) ∈ pre := by
  induction pre generalizing r0 with
  | nil => injection h with h; subst h; exact Or.inl hg
  | cons e es ih =>
    simp only [replay] at h
    cases he : stepEv step r0 e with
    | none => rw [he] at h; cases h
    | some r' =>
      rw [he] at h
      obtain ⟨hp', hd'⟩ := stepEv_wf step he hp hd
      rcases ih r' h hp' hd' with h1 | h1
      · cases e with
        | inv id' req' =>
          simp only [stepEv] at he
          split at he
          · injection he with he; subst he
            simp only [get_insert] at h1
            split at h1
            · rename_i e1; injection h1 with e2; subst e1; subst e2; exact Or.inr (by simp)
            · exact Or.inl h1
          · cases he
        | lin id' resp' =>
          simp only [stepEv] at he
          split at he
          · cases he
          · split at he
            · injection he with he; subst he
              simp only [get_erase hp] at h1
              split at h1
              · cases h1
              · exact Or.inl h1
            · cases he
        | res id' resp' =>
          simp only [stepEv] at he
          split at he
          · injection he with he; subst he; exact Or.inl h1
          · cases he
      · exact Or.inr (by simp [h1])

/-- an operation whose response is ready has taken effect earlier, with that response -/
theorem done_of_replay (pre : List (Ev Req Resp)) (r0 r1 : RState σ Req Resp)
    (h : replay step r0 pre = some r1) (hp : WF r0.pend) (hd : WF r0.done) (id : Nat) (resp : Resp)
    (hg : get r1.done id = some resp) : get r0.done id = some resp ∨ (.lin id resp) ∈ pre := by
  induction pre generalizing r0 with
  | nil => injection h with h; subst h; exact Or.inl hg
  | cons e es ih =>
    simp only [replay] at h
    cases he : stepEv step r0 e with
    | none => rw [he] at h; cases h
    | some r' =>
      rw [he] at h
      obtain ⟨hp', hd'⟩ := stepEv_wf step he hp hd
      rcases ih r' h hp' hd' with h1 | h1
      · cases e with
        | inv id' req' =>
          simp only [stepEv] at he
          split at he
          · injection he with he; subst he; exact Or.inl h1
          · cases he
        | lin id' resp' =>
          simp only [stepEv] at he
          split at he
          · cases he
          · split at he
            · injection he with he; subst he
              simp only [get_insert] at h1
              split at h1
              · rename_i e1; injection h1 with e2; subst e1; subst e2; exact Or.inr (by simp)
              · exact Or.inl h1
            · cases he
        | res id' resp' =>
          simp only [stepEv] at he
          split at he
          · injection he with he; subst he
            simp only [get_erase hd] at h1
            split at h1
            · cases h1
            · exact Or.inl h1
          · cases he
      · exact Or.inr (by simp [h1])

theorem replay_split (pre : List (Ev Req Resp)) (e : Ev Req Resp) (post : List (Ev Req Resp))
    (r0 : RState σ Req Resp) (h : (replay step r0 (pre ++ e :: post)).isSome) :
    ∃ r1, replay step r0 pre = some r1 ∧ (stepEv step r1 e).isSome := by
  rw [replay_append] at h
  cases h1 : replay step r0 pre with
  | none => rw [h1] at h; cases h
  | some r1 =>
    rw [h1] at h
    refine ⟨r1, rfl, ?_⟩
    show (stepEv step r1 e).isSome
    cases h2 : stepEv step r1 e with
    | none =>
      have : replay step r1 (e :: post) = none := by simp [replay, h2]
      simp [Option.bind, this] at h
    | some _ => rfl

/-- **every linearization point lies after the invocation of its operation** -/
theorem lin_after_inv (s0 : σ) (pre post : List (Ev Req Resp)) (id : Nat) (resp : Resp)
    (h : ValidLog step s0 (pre ++ .lin id resp :: post)) : ∃ req, (.inv id req) ∈ pre := by
  obtain ⟨r1, h1, h2⟩ := replay_split step pre _ post _ h
  simp only [stepEv] at h2
  cases hg : get r1.pend id with
  | none => rw [hg] at h2; cases h2
  | some req =>
    rcases pend_of_replay step pre _ r1 h1 wf_nil wf_nil id req hg with e | e
    · cases e
    · exact ⟨req, e⟩

/-- **every response is delivered after the linearization point of its operation, and is the
    response computed there** -/
theorem res_after_lin (s0 : σ) (pre post : List (Ev Req Resp)) (id : Nat) (resp : Resp)
    (h : ValidLog step s0 (pre ++ .res id resp :: post)) : (.lin id resp) ∈ pre := by
  obtain ⟨r1, h1, h2⟩ := replay_split step pre _ post _ h
  simp only [stepEv] at h2
  split at h2
  · rename_i hg
    rcases done_of_replay step pre _ r1 h1 wf_nil wf_nil id resp hg with e | e
    · cases e
    · exact e
  · cases h2

end order

/-! ## refinement of specifications preserves valid logs -/

section sim
variable {σA σB Req Resp : Type} [DecidableEq Resp]
  (stepA : σA → Req → σA × Resp) (stepB : σB → Req → σB × Resp)

theorem mem_erase_of {ν : Type} {k : Nat} {m : NMap ν} {p : Nat × ν} (h : p ∈ erase k m) : p ∈ m := by
  induction m with
  | nil => simp [erase] at h
  | cons q m ih =>
    obtain ⟨kq, vq⟩ := q
    simp only [erase] at h
    split at h
    · exact List.mem_cons_of_mem _ h
    · rcases List.mem_cons.mp h with e | e
      · subst e; exact List.mem_cons_self
      · exact List.mem_cons_of_mem _ (ih e)

/-- one event: if `A` accepts it, so does `B`, and the bookkeeping stays equal -/
theorem stepEv_sim (Rel : σA → σB → Prop) (Ok : Req → Prop)
    (hsim : ∀ a b req, Rel a b → Ok req →
      Rel (stepA a req).1 (stepB b req).1 ∧ (stepA a req).2 = (stepB b req).2)
    (e : Ev Req Resp) (rA rA1 : RState σA Req Resp) (rB : RState σB Req Resp)
    (hrel : Rel rA.s rB.s) (hp : rA.pend = rB.pend) (hd : rA.done = rB.done) (hn : rA.next = rB.next)
    (hok : ∀ p ∈ rA.pend, Ok p.2) (he0 : ∀ id req, e = .inv id req → Ok req)
    (he : stepEv stepA rA e = some rA1) :
    ∃ rB1, stepEv stepB rB e = some rB1 ∧ Rel rA1.s rB1.s ∧ rA1.pend = rB1.pend ∧
      rA1.done = rB1.done ∧ rA1.next = rB1.next ∧ (∀ p ∈ rA1.pend, Ok p.2) := by
  cases e with
  | inv id req =>
    simp only [stepEv] at he ⊢
    by_cases hle : rA.next ≤ id
    · rw [if_pos hle] at he
      rw [if_pos (by rw [← hn]; exact hle)]
      injection he with he
      refine ⟨_, rfl, ?_⟩
      rw [← he]
      refine ⟨hrel, by simp [hp], hd, rfl, ?_⟩
      intro p hp'
      rcases mem_insert hp' with e1 | e1
      · rw [e1]; exact he0 id req rfl
      · exact hok p e1
    · rw [if_neg hle] at he; cases he
  | lin id resp =>
    simp only [stepEv] at he ⊢
    rw [← hp]
    cases hg : get rA.pend id with
    | none => rw [hg] at he; cases he
    | some req =>
      rw [hg] at he
      simp only at he ⊢
      have hokr : Ok req := hok (id, req) (mem_of_get hg)
      obtain ⟨s1, s2⟩ := hsim _ _ req hrel hokr
      by_cases hr : (stepA rA.s req).2 = resp
      · rw [if_pos hr] at he
        rw [if_pos (by rw [← s2]; exact hr)]
        injection he with he
        refine ⟨_, rfl, ?_⟩
        rw [← he]
        refine ⟨s1, rfl, by simp [hd], hn, ?_⟩
        intro p hp'
        exact hok p (mem_erase_of hp')
      · rw [if_neg hr] at he; cases he
  | res id resp =>
    simp only [stepEv] at he ⊢
    rw [← hd]
    by_cases hg : get rA.done id = some resp
    · rw [if_pos hg] at he
      rw [if_pos hg]
      injection he with he
      refine ⟨_, rfl, ?_⟩
      rw [← he]
      exact ⟨hrel, hp, rfl, hn, hok⟩
    · rw [if_neg hg] at he; cases he

/-- if every step of specification `A` on an allowed request is matched by `B` (same response,
    related states), every log that is valid for `A` is valid for `B` -/
theorem replay_sim (Rel : σA → σB → Prop) (Ok : Req → Prop)
    (hsim : ∀ a b req, Rel a b → Ok req →
      Rel (stepA a req).1 (stepB b req).1 ∧ (stepA a req).2 = (stepB b req).2)
    (log : List (Ev Req Resp)) (rA rA' : RState σA Req Resp) (rB : RState σB Req Resp)
    (hrel : Rel rA.s rB.s) (hp : rA.pend = rB.pend) (hd : rA.done = rB.done) (hn : rA.next = rB.next)
    (hok : ∀ p ∈ rA.pend, Ok p.2) (hlog : ∀ id req, (.inv id req) ∈ log → Ok req)
    (h : replay stepA rA log = some rA') :
    ∃ rB', replay stepB rB log = some rB' ∧ Rel rA'.s rB'.s ∧ rA'.pend = rB'.pend ∧
      rA'.done = rB'.done := by
  induction log generalizing rA rB with
  | nil => injection h with h; subst h; exact ⟨rB, rfl, hrel, hp, hd⟩
  | cons e es ih =>
    simp only [replay] at h ⊢
    cases he : stepEv stepA rA e with
    | none => rw [he] at h; cases h
    | some rA1 =>
      rw [he] at h
      obtain ⟨rB1, hb, h1, h2, h3, h4, h5⟩ := stepEv_sim stepA stepB Rel Ok hsim e rA rA1 rB hrel hp hd
        hn hok (fun id req e1 => hlog id req (by simp [e1])) he
      rw [hb]
      exact ih rA1 rB1 h1 h2 h3 h4 h5 (fun id req hm => hlog id req (by simp [hm])) h

end sim

/-! ## sequential histories: linearizable only if legal in program order -/

section seq
variable {σ Req Resp : Type} [DecidableEq Resp] (step : σ → Req → σ × Resp)

/-- the history of one client issuing operations one after the other -/
def seqHist : List (Nat × Req × Resp) → List (Ev Req Resp)
  | [] => []
  | (id, req, resp) :: rest => .inv id req :: .res id resp :: seqHist rest

/-- the responses are those of the specification run in program order -/
def seqLegal : σ → List (Nat × Req × Resp) → Prop
  | _, [] => True
  | s, (_, req, resp) :: rest => (step s req).2 = resp ∧ seqLegal (step s req).1 rest

inductive Phase (Req Resp : Type)
  | idle
  | invoked (id : Nat) (req : Req) (resp : Resp)
  | linearized (id : Nat) (resp' resp : Resp)

def remaining : Phase Req Resp → List (Nat × Req × Resp) → List (Ev Req Resp)
  | .idle, rest => seqHist rest
  | .invoked id _ resp, rest => .res id resp :: seqHist rest
  | .linearized id _ resp, rest => .res id resp :: seqHist rest

def PhaseOk : Phase Req Resp → RState σ Req Resp → Prop
  | .idle, r => r.pend = [] ∧ r.done = []
  | .invoked id req _, r => r.pend = [(id, req)] ∧ r.done = []
  | .linearized id resp' _, r => r.pend = [] ∧ r.done = [(id, resp')]

def PhaseGoal : Phase Req Resp → RState σ Req Resp → List (Nat × Req × Resp) → Prop
  | .idle, r, rest => seqLegal step r.s rest
  | .invoked _ req resp, r, rest => (step r.s req).2 = resp ∧ seqLegal step (step r.s req).1 rest
  | .linearized _ resp' resp, r, rest => resp' = resp ∧ seqLegal step r.s rest

theorem seq_phase (log : List (Ev Req Resp)) (r : RState σ Req Resp) (ph : Phase Req Resp)
    (rest : List (Nat × Req × Resp)) (hh : history log = remaining ph rest) (hp : PhaseOk ph r)
    (hv : (replay step r log).isSome) : PhaseGoal step ph r rest := by
  induction log generalizing r ph rest with
  | nil =>
    cases ph with
    | idle =>
      cases rest with
      | nil => trivial
      | cons o rest' => obtain ⟨i, q, p⟩ := o; cases hh
    | invoked _ _ _ => cases hh
    | linearized _ _ _ => cases hh
  | cons e es ih =>
    simp only [replay] at hv
    cases he : stepEv step r e with
    | none => rw [he] at hv; cases hv
    | some r1 =>
      rw [he] at hv
      cases e with
      | lin id' resp' =>
        rw [history_cons_lin] at hh
        simp only [stepEv] at he
        cases ph with
        | idle => rw [hp.1] at he; cases he
        | linearized _ _ _ => rw [hp.1] at he; cases he
        | invoked id req resp =>
          rw [hp.1] at he
          by_cases hid : id' = id
          · subst hid
            have hg : get [(id', req)] id' = some req := by simp [NMap.get]
            rw [hg] at he
            simp only at he
            by_cases hr : (step r.s req).2 = resp'
            · rw [if_pos hr] at he
              injection he with he
              have hp1 : PhaseOk (.linearized id' resp' resp) r1 := by
                rw [← he]
                exact ⟨by simp [NMap.erase], by rw [hp.2]; rfl⟩
              have := ih r1 (.linearized id' resp' resp) rest hh hp1 hv
              rw [← he] at this
              exact ⟨hr.trans this.1, this.2⟩
            · rw [if_neg hr] at he; cases he
          · have hg : get [(id, req)] id' = none := by simp [NMap.get, hid]
            rw [hg] at he; cases he
      | inv id' req' =>
        rw [history_cons_of_not_lin _ rfl] at hh
        cases ph with
        | invoked _ _ _ => injection hh with h1 _; cases h1
        | linearized _ _ _ => injection hh with h1 _; cases h1
        | idle =>
          cases rest with
          | nil => cases hh
          | cons o rest' =>
            obtain ⟨id, req, resp⟩ := o
            injection hh with h1 h2
            injection h1 with e1 e2
            subst e1; subst e2
            simp only [stepEv] at he
            split at he
            · injection he with he
              have hp1 : PhaseOk (.invoked id' req' resp) r1 := by
                rw [← he]; exact ⟨by rw [hp.1]; rfl, hp.2⟩
              have := ih r1 (.invoked id' req' resp) rest' h2 hp1 hv
              rw [← he] at this
              exact this
            · cases he
      | res id' resp'' =>
        rw [history_cons_of_not_lin _ rfl] at hh
        simp only [stepEv] at he
        cases ph with
        | idle =>
          cases rest with
          | nil => cases hh
          | cons o rest' => obtain ⟨i, q, p⟩ := o; injection hh with h1 _; cases h1
        | invoked id req resp =>
          rw [hp.2] at he
          simp [NMap.get] at he
        | linearized id resp' resp =>
          injection hh with h1 h2
          injection h1 with e1 e2
          subst e1; subst e2
          rw [hp.2] at he
          by_cases hr : resp' = resp''
          · subst hr
            have hg : get [(id', resp')] id' = some resp' := by simp [NMap.get]
            rw [if_pos hg] at he
            injection he with he
            have hp1 : PhaseOk .idle r1 := by
              rw [← he]; exact ⟨hp.1, by simp [NMap.erase]⟩
            have := ih r1 .idle rest h2 hp1 hv
            rw [← he] at this
            exact ⟨rfl, this⟩
          · have hg : ¬ (get [(id', resp')] id' = some resp'') := by
              simp [NMap.get]; exact hr
            rw [if_neg hg] at he; cases he

/-- **a sequential history is linearizable only if every response is the one the specification
    gives in program order** -/
theorem seq_lin_legal (s0 : σ) (ops : List (Nat × Req × Resp))
    (h : Linearizable step s0 (seqHist ops)) : seqLegal step s0 ops := by
  obtain ⟨log, hl, hv⟩ := h
  exact seq_phase step log (initR s0) .idle ops hl ⟨rfl, rfl⟩ hv

end seq

end Actors
end RedisVerif
