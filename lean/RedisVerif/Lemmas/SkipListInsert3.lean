import RedisVerif.Lemmas.SkipListInsert2
namespace RedisVerif.SkipList
open RedisVerif RedisVerif.Redis

theorem spanAt_succ {sl : SL} {k : Nat} {t : Tower} (h : sl.towers[k]? = some t) (j : Nat) :
    spanAt sl (k + 1) j = t.spans[j]? := by simp [spanAt, h]

section splice
variable {α : Type}

theorem getElem?_splice (l : List α) (x : α) {c : Nat} (hc : c ≤ l.length) (k : Nat) :
    (l.take c ++ x :: l.drop c)[k]? = if k < c then l[k]? else if k = c then some x else l[k - 1]? := by
  have hlen : (l.take c).length = c := by simp; omega
  by_cases h1 : k < c
  · rw [List.getElem?_append_left (by omega), List.getElem?_take, if_pos h1, if_pos h1]
  · rw [List.getElem?_append_right (by omega), hlen, if_neg h1]
    by_cases h2 : k = c
    · subst h2; simp
    · rw [if_neg h2]
      obtain ⟨d, hd⟩ : ∃ d, k - c = d + 1 := ⟨k - c - 1, by omega⟩
      rw [hd, List.getElem?_cons_succ, List.getElem?_drop]
      have : c + d = k - 1 := by omega
      rw [this]

theorem drop_splice_lt (l : List α) (x : α) {c k : Nat} (hc : c ≤ l.length) (h : k ≤ c) :
    (l.take c ++ x :: l.drop c).drop k = (l.take c).drop k ++ x :: l.drop c := by
  rw [List.drop_append_of_le_length (by simp; omega)]

theorem drop_splice_gt (l : List α) (x : α) {c k : Nat} (hc : c ≤ l.length) (h : c < k) :
    (l.take c ++ x :: l.drop c).drop k = l.drop (k - 1) := by
  have hlen : (l.take c).length = c := by simp; omega
  rw [List.drop_append, hlen]
  have h1 : (l.take c).drop k = [] := by simp; omega
  rw [h1, List.nil_append]
  obtain ⟨d, hd⟩ : ∃ d, k - c = d + 1 := ⟨k - c - 1, by omega⟩
  rw [hd, List.drop_succ_cons, List.drop_drop]
  have : c + d = k - 1 := by omega
  rw [this]
end splice

/-- the spans after `insert_internal`'s loops, with the new node linked in at index `c`, are again
    the distances -/
theorem spans_after_insert {sl0 sl2 : SL} {L c h : Nat} {us : Nat → Nat} {new : Tower}
    (hs : Spans sl0 L) (hc : c ≤ sl0.towers.length)
    (hus : ∀ j, j < L → IsUpd sl0.towers c j (us j))
    (hh1 : 1 ≤ h) (hhL : h ≤ L)
    (hsame : Same sl0 sl2)
    (hsp : ∀ q j, j < L → spanAt sl2 q j =
      if q = us j then (spanAt sl0 q j).map (fun _ => if j < h then c - q + 1 else distTo j (sl0.towers.drop q) + 1)
      else spanAt sl0 q j)
    (hnew : new.ht = h ∧ ∀ j, j < h → new.spans[j]? = some (distTo j (sl0.towers.drop c)))
    (len' : Nat) :
    Spans { sl2 with towers := insertAt new sl2.towers c, length := len' } L := by
  have hc2 : c ≤ sl2.towers.length := by
    have := congrArg List.length hsame.hts; simp at this; omega
  have hT1 := hsame.hts
  -- the counterpart in the old list of a tower of the new one
  have hcounter : ∀ (k : Nat) (t : Tower), sl2.towers[k]? = some t → ∃ t0 : Tower, sl0.towers[k]? = some t0 ∧ t0.ht = t.ht := by
    intro k t hk2
    have := ht_getElem?_of_map hT1 k
    rw [hk2] at this
    cases h0 : sl0.towers[k]? with
    | none => rw [h0] at this; simp at this
    | some t0 => rw [h0] at this; simp at this; exact ⟨t0, rfl, this.symm⟩
  refine ⟨hsame.hdrLen.trans hs.hdrLen, hs.L_le, ?_, ?_, ?_⟩
  · -- header
    intro j hj
    show sl2.hdr[j]? = some (distTo j (insertAt new sl2.towers c))
    have h0 : spanAt sl2 0 j = sl2.hdr[j]? := rfl
    rw [← h0, hsp 0 j hj, insertAt_eq new _ c hc2]
    have hd := dist_after_insert (new := new) (q := 0) hT1 hc (hus j hj) (Nat.zero_le _) (Or.inl rfl) hnew.1
    simp only [List.drop_zero, Nat.sub_zero] at hd
    rw [hd]
    have hold : spanAt sl0 0 j = some (distTo j sl0.towers) := hs.hdr j hj
    rw [hold]
    by_cases hq : 0 = us j
    · rw [if_pos hq, if_pos hq]; rfl
    · rw [if_neg hq, if_neg hq]
  · -- towers
    show TowersOk (insertAt new sl2.towers c)
    rw [insertAt_eq new _ c hc2]
    intro k t hk j hj
    rw [getElem?_splice _ _ hc2] at hk
    by_cases hkc : k < c
    · -- a tower before the insertion point
      rw [if_pos hkc] at hk
      obtain ⟨t0, ht0, hht⟩ := hcounter k t hk
      rw [← spanAt_succ hk j]
      have hjL : j < L := by have := (hs.hts t0 (List.mem_of_getElem? ht0)).2; omega
      rw [hsp (k + 1) j hjL]
      have hold : spanAt sl0 (k + 1) j = some (distTo j (sl0.towers.drop (k + 1))) := by
        rw [spanAt_succ ht0 j]; exact hs.tw k t0 ht0 j (by omega)
      rw [hold, drop_splice_lt _ _ hc2 (by omega)]
      have hd := dist_after_insert (new := new) (q := k + 1) hT1 hc (hus j hjL) (by omega)
        (Or.inr ⟨t0, by simpa using ht0, by omega⟩) hnew.1
      rw [hd]
      by_cases hq : k + 1 = us j
      · rw [if_pos hq, if_pos hq]; rfl
      · rw [if_neg hq, if_neg hq]
    · rw [if_neg hkc] at hk
      by_cases hkc' : k = c
      · -- the new tower
        rw [if_pos hkc'] at hk
        have : t = new := by simpa using hk.symm
        subst this; subst hkc'
        rw [hnew.2 j (by have := hnew.1; omega), drop_splice_gt _ _ hc2 (by omega)]
        simp only [Nat.add_sub_cancel]
        congr 1
        exact distTo_congr (by rw [List.map_drop, List.map_drop, hT1])
      · -- a tower after the insertion point
        rw [if_neg hkc'] at hk
        obtain ⟨k', rfl⟩ : ∃ k', k = k' + 1 := ⟨k - 1, by omega⟩
        simp only [Nat.add_sub_cancel] at hk
        obtain ⟨t0, ht0, hht⟩ := hcounter k' t hk
        rw [← spanAt_succ hk j]
        have hjL : j < L := by have := (hs.hts t0 (List.mem_of_getElem? ht0)).2; omega
        rw [hsp (k' + 1) j hjL]
        have hne : ¬ k' + 1 = us j := by have := (hus j hjL).1; omega
        rw [if_neg hne, spanAt_succ ht0 j, hs.tw k' t0 ht0 j (by omega),
          drop_splice_gt _ _ hc2 (by omega)]
        simp only [Nat.add_sub_cancel]
        congr 1
        exact distTo_congr (by rw [List.map_drop, List.map_drop, hT1])
  · -- heights
    intro t ht
    show 1 ≤ t.ht ∧ t.ht ≤ L
    have ht' : t ∈ insertAt new sl2.towers c := ht
    rw [insertAt_eq new _ c hc2] at ht'
    rcases List.mem_append.mp ht' with h1 | h1
    · have hm : t ∈ sl2.towers := List.mem_of_mem_take h1
      obtain ⟨k, hk⟩ := List.getElem?_of_mem hm
      obtain ⟨t0, ht0, hht⟩ := hcounter k t hk
      have := hs.hts t0 (List.mem_of_getElem? ht0); omega
    · rcases List.mem_cons.mp h1 with rfl | h2
      · have := hnew.1; omega
      · have hm : t ∈ sl2.towers := List.mem_of_mem_drop h2
        obtain ⟨k, hk⟩ := List.getElem?_of_mem hm
        obtain ⟨t0, ht0, hht⟩ := hcounter k t hk
        have := hs.hts t0 (List.mem_of_getElem? ht0); omega

end RedisVerif.SkipList
