import RedisVerif.Lemmas.Conn

/-
  The command-name extractor of the shadow proxy (`Resp.proxyName`, src/bin/shadow_proxy.rs) against
  the frames a client writes.
-/
namespace RedisVerif.Resp

theorem splitCrlf_noCR : ∀ (s rest : Bytes), 13 ∉ s → splitCrlf (s ++ 13 :: 10 :: rest) = s :: splitCrlf rest := by
  intro s
  induction s with
  | nil => intro rest _; simp [splitCrlf]
  | cons x xs ih =>
    intro rest h
    simp only [List.mem_cons, not_or] at h
    have hx : x ≠ 13 := fun e => h.1 e.symm
    have := ih rest h.2
    cases hxs : xs ++ 13 :: 10 :: rest with
    | nil => simp at hxs
    | cons y ys =>
      simp only [List.cons_append, hxs]
      rw [splitCrlf]
      simp only [hx, false_and, if_false]
      rw [← hxs, this]

/-- the proxy and the server agree on the NAME of a well-formed command whose name is ASCII without
    CR (and whose buffer is UTF-8 altogether): the upper-cased first argument -/
theorem proxyName_frame (name : Bytes) (args : List Bytes) (rest : Bytes) (hcr : 13 ∉ name)
    (hu : validUtf8 (Conn.encCmd (name :: args) ++ rest) = true) :
    proxyName (Conn.encCmd (name :: args) ++ rest) = some (upperA name) := by
  have henc : Conn.encCmd (name :: args) ++ rest =
      (42 :: dec (args.length + 1)) ++ 13 :: 10 :: ((36 :: dec name.length) ++ 13 :: 10 :: (name ++ 13 :: 10 ::
        (encode2ListS true (args.map Val.bulk) ++ rest))) := by
    simp [Conn.encCmd, Conn.cmdFrame, encode2, encode2S, encode2ListS, crlf]
  unfold proxyName
  rw [hu]
  rw [henc]
  have h1 : 13 ∉ (42 :: dec (args.length + 1)) := by
    simp only [List.mem_cons, not_or]; exact ⟨by decide, dec_noCR _⟩
  have h2 : 13 ∉ (36 :: dec name.length) := by
    simp only [List.mem_cons, not_or]; exact ⟨by decide, dec_noCR _⟩
  rw [splitCrlf_noCR _ _ h1, splitCrlf_noCR _ _ h2, splitCrlf_noCR _ _ hcr]
  simp
end RedisVerif.Resp
