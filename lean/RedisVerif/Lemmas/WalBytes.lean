import RedisVerif.Lemmas.Concrete
import RedisVerif.Props.C10

/-
  Byte positions of a WAL file image: which entry and which field a position falls into, and
  what an image with ONE byte replaced is in terms of the entries (used by `Props/C10Bytes.lean`).
-/
namespace RedisVerif
namespace WalBytes

open Wal Concrete

/-- a position inside the encoded entries falls into exactly one entry -/
theorem split_pos (es : List Entry) (q : Nat) (hq : q < (encs es).length) :
    ∃ es₁ e es₂ o, es = es₁ ++ e :: es₂ ∧ q = (encs es₁).length + o ∧ o < e.encode.length := by
  induction es generalizing q with
  | nil => simp [encs] at hq
  | cons e es ih =>
    by_cases h : q < e.encode.length
    · exact ⟨[], e, es, q, rfl, by simp [encs], h⟩
    · rw [encs_cons, List.length_append] at hq
      obtain ⟨es₁, e', es₂, o, he, hq', ho⟩ := ih (q - e.encode.length) (by omega)
      refine ⟨e :: es₁, e', es₂, o, by rw [he]; rfl, ?_, ho⟩
      rw [encs_cons, List.length_append]; omega

theorem encs_set (es₁ : List Entry) (e : Entry) (es₂ : List Entry) (o v : Nat) (ho : o < e.encode.length) :
    (encs (es₁ ++ e :: es₂)).set ((encs es₁).length + o) v = encs es₁ ++ (e.encode.set o v ++ encs es₂) := by
  rw [encs_append, encs_cons, set_append_right, set_append_left _ _ _ _ ho]

theorem mem_set_lt (l : Bytes) (i v : Nat) (hl : ∀ x ∈ l, x < 256) (hv : v < 256) : ∀ x ∈ l.set i v, x < 256 := by
  intro x hx
  rcases List.mem_or_eq_of_mem_set hx with h | h
  · exact hl x h
  · rw [h]; exact hv

theorem le_bytes (k n : Nat) : ∀ x ∈ le k n, x < 256 := bytes_of_allBytes (Bincode.allBytes_le k n)

/-- a changed stamp byte: the encoding of the entry with another stamp -/
theorem encode_set_stamp (e : Entry) (j v : Nat) (hj : j < 8) (hv : v < 256) :
    let ts' := leVal ((le 8 e.ts).set j v)
    e.encode.set (4 + j) v = (Entry.mk e.data ts' e.crc).encode ∧ le 8 ts' = (le 8 e.ts).set j v ∧ ts' < 2 ^ 64 := by
  intro ts'
  have hb : ∀ x ∈ (le 8 e.ts).set j v, x < 256 := mem_set_lt _ _ _ (le_bytes 8 e.ts) hv
  have hlen : ((le 8 e.ts).set j v).length = 8 := by simp [le_length]
  have hle : le 8 ts' = (le 8 e.ts).set j v := by
    have := Codec.le_leVal _ hb
    rwa [hlen] at this
  refine ⟨?_, hle, ?_⟩
  · simp only [Entry.encode]
    rw [hle]
    have h := set_append_right (le 4 e.data.length) (le 8 e.ts ++ (le 4 e.crc ++ e.data)) j v
    rw [le_length] at h
    rw [h, set_append_left _ _ _ _ (by simp [le_length]; exact hj)]
  · have := leVal_lt _ hb
    rwa [hlen] at this

/-- a changed byte of the stored checksum: the encoding of the entry with another stored checksum -/
theorem encode_set_crc (e : Entry) (j v : Nat) (hj : j < 4) (hv : v < 256)
    (hne : (le 4 e.crc)[j]'(by simp [le_length]; exact hj) ≠ v) (hc : e.crc < 2 ^ 32) :
    let c' := leVal ((le 4 e.crc).set j v)
    e.encode.set (12 + j) v = (Entry.mk e.data e.ts c').encode ∧ c' < 2 ^ 32 ∧ c' ≠ e.crc := by
  intro c'
  have hb : ∀ x ∈ (le 4 e.crc).set j v, x < 256 := mem_set_lt _ _ _ (le_bytes 4 e.crc) hv
  have hlen : ((le 4 e.crc).set j v).length = 4 := by simp [le_length]
  have hle : le 4 c' = (le 4 e.crc).set j v := by
    have := Codec.le_leVal _ hb
    rwa [hlen] at this
  refine ⟨?_, ?_, ?_⟩
  · simp only [Entry.encode]
    rw [hle]
    have h := set_append_right (le 4 e.data.length ++ le 8 e.ts) (le 4 e.crc ++ e.data) j v
    rw [List.length_append, le_length, le_length] at h
    have h12 : (4 : Nat) + 8 = 12 := rfl
    rw [h12] at h
    rw [← List.append_assoc, h, set_append_left _ _ _ _ (by simp [le_length]; exact hj), List.append_assoc]
  · have := leVal_lt _ hb
    rw [hlen] at this
    simpa using this
  · intro heq
    apply hne
    have h1 : (le 4 c')[j]'(by simp [le_length]; exact hj) = v := by
      simp only [hle, List.getElem_set_self]
    rw [← h1]
    congr 1
    rw [heq]

/-- a changed payload byte -/
theorem encode_set_data (e : Entry) (i v : Nat) :
    e.encode.set (16 + i) v = (Entry.mk (e.data.set i v) e.ts e.crc).encode := by
  simp only [Entry.encode, List.length_set]
  have h := set_append_right (le 4 e.data.length ++ (le 8 e.ts ++ le 4 e.crc)) e.data i v
  simp only [List.length_append, le_length] at h
  have h16 : 4 + (8 + 4) = 16 := rfl
  rw [h16] at h
  have e1 : le 4 e.data.length ++ (le 8 e.ts ++ (le 4 e.crc ++ e.data))
      = (le 4 e.data.length ++ (le 8 e.ts ++ le 4 e.crc)) ++ e.data := by simp
  rw [e1, h]; simp

/-- what a reader makes of ANY 16 header bytes followed by a body -/
theorem fileEntries_hdr (fmt : Format) (crc : Bytes → Nat) (h body : Bytes) (hl : h.length = 16) :
    fileEntries fmt crc (h ++ body) =
      if h.take 4 = magic ∧ (h.drop 4).head? = some fmt.version then entries fmt crc body else [] := by
  unfold fileEntries readFile openFile
  have h1 : (h ++ body).take 4 = h.take 4 := by
    rw [List.take_append_of_le_length (by omega)]
  have h2 : ((h ++ body).drop 4).head? = (h.drop 4).head? := by
    rw [List.drop_append_of_le_length (by omega)]
    cases hd : h.drop 4 with
    | nil => have := congrArg List.length hd; simp at this; omega
    | cons x xs => rfl
  rw [if_neg (by simp [overhead]; omega), h1, h2]
  by_cases hm : h.take 4 = magic
  · by_cases hv : (h.drop 4).head? = some fmt.version
    · rw [if_neg (by simp [hm]), if_neg (by simp [hv]), if_pos ⟨hm, hv⟩]
      simp only
      have : overhead = h.length := by rw [hl]; rfl
      rw [this, List.drop_left' rfl]
    · rw [if_neg (by simp [hm]), if_pos hv, if_neg (fun h => hv h.2)]
  · rw [if_pos hm, if_neg (fun h => hm h.1)]

end WalBytes
end RedisVerif
