import RedisVerif.Lemmas.SkipListDelete2
namespace RedisVerif.SkipList
open RedisVerif RedisVerif.Redis

/-! ## the public functions of `SkipList` on a well-formed list -/

theorem zLt_irrefl (a : BS × Score) : zLt a a = false := by
  simp [zLt, Score.lt_irrefl, bsLt_irrefl]

theorem zLt_asymm {a b : BS × Score} (h : zLt a b = true) : zLt b a = false := by
  cases h' : zLt b a with
  | false => rfl
  | true => have := zLt_trans h h'; rw [zLt_irrefl] at this; cases this

/-- keys of the towers = what `iter()` yields -/
abbrev keys (sl : SL) : List (BS × Score) := sl.towers.map Tower.key

theorem iter_eq_keys (sl : SL) : iter sl = keys sl := rfl

theorem wf_new : Wf SL.new := by
  refine ⟨⟨by simp [SL.new, maxLevel], by simp [SL.new, maxLevel], ?_, ?_, ?_⟩, by simp [SL.new], Or.inl rfl, rfl, by simp [SL.new]⟩
  · intro j hj
    have : j = 0 := by simp [SL.new] at hj; omega
    subst this; simp [SL.new, distTo, maxLevel]
  · intro k t hk; simp [SL.new] at hk
  · intro t ht; simp [SL.new] at ht

/-- where a key sits in a sorted list -/
theorem cntLt_of_key {T : List Tower} (hs : T.Pairwise (fun a b => zLt a.key b.key = true))
    {i : Nat} {t : Tower} (hi : T[i]? = some t) : cntLt t.key T = i := by
  have hspec := cntLt_spec t.key hs
  have h1 : ¬ i < cntLt t.key T := by
    have := hspec i t hi
    rw [zLt_irrefl] at this
    intro h; simp [h] at this
  rcases Nat.lt_or_ge (cntLt t.key T) i with h | h
  · have hlt : cntLt t.key T < T.length := by
      have := (List.getElem?_eq_some_iff.mp hi).1; omega
    have hc := hspec (cntLt t.key T) T[cntLt t.key T] (List.getElem?_eq_getElem hlt)
    have hlt' : zLt T[cntLt t.key T].key t.key = true := by
      have := List.pairwise_iff_getElem.mp hs (cntLt t.key T) i hlt (List.getElem?_eq_some_iff.mp hi).1 h
      rw [(List.getElem?_eq_some_iff.mp hi).2] at this; exact this
    rw [hlt'] at hc; simp at hc
  · omega

/-- `insert` of a member that is not in the list -/
theorem insert_spec {lv : LevelGen} {sl : SL} (hw : Wf sl) (m : BS) (sc : Score)
    (hlv : 1 ≤ (lv sl.rng).1 ∧ (lv sl.rng).1 ≤ maxLevel)
    (hfresh : ∀ t ∈ sl.towers, t.member ≠ m) :
    ∃ sl', insert lv sl m sc = some (sl', true) ∧ Wf sl' ∧
      keys sl' = insertAt (m, sc) (keys sl) (cntLt (m, sc) sl.towers) ∧ sl'.rng = (lv sl.rng).2 := by
  obtain ⟨ur, hsearch, hlen, hur, hur0⟩ := search_spec hw m sc
  have hc := cntLt_le (m, sc) sl.towers
  have hu0 : ur[0]? = some (cntLt (m, sc) sl.towers, cntLt (m, sc) sl.towers) := by
    obtain ⟨u, hu, hupd⟩ := hur 0 hw.level_pos
    have := isUpd_zero hc (fun t ht => (hw.spans.hts t ht).1) hupd
    rw [this] at hu; exact hu
  have hbelow : ∀ k t, sl.towers[k]? = some t → k < cntLt (m, sc) sl.towers → zLt t.key (m, sc) = true := by
    intro k t hk hlt
    rw [cntLt_spec (m, sc) hw.sorted k t hk]; simp [hlt]
  have habove : ∀ k t, sl.towers[k]? = some t → cntLt (m, sc) sl.towers ≤ k → zLt (m, sc) t.key = true := by
    intro k t hk hle
    apply zLt_total_of_ne
    · exact hfresh t (List.mem_of_getElem? hk)
    · rw [cntLt_spec (m, sc) hw.sorted k t hk]; simp; omega
  obtain ⟨sl', hins, hwf, hkeys, hrng⟩ :=
    insertInternal_spec (lv := lv) hw m sc hlv hc hlen hur hur0 hbelow habove
  refine ⟨sl', ?_, hwf, hkeys, hrng⟩
  simp only [insert, hsearch, slot, hu0]
  cases ht : sl.towers[cntLt (m, sc) sl.towers]? with
  | none => simp [hins]
  | some t =>
    have : t.member ≠ m := hfresh t (List.mem_of_getElem? ht)
    simp [this, hins]

/-- `remove_with_score`: removes the tower with exactly this key when there is one -/
theorem removeWithScore_spec {sl : SL} (hw : Wf sl) (m : BS) (sc : Score) :
    ∃ sl' b, removeWithScore sl m sc = some (sl', b) ∧ Wf sl' ∧ sl'.rng = sl.rng ∧
      ((∃ i t, sl.towers[i]? = some t ∧ t.key = (m, sc) ∧ b = true ∧ keys sl' = (keys sl).eraseIdx i) ∨
       ((∀ t ∈ sl.towers, t.key ≠ (m, sc)) ∧ b = false ∧ sl' = sl)) := by
  obtain ⟨ur, hsearch, hlen, hur, hur0⟩ := search_spec hw m sc
  have hc := cntLt_le (m, sc) sl.towers
  have hu0 : ur[0]? = some (cntLt (m, sc) sl.towers, cntLt (m, sc) sl.towers) := by
    obtain ⟨u, hu, hupd⟩ := hur 0 hw.level_pos
    have := isUpd_zero hc (fun t ht => (hw.spans.hts t ht).1) hupd
    rw [this] at hu; exact hu
  -- if the key is in the list it is at index `cntLt`
  have hfind : ∀ i t, sl.towers[i]? = some t → t.key = (m, sc) → i = cntLt (m, sc) sl.towers := by
    intro i t hi hk
    have := cntLt_of_key hw.sorted hi
    rw [hk] at this; exact this.symm
  simp only [removeWithScore, hsearch, slot, hu0]
  cases ht : sl.towers[cntLt (m, sc) sl.towers]? with
  | none =>
    refine ⟨sl, false, rfl, hw, rfl, Or.inr ⟨?_, rfl, rfl⟩⟩
    intro t htm hk
    obtain ⟨i, hi⟩ := List.getElem?_of_mem htm
    have := hfind i t hi hk
    rw [this, ht] at hi; cases hi
  | some t =>
    by_cases hmatch : t.member = m ∧ t.score = sc
    · have hclt : cntLt (m, sc) sl.towers < sl.towers.length := (List.getElem?_eq_some_iff.mp ht).1
      obtain ⟨sl', hdel, hwf, hkeys, hrng⟩ := deleteNode_spec hw hclt hur
      refine ⟨sl', true, by simp [hmatch, hdel], hwf, hrng,
        Or.inl ⟨_, t, ht, by simp [Tower.key, hmatch.1, hmatch.2], rfl, hkeys⟩⟩
    · refine ⟨sl, false, by simp [hmatch], hw, rfl, Or.inr ⟨?_, rfl, rfl⟩⟩
      intro t' htm hk
      obtain ⟨i, hi⟩ := List.getElem?_of_mem htm
      have := hfind i t' hi hk
      rw [this, ht] at hi
      have : t' = t := (Option.some.inj hi).symm
      subst this
      simp only [Tower.key, Prod.mk.injEq] at hk
      exact hmatch hk

theorem goRank_eq (m : BS) (sc : Score) : goRank m sc = goLess m sc := by
  funext t a
  simp only [goRank, goLess]
  cases h : zLt t.key (m, sc) with
  | true => rfl
  | false =>
    simp only [Bool.false_or, Bool.and_eq_false_iff]
    by_cases he : t.key = (m, sc)
    · right
      have : t.member = m := by simpa [Tower.key] using (congrArg Prod.fst he)
      rw [this]; exact bsLt_irrefl m
    · left; simpa using he

/-- `rank(member, score)` = the index of that key -/
theorem rank_spec {sl : SL} (hw : Wf sl) (m : BS) (sc : Score) :
    rank sl m sc = some (match sl.towers[cntLt (m, sc) sl.towers]? with
      | some t => if t.member = m ∧ t.score = sc then some (cntLt (m, sc) sl.towers) else none
      | none => none) := by
  obtain ⟨ur, hsearch, hlen, hur, hur0⟩ := search_spec hw m sc
  have hc := cntLt_le (m, sc) sl.towers
  have hu0 : ur[0]? = some (cntLt (m, sc) sl.towers, cntLt (m, sc) sl.towers) := by
    obtain ⟨u, hu, hupd⟩ := hur 0 hw.level_pos
    have := isUpd_zero hc (fun t ht => (hw.spans.hts t ht).1) hupd
    rw [this] at hu; exact hu
  simp only [search, Option.map_eq_some_iff] at hsearch
  obtain ⟨l, hl, rfl⟩ := hsearch
  simp only [rank, goRank_eq, hl, slot, hu0]
  cases sl.towers[cntLt (m, sc) sl.towers]? with
  | none => rfl
  | some t => by_cases h : t.member = m ∧ t.score = sc <;> simp [h]

/-- `range(start, end)` = the slice of `iter()` -/
theorem range_spec {sl : SL} (hw : Wf sl) (start stop : Nat) :
    range sl start stop = some (
      if start > stop ∨ start ≥ sl.towers.length then []
      else ((keys sl).drop start).take (min stop (sl.towers.length - 1) - start + 1)) := by
  unfold range
  rw [hw.len]
  by_cases h : start > stop ∨ start ≥ sl.towers.length
  · simp only [h, if_true]
  · simp only [h, if_false]
    have hst : start ≤ sl.towers.length := by omega
    have hgo : ∀ k t, sl.towers[k]? = some t →
        (fun (_ : Tower) a => decide (a ≤ start)) t (k + 1) = decide (k + 1 ≤ start) := fun _ _ _ => rfl
    obtain ⟨l, hl, hlen, hall⟩ := descend_spec hw.spans (fun _ a => decide (a ≤ start)) start hgo
      sl.level 0 (Nat.le_refl _) (Nat.zero_le _) (Or.inl rfl)
      (fun q t _ _ hq => (hw.spans.hts t (List.mem_of_getElem? hq)).2)
    obtain ⟨u, hu, hupd, _⟩ := hall 0 hw.level_pos
    have hus : u = start := isUpd_zero hst (fun t ht => (hw.spans.hts t ht).1) hupd
    subst hus
    have hp : (pad l)[0]? = some (u, u) := by
      simp only [pad]; rw [List.getElem?_append_left (by have := hw.level_pos; omega)]; exact hu
    simp only [hl, slot, hp, keys]
    rw [List.map_take, List.map_drop]
    rfl

theorem reverse_slice {α : Type} (K : List α) (s e : Nat) (hs : s ≤ e) (he : e < K.length) :
    ((K.drop (K.length - 1 - e)).take (e - s + 1)).reverse = (K.reverse.drop s).take (e - s + 1) := by
  rw [List.drop_reverse, List.take_reverse]
  congr 1
  simp only [List.length_take]
  rw [List.drop_take]
  have h1 : min (K.length - s) K.length - (e - s + 1) = K.length - 1 - e := by omega
  rw [h1]
  congr 1
  omega

theorem revRange_spec {sl : SL} (hw : Wf sl) (start stop : Nat) :
    revRange sl start stop = some (
      if start > stop ∨ start ≥ sl.towers.length then []
      else ((((keys sl).reverse).drop start).take (min stop (sl.towers.length - 1) - start + 1))) := by
  unfold revRange
  rw [hw.len]
  by_cases h : start > stop ∨ start ≥ sl.towers.length
  · simp only [h, if_true]
  · simp only [h, if_false]
    rw [range_spec hw]
    have hn : (keys sl).length = sl.towers.length := by simp [keys]
    have h1 : ¬ (sl.towers.length - 1 - min stop (sl.towers.length - 1) > sl.towers.length - 1 - start ∨
        sl.towers.length - 1 - min stop (sl.towers.length - 1) ≥ sl.towers.length) := by omega
    simp only [h1, if_false, Option.map_some]
    congr 1
    have e1 : min (sl.towers.length - 1 - start) (sl.towers.length - 1) -
        (sl.towers.length - 1 - min stop (sl.towers.length - 1)) + 1 = min stop (sl.towers.length - 1) - start + 1 := by omega
    rw [e1, ← hn]
    exact reverse_slice (keys sl) start (min stop ((keys sl).length - 1)) (by omega) (by omega)

end RedisVerif.SkipList
