import RedisVerif.Props.C07
import RedisVerif.Lemmas.FoldACI

/-!
  The fragment of `RV.merge` on which C07 proves all three laws, as an explicit carrier that is
  closed under merge, so that `FoldACI` applies:

  `Car U kd x` :=  `x` is well-formed, has CRDT kind `kd`, and every LWW register it contains
  (the register of an LWW value under pseudo-field 0, the fields of a hash) belongs to the
  universe `U`; `UCons U` says that `U` is tie-consistent (two registers of the same field with
  the same stamp are the same register — what C08 gives for everything replicas produce).
-/
namespace RedisVerif
namespace RVCarrier

open RV

/-- the LWW registers a value contains, tagged by field (0 for a plain LWW value) -/
def regs : Crdt → List (Nat × Lww)
  | .lww r => [(0, r)]
  | .hash h => h
  | _ => []

/-- tie-consistency of a universe of registers -/
def UCons (U : List (Nat × Lww)) : Prop :=
  ∀ p ∈ U, ∀ q ∈ U, p.1 = q.1 → p.2.ts = q.2.ts → p.2 = q.2

/-- the carrier -/
def Car (U : List (Nat × Lww)) (kd : Nat) (x : RV) : Prop :=
  x.WF ∧ x.crdt.kind = kd ∧ ∀ p ∈ regs x.crdt, p ∈ U

/-- C07's `tieOk` of two values of the same kind, in terms of their registers -/
theorem tieOk_iff_regs {a b : Crdt} (sa sb : Stamp) (hk : a.kind = b.kind) :
    C07.tieOk a b sa sb = true ↔
      ∀ p ∈ regs a, ∀ q ∈ regs b, p.1 = q.1 → p.2.ts = q.2.ts → p.2 = q.2 := by
  cases a <;> cases b <;> simp [Crdt.kind] at hk <;> simp [C07.tieOk, regs, Crdt.kind]
  · rename_i x y
    constructor
    · intro h hts
      rcases h with h | h
      · exact absurd hts h
      · exact h
    · intro h
      by_cases hts : x.ts = y.ts
      · exact Or.inr (h hts)
      · exact Or.inl hts
  · rename_i x y
    constructor
    · intro h k1 v1 h1 k2 v2 h2 hk hts
      have := h k1 v1 h1 k2 v2 h2
      rcases this with h' | h'
      · rcases h' with h'' | h''
        · exact absurd hk h''
        · exact absurd hts h''
      · exact h'
    · intro h k1 v1 h1 k2 v2 h2
      by_cases hk : k1 = k2
      · by_cases hts : v1.ts = v2.ts
        · exact Or.inr (h k1 v1 h1 k2 v2 h2 hk hts)
        · exact Or.inl (Or.inr hts)
      · exact Or.inl (Or.inl hk)

theorem lww_merge_mem (x y : Lww) : Lww.merge x y = x ∨ Lww.merge x y = y := by
  unfold Lww.merge
  split
  · exact Or.inr rfl
  · exact Or.inl rfl

/-- merging two values of the same kind creates no new register -/
theorem regs_mwt_subset {a b : Crdt} (sa sb : Stamp) (ha : a.WF) (hb : b.WF)
    (hk : a.kind = b.kind) :
    ∀ p ∈ regs (Crdt.mergeWithTimestamps a b sa sb), p ∈ regs a ∨ p ∈ regs b := by
  cases a <;> cases b <;> simp [Crdt.kind] at hk <;>
    simp only [Crdt.mergeWithTimestamps, Crdt.tryMerge, regs, Crdt.WF] at *
  · rename_i x y
    intro p hp
    simp only [List.mem_singleton] at hp
    rcases lww_merge_mem x y with h | h
    · left; rw [hp, h]; simp
    · right; rw [hp, h]; simp
  · intro p hp; cases hp
  · intro p hp; cases hp
  · intro p hp; cases hp
  · intro p hp; cases hp
  · rename_i x y
    intro p hp
    obtain ⟨k, v⟩ := p
    have hg := Crdt.get_of_mem (NMap.wf_merge ha hb) hp
    rw [NMap.get_merge ha hb] at hg
    simp only at hg
    cases hx : NMap.get x k <;> cases hy : NMap.get y k <;> simp only [hx, hy, optMerge] at hg
    · cases hg
    · right; cases hg; exact Crdt.mem_of_get hy
    · left; cases hg; exact Crdt.mem_of_get hx
    · rename_i u w
      cases hg
      rcases lww_merge_mem u w with h | h
      · left; rw [h]; exact Crdt.mem_of_get hx
      · right; rw [h]; exact Crdt.mem_of_get hy

theorem kind_mwt {a b : Crdt} (sa sb : Stamp) (hk : a.kind = b.kind) :
    (Crdt.mergeWithTimestamps a b sa sb).kind = a.kind := by
  cases a <;> cases b <;> simp [Crdt.kind] at hk <;>
    simp [Crdt.mergeWithTimestamps, Crdt.tryMerge, Crdt.kind]

/-- the carrier is closed under merge -/
theorem car_merge {U : List (Nat × Lww)} {kd : Nat} {a b : RV} (ha : Car U kd a) (hb : Car U kd b) :
    Car U kd (merge a b) := by
  obtain ⟨wa, ka, ra⟩ := ha
  obtain ⟨wb, kb, rb⟩ := hb
  have hk : a.crdt.kind = b.crdt.kind := by rw [ka, kb]
  refine ⟨C07.rv_merge_wf wa wb, ?_, ?_⟩
  · show (Crdt.mergeWithTimestamps a.crdt b.crdt a.ts b.ts).kind = kd
    rw [kind_mwt _ _ hk, ka]
  · intro p hp
    rcases regs_mwt_subset a.ts b.ts wa.1 wb.1 hk p hp with h | h
    · exact ra p h
    · exact rb p h

/-- any two members of the carrier over a consistent universe are tie-consistent -/
theorem car_tie {U : List (Nat × Lww)} {kd : Nat} (hU : UCons U) {a b : RV}
    (ha : Car U kd a) (hb : Car U kd b) : C07.TieConsistent a b := by
  unfold C07.TieConsistent
  rw [tieOk_iff_regs a.ts b.ts (by rw [ha.2.1, hb.2.1])]
  intro p hp q hq
  exact hU p (ha.2.2 p hp) q (hb.2.2 q hq)

/-- **`RV.merge` is ACI on the carrier** (instance of C07's three laws) -/
theorem aci {U : List (Nat × Lww)} (kd : Nat) (hU : UCons U) : FoldACI.ACI RV.merge (Car U kd) where
  closed := fun _ _ ha hb => car_merge ha hb
  comm := fun a b ha hb => C07.rv_merge_comm a b ha.1 hb.1 (car_tie hU ha hb)
  assoc := fun a b c ha hb hc =>
    C07.rv_merge_assoc_partial a b c ha.1 hb.1 hc.1
      ⟨by rw [ha.2.1, hb.2.1], by rw [hb.2.1, hc.2.1]⟩
  idem := fun a ha => C07.rv_merge_idem a ha.1

end RVCarrier
end RedisVerif
