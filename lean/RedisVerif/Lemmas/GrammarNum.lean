import RedisVerif.Model.Grammar

/-
  Numeric literals: the digit loop of `from_str_radix`, `takeDigits`, decimal values.
  Used by `Props/C16Num.lean` (accepted language and value of `str::parse::<i64 / u64 / usize / f64>`
  as the grammar model reads them).
-/
namespace RedisVerif.Grammar

def isDigit (c : Nat) : Bool := 48 ≤ c && c ≤ 57

/-- every byte is an ASCII digit -/
def isDigits (s : Bytes) : Bool := s.all isDigit

/-- the decimal value of a digit string, most significant digit first -/
def decVal (s : Bytes) : Nat := s.foldl (fun a c => a * 10 + (c - 48)) 0

theorem digitVal_some {c : Nat} : (digitVal c).isSome = isDigit c := by
  unfold digitVal isDigit
  split <;> simp_all

theorem digitVal_eq {c d : Nat} (h : digitVal c = some d) : isDigit c = true ∧ d = c - 48 := by
  unfold digitVal at h
  unfold isDigit
  split at h
  · simp only [Option.some.injEq] at h; exact ⟨by assumption, h.symm⟩
  · simp at h

theorem digitVal_of_isDigit {c : Nat} (h : isDigit c = true) : digitVal c = some (c - 48) := by
  unfold digitVal
  unfold isDigit at h
  simp [h]

theorem foldl_dec (ds : Bytes) (acc : Nat) :
    ds.foldl (fun a c => a * 10 + (c - 48)) acc = acc * 10 ^ ds.length + decVal ds := by
  induction ds generalizing acc with
  | nil => simp [decVal]
  | cons d ds ih =>
    simp only [List.foldl_cons, List.length_cons, decVal]
    rw [ih, ih (0 * 10 + (d - 48))]
    simp only [Nat.zero_mul, Nat.zero_add, Nat.pow_succ]
    rw [Nat.add_mul, Nat.mul_assoc, Nat.mul_comm 10, Nat.add_assoc]

theorem decVal_cons (d : Nat) (ds : Bytes) : decVal (d :: ds) = (d - 48) * 10 ^ ds.length + decVal ds := by
  have := foldl_dec ds (0 * 10 + (d - 48))
  simpa [decVal] using this

/-- the digit loop succeeds exactly on digit strings whose value (continued from `acc`) fits:
    the accumulator only grows, so "every prefix fits" is "the whole fits" -/
theorem scanDigits_ok_iff (max : Nat) (ds : Bytes) (acc n : Nat) :
    scanDigits max acc ds = .ok n ↔
      (isDigits ds = true ∧ n = acc * 10 ^ ds.length + decVal ds ∧ (ds = [] ∨ n ≤ max)) := by
  induction ds generalizing acc with
  | nil => simp [scanDigits, isDigits, decVal, eq_comm]
  | cons d ds ih =>
    simp only [scanDigits, isDigits, List.all_cons, Bool.and_eq_true, List.length_cons, reduceCtorEq, false_or]
    cases hd : digitVal d with
    | none =>
      have : isDigit d = false := by rw [← digitVal_some, hd]; rfl
      simp [this]
    | some v =>
      obtain ⟨hdig, hv⟩ := digitVal_eq hd
      subst hv
      simp only [hdig, true_and]
      have hval : (acc * 10 + (d - 48)) * 10 ^ ds.length + decVal ds = acc * 10 ^ (ds.length + 1) + decVal (d :: ds) := by
        rw [decVal_cons, Nat.pow_succ, Nat.add_mul, Nat.mul_assoc, Nat.mul_comm 10, Nat.add_assoc]
      have hmono : acc * 10 + (d - 48) ≤ (acc * 10 + (d - 48)) * 10 ^ ds.length + decVal ds := by
        have : 1 ≤ 10 ^ ds.length := Nat.pow_pos (by omega)
        calc acc * 10 + (d - 48) = (acc * 10 + (d - 48)) * 1 := by omega
          _ ≤ (acc * 10 + (d - 48)) * 10 ^ ds.length := Nat.mul_le_mul_left _ this
          _ ≤ _ := Nat.le_add_right _ _
      by_cases hov : acc * 10 + (d - 48) > max
      · simp only [hov, if_true, reduceCtorEq, false_iff, not_and]
        intro _ hn
        rw [← hval] at hn
        omega
      · simp only [hov, if_false]
        rw [ih, hval]
        constructor
        · rintro ⟨h1, h2, h3⟩
          refine ⟨h1, h2, ?_⟩
          rcases h3 with rfl | h3
          · rw [h2, ← hval]
            simp only [List.length_nil, Nat.pow_zero, Nat.mul_one, decVal, List.foldl_nil, Nat.add_zero]
            omega
          · exact h3
        · rintro ⟨h1, h2, h3⟩
          exact ⟨h1, h2, Or.inr h3⟩

/-- the loop fails with `invalid` exactly when a non-digit comes before any overflow -/
theorem scanDigits_error_cases (max : Nat) (ds : Bytes) (acc : Nat) (e : IntErr) (h : scanDigits max acc ds = .error e) :
    e = .invalid ∨ e = .overflow := by
  induction ds generalizing acc with
  | nil => simp [scanDigits] at h
  | cons d ds ih =>
    simp only [scanDigits] at h
    cases hd : digitVal d with
    | none => rw [hd] at h; simp only [Except.error.injEq] at h; exact Or.inl h.symm
    | some v =>
      rw [hd] at h
      simp only at h
      split at h
      · simp only [Except.error.injEq] at h; exact Or.inr h.symm
      · exact ih _ h

theorem isDigits_append (a b : Bytes) : isDigits (a ++ b) = (isDigits a && isDigits b) := by
  simp [isDigits, List.all_append]

/-- `takeDigits` splits off the longest digit prefix -/
theorem takeDigits_spec (s : Bytes) :
    isDigits (takeDigits s).1 = true ∧ (takeDigits s).1 ++ (takeDigits s).2 = s ∧
    (∀ c r, (takeDigits s).2 = c :: r → isDigit c = false) := by
  induction s with
  | nil => simp [takeDigits, isDigits]
  | cons c cs ih =>
    simp only [takeDigits]
    by_cases hc : (48 ≤ c && c ≤ 57) = true
    · simp only [hc, if_true]
      obtain ⟨h1, h2, h3⟩ := ih
      refine ⟨?_, ?_, h3⟩
      · simp only [isDigits, List.all_cons, Bool.and_eq_true] at h1 ⊢
        exact ⟨by simpa [isDigit] using hc, h1⟩
      · simp [h2]
    · simp only [hc, Bool.false_eq_true, if_false, isDigits, List.all_nil, List.nil_append, true_and]
      intro c' r h
      simp only [List.cons.injEq] at h
      rw [← h.1]
      simpa [isDigit] using hc

/-- on `digits ++ rest` with `rest` not starting with a digit, `takeDigits` returns exactly the two parts -/
theorem takeDigits_append (ds rest : Bytes) (hd : isDigits ds = true) (hr : ∀ c r, rest = c :: r → isDigit c = false) :
    takeDigits (ds ++ rest) = (ds, rest) := by
  induction ds with
  | nil =>
    cases rest with
    | nil => rfl
    | cons c r =>
      have := hr c r rfl
      simp only [isDigit] at this
      simp [takeDigits, this]
  | cons d ds ih =>
    simp only [isDigits, List.all_cons, Bool.and_eq_true] at hd
    have hd1 : (48 ≤ d && d ≤ 57) = true := by simpa [isDigit] using hd.1
    simp only [List.cons_append, takeDigits, hd1, if_true, ih hd.2]

end RedisVerif.Grammar
