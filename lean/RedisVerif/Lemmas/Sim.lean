import RedisVerif.Model.SimRng
import RedisVerif.Model.SimKernel
import RedisVerif.Model.SimHarness

/-!
Helper lemmas for C20: sampling bounds, shuffles are permutations, sorted timer list.
-/
namespace RedisVerif
namespace SimLemmas
open SimRng SimKernel

/-! ## widening-multiply sampling -/

theorem mulhi_lt (v range : Nat) (hv : v < 2 ^ 64) (hr : 0 < range) : v * range / 2 ^ 64 < range := by
  apply Nat.div_lt_of_lt_mul
  exact Nat.mul_lt_mul_of_pos_right hv hr

theorem mulhi_lt32 (v range : Nat) (hv : v < 2 ^ 32) (hr : 0 < range) : v * range / 2 ^ 32 < range := by
  apply Nat.div_lt_of_lt_mul
  exact Nat.mul_lt_mul_of_pos_right hv hr

theorem sampleLoop64_bounds (low range : Nat) (hr : 0 < range) :
    ∀ (fuel : Nat) (r r' : Rng) (v : Nat),
      sampleLoop64 low range fuel r = (.ok v, r') → low ≤ v ∧ v < low + range := by
  intro fuel
  induction fuel with
  | zero => intro r r' v h; simp [sampleLoop64] at h
  | succ n ih =>
    intro r r' v h
    simp only [sampleLoop64] at h
    split at h
    · simp only [Prod.mk.injEq, Draw.ok.injEq] at h
      obtain ⟨hv, _⟩ := h
      have := mulhi_lt (r.nextU64.1.toNat) range (UInt64.toNat_lt _) hr
      omega
    · exact ih _ _ _ h

theorem sampleLoop32_bounds (low range : Nat) (hr : 0 < range) :
    ∀ (fuel : Nat) (r r' : Rng) (v : Nat),
      sampleLoop32 low range fuel r = (.ok v, r') → low ≤ v ∧ v < low + range := by
  intro fuel
  induction fuel with
  | zero => intro r r' v h; simp [sampleLoop32] at h
  | succ n ih =>
    intro r r' v h
    simp only [sampleLoop32] at h
    split at h
    · simp only [Prod.mk.injEq, Draw.ok.injEq] at h
      obtain ⟨hv, _⟩ := h
      have := mulhi_lt32 (r.nextU32.1.toNat) range (UInt32.toNat_lt _) hr
      omega
    · exact ih _ _ _ h

/-- `n` consecutive words of the stream are all rejected for `range` -/
def rejects64 (range : Nat) : Nat → Rng → Prop
  | 0, _ => True
  | n + 1, r => ¬ (r.nextU64.1.toNat * range % 2 ^ 64 ≤ zone 64 range) ∧ rejects64 range n r.nextU64.2

theorem sampleLoop64_fuel_iff (low range : Nat) :
    ∀ (fuel : Nat) (r : Rng), (sampleLoop64 low range fuel r).1 = .fuel ↔ rejects64 range fuel r := by
  intro fuel
  induction fuel with
  | zero => intro r; simp [sampleLoop64, rejects64]
  | succ n ih =>
    intro r
    simp only [sampleLoop64, rejects64]
    split
    · rename_i h; simp [h]
    · rename_i h; simp [h, ih]

/-! ## the acceptance zone covers at least half of the words -/

theorem log2_bounds (n : Nat) (h : n ≠ 0) : 2 ^ n.log2 ≤ n ∧ n < 2 ^ (n.log2 + 1) :=
  ⟨Nat.log2_self_le h, Nat.lt_log2_self⟩

theorem zone_ge_half (range : Nat) (h0 : 0 < range) (h : range < 2 ^ 64) :
    2 ^ 63 ≤ zone 64 range + 1 ∧ zone 64 range < 2 ^ 64 := by
  have hb := log2_bounds range (by omega)
  have hlog : range.log2 < 64 := by
    rcases Nat.lt_or_ge range.log2 64 with h' | h'
    · exact h'
    · have : 2 ^ 64 ≤ 2 ^ range.log2 := Nat.pow_le_pow_right (by omega) h'
      omega
  unfold zone lz
  have e : 2 ^ 63 = 2 ^ range.log2 * 2 ^ (64 - 1 - range.log2) := by
    rw [← Nat.pow_add]; congr 1; omega
  have e2 : 2 ^ 64 = 2 ^ (range.log2 + 1) * 2 ^ (64 - 1 - range.log2) := by
    rw [← Nat.pow_add]; congr 1; omega
  have hp : 0 < 2 ^ (64 - 1 - range.log2) := Nat.pow_pos (by omega)
  have h1 : 2 ^ range.log2 * 2 ^ (64 - 1 - range.log2) ≤ range * 2 ^ (64 - 1 - range.log2) :=
    Nat.mul_le_mul_right _ hb.1
  have h2 : range * 2 ^ (64 - 1 - range.log2) < 2 ^ (range.log2 + 1) * 2 ^ (64 - 1 - range.log2) :=
    Nat.mul_lt_mul_of_pos_right hb.2 hp
  omega

/-! ## shuffles are permutations -/

theorem swapAt_perm {α} (a : Array α) (i j : Nat) : (swapAt a i j).Perm a := by
  unfold swapAt
  rw [Array.swapIfInBounds_def]
  split
  · split
    · exact Array.swap_perm _ _
    · exact Array.Perm.refl _
  · exact Array.Perm.refl _

theorem detShuffleLoop_perm {α} : ∀ (n : Nat) (a : Array α) (r : Rng), (detShuffleLoop n a r).1.Perm a := by
  intro n
  induction n with
  | zero => intro a r; exact Array.Perm.refl _
  | succ n ih =>
    intro a r
    simp only [detShuffleLoop]
    exact Array.Perm.trans (ih _ _) (swapAt_perm _ _ _)

theorem simShuffleLoop_perm {α} : ∀ (n : Nat) (a b : Array α) (r r' : Rng),
    simShuffleLoop n a r = (.ok b, r') → b.Perm a := by
  intro n
  induction n with
  | zero =>
    intro a b r r' h
    simp only [simShuffleLoop, Prod.mk.injEq, Draw.ok.injEq] at h
    rw [← h.1]
  | succ n ih =>
    intro a b r r' h
    simp only [simShuffleLoop] at h
    split at h
    · simp at h
    · exact Array.Perm.trans (ih _ _ _ _ h) (swapAt_perm _ _ _)

/-! ## the timer list -/

def keyLe (a b : Nat × Nat) : Prop := a.1 < b.1 ∨ (a.1 = b.1 ∧ a.2 ≤ b.2)

theorem keyLt_false_le {x y : Nat × Nat} (h : keyLt x y = false) : keyLe y x := by
  unfold keyLt at h
  unfold keyLe
  simp only [Bool.or_eq_false_iff, decide_eq_false_iff_not, Bool.and_eq_false_imp, beq_iff_eq] at h
  omega

theorem keyLt_true_le {x y : Nat × Nat} (h : keyLt x y = true) : keyLe x y := by
  unfold keyLt at h
  unfold keyLe
  simp only [Bool.or_eq_true, decide_eq_true_eq, Bool.and_eq_true, beq_iff_eq] at h
  omega

theorem keyLe_trans {a b c : Nat × Nat} (h1 : keyLe a b) (h2 : keyLe b c) : keyLe a c := by
  unfold keyLe at *; omega

theorem keyLe_antisymm {a b : Nat × Nat} (h1 : keyLe a b) (h2 : keyLe b a) : a = b := by
  unfold keyLe at *
  have : a.1 = b.1 ∧ a.2 = b.2 := by omega
  exact Prod.ext this.1 this.2

theorem insertSorted_perm (x : Nat × Nat) : ∀ l, (insertSorted x l).Perm (x :: l)
  | [] => List.Perm.refl _
  | y :: ys => by
    simp only [insertSorted]
    split
    · exact List.Perm.refl _
    · exact (List.Perm.cons y (insertSorted_perm x ys)).trans (List.Perm.swap x y ys)

theorem insertSorted_mem (x y : Nat × Nat) (l) : y ∈ insertSorted x l ↔ y = x ∨ y ∈ l := by
  rw [(insertSorted_perm x l).mem_iff]; simp

theorem insertSorted_sorted (x : Nat × Nat) : ∀ l, l.Pairwise keyLe → (insertSorted x l).Pairwise keyLe
  | [], _ => by simp [insertSorted]
  | y :: ys, h => by
    simp only [insertSorted]
    have hy := List.pairwise_cons.mp h
    split
    · rename_i hlt
      refine List.pairwise_cons.mpr ⟨?_, h⟩
      intro z hz
      rcases List.mem_cons.mp hz with rfl | hz
      · exact keyLt_true_le hlt
      · exact keyLe_trans (keyLt_true_le hlt) (hy.1 z hz)
    · rename_i hlt
      refine List.pairwise_cons.mpr ⟨?_, insertSorted_sorted x ys hy.2⟩
      intro z hz
      rcases (insertSorted_mem x z ys).mp hz with rfl | hz
      · exact keyLt_false_le (by simpa using hlt)
      · exact hy.1 z hz

/-- the timer list built by inserting `l` one by one -/
def buildTimers (l : List (Nat × Nat)) : List (Nat × Nat) := l.foldl (fun acc x => insertSorted x acc) []

theorem foldl_insertSorted_perm (l : List (Nat × Nat)) :
    ∀ acc, (l.foldl (fun acc x => insertSorted x acc) acc).Perm (l ++ acc) := by
  induction l with
  | nil => intro acc; exact List.Perm.refl _
  | cons x xs ih =>
    intro acc
    simp only [List.foldl_cons]
    refine (ih _).trans ?_
    refine ((insertSorted_perm x acc).append_left xs).trans ?_
    simp

theorem foldl_insertSorted_sorted (l : List (Nat × Nat)) :
    ∀ acc, acc.Pairwise keyLe → (l.foldl (fun acc x => insertSorted x acc) acc).Pairwise keyLe := by
  induction l with
  | nil => intro acc h; exact h
  | cons x xs ih => intro acc h; exact ih _ (insertSorted_sorted x acc h)

theorem buildTimers_perm_invariant (l l' : List (Nat × Nat)) (h : l.Perm l') :
    buildTimers l = buildTimers l' := by
  unfold buildTimers
  refine List.Perm.eq_of_pairwise (le := keyLe) (fun a b _ _ h1 h2 => keyLe_antisymm h1 h2)
    (foldl_insertSorted_sorted l [] List.Pairwise.nil) (foldl_insertSorted_sorted l' [] List.Pairwise.nil) ?_
  have p1 := foldl_insertSorted_perm l []
  have p2 := foldl_insertSorted_perm l' []
  simp only [List.append_nil] at p1 p2
  exact p1.trans (h.trans p2.symm)

/-! ## sorting node ids -/

open SimHarness in
theorem insNat_perm (x : Nat) : ∀ l, (insNat x l).Perm (x :: l)
  | [] => List.Perm.refl _
  | y :: ys => by
    simp only [insNat]
    split
    · exact List.Perm.refl _
    · exact (List.Perm.cons y (insNat_perm x ys)).trans (List.Perm.swap x y ys)

open SimHarness in
theorem insNat_sorted (x : Nat) : ∀ l, l.Pairwise (· ≤ ·) → (insNat x l).Pairwise (· ≤ ·)
  | [], _ => by simp [insNat]
  | y :: ys, h => by
    simp only [insNat]
    have hy := List.pairwise_cons.mp h
    split
    · rename_i hle
      refine List.pairwise_cons.mpr ⟨?_, h⟩
      intro z hz
      rcases List.mem_cons.mp hz with rfl | hz
      · exact hle
      · exact Nat.le_trans hle (hy.1 z hz)
    · rename_i hle
      refine List.pairwise_cons.mpr ⟨?_, insNat_sorted x ys hy.2⟩
      intro z hz
      rcases List.mem_cons.mp (((insNat_perm x ys).mem_iff).mp hz) with rfl | hz
      · omega
      · exact hy.1 z hz

open SimHarness in
theorem sortNat_perm : ∀ l, (sortNat l).Perm l
  | [] => List.Perm.refl _
  | x :: xs => by
    simp only [sortNat, List.foldr_cons]
    exact (insNat_perm x _).trans (List.Perm.cons x (sortNat_perm xs))

open SimHarness in
theorem sortNat_sorted : ∀ l, (sortNat l).Pairwise (· ≤ ·)
  | [] => List.Pairwise.nil
  | x :: xs => by
    simp only [sortNat, List.foldr_cons]
    exact insNat_sorted x _ (sortNat_sorted xs)

open SimHarness in
/-- sorting forgets the order of its input -/
theorem sortNat_perm_invariant (l l' : List Nat) (h : l.Perm l') : sortNat l = sortNat l' :=
  List.Perm.eq_of_pairwise (le := (· ≤ ·)) (fun _ _ _ _ h1 h2 => Nat.le_antisymm h1 h2)
    (sortNat_sorted l) (sortNat_sorted l') ((sortNat_perm l).trans (h.trans (sortNat_perm l').symm))

end SimLemmas
end RedisVerif
