import RedisVerif.Lemmas.WalSource
import RedisVerif.Lemmas.Concrete

/-!
  Glue between the three WAL models for `Props/C09Compose.lean`: messages that carry DELTAS
  (`DEv`), the entries `from_delta` makes of them (`entryOf`, byte-exact bincode + CRC-32),
  `recover_entries_after` over images all of whose entries were written (`recoverAfter_written`), and
  the bookkeeping that every ack belongs to a `write_durable` call of the history (`ackSrc_run`).
-/
namespace RedisVerif
namespace C09

open Wal Bincode Driver Concrete

/-- `WalEntry::from_delta(&delta, timestamp)`: payload = bincode of the delta, checksum =
    CRC-32 of `data_length | timestamp | data` -/
def entryOf (d : WDelta) (ts : Nat) : Entry := Entry.mk' .v2 crc32 (delta.enc d) ts

/-- the delta is representable (`delta.ok`: strings are UTF-8, integers fit their widths), its
    encoding fits the u32 length field of a WAL entry, the stamp is a u64 -/
def DeltaFits (d : WDelta) (ts : Nat) : Prop := delta.ok d ∧ ts < 2 ^ 64 ∧ (delta.enc d).length < 2 ^ 32

theorem entryOf_good (d : WDelta) (ts : Nat) (h : DeltaFits d ts) : (entryOf d ts).Good .v2 crc32 := by
  obtain ⟨hd, hts, hlen⟩ := h
  refine ⟨⟨hlen, hts, ?_⟩, rfl, fun _ => enc_ne_nil lawful_delta d⟩
  exact Crc.crc32_lt _ (bytes_of_allBytes (allBytes_covered .v2 _ _ _ (lawful_delta.enc_bytes d hd)))

/-- a mailbox event whose `Write`s carry DELTAS, as `WalMessage::Write { delta, timestamp, ack_tx }`
    does (`ack_tx = Some` for `write_durable`, `None` for `write_fire_and_forget`); `reopen` = end of
    this actor incarnation (clean shutdown or machine crash) and `WalRotator::new` over what is left -/
inductive DEv where
  | write (id : Nat) (d : WDelta) (ts : Nat)
  | forget (id : Nat) (d : WDelta) (ts : Nat)
  | tick
  | truncate (T : Nat)
  | flush
  | reopen (crash : Bool)

/-- the event of the byte-level actor model: the actor serialises the delta first -/
def DEv.toEv : DEv → Ev
  | .write id d ts => .write ⟨id, delta.enc d, ts⟩
  | .forget id d ts => .forget ⟨id, delta.enc d, ts⟩
  | .tick => .tick
  | .truncate T => .truncate T
  | .flush => .flush
  | .reopen c => .reopen c false

/-- (delta, stamp) of every `Write` message of the history -/
def writesOf : List DEv → List (WDelta × Nat)
  | [] => []
  | .write _ d ts :: r => (d, ts) :: writesOf r
  | .forget _ d ts :: r => (d, ts) :: writesOf r
  | _ :: r => writesOf r

/-- (id, delta, stamp) of every `write_durable` call of the history -/
def durableWritesOf : List DEv → List (Nat × WDelta × Nat)
  | [] => []
  | .write id d ts :: r => (id, d, ts) :: durableWritesOf r
  | _ :: r => durableWritesOf r

/-- the entries the history hands to `WalRotator::append` -/
def Written (devs : List DEv) (e : Entry) : Prop := ∃ p ∈ writesOf devs, e = entryOf p.1 p.2

theorem mem_writesOf_write {devs : List DEv} {id : Nat} {d : WDelta} {ts : Nat}
    (h : DEv.write id d ts ∈ devs ∨ DEv.forget id d ts ∈ devs) : (d, ts) ∈ writesOf devs := by
  induction devs with
  | nil => rcases h with h | h <;> cases h
  | cons ev r ih =>
    have hr : (DEv.write id d ts ∈ r ∨ DEv.forget id d ts ∈ r) → (d, ts) ∈ writesOf (ev :: r) := by
      intro h'
      have := ih h'
      cases ev <;> simp only [writesOf, List.mem_cons] <;> first | exact Or.inr this | exact this
    rcases h with h | h
    · rcases List.mem_cons.mp h with rfl | h'
      · simp [writesOf]
      · exact hr (Or.inl h')
    · rcases List.mem_cons.mp h with rfl | h'
      · simp [writesOf]
      · exact hr (Or.inr h')

theorem from_written (devs : List DEv) : ∀ ev ∈ devs.map DEv.toEv, Ev.From .v2 crc32 (Written devs) ev := by
  intro ev hev
  obtain ⟨dev, hdev, rfl⟩ := List.mem_map.mp hev
  cases dev with
  | write id d ts => exact ⟨(d, ts), mem_writesOf_write (Or.inl hdev), rfl⟩
  | forget id d ts => exact ⟨(d, ts), mem_writesOf_write (Or.inr hdev), rfl⟩
  | tick => trivial
  | truncate T => trivial
  | flush => trivial
  | reopen c => trivial

theorem ok_of_fits (devs : List DEv) (hfit : ∀ p ∈ writesOf devs, DeltaFits p.1 p.2) :
    ∀ ev ∈ devs.map DEv.toEv, ev.Ok .v2 crc32 := by
  intro ev hev
  obtain ⟨dev, hdev, rfl⟩ := List.mem_map.mp hev
  cases dev with
  | write id d ts =>
    have hg := entryOf_good d ts (hfit (d, ts) (mem_writesOf_write (Or.inl hdev)))
    exact ⟨hg.1, hg.2.2⟩
  | forget id d ts =>
    have hg := entryOf_good d ts (hfit (d, ts) (mem_writesOf_write (Or.inr hdev)))
    exact ⟨hg.1, hg.2.2⟩
  | tick => trivial
  | truncate T => trivial
  | flush => trivial
  | reopen c => rfl

theorem written_good (devs : List DEv) (hfit : ∀ p ∈ writesOf devs, DeltaFits p.1 p.2) :
    ∀ e, Written devs e → e.Good .v2 crc32 := by
  rintro e ⟨p, hp, rfl⟩
  exact entryOf_good p.1 p.2 (hfit p hp)

/-! ## `recover_entries_after` over entries that were all made by `from_delta` -/

theorem allSome_of_forall {α β : Type} (f : α → Option β) (l : List α) (h : ∀ a ∈ l, ∃ b, f a = some b) :
    ∃ bs, allSome f l = some bs ∧ (∀ a ∈ l, ∀ b, f a = some b → b ∈ bs) ∧ (∀ b ∈ bs, ∃ a ∈ l, f a = some b) := by
  induction l with
  | nil => exact ⟨[], rfl, (fun _ ha => by cases ha), (fun _ hb => by cases hb)⟩
  | cons x xs ih =>
    obtain ⟨b, hb⟩ := h x (by simp)
    obtain ⟨bs, hbs, h1, h2⟩ := ih (fun a ha => h a (List.mem_cons_of_mem _ ha))
    refine ⟨b :: bs, by simp only [allSome, hb, hbs], ?_, ?_⟩
    · intro a ha b' hb'
      rcases List.mem_cons.mp ha with rfl | ha
      · rw [hb] at hb'; cases hb'; simp
      · exact List.mem_cons_of_mem _ (h1 a ha b' hb')
    · intro b' hb'
      rcases List.mem_cons.mp hb' with rfl | hb'
      · exact ⟨x, by simp, hb⟩
      · obtain ⟨a, ha, hfa⟩ := h2 b' hb'
        exact ⟨a, List.mem_cons_of_mem _ ha, hfa⟩

theorem deDelta_entryOf (d : WDelta) (ts : Nat) (h : DeltaFits d ts) : deDelta (entryOf d ts).data = some d :=
  deDelta_enc d h.1

/-- `recover_entries_after(T)` over an image all of whose recovered entries were written: it
    succeeds, returns the delta of every recovered entry stamped `≥ T`, and nothing else -/
theorem recoverAfter_written (devs : List DEv) (hfit : ∀ p ∈ writesOf devs, DeltaFits p.1 p.2)
    (img : Image) (himg : ∀ e ∈ recoverAll .v2 crc32 img, Written devs e) (T : Nat) :
    ∃ ds, recoverAfter .v2 crc32 deDelta T img = some ds ∧
      (∀ d ts, entryOf d ts ∈ recoverAll .v2 crc32 img → DeltaFits d ts → T ≤ ts → d ∈ ds) ∧
      (∀ d ∈ ds, ∃ ts, (d, ts) ∈ writesOf devs ∧ T ≤ ts ∧ entryOf d ts ∈ recoverAll .v2 crc32 img) := by
  unfold recoverAfter
  have hall : ∀ e ∈ (recoverAll .v2 crc32 img).filter (fun e => decide (T ≤ e.ts)),
      ∃ d, deDelta e.data = some d := by
    intro e he
    obtain ⟨p, hp, rfl⟩ := himg e (List.mem_filter.mp he).1
    exact ⟨p.1, deDelta_entryOf p.1 p.2 (hfit p hp)⟩
  obtain ⟨ds, hds, h1, h2⟩ := allSome_of_forall (fun (e : Entry) => deDelta e.data) _ hall
  refine ⟨ds, hds, ?_, ?_⟩
  · intro d ts hmem hf hT
    exact h1 (entryOf d ts) (List.mem_filter.mpr ⟨hmem, decide_eq_true hT⟩) d
      (deDelta_entryOf d ts hf)
  · intro d hd
    obtain ⟨e, he, hde⟩ := h2 d hd
    obtain ⟨hmem, hts⟩ := List.mem_filter.mp he
    obtain ⟨p, hp, rfl⟩ := himg e hmem
    have : deDelta (entryOf p.1 p.2).data = some p.1 := deDelta_entryOf p.1 p.2 (hfit p hp)
    rw [this] at hde
    cases hde
    exact ⟨p.2, hp, of_decide_eq_true hts, hmem⟩

/-! ## the acks are the acks of the `write_durable` calls -/

/-- every ack sent or pending belongs to a `write_durable` call of the history: same id, and the
    entry recorded for it is `from_delta` of that call's delta and stamp -/
def AckSrc (devs : List DEv) (a : Actor) : Prop :=
  (∀ r ∈ a.acks, ∃ q ∈ durableWritesOf devs, r.id = q.1 ∧ r.entry = entryOf q.2.1 q.2.2) ∧
  (∀ p ∈ a.pending, ∃ q ∈ durableWritesOf devs, p.1 = q.1 ∧ p.2 = entryOf q.2.1 q.2.2)

theorem mem_durableWritesOf {devs : List DEv} {id : Nat} {d : WDelta} {ts : Nat}
    (h : DEv.write id d ts ∈ devs) : (id, d, ts) ∈ durableWritesOf devs := by
  induction devs with
  | nil => cases h
  | cons ev r ih =>
    rcases List.mem_cons.mp h with rfl | h'
    · simp [durableWritesOf]
    · have := ih h'
      cases ev <;> simp only [durableWritesOf, List.mem_cons] <;> first | exact Or.inr this | exact this

theorem ackSrc_flush (devs : List DEv) (fix : Bool) (φ : Nat → Outcome) (a : Actor) (h : AckSrc devs a) :
    AckSrc devs (Actor.flush fix φ a) := by
  unfold Actor.flush
  split
  · exact h
  · refine ⟨fun r hr => ?_, fun p hp => by cases hp⟩
    simp only at hr
    rcases List.mem_append.mp hr with hr | hr
    · rw [List.mem_reverse, List.mem_map] at hr
      obtain ⟨p, hp, rfl⟩ := hr
      exact h.2 p hp
    · exact h.1 r hr

theorem ackSrc_step (devs : List DEv) (fix tk : Bool) (φ : Nat → Outcome) (a : Actor) (h : AckSrc devs a)
    (dev : DEv) (hdev : dev ∈ devs) : AckSrc devs (Actor.step fix tk φ .v2 crc32 a dev.toEv) := by
  cases dev with
  | write id d ts =>
    have hq := mem_durableWritesOf hdev
    simp only [DEv.toEv, Actor.step, Actor.handleWrite]
    cases Rot.append fix .v2 φ a.rot (Entry.mk' .v2 crc32 (delta.enc d) ts) with
    | mk r oe =>
      cases oe with
      | none =>
        refine ⟨h.1, fun p hp => ?_⟩
        simp only at hp
        rcases List.mem_append.mp hp with hp | hp
        · exact h.2 p hp
        · simp only [List.mem_singleton] at hp; subst hp
          exact ⟨_, hq, rfl, rfl⟩
      | some x =>
        refine ⟨fun r' hr' => ?_, h.2⟩
        simp only at hr'
        rcases List.mem_cons.mp hr' with rfl | hr'
        · exact ⟨_, hq, rfl, rfl⟩
        · exact h.1 r' hr'
  | forget id d ts =>
    simp only [DEv.toEv, Actor.step, Actor.handleForget]
    cases Rot.append fix .v2 φ a.rot (Entry.mk' .v2 crc32 (delta.enc d) ts) with
    | mk r oe => cases oe <;> exact h
  | tick =>
    simp only [DEv.toEv, Actor.step, Actor.handleTick]
    split <;> exact h
  | truncate T => exact h
  | flush => exact ackSrc_flush devs fix φ a h
  | reopen c =>
    simp only [DEv.toEv, Actor.step, Actor.reopen]
    cases c with
    | true =>
      simp only [if_true]
      refine ⟨fun r hr => ?_, fun p hp => by cases hp⟩
      simp only at hr
      rcases List.mem_append.mp hr with hr | hr
      · rw [List.mem_reverse, List.mem_map] at hr
        obtain ⟨p, hp, rfl⟩ := hr
        exact h.2 p hp
      · exact h.1 r hr
    | false =>
      simp only [Bool.false_eq_true, if_false]
      exact ackSrc_flush devs fix φ a h

theorem ackSrc_run (devs : List DEv) (fix tk : Bool) (φ : Nat → Outcome) (maxSize : Nat) :
    AckSrc devs (Actor.run fix tk φ .v2 crc32 maxSize (devs.map DEv.toEv)) := by
  unfold Actor.run
  have h0 : AckSrc devs (Actor.init maxSize) := ⟨(fun r hr => by cases hr), (fun p hp => by cases hp)⟩
  generalize Actor.init maxSize = a0 at h0
  suffices ∀ (l : List DEv), (∀ x ∈ l, x ∈ devs) → ∀ a, AckSrc devs a →
      AckSrc devs ((l.map DEv.toEv).foldl (Actor.step fix tk φ .v2 crc32) a) from
    this devs (fun _ h => h) a0 h0
  intro l
  induction l with
  | nil => intro _ a ha; exact ha
  | cons x xs ih =>
    intro hl a ha
    simp only [List.map_cons, List.foldl_cons]
    exact ih (fun y hy => hl y (List.mem_cons_of_mem _ hy)) _ (ackSrc_step devs fix tk φ a ha x (hl x (by simp)))

end C09
end RedisVerif
