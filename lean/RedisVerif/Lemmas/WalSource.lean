import RedisVerif.Model.WalActor
import RedisVerif.Lemmas.NMap
import RedisVerif.Lemmas.Wal
import RedisVerif.Lemmas.WalActor

/-!
  Provenance invariant of the WAL store along EVERY history of the rotator / actor (any faults, torn
  appends, failed creates, crashes, restarts, truncations, either rotator variant):

  every file of every store the history passes through is a PREFIX of a clean image
  `header ++ encode e₁ ++ … ++ encode eₙ` whose entries all satisfy a fixed predicate `P`
  (`P` = "was handed to `WalRotator::append` by a `Write` message").  Hence whatever recovery returns
  from ANY crash image (and from the uncrashed store) satisfies `P`: recovery never invents or alters
  an entry — C10's "only appended entries come back", stated over the reachable stores of the model
  of C09 instead of over abstract damaged images.
-/
namespace RedisVerif.Wal

/-- `data` is a prefix of a clean file image of sequence `k` whose entries all satisfy `P` -/
def DataFrom (fmt : Format) (crc : Bytes → Nat) (P : Entry → Prop) (k : Nat) (data : Bytes) : Prop :=
  ∃ es n, (∀ e ∈ es, P e) ∧ AllOk fmt crc es ∧ data = (header fmt k ++ encs es).take n

def SrcSt (fmt : Format) (crc : Bytes → Nat) (P : Entry → Prop) (st : Store) : Prop :=
  ∀ p ∈ st, DataFrom fmt crc P p.1 p.2.data

/-- the current writer's file is exactly a clean image of `P`-entries -/
def CurSrc (fmt : Format) (crc : Bytes → Nat) (P : Entry → Prop) (st : Store) (c : Nat) : Prop :=
  ∃ es syn, NMap.get st c = some ⟨header fmt c ++ encs es, syn⟩ ∧ (∀ e ∈ es, P e) ∧ AllOk fmt crc es

variable {fmt : Format} {crc : Bytes → Nat} {P : Entry → Prop}

/-- every prefix of a clean image reads as a prefix of its entries (no bound on the sequence) -/
theorem fileEntries_take_image (fmt : Format) (crc : Bytes → Nat) (seq : Nat) (es : List Entry)
    (hok : AllOk fmt crc es) (n : Nat) :
    ∃ k, fileEntries fmt crc ((header fmt seq ++ encs es).take n) = es.take k := by
  by_cases hn : n < overhead
  · refine ⟨0, ?_⟩
    unfold fileEntries readFile
    rw [openFile_short fmt _ (by rw [List.length_take]; omega)]
    rfl
  · rw [List.take_append, List.take_of_length_le (by rw [header_length]; omega),
      fileEntries_header, header_length]
    exact entries_take_encs fmt crc es hok _

theorem DataFrom.take {k : Nat} {data : Bytes} (h : DataFrom fmt crc P k data) (m : Nat) :
    DataFrom fmt crc P k (data.take m) := by
  obtain ⟨es, n, hp, hok, rfl⟩ := h
  exact ⟨es, min m n, hp, hok, by rw [List.take_take]⟩

/-- what recovery reads from (any prefix of) such a file satisfies `P` -/
theorem DataFrom.entries {k : Nat} {data : Bytes} (h : DataFrom fmt crc P k data) :
    ∀ e ∈ fileEntries fmt crc data, P e := by
  obtain ⟨es, n, hp, hok, rfl⟩ := h
  obtain ⟨j, hj⟩ := fileEntries_take_image fmt crc k es hok n
  intro e he
  rw [hj] at he
  exact hp e (List.mem_of_mem_take he)

theorem dataFrom_nil (k : Nat) : DataFrom fmt crc P k [] :=
  ⟨[], 0, (fun _ h => by cases h), (fun _ h => by cases h), by simp⟩

theorem dataFrom_header_take (k j : Nat) : DataFrom fmt crc P k ([] ++ (header fmt k).take j) :=
  ⟨[], j, (fun _ h => by cases h), (fun _ h => by cases h), by simp [encs]⟩

theorem dataFrom_append_take (k : Nat) (es : List Entry) (e : Entry) (hes : ∀ x ∈ es, P x)
    (hok : AllOk fmt crc es) (he : P e) (hg : e.Good fmt crc) (j : Nat) :
    DataFrom fmt crc P k ((header fmt k ++ encs es) ++ e.encode.take j) := by
  refine ⟨es ++ [e], (header fmt k ++ encs es).length + j, ?_, ?_, ?_⟩
  · intro x hx
    rcases List.mem_append.mp hx with h | h
    · exact hes x h
    · simp only [List.mem_singleton] at h; subst h; exact he
  · intro x hx
    rcases List.mem_append.mp hx with h | h
    · exact hok x h
    · simp only [List.mem_singleton] at h; subst h; exact hg
  · have : header fmt k ++ encs (es ++ [e]) = (header fmt k ++ encs es) ++ e.encode := by
      rw [encs_append, List.append_assoc]; simp [encs]
    rw [this, List.take_length_add_append]

/-! ## store operations -/

theorem srcSt_insert {st : Store} (h : SrcSt fmt crc P st) (k : Nat) (f : File)
    (hf : DataFrom fmt crc P k f.data) : SrcSt fmt crc P (NMap.insert k f st) := by
  intro p hp
  rcases NMap.mem_insert hp with rfl | hp
  · exact hf
  · exact h p hp

theorem srcSt_appendData {st : Store} (h : SrcSt fmt crc P st) (k : Nat) (bs : Bytes)
    (hf : ∀ f, NMap.get st k = some f → DataFrom fmt crc P k (f.data ++ bs)) :
    SrcSt fmt crc P (appendData st k bs) := by
  unfold appendData
  cases hg : NMap.get st k with
  | none => exact h
  | some f => exact srcSt_insert h k _ (hf f hg)

theorem srcSt_syncFile {st : Store} (h : SrcSt fmt crc P st) (k : Nat) : SrcSt fmt crc P (syncFile st k) := by
  unfold syncFile
  cases hg : NMap.get st k with
  | none => exact h
  | some f => exact srcSt_insert h k _ (h (k, f) (mem_of_get hg))

theorem srcSt_deleteFile {st : Store} (h : SrcSt fmt crc P st) (k : Nat) : SrcSt fmt crc P (deleteFile st k) := by
  intro p hp
  unfold deleteFile at hp
  exact h p (List.mem_filter.mp hp).1

theorem srcSt_crashStore {st : Store} (h : SrcSt fmt crc P st) : SrcSt fmt crc P (crashStore st) := by
  intro p hp
  unfold crashStore at hp
  obtain ⟨q, hq, rfl⟩ := List.mem_map.mp hp
  exact (h q hq).take _

/-! ## world -/

/-- the current store and every store of the history hold only `P`-entries -/
def WSrc (fmt : Format) (crc : Bytes → Nat) (P : Entry → Prop) (w : World) : Prop :=
  SrcSt fmt crc P w.store ∧ ∀ st ∈ w.hist, SrcSt fmt crc P st

theorem wsrc_init : WSrc fmt crc P World.init := by
  refine ⟨(fun p hp => by cases hp), fun st hst => ?_⟩
  simp only [World.init, List.mem_singleton] at hst
  subst hst
  intro p hp; cases hp

theorem wsrc_push {w : World} (h : WSrc fmt crc P w) (st : Store) (c : Call) (hs : SrcSt fmt crc P st) :
    WSrc fmt crc P (w.push st c) := by
  refine ⟨hs, fun st' hst' => ?_⟩
  simp only [World.push] at hst'
  rcases List.mem_cons.mp hst' with rfl | h'
  · exact hs
  · exact h.2 st' h'

theorem wsrc_ioCreate {w : World} (φ : Nat → Outcome) (h : WSrc fmt crc P w) (seq : Nat) :
    WSrc fmt crc P (ioCreate φ w seq).1 ∧
    ((ioCreate φ w seq).2 = none → NMap.get (ioCreate φ w seq).1.store seq = some ⟨[], 0⟩) := by
  unfold ioCreate
  cases hφ : φ w.io with
  | ok =>
    simp only
    exact ⟨wsrc_push h _ _ (srcSt_insert h.1 seq _ (dataFrom_nil seq)), fun _ => by
      show NMap.get (NMap.insert seq _ w.store) seq = _
      rw [NMap.get_insert, if_pos rfl]⟩
  | fail | torn _ | diskFull =>
    simp only
    exact ⟨wsrc_push h _ _ h.1, fun hx => by cases hx⟩

theorem wsrc_ioAppend {w : World} (φ : Nat → Outcome) (h : WSrc fmt crc P w) (seq : Nat) (bs : Bytes)
    (happ : ∀ f, NMap.get w.store seq = some f → ∀ j, DataFrom fmt crc P seq (f.data ++ bs.take j)) :
    WSrc fmt crc P (ioAppend φ w seq bs).1 ∧
    ((ioAppend φ w seq bs).2 = none → (ioAppend φ w seq bs).1.store = appendData w.store seq bs) := by
  unfold ioAppend
  cases hφ : φ w.io with
  | ok =>
    simp only
    refine ⟨wsrc_push h _ _ (srcSt_appendData h.1 seq bs (fun f hf => ?_)), fun _ => rfl⟩
    have := happ f hf bs.length
    rwa [List.take_length] at this
  | torn j =>
    simp only
    exact ⟨wsrc_push h _ _ (srcSt_appendData h.1 seq _ (fun f hf => happ f hf j)), fun hx => by cases hx⟩
  | fail | diskFull =>
    simp only
    exact ⟨wsrc_push h _ _ h.1, fun hx => by cases hx⟩

theorem wsrc_ioSync {w : World} (φ : Nat → Outcome) (h : WSrc fmt crc P w) (seq : Nat) :
    WSrc fmt crc P (ioSync φ w seq).1 := by
  unfold ioSync
  cases hφ : φ w.io with
  | ok => simp only; exact wsrc_push h _ _ (srcSt_syncFile h.1 seq)
  | fail | torn _ | diskFull => simp only; exact wsrc_push h _ _ h.1

theorem wsrc_ioDelete {w : World} (φ : Nat → Outcome) (h : WSrc fmt crc P w) (seq : Nat) :
    WSrc fmt crc P (ioDelete φ w seq).1 := by
  unfold ioDelete
  cases hφ : φ w.io with
  | ok => simp only; exact wsrc_push h _ _ (srcSt_deleteFile h.1 seq)
  | fail | torn _ | diskFull => simp only; exact wsrc_push h _ _ h.1

/-! ## the current writer's file through the store operations -/

theorem curSrc_syncFile {st : Store} {c : Nat} (h : CurSrc fmt crc P st c) (k : Nat) :
    CurSrc fmt crc P (syncFile st k) c := by
  obtain ⟨es, syn, hg, hp, hok⟩ := h
  unfold syncFile
  cases hk : NMap.get st k with
  | none => exact ⟨es, syn, hg, hp, hok⟩
  | some f =>
    simp only
    by_cases hck : c = k
    · subst hck
      rw [hg] at hk; cases hk
      exact ⟨es, _, by rw [NMap.get_insert, if_pos rfl], hp, hok⟩
    · exact ⟨es, syn, by rw [NMap.get_insert, if_neg hck]; exact hg, hp, hok⟩

theorem curSrc_ioSync {w : World} {c : Nat} (φ : Nat → Outcome) (h : CurSrc fmt crc P w.store c) (k : Nat) :
    CurSrc fmt crc P (ioSync φ w k).1.store c := by
  unfold ioSync
  cases hφ : φ w.io with
  | ok => simp only; exact curSrc_syncFile h k
  | fail | torn _ | diskFull => simp only; exact h

theorem curSrc_ioDelete {w : World} {c : Nat} (φ : Nat → Outcome) (h : CurSrc fmt crc P w.store c) (k : Nat)
    (hk : k ≠ c) : CurSrc fmt crc P (ioDelete φ w k).1.store c := by
  unfold ioDelete
  cases hφ : φ w.io with
  | ok =>
    simp only
    obtain ⟨es, syn, hg, hp, hok⟩ := h
    exact ⟨es, syn, by
      show NMap.get (deleteFile w.store k) c = _
      rw [get_deleteFile, if_neg (fun hc => hk hc.symm)]; exact hg, hp, hok⟩
  | fail | torn _ | diskFull => simp only; exact h

/-! ## rotator -/

structure SrcInv (fmt : Format) (crc : Bytes → Nat) (P : Entry → Prop) (r : Rot) : Prop where
  w : WSrc fmt crc P r.w
  cur : ∀ c, r.cur = some c → CurSrc fmt crc P r.w.store c

theorem srcinv_init (maxSize : Nat) : SrcInv fmt crc P (Rot.init maxSize) :=
  ⟨wsrc_init, fun c hc => by cases hc⟩

theorem srcinv_close {r : Rot} (fix : Bool) (φ : Nat → Outcome) (h : SrcInv fmt crc P r) :
    SrcInv fmt crc P (Rot.close fix φ r) ∧ (Rot.close fix φ r).cur = none := by
  unfold Rot.close
  cases hc : r.cur with
  | none => exact ⟨h, hc⟩
  | some c =>
    cases fix with
    | true => exact ⟨⟨wsrc_ioSync φ h.w c, fun c' hc' => by cases hc'⟩, rfl⟩
    | false => exact ⟨⟨h.w, fun c' hc' => by cases hc'⟩, rfl⟩

theorem srcinv_rotate {r : Rot} (fix : Bool) (φ : Nat → Outcome) (h : SrcInv fmt crc P r) :
    SrcInv fmt crc P (Rot.rotate fix fmt φ r).1 ∧
    ((Rot.rotate fix fmt φ r).2 = none → ∃ c, (Rot.rotate fix fmt φ r).1.cur = some c) := by
  obtain ⟨h1, hc1⟩ := srcinv_close fix φ h
  unfold Rot.rotate
  simp only
  generalize Rot.close fix φ r = r1 at h1 hc1
  obtain ⟨wc, gc⟩ := wsrc_ioCreate φ h1.w (r1.seq + 1)
  cases hcr : ioCreate φ r1.w (r1.seq + 1) with
  | mk w' oe =>
    rw [hcr] at wc gc
    cases oe with
    | some e =>
      simp only
      exact ⟨⟨wc, fun c hc => by simp only [hc1] at hc; cases hc⟩, fun hx => by cases hx⟩
    | none =>
      simp only
      have gc' := gc rfl
      obtain ⟨wa, ga⟩ := wsrc_ioAppend (P := P) φ wc (r1.seq + 1) (header fmt (r1.seq + 1)) (by
        intro f hf j
        rw [gc'] at hf; cases hf
        exact dataFrom_header_take _ j)
      cases hap : ioAppend φ w' (r1.seq + 1) (header fmt (r1.seq + 1)) with
      | mk w'' oe2 =>
        rw [hap] at wa ga
        cases oe2 with
        | some e =>
          simp only
          exact ⟨⟨wa, fun c hc => by simp only [hc1] at hc; cases hc⟩, fun hx => by cases hx⟩
        | none =>
          simp only
          refine ⟨⟨wa, fun c hc => ?_⟩, fun _ => ⟨_, rfl⟩⟩
          simp only [Option.some.injEq] at hc
          subst hc
          refine ⟨[], 0, ?_, (fun _ hx => by cases hx), (fun _ hx => by cases hx)⟩
          show NMap.get w''.store (r1.seq + 1) = _
          rw [ga rfl, get_appendData, if_pos rfl, gc']
          simp [encs]

theorem srcinv_appendTo {r : Rot} (φ : Nat → Outcome) (h : SrcInv fmt crc P r) (e : Entry) (he : P e)
    (hg : e.Good fmt crc) : SrcInv fmt crc P (Rot.appendTo φ r e).1 := by
  unfold Rot.appendTo
  cases hc : r.cur with
  | none => exact h
  | some c =>
    simp only
    obtain ⟨es, syn, hget, hp, hok⟩ := h.cur c hc
    obtain ⟨wa, ga⟩ := wsrc_ioAppend (P := P) φ h.w c e.encode (by
      intro f hf j
      rw [hget] at hf; cases hf
      exact dataFrom_append_take c es e hp hok he hg j)
    cases hap : ioAppend φ r.w c e.encode with
    | mk w' oe =>
      rw [hap] at wa ga
      cases oe with
      | none =>
        simp only
        refine ⟨wa, fun c' hc' => ?_⟩
        simp only [Option.some.injEq] at hc'
        subst hc'
        refine ⟨es ++ [e], syn, ?_, ?_, ?_⟩
        · show NMap.get w'.store c = _
          rw [ga rfl, get_appendData, if_pos rfl, hget]
          simp [encs]
        · intro x hx
          rcases List.mem_append.mp hx with h1 | h1
          · exact hp x h1
          · simp only [List.mem_singleton] at h1; subst h1; exact he
        · intro x hx
          rcases List.mem_append.mp hx with h1 | h1
          · exact hok x h1
          · simp only [List.mem_singleton] at h1; subst h1; exact hg
      | some x =>
        simp only
        exact ⟨wa, fun c' hc' => by cases hc'⟩

theorem srcinv_append {r : Rot} (fix : Bool) (φ : Nat → Outcome) (h : SrcInv fmt crc P r) (e : Entry) (he : P e)
    (hg : e.Good fmt crc) : SrcInv fmt crc P (Rot.append fix fmt φ r e).1 := by
  unfold Rot.append
  cases hn : r.needsNew with
  | false =>
    simp only [Bool.false_eq_true, if_false]
    exact srcinv_appendTo φ h e he hg
  | true =>
    simp only [if_true]
    obtain ⟨h1, _⟩ := srcinv_rotate (fmt := fmt) fix φ h
    cases hr : Rot.rotate fix fmt φ r with
    | mk r1 oe =>
      rw [hr] at h1
      cases oe with
      | some x => exact h1
      | none => exact srcinv_appendTo φ h1 e he hg

theorem srcinv_sync {r : Rot} (fix : Bool) (φ : Nat → Outcome) (h : SrcInv fmt crc P r) :
    SrcInv fmt crc P (Rot.sync fix φ r).1 := by
  unfold Rot.sync
  split
  · exact ⟨h.w, h.cur⟩
  · cases hc : r.cur with
    | none => exact ⟨h.w, fun c hc' => by cases hc'⟩
    | some c =>
      simp only
      refine ⟨wsrc_ioSync φ h.w c, fun c' hc' => ?_⟩
      simp only [Option.some.injEq] at hc'
      subst hc'
      exact curSrc_ioSync φ (h.cur c hc) c

theorem srcinv_truncLoop (φ : Nat → Outcome) (cur : Option Nat) (victims : List Nat) (w : World)
    (hw : WSrc fmt crc P w) (hcur : ∀ c, cur = some c → CurSrc fmt crc P w.store c)
    (hv : ∀ k ∈ victims, cur ≠ some k) :
    WSrc fmt crc P (truncLoop φ victims w) ∧
      ∀ c, cur = some c → CurSrc fmt crc P (truncLoop φ victims w).store c := by
  induction victims generalizing w with
  | nil => exact ⟨hw, hcur⟩
  | cons k rest ih =>
    simp only [truncLoop]
    have hw' := wsrc_ioDelete φ hw k
    have hcur' : ∀ c, cur = some c → CurSrc fmt crc P (ioDelete φ w k).1.store c := fun c hc =>
      curSrc_ioDelete φ (hcur c hc) k (fun hkc => hv k (by simp) (by rw [hc, hkc]))
    cases hd : ioDelete φ w k with
    | mk w' ok =>
      rw [hd] at hw' hcur'
      cases ok with
      | true => exact ih w' hw' hcur' (fun k' hk' => hv k' (List.mem_cons_of_mem _ hk'))
      | false => exact ⟨hw', hcur'⟩

theorem srcinv_truncate {r : Rot} (φ : Nat → Outcome) (T : Nat) (h : SrcInv fmt crc P r) :
    SrcInv fmt crc P (Rot.truncate fmt crc φ T r) := by
  unfold Rot.truncate
  simp only
  obtain ⟨h1, h2⟩ := srcinv_truncLoop (fmt := fmt) (crc := crc) (P := P) φ r.cur
    ((r.w.store.map (·.1)).filter (fun k => r.cur != some k &&
      match NMap.get r.w.store k with
      | some f => deletable fmt crc T f.data
      | none => false)) r.w h.w h.cur (by
        intro k hk
        rw [List.mem_filter] at hk
        have := hk.2
        simp only [Bool.and_eq_true, bne_iff_ne, ne_eq] at this
        exact this.1)
  exact ⟨h1, h2⟩

theorem srcinv_reopen {r : Rot} (reuse : Bool) (h : WSrc fmt crc P r.w) : SrcInv fmt crc P (Rot.reopen reuse r) :=
  ⟨h, fun c hc => by cases hc⟩

/-! ## actor (every policy) -/

/-- every `Write` message carries an entry satisfying `P` -/
def Ev.From (fmt : Format) (crc : Bytes → Nat) (P : Entry → Prop) : Ev → Prop
  | .write w => P (Entry.mk' fmt crc w.data w.ts)
  | .forget w => P (Entry.mk' fmt crc w.data w.ts)
  | _ => True

theorem srcinv_flush {a : Actor} (fix : Bool) (φ : Nat → Outcome) (h : SrcInv fmt crc P a.rot) :
    SrcInv fmt crc P (Actor.flush fix φ a).rot := by
  unfold Actor.flush
  split
  · exact h
  · exact srcinv_sync fix φ h

theorem srcinv_step {a : Actor} (fix tk : Bool) (φ : Nat → Outcome) (hP : ∀ e, P e → e.Good fmt crc)
    (h : SrcInv fmt crc P a.rot) (ev : Ev) (hev : Ev.From fmt crc P ev) :
    SrcInv fmt crc P (Actor.step fix tk φ fmt crc a ev).rot := by
  cases ev with
  | write w =>
    simp only [Actor.step, Actor.handleWrite]
    have := srcinv_append (fmt := fmt) fix φ h _ hev (hP _ hev)
    cases hr : Rot.append fix fmt φ a.rot (Entry.mk' fmt crc w.data w.ts) with
    | mk r oe => rw [hr] at this; cases oe <;> exact this
  | forget w =>
    simp only [Actor.step, Actor.handleForget]
    have := srcinv_append (fmt := fmt) fix φ h _ hev (hP _ hev)
    cases hr : Rot.append fix fmt φ a.rot (Entry.mk' fmt crc w.data w.ts) with
    | mk r oe => rw [hr] at this; cases oe <;> exact this
  | tick =>
    simp only [Actor.step, Actor.handleTick]
    split
    · exact srcinv_sync fix φ h
    · exact h
  | truncate T => exact srcinv_truncate φ T h
  | flush => exact srcinv_flush fix φ h
  | reopen crash reuse =>
    simp only [Actor.step, Actor.reopen]
    cases crash with
    | true =>
      simp only [if_true]
      exact srcinv_reopen reuse (wsrc_push h.w _ _ (srcSt_crashStore h.w.1))
    | false =>
      simp only [Bool.false_eq_true, if_false]
      exact srcinv_reopen reuse (srcinv_flush fix φ h).w

theorem srcinv_run (fix tk : Bool) (φ : Nat → Outcome) (hP : ∀ e, P e → e.Good fmt crc) (maxSize : Nat)
    (evs : List Ev) (hev : ∀ ev ∈ evs, Ev.From fmt crc P ev) :
    SrcInv fmt crc P (Actor.run fix tk φ fmt crc maxSize evs).rot := by
  unfold Actor.run
  generalize hinit : Actor.init maxSize = a0
  have h0 : SrcInv fmt crc P a0.rot := by rw [← hinit]; exact srcinv_init maxSize
  clear hinit
  induction evs generalizing a0 with
  | nil => exact h0
  | cons ev evs ih =>
    simp only [List.foldl_cons]
    exact ih (fun e he => hev e (List.mem_cons_of_mem _ he)) _
      (srcinv_step fix tk φ hP h0 ev (hev ev (by simp)))

/-- what the invariant gives: at EVERY instant of the history, what recovery returns from the crash
    image — and from the store as it stands — satisfies `P` -/
theorem recovered_from {r : Rot} (h : SrcInv fmt crc P r) (t : Nat) (st : Store)
    (hst : r.w.storeAt t = some st) :
    (∀ e ∈ durable fmt crc st, P e) ∧ (∀ e ∈ recoverAll fmt crc (fullImage st), P e) := by
  have hmem : st ∈ r.w.hist := by
    unfold World.storeAt at hst
    exact List.mem_reverse.mp (List.mem_of_getElem? hst)
  have hs := h.w.2 st hmem
  constructor
  · intro e he
    unfold durable recoverAll crashImage at he
    rw [List.mem_flatMap] at he
    obtain ⟨q, hq, heq⟩ := he
    obtain ⟨p, hp, rfl⟩ := List.mem_map.mp hq
    exact ((hs p hp).take _).entries e heq
  · intro e he
    unfold recoverAll fullImage at he
    rw [List.mem_flatMap] at he
    obtain ⟨q, hq, heq⟩ := he
    obtain ⟨p, hp, rfl⟩ := List.mem_map.mp hq
    exact (hs p hp).entries e heq

end RedisVerif.Wal
