import RedisVerif.Model.Grammar
import RedisVerif.Lemmas.Grammar

/-
  Option lists as lists of blocks (keyword + its values): what the scan answers on a list of
  well-formed blocks, and that `has` / `last` of the result do not depend on the order of the
  blocks when no option occurs twice.
-/
namespace RedisVerif.Grammar

/-- one option occurrence: the keyword as the client wrote it, and its value arguments -/
structure Block where
  word : Bytes
  vals : List Bytes
  deriving DecidableEq, Repr

/-- the argument list a list of blocks stands for -/
def flat (bs : List Block) : List Bytes := bs.flatMap (fun b => b.word :: b.vals)

/-- what the scan records for a block, if the block is a well-formed occurrence of an option of
    the table: keyword known and not refused, right number of values, values of the right kind -/
def blockSeen (tbl : List OptSpec) (b : Block) : Option (Nat × List Tok) :=
  match findOpt tbl (kw b.word) 0 with
  | none => none
  | some (idx, o) =>
    match o.reject with
    | some _ => none
    | none =>
      match o.vals, b.vals with
      | [], [] => some (idx, [])
      | [k1], [v1] =>
        match k1.extract v1 with
        | .ok t1 => some (idx, [t1])
        | .error _ => none
      | [k1, k2], [v1, v2] =>
        match k1.extract v1, k2.extract v2 with
        | .ok t1, .ok t2 => some (idx, [t1, t2])
        | _, _ => none
      | _, _ => none

def seenOf (tbl : List OptSpec) (bs : List Block) : Seen := bs.filterMap (blockSeen tbl)

/-- every block is a well-formed option occurrence -/
def WellFormed (tbl : List OptSpec) (bs : List Block) : Prop := ∀ b ∈ bs, (blockSeen tbl b).isSome = true

instance (tbl : List OptSpec) (bs : List Block) : Decidable (WellFormed tbl bs) := by
  unfold WellFormed; infer_instance

/-- no option occurs twice -/
def NoRepeat (tbl : List OptSpec) (bs : List Block) : Prop := ((seenOf tbl bs).map (·.1)).Nodup

instance (tbl : List OptSpec) (bs : List Block) : Decidable (NoRepeat tbl bs) := by
  unfold NoRepeat; infer_instance

theorem scan_block (tbl : List OptSpec) (unk : Bytes → Option BErr) (b : Block) (rest : List Bytes)
    (e : Nat × List Tok) (h : blockSeen tbl b = some e) :
    scanOpts tbl unk (b.word :: (b.vals ++ rest)) = (scanOpts tbl unk rest).map (e :: ·) := by
  unfold blockSeen at h
  rw [scanOpts]
  cases hf : findOpt tbl (kw b.word) 0 with
  | none => rw [hf] at h; simp at h
  | some io =>
    obtain ⟨idx, o⟩ := io
    rw [hf] at h
    simp only at h ⊢
    cases hr : o.reject with
    | some f => rw [hr] at h; simp at h
    | none =>
      rw [hr] at h
      simp only at h ⊢
      match hv : o.vals, hb : b.vals with
      | [], [] =>
        rw [hv, hb] at h
        simp only [Option.some.injEq] at h
        subst h
        simp only [List.nil_append]
        cases scanOpts tbl unk rest <;> rfl
      | [k1], [v1] =>
        rw [hv, hb] at h
        simp only at h
        cases hx : k1.extract v1 with
        | error _ => rw [hx] at h; simp at h
        | ok t1 =>
          rw [hx] at h
          simp only [Option.some.injEq] at h
          subst h
          simp only [List.cons_append, List.nil_append, hx]
          cases scanOpts tbl unk rest <;> rfl
      | [k1, k2], [v1, v2] =>
        rw [hv, hb] at h
        simp only at h
        cases hx : k1.extract v1 with
        | error _ => rw [hx] at h; simp at h
        | ok t1 =>
          cases hy : k2.extract v2 with
          | error _ => rw [hx, hy] at h; simp at h
          | ok t2 =>
            rw [hx, hy] at h
            simp only [Option.some.injEq] at h
            subst h
            simp only [List.cons_append, List.nil_append, hx, hy]
            cases scanOpts tbl unk rest <;> rfl
      | [], _ :: _ => rw [hv, hb] at h; simp at h
      | [_], [] => rw [hv, hb] at h; simp at h
      | [_], _ :: _ :: _ => rw [hv, hb] at h; simp at h
      | [_, _], [] => rw [hv, hb] at h; simp at h
      | [_, _], [_] => rw [hv, hb] at h; simp at h
      | [_, _], _ :: _ :: _ :: _ => rw [hv, hb] at h; simp at h
      | _ :: _ :: _ :: _, _ => rw [hv] at h; simp at h

/-- the scan of a well-formed block list succeeds and records exactly the blocks, in order -/
theorem scan_blocks (tbl : List OptSpec) (unk : Bytes → Option BErr) :
    ∀ bs : List Block, WellFormed tbl bs → scanOpts tbl unk (flat bs) = .ok (seenOf tbl bs) := by
  intro bs
  induction bs with
  | nil => intro _; simp [flat, seenOf, scanOpts]
  | cons b bs ih =>
    intro hwf
    have hb := hwf b (by simp)
    have hrest : WellFormed tbl bs := fun x hx => hwf x (by simp [hx])
    cases he : blockSeen tbl b with
    | none => rw [he] at hb; simp at hb
    | some e =>
      have := scan_block tbl unk b (flat bs) e he
      simp only [flat, List.flatMap_cons, List.cons_append] at this ⊢
      rw [this]
      have ih' := ih hrest
      simp only [flat] at ih'
      rw [ih']
      simp [seenOf, List.filterMap_cons, he, Except.map]

theorem last_foldl_iff (idx : Nat) (v : List Tok) :
    ∀ (s : Seen) (acc : Option (List Tok)), (s.map (·.1)).Nodup →
      (s.foldl (fun acc p => if p.1 == idx then some p.2 else acc) acc = some v ↔
        ((idx, v) ∈ s ∨ (acc = some v ∧ idx ∉ s.map (·.1)))) := by
  intro s
  induction s with
  | nil => intro acc _; simp
  | cons p s ih =>
    intro acc hnd
    simp only [List.map_cons, List.nodup_cons] at hnd
    obtain ⟨hp, hnd⟩ := hnd
    simp only [List.foldl_cons]
    rw [ih _ hnd]
    by_cases hpi : p.1 = idx
    · have hnot : idx ∉ s.map (·.1) := by rw [← hpi]; exact hp
      have hnot' : ∀ w, (idx, w) ∉ s := by
        intro w hw
        exact hnot (List.mem_map.mpr ⟨(idx, w), hw, rfl⟩)
      simp only [hpi, beq_self_eq_true, if_true, List.mem_cons, List.map_cons, hnot' v, false_or,
        Option.some.injEq, hnot, not_false_eq_true, and_true, true_or, not_true_eq_false, and_false, or_false]
      constructor
      · intro h; obtain ⟨a, b⟩ := p; simp only at hpi h; rw [hpi, h]
      · intro h; rw [← h]
    · have hbeq : (p.1 == idx) = false := by simp [hpi]
      have hne : (idx, v) ≠ p := by intro h; apply hpi; rw [← h]
      have hne' : ¬ idx = p.1 := fun h => hpi h.symm
      simp only [hbeq, Bool.false_eq_true, if_false, List.mem_cons, hne, false_or, List.map_cons, hne', not_false_eq_true, true_and]

theorem last_iff (s : Seen) (idx : Nat) (v : List Tok) (hnd : (s.map (·.1)).Nodup) :
    s.last idx = some v ↔ (idx, v) ∈ s := by
  unfold Seen.last
  rw [last_foldl_iff idx v s none hnd]
  simp

/-- `has` and `last` of two scans are the same when one is a permutation of the other and no
    option occurs twice -/
theorem seen_perm {s s' : Seen} (hp : s.Perm s') (hnd : (s.map (·.1)).Nodup) :
    (∀ i, s.has i = s'.has i) ∧ (∀ i, s.last i = s'.last i) ∧ (∀ i, s.opt1 i = s'.opt1 i) := by
  have hnd' : (s'.map (·.1)).Nodup := ((hp.map (·.1)).nodup_iff).mp hnd
  have hlast : ∀ i, s.last i = s'.last i := by
    intro i
    apply Option.ext
    intro v
    rw [last_iff s i v hnd, last_iff s' i v hnd', hp.mem_iff]
  refine ⟨fun i => ?_, hlast, fun i => ?_⟩
  · unfold Seen.has; exact hp.any_eq
  · unfold Seen.opt1; rw [hlast]

/-- permuting well-formed blocks: both scans succeed, with interchangeable results -/
theorem scan_perm (tbl : List OptSpec) (unk : Bytes → Option BErr) {bs bs' : List Block}
    (hp : bs.Perm bs') (hwf : WellFormed tbl bs) (hnr : NoRepeat tbl bs) :
    scanOpts tbl unk (flat bs) = .ok (seenOf tbl bs) ∧
    scanOpts tbl unk (flat bs') = .ok (seenOf tbl bs') ∧
    (∀ i, (seenOf tbl bs).has i = (seenOf tbl bs').has i) ∧
    (∀ i, (seenOf tbl bs).opt1 i = (seenOf tbl bs').opt1 i) := by
  have hwf' : WellFormed tbl bs' := fun b hb => hwf b (hp.mem_iff.mpr hb)
  have hsp : (seenOf tbl bs).Perm (seenOf tbl bs') := hp.filterMap _
  obtain ⟨h1, _, h3⟩ := seen_perm hsp hnr
  exact ⟨scan_blocks tbl unk bs hwf, scan_blocks tbl unk bs' hwf', h1, h3⟩

/-- a well-formed block that is present is recorded -/
theorem has_of_block (tbl : List OptSpec) {bs : List Block} {b : Block} {i : Nat} {ts : List Tok}
    (hb : b ∈ bs) (h : blockSeen tbl b = some (i, ts)) : (seenOf tbl bs).has i = true := by
  unfold Seen.has seenOf
  rw [List.any_eq_true]
  exact ⟨(i, ts), List.mem_filterMap.mpr ⟨b, hb, h⟩, by simp⟩

end RedisVerif.Grammar
