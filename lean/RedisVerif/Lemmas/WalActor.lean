import RedisVerif.Model.WalActor
import RedisVerif.Lemmas.NMap
import RedisVerif.Lemmas.Wal

/-! Invariant machinery for C09: durability of acknowledged entries over I/O traces. -/
namespace RedisVerif.Wal

/-! ## lookups -/

theorem mem_of_get {ν : Type} {m : NMap ν} {k : Nat} {v : ν} (h : NMap.get m k = some v) :
    (k, v) ∈ m := by
  induction m with
  | nil => cases h
  | cons p m ih =>
    obtain ⟨kp, vp⟩ := p
    simp only [NMap.get] at h
    split at h
    · rename_i hk; subst hk; cases h; simp
    · exact List.mem_cons_of_mem _ (ih h)

/-- `e` survives a crash that leaves `st`: some file's synced prefix yields it — or it is
    stamped below the truncation bound `T` (1 + the largest `TruncateUpTo` threshold so far), in
    which case the WAL is allowed to have deleted it -/
def Dur (T : Nat) (fmt : Format) (crc : Bytes → Nat) (st : Store) (e : Entry) : Prop :=
  (∃ k f, NMap.get st k = some f ∧ e ∈ fileEntries fmt crc (f.data.take f.synced)) ∨ e.ts < T

theorem durable_of_dur {T : Nat} {fmt : Format} {crc : Bytes → Nat} {st : Store} {e : Entry}
    (h : Dur T fmt crc st e) : e ∈ durable fmt crc st ∨ e.ts < T := by
  rcases h with ⟨k, f, hg, he⟩ | h
  · left
    unfold durable recoverAll crashImage
    rw [List.mem_flatMap]
    exact ⟨(k, f.data.take f.synced), List.mem_map.mpr ⟨(k, f), mem_of_get hg, rfl⟩, he⟩
  · exact Or.inr h

theorem Dur.mono_T {T T' : Nat} {fmt : Format} {crc : Bytes → Nat} {st : Store} {e : Entry}
    (hT : T ≤ T') (h : Dur T fmt crc st e) : Dur T' fmt crc st e := by
  rcases h with h | h
  · exact Or.inl h
  · exact Or.inr (Nat.lt_of_lt_of_le h hT)

/-! ## the file header is accepted whatever the sequence number -/

theorem openFile_header_isSome (seq : Nat) (rest : Bytes) :
    ∃ s, openFile fmt (header fmt seq ++ rest) = some s := by
  unfold openFile
  have hl : (header fmt seq ++ rest).length = 16 + rest.length := by
    rw [List.length_append, header_length, overhead]
  rw [if_neg (by rw [hl]; unfold overhead; omega)]
  have h1 : (header fmt seq ++ rest).take 4 = magic := by
    unfold header; rw [List.append_assoc]; exact List.take_left' rfl
  have h2 : ((header fmt seq ++ rest).drop 4).head? = some fmt.version := by
    unfold header; rw [List.append_assoc, List.drop_left' (by rfl)]; rfl
  rw [if_neg (by rw [h1]; simp), if_neg (by rw [h2]; simp)]
  exact ⟨_, rfl⟩

theorem fileEntries_header (fmt : Format) (crc : Bytes → Nat) (seq : Nat) (tail : Bytes) :
    fileEntries fmt crc (header fmt seq ++ tail) = entries fmt crc tail := by
  unfold fileEntries readFile
  obtain ⟨s, hs⟩ := openFile_header_isSome seq tail
  rw [hs]
  simp only
  rw [← header_length fmt seq, List.drop_left' rfl]

theorem fileEntries_clean (fmt : Format) (crc : Bytes → Nat) (seq : Nat) (es : List Entry) (hok : AllOk fmt crc es) :
    fileEntries fmt crc (header fmt seq ++ encs es) = es := by
  rw [fileEntries_header, entries_encs fmt crc es hok]

theorem fileEntries_nil (fmt : Format) (crc : Bytes → Nat) : fileEntries fmt crc [] = [] := by
  unfold fileEntries readFile openFile; rfl

/-- the synced prefix of a clean file yields a prefix of its entries -/
theorem fileEntries_synced_prefix (fmt : Format) (crc : Bytes → Nat) (seq : Nat) (es : List Entry) (k syn : Nat)
    (hok : AllOk fmt crc es) (hs : syn = 0 ∨ syn = (header fmt seq ++ encs (es.take k)).length) :
    ∀ e ∈ fileEntries fmt crc ((header fmt seq ++ encs es).take syn), e ∈ es := by
  intro e he
  rcases hs with h | h
  · subst h; rw [List.take_zero, fileEntries_nil] at he; cases he
  · have hsplit : header fmt seq ++ encs es = (header fmt seq ++ encs (es.take k)) ++ encs (es.drop k) := by
      rw [List.append_assoc, ← encs_append, List.take_append_drop]
    rw [hsplit, h, List.take_left' rfl,
      fileEntries_clean fmt crc seq _ (fun x hx => hok x (List.mem_of_mem_take hx))] at he
    exact List.mem_of_mem_take he

/-! ## world: history bookkeeping -/

/-- the history has one store per call boundary and ends with the current store -/
def WInv (w : World) : Prop :=
  w.hist.length = w.trace.length + 1 ∧ w.hist.head? = some w.store ∧
    -- no `create` ever hit a name that was already there (a successful one would have truncated it)
    ∀ s ok, Call.create s ok true ∉ w.trace

theorem winv_init : WInv World.init := ⟨rfl, rfl, fun _ _ h => by cases h⟩

theorem winv_push {w : World} (h : WInv w) (st : Store) (c : Call)
    (hc : ∀ s ok, c ≠ Call.create s ok true := by intro s ok h; cases h) : WInv (w.push st c) := by
  obtain ⟨h1, _, h3⟩ := h
  refine ⟨by simp [World.push, h1], rfl, fun s ok hm => ?_⟩
  rcases List.mem_cons.mp hm with hm | hm
  · exact hc s ok hm.symm
  · exact h3 s ok hm

theorem io_push (w : World) (st : Store) (c : Call) : (w.push st c).io = w.io + 1 := by
  simp [World.push, World.io]

theorem storeAt_io {w : World} (h : WInv w) : w.storeAt w.io = some w.store := by
  obtain ⟨h1, h2, _⟩ := h
  unfold World.storeAt World.io
  cases hh : w.hist with
  | nil => rw [hh] at h1; simp at h1
  | cons s tl =>
    rw [hh] at h1 h2
    simp only [List.head?_cons, Option.some.injEq] at h2
    simp only [List.length_cons] at h1
    rw [List.reverse_cons, List.getElem?_append_right (by rw [List.length_reverse]; omega),
      List.length_reverse]
    have : w.trace.length - tl.length = 0 := by omega
    rw [this, h2]; rfl

theorem storeAt_push {w : World} (h : WInv w) (st' : Store) (c : Call) (t : Nat) (st : Store)
    (hs : (w.push st' c).storeAt t = some st) :
    (t ≤ w.io ∧ w.storeAt t = some st) ∨ (t = w.io + 1 ∧ st = st') := by
  obtain ⟨h1, _⟩ := h
  unfold World.storeAt World.push at hs
  simp only [List.reverse_cons] at hs
  unfold World.storeAt World.io
  by_cases ht : t < w.hist.reverse.length
  · rw [List.getElem?_append_left ht] at hs
    left
    rw [List.length_reverse] at ht
    exact ⟨by omega, hs⟩
  · rw [List.getElem?_append_right (by omega)] at hs
    right
    rw [List.length_reverse] at ht hs
    cases hd : t - w.hist.length with
    | zero =>
      rw [hd] at hs
      simp only [List.getElem?_cons_zero, Option.some.injEq] at hs
      exact ⟨by omega, hs.symm⟩
    | succ n => rw [hd] at hs; simp at hs

/-- acknowledged-Ok entries are recoverable from every crash image taken at or after the ack -/
def Safe (T : Nat) (fmt : Format) (crc : Bytes → Nat) (acks : List AckRec) (w : World) : Prop :=
  ∀ a ∈ acks, a.res = .ok → ∀ t st, a.io ≤ t → w.storeAt t = some st → Dur T fmt crc st a.entry

theorem safe_push {fmt : Format} {crc : Bytes → Nat} {acks : List AckRec} {w : World} (hw : WInv w)
    (hs : Safe T fmt crc acks w) (hat : ∀ a ∈ acks, a.io ≤ w.io) (st' : Store) (c : Call)
    (hmono : ∀ e, Dur T fmt crc w.store e → Dur T fmt crc st' e) : Safe T fmt crc acks (w.push st' c) := by
  intro a ha hok t st hle hst
  rcases storeAt_push hw st' c t st hst with ⟨_, h⟩ | ⟨_, h⟩
  · exact hs a ha hok t st hle h
  · subst h
    exact hmono _ (hs a ha hok w.io w.store (hat a ha) (storeAt_io hw))

/-! ## store updates preserve what is durable -/

theorem dur_insert_fresh {fmt : Format} {crc : Bytes → Nat} {st : Store} {k : Nat} {f : File} {e : Entry}
    (hk : NMap.get st k = none) (h : Dur T fmt crc st e) : Dur T fmt crc (NMap.insert k f st) e := by
  rcases h with ⟨k', g, hg, he⟩ | h
  case inr => exact Or.inr h
  left
  refine ⟨k', g, ?_, he⟩
  rw [NMap.get_insert]
  have : k' ≠ k := by intro hc; subst hc; rw [hk] at hg; cases hg
  rw [if_neg this, hg]

theorem dur_appendData {fmt : Format} {crc : Bytes → Nat} {st : Store} {k : Nat} {bs : Bytes} {e : Entry}
    (hsyn : ∀ f, NMap.get st k = some f → f.synced ≤ f.data.length)
    (h : Dur T fmt crc st e) : Dur T fmt crc (appendData st k bs) e := by
  unfold appendData
  cases hg : NMap.get st k with
  | none => exact h
  | some f =>
    simp only
    rcases h with ⟨k', g, hg', he⟩ | h
    case inr => exact Or.inr h
    left
    by_cases hk : k' = k
    · subst hk
      rw [hg] at hg'; cases hg'
      refine ⟨k', { f with data := f.data ++ bs }, by rw [NMap.get_insert, if_pos rfl], ?_⟩
      simp only
      rw [List.take_append_of_le_length (hsyn f hg)]
      exact he
    · exact ⟨k', g, by rw [NMap.get_insert, if_neg hk, hg'], he⟩

theorem dur_syncFile {fmt : Format} {crc : Bytes → Nat} {st : Store} {k : Nat} {e : Entry}
    (hcl : ∀ f, NMap.get st k = some f →
      ∀ x ∈ fileEntries fmt crc (f.data.take f.synced), x ∈ fileEntries fmt crc f.data)
    (h : Dur T fmt crc st e) : Dur T fmt crc (syncFile st k) e := by
  unfold syncFile
  cases hg : NMap.get st k with
  | none => exact h
  | some f =>
    simp only
    rcases h with ⟨k', g, hg', he⟩ | h
    case inr => exact Or.inr h
    left
    by_cases hk : k' = k
    · subst hk
      rw [hg] at hg'; cases hg'
      refine ⟨k', { f with synced := f.data.length }, by rw [NMap.get_insert, if_pos rfl], ?_⟩
      simp only
      rw [List.take_length]
      exact hcl f hg e he
    · exact ⟨k', g, by rw [NMap.get_insert, if_neg hk, hg'], he⟩


/-! ## rotator invariant -/

/-- the current writer's file is clean: header + intact entries, synced at an entry boundary -/
def CurClean (fmt : Format) (crc : Bytes → Nat) (st : Store) (c : Nat) : Prop :=
  ∃ es k syn, NMap.get st c = some ⟨header fmt c ++ encs es, syn⟩ ∧ AllOk fmt crc es ∧ k ≤ es.length ∧
    (syn = 0 ∨ syn = (header fmt c ++ encs (es.take k)).length)

/-- per-file bookkeeping: the synced length is within the file, and what the synced prefix
    yields is among what the whole file yields (needed when `truncate_before` judges a file by
    its full contents) -/
def FileOk (fmt : Format) (crc : Bytes → Nat) (f : File) : Prop :=
  f.synced ≤ f.data.length ∧
    ∀ x ∈ fileEntries fmt crc (f.data.take f.synced), x ∈ fileEntries fmt crc f.data

structure RInv (fmt : Format) (crc : Bytes → Nat) (r : Rot) : Prop where
  keys : ∀ k f, NMap.get r.w.store k = some f → k ≤ r.seq
  syn : ∀ k f, NMap.get r.w.store k = some f → FileOk fmt crc f
  cur : ∀ c, r.cur = some c → CurClean fmt crc r.w.store c
  winv : WInv r.w

/-- `e` sits in the file of the current writer (so the next successful `sync()` covers it) -/
def InCur (fmt : Format) (crc : Bytes → Nat) (r : Rot) (e : Entry) : Prop :=
  ∃ c f, r.cur = some c ∧ NMap.get r.w.store c = some f ∧ e ∈ fileEntries fmt crc f.data

/-- everything the proof carries through the rotator operations -/
structure Inv (T : Nat) (fmt : Format) (crc : Bytes → Nat) (acks : List AckRec) (pend : List Entry) (r : Rot) : Prop where
  rinv : RInv fmt crc r
  safe : Safe T fmt crc acks r.w
  ackio : ∀ a ∈ acks, a.io ≤ r.w.io
  pend : r.poisoned = false → ∀ e ∈ pend, InCur fmt crc r e ∨ Dur T fmt crc r.w.store e

theorem curClean_sync_mono {fmt : Format} {crc : Bytes → Nat} {st : Store} {c : Nat} (h : CurClean fmt crc st c) :
    ∀ f, NMap.get st c = some f →
      ∀ x ∈ fileEntries fmt crc (f.data.take f.synced), x ∈ fileEntries fmt crc f.data := by
  obtain ⟨es, k, syn, hg, hok, _, hs⟩ := h
  intro f hf x hx
  rw [hg] at hf; cases hf
  simp only at hx ⊢
  rw [fileEntries_clean fmt crc c es hok]
  exact fileEntries_synced_prefix fmt crc c es k syn hok hs x hx

/-- a successful fsync of the current file makes everything in it durable -/
theorem dur_of_inCur_sync {fmt : Format} {crc : Bytes → Nat} {st : Store} {c : Nat} {f : File} {e : Entry}
    (hg : NMap.get st c = some f) (he : e ∈ fileEntries fmt crc f.data) :
    Dur T fmt crc (syncFile st c) e := by
  unfold syncFile
  rw [hg]
  left
  refine ⟨c, { f with synced := f.data.length }, by rw [NMap.get_insert, if_pos rfl], ?_⟩
  simp only
  rw [List.take_length]
  exact he

/-! ### `ioSync` on the current file -/

theorem inv_ioSync {fmt : Format} {crc : Bytes → Nat} {acks : List AckRec} {pend : List Entry} {r : Rot} {c : Nat}
    (φ : Nat → Outcome) (h : Inv T fmt crc acks pend r) (hc : r.cur = some c) :
    let res := ioSync φ r.w c
    -- with the writer dropped afterwards (as `rotate` does)
    Inv T fmt crc acks pend { r with w := res.1, cur := none, poisoned := r.poisoned || !res.2 } ∧
    -- with the writer kept (as `sync` does)
    Inv T fmt crc acks pend { r with w := res.1, poisoned := r.poisoned || !res.2 } ∧
    (res.2 = true → r.poisoned = false → ∀ e ∈ pend, Dur T fmt crc res.1.store e) ∧
    res.1.io = r.w.io + 1 ∧ WInv res.1 := by
  have hcl := h.rinv.cur c hc
  have hmono : ∀ e, Dur T fmt crc r.w.store e → Dur T fmt crc (syncFile r.w.store c) e :=
    fun e he => dur_syncFile (curClean_sync_mono hcl) he
  unfold ioSync
  cases hφ : φ r.w.io with
  | ok =>
    simp only
    have hkeys : ∀ k f, NMap.get (syncFile r.w.store c) k = some f → k ≤ r.seq := by
      intro k f hk
      unfold syncFile at hk
      cases hg : NMap.get r.w.store c with
      | none => rw [hg] at hk; exact h.rinv.keys k f hk
      | some g =>
        rw [hg] at hk; simp only at hk
        rw [NMap.get_insert] at hk
        split at hk
        · rename_i hkc; subst hkc; exact h.rinv.keys k g hg
        · exact h.rinv.keys k f hk
    have hsyn : ∀ k f, NMap.get (syncFile r.w.store c) k = some f → FileOk fmt crc f := by
      intro k f hk
      unfold syncFile at hk
      cases hg : NMap.get r.w.store c with
      | none => rw [hg] at hk; exact h.rinv.syn k f hk
      | some g =>
        rw [hg] at hk; simp only at hk
        rw [NMap.get_insert] at hk
        split at hk
        · cases hk
          exact ⟨by simp, fun x hx => by simpa [List.take_length] using hx⟩
        · exact h.rinv.syn k f hk
    have hpd : r.poisoned = false → ∀ e ∈ pend, Dur T fmt crc (syncFile r.w.store c) e := by
      intro hp e he
      rcases h.pend hp e he with ⟨c', f, hc', hg, hef⟩ | hd
      · rw [hc] at hc'; cases hc'
        exact dur_of_inCur_sync hg hef
      · exact hmono e hd
    have hcur' : CurClean fmt crc (syncFile r.w.store c) c := by
      obtain ⟨es, k, syn, hg, hok, hk, hs⟩ := hcl
      refine ⟨es, es.length, (header fmt c ++ encs es).length, ?_, hok, Nat.le_refl _, Or.inr ?_⟩
      · unfold syncFile; rw [hg]; simp only; rw [NMap.get_insert, if_pos rfl]
      · rw [List.take_length]
    have hsafe := safe_push h.rinv.winv h.safe h.ackio (syncFile r.w.store c) (.sync c true) hmono
    have hio : ∀ a ∈ acks, a.io ≤ (r.w.push (syncFile r.w.store c) (.sync c true)).io := by
      intro a ha; rw [io_push]; exact Nat.le_succ_of_le (h.ackio a ha)
    refine ⟨⟨⟨hkeys, hsyn, ?_, winv_push h.rinv.winv _ _⟩, hsafe, hio, ?_⟩,
      ⟨⟨hkeys, hsyn, ?_, winv_push h.rinv.winv _ _⟩, hsafe, hio, ?_⟩, ?_, io_push _ _ _,
      winv_push h.rinv.winv _ _⟩
    · intro c' hc'; cases hc'
    · intro hp e he
      simp only [Bool.not_true, Bool.or_false] at hp
      exact Or.inr (hpd hp e he)
    · intro c' hc'
      simp only at hc'
      rw [hc] at hc'; cases hc'
      exact hcur'
    · intro hp e he
      simp only [Bool.not_true, Bool.or_false] at hp
      exact Or.inr (hpd hp e he)
    · intro _ hp e he
      exact hpd hp e he
  | fail | torn _ | diskFull =>
    simp only
    have hsafe := safe_push h.rinv.winv h.safe h.ackio r.w.store (.sync c false) (fun _ he => he)
    have hio : ∀ a ∈ acks, a.io ≤ (r.w.push r.w.store (.sync c false)).io := by
      intro a ha; rw [io_push]; exact Nat.le_succ_of_le (h.ackio a ha)
    refine ⟨⟨⟨h.rinv.keys, h.rinv.syn, ?_, winv_push h.rinv.winv _ _⟩, hsafe, hio, ?_⟩,
      ⟨⟨h.rinv.keys, h.rinv.syn, ?_, winv_push h.rinv.winv _ _⟩, hsafe, hio, ?_⟩, ?_, io_push _ _ _,
      winv_push h.rinv.winv _ _⟩
    · intro c' hc'; cases hc'
    · intro hp; simp at hp
    · intro c' hc'
      simp only at hc'
      rw [hc] at hc'; cases hc'
      exact hcl
    · intro hp; simp at hp
    · intro hc'; cases hc'


/-! ### `appendData` / `ioAppend` / `ioCreate` -/

theorem get_appendData (st : Store) (k : Nat) (bs : Bytes) (k' : Nat) :
    NMap.get (appendData st k bs) k' =
      if k' = k then (NMap.get st k).map (fun f => { f with data := f.data ++ bs })
      else NMap.get st k' := by
  unfold appendData
  cases hg : NMap.get st k with
  | none =>
    simp only [Option.map_none]
    split
    · rename_i h; subst h; exact hg
    · rfl
  | some f =>
    simp only [Option.map_some]
    rw [NMap.get_insert]

theorem keys_appendData {st : Store} {n : Nat} (k : Nat) (bs : Bytes)
    (h : ∀ k' f, NMap.get st k' = some f → k' ≤ n) :
    ∀ k' f, NMap.get (appendData st k bs) k' = some f → k' ≤ n := by
  intro k' f hg
  rw [get_appendData] at hg
  split at hg
  · rename_i hk; subst hk
    cases hs : NMap.get st k' with
    | none => rw [hs] at hg; cases hg
    | some g => exact h k' g hs
  · exact h k' f hg

theorem syn_appendData {fmt : Format} {crc : Bytes → Nat} {st : Store} (k : Nat) (bs : Bytes)
    (h : ∀ k' f, NMap.get st k' = some f → FileOk fmt crc f)
    (happ : ∀ f, NMap.get st k = some f →
      ∀ x ∈ fileEntries fmt crc f.data, x ∈ fileEntries fmt crc (f.data ++ bs)) :
    ∀ k' f, NMap.get (appendData st k bs) k' = some f → FileOk fmt crc f := by
  intro k' f hg
  rw [get_appendData] at hg
  split at hg
  · rename_i hk; subst hk
    cases hs : NMap.get st k' with
    | none => rw [hs] at hg; cases hg
    | some g =>
      rw [hs] at hg; simp only [Option.map_some, Option.some.injEq] at hg
      subst hg
      obtain ⟨h1, h2⟩ := h k' g hs
      refine ⟨by simp only [List.length_append]; omega, fun x hx => ?_⟩
      simp only at hx ⊢
      rw [List.take_append_of_le_length h1] at hx
      exact happ g hs x (h2 x hx)
  · exact h k' f hg

/-- the part of the invariant that does not mention the current writer or the pending set -/
structure Base (T : Nat) (fmt : Format) (crc : Bytes → Nat) (acks : List AckRec) (n : Nat) (w : World) : Prop where
  keys : ∀ k f, NMap.get w.store k = some f → k ≤ n
  syn : ∀ k f, NMap.get w.store k = some f → FileOk fmt crc f
  winv : WInv w
  safe : Safe T fmt crc acks w
  ackio : ∀ a ∈ acks, a.io ≤ w.io

theorem Inv.base {fmt : Format} {crc : Bytes → Nat} {acks : List AckRec} {pend : List Entry} {r : Rot}
    (h : Inv T fmt crc acks pend r) : Base T fmt crc acks r.seq r.w :=
  ⟨h.rinv.keys, h.rinv.syn, h.rinv.winv, h.safe, h.ackio⟩

theorem Base.mono_n {fmt : Format} {crc : Bytes → Nat} {acks : List AckRec} {n m : Nat} {w : World}
    (h : Base T fmt crc acks n w) (hnm : n ≤ m) : Base T fmt crc acks m w :=
  ⟨fun k f hk => Nat.le_trans (h.keys k f hk) hnm, h.syn, h.winv, h.safe, h.ackio⟩

/-- pushing a store that only grows what is durable keeps the base invariant -/
theorem Base.push {fmt : Format} {crc : Bytes → Nat} {acks : List AckRec} {n : Nat} {w : World}
    (h : Base T fmt crc acks n w) (st' : Store) (c : Call)
    (hkeys : ∀ k f, NMap.get st' k = some f → k ≤ n)
    (hsyn : ∀ k f, NMap.get st' k = some f → FileOk fmt crc f)
    (hmono : ∀ e, Dur T fmt crc w.store e → Dur T fmt crc st' e)
    (hc : ∀ s ok, c ≠ Call.create s ok true := by intro s ok h; cases h) :
    Base T fmt crc acks n (w.push st' c) :=
  ⟨hkeys, hsyn, winv_push h.winv _ _ hc, safe_push h.winv h.safe h.ackio st' c hmono,
    fun a ha => by rw [io_push]; exact Nat.le_succ_of_le (h.ackio a ha)⟩

theorem base_ioAppend {fmt : Format} {crc : Bytes → Nat} {acks : List AckRec} {n : Nat} {w : World}
    (φ : Nat → Outcome) (h : Base T fmt crc acks n w) (k : Nat) (bs : Bytes)
    (happ : ∀ f, NMap.get w.store k = some f → ∀ bs',
      ∀ x ∈ fileEntries fmt crc f.data, x ∈ fileEntries fmt crc (f.data ++ bs')) :
    Base T fmt crc acks n (ioAppend φ w k bs).1 ∧
    (∀ e, Dur T fmt crc w.store e → Dur T fmt crc (ioAppend φ w k bs).1.store e) ∧
    ((ioAppend φ w k bs).2 = none → (ioAppend φ w k bs).1.store = appendData w.store k bs) := by
  unfold ioAppend
  cases hφ : φ w.io with
  | ok =>
    simp only
    exact ⟨h.push _ _ (keys_appendData k bs h.keys)
      (syn_appendData k bs h.syn (fun f hf => happ f hf bs))
      (fun e he => dur_appendData (fun f hf => (h.syn k f hf).1) he),
      fun e he => dur_appendData (fun f hf => (h.syn k f hf).1) he, fun _ => rfl⟩
  | torn j =>
    simp only
    exact ⟨h.push _ _ (keys_appendData k _ h.keys)
      (syn_appendData k _ h.syn (fun f hf => happ f hf _))
      (fun e he => dur_appendData (fun f hf => (h.syn k f hf).1) he),
      fun e he => dur_appendData (fun f hf => (h.syn k f hf).1) he, fun hc => by cases hc⟩
  | fail | diskFull =>
    simp only
    exact ⟨h.push _ _ h.keys h.syn (fun _ he => he), fun _ he => he, fun hc => by cases hc⟩

theorem base_ioCreate {fmt : Format} {crc : Bytes → Nat} {acks : List AckRec} {n : Nat} {w : World}
    (φ : Nat → Outcome) (h : Base T fmt crc acks n w) :
    Base T fmt crc acks (n + 1) (ioCreate φ w (n + 1)).1 ∧
    (∀ e, Dur T fmt crc w.store e → Dur T fmt crc (ioCreate φ w (n + 1)).1.store e) ∧
    ((ioCreate φ w (n + 1)).2 = none →
      NMap.get (ioCreate φ w (n + 1)).1.store (n + 1) = some ⟨[], 0⟩) := by
  have hfresh : NMap.get w.store (n + 1) = none := by
    cases hg : NMap.get w.store (n + 1) with
    | none => rfl
    | some f => have := h.keys _ f hg; omega
  have h' := h.mono_n (Nat.le_succ n)
  have hc : ∀ (b : Bool) s ok, Call.create (n + 1) b (NMap.get w.store (n + 1)).isSome ≠ Call.create s ok true := by
    intro b s ok hcc
    rw [hfresh] at hcc
    cases hcc
  unfold ioCreate
  cases hφ : φ w.io with
  | ok =>
    simp only
    refine ⟨h'.push _ _ ?_ ?_ (fun e he => dur_insert_fresh hfresh he) (hc true),
      fun e he => dur_insert_fresh hfresh he, fun _ => by
        show NMap.get (NMap.insert (n + 1) _ w.store) (n + 1) = _
        rw [NMap.get_insert, if_pos rfl]⟩
    · intro k f hk
      rw [NMap.get_insert] at hk
      split at hk
      · rename_i hkk; omega
      · exact h'.keys k f hk
    · intro k f hk
      rw [NMap.get_insert] at hk
      split at hk
      · cases hk
        exact ⟨by simp, fun x hx => by simpa using hx⟩
      · exact h.syn k f hk
  | fail | torn _ | diskFull =>
    simp only
    exact ⟨h'.push _ _ h'.keys h'.syn (fun _ he => he) (hc false), fun _ he => he, fun hx => by cases hx⟩

/-! ### rotator operations -/

/-- build the invariant of a rotator without a current writer from the base part -/
theorem inv_of_base_nocur {fmt : Format} {crc : Bytes → Nat} {acks : List AckRec} {pend : List Entry} {r : Rot}
    (hb : Base T fmt crc acks r.seq r.w) (hc : r.cur = none)
    (hp : r.poisoned = false → ∀ e ∈ pend, Dur T fmt crc r.w.store e) : Inv T fmt crc acks pend r :=
  ⟨⟨hb.keys, hb.syn, (fun c hcc => by rw [hc] at hcc; cases hcc), hb.winv⟩, hb.safe, hb.ackio,
    fun hpz e he => Or.inr (hp hpz e he)⟩

/-- without a current writer every pending entry that is claimed is already durable -/
theorem pend_dur_of_nocur {fmt : Format} {crc : Bytes → Nat} {acks : List AckRec} {pend : List Entry} {r : Rot}
    (h : Inv T fmt crc acks pend r) (hc : r.cur = none) :
    r.poisoned = false → ∀ e ∈ pend, Dur T fmt crc r.w.store e := by
  intro hp e he
  rcases h.pend hp e he with ⟨c, f, hcc, _, _⟩ | hd
  · rw [hc] at hcc; cases hcc
  · exact hd

theorem inv_close {fmt : Format} {crc : Bytes → Nat} {acks : List AckRec} {pend : List Entry} {r : Rot}
    (fix : Bool) (φ : Nat → Outcome) (h : Inv T fmt crc acks pend r) :
    Inv T fmt crc acks pend (Rot.close fix φ r) ∧ (Rot.close fix φ r).cur = none ∧
      (Rot.close fix φ r).seq = r.seq := by
  unfold Rot.close
  cases hc : r.cur with
  | none => exact ⟨h, hc, rfl⟩
  | some c =>
    cases fix with
    | true =>
      exact ⟨(inv_ioSync φ h hc).1, rfl, rfl⟩
    | false =>
      exact ⟨⟨⟨h.rinv.keys, h.rinv.syn, (fun c' hc' => by cases hc'), h.rinv.winv⟩, h.safe, h.ackio,
        (fun hp => by cases hp)⟩, rfl, rfl⟩

theorem inv_rotate {fmt : Format} {crc : Bytes → Nat} {acks : List AckRec} {pend : List Entry} {r : Rot}
    (fix : Bool) (φ : Nat → Outcome) (h : Inv T fmt crc acks pend r) :
    Inv T fmt crc acks pend (Rot.rotate fix fmt φ r).1 ∧
    ((Rot.rotate fix fmt φ r).2 = none → ∃ c, (Rot.rotate fix fmt φ r).1.cur = some c) ∧
    ((Rot.rotate fix fmt φ r).2 ≠ none → (Rot.rotate fix fmt φ r).1.cur = none) := by
  obtain ⟨h1, hc1, _⟩ := inv_close fix φ h
  have hp1 := pend_dur_of_nocur h1 hc1
  have b1 := h1.base
  unfold Rot.rotate
  simp only
  generalize Rot.close fix φ r = r1 at h1 hc1 hp1 b1
  obtain ⟨bc, mc, gc⟩ := base_ioCreate (fmt := fmt) (crc := crc) (acks := acks) φ b1
  cases hcr : ioCreate φ r1.w (r1.seq + 1) with
  | mk w' oe =>
    rw [hcr] at bc mc gc
    cases oe with
    | some e =>
      simp only
      exact ⟨inv_of_base_nocur bc hc1 (fun hp e he => mc e (hp1 hp e he)), (fun hx => by cases hx),
        (fun _ => hc1)⟩
    | none =>
      simp only
      have gc' := gc rfl
      obtain ⟨ba, ma, ga⟩ := base_ioAppend (fmt := fmt) (crc := crc) (acks := acks) φ bc (r1.seq + 1)
        (header fmt (r1.seq + 1)) (by
          intro f hf bs' x hx
          rw [gc'] at hf; cases hf
          rw [fileEntries_nil] at hx; cases hx)
      cases hap : ioAppend φ w' (r1.seq + 1) (header fmt (r1.seq + 1)) with
      | mk w'' oe2 =>
        rw [hap] at ba ma ga
        cases oe2 with
        | some e =>
          simp only
          exact ⟨inv_of_base_nocur ba hc1 (fun hp e he => ma e (mc e (hp1 hp e he))),
            (fun hx => by cases hx), (fun _ => hc1)⟩
        | none =>
          simp only
          have hst := ga rfl
          refine ⟨⟨⟨ba.keys, ba.syn, ?_, ba.winv⟩, ba.safe, ba.ackio, ?_⟩, (fun _ => ⟨_, rfl⟩),
            (fun hx => absurd rfl hx)⟩
          · intro c hc
            simp only [Option.some.injEq] at hc
            subst hc
            refine ⟨[], 0, 0, ?_, (fun _ hx => by cases hx), Nat.le_refl _, Or.inl rfl⟩
            show NMap.get w''.store (r1.seq + 1) = _
            rw [hst, get_appendData, if_pos rfl, gc']
            simp [encs]
          · intro hp e he
            exact Or.inr (ma e (mc e (hp1 hp e he)))


theorem inv_appendTo {fmt : Format} {crc : Bytes → Nat} {acks : List AckRec} {pend : List Entry} {r : Rot}
    (φ : Nat → Outcome) (h : Inv T fmt crc acks pend r) (hcur : ∃ c, r.cur = some c) (e : Entry)
    (he : e.Good fmt crc) :
    ((Rot.appendTo φ r e).2 = none → Inv T fmt crc acks (pend ++ [e]) (Rot.appendTo φ r e).1) ∧
    (∀ x, (Rot.appendTo φ r e).2 = some x → Inv T fmt crc acks pend (Rot.appendTo φ r e).1) := by
  obtain ⟨c, hc⟩ := hcur
  obtain ⟨es, k, syn, hg, hok, hk, hs⟩ := h.rinv.cur c hc
  obtain ⟨ba, ma, ga⟩ := base_ioAppend (fmt := fmt) (crc := crc) (acks := acks) φ h.base c e.encode (by
    intro f hf bs' x hx
    rw [hg] at hf; cases hf
    simp only at hx ⊢
    rw [fileEntries_clean fmt crc c es hok] at hx
    rw [List.append_assoc, fileEntries_header, entries_encs_append fmt crc es bs' hok]
    exact List.mem_append_left _ hx)
  unfold Rot.appendTo
  rw [hc]
  simp only
  cases hap : ioAppend φ r.w c e.encode with
  | mk w' oe =>
    rw [hap] at ba ma ga
    cases oe with
    | none =>
      simp only
      have hst := ga rfl
      have hgnew : NMap.get w'.store c = some ⟨header fmt c ++ encs (es ++ [e]), syn⟩ := by
        rw [hst, get_appendData, if_pos rfl, hg]
        simp [encs]
      have hok' : AllOk fmt crc (es ++ [e]) := by
        intro x hx
        rcases List.mem_append.mp hx with h1 | h1
        · exact hok x h1
        · simp only [List.mem_singleton] at h1; subst h1; exact he
      refine ⟨fun _ => ⟨⟨ba.keys, ba.syn, ?_, ba.winv⟩, ba.safe, ba.ackio, ?_⟩, (fun x hx => by cases hx)⟩
      · intro c' hc'
        cases hc'
        refine ⟨es ++ [e], k, syn, hgnew, hok', (by simp only [List.length_append]; omega), ?_⟩
        rw [List.take_append_of_le_length hk]
        exact hs
      · intro hp x hx
        simp only at hp
        rcases List.mem_append.mp hx with h1 | h1
        · rcases h.pend hp x h1 with ⟨c', f, hc', hgf, hxf⟩ | hd
          · rw [hc] at hc'; cases hc'
            rw [hg] at hgf; cases hgf
            simp only at hxf
            rw [fileEntries_clean fmt crc c es hok] at hxf
            left
            refine ⟨c, _, rfl, hgnew, ?_⟩
            simp only
            rw [fileEntries_clean fmt crc c _ hok']
            exact List.mem_append_left _ hxf
          · exact Or.inr (ma x hd)
        · simp only [List.mem_singleton] at h1; subst h1
          left
          refine ⟨c, _, rfl, hgnew, ?_⟩
          simp only
          rw [fileEntries_clean fmt crc c _ hok']
          simp
    | some x =>
      simp only
      refine ⟨(fun hx => by cases hx), fun _ _ => ?_⟩
      exact inv_of_base_nocur ba rfl (fun hp => by cases hp)

theorem needsNew_false_cur {r : Rot} (h : r.needsNew = false) : ∃ c, r.cur = some c := by
  unfold Rot.needsNew at h
  cases hc : r.cur with
  | none => rw [hc] at h; cases h
  | some c => exact ⟨c, rfl⟩

theorem inv_append {fmt : Format} {crc : Bytes → Nat} {acks : List AckRec} {pend : List Entry} {r : Rot}
    (fix : Bool) (φ : Nat → Outcome) (h : Inv T fmt crc acks pend r) (e : Entry)
    (he : e.Good fmt crc) :
    ((Rot.append fix fmt φ r e).2 = none → Inv T fmt crc acks (pend ++ [e]) (Rot.append fix fmt φ r e).1) ∧
    (∀ x, (Rot.append fix fmt φ r e).2 = some x → Inv T fmt crc acks pend (Rot.append fix fmt φ r e).1) := by
  unfold Rot.append
  cases hn : r.needsNew with
  | false =>
    simp only [Bool.false_eq_true, if_false]
    exact inv_appendTo φ h (needsNew_false_cur hn) e he
  | true =>
    simp only [if_true]
    obtain ⟨h1, hc1, hc2⟩ := inv_rotate fix φ h
    cases hr : Rot.rotate fix fmt φ r with
    | mk r1 oe =>
      rw [hr] at h1 hc1 hc2
      cases oe with
      | some x =>
        simp only
        exact ⟨(fun hx => by cases hx), fun _ _ => h1⟩
      | none =>
        simp only
        exact inv_appendTo φ h1 (hc1 rfl) e he

theorem storeAt_le {w : World} (h : WInv w) {t : Nat} {st : Store} (hs : w.storeAt t = some st) :
    t ≤ w.io := by
  unfold World.storeAt at hs
  have := (List.getElem?_eq_some_iff.mp hs).1
  rw [List.length_reverse, h.1] at this
  unfold World.io; omega

/-- acks sent "now" for entries that are durable "now" may be added -/
theorem inv_add_acks {fmt : Format} {crc : Bytes → Nat} {acks new : List AckRec} {pend : List Entry} {r : Rot}
    (h : Inv T fmt crc acks pend r)
    (hn : ∀ a ∈ new, a.io = r.w.io ∧ (a.res = .ok → Dur T fmt crc r.w.store a.entry)) :
    Inv T fmt crc (new ++ acks) pend r := by
  refine ⟨h.rinv, ?_, ?_, h.pend⟩
  · intro a ha hok t st hle hst
    rcases List.mem_append.mp ha with h1 | h1
    · obtain ⟨hio, hd⟩ := hn a h1
      have ht : t = r.w.io := by
        have := storeAt_le h.rinv.winv hst
        omega
      subst ht
      rw [storeAt_io h.rinv.winv] at hst
      cases hst
      exact hd hok
    · exact h.safe a h1 hok t st hle hst
  · intro a ha
    rcases List.mem_append.mp ha with h1 | h1
    · exact Nat.le_of_eq (hn a h1).1
    · exact h.ackio a h1

theorem inv_sync {fmt : Format} {crc : Bytes → Nat} {acks : List AckRec} {pend : List Entry} {r : Rot}
    (fix : Bool) (φ : Nat → Outcome) (h : Inv T fmt crc acks pend r)
    (hq : fix = true ∨ r.poisoned = false) :
    Inv T fmt crc acks [] (Rot.sync fix φ r).1 ∧
    ((Rot.sync fix φ r).2 = true → ∀ e ∈ pend, Dur T fmt crc (Rot.sync fix φ r).1.w.store e) := by
  unfold Rot.sync
  by_cases hfp : (fix && r.poisoned) = true
  · rw [if_pos hfp]
    exact ⟨⟨⟨h.rinv.keys, h.rinv.syn, h.rinv.cur, h.rinv.winv⟩, h.safe, h.ackio,
      (fun _ e he => by cases he)⟩, (fun hx => by cases hx)⟩
  · rw [if_neg hfp]
    have hpz : r.poisoned = false := by
      rcases hq with hq | hq
      · subst hq; simpa using hfp
      · exact hq
    cases hc : r.cur with
    | none =>
      simp only
      exact ⟨⟨⟨h.rinv.keys, h.rinv.syn, (fun c hcc => by cases hcc),
        h.rinv.winv⟩, h.safe, h.ackio, (fun _ e he => by cases he)⟩,
        (fun _ => pend_dur_of_nocur h hc hpz)⟩
    | some c =>
      simp only
      obtain ⟨_, hk, hd, _, _⟩ := inv_ioSync φ h hc
      exact ⟨⟨⟨hk.rinv.keys, hk.rinv.syn, (fun c' hc' => hk.rinv.cur c' (by simpa [hc] using hc')),
        hk.rinv.winv⟩, hk.safe, hk.ackio, (fun _ e he => by cases he)⟩, (fun hok => hd hok hpz)⟩


/-! ## weakening -/

theorem Inv.mono_T {T T' : Nat} {fmt : Format} {crc : Bytes → Nat} {acks : List AckRec}
    {pend : List Entry} {r : Rot} (hT : T ≤ T') (h : Inv T fmt crc acks pend r) :
    Inv T' fmt crc acks pend r :=
  ⟨h.rinv, fun a ha hok t st hle hst => (h.safe a ha hok t st hle hst).mono_T hT, h.ackio,
    fun hp e he => (h.pend hp e he).imp id (Dur.mono_T hT)⟩

theorem Inv.pend_sub {T : Nat} {fmt : Format} {crc : Bytes → Nat} {acks : List AckRec}
    {pend pend' : List Entry} {r : Rot} (hs : ∀ e ∈ pend', e ∈ pend) (h : Inv T fmt crc acks pend r) :
    Inv T fmt crc acks pend' r :=
  ⟨h.rinv, h.safe, h.ackio, fun hp e he => h.pend hp e (hs e he)⟩

/-! ## `truncate_before` on the live store -/

theorem get_deleteFile (st : Store) (k k' : Nat) :
    NMap.get (deleteFile st k) k' = if k' = k then none else NMap.get st k' := by
  unfold deleteFile
  induction st with
  | nil => simp [NMap.get]
  | cons p st ih =>
    obtain ⟨kp, vp⟩ := p
    simp only [List.filter_cons]
    by_cases hkp : kp = k
    · subst hkp
      simp only [bne_self_eq_false, Bool.false_eq_true, if_false]
      rw [ih]
      simp only [NMap.get]
      by_cases h : k' = kp
      · simp [h]
      · simp [h]
    · have : (kp != k) = true := by simpa using hkp
      simp only [this, if_true, NMap.get]
      rw [ih]
      by_cases h : k' = kp
      · subst h; simp [hkp]
      · simp [h]

theorem deletable_ts (fmt : Format) (crc : Bytes → Nat) (thr : Nat) (bs : Bytes)
    (h : deletable fmt crc thr bs = true) : ∀ e ∈ fileEntries fmt crc bs, e.ts ≤ thr := by
  intro e he
  unfold deletable at h
  unfold fileEntries at he
  cases hr : readFile fmt crc bs with
  | none => rw [hr] at he; cases he
  | some es =>
    rw [hr] at h he
    simp only [Bool.or_eq_true, List.isEmpty_iff, decide_eq_true_eq] at h he
    rcases h with h | h
    · subst h; cases he
    · exact Nat.le_trans (le_maxTs he) h

/-- deleting a file that is not the current writer's and whose readable entries are all
    stamped ≤ `thr < T` keeps the invariant (what it held is exempt from the durability claim) -/
theorem inv_ioDelete {T : Nat} {fmt : Format} {crc : Bytes → Nat} {acks : List AckRec}
    {pend : List Entry} {r : Rot} (φ : Nat → Outcome) (k thr : Nat)
    (h : Inv T fmt crc acks pend r) (hcur : r.cur ≠ some k) (hT : thr < T)
    (hdel : ∀ f, NMap.get r.w.store k = some f → deletable fmt crc thr f.data = true) :
    Inv T fmt crc acks pend { r with w := (ioDelete φ r.w k).1 } := by
  unfold ioDelete
  cases hφ : φ r.w.io with
  | ok =>
    simp only
    have hget : ∀ k' f, NMap.get (deleteFile r.w.store k) k' = some f → NMap.get r.w.store k' = some f := by
      intro k' f hk
      rw [get_deleteFile] at hk
      split at hk
      · cases hk
      · exact hk
    have hmono : ∀ e, Dur T fmt crc r.w.store e → Dur T fmt crc (deleteFile r.w.store k) e := by
      intro e he
      rcases he with ⟨k', g, hg, hx⟩ | he
      · by_cases hk : k' = k
        · subst hk
          right
          have := deletable_ts fmt crc thr g.data (hdel g hg) e ((h.rinv.syn k' g hg).2 e hx)
          omega
        · left
          exact ⟨k', g, by rw [get_deleteFile, if_neg hk, hg], hx⟩
      · exact Or.inr he
    refine ⟨⟨fun k' f hk => h.rinv.keys k' f (hget k' f hk), fun k' f hk => h.rinv.syn k' f (hget k' f hk),
      ?_, winv_push h.rinv.winv _ _⟩,
      safe_push h.rinv.winv h.safe h.ackio _ _ hmono,
      (fun a ha => by rw [io_push]; exact Nat.le_succ_of_le (h.ackio a ha)), ?_⟩
    · intro c hc
      obtain ⟨es, kk, syn, hg, hrest⟩ := h.rinv.cur c hc
      refine ⟨es, kk, syn, ?_, hrest⟩
      show NMap.get (deleteFile r.w.store k) c = _
      rw [get_deleteFile, if_neg (by intro hck; subst hck; exact hcur hc), hg]
    · intro hp e he
      rcases h.pend hp e he with ⟨c, f, hc, hg, hx⟩ | hd
      · left
        refine ⟨c, f, hc, ?_, hx⟩
        show NMap.get (deleteFile r.w.store k) c = _
        rw [get_deleteFile, if_neg (by intro hck; subst hck; exact hcur hc), hg]
      · exact Or.inr (hmono e hd)
  | fail | torn _ | diskFull =>
    simp only
    exact ⟨⟨h.rinv.keys, h.rinv.syn, h.rinv.cur, winv_push h.rinv.winv _ _⟩,
      safe_push h.rinv.winv h.safe h.ackio _ _ (fun _ he => he),
      (fun a ha => by rw [io_push]; exact Nat.le_succ_of_le (h.ackio a ha)), h.pend⟩

theorem inv_truncLoop {T : Nat} {fmt : Format} {crc : Bytes → Nat} {acks : List AckRec}
    {pend : List Entry} (φ : Nat → Outcome) (thr : Nat) (hT : thr < T) (r : Rot) (victims : List Nat)
    (w : World) (h : Inv T fmt crc acks pend { r with w := w })
    (hv : ∀ k ∈ victims, r.cur ≠ some k ∧
      ∀ f, NMap.get w.store k = some f → deletable fmt crc thr f.data = true) :
    Inv T fmt crc acks pend { r with w := truncLoop φ victims w } := by
  induction victims generalizing w with
  | nil => exact h
  | cons k rest ih =>
    simp only [truncLoop]
    have hk := hv k (by simp)
    have h1 := inv_ioDelete (r := { r with w := w }) φ k thr h hk.1 hT hk.2
    cases hd : ioDelete φ w k with
    | mk w' ok =>
      simp only [hd] at h1
      cases ok with
      | false => exact h1
      | true =>
        simp only
        apply ih w' h1
        intro k' hk'
        refine ⟨(hv k' (List.mem_cons_of_mem _ hk')).1, fun f hf => ?_⟩
        apply (hv k' (List.mem_cons_of_mem _ hk')).2 f
        -- a file still present after the deletion was present before
        unfold ioDelete at hd
        cases hφ : φ w.io with
        | ok =>
          rw [hφ] at hd
          simp only [Prod.mk.injEq] at hd
          rw [← hd.1] at hf
          change NMap.get (deleteFile w.store k) k' = some f at hf
          rw [get_deleteFile] at hf
          split at hf
          · cases hf
          · exact hf
        | fail | torn _ | diskFull =>
          rw [hφ] at hd
          simp only [Prod.mk.injEq] at hd
          cases hd.2

theorem inv_truncate {T : Nat} {fmt : Format} {crc : Bytes → Nat} {acks : List AckRec}
    {pend : List Entry} {r : Rot} (φ : Nat → Outcome) (thr : Nat) (hT : thr < T)
    (h : Inv T fmt crc acks pend r) : Inv T fmt crc acks pend (Rot.truncate fmt crc φ thr r) := by
  unfold Rot.truncate
  simp only
  apply inv_truncLoop φ thr hT r _ r.w h
  intro k hk
  rw [List.mem_filter] at hk
  have hc := hk.2
  simp only [Bool.and_eq_true, bne_iff_ne, ne_eq] at hc
  refine ⟨hc.1, fun f hf => ?_⟩
  have := hc.2
  rw [hf] at this
  exact this

/-! ## restart: a new rotator over the store of the previous incarnation -/

theorem get_crashStore (st : Store) (k : Nat) :
    NMap.get (crashStore st) k
      = (NMap.get st k).map (fun f => (⟨f.data.take f.synced, (f.data.take f.synced).length⟩ : File)) := by
  unfold crashStore
  induction st with
  | nil => rfl
  | cons p st ih =>
    obtain ⟨kp, vp⟩ := p
    simp only [List.map_cons, NMap.get]
    split
    · rfl
    · exact ih

theorem le_maxKey {st : Store} {k : Nat} {f : File} (h : NMap.get st k = some f) : k ≤ maxKey st := by
  induction st with
  | nil => cases h
  | cons p st ih =>
    obtain ⟨kp, vp⟩ := p
    simp only [maxKey, List.foldr_cons]
    simp only [NMap.get] at h
    split at h
    · rename_i hk; subst hk; exact Nat.le_max_left _ _
    · exact Nat.le_trans (ih h) (Nat.le_max_right _ _)

/-- a crash keeps everything that was durable -/
theorem dur_crashStore {T : Nat} {fmt : Format} {crc : Bytes → Nat} {st : Store} {e : Entry}
    (h : Dur T fmt crc st e) : Dur T fmt crc (crashStore st) e := by
  rcases h with ⟨k, f, hg, he⟩ | h
  · left
    refine ⟨k, ⟨f.data.take f.synced, (f.data.take f.synced).length⟩, by rw [get_crashStore, hg]; rfl, ?_⟩
    simp only
    rw [List.take_length]
    exact he
  · exact Or.inr h

/-- the machine crashes and a new rotator (CURRENT `WalRotator::new`: `current_sequence` = the
    highest sequence found) is opened over what is left -/
theorem inv_reopen_crash {T : Nat} {fmt : Format} {crc : Bytes → Nat} {acks : List AckRec}
    {pend : List Entry} {r : Rot} (h : Inv T fmt crc acks pend r) :
    Inv T fmt crc acks [] (Rot.reopen false { r with w := r.w.push (crashStore r.w.store) .crash }) := by
  unfold Rot.reopen
  simp only [Bool.false_eq_true, if_false]
  refine ⟨⟨?_, ?_, (fun c hc => by cases hc), winv_push h.rinv.winv _ _⟩,
    safe_push h.rinv.winv h.safe h.ackio _ _ (fun e he => dur_crashStore he),
    (fun a ha => by rw [io_push]; exact Nat.le_succ_of_le (h.ackio a ha)), (fun _ e he => by cases he)⟩
  · intro k f hk
    exact le_maxKey hk
  · intro k f hk
    change NMap.get (crashStore r.w.store) k = some f at hk
    rw [get_crashStore] at hk
    cases hg : NMap.get r.w.store k with
    | none => rw [hg] at hk; cases hk
    | some g =>
      rw [hg] at hk
      simp only [Option.map_some, Option.some.injEq] at hk
      subst hk
      exact ⟨Nat.le_refl _, fun x hx => by simp only [List.take_length] at hx; exact hx⟩

/-- a clean restart: nothing on disk changes, the new rotator continues after the highest
    existing sequence -/
theorem inv_reopen_clean {T : Nat} {fmt : Format} {crc : Bytes → Nat} {acks : List AckRec} {r : Rot}
    (h : Inv T fmt crc acks [] r) : Inv T fmt crc acks [] (Rot.reopen false r) := by
  unfold Rot.reopen
  simp only [Bool.false_eq_true, if_false]
  exact ⟨⟨fun k f hk => le_maxKey hk, h.rinv.syn, (fun c hc => by cases hc), h.rinv.winv⟩, h.safe, h.ackio,
    (fun _ e he => by cases he)⟩

/-! ## at most as many writers wait as entries were appended since the last fsync -/

theorem pending_len_step (fix tk : Bool) (fmt : Format) (φ : Nat → Outcome) (crc : Bytes → Nat)
    (a : Actor) (ev : Ev) (h : a.pending.length ≤ a.esync) :
    (Actor.step fix tk φ fmt crc a ev).pending.length ≤ (Actor.step fix tk φ fmt crc a ev).esync := by
  cases ev with
  | write w =>
    simp only [Actor.step, Actor.handleWrite]
    cases Rot.append fix fmt φ a.rot (Entry.mk' fmt crc w.data w.ts) with
    | mk r oe =>
      cases oe with
      | none => simp; omega
      | some x => simpa using h
  | forget w =>
    simp only [Actor.step, Actor.handleForget]
    cases Rot.append fix fmt φ a.rot (Entry.mk' fmt crc w.data w.ts) with
    | mk r oe =>
      cases oe with
      | none => simp only; omega
      | some x => simpa using h
  | tick =>
    simp only [Actor.step, Actor.handleTick]
    split <;> exact h
  | truncate thr => exact h
  | flush =>
    simp only [Actor.step, Actor.flush]
    split
    · exact h
    · exact Nat.le_refl _
  | reopen crash reuse =>
    simp only [Actor.step, Actor.reopen]
    cases crash with
    | true => simp
    | false =>
      simp only [Bool.false_eq_true, if_false, Actor.flush]
      split
      · exact h
      · exact Nat.le_refl _

theorem pending_len_foldl (fix tk : Bool) (fmt : Format) (φ : Nat → Outcome) (crc : Bytes → Nat)
    (evs : List Ev) (a : Actor) (h : a.pending.length ≤ a.esync) :
    (evs.foldl (Actor.step fix tk φ fmt crc) a).pending.length
      ≤ (evs.foldl (Actor.step fix tk φ fmt crc) a).esync := by
  induction evs generalizing a with
  | nil => exact h
  | cons ev evs ih => exact ih _ (pending_len_step fix tk fmt φ crc a ev h)

/-! ## the actor -/

def AInv (fmt : Format) (crc : Bytes → Nat) (a : Actor) : Prop :=
  Inv a.tbound fmt crc a.acks (a.pending.map (·.2)) a.rot

theorem inv_init (fmt : Format) (crc : Bytes → Nat) (maxSize : Nat) : AInv fmt crc (Actor.init maxSize) := by
  refine ⟨⟨?_, ?_, ?_, winv_init⟩, ?_, ?_, ?_⟩
  · intro k f h; cases h
  · intro k f h; cases h
  · intro c h; cases h
  · intro a ha; cases ha
  · intro a ha; cases ha
  · intro _ e he; cases he

theorem ainv_handleWrite {fmt : Format} {crc : Bytes → Nat} {a : Actor} (fix : Bool) (φ : Nat → Outcome)
    (h : AInv fmt crc a) (w : Write) (hw : w.Ok fmt crc) : AInv fmt crc (Actor.handleWrite fix φ fmt crc a w) := by
  unfold Actor.handleWrite
  simp only
  obtain ⟨h1, h2⟩ := inv_append fix φ h (Entry.mk' fmt crc w.data w.ts) ⟨hw.1, rfl, hw.2⟩
  cases hr : Rot.append fix fmt φ a.rot (Entry.mk' fmt crc w.data w.ts) with
  | mk r oe =>
    rw [hr] at h1 h2
    cases oe with
    | none =>
      simp only
      unfold AInv
      simp only [List.map_append, List.map_cons, List.map_nil]
      exact h1 rfl
    | some x =>
      simp only
      unfold AInv
      simp only
      have := inv_add_acks (new := [⟨w.id, Entry.mk' fmt crc w.data w.ts, .err x, r.w.io⟩]) (h2 x rfl)
        (by
          intro a' ha'
          simp only [List.mem_singleton] at ha'
          subst ha'
          exact ⟨rfl, fun hc => by cases hc⟩)
      simpa using this

theorem ainv_handleForget {fmt : Format} {crc : Bytes → Nat} {a : Actor} (fix : Bool) (φ : Nat → Outcome)
    (h : AInv fmt crc a) (w : Write) (hw : w.Ok fmt crc) : AInv fmt crc (Actor.handleForget fix φ fmt crc a w) := by
  unfold Actor.handleForget
  obtain ⟨h1, h2⟩ := inv_append fix φ h (Entry.mk' fmt crc w.data w.ts) ⟨hw.1, rfl, hw.2⟩
  cases hr : Rot.append fix fmt φ a.rot (Entry.mk' fmt crc w.data w.ts) with
  | mk r oe =>
    rw [hr] at h1 h2
    cases oe with
    | none =>
      simp only
      unfold AInv
      exact (h1 rfl).pend_sub (fun e he => List.mem_append_left _ he)
    | some x =>
      simp only
      exact h2 x rfl

theorem ainv_handleTruncate {fmt : Format} {crc : Bytes → Nat} {a : Actor} (φ : Nat → Outcome)
    (h : AInv fmt crc a) (thr : Nat) : AInv fmt crc (Actor.handleTruncate φ fmt crc a thr) := by
  unfold Actor.handleTruncate AInv
  simp only
  apply inv_truncate φ thr (Nat.lt_of_lt_of_le (Nat.lt_succ_self thr) (Nat.le_max_right _ _))
  exact Inv.mono_T (Nat.le_max_left _ _) h

theorem ainv_flush {fmt : Format} {crc : Bytes → Nat} {a : Actor} (fix : Bool) (φ : Nat → Outcome)
    (h : AInv fmt crc a) (hq : fix = true ∨ a.esync = 0 ∨ a.rot.poisoned = false) :
    AInv fmt crc (Actor.flush fix φ a) := by
  unfold Actor.flush
  by_cases he : a.esync = 0
  · rw [if_pos he]; exact h
  · rw [if_neg he]
    have hq' : fix = true ∨ a.rot.poisoned = false := by
      rcases hq with h1 | h1 | h1
      · exact Or.inl h1
      · exact absurd h1 he
      · exact Or.inr h1
    obtain ⟨h1, h2⟩ := inv_sync fix φ h hq'
    cases hr : Rot.sync fix φ a.rot with
    | mk r ok =>
      rw [hr] at h1 h2
      simp only
      unfold AInv
      simp only [List.map_nil]
      apply inv_add_acks h1
      intro a' ha'
      rw [List.mem_reverse, List.mem_map] at ha'
      obtain ⟨p, hp, rfl⟩ := ha'
      refine ⟨rfl, fun hok => ?_⟩
      simp only at hok ⊢
      cases ok with
      | false => simp at hok
      | true => exact h2 rfl p.2 (List.mem_map.mpr ⟨p, hp, rfl⟩)

/-- the decidable side condition of the partial theorem about the OLD rotator: when a group
    fsync is about to acknowledge entries, no writer has been dropped (by a rotation or an append
    error) since the previous one -/
def Actor.quietStep (a : Actor) : Ev → Bool
  | .flush => a.esync == 0 || !a.rot.poisoned
  | .reopen false _ => a.esync == 0 || !a.rot.poisoned   -- a clean shutdown flushes
  | _ => true

def Actor.quiet (φ : Nat → Outcome) (fmt : Format) (crc : Bytes → Nat) : List Ev → Actor → Bool
  | [], _ => true
  | ev :: evs, a => a.quietStep ev && Actor.quiet φ fmt crc evs (Actor.step false false φ fmt crc a ev)

/-- the payloads of the write events (durable or fire-and-forget) fit -/
def Ev.Ok (fmt : Format) (crc : Bytes → Nat) : Ev → Prop
  | .write w => w.Ok fmt crc
  | .forget w => w.Ok fmt crc
  | .reopen _ reuse => reuse = false     -- the CURRENT `WalRotator::new` / `rotate`
  | _ => True

instance (fmt : Format) (crc : Bytes → Nat) : DecidablePred (Ev.Ok fmt crc) := fun ev => by
  cases ev <;> simp only [Ev.Ok] <;> infer_instance

/-- one step of the CURRENT actor (`tickSyncs = false`: a `SyncTick` is a no-op in Always mode) -/
theorem ainv_step {fmt : Format} {crc : Bytes → Nat} {a : Actor} (fix : Bool) (φ : Nat → Outcome)
    (h : AInv fmt crc a) (hlen : a.pending.length ≤ a.esync) (ev : Ev) (hw : ev.Ok fmt crc)
    (hq : fix = true ∨ a.quietStep ev = true) : AInv fmt crc (Actor.step fix false φ fmt crc a ev) := by
  cases ev with
  | reopen crash reuse =>
    simp only [Ev.Ok] at hw
    subst hw
    simp only [Actor.step, Actor.reopen]
    cases crash with
    | true =>
      simp only [if_true]
      unfold AInv
      simp only [List.map_nil]
      have h1 := inv_reopen_crash h
      apply inv_add_acks h1
      intro a' ha'
      rw [List.mem_reverse, List.mem_map] at ha'
      obtain ⟨p, _, rfl⟩ := ha'
      exact ⟨rfl, fun hc => by cases hc⟩
    | false =>
      simp only [Bool.false_eq_true, if_false]
      -- after the final flush nothing is pending
      have hq' : fix = true ∨ a.esync = 0 ∨ a.rot.poisoned = false := by
        rcases hq with hq | hq
        · exact Or.inl hq
        · right
          simp only [Actor.quietStep, Bool.or_eq_true, beq_iff_eq, Bool.not_eq_true'] at hq
          exact hq
      have h1 := ainv_flush fix φ h hq'
      have hp : (Actor.flush fix φ a).pending = [] := by
        unfold Actor.flush
        split
        · rename_i h0
          exact List.length_eq_zero_iff.mp (by omega)
        · rfl
      unfold AInv at h1 ⊢
      simp only
      rw [hp] at h1 ⊢
      exact inv_reopen_clean h1
  | write w => exact ainv_handleWrite fix φ h w hw
  | forget w => exact ainv_handleForget fix φ h w hw
  | tick => exact h
  | truncate thr => exact ainv_handleTruncate φ h thr
  | flush =>
    apply ainv_flush fix φ h
    rcases hq with hq | hq
    · exact Or.inl hq
    · right
      simp only [Actor.quietStep, Bool.or_eq_true, beq_iff_eq, Bool.not_eq_true'] at hq
      exact hq

theorem ainv_foldl {fmt : Format} {crc : Bytes → Nat} (fix : Bool) (φ : Nat → Outcome) (evs : List Ev) (a : Actor)
    (h : AInv fmt crc a) (hlen : a.pending.length ≤ a.esync) (hw : ∀ ev ∈ evs, ev.Ok fmt crc)
    (hq : fix = true ∨ Actor.quiet φ fmt crc evs a = true) :
    AInv fmt crc (evs.foldl (Actor.step fix false φ fmt crc) a) := by
  induction evs generalizing a with
  | nil => exact h
  | cons ev evs ih =>
    simp only [List.foldl_cons]
    rcases hq with hq | hq
    · exact ih _ (ainv_step fix φ h hlen ev (hw ev (by simp)) (Or.inl hq))
        (pending_len_step fix false fmt φ crc a ev hlen)
        (fun e he => hw e (List.mem_cons_of_mem _ he)) (Or.inl hq)
    · cases fix with
      | true =>
        exact ih _ (ainv_step true φ h hlen ev (hw ev (by simp)) (Or.inl rfl))
          (pending_len_step true false fmt φ crc a ev hlen)
          (fun e he => hw e (List.mem_cons_of_mem _ he)) (Or.inl rfl)
      | false =>
        simp only [Actor.quiet, Bool.and_eq_true] at hq
        exact ih _ (ainv_step false φ h hlen ev (hw ev (by simp)) (Or.inr hq.1))
          (pending_len_step false false fmt φ crc a ev hlen)
          (fun e he => hw e (List.mem_cons_of_mem _ he)) (Or.inr hq.2)

theorem pending_len_flush (fix : Bool) (φ : Nat → Outcome) (a : Actor) (h : a.pending.length ≤ a.esync) :
    (Actor.flush fix φ a).pending.length ≤ (Actor.flush fix φ a).esync := by
  unfold Actor.flush
  split
  · exact h
  · exact Nat.le_refl _

theorem ainv_runGroup {fmt : Format} {crc : Bytes → Nat} (φ : Nat → Outcome) (m : Nat) (msgs : List Ev) (a : Actor)
    (h : AInv fmt crc a) (hlen : a.pending.length ≤ a.esync) (hw : ∀ ev ∈ msgs, ev.Ok fmt crc) :
    AInv fmt crc (Actor.runGroup true false φ fmt crc m a msgs) ∧
    (Actor.runGroup true false φ fmt crc m a msgs).pending.length
      ≤ (Actor.runGroup true false φ fmt crc m a msgs).esync := by
  unfold Actor.runGroup
  suffices hs : AInv fmt crc (msgs.foldl (fun a ev =>
        let a1 := Actor.step true false φ fmt crc a ev
        if m ≤ a1.esync then Actor.flush true φ a1 else a1) a) ∧
      (msgs.foldl (fun a ev =>
        let a1 := Actor.step true false φ fmt crc a ev
        if m ≤ a1.esync then Actor.flush true φ a1 else a1) a).pending.length ≤
      (msgs.foldl (fun a ev =>
        let a1 := Actor.step true false φ fmt crc a ev
        if m ≤ a1.esync then Actor.flush true φ a1 else a1) a).esync from
    ⟨ainv_flush true φ hs.1 (Or.inl rfl), pending_len_flush true φ _ hs.2⟩
  induction msgs generalizing a with
  | nil => exact ⟨h, hlen⟩
  | cons ev msgs ih =>
    simp only [List.foldl_cons]
    have h1 := ainv_step true φ h hlen ev (hw ev (by simp)) (Or.inl rfl)
    have l1 := pending_len_step true false fmt φ crc a ev hlen
    apply ih
    · split
      · exact ainv_flush true φ h1 (Or.inl rfl)
      · exact h1
    · split
      · exact pending_len_flush true φ _ l1
      · exact l1
    · intro x hx; exact hw x (List.mem_cons_of_mem _ hx)

/-! ## every write is answered exactly once -/

/-- ids already answered, then ids still waiting for the group fsync -/
def Actor.ids (a : Actor) : List Nat := a.acks.map (·.id) ++ a.pending.map (·.1)

/-- ids of the `write_durable` calls of an event (the other messages expect no answer) -/
def Ev.ids : Ev → List Nat
  | .write w => [w.id]
  | _ => []

theorem ids_step_perm (fix tk : Bool) (fmt : Format) (φ : Nat → Outcome) (crc : Bytes → Nat)
    (a : Actor) (ev : Ev) :
    List.Perm (Actor.step fix tk φ fmt crc a ev).ids (a.ids ++ ev.ids) := by
  cases ev with
  | write w =>
    simp only [Actor.step, Actor.handleWrite, Ev.ids]
    cases Rot.append fix fmt φ a.rot (Entry.mk' fmt crc w.data w.ts) with
    | mk r oe =>
      cases oe with
      | none =>
        simp only [Actor.ids, List.map_append, List.map_cons, List.map_nil, List.append_assoc]
        exact List.Perm.refl _
      | some x =>
        simp only [Actor.ids, List.map_cons, List.cons_append]
        exact (List.perm_append_singleton _ _).symm
  | forget w =>
    simp only [Actor.step, Actor.handleForget, Ev.ids, List.append_nil]
    cases Rot.append fix fmt φ a.rot (Entry.mk' fmt crc w.data w.ts) with
    | mk r oe => cases oe <;> exact List.Perm.refl _
  | tick =>
    simp only [Actor.step, Actor.handleTick, Ev.ids, List.append_nil]
    split <;> exact List.Perm.refl _
  | truncate thr =>
    simp only [Actor.step, Actor.handleTruncate, Ev.ids, List.append_nil]
    exact List.Perm.refl _
  | flush =>
    simp only [Actor.step, Actor.flush, Ev.ids, List.append_nil]
    split
    · exact List.Perm.refl _
    · simp only [Actor.ids, List.map_append, List.map_reverse, List.map_map, List.map_nil,
        List.append_nil]
      have : (List.map ((fun x => x.id) ∘ fun p =>
          ({ id := p.1, entry := p.2,
             res := if (Rot.sync fix φ a.rot).2 = true then Ack.ok else Ack.err Err.fsync,
             io := (Rot.sync fix φ a.rot).1.w.io } : AckRec)) a.pending)
          = a.pending.map (·.1) := by
        apply List.map_congr_left; intro p _; rfl
      rw [this]
      exact (List.reverse_perm _).append_right _ |>.trans List.perm_append_comm
  | reopen crash reuse =>
    simp only [Actor.step, Actor.reopen, Ev.ids, List.append_nil]
    cases crash with
    | true =>
      simp only [if_true, Actor.ids, List.map_append, List.map_reverse, List.map_map, List.map_nil,
        List.append_nil]
      have : (List.map ((fun x => x.id) ∘ fun p =>
          ({ id := p.1, entry := p.2, res := Ack.err Err.io,
             io := (a.rot.w.push (crashStore a.rot.w.store) Call.crash).io } : AckRec)) a.pending)
          = a.pending.map (·.1) := by
        apply List.map_congr_left; intro p _; rfl
      rw [this]
      exact (List.reverse_perm _).append_right _ |>.trans List.perm_append_comm
    | false =>
      simp only [Bool.false_eq_true, if_false]
      have := ids_step_perm fix tk fmt φ crc a .flush
      simpa [Actor.step, Actor.ids, Ev.ids] using this

theorem ids_foldl_perm (fix tk : Bool) (fmt : Format) (φ : Nat → Outcome) (crc : Bytes → Nat)
    (evs : List Ev) (a : Actor) :
    List.Perm (evs.foldl (Actor.step fix tk φ fmt crc) a).ids (a.ids ++ evs.flatMap Ev.ids) := by
  induction evs generalizing a with
  | nil => simp
  | cons ev evs ih =>
    simp only [List.foldl_cons, List.flatMap_cons]
    refine (ih _).trans ?_
    rw [← List.append_assoc]
    exact (ids_step_perm fix tk fmt φ crc a ev).append_right _

/-! ## file sequence numbers only grow -/

/-- sequence numbers of the `create` calls of a trace (newest first, like the trace) -/
def createSeqs : List Call → List Nat
  | [] => []
  | .create s _ _ :: tr => s :: createSeqs tr
  | _ :: tr => createSeqs tr

/-- every file ever created has a sequence number ≤ `n`, and each `create` used a number
    strictly greater than all earlier ones -/
def WSeq (w : World) (n : Nat) : Prop :=
  (createSeqs w.trace).Pairwise (· > ·) ∧ ∀ s ∈ createSeqs w.trace, s ≤ n

theorem wseq_ioSync (φ : Nat → Outcome) {w : World} {n : Nat} (c : Nat) (h : WSeq w n) :
    WSeq (ioSync φ w c).1 n := by
  unfold ioSync
  cases φ w.io <;> exact h

theorem wseq_ioAppend (φ : Nat → Outcome) {w : World} {n : Nat} (k : Nat) (bs : Bytes)
    (h : WSeq w n) : WSeq (ioAppend φ w k bs).1 n := by
  unfold ioAppend
  cases φ w.io <;> exact h

theorem wseq_ioCreate (φ : Nat → Outcome) {w : World} {n : Nat} (h : WSeq w n) :
    WSeq (ioCreate φ w (n + 1)).1 (n + 1) := by
  have hnew : ∀ (st : Store) (b e : Bool), WSeq (w.push st (.create (n + 1) b e)) (n + 1) := by
    intro st b e
    · refine ⟨List.pairwise_cons.mpr ⟨fun s hs => ?_, h.1⟩, fun s hs => ?_⟩
      · have := h.2 s hs; omega
      · rcases List.mem_cons.mp hs with rfl | hs'
        · exact Nat.le_refl _
        · have := h.2 s hs'; omega
  unfold ioCreate
  cases φ w.io <;> exact hnew _ _ _

theorem wseq_ioDelete (φ : Nat → Outcome) {w : World} {n : Nat} (k : Nat) (h : WSeq w n) :
    WSeq (ioDelete φ w k).1 n := by
  unfold ioDelete
  cases φ w.io <;> exact h

theorem wseq_truncLoop (φ : Nat → Outcome) {n : Nat} (victims : List Nat) (w : World) (h : WSeq w n) :
    WSeq (truncLoop φ victims w) n := by
  induction victims generalizing w with
  | nil => exact h
  | cons k rest ih =>
    simp only [truncLoop]
    have h1 := wseq_ioDelete φ k h
    cases hd : ioDelete φ w k with
    | mk w' ok =>
      rw [hd] at h1
      cases ok
      · exact h1
      · exact ih w' h1

def RSeq (r : Rot) : Prop := WSeq r.w r.seq

theorem rseq_close (fix : Bool) (φ : Nat → Outcome) {r : Rot} (h : RSeq r) :
    RSeq (Rot.close fix φ r) := by
  unfold Rot.close
  cases r.cur with
  | none => exact h
  | some c =>
    cases fix
    · exact h
    · exact wseq_ioSync φ c h

theorem close_seq (fix : Bool) (φ : Nat → Outcome) (r : Rot) : (Rot.close fix φ r).seq = r.seq := by
  unfold Rot.close
  cases r.cur with
  | none => rfl
  | some c => cases fix <;> rfl

theorem rseq_rotate (fix : Bool) (fmt : Format) (φ : Nat → Outcome) {r : Rot} (h : RSeq r) :
    RSeq (Rot.rotate fix fmt φ r).1 ∧ r.seq ≤ (Rot.rotate fix fmt φ r).1.seq := by
  have h1 := rseq_close fix φ h
  have hs := close_seq fix φ r
  unfold Rot.rotate
  simp only
  generalize Rot.close fix φ r = r1 at h1 hs
  have hc := wseq_ioCreate φ h1
  cases hcr : ioCreate φ r1.w (r1.seq + 1) with
  | mk w' oe =>
    rw [hcr] at hc
    cases oe with
    | some e => exact ⟨hc, by simp only; omega⟩
    | none =>
      simp only
      have ha := wseq_ioAppend φ (r1.seq + 1) (header fmt (r1.seq + 1)) hc
      cases hap : ioAppend φ w' (r1.seq + 1) (header fmt (r1.seq + 1)) with
      | mk w'' oe2 =>
        rw [hap] at ha
        cases oe2 <;> exact ⟨ha, by simp only; omega⟩

theorem rseq_appendTo (φ : Nat → Outcome) {r : Rot} (e : Entry) (h : RSeq r) :
    RSeq (Rot.appendTo φ r e).1 ∧ (Rot.appendTo φ r e).1.seq = r.seq := by
  unfold Rot.appendTo
  cases r.cur with
  | none => exact ⟨h, rfl⟩
  | some c =>
    simp only
    have ha := wseq_ioAppend φ c e.encode h
    cases hap : ioAppend φ r.w c e.encode with
    | mk w' oe =>
      rw [hap] at ha
      cases oe <;> exact ⟨ha, rfl⟩

theorem rseq_append (fix : Bool) (fmt : Format) (φ : Nat → Outcome) {r : Rot} (e : Entry)
    (h : RSeq r) : RSeq (Rot.append fix fmt φ r e).1 ∧ r.seq ≤ (Rot.append fix fmt φ r e).1.seq := by
  unfold Rot.append
  cases r.needsNew with
  | false =>
    simp only [Bool.false_eq_true, if_false]
    have := rseq_appendTo φ e h
    exact ⟨this.1, Nat.le_of_eq this.2.symm⟩
  | true =>
    simp only [if_true]
    obtain ⟨h1, h2⟩ := rseq_rotate fix fmt φ h
    cases hr : Rot.rotate fix fmt φ r with
    | mk r1 oe =>
      rw [hr] at h1 h2
      cases oe with
      | some x => exact ⟨h1, h2⟩
      | none =>
        simp only
        have := rseq_appendTo φ e h1
        exact ⟨this.1, by rw [this.2]; exact h2⟩

theorem rseq_sync (fix : Bool) (φ : Nat → Outcome) {r : Rot} (h : RSeq r) :
    RSeq (Rot.sync fix φ r).1 ∧ (Rot.sync fix φ r).1.seq = r.seq := by
  unfold Rot.sync
  split
  · exact ⟨h, rfl⟩
  · cases r.cur with
    | none => exact ⟨h, rfl⟩
    | some c => exact ⟨wseq_ioSync φ c h, rfl⟩

theorem rseq_step (fix tk : Bool) (fmt : Format) (φ : Nat → Outcome) (crc : Bytes → Nat) (a : Actor)
    (ev : Ev) (h : RSeq a.rot) (hnr : ∀ c r, ev ≠ .reopen c r) :
    RSeq (Actor.step fix tk φ fmt crc a ev).rot ∧ a.rot.seq ≤ (Actor.step fix tk φ fmt crc a ev).rot.seq := by
  cases ev with
  | write w =>
    simp only [Actor.step, Actor.handleWrite]
    have := rseq_append fix fmt φ (Entry.mk' fmt crc w.data w.ts) h
    cases hr : Rot.append fix fmt φ a.rot (Entry.mk' fmt crc w.data w.ts) with
    | mk r oe =>
      rw [hr] at this
      cases oe <;> exact this
  | forget w =>
    simp only [Actor.step, Actor.handleForget]
    have := rseq_append fix fmt φ (Entry.mk' fmt crc w.data w.ts) h
    cases hr : Rot.append fix fmt φ a.rot (Entry.mk' fmt crc w.data w.ts) with
    | mk r oe =>
      rw [hr] at this
      cases oe <;> exact this
  | tick =>
    simp only [Actor.step, Actor.handleTick]
    split
    · have := rseq_sync fix φ h
      exact ⟨this.1, Nat.le_of_eq this.2.symm⟩
    · exact ⟨h, Nat.le_refl _⟩
  | truncate thr =>
    simp only [Actor.step, Actor.handleTruncate, Rot.truncate]
    exact ⟨wseq_truncLoop φ _ _ h, Nat.le_refl _⟩
  | flush =>
    simp only [Actor.step, Actor.flush]
    split
    · exact ⟨h, Nat.le_refl _⟩
    · have := rseq_sync fix φ h
      exact ⟨this.1, Nat.le_of_eq this.2.symm⟩
  | reopen c r => exact absurd rfl (hnr c r)

theorem rseq_foldl (fix tk : Bool) (fmt : Format) (φ : Nat → Outcome) (crc : Bytes → Nat)
    (evs : List Ev) (a : Actor) (h : RSeq a.rot) (hnr : ∀ c r, Ev.reopen c r ∉ evs) :
    RSeq (evs.foldl (Actor.step fix tk φ fmt crc) a).rot ∧
      a.rot.seq ≤ (evs.foldl (Actor.step fix tk φ fmt crc) a).rot.seq := by
  induction evs generalizing a with
  | nil => exact ⟨h, Nat.le_refl _⟩
  | cons ev evs ih =>
    simp only [List.foldl_cons]
    obtain ⟨h1, h2⟩ := rseq_step fix tk fmt φ crc a ev h
      (fun c r hc => hnr c r (by rw [hc]; exact List.mem_cons_self))
    obtain ⟨h3, h4⟩ := ih _ h1 (fun c r hm => hnr c r (List.mem_cons_of_mem _ hm))
    exact ⟨h3, Nat.le_trans h2 h4⟩

end RedisVerif.Wal
