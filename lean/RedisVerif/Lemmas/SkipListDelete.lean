import RedisVerif.Lemmas.SkipListInsert4
namespace RedisVerif.SkipList
open RedisVerif RedisVerif.Redis

/-! ## `delete_node` -/

theorem fwdPos_ge {j : Nat} : ∀ {l : List Tower} {p r : Nat}, fwdPos j l p = some r → p ≤ r
  | [], _, _, h => by simp [fwdPos] at h
  | t :: ts, p, r, h => by
    simp only [fwdPos] at h
    split at h
    · simp at h; omega
    · have := fwdPos_ge h; omega

theorem fwdPos_append_small {j : Nat} : ∀ {xs : List Tower} (_ : ∀ t ∈ xs, t.ht ≤ j) (ys : List Tower) (p : Nat),
    fwdPos j (xs ++ ys) p = fwdPos j ys (p + xs.length)
  | [], _, ys, p => by simp
  | t :: ts, h, ys, p => by
    have h1 : ¬ j < t.spans.length := by have := h t (List.mem_cons_self ..); simp only [Tower.ht] at this; omega
    simp only [List.cons_append, fwdPos, h1, if_false, List.length_cons]
    rw [fwdPos_append_small (fun t' ht' => h t' (List.mem_cons_of_mem _ ht')) ys (p + 1)]
    congr 1; omega

theorem fwdPos_congr {j : Nat} : ∀ {xs ys : List Tower} (p : Nat), xs.map Tower.ht = ys.map Tower.ht →
    fwdPos j xs p = fwdPos j ys p
  | [], [], _, _ => rfl
  | [], _ :: _, _, h => by simp at h
  | _ :: _, [], _, h => by simp at h
  | x :: xs, y :: ys, p, h => by
    simp only [List.map_cons, List.cons.injEq, Tower.ht] at h
    simp only [fwdPos, h.1]
    rw [fwdPos_congr (p + 1) (by simpa [Tower.ht] using h.2)]

/-- the body of `delete_node`'s loop at level `j` -/
def fUnlink (q : Nat) : SL → Nat → Nat → Nat → Option Nat := fun sl u _ j =>
  match spanAt sl u j with
  | none => none
  | some su =>
    if fwdPos j (sl.towers.drop u) (u + 1) = some q then
      match spanAt sl q j with
      | none => none
      | some sq => if su + sq = 0 then none else some (su + sq - 1)
    else if su = 0 then none
    else some (su - 1)

theorem unlinkLevels_eq (q : Nat) : ∀ (l : List (Nat × Nat)) (i : Nat) (sl : SL),
    unlinkLevels q l i sl = perLevel (fUnlink q) l i sl
  | [], _, _ => rfl
  | (u, r) :: rest, i, sl => by
    simp only [unlinkLevels, perLevel, fUnlink]
    cases spanAt sl u i with
    | none => rfl
    | some su =>
      simp only
      split
      · cases spanAt sl q i with
        | none => rfl
        | some sq =>
          simp only
          split
          · rfl
          · exact unlinkLevels_eq q rest (i + 1) _
      · split
        · rfl
        · exact unlinkLevels_eq q rest (i + 1) _

theorem fUnlink_cong (q : Nat) : ∀ a b u r j, Agree j a b → fUnlink q a u r j = fUnlink q b u r j := by
  intro a b u r j h
  have hf : fwdPos j (a.towers.drop u) (u + 1) = fwdPos j (b.towers.drop u) (u + 1) :=
    fwdPos_congr _ (by rw [List.map_drop, List.map_drop, h.2])
  simp only [fUnlink, h.1 u, h.1 q, hf]

theorem eraseIdx_eq {α : Type} : ∀ (l : List α) (c : Nat), l.eraseIdx c = l.take c ++ l.drop (c + 1)
  | [], c => by simp
  | x :: xs, 0 => by simp
  | x :: xs, c + 1 => by simp [eraseIdx_eq xs c]

section cut
variable {α : Type}

theorem getElem?_cut (l : List α) {c : Nat} (hc : c ≤ l.length) (k : Nat) :
    (l.take c ++ l.drop (c + 1))[k]? = if k < c then l[k]? else l[k + 1]? := by
  have hlen : (l.take c).length = c := by simp; omega
  by_cases h1 : k < c
  · rw [List.getElem?_append_left (by omega), List.getElem?_take, if_pos h1, if_pos h1]
  · rw [List.getElem?_append_right (by omega), hlen, if_neg h1, List.getElem?_drop]
    congr 1; omega

theorem drop_cut_lt (l : List α) {c k : Nat} (hc : c ≤ l.length) (h : k ≤ c) :
    (l.take c ++ l.drop (c + 1)).drop k = (l.take c).drop k ++ l.drop (c + 1) := by
  rw [List.drop_append_of_le_length (by simp; omega)]

theorem drop_cut_gt (l : List α) {c k : Nat} (hc : c ≤ l.length) (h : c ≤ k) :
    (l.take c ++ l.drop (c + 1)).drop k = l.drop (k + 1) := by
  have hlen : (l.take c).length = c := by simp; omega
  rw [List.drop_append, hlen]
  have h1 : (l.take c).drop k = [] := by simp; omega
  rw [h1, List.nil_append, List.drop_drop]
  congr 1; omega
end cut

/-- the distance from a position `q ≤ c` on level `j` once the tower at index `c` is unlinked -/
theorem dist_after_delete {T T1 : List Tower} {c j u q : Nat}
    (hT1 : T1.map Tower.ht = T.map Tower.ht) (hc : c < T.length) (hupd : IsUpd T c j u)
    (hq : q ≤ c) (hqj : q = 0 ∨ ∃ t, T[q - 1]? = some t ∧ j < t.ht) :
    distTo j ((T1.take c).drop q ++ T1.drop (c + 1)) =
      if q = u then (c - q) + distTo j (T.drop (c + 1)) else distTo j (T.drop q) := by
  have hc1 : c < T1.length := by
    have := congrArg List.length hT1; simp at this; omega
  have hB : distTo j (T1.drop (c + 1)) = distTo j (T.drop (c + 1)) :=
    distTo_congr (by rw [List.map_drop, List.map_drop, hT1])
  have hmapA : ((T1.take c).drop q).map Tower.ht = ((T.take c).drop q).map Tower.ht := by
    rw [List.map_drop, List.map_drop, List.map_take, List.map_take, hT1]
  by_cases hqu : q = u
  · subst hqu
    simp only [if_true]
    have hsmallT := all_small_of_isUpd hupd
    have hsmall1 : ∀ t ∈ (T1.take c).drop q, t.ht ≤ j := by
      intro t ht
      have : t.ht ∈ ((T1.take c).drop q).map Tower.ht := List.mem_map_of_mem ht
      rw [hmapA] at this
      obtain ⟨t', ht', e⟩ := List.mem_map.mp this
      rw [← e]; exact hsmallT t' ht'
    have hlen : ((T1.take c).drop q).length = c - q := by simp; omega
    rw [distTo_append_small hsmall1, hlen, hB]
  · simp only [hqu, if_false]
    have hlt : q < u := by
      rcases hqj with rfl | ⟨t, ht, hj⟩
      · omega
      · by_cases hq0 : q = 0
        · omega
        · rcases Nat.lt_or_ge q u with h | hge
          · exact h
          · have := hupd.2.2 (q - 1) t (by omega) (by omega) ht
            omega
    obtain ⟨t', ht', hj'⟩ : ∃ t, T[u - 1]? = some t ∧ j < t.ht := by
      rcases hupd.2.1 with h0 | h1
      · omega
      · exact h1
    have hbigT : ∃ t ∈ (T.take c).drop q, j < t.ht := by
      refine ⟨t', ?_, hj'⟩
      apply List.mem_of_getElem? (i := u - 1 - q)
      rw [List.getElem?_drop, List.getElem?_take]
      have : q + (u - 1 - q) = u - 1 := by omega
      rw [this, if_pos (by have := hupd.1; omega)]; exact ht'
    have hbig1 : ∃ t ∈ (T1.take c).drop q, j < t.ht := by
      obtain ⟨t, ht, hj⟩ := hbigT
      have : t.ht ∈ ((T.take c).drop q).map Tower.ht := List.mem_map_of_mem ht
      rw [← hmapA] at this
      obtain ⟨t1, ht1, e⟩ := List.mem_map.mp this
      exact ⟨t1, ht1, by omega⟩
    rw [distTo_append_big hbig1 _ (T1.drop c)]
    have e1 : (T1.take c).drop q ++ T1.drop c = T1.drop q := by
      conv => rhs; rw [← List.take_append_drop c T1]
      rw [List.drop_append_of_le_length (by simp; omega)]
    rw [e1]
    exact distTo_congr (by rw [List.map_drop, List.map_drop, hT1])

end RedisVerif.SkipList
