import RedisVerif.Driver.Crc32
import RedisVerif.Model.Crdt

/-
  Facts about the executable CRC-32 (`Driver/Crc32.lean`, = `crc32fast::hash`, compared with it
  on every run), PROVED for messages of every length:

  * `crc32_lt`        — the checksum of a byte string is a 32-bit value;
  * `crcBit_xor`, `crcByte_xor`, `raw_xor`, `crc32_xor` — linearity over GF(2): for two messages
    of EQUAL length, `crc32 m ^^^ crc32 m' = raw 0 (m ⊕ m')` (the register run from 0 over the
    bytewise difference; initial value and final xor cancel);
  * `crcBit_small` / `crcBitN_small` — the bit step is a right shift with a conditional xor of a
    constant whose bit 31 is set: a result below 2^n (n ≤ 31) can only come from an even
    register, i.e. the step is injective on 32-bit registers and undoes as a left shift;
  * `raw_window_ne_zero` — an error pattern that is zero outside a window of at most 4 consecutive
    bytes (and not zero inside) drives the register to a non-zero value, whatever the number of
    zero bytes before and after: every SINGLE-BIT error, every single-byte error and every burst
    confined to 4 consecutive bytes (hence every burst of ≤ 25 bits wherever it starts, and every
    byte-aligned burst of ≤ 32 bits) of a message of ANY length changes its CRC-32
    (`crc32_detects_window`, `crc32_detects_set`).
  * `raw_burst32_ne_zero` / `crc32_detects_burst32` — the same for a burst of at most 32 bits of the
    bit stream (CRC-32 consumes each byte LSB first) that straddles FIVE bytes: a first byte that is
    a non-zero multiple of 2^q, three arbitrary bytes, a last byte below 2^q.  Together with the
    4-byte window: EVERY burst of at most 32 bits, wherever it starts, in a message of any length.
  NOT proved here: damage wider than that; any change of the message LENGTH.
-/
namespace RedisVerif
namespace Crc

open Driver

/-- the register run over `bs` from state `c` (no initial / final xor) -/
def raw (c : Nat) (bs : Bytes) : Nat := bs.foldl crcByte c

theorem crc32_eq (bs : Bytes) : crc32 bs = raw 0xFFFFFFFF bs ^^^ 0xFFFFFFFF := rfl

theorem raw_nil (c : Nat) : raw c [] = c := rfl
theorem raw_cons (c b : Nat) (bs : Bytes) : raw c (b :: bs) = raw (crcByte c b) bs := rfl
theorem raw_append (c : Nat) (a b : Bytes) : raw c (a ++ b) = raw (raw c a) b := by
  simp [raw, List.foldl_append]

/-- `n` bit steps -/
def crcBitN : Nat → Nat → Nat
  | 0, c => c
  | n + 1, c => crcBitN n (crcBit c)

theorem crcByte_eq (c b : Nat) : crcByte c b = crcBitN 8 (c ^^^ b) := rfl

/-! ## 32-bit values -/

theorem crcBit_lt {c : Nat} (h : c < 2 ^ 32) : crcBit c < 2 ^ 32 := by
  unfold crcBit
  split
  · exact Nat.xor_lt_two_pow (by omega) (by decide)
  · omega

theorem crcBitN_lt (n : Nat) {c : Nat} (h : c < 2 ^ 32) : crcBitN n c < 2 ^ 32 := by
  induction n generalizing c with
  | zero => exact h
  | succ n ih => exact ih (crcBit_lt h)

theorem crcByte_lt {c b : Nat} (hc : c < 2 ^ 32) (hb : b < 256) : crcByte c b < 2 ^ 32 := by
  rw [crcByte_eq]
  exact crcBitN_lt 8 (Nat.xor_lt_two_pow hc (by omega))

theorem raw_lt (bs : Bytes) {c : Nat} (hc : c < 2 ^ 32) (hb : ∀ b ∈ bs, b < 256) : raw c bs < 2 ^ 32 := by
  induction bs generalizing c with
  | nil => exact hc
  | cons b bs ih =>
    rw [raw_cons]
    exact ih (crcByte_lt hc (hb b (by simp))) (fun x hx => hb x (by simp [hx]))

/-- the checksum of a byte string fits the 4-byte field it is stored in -/
theorem crc32_lt (bs : Bytes) (hb : ∀ b ∈ bs, b < 256) : crc32 bs < 2 ^ 32 := by
  rw [crc32_eq]
  exact Nat.xor_lt_two_pow (raw_lt bs (by decide) hb) (by decide)

/-! ## linearity over GF(2) -/

theorem xor_mod2 (a b : Nat) : (a ^^^ b) % 2 = (a % 2) ^^^ (b % 2) := by
  have := @Nat.xor_mod_two_pow a b 1
  simpa using this

theorem xor_xor_cancel (x y p : Nat) : (x ^^^ p) ^^^ (y ^^^ p) = x ^^^ y := by
  calc (x ^^^ p) ^^^ (y ^^^ p) = x ^^^ y ^^^ (p ^^^ p) := by ac_rfl
    _ = x ^^^ y := by rw [Nat.xor_self, Nat.xor_zero]

theorem crcBit_xor (a b : Nat) : crcBit (a ^^^ b) = crcBit a ^^^ crcBit b := by
  unfold crcBit
  rw [xor_mod2, Nat.xor_div_two]
  rcases Nat.mod_two_eq_zero_or_one a with ha | ha <;> rcases Nat.mod_two_eq_zero_or_one b with hb | hb <;>
    simp only [ha, hb, Nat.xor_self, Nat.zero_xor, Nat.xor_zero, if_true, if_false, Nat.zero_ne_one]
  · ac_rfl
  · ac_rfl
  · exact (xor_xor_cancel _ _ _).symm

theorem crcBitN_xor (n a b : Nat) : crcBitN n (a ^^^ b) = crcBitN n a ^^^ crcBitN n b := by
  induction n generalizing a b with
  | zero => rfl
  | succ n ih => simp only [crcBitN]; rw [crcBit_xor, ih]

theorem crcByte_xor (c c' b b' : Nat) : crcByte (c ^^^ c') (b ^^^ b') = crcByte c b ^^^ crcByte c' b' := by
  rw [crcByte_eq, crcByte_eq, crcByte_eq, ← crcBitN_xor]
  congr 1
  ac_rfl

/-- bytewise difference of two messages -/
def xorB (a b : Bytes) : Bytes := List.zipWith (· ^^^ ·) a b

theorem raw_xor (bs bs' : Bytes) (h : bs.length = bs'.length) (c c' : Nat) :
    raw (c ^^^ c') (xorB bs bs') = raw c bs ^^^ raw c' bs' := by
  induction bs generalizing bs' c c' with
  | nil =>
    cases bs' with
    | nil => rfl
    | cons _ _ => cases h
  | cons b bs ih =>
    cases bs' with
    | nil => cases h
    | cons b' bs' =>
      simp only [xorB, List.zipWith_cons_cons, raw_cons]
      rw [crcByte_xor]
      exact ih bs' (by simpa using h) _ _

/-- for two messages of equal length the difference of the checksums is the register run over
    the difference of the messages, from 0 -/
theorem crc32_xor (bs bs' : Bytes) (h : bs.length = bs'.length) :
    crc32 bs ^^^ crc32 bs' = raw 0 (xorB bs bs') := by
  rw [crc32_eq, crc32_eq, xor_xor_cancel, ← raw_xor bs bs' h, Nat.xor_self]

theorem xor_eq_zero_iff (a b : Nat) : a ^^^ b = 0 ↔ a = b := by
  constructor
  · intro h
    have : (a ^^^ b) ^^^ b = 0 ^^^ b := by rw [h]
    rwa [Nat.xor_assoc, Nat.xor_self, Nat.xor_zero, Nat.zero_xor] at this
  · intro h; rw [h, Nat.xor_self]

/-- equal-length messages have the same CRC-32 iff the register run over their difference ends in 0 -/
theorem crc32_eq_iff (bs bs' : Bytes) (h : bs.length = bs'.length) :
    crc32 bs = crc32 bs' ↔ raw 0 (xorB bs bs') = 0 := by
  rw [← crc32_xor bs bs' h, xor_eq_zero_iff]

/-! ## the bit step undoes as a left shift -/

theorem ge_of_testBit {x i : Nat} (h : x.testBit i = true) : 2 ^ i ≤ x := by
  apply Nat.le_of_not_lt
  intro hlt
  rw [Nat.testBit_lt_two_pow hlt] at h
  cases h

/-- xor with the polynomial sets bit 31 of anything below 2^31 -/
theorem xor_poly_ge {x : Nat} (hx : x < 2 ^ 31) : 2 ^ 31 ≤ x ^^^ 0xEDB88320 := by
  apply ge_of_testBit
  rw [Nat.testBit_xor, Nat.testBit_lt_two_pow hx]
  decide

/-- a bit step with a result below 2^n (n ≤ 31) came from an even register: it was a plain
    right shift -/
theorem crcBit_small {s n : Nat} (hs : s < 2 ^ 32) (hn : n ≤ 31) (h : crcBit s < 2 ^ n) :
    s = 2 * crcBit s := by
  unfold crcBit at h ⊢
  split at h
  · rename_i hodd
    have h1 := xor_poly_ge (x := s / 2) (by omega)
    have h2 : 2 ^ n ≤ 2 ^ 31 := Nat.pow_le_pow_right (by decide) hn
    omega
  · rename_i heven
    rw [if_neg heven]
    omega

theorem crcBitN_small (j : Nat) {s n : Nat} (hs : s < 2 ^ 32) (hn : n + j ≤ 32) (h : crcBitN j s < 2 ^ n) :
    s = 2 ^ j * crcBitN j s := by
  induction j generalizing s n with
  | zero => simp [crcBitN]
  | succ j ih =>
    simp only [crcBitN] at h ⊢
    have h1 := ih (crcBit_lt hs) (by omega : n + j ≤ 32) h
    -- crcBit s = 2^j * r < 2^(n+j)
    have hlt : crcBit s < 2 ^ (n + j) := by
      rw [h1, Nat.pow_add, Nat.mul_comm]
      exact Nat.mul_lt_mul_of_pos_right h (Nat.two_pow_pos j)
    have h2 := crcBit_small hs (by omega : n + j ≤ 31) hlt
    calc s = 2 * crcBit s := h2
      _ = 2 * (2 ^ j * crcBitN j (crcBit s)) := by rw [← h1]
      _ = 2 ^ (j + 1) * crcBitN j (crcBit s) := by rw [Nat.pow_succ]; ac_rfl

/-- a byte step with a result below 2^n (n ≤ 24): the register before it, xor the byte, was the
    result shifted left by 8 -/
theorem crcByte_small {s b n : Nat} (hs : s < 2 ^ 32) (hb : b < 256) (hn : n ≤ 24) (h : crcByte s b < 2 ^ n) :
    s ^^^ b = 2 ^ 8 * crcByte s b := by
  rw [crcByte_eq] at h ⊢
  exact crcBitN_small 8 (Nat.xor_lt_two_pow hs (by omega)) (by omega) h

theorem crcByte_small_lt {s b n : Nat} (hs : s < 2 ^ 32) (hb : b < 256) (hn : n ≤ 24) (h : crcByte s b < 2 ^ n) :
    s < 2 ^ (n + 8) := by
  have h1 := crcByte_small hs hb hn h
  have h2 : s ^^^ b < 2 ^ (n + 8) := by
    rw [h1, Nat.pow_add, Nat.mul_comm]
    exact Nat.mul_lt_mul_of_pos_right h (by decide)
  have h3 : b < 2 ^ (n + 8) := Nat.lt_of_lt_of_le hb (by
    have : 2 ^ 8 ≤ 2 ^ (n + 8) := Nat.pow_le_pow_right (by decide) (by omega)
    simpa using this)
  have := Nat.xor_lt_two_pow h2 h3
  rwa [Nat.xor_assoc, Nat.xor_self, Nat.xor_zero] at this

/-- zero bytes keep a non-zero register non-zero -/
theorem raw_zeros_eq_zero (k : Nat) {s : Nat} (hs : s < 2 ^ 32) (h : raw s (List.replicate k 0) = 0) : s = 0 := by
  induction k generalizing s with
  | zero => exact h
  | succ k ih =>
    rw [List.replicate_succ, raw_cons] at h
    have h0 := ih (crcByte_lt hs (by decide)) h
    have h1 := crcByte_small hs (by decide : (0 : Nat) < 256) (Nat.zero_le 24) (by rw [h0]; decide)
    rw [h0, Nat.xor_zero] at h1
    omega

theorem raw_zeros (k : Nat) : raw 0 (List.replicate k 0) = 0 := by
  induction k with
  | zero => rfl
  | succ k ih => rw [List.replicate_succ, raw_cons]; exact ih

/-- running over up to `(32 - n) / 8` bytes and ending below 2^n: the start was below 2^(n + 8·bytes) -/
theorem raw_small_lt (mid : Bytes) {s n : Nat} (hs : s < 2 ^ 32) (hm : ∀ m ∈ mid, m < 256)
    (hn : n + 8 * mid.length ≤ 32) (h : raw s mid < 2 ^ n) : s < 2 ^ (n + 8 * mid.length) := by
  induction mid generalizing s with
  | nil => simpa [raw_nil] using h
  | cons m mid ih =>
    rw [raw_cons] at h
    have hm' : ∀ x ∈ mid, x < 256 := fun x hx => hm x (by simp [hx])
    have hmb : m < 256 := hm m (by simp)
    simp only [List.length_cons] at hn ⊢
    have h1 := ih (crcByte_lt hs hmb) hm' (by omega) h
    have h2 := crcByte_small_lt hs hmb (by omega : n + 8 * mid.length ≤ 24) h1
    have : n + 8 * (mid.length + 1) = n + 8 * mid.length + 8 := by omega
    rw [this]; exact h2

/-- an error pattern that is zero outside a window `b0 :: mid` of at most 4 bytes, `b0 ≠ 0`,
    leaves a non-zero register — for ANY number of zero bytes before and after -/
theorem raw_window_ne_zero (a c b0 : Nat) (mid : Bytes) (hb0 : 0 < b0) (hb : b0 < 256)
    (hm : ∀ m ∈ mid, m < 256) (hl : mid.length ≤ 3) :
    raw 0 (List.replicate a 0 ++ (b0 :: mid) ++ List.replicate c 0) ≠ 0 := by
  intro h
  rw [raw_append, raw_append, raw_zeros, raw_cons] at h
  have hs0 : crcByte 0 b0 < 2 ^ 32 := crcByte_lt (by decide) hb
  have h1 := raw_zeros_eq_zero c (raw_lt mid hs0 hm) h
  have h2 := raw_small_lt mid (n := 0) hs0 hm (by omega) (by rw [h1]; decide)
  have h3 : crcByte 0 b0 < 2 ^ 24 :=
    Nat.lt_of_lt_of_le h2 (Nat.pow_le_pow_right (by decide) (by omega))
  have h4 := crcByte_small (by decide : (0 : Nat) < 2 ^ 32) hb (Nat.le_refl 24) h3
  rw [Nat.zero_xor] at h4
  omega

/-! ### bursts of up to 32 bits that straddle five bytes

  CRC-32 consumes the bits of a byte LSB first, so a burst of at most 32 consecutive bits of the bit
  stream that starts at bit `q` of a byte touches that byte only in bits `q..7` (its value is a
  multiple of 2^q), three full bytes, and the bits `0..q-1` of a fifth byte (value below 2^q). -/

theorem crcBitN_add (a b s : Nat) : crcBitN (a + b) s = crcBitN b (crcBitN a s) := by
  induction a generalizing s with
  | zero => simp [crcBitN]
  | succ a ih =>
    have : a + 1 + b = (a + b) + 1 := by omega
    rw [this]
    simp only [crcBitN]
    exact ih (crcBit s)

/-- the low `q` bits are zero: `q` bit steps are plain shifts -/
theorem crcBitN_of_dvd (q t : Nat) : crcBitN q (2 ^ q * t) = t := by
  induction q generalizing t with
  | zero => simp [crcBitN]
  | succ q ih =>
    simp only [crcBitN]
    have h2 : 2 ^ (q + 1) * t = 2 * (2 ^ q * t) := by rw [Nat.pow_succ]; ac_rfl
    have : crcBit (2 ^ (q + 1) * t) = 2 ^ q * t := by
      unfold crcBit
      rw [h2, if_neg (by omega)]
      omega
    rw [this, ih]

/-- an error pattern `zeros ++ [b0, m1, m2, m3, b4] ++ zeros` with `b0 ≠ 0` a multiple of 2^q and
    `b4 < 2^q` — any burst of at most 32 bits of the bit stream, wherever it starts — leaves a
    non-zero register -/
theorem raw_burst32_ne_zero (a c q t m1 m2 m3 b4 : Nat) (hq : q ≤ 8) (ht : 0 < t) (hb0 : 2 ^ q * t < 256)
    (h1 : m1 < 256) (h2 : m2 < 256) (h3 : m3 < 256) (h4 : b4 < 2 ^ q) :
    raw 0 (List.replicate a 0 ++ [2 ^ q * t, m1, m2, m3, b4] ++ List.replicate c 0) ≠ 0 := by
  intro h
  have hb4 : b4 < 256 := Nat.lt_of_lt_of_le h4 (by
    have : 2 ^ q ≤ 2 ^ 8 := Nat.pow_le_pow_right (by decide) hq
    simpa using this)
  rw [raw_append, raw_append, raw_zeros] at h
  simp only [raw_cons, raw_nil] at h
  -- the states after each byte of the window
  have hs0 : crcByte 0 (2 ^ q * t) < 2 ^ 32 := crcByte_lt (by decide) hb0
  have hs1 := crcByte_lt hs0 h1
  have hs2 := crcByte_lt hs1 h2
  have hs3 := crcByte_lt hs2 h3
  have hs4 := crcByte_lt hs3 hb4
  have e4 := raw_zeros_eq_zero c hs4 h
  -- the last byte: register before it = b4
  have e3 := crcByte_small hs3 hb4 (Nat.zero_le 24) (by rw [e4]; decide)
  rw [e4, Nat.mul_zero, xor_eq_zero_iff] at e3
  -- walk back over the three full bytes
  have l3 : crcByte (crcByte (crcByte 0 (2 ^ q * t)) m1) m2 < 2 ^ (q + 8) :=
    crcByte_small_lt hs2 h3 (by omega) (by rw [e3]; exact h4)
  have l2 : crcByte (crcByte 0 (2 ^ q * t)) m1 < 2 ^ (q + 8 + 8) :=
    crcByte_small_lt hs1 h2 (by omega) l3
  have l1 : crcByte 0 (2 ^ q * t) < 2 ^ (q + 8 + 8 + 8) :=
    crcByte_small_lt hs0 h1 (by omega) l2
  -- the first byte: q plain shifts, then 8 - q steps that must have been plain shifts too
  have h8 : q + (8 - q) = 8 := by omega
  have hsplit : crcBitN (q + (8 - q)) (2 ^ q * t) = crcBitN (8 - q) t := by
    rw [crcBitN_add, crcBitN_of_dvd]
  rw [h8] at hsplit
  rw [crcByte_eq, Nat.zero_xor, hsplit] at l1
  have htlt : t < 2 ^ (8 - q) := by
    have : 2 ^ q * t < 2 ^ q * 2 ^ (8 - q) := by
      rw [← Nat.pow_add, h8]; exact hb0
    exact Nat.lt_of_mul_lt_mul_left this
  have e0 := crcBitN_small (8 - q) (s := t) (n := q + 8 + 8 + 8)
    (Nat.lt_of_lt_of_le htlt (Nat.pow_le_pow_right (by decide) (by omega))) (by omega) l1
  -- t = 2^(8-q) * r with t < 2^(8-q): r = 0, so t = 0
  rcases Nat.eq_zero_or_pos (crcBitN (8 - q) t) with hz | hpos
  · rw [hz, Nat.mul_zero] at e0; omega
  · have : 2 ^ (8 - q) * 1 ≤ 2 ^ (8 - q) * crcBitN (8 - q) t := Nat.mul_le_mul_left _ hpos
    omega

/-! ## detection, stated on messages -/

theorem xorB_length (a b : Bytes) (h : a.length = b.length) : (xorB a b).length = a.length := by
  simp [xorB, h]

theorem xorB_append (a a' b b' : Bytes) (h : a.length = a'.length) :
    xorB (a ++ b) (a' ++ b') = xorB a a' ++ xorB b b' := by
  simp [xorB, List.zipWith_append h]

theorem xorB_self (a : Bytes) : xorB a a = List.replicate a.length 0 := by
  induction a with
  | nil => rfl
  | cons x a ih => simp only [xorB, List.zipWith_cons_cons, Nat.xor_self, List.length_cons, List.replicate_succ] at ih ⊢; rw [ih]

theorem xorB_lt (a b : Bytes) (ha : ∀ x ∈ a, x < 256) (hb : ∀ x ∈ b, x < 256) : ∀ x ∈ xorB a b, x < 256 := by
  induction a generalizing b with
  | nil => intro x hx; simp [xorB] at hx
  | cons y a ih =>
    cases b with
    | nil => intro x hx; simp [xorB] at hx
    | cons z b =>
      intro x hx
      simp only [xorB, List.zipWith_cons_cons, List.mem_cons] at hx
      rcases hx with hx | hx
      · rw [hx]
        exact Nat.xor_lt_two_pow (n := 8) (ha y (by simp)) (hb z (by simp))
      · exact ih b (fun x hx => ha x (by simp [hx])) (fun x hx => hb x (by simp [hx])) x hx

/-- a window of difference bytes that is not all zero, with its leading zero bytes stripped:
    `replicate k 0 ++ b0 :: mid`, `b0 ≠ 0` -/
theorem split_leading_zeros (w : Bytes) (hw : w ≠ List.replicate w.length 0) :
    ∃ k b0 mid, w = List.replicate k 0 ++ b0 :: mid ∧ 0 < b0 ∧ k + mid.length + 1 = w.length := by
  induction w with
  | nil => exact absurd rfl hw
  | cons x w ih =>
    by_cases hx : x = 0
    · subst hx
      have hw' : w ≠ List.replicate w.length 0 := by
        intro h; apply hw; simp only [List.length_cons, List.replicate_succ]; rw [← h]
      obtain ⟨k, b0, mid, e, hb, hl⟩ := ih hw'
      exact ⟨k + 1, b0, mid, by rw [List.replicate_succ, List.cons_append, ← e], hb, by simp; omega⟩
    · exact ⟨0, x, w, rfl, Nat.pos_of_ne_zero hx, by simp⟩

/-- MAIN: two byte messages that agree outside a window of at most 4 consecutive bytes and
    differ inside it have different CRC-32s — whatever their length and wherever the window is -/
theorem crc32_detects_window (pre w w' post : Bytes) (hlen : w.length = w'.length) (h4 : w.length ≤ 4)
    (hw : ∀ x ∈ w, x < 256) (hw' : ∀ x ∈ w', x < 256) (hne : w ≠ w') :
    crc32 (pre ++ w ++ post) ≠ crc32 (pre ++ w' ++ post) := by
  intro heq
  have hl : (pre ++ w ++ post).length = (pre ++ w' ++ post).length := by simp [hlen]
  rw [crc32_eq_iff _ _ hl, xorB_append _ _ _ _ (by simp [hlen]), xorB_append _ _ _ _ rfl,
    xorB_self, xorB_self] at heq
  have hd : xorB w w' ≠ List.replicate (xorB w w').length 0 := by
    intro h
    apply hne
    -- all difference bytes zero → equal lists
    have : ∀ (a b : Bytes), a.length = b.length → xorB a b = List.replicate (xorB a b).length 0 → a = b := by
      intro a
      induction a with
      | nil => intro b hb _; cases b with | nil => rfl | cons _ _ => cases hb
      | cons x a ih =>
        intro b hb hz
        cases b with
        | nil => cases hb
        | cons y b =>
          simp only [xorB, List.zipWith_cons_cons, List.length_cons, List.replicate_succ, List.cons.injEq] at hz
          rw [(xor_eq_zero_iff x y).mp hz.1, ih b (by simpa using hb) hz.2]
    exact this w w' hlen h
  obtain ⟨k, b0, mid, e, hb0, hk⟩ := split_leading_zeros (xorB w w') hd
  have hbytes := xorB_lt w w' hw hw'
  rw [e] at hbytes
  rw [xorB_length w w' hlen] at hk
  rw [e, ← List.append_assoc, List.replicate_append_replicate] at heq
  exact raw_window_ne_zero (pre.length + k) post.length b0 mid hb0
    (hbytes b0 (by simp)) (fun m hm => hbytes m (by simp [hm])) (by omega) heq

/-- two messages that agree outside five consecutive bytes whose difference is a burst of at most
    32 bits of the bit stream (first difference byte a non-zero multiple of 2^q, last one below
    2^q) have different CRC-32s -/
theorem crc32_detects_burst32 (pre w w' post : Bytes) (q t m1 m2 m3 b4 : Nat) (hlen : w.length = w'.length)
    (hx : xorB w w' = [2 ^ q * t, m1, m2, m3, b4]) (hq : q ≤ 8) (ht : 0 < t) (hb0 : 2 ^ q * t < 256)
    (h1 : m1 < 256) (h2 : m2 < 256) (h3 : m3 < 256) (h4 : b4 < 2 ^ q) :
    crc32 (pre ++ w ++ post) ≠ crc32 (pre ++ w' ++ post) := by
  intro heq
  have hl : (pre ++ w ++ post).length = (pre ++ w' ++ post).length := by simp [hlen]
  rw [crc32_eq_iff _ _ hl, xorB_append _ _ _ _ (by simp [hlen]), xorB_append _ _ _ _ rfl,
    xorB_self, xorB_self, hx] at heq
  exact raw_burst32_ne_zero pre.length post.length q t m1 m2 m3 b4 hq ht hb0 h1 h2 h3 h4 heq

/-- single-byte corruption (in particular every single-bit flip) of a message of any length -/
theorem crc32_detects_set (m : Bytes) (i v : Nat) (hi : i < m.length) (hm : ∀ x ∈ m, x < 256) (hv : v < 256)
    (hne : m[i]'hi ≠ v) : crc32 (m.set i v) ≠ crc32 m := by
  have hsplit : m = m.take i ++ [m[i]'hi] ++ m.drop (i + 1) := by
    rw [List.append_assoc, List.singleton_append, List.getElem_cons_drop, List.take_append_drop]
  have hset : m.set i v = m.take i ++ [v] ++ m.drop (i + 1) := by
    rw [List.set_eq_take_append_cons_drop, if_pos hi, List.append_assoc, List.singleton_append]
  rw [hset]
  conv => rhs; rw [hsplit]
  exact (crc32_detects_window (m.take i) [m[i]'hi] [v] (m.drop (i + 1)) rfl (by simp)
    (by intro x hx; simp only [List.mem_singleton] at hx; rw [hx]; exact hm _ (List.getElem_mem hi))
    (by intro x hx; simp only [List.mem_singleton] at hx; rw [hx]; exact hv)
    (by simpa using hne)).symm

end Crc
end RedisVerif
