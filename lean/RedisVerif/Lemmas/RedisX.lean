import RedisVerif.Model.RedisX
import RedisVerif.Lemmas.RedisStep
namespace RedisVerif.RedisX
open RedisVerif RedisVerif.Redis

theorem execGetBit_ro (s : State) (k off : Nat) : (execGetBit s k off).1 = s := by
  unfold execGetBit
  split
  · rfl
  · split
    · rfl
    · rfl
    · split <;> rfl

theorem inv_execSetBit {s : State} (h : Inv s) (k off bit : Nat) : Inv (execSetBit s k off bit).1 := by
  unfold execSetBit
  split
  · exact h
  · split
    · exact h
    · exact inv_insert h (valueOk_str _)
    · exact inv_insert h (valueOk_str _)

theorem execSetBit_err {s : State} {k off bit : Nat}
    (he : (execSetBit s k off bit).2.isError = true) : (execSetBit s k off bit).1 = s := by
  unfold execSetBit at *
  split
  · rfl
  · split
    · rfl
    · simp_all [Reply.isError]
    · simp_all [Reply.isError]

theorem inv_execX {s : State} (h : Inv s) (c : XCmd) : Inv (execX s c).1 := by
  cases c <;> simp only [execX]
  case setbit k off bit => exact inv_execSetBit h ..
  case getbit k off => rw [execGetBit_ro]; exact h
  case batchset kvs => exact inv_execMSet h ..
  case batchget ks => exact h
  case keys pat => exact h

theorem execX_err {s : State} {c : XCmd} (he : (execX s c).2.isError = true) : (execX s c).1 = s := by
  cases c <;> simp only [execX] at he ⊢
  case setbit k off bit => exact execSetBit_err he
  case getbit k off => exact execGetBit_ro ..
  case batchset kvs => exact execMSet_err he
  case batchget ks => rfl
  case keys pat => rfl

theorem execX_ro {s : State} {c : XCmd} (hr : isReadOnlyX c = true) : (execX s c).1 = s := by
  cases c <;> simp only [isReadOnlyX] at hr <;> simp only [execX]
  case getbit k off => exact execGetBit_ro ..
  case keys pat => rfl
  all_goals cases hr

/-! ### bits -/

set_option maxRecDepth 100000 in
theorem bit_roundtrip : ∀ (b : Fin 256) (i : Fin 8) (bit : Fin 2),
    bitOf (withBit b.val i.val bit.val) i.val = bit.val := by
  decide

set_option maxRecDepth 100000 in
theorem bit_others_kept : ∀ (b : Fin 256) (i j : Fin 8) (bit : Fin 2), j ≠ i →
    bitOf (withBit b.val i.val bit.val) j.val = bitOf b.val j.val := by
  decide

/-! ### glob -/

theorem globFuel_star_all : ∀ (s : BS) (n : Nat), s.length + 2 ≤ n → globFuel n [42] s = true
  | [], n, h => by
    obtain ⟨m, rfl⟩ : ∃ m, n = m + 2 := ⟨n - 2, by omega⟩
    simp [globFuel]
  | c :: s', n, h => by
    obtain ⟨m, rfl⟩ : ∃ m, n = m + 1 := ⟨n - 1, by simp at h; omega⟩
    simp only [globFuel]
    rw [globFuel_star_all s' m (by simp at h; omega)]
    simp

def plainByte (x : Nat) : Prop := x ≠ 42 ∧ x ≠ 63 ∧ x ≠ 91 ∧ x ≠ 92

theorem globFuel_plain : ∀ (p s : BS) (n : Nat), (∀ x ∈ p, plainByte x) → p.length + 1 ≤ n →
    globFuel n p s = decide (p = s)
  | [], s, n, _, h => by
    obtain ⟨m, rfl⟩ : ∃ m, n = m + 1 := ⟨n - 1, by omega⟩
    cases s <;> simp [globFuel]
  | x :: p, s, n, hp, h => by
    obtain ⟨m, rfl⟩ : ∃ m, n = m + 1 := ⟨n - 1, by omega⟩
    obtain ⟨h1, h2, h3, h4⟩ := hp x (List.mem_cons_self ..)
    have ih := fun s' => globFuel_plain p s' m (fun y hy => hp y (List.mem_cons_of_mem _ hy)) (by simp at h; omega)
    cases s with
    | nil =>
      unfold globFuel
      split <;> simp_all
    | cons c s' =>
      unfold globFuel
      split <;> simp_all
      all_goals
        rename_i xx _ _ _ _ _ _
        by_cases hc : c = xx
        · subst hc; simp
        · have : ¬ xx = c := fun e => hc e.symm
          simp [hc, this]

end RedisVerif.RedisX
