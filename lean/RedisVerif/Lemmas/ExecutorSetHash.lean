import RedisVerif.Lemmas.ExecutorList

/-! Refinement of the set / hash / sorted-set commands of `Model.ExecutorColl` to M7. -/
set_option linter.unusedSimpArgs false
set_option linter.unusedVariables false

namespace RedisVerif.Executor
open RedisVerif RedisVerif.Redis

set_option hygiene false in
/-- close a goal `SimF … (putBack c k v, r)` after `gv` -/
macro "pb" v:term "," hi:term : tactic => `(tactic| (
  obtain ⟨i1, i2, i3, i4⟩ := putBack_spec ginv gnx (by rw [gval]; rfl) $v $hi
  exact ⟨by triv, i2, i1, by rw [← gnow]; exact i3, by rw [← gep]; exact i4⟩))

set_option hygiene false in
macro "same" : tactic => `(tactic| exact ⟨by triv, by simp [purge_absP], ginv, gnow, gep⟩)

/-! ### sets -/

theorem insert_ne_nil' {ν : Type} (k : Nat) (v : ν) (m : NMap ν) : NMap.insert k v m ≠ [] := by
  cases m with
  | nil => simp [NMap.insert]
  | cons q m =>
    obtain ⟨kq, vq⟩ := q
    simp only [NMap.insert]
    split
    · simp
    · split <;> simp

theorem saddAll_ne_nil (ms : List Nat) : ∀ (m : MSet), (m ≠ [] ∨ ms ≠ []) → (saddAll m ms).1 ≠ [] := by
  induction ms with
  | nil => intro m h; rcases h with h | h; exact h; exact absurd rfl h
  | cons c cs ih =>
    intro m h
    simp only [saddAll]
    split
    · rename_i hs
      apply ih m
      left
      intro hm; subst hm; simp at hs
    · exact ih _ (Or.inl (insert_ne_nil' c () m))

theorem cSAdd_sim {cs : CState} (h : CInv cs) (k : Nat) (ms : List Nat) (hms : ms ≠ []) :
    Sim cs (.sadd k ms) (cSAdd cs k ms) := by
  unfold cSAdd
  ld h k
  obtain ⟨m0, ms0, rfl⟩ : ∃ a b, ms = a :: b := by
    cases ms with | nil => exact absurd rfl hms | cons a b => exact ⟨a, b, rfl⟩
  simp only [Sim, SimF, exec, execSAdd, lookupSet]
  rw [glook, gux, ← gsame]
  cases ho : NMap.get c.data k with
  | none =>
    have hne := saddAll_ne_nil (m0 :: ms0) [] (Or.inr hms)
    obtain ⟨i1, i2⟩ := store_spec ginv gnx (.set (saddAll [] (m0 :: ms0)).1) ⟨hne, wf_saddAll NMap.wf_nil _⟩
    simp only [Option.map_none, putSet_eq, putEntry, isEmptyColl, isEmpty_false_of_ne hne, Bool.false_eq_true, if_false]
    rw [exp_none_of_data_none ginv ho] at i2
    exact ⟨by triv, i2, i1, gnow, gep⟩
  | some w =>
    cases w
    case set m =>
      have hm : ValueOk (.set m) := innerOk_get ginv ho
      have hne := saddAll_ne_nil (m0 :: ms0) m (Or.inl hm.1)
      obtain ⟨i1, i2⟩ := store_spec ginv gnx (.set (saddAll m (m0 :: ms0)).1) ⟨hne, wf_saddAll hm.2 _⟩
      simp only [Option.map_some, putSet_eq, putEntry, isEmptyColl, isEmpty_false_of_ne hne, Bool.false_eq_true, if_false]
      exact ⟨by triv, i2, i1, gnow, gep⟩
    all_goals same

theorem cSRem_sim {cs : CState} (h : CInv cs) (k : Nat) (ms : List Nat) :
    Sim cs (.srem k ms) (cSRem cs k ms) := by
  unfold cSRem
  gv h k
  simp only [Sim, SimF, exec, execSRem, lookupSet]
  rw [glook, gux, ← gsame]
  cases o with
  | none => same
  | some w =>
    cases w
    case set m =>
      have hm : ValueOk (.set m) := innerOk_get ginv gval
      simp only [Option.map_some, putSet_eq]
      pb (.set (sremAll m ms).1), (wf_sremAll hm.2 ms)
    all_goals same

theorem cSMembers_sim {cs : CState} (h : CInv cs) (k : Nat) : Sim cs (.smembers k) (cSMembers cs k) := by
  unfold cSMembers
  gv h k
  simp only [Sim, SimF, exec, execSMembers, lookupSet]
  rw [glook]
  cases o with
  | none => simp [gsame, purge_absP, ginv, gnow, gep]
  | some v => cases v <;> simp [gsame, purge_absP, ginv, gnow, gep, wrongType]

theorem cSIsMember_sim {cs : CState} (h : CInv cs) (k x : Nat) : Sim cs (.sismember k x) (cSIsMember cs k x) := by
  unfold cSIsMember
  gv h k
  simp only [Sim, SimF, exec, execSIsMember, lookupSet]
  rw [glook]
  cases o with
  | none => simp [gsame, purge_absP, ginv, gnow, gep]
  | some v => cases v <;> simp [gsame, purge_absP, ginv, gnow, gep, wrongType]

theorem cSCard_sim {cs : CState} (h : CInv cs) (k : Nat) : Sim cs (.scard k) (cSCard cs k) := by
  unfold cSCard
  gv h k
  simp only [Sim, SimF, exec, execSCard, lookupSet]
  rw [glook]
  cases o with
  | none => simp [gsame, purge_absP, ginv, gnow, gep]
  | some v => cases v <;> simp [gsame, purge_absP, ginv, gnow, gep, wrongType]

theorem cSPop1_sim {cs : CState} (h : CInv cs) (k : Nat) (ch : List Nat) :
    Sim cs (.spop k none ch) (cSPop1 cs k ch) := by
  unfold cSPop1
  gv h k
  simp only [Sim, SimF, exec, execSPop1, lookupSet]
  rw [glook, gux, ← gsame]
  cases o with
  | none => same
  | some w =>
    cases w
    case set m =>
      have hm : ValueOk (.set m) := innerOk_get ginv gval
      simp only [Option.map_some]
      cases m with
      | nil => exact absurd rfl hm.1
      | cons p rest =>
        simp only [putSet_eq]
        cases ch with
        | nil => pb (.set rest), (wf_tail hm.2)
        | cons x xs =>
          cases xs with
          | nil =>
            simp only []
            split
            · pb (.set (NMap.erase x (p :: rest))), (NMap.wf_erase hm.2)
            · pb (.set rest), (wf_tail hm.2)
          | cons y ys => pb (.set rest), (wf_tail hm.2)
    all_goals same

theorem cSPopN_sim {cs : CState} (h : CInv cs) (k n : Nat) (ch : List Nat) :
    Sim cs (.spop k (some n) ch) (cSPopN cs k n ch) := by
  unfold cSPopN
  gv h k
  simp only [Sim, SimF, exec, execSPopN, lookupSet]
  rw [glook, gux, ← gsame]
  cases o with
  | none => same
  | some w =>
    cases w
    case set m =>
      have hm : ValueOk (.set m) := innerOk_get ginv gval
      simp only [Option.map_some, putSet_eq]
      split
      · cases hrc : removeChosen m ch with
        | none => simp only []; pb (.set (m.drop (min n m.length))), (wf_drop hm.2 _)
        | some m' => simp only []; pb (.set m'), (wf_removeChosen hm.2 hrc)
      · pb (.set (m.drop (min n m.length))), (wf_drop hm.2 _)
    all_goals same

/-! ### hashes -/

theorem hsetAll_ne_nil (fvs : List (Nat × BS)) : ∀ (m : MHash), (m ≠ [] ∨ fvs ≠ []) → (hsetAll m fvs).1 ≠ [] := by
  induction fvs with
  | nil => intro m h; rcases h with h | h; exact h; exact absurd rfl h
  | cons p ps ih =>
    intro m h
    obtain ⟨f, v⟩ := p
    simp only [hsetAll]
    split
    · exact ih _ (Or.inl (insert_ne_nil' f v m))
    · exact ih _ (Or.inl (insert_ne_nil' f v m))

theorem cHSet_sim {cs : CState} (h : CInv cs) (k : Nat) (fvs : List (Nat × BS)) (hfv : fvs ≠ []) :
    Sim cs (.hset k fvs) (cHSet cs k fvs) := by
  unfold cHSet
  ld h k
  obtain ⟨p0, ps0, rfl⟩ : ∃ a b, fvs = a :: b := by
    cases fvs with | nil => exact absurd rfl hfv | cons a b => exact ⟨a, b, rfl⟩
  simp only [Sim, SimF, exec, execHSet, lookupHash]
  rw [glook, gux, ← gsame]
  cases ho : NMap.get c.data k with
  | none =>
    have hne := hsetAll_ne_nil (p0 :: ps0) [] (Or.inr hfv)
    obtain ⟨i1, i2⟩ := store_spec ginv gnx (.hash (hsetAll [] (p0 :: ps0)).1) ⟨hne, wf_hsetAll NMap.wf_nil _⟩
    simp only [Option.map_none, putHash_eq, putEntry, isEmptyColl, isEmpty_false_of_ne hne, Bool.false_eq_true, if_false]
    rw [exp_none_of_data_none ginv ho] at i2
    exact ⟨by triv, i2, i1, gnow, gep⟩
  | some w =>
    cases w
    case hash m =>
      have hm : ValueOk (.hash m) := innerOk_get ginv ho
      have hne := hsetAll_ne_nil (p0 :: ps0) m (Or.inl hm.1)
      obtain ⟨i1, i2⟩ := store_spec ginv gnx (.hash (hsetAll m (p0 :: ps0)).1) ⟨hne, wf_hsetAll hm.2 _⟩
      simp only [Option.map_some, putHash_eq, putEntry, isEmptyColl, isEmpty_false_of_ne hne, Bool.false_eq_true, if_false]
      exact ⟨by triv, i2, i1, gnow, gep⟩
    all_goals same

theorem cHDel_sim {cs : CState} (h : CInv cs) (k : Nat) (fs : List Nat) :
    Sim cs (.hdel k fs) (cHDel cs k fs) := by
  unfold cHDel
  gv h k
  simp only [Sim, SimF, exec, execHDel, lookupHash]
  rw [glook, gux, ← gsame]
  cases o with
  | none => same
  | some w =>
    cases w
    case hash m =>
      have hm : ValueOk (.hash m) := innerOk_get ginv gval
      simp only [Option.map_some, putHash_eq]
      pb (.hash (hdelAll m fs).1), (wf_hdelAll hm.2 fs)
    all_goals same

theorem cHGet_sim {cs : CState} (h : CInv cs) (k f : Nat) : Sim cs (.hget k f) (cHGet cs k f) := by
  unfold cHGet
  gv h k
  simp only [Sim, SimF, exec, execHGet, lookupHash]
  rw [glook]
  cases o with
  | none => simp [gsame, purge_absP, ginv, gnow, gep]
  | some v =>
    cases v
    case hash m =>
      simp only [Option.map_some]
      cases NMap.get m f <;> simp [gsame, purge_absP, ginv, gnow, gep]
    all_goals simp [gsame, purge_absP, ginv, gnow, gep, wrongType]

/-- the five read commands of a hash -/
theorem hashRead_sim {cs : CState} (h : CInv cs) (k : Nat) (f : MHash → Reply) (dflt : Reply) :
    SimF cs (fun s => match lookupHash s k with
      | .missing => (s, dflt)
      | .wrong => (s, .err .wrongType)
      | .found m _ => (s, f m)) (hashRead cs k f dflt) := by
  unfold hashRead
  gv h k
  simp only [SimF, lookupHash]
  rw [glook]
  cases o with
  | none => simp [gsame, purge_absP, ginv, gnow, gep]
  | some v => cases v <;> simp [gsame, purge_absP, ginv, gnow, gep, wrongType]

theorem cHGetAll_sim {cs : CState} (h : CInv cs) (k : Nat) : Sim cs (.hgetall k) (cHGetAll cs k) :=
  hashRead_sim h k _ _
theorem cHKeys_sim {cs : CState} (h : CInv cs) (k : Nat) : Sim cs (.hkeys k) (cHKeys cs k) :=
  hashRead_sim h k _ _
theorem cHVals_sim {cs : CState} (h : CInv cs) (k : Nat) : Sim cs (.hvals k) (cHVals cs k) :=
  hashRead_sim h k _ _
theorem cHLen_sim {cs : CState} (h : CInv cs) (k : Nat) : Sim cs (.hlen k) (cHLen cs k) :=
  hashRead_sim h k _ _
theorem cHExists_sim {cs : CState} (h : CInv cs) (k f : Nat) : Sim cs (.hexists k f) (cHExists cs k f) :=
  hashRead_sim h k _ _

theorem cHIncrBy_sim {cs : CState} (h : CInv cs) (k f : Nat) (d : Int) (hd : I64 d) :
    Sim cs (.hincrby k f d) (cHIncrBy cs k f d) := by
  unfold cHIncrBy
  ld h k
  simp only [Sim, SimF, exec, execHIncrBy, lookupHash]
  rw [glook, gux, ← gsame]
  cases ho : NMap.get c.data k with
  | none =>
    have hin : inI64 d = true := (inI64_iff d).mpr hd
    have hne := insert_ne_nil' f (showInt d) ([] : MHash)
    obtain ⟨i1, i2⟩ := store_spec ginv gnx (.hash (NMap.insert f (showInt d) []))
      ⟨hne, NMap.wf_insert NMap.wf_nil⟩
    simp only [Option.map_none, checkedAdd_eq, Int.zero_add, hin, if_true, putHash_eq, putEntry, isEmptyColl,
      isEmpty_false_of_ne hne, Bool.false_eq_true, if_false]
    rw [exp_none_of_data_none ginv ho] at i2
    exact ⟨by triv, i2, i1, gnow, gep⟩
  | some w =>
    cases w
    case hash m =>
      have hm : ValueOk (.hash m) := innerOk_get ginv ho
      simp only [Option.map_some]
      cases hf : hfieldInt m f with
      | none => same
      | some cur =>
        simp only [checkedAdd_eq]
        by_cases hi : inI64 (cur + d) = true
        · have hne := insert_ne_nil' f (showInt (cur + d)) m
          obtain ⟨i1, i2⟩ := store_spec ginv gnx (.hash (NMap.insert f (showInt (cur + d)) m))
            ⟨hne, NMap.wf_insert hm.2⟩
          simp only [hi, if_true, putHash_eq, putEntry, isEmptyColl, isEmpty_false_of_ne hne, Bool.false_eq_true,
            if_false]
          exact ⟨by triv, i2, i1, gnow, gep⟩
        · simp only [hi]
          same
    all_goals same

/-! ### sorted sets -/

theorem zaddOne_ne_nil (f : ZFlags) (z : ZL) (m : BS) (sc : Score) (h : z ≠ [] ∨ f.xx = false) :
    (zaddOne f z m sc).1 ≠ [] := by
  unfold zaddOne
  cases hs : zScore z m with
  | none =>
    rcases h with h | h
    · cases f.xx
      · simp only [Bool.false_eq_true, if_false]; exact zInsert_ne_nil m sc z
      · simp only [if_true]; exact h
    · simp only [h, Bool.false_eq_true, if_false]; exact zInsert_ne_nil m sc z
  | some old =>
    have hz : z ≠ [] := by intro e; subst e; simp [zScore] at hs
    simp only []
    split
    · exact hz
    · split
      · exact hz
      · split
        · exact hz
        · split
          · exact hz
          · exact zInsert_ne_nil m sc _

theorem zaddAll_ne_nil (f : ZFlags) (ps : List (BS × Score)) : ∀ (z : ZL),
    (z ≠ [] ∨ (f.xx = false ∧ ps ≠ [])) → (zaddAll f z ps).1 ≠ [] := by
  induction ps with
  | nil => intro z h; rcases h with h | h; exact h; exact absurd rfl h.2
  | cons p ps ih =>
    intro z h
    obtain ⟨m, sc⟩ := p
    simp only [zaddAll]
    apply ih
    left
    apply zaddOne_ne_nil
    rcases h with h | h
    · exact Or.inl h
    · exact Or.inr h.1

theorem cZAdd_sim {cs : CState} (h : CInv cs) (k : Nat) (f : ZFlags) (ps : List (BS × Score))
    (hps : ps ≠ []) (hf : zflagsCompatible f = true) :
    Sim cs (.zadd k f ps) (cZAdd cs k f ps) := by
  unfold cZAdd
  ld h k
  obtain ⟨p0, ps0, rfl⟩ : ∃ a b, ps = a :: b := by
    cases ps with | nil => exact absurd rfl hps | cons a b => exact ⟨a, b, rfl⟩
  simp only [Sim, SimF, exec, execZAdd, hf, Bool.not_true, Bool.false_eq_true, if_false, lookupZ]
  rw [glook, gux, ← gsame]
  cases ho : NMap.get c.data k with
  | none =>
    simp only [Option.map_none, Option.isSome_none, Bool.not_false, Bool.and_true]
    by_cases hx : f.xx = true
    · simp only [hx, if_true]
      same
    · have hx' : f.xx = false := by simpa using hx
      have hne := zaddAll_ne_nil f (p0 :: ps0) [] (Or.inr ⟨hx', hps⟩)
      obtain ⟨i1, i2⟩ := store_spec ginv gnx (.zset (zaddAll f [] (p0 :: ps0)).1)
        ⟨hne, canon_zaddAll canon_nil _⟩
      simp only [hx', Bool.false_eq_true, if_false, putZ_eq, putEntry, isEmptyColl, isEmpty_false_of_ne hne]
      rw [exp_none_of_data_none ginv ho] at i2
      exact ⟨by triv, i2, i1, gnow, gep⟩
  | some w =>
    simp only [Option.isSome_some, Bool.not_true, Bool.and_false, Bool.false_eq_true, if_false]
    cases w
    case zset z =>
      have hz : ValueOk (.zset z) := innerOk_get ginv ho
      have hne := zaddAll_ne_nil f (p0 :: ps0) z (Or.inl hz.1)
      obtain ⟨i1, i2⟩ := store_spec ginv gnx (.zset (zaddAll f z (p0 :: ps0)).1) ⟨hne, canon_zaddAll hz.2 _⟩
      simp only [Option.map_some, putZ_eq, putEntry, isEmptyColl, isEmpty_false_of_ne hne, Bool.false_eq_true, if_false]
      exact ⟨by triv, i2, i1, gnow, gep⟩
    all_goals same

theorem cZRem_sim {cs : CState} (h : CInv cs) (k : Nat) (ms : List BS) :
    Sim cs (.zrem k ms) (cZRem cs k ms) := by
  unfold cZRem
  gv h k
  simp only [Sim, SimF, exec, execZRem, lookupZ]
  rw [glook, gux, ← gsame]
  cases o with
  | none => same
  | some w =>
    cases w
    case zset z =>
      have hz : ValueOk (.zset z) := innerOk_get ginv gval
      simp only [Option.map_some, putZ_eq]
      pb (.zset (zremAll z ms).1), (canon_zremAll hz.2 ms)
    all_goals same

/-- the read commands of a sorted set -/
theorem zsetRead_sim {cs : CState} (h : CInv cs) (k : Nat) (f : ZL → Reply) (dflt : Reply) :
    SimF cs (fun s => match lookupZ s k with
      | .missing => (s, dflt)
      | .wrong => (s, .err .wrongType)
      | .found z _ => (s, f z)) (zsetRead cs k f dflt) := by
  unfold zsetRead
  gv h k
  simp only [SimF, lookupZ]
  rw [glook]
  cases o with
  | none => simp [gsame, purge_absP, ginv, gnow, gep]
  | some v => cases v <;> simp [gsame, purge_absP, ginv, gnow, gep, wrongType]

/-- M7's read functions have the `zsetRead` shape -/
theorem simF_congr {cs : CState} {f g : State → State × Reply} {res : CState × Reply}
    (hfg : ∀ s, f s = g s) (h : SimF cs g res) : SimF cs f res := by
  have : f = g := funext hfg
  rw [this]; exact h

theorem cZRange_sim {cs : CState} (h : CInv cs) (k : Nat) (a b : Int) (ws rev : Bool) :
    SimF cs (fun s => execZRange s k a b ws rev) (cZRange cs k a b ws rev) :=
  simF_congr (fun s => by unfold execZRange; cases lookupZ s k <;> rfl) (zsetRead_sim h k _ _)

theorem cZScore_sim {cs : CState} (h : CInv cs) (k : Nat) (m : BS) : Sim cs (.zscore k m) (cZScore cs k m) :=
  simF_congr (fun s => by
    simp only [exec, execZScore]
    cases lookupZ s k with
    | found z dl => simp only []; cases zScore z m <;> rfl
    | _ => rfl) (zsetRead_sim h k _ _)

theorem cZRank_sim {cs : CState} (h : CInv cs) (k : Nat) (m : BS) : Sim cs (.zrank k m) (cZRank cs k m) :=
  simF_congr (fun s => by
    simp only [exec, execZRank]
    cases lookupZ s k with
    | found z dl => simp only []; cases zRankAux z m 0 <;> rfl
    | _ => rfl) (zsetRead_sim h k _ _)

theorem cZCard_sim {cs : CState} (h : CInv cs) (k : Nat) : Sim cs (.zcard k) (cZCard cs k) :=
  simF_congr (fun s => by simp only [exec, execZCard]; cases lookupZ s k <;> rfl) (zsetRead_sim h k _ _)

theorem cZCount_sim {cs : CState} (h : CInv cs) (k : Nat) (lo hi : Option Bound) :
    Sim cs (.zcount k lo hi) (cZCount cs k lo hi) := by
  unfold cZCount
  cases lo with
  | none => exact ⟨by simp [exec, execZCount], by simp [exec, execZCount, purge_absP], h, rfl, rfl⟩
  | some lo =>
    cases hi with
    | none => exact ⟨by simp [exec, execZCount], by simp [exec, execZCount, purge_absP], h, rfl, rfl⟩
    | some hi =>
      exact simF_congr (fun s => by simp only [exec, execZCount]; cases lookupZ s k <;> rfl)
        (zsetRead_sim h k _ _)

theorem cZRangeByScore_sim {cs : CState} (h : CInv cs) (k : Nat) (lo hi : Option Bound) (ws : Bool)
    (lim : Option (Int × Nat)) :
    Sim cs (.zrangebyscore k lo hi ws lim) (cZRangeByScore cs k lo hi ws lim) := by
  unfold cZRangeByScore
  cases lo with
  | none => exact ⟨by simp [exec, execZRangeByScore], by simp [exec, execZRangeByScore, purge_absP], h, rfl, rfl⟩
  | some lo =>
    cases hi with
    | none =>
      exact ⟨by simp [exec, execZRangeByScore], by simp [exec, execZRangeByScore, purge_absP], h, rfl, rfl⟩
    | some hi =>
      exact simF_congr (fun s => by simp only [exec, execZRangeByScore]; cases lookupZ s k <;> rfl)
        (zsetRead_sim h k _ _)

end RedisVerif.Executor
