import RedisVerif.Props.Server
import RedisVerif.Props.C04

/-!
  The connection layer (Model/Conn.lean: byte stream → frames; Model/ConnWrite.lean: replies →
  written bytes) instantiated with the composed node of `Model/Server.lean`.

  `ConnW.Exec σ = σ → Val → Path → σ × Val` is the abstract executor of the connection model.  The
  instance `srvExec R`:
    * state `SrvSt` = the shards + the virtual times at which the NEXT commands will be stamped
      (`ShardedActorState::execute` reads the time source once per command: the clock is an input),
    * frame: `frameOf` reads the decoded RESP value back as the list of bulk strings that
      `Command::from_resp_zero_copy` / `Grammar.parseCmdZc` is defined on (`frameOf_cmdFrame`: the
      frame splitter hands the executor exactly the frames of the pipeline, byte for byte),
    * path ↦ frame class (`generic`, `fast` = the pooled fast path, `batch` = an item of a batch),
    * reply value: `replyOf` = `Server.handle` with the reply as a `RespValue` instead of bytes
      (`handle_replyOf`: `encode3` of it IS what `handle` writes; a rejected frame answers
      `Error(errText text)` = what `encode_error_into` writes, `Resp.encodeErr_eq`).
  The connection theorems of C04 assume NOTHING of the executor (any state type, any function), so
  there are no laws to discharge beyond these definitional links; state threading and one reply
  per frame are `replyBytes_srv`.
-/
namespace RedisVerif
namespace Server

open Shards Shards.M7 Resp
open Conn (Cmd cmdFrame Path)

structure SrvSt where
  st : Shards Redis.Entry
  /-- the time source's readings for the commands still to come (exhausted: the last one repeats) -/
  ticks : List Nat
  last : Nat

def SrvSt.now (s : SrvSt) : Nat := s.ticks.headD s.last

def SrvSt.next (s : SrvSt) (st' : Shards Redis.Entry) : SrvSt :=
  { st := st', ticks := s.ticks.tail, last := s.now }

def bulksOf : List Val → Option Frame
  | [] => some []
  | .bulk b :: rest => (bulksOf rest).map (b :: ·)
  | _ => none

/-- the decoded frame as the list of bulk strings the command parser is defined on -/
def frameOf : Val → Option Frame
  | .array a => bulksOf a
  | _ => none

def classOfPath : Path → FrameClass
  | .generic => .generic
  | .fast => .getFast       -- `execVia` sends a GET to `pooled_fast_get`, a plain SET to `pooled_fast_set`
  | .batch => .getBatch

/-- the frame class of a path for a given frame: fast/batch GET vs SET -/
def classOf (p : Path) (f : Frame) : FrameClass :=
  match p, f with
  | .generic, _ => .generic
  | .fast, [_, _] => .getFast
  | .fast, _ => .setFast
  | .batch, [_, _] => .getBatch
  | .batch, _ => .setBatch

/-- `Server.handle` with the reply as a value -/
def replyOf (R : Routes) (cls : FrameClass) (st : Shards Redis.Entry) (now : Nat) (f : Frame) :
    Shards Redis.Entry × Val :=
  match Grammar.parseCmdZc f with
  | .error e => (st, .error (match e.text with | some t => errText t | none => []))
  | .ok gc =>
    match toCmd7 gc with
    | none => (st, .error (Grammar.s2b "ERR outside the composed model"))
    | some c =>
      let r := execVia R cls now st c
      (r.1, match toM7 r.2 with | some rr => replyVal rr | none => .error [])

/-- the composed node as the executor of the connection model -/
def srvExec (R : Routes) : ConnW.Exec SrvSt := fun s v p =>
  match frameOf v with
  | some f => let r := replyOf R (classOf p f) s.st s.now f; (s.next r.1, r.2)
  | none => (s.next s.st, .error (errText (Grammar.s2b "Invalid command format")))

theorem bulksOf_map (c : Frame) : bulksOf (c.map Val.bulk) = some c := by
  induction c with
  | nil => rfl
  | cons b bs ih => simp [bulksOf, ih]

/-- **the frame splitter hands the node exactly the frames of the pipeline** -/
theorem frameOf_cmdFrame (c : Cmd) : frameOf (cmdFrame c) = some c := bulksOf_map c

/-- a frame the node ANSWERS with bytes: it parses to a command of the composed model, or is rejected
    with an error text (no parser panic) -/
def Answered (f : Frame) : Bool :=
  match Grammar.parseCmdZc f with
  | .error e => e.text.isSome
  | .ok gc => (toCmd7 gc).isSome

/-- what `handle` writes is `encode3` of `replyOf`'s value; same next state -/
theorem handle_replyOf (R : Routes) (classify : Classify) (st : Shards Redis.Entry) (now : Nat) (f : Frame)
    (b : Bytes) (h : (handle R classify st now f).2 = .bytes b) :
    (replyOf R (classify f) st now f).1 = (handle R classify st now f).1 ∧
    encode3 (replyOf R (classify f) st now f).2 = b := by
  unfold handle replyOf encodeParseErr at *
  cases hp : Grammar.parseCmdZc f with
  | error e =>
    simp only [hp] at h ⊢
    cases ht : e.text with
    | none => simp [ht] at h
    | some t =>
      simp only [ht, Option.map] at h ⊢
      injection h with h
      exact ⟨trivial, by rw [encode3_eq, ← encodeErr_eq]; exact h⟩
  | ok gc =>
    simp only [hp] at h ⊢
    cases hc : toCmd7 gc with
    | none => simp [hc] at h
    | some c =>
      simp only [hc] at h ⊢
      cases hm : toM7 (execVia R (classify f) now st c).2 with
      | none => simp [hm] at h
      | some rr =>
        simp only [hm] at h ⊢
        injection h with h
        exact ⟨trivial, h⟩

/-- the outputs of `Server.run` as one byte string (`none` if some frame has no bytes) -/
def outBytes : List Out → Option Bytes
  | [] => some []
  | .bytes b :: rest => (outBytes rest).map (b ++ ·)
  | _ :: _ => none

/-- **state threading, one reply per frame**: the connection model's reply bytes over the pipeline,
    with the node as executor on the generic path, are the outputs of `Server.run` concatenated -/
theorem replyBytes_srv (R : Routes) : ∀ (frames : List (Nat × Frame)) (st : Shards Redis.Entry) (last : Nat)
    (bs : Bytes), outBytes (run R (fun _ => .generic) st frames).2 = some bs →
    ConnW.replyBytes (srvExec R) ⟨st, frames.map (·.1), last⟩ ((frames.map (·.2)).map cmdFrame) = bs := by
  intro frames
  induction frames with
  | nil => intro st last bs h; simp [run, outBytes] at h; subst h; rfl
  | cons x xs ih =>
    intro st last bs h
    obtain ⟨now, f⟩ := x
    simp only [run] at h
    cases ho : (handle R (fun _ => .generic) st now f).2 with
    | bytes b =>
      rw [ho] at h
      simp only [outBytes] at h
      cases hr : outBytes (run R (fun _ => .generic) (handle R (fun _ => .generic) st now f).1 xs).2 with
      | none => rw [hr] at h; cases h
      | some rest =>
        rw [hr] at h
        simp only [Option.map] at h
        injection h with h
        obtain ⟨e1, e2⟩ := handle_replyOf R (fun _ => .generic) st now f b ho
        simp only [List.map_cons, ConnW.replyBytes, srvExec, frameOf_cmdFrame, classOf, SrvSt.now,
          List.headD_cons, SrvSt.next, List.tail_cons]
        rw [e2, e1, ih _ now rest hr, h]
    | crash => rw [ho] at h; cases h
    | outside => rw [ho] at h; cases h
    | unmapped => rw [ho] at h; cases h

end Server
end RedisVerif

/-! ## the final executor state of a whole well-formed pipeline (a lemma the C04 theorems do not state) -/

namespace RedisVerif
namespace ConnW
open Conn Resp

theorem stream_cons_len (c : Cmd) (cs : List Cmd) : (encCmd c).length ≤ (stream (c :: cs)).length := by
  rw [stream_cons]; simp

/-- after a whole well-formed pipeline, a peer that never refuses: the loop is still running, the
    read buffer is empty, and the executor is in the state reached by executing every command once,
    in order, on the generic path -/
theorem runW_final {σ : Type} (ex : Exec σ) (s0 : σ) (cfg : Config) (h14 : DeadCfg cfg)
    (hc : cfg.codec = codec1) (hd : 1 ≤ cfg.env.depth) (cmds : List Cmd) (segs : List Bytes) (script : List WEv)
    (h : segs.flatten = stream cmds) (hs : Small (stream cmds)) (hmax : (stream cmds).length ≤ cfg.maxBuffer)
    (hok : ∀ c ∈ cmds, CmdOK cfg c) (hnf : NoFail script = true) :
    (runW cfg ex s0 script segs none).ex = (encActs ex s0 (execAll cmds)).1 ∧
    (runW cfg ex s0 script segs none).ended = false ∧ (runW cfg ex s0 script segs none).wbuf = [] := by
  obtain ⟨done, left, pre, tx', e1, e2, e3, e4⟩ :=
    reads_wf_prefix cfg h14 hc hd (chunksOf cfg segs) cmds [] [] false []
      (by simp [chunksOf, flatMap_splitReads_flatten, h]) hs hmax hok
      (by intro c cs _; have := encCmd_len_pos c; simp; omega)
  have hleft : left = [] := by
    cases left with
    | nil => rfl
    | cons c cs =>
      have h1 := e3 c cs rfl
      have h2 : pre = stream (c :: cs) := by simpa using e2
      have h3 := stream_cons_len c cs
      rw [h2] at h1; omega
  subst hleft
  have hdone : done = cmds := by simpa using e1.symm
  subst hdone
  have hpf : pureFold cfg (St.init, []) (chunksOf cfg segs) = (⟨pre, tx', false⟩, execAll done) := by
    simpa [pureFold, St.init] using e4
  have hnc : anyCrash (pureFold cfg (St.init, []) (chunksOf cfg segs)).2 = false := by
    rw [hpf]; exact anyCrash_execAll done
  have R := fold_relNF cfg ex s0 (chunksOf cfg segs) _ _ (relNF_init ex s0 script hnf) hnc
  rw [hpf] at R
  have hend : (runW cfg ex s0 script segs none).ended = false := by
    cases he : (runW cfg ex s0 script segs none).ended with
    | false => rfl
    | true => exact absurd (R.ended he) (by simp)
  obtain ⟨_, l2, l3, _⟩ := R.live hend
  exact ⟨l2, hend, l3⟩

end ConnW

namespace Server
open Shards Shards.M7 Resp
open Conn (Cmd cmdFrame Path execAll)

/-- the shards the node ends with, through the connection model's fold -/
theorem encActs_srv (R : Routes) : ∀ (frames : List (Nat × Frame)) (st : Shards Redis.Entry) (last : Nat)
    (bs : Bytes), outBytes (run R (fun _ => .generic) st frames).2 = some bs →
    (ConnW.encActs (srvExec R) ⟨st, frames.map (·.1), last⟩ (execAll (frames.map (·.2)))).1.st =
      (run R (fun _ => .generic) st frames).1 := by
  intro frames
  induction frames with
  | nil => intro st last bs _; rfl
  | cons x xs ih =>
    intro st last bs h
    obtain ⟨now, f⟩ := x
    simp only [run] at h
    cases ho : (handle R (fun _ => .generic) st now f).2 with
    | bytes b =>
      rw [ho] at h
      simp only [outBytes] at h
      cases hr : outBytes (run R (fun _ => .generic) (handle R (fun _ => .generic) st now f).1 xs).2 with
      | none => rw [hr] at h; cases h
      | some rest =>
        obtain ⟨e1, _⟩ := handle_replyOf R (fun _ => .generic) st now f b ho
        have := ih (handle R (fun _ => .generic) st now f).1 now rest hr
        simp only [List.map_cons, execAll, ConnW.encActs, srvExec, frameOf_cmdFrame, classOf, SrvSt.now,
          List.headD_cons, SrvSt.next, List.tail_cons, run]
        rw [e1]
        exact this
    | crash => rw [ho] at h; cases h
    | outside => rw [ho] at h; cases h
    | unmapped => rw [ho] at h; cases h

end Server
end RedisVerif
