import RedisVerif.Model.Executor
import RedisVerif.Lemmas.NMap
import RedisVerif.Lemmas.Redis

/-!
  The abstraction from the executor's own state (`Model.Executor.CState`: two maps + clock) to the
  reference model's state, and the algebra the per-command refinement proofs run on:

  * `abs cs`   — every key of `data` with its value and (deadline + epoch);
  * `absP cs`  — `purge (abs cs) (unix cs)`: what M7 works on (`Redis.step = exec ∘ purge`);
  * `entryAt cs k` — what `absP cs` holds at `k`, computed from the two maps (`get_absP`);
  * `absP_update` — a state that differs from `cs` only at key `k` has `absP = setAt k (entryAt · k)`;
  * `purge_insert` / `purge_erase` — the same shape on M7's side.
-/
set_option linter.unusedSimpArgs false
set_option linter.unusedVariables false

namespace RedisVerif.Executor
open RedisVerif RedisVerif.Redis

/-- Unix time in ms as the executor sees it = M7's `now` -/
def unix (cs : CState) : Nat := cs.epoch + cs.now

def absEntry (cs : CState) (k : Nat) (v : Value) : Entry :=
  ⟨v, (NMap.get cs.exp k).map (· + cs.epoch)⟩

/-- every physically present key with its value and its absolute (Unix) deadline -/
def abs (cs : CState) : State := cs.data.map (fun p => (p.1, absEntry cs p.1 p.2))

/-- the state M7's `exec` works on -/
def absP (cs : CState) : State := purge (abs cs) (unix cs)

/-- the executor's invariant (`verify_invariants` of mod.rs, debug builds only) + the number ranges
    in which `as i64` / `saturating_*` are the identity -/
structure CInv (cs : CState) : Prop where
  wfd : NMap.WF cs.data
  wfe : NMap.WF cs.exp
  sub : ∀ k, (NMap.get cs.exp k).isSome = true → (NMap.get cs.data k).isSome = true
  ok : ∀ p ∈ cs.data, ValueOk p.2
  timeOk : cs.epoch + cs.now ≤ 9223372036854775807
  dlOk : ∀ k d, NMap.get cs.exp k = some d → cs.epoch + d ≤ 9223372036854775807

/-- what a client can see at key `k` -/
def entryAt (cs : CState) (k : Nat) : Option Entry :=
  if isExpired cs k then none else (NMap.get cs.data k).map (absEntry cs k)

def setAt (k : Nat) : Option Entry → State → State
  | none, s => NMap.erase k s
  | some e, s => NMap.insert k e s

/-! ### generic -/

theorem get_mapKV {ν μ : Type} (g : Nat → ν → μ) (m : NMap ν) (k : Nat) :
    NMap.get (m.map (fun p => (p.1, g p.1 p.2))) k = (NMap.get m k).map (g k) := by
  induction m with
  | nil => rfl
  | cons q m ih =>
    obtain ⟨kq, vq⟩ := q
    simp only [List.map, NMap.get]
    split
    · rename_i h; subst h; rfl
    · exact ih

theorem wf_mapKV {ν μ : Type} (g : Nat → ν → μ) {m : NMap ν} (h : NMap.WF m) :
    NMap.WF (m.map (fun p => (p.1, g p.1 p.2))) := by
  unfold NMap.WF at *
  rw [List.pairwise_map]
  exact h

theorem get_setAt {s : State} (hw : NMap.WF s) (k : Nat) (o : Option Entry) (k' : Nat) :
    NMap.get (setAt k o s) k' = if k' = k then o else NMap.get s k' := by
  cases o with
  | none => simp [setAt, NMap.get_erase hw]
  | some e => simp [setAt, NMap.get_insert]

theorem wf_setAt {s : State} (hw : NMap.WF s) (k : Nat) (o : Option Entry) : NMap.WF (setAt k o s) := by
  cases o with
  | none => exact NMap.wf_erase hw
  | some e => exact NMap.wf_insert hw

/-! ### abs / absP -/

theorem get_abs (cs : CState) (k : Nat) :
    NMap.get (abs cs) k = (NMap.get cs.data k).map (absEntry cs k) :=
  get_mapKV (absEntry cs) cs.data k

theorem wf_abs {cs : CState} (h : NMap.WF cs.data) : NMap.WF (abs cs) := wf_mapKV _ h

theorem wf_absP {cs : CState} (h : NMap.WF cs.data) : NMap.WF (absP cs) := wf_purge _ (wf_abs h)

theorem live_absEntry (cs : CState) (k : Nat) (v : Value) :
    live (unix cs) (absEntry cs k v) = !isExpired cs k := by
  unfold live absEntry isExpired unix
  cases h : NMap.get cs.exp k with
  | none => simp
  | some d =>
    simp only [Option.map_some]
    by_cases hd : d ≤ cs.now
    · have : ¬ (cs.epoch + cs.now < d + cs.epoch) := by omega
      simp [hd, this]
    · have : cs.epoch + cs.now < d + cs.epoch := by omega
      simp [hd, this]

theorem get_absP {cs : CState} (h : NMap.WF cs.data) (k : Nat) :
    NMap.get (absP cs) k = entryAt cs k := by
  unfold absP entryAt
  rw [get_purge (wf_abs h), get_abs]
  cases hg : NMap.get cs.data k with
  | none => simp
  | some v =>
    simp only [Option.map_some, Option.filter, live_absEntry]
    cases isExpired cs k <;> simp

/-- a state that differs from `cs` only at key `k` (same clock, same epoch) -/
theorem absP_update {cs cs' : CState} {k : Nat}
    (hw : NMap.WF cs.data) (hw' : NMap.WF cs'.data)
    (hnow : cs'.now = cs.now) (hep : cs'.epoch = cs.epoch)
    (hD : ∀ k', k' ≠ k → NMap.get cs'.data k' = NMap.get cs.data k')
    (hE : ∀ k', k' ≠ k → NMap.get cs'.exp k' = NMap.get cs.exp k') :
    absP cs' = setAt k (entryAt cs' k) (absP cs) := by
  apply NMap.ext (wf_absP hw') (wf_setAt (wf_absP hw) _ _)
  intro k'
  rw [get_setAt (wf_absP hw), get_absP hw', get_absP hw]
  by_cases hk : k' = k
  · subst hk; simp
  · simp only [hk, if_false]
    unfold entryAt isExpired absEntry
    rw [hD k' hk, hE k' hk, hnow, hep]

/-- nothing visible changes when `data` / `exp` agree with `cs` on every key (e.g. a lazy drop) -/
theorem absP_congr {cs cs' : CState}
    (hw : NMap.WF cs.data) (hw' : NMap.WF cs'.data)
    (h : ∀ k, entryAt cs' k = entryAt cs k) : absP cs' = absP cs := by
  apply NMap.ext (wf_absP hw') (wf_absP hw)
  intro k
  rw [get_absP hw', get_absP hw, h]

theorem setAt_self {s : State} (hw : NMap.WF s) (k : Nat) :
    setAt k (NMap.get s k) s = s := by
  apply NMap.ext (wf_setAt hw _ _) hw
  intro k'
  rw [get_setAt hw]
  split
  · rename_i h; subst h; rfl
  · rfl

/-! ### M7's side -/

theorem purge_insert {s : State} (hw : NMap.WF s) (k : Nat) (e : Entry) (now : Nat) :
    purge (NMap.insert k e s) now = setAt k (if live now e then some e else none) (purge s now) := by
  apply NMap.ext (wf_purge _ (NMap.wf_insert hw)) (wf_setAt (wf_purge _ hw) _ _)
  intro k'
  rw [get_purge (NMap.wf_insert hw), NMap.get_insert, get_setAt (wf_purge _ hw), get_purge hw]
  by_cases hk : k' = k
  · simp only [hk, if_true, Option.filter]
  · simp only [hk, if_false]

theorem purge_erase {s : State} (hw : NMap.WF s) (k : Nat) (now : Nat) :
    purge (NMap.erase k s) now = NMap.erase k (purge s now) := by
  apply NMap.ext (wf_purge _ (NMap.wf_erase hw)) (NMap.wf_erase (wf_purge _ hw))
  intro k'
  rw [get_purge (NMap.wf_erase hw), NMap.get_erase hw, NMap.get_erase (wf_purge _ hw), get_purge hw]
  split <;> simp

theorem purge_absP (cs : CState) : purge (absP cs) (unix cs) = absP cs := purge_idem _ _

/-- every entry of `absP` is live -/
theorem live_of_get_absP {cs : CState} {k : Nat} {e : Entry}
    (h : NMap.get (absP cs) k = some e) : live (unix cs) e = true := by
  have := get_mem h
  exact (mem_purge.mp this).2

/-! ### the state invariant of M7 holds on the abstraction -/

theorem inv_abs {cs : CState} (h : CInv cs) : Inv (abs cs) := by
  refine ⟨wf_abs h.wfd, ?_⟩
  intro p hp
  unfold abs at hp
  obtain ⟨q, hq, rfl⟩ := List.mem_map.mp hp
  exact h.ok q hq

theorem inv_absP {cs : CState} (h : CInv cs) : Inv (absP cs) := inv_purge _ (inv_abs h)

/-! ### the update shapes the executor functions are made of -/

section updates
variable {c : CState} {k : Nat}

theorem entryAt_live (hx : isExpired c k = false) :
    entryAt c k = (NMap.get c.data k).map (absEntry c k) := by
  simp [entryAt, hx]

theorem entryAt_expired (hx : isExpired c k = true) : entryAt c k = none := by
  simp [entryAt, hx]

/-- `data.insert(k, v)`; the deadline entry is left alone -/
theorem upd_data (h : CInv c) (v : Value) :
    absP { c with data := NMap.insert k v c.data } =
      setAt k (if isExpired c k then none else some ⟨v, (NMap.get c.exp k).map (· + c.epoch)⟩) (absP c) := by
  rw [absP_update (cs := c) (cs' := { c with data := NMap.insert k v c.data }) (k := k)
    h.wfd (NMap.wf_insert h.wfd) rfl rfl
    (fun k' hk => by simp [NMap.get_insert, hk]) (fun _ _ => rfl)]
  congr 1
  unfold entryAt
  rw [show isExpired { c with data := NMap.insert k v c.data } k = isExpired c k from rfl]
  cases isExpired c k <;> simp [absEntry, NMap.get_insert]

/-- `data.insert(k, v); expirations.remove(k)` -/
theorem upd_data_clear (h : CInv c) (v : Value) :
    absP { c with data := NMap.insert k v c.data, exp := NMap.erase k c.exp } =
      NMap.insert k ⟨v, none⟩ (absP c) := by
  rw [absP_update (cs := c) (cs' := { c with data := NMap.insert k v c.data, exp := NMap.erase k c.exp })
    (k := k) h.wfd (NMap.wf_insert h.wfd) rfl rfl
    (fun k' hk => by simp [NMap.get_insert, hk]) (fun k' hk => by simp [NMap.get_erase h.wfe, hk])]
  simp [entryAt, isExpired, absEntry, NMap.get_insert, NMap.get_erase h.wfe, setAt]

/-- `data.insert(k, v); expirations.insert(k, d)` -/
theorem upd_data_dl (h : CInv c) (v : Value) (d : Nat) :
    absP { c with data := NMap.insert k v c.data, exp := NMap.insert k d c.exp } =
      setAt k (if d ≤ c.now then none else some ⟨v, some (d + c.epoch)⟩) (absP c) := by
  rw [absP_update (cs := c) (cs' := { c with data := NMap.insert k v c.data, exp := NMap.insert k d c.exp })
    (k := k) h.wfd (NMap.wf_insert h.wfd) rfl rfl
    (fun k' hk => by simp [NMap.get_insert, hk]) (fun k' hk => by simp [NMap.get_insert, hk])]
  congr 1
  have hx : isExpired { c with data := NMap.insert k v c.data, exp := NMap.insert k d c.exp } k
      = decide (d ≤ c.now) := by simp [isExpired, NMap.get_insert]
  unfold entryAt
  rw [hx]
  by_cases hd : d ≤ c.now <;> simp [hd, absEntry, NMap.get_insert]

/-- `expirations.insert(k, d)` on a key that holds `v` -/
theorem upd_exp (h : CInv c) {v : Value} (hv : NMap.get c.data k = some v) (d : Nat) :
    absP { c with exp := NMap.insert k d c.exp } =
      setAt k (if d ≤ c.now then none else some ⟨v, some (d + c.epoch)⟩) (absP c) := by
  rw [absP_update (cs := c) (cs' := { c with exp := NMap.insert k d c.exp }) (k := k) h.wfd h.wfd rfl rfl
    (fun _ _ => rfl) (fun k' hk => by simp [NMap.get_insert, hk])]
  congr 1
  have hx : isExpired { c with exp := NMap.insert k d c.exp } k = decide (d ≤ c.now) := by
    simp [isExpired, NMap.get_insert]
  unfold entryAt
  rw [hx]
  by_cases hd : d ≤ c.now <;> simp [hd, absEntry, NMap.get_insert, hv]

/-- `expirations.remove(k)` on a key that holds `v` -/
theorem upd_persist (h : CInv c) {v : Value} (hv : NMap.get c.data k = some v) :
    absP { c with exp := NMap.erase k c.exp } = NMap.insert k ⟨v, none⟩ (absP c) := by
  rw [absP_update (cs := c) (cs' := { c with exp := NMap.erase k c.exp }) (k := k) h.wfd h.wfd rfl rfl
    (fun _ _ => rfl) (fun k' hk => by simp [NMap.get_erase h.wfe, hk])]
  simp [entryAt, isExpired, absEntry, NMap.get_erase h.wfe, hv, setAt]

/-- `data.remove(k); expirations.remove(k)` -/
theorem upd_drop (h : CInv c) : absP (dropKey c k) = NMap.erase k (absP c) := by
  rw [absP_update (cs := c) (cs' := dropKey c k) (k := k) h.wfd (NMap.wf_erase h.wfd) rfl rfl
    (fun k' hk => by simp [dropKey, NMap.get_erase h.wfd, hk])
    (fun k' hk => by simp [dropKey, NMap.get_erase h.wfe, hk])]
  simp [entryAt, isExpired, dropKey, NMap.get_erase h.wfd, NMap.get_erase h.wfe, setAt]

/-- dropping a key that is past its deadline changes nothing visible -/
theorem upd_drop_expired (h : CInv c) (hx : isExpired c k = true) : absP (dropKey c k) = absP c := by
  rw [upd_drop h]
  have : NMap.get (absP c) k = none := by rw [get_absP h.wfd, entryAt_expired hx]
  have h2 := setAt_self (wf_absP h.wfd) (k := k) (s := absP c)
  rw [this] at h2
  exact h2

/-! ### … and the invariant along them -/

theorem cinv_data (h : CInv c) {v : Value} (hv : ValueOk v) :
    CInv { c with data := NMap.insert k v c.data } where
  wfd := NMap.wf_insert h.wfd
  wfe := h.wfe
  sub := fun k' hk => by
    have := h.sub k' hk
    simp only [NMap.get_insert]
    split <;> simp_all
  ok := fun p hp => by
    cases Redis.mem_insert hp with
    | inl e => subst e; exact hv
    | inr e => exact h.ok p e
  timeOk := h.timeOk
  dlOk := h.dlOk

theorem cinv_data_clear (h : CInv c) {v : Value} (hv : ValueOk v) :
    CInv { c with data := NMap.insert k v c.data, exp := NMap.erase k c.exp } where
  wfd := NMap.wf_insert h.wfd
  wfe := NMap.wf_erase h.wfe
  sub := fun k' hk => by
    simp only [NMap.get_erase h.wfe] at hk
    simp only [NMap.get_insert]
    split
    · rfl
    · rename_i hne; simp only [hne, if_false] at hk; exact h.sub k' hk
  ok := fun p hp => by
    cases Redis.mem_insert hp with
    | inl e => subst e; exact hv
    | inr e => exact h.ok p e
  timeOk := h.timeOk
  dlOk := fun k' d hd => by
    simp only [NMap.get_erase h.wfe] at hd
    split at hd
    · cases hd
    · exact h.dlOk k' d hd

theorem cinv_data_dl (h : CInv c) {v : Value} (hv : ValueOk v) {d : Nat}
    (hd : c.epoch + d ≤ 9223372036854775807) :
    CInv { c with data := NMap.insert k v c.data, exp := NMap.insert k d c.exp } where
  wfd := NMap.wf_insert h.wfd
  wfe := NMap.wf_insert h.wfe
  sub := fun k' hk => by
    simp only [NMap.get_insert] at hk ⊢
    split
    · rfl
    · rename_i hne; simp only [hne, if_false] at hk; exact h.sub k' hk
  ok := fun p hp => by
    cases Redis.mem_insert hp with
    | inl e => subst e; exact hv
    | inr e => exact h.ok p e
  timeOk := h.timeOk
  dlOk := fun k' d' hd' => by
    simp only [NMap.get_insert] at hd'
    split at hd'
    · cases hd'; exact hd
    · exact h.dlOk k' d' hd'

theorem cinv_exp (h : CInv c) (hk : (NMap.get c.data k).isSome = true) {d : Nat}
    (hd : c.epoch + d ≤ 9223372036854775807) :
    CInv { c with exp := NMap.insert k d c.exp } where
  wfd := h.wfd
  wfe := NMap.wf_insert h.wfe
  sub := fun k' hk' => by
    simp only [NMap.get_insert] at hk'
    split at hk'
    · rename_i e; subst e; exact hk
    · exact h.sub k' hk'
  ok := h.ok
  timeOk := h.timeOk
  dlOk := fun k' d' hd' => by
    simp only [NMap.get_insert] at hd'
    split at hd'
    · cases hd'; exact hd
    · exact h.dlOk k' d' hd'

theorem cinv_persist (h : CInv c) : CInv { c with exp := NMap.erase k c.exp } where
  wfd := h.wfd
  wfe := NMap.wf_erase h.wfe
  sub := fun k' hk' => by
    simp only [NMap.get_erase h.wfe] at hk'
    split at hk'
    · cases hk'
    · exact h.sub k' hk'
  ok := h.ok
  timeOk := h.timeOk
  dlOk := fun k' d hd => by
    simp only [NMap.get_erase h.wfe] at hd
    split at hd
    · cases hd
    · exact h.dlOk k' d hd

theorem cinv_drop (h : CInv c) : CInv (dropKey c k) where
  wfd := NMap.wf_erase h.wfd
  wfe := NMap.wf_erase h.wfe
  sub := fun k' hk' => by
    simp only [dropKey, NMap.get_erase h.wfe, NMap.get_erase h.wfd] at hk' ⊢
    split
    · rename_i e; simp [e] at hk'
    · rename_i e; simp only [e, if_false] at hk'; exact h.sub k' hk'
  ok := fun p hp => h.ok p (Redis.mem_erase hp)
  timeOk := h.timeOk
  dlOk := fun k' d hd => by
    simp only [dropKey, NMap.get_erase h.wfe] at hd
    split at hd
    · cases hd
    · exact h.dlOk k' d hd

end updates

/-! ### `get_value` -/

/-- what `get_value(k)` returns and leaves behind -/
structure GetValueSpec (cs : CState) (k : Nat) (r : CState × Option Value) : Prop where
  inv : CInv r.1
  same : absP r.1 = absP cs
  now : r.1.now = cs.now
  epoch : r.1.epoch = cs.epoch
  notExp : isExpired r.1 k = false
  val : NMap.get r.1.data k = r.2
  look : NMap.get (absP cs) k = r.2.map (fun v => ⟨v, (NMap.get r.1.exp k).map (· + cs.epoch)⟩)

theorem getValue_spec {cs : CState} (h : CInv cs) (k : Nat) : GetValueSpec cs k (getValue cs k) := by
  unfold getValue
  by_cases hx : isExpired cs k = true
  · simp only [hx, if_true]
    refine ⟨cinv_drop h, upd_drop_expired h hx, rfl, rfl, ?_, ?_, ?_⟩
    · simp [isExpired, dropKey, NMap.get_erase h.wfe]
    · simp [dropKey, NMap.get_erase h.wfd]
    · rw [get_absP h.wfd, entryAt_expired hx]; rfl
  · have hx' : isExpired cs k = false := by simpa using hx
    simp only [hx', Bool.false_eq_true, if_false]
    refine ⟨h, rfl, rfl, rfl, hx', rfl, ?_⟩
    rw [get_absP h.wfd, entryAt_live hx']
    rfl

theorem lazyDrop_spec {cs : CState} (h : CInv cs) (k : Nat) :
    GetValueSpec cs k (lazyDrop cs k, NMap.get (lazyDrop cs k).data k) := by
  have := getValue_spec h k
  unfold getValue at this
  unfold lazyDrop
  by_cases hx : isExpired cs k = true
  · simp only [hx, if_true] at this ⊢
    have hv : NMap.get (dropKey cs k).data k = none := by simp [dropKey, NMap.get_erase h.wfd]
    rw [hv]; exact this
  · have hx' : isExpired cs k = false := by simpa using hx
    simp only [hx', Bool.false_eq_true, if_false] at this ⊢
    exact this

/-- `liveKey` = M7 sees the key -/
theorem liveKey_eq {cs : CState} (h : CInv cs) (k : Nat) :
    liveKey cs k = (NMap.get (absP cs) k).isSome := by
  rw [get_absP h.wfd]
  unfold liveKey entryAt
  cases isExpired cs k <;> simp

/-! ### machine arithmetic inside the ranges the invariant guarantees -/

theorem asI64_small {n : Nat} (h : n ≤ 9223372036854775807) : asI64 n = (n : Int) := by
  unfold asI64
  have e : i64Max = 9223372036854775807 := rfl
  rw [if_pos (by omega)]

theorem sat_id {i : Int} (h1 : -9223372036854775808 ≤ i) (h2 : i ≤ 9223372036854775807) : sat i = i := by
  unfold sat
  have e : i64Max = 9223372036854775807 := rfl
  have e' : i64Min = -9223372036854775808 := rfl
  rw [if_neg (by omega), if_neg (by omega)]

theorem asU64_nonneg {i : Int} (h : 0 ≤ i) : asU64 i = i.toNat := by
  unfold asU64
  simp [h]

theorem basetime_eq {cs : CState} (h : CInv cs) : basetimeMs cs = ((unix cs : Nat) : Int) := by
  unfold basetimeMs unix
  have := h.timeOk
  rw [asI64_small (by omega), sat_id (by omega) (by omega)]
  omega

theorem inI64_iff (i : Int) : inI64 i = true ↔ (-9223372036854775808 ≤ i ∧ i ≤ 9223372036854775807) := by
  unfold inI64
  have e : i64Max = 9223372036854775807 := rfl
  have e' : i64Min = -9223372036854775808 := rfl
  rw [Bool.and_eq_true, decide_eq_true_eq, decide_eq_true_eq, e, e']

/-! ### more map algebra -/

theorem insert_insert {s : State} (hw : NMap.WF s) (k : Nat) (e e' : Entry) :
    NMap.insert k e (NMap.insert k e' s) = NMap.insert k e s := by
  apply NMap.ext (NMap.wf_insert (NMap.wf_insert hw)) (NMap.wf_insert hw)
  intro k'
  simp only [NMap.get_insert]
  split <;> rfl

theorem erase_insert {s : State} (hw : NMap.WF s) (k : Nat) (e : Entry) :
    NMap.erase k (NMap.insert k e s) = NMap.erase k s := by
  apply NMap.ext (NMap.wf_erase (NMap.wf_insert hw)) (NMap.wf_erase hw)
  intro k'
  simp only [NMap.get_erase (NMap.wf_insert hw), NMap.get_erase hw, NMap.get_insert]
  split <;> rfl

theorem insert_self {s : State} (hw : NMap.WF s) {k : Nat} {e : Entry} (h : NMap.get s k = some e) :
    NMap.insert k e s = s := by
  have := setAt_self hw k
  rw [h] at this
  exact this

theorem erase_none {s : State} (hw : NMap.WF s) {k : Nat} (h : NMap.get s k = none) :
    NMap.erase k s = s := by
  have := setAt_self hw k
  rw [h] at this
  exact this

/-! ### deadline operations on a key that is present and not past its deadline
    (the shapes `execute_set` after its `data.insert`, `execute_getex`, `execute_expire*`, `persist` share) -/

section deadline
variable {c : CState} {k : Nat} {w : Value}

/-- `expirations.insert(k, d)` -/
theorem dl_set (h : CInv c) (hv : NMap.get c.data k = some w) (d : Nat) :
    absP { c with exp := NMap.insert k d c.exp } =
      purge (NMap.insert k ⟨w, some (d + c.epoch)⟩ (absP c)) (unix c) := by
  rw [upd_exp h hv, purge_insert (wf_absP h.wfd), purge_absP]
  congr 1
  simp only [live, unix]
  by_cases hd : d ≤ c.now
  · have : ¬ (c.epoch + c.now < d + c.epoch) := by omega
    simp [hd, this]
  · have : c.epoch + c.now < d + c.epoch := by omega
    simp [hd, this]

/-- `data.remove(k); expirations.remove(k)` = storing a deadline that has been reached -/
theorem dl_drop (h : CInv c) {t : Nat} (ht : t ≤ unix c) :
    absP (dropKey c k) = purge (NMap.insert k ⟨w, some t⟩ (absP c)) (unix c) := by
  rw [upd_drop h, purge_insert (wf_absP h.wfd), purge_absP]
  have : ¬ (unix c < t) := by omega
  simp [live, this, setAt]

/-- `expirations.remove(k)` -/
theorem dl_clear (h : CInv c) (hv : NMap.get c.data k = some w) :
    absP { c with exp := NMap.erase k c.exp } =
      purge (NMap.insert k ⟨w, none⟩ (absP c)) (unix c) := by
  rw [upd_persist h hv, purge_insert (wf_absP h.wfd), purge_absP]
  simp [live, setAt]

/-- nothing -/
theorem dl_keep (h : CInv c) (hv : NMap.get c.data k = some w) (hx : isExpired c k = false) :
    absP c = purge (NMap.insert k ⟨w, (NMap.get c.exp k).map (· + c.epoch)⟩ (absP c)) (unix c) := by
  have hg : NMap.get (absP c) k = some ⟨w, (NMap.get c.exp k).map (· + c.epoch)⟩ := by
    rw [get_absP h.wfd, entryAt_live hx, hv]; rfl
  rw [insert_self (wf_absP h.wfd) hg, purge_absP]

end deadline

end RedisVerif.Executor
