import RedisVerif.Lemmas.SkipListOps
import RedisVerif.Lemmas.DataStructs
namespace RedisVerif.SkipList
open RedisVerif RedisVerif.Redis

/-! ## association list `members` -/

theorem mmGet_mmSet (M : MemberMap) (m : BS) (s : Score) (m' : BS) :
    mmGet (mmSet M m s) m' = if m' = m then some s else mmGet M m' := by
  induction M with
  | nil => simp [mmSet, mmGet]
  | cons p r ih =>
    obtain ⟨k, v⟩ := p
    simp only [mmSet]
    by_cases hk : m = k
    · subst hk
      simp only [if_true, mmGet]
      by_cases h' : m' = m <;> simp [h']
    · simp only [hk, if_false, mmGet, ih]
      by_cases h' : m' = k
      · have : ¬ m' = m := fun e => hk (e ▸ h')
        simp [h', this]; intro e; exact absurd e.symm hk
      · simp [h']

theorem mmSet_keys (M : MemberMap) (m : BS) (s : Score) :
    (mmSet M m s).map Prod.fst = if (mmGet M m).isSome then M.map Prod.fst else M.map Prod.fst ++ [m] := by
  induction M with
  | nil => simp [mmSet, mmGet]
  | cons p r ih =>
    obtain ⟨k, v⟩ := p
    simp only [mmSet, mmGet]
    by_cases hk : m = k
    · subst hk; simp
    · simp only [hk, if_false, List.map_cons, ih]
      split <;> simp

theorem mmGet_none_iff (M : MemberMap) (m : BS) : mmGet M m = none ↔ m ∉ M.map Prod.fst := by
  induction M with
  | nil => simp [mmGet]
  | cons p r ih =>
    obtain ⟨k, v⟩ := p
    simp only [mmGet, List.map_cons, List.mem_cons, not_or]
    by_cases hk : m = k
    · simp [hk]
    · simp [hk, ih]

theorem mmSet_nodup {M : MemberMap} (h : (M.map Prod.fst).Nodup) (m : BS) (s : Score) :
    ((mmSet M m s).map Prod.fst).Nodup := by
  rw [mmSet_keys]
  split
  · exact h
  · rename_i hn
    have : mmGet M m = none := by cases hg : mmGet M m <;> simp_all
    have hnm := (mmGet_none_iff M m).mp this
    rw [List.nodup_append]
    refine ⟨h, by simp, ?_⟩
    intro a ha b hb
    simp at hb; subst hb
    intro e; subst e; exact hnm ha

theorem mmSet_length (M : MemberMap) (m : BS) (s : Score) :
    (mmSet M m s).length = if (mmGet M m).isSome then M.length else M.length + 1 := by
  have := congrArg List.length (mmSet_keys M m s)
  simp only [List.length_map] at this
  rw [this]; split <;> simp

theorem mmGet_mmErase {M : MemberMap} (h : (M.map Prod.fst).Nodup) (m m' : BS) :
    mmGet (mmErase M m) m' = if m' = m then none else mmGet M m' := by
  induction M with
  | nil => simp [mmErase, mmGet]
  | cons p r ih =>
    obtain ⟨k, v⟩ := p
    simp only [List.map_cons, List.nodup_cons] at h
    simp only [mmErase]
    by_cases hk : m = k
    · subst hk
      simp only [if_true, mmGet]
      by_cases h' : m' = m
      · subst h'; simp; exact (mmGet_none_iff r m').mpr h.1
      · simp [h']
    · simp only [hk, if_false, mmGet, ih h.2]
      by_cases h' : m' = k
      · have : ¬ m' = m := fun e => hk (e ▸ h')
        simp [h']; intro e; exact absurd e.symm hk
      · simp [h']

theorem mmErase_sublist (M : MemberMap) (m : BS) : (mmErase M m).Sublist M := by
  induction M with
  | nil => exact List.Sublist.refl _
  | cons p r ih =>
    obtain ⟨k, v⟩ := p
    simp only [mmErase]
    split
    · exact List.sublist_cons_self _ _
    · exact ih.cons_cons _

theorem mmErase_nodup {M : MemberMap} (h : (M.map Prod.fst).Nodup) (m : BS) :
    ((mmErase M m).map Prod.fst).Nodup :=
  h.sublist ((mmErase_sublist M m).map _)

theorem mmErase_length {M : MemberMap} {m : BS} {s : Score} (h : mmGet M m = some s) :
    (mmErase M m).length + 1 = M.length := by
  induction M with
  | nil => simp [mmGet] at h
  | cons p r ih =>
    obtain ⟨k, v⟩ := p
    simp only [mmErase]
    by_cases hk : m = k
    · simp [hk]
    · simp only [hk, if_false, List.length_cons]
      simp only [mmGet, hk, if_false] at h
      rw [ih h]

/-! ## `zInsert` / `zRemove` / `zRankAux` / `zScore` on lists with distinct members -/

theorem zScore_zInsert_ne {m m' : BS} {sc : Score} (h : m' ≠ m) (z : ZL) :
    zScore (zInsert m sc z) m' = zScore z m' := by
  induction z with
  | nil => simp [zInsert, zScore, h]
  | cons q z ih =>
    obtain ⟨k, v⟩ := q
    simp only [zInsert]
    split
    · simp [zScore, h]
    · simp only [zScore, ih]

theorem zScore_zInsert_self {m : BS} {sc : Score} {z : ZL} (hm : ∀ p ∈ z, p.1 ≠ m) :
    zScore (zInsert m sc z) m = some sc := by
  induction z with
  | nil => simp [zInsert, zScore]
  | cons q z ih =>
    obtain ⟨m', sc'⟩ := q
    have hq : m' ≠ m := hm (m', sc') (List.mem_cons_self ..)
    simp only [zInsert]
    split
    · simp [zScore]
    · have : ¬ m = m' := fun e => hq e.symm
      simp only [zScore, if_neg this]
      exact ih (fun p hp => hm p (List.mem_cons_of_mem _ hp))

theorem zScore_zRemove_ne {m m' : BS} (h : m' ≠ m) (z : ZL) :
    zScore (zRemove m z) m' = zScore z m' := by
  induction z with
  | nil => rfl
  | cons q z ih =>
    obtain ⟨k, v⟩ := q
    simp only [zRemove]
    split
    · rename_i e; subst e; simp [zScore, h]
    · simp only [zScore, ih]

theorem zScore_eq_none_of_not_mem {m : BS} {z : ZL} (h : ∀ p ∈ z, p.1 ≠ m) : zScore z m = none := by
  induction z with
  | nil => rfl
  | cons q z ih =>
    obtain ⟨k, v⟩ := q
    have : ¬ m = k := fun e => h (k, v) (List.mem_cons_self ..) e.symm
    simp only [zScore, this, if_false]
    exact ih (fun p hp => h p (List.mem_cons_of_mem _ hp))

theorem zRemove_of_absent {m : BS} {z : ZL} (h : ∀ p ∈ z, p.1 ≠ m) : zRemove m z = z := by
  induction z with
  | nil => rfl
  | cons q z ih =>
    obtain ⟨k, v⟩ := q
    have : ¬ m = k := fun e => h (k, v) (List.mem_cons_self ..) e.symm
    simp only [zRemove, this, if_false]
    rw [ih (fun p hp => h p (List.mem_cons_of_mem _ hp))]

/-- position of an entry in a list with distinct members -/
theorem zfacts_of_getElem {z : ZL} (hd : z.Pairwise (fun a b => a.1 ≠ b.1)) :
    ∀ {i : Nat} {m : BS} {s : Score}, z[i]? = some (m, s) →
      zScore z m = some s ∧ zRemove m z = z.eraseIdx i ∧ ∀ n, zRankAux z m n = some (n + i) := by
  induction z with
  | nil => intro i m s h; simp at h
  | cons q z ih =>
    obtain ⟨k, v⟩ := q
    rw [List.pairwise_cons] at hd
    intro i m s h
    cases i with
    | zero =>
      simp at h; obtain ⟨rfl, rfl⟩ := h
      simp [zScore, zRemove, zRankAux]
    | succ i =>
      have hz : z[i]? = some (m, s) := by simpa using h
      have hne : ¬ m = k := fun e => hd.1 (m, s) (List.mem_of_getElem? hz) (by simp [e])
      obtain ⟨h1, h2, h3⟩ := ih hd.2 hz
      refine ⟨by simp [zScore, hne, h1], by simp [zRemove, hne, h2], fun n => ?_⟩
      simp only [zRankAux, hne, if_false, h3 (n + 1)]
      congr 1; omega

theorem zRankAux_none {m : BS} {z : ZL} (h : ∀ p ∈ z, p.1 ≠ m) (n : Nat) : zRankAux z m n = none := by
  induction z generalizing n with
  | nil => rfl
  | cons q z ih =>
    obtain ⟨k, v⟩ := q
    have : ¬ m = k := fun e => h (k, v) (List.mem_cons_self ..) e.symm
    simp only [zRankAux, this, if_false]
    exact ih (fun p hp => h p (List.mem_cons_of_mem _ hp)) _

theorem zScore_some_mem {m : BS} {s : Score} {z : ZL} (h : zScore z m = some s) :
    ∃ i : Nat, z[i]? = some (m, s) := by
  induction z with
  | nil => simp [zScore] at h
  | cons q z ih =>
    obtain ⟨k, v⟩ := q
    simp only [zScore] at h
    split at h
    · rename_i e; subst e; simp at h; subst h; exact ⟨0, rfl⟩
    · obtain ⟨i, hi⟩ := ih h; exact ⟨i + 1, by simpa using hi⟩

/-- `zInsert` puts a fresh member at the index `cntLt` counts -/
theorem zInsert_eq_insertAt {m : BS} {sc : Score} : ∀ {z : ZL}, (∀ p ∈ z, p.1 ≠ m) →
    zInsert m sc z = insertAt (m, sc) z ((z.takeWhile (fun p => zLt p (m, sc))).length)
  | [], _ => by simp [zInsert, insertAt]
  | q :: z, h => by
    have hq : q.1 ≠ m := h q (List.mem_cons_self ..)
    simp only [zInsert, List.takeWhile_cons]
    by_cases hlt : zLt q (m, sc) = true
    · have : zLt (m, sc) q = false := zLt_asymm hlt
      simp only [this, Bool.false_eq_true, if_false, hlt, if_true, List.length_cons, insertAt]
      rw [zInsert_eq_insertAt (fun p hp => h p (List.mem_cons_of_mem _ hp))]
    · have hgt : zLt (m, sc) q = true := zLt_total_of_ne hq (by simpa using hlt)
      simp [hgt, hlt, insertAt]

theorem cntLt_eq_takeWhile (tgt : BS × Score) (T : List Tower) :
    cntLt tgt T = ((T.map Tower.key).takeWhile (fun p => zLt p tgt)).length := by
  induction T with
  | nil => rfl
  | cons t ts ih =>
    simp only [cntLt, List.map_cons, List.takeWhile_cons] at *
    split <;> simp_all

end RedisVerif.SkipList
