import RedisVerif.Lemmas.Executor

/-! Refinement of the string / counter functions of `Model.Executor` to M7 (`Redis.exec`). -/
set_option linter.unusedSimpArgs false
set_option linter.unusedVariables false

namespace RedisVerif.Executor
open RedisVerif RedisVerif.Redis

/-- the result `res` of an executor function simulates the state function `f` on `absP cs`: same
    reply, same visible keyspace afterwards, invariant kept, clock and configuration untouched -/
def SimF (cs : CState) (f : State → State × Reply) (res : CState × Reply) : Prop :=
  res.2 = (f (absP cs)).2 ∧
  absP res.1 = purge (f (absP cs)).1 (unix cs) ∧
  CInv res.1 ∧ res.1.now = cs.now ∧ res.1.epoch = cs.epoch

/-- … simulates M7's `exec` of `c` -/
def Sim (cs : CState) (c : Cmd) (res : CState × Reply) : Prop :=
  SimF cs (fun s => exec s (unix cs) c) res

theorem exp_none_of_data_none {c : CState} (h : CInv c) {k : Nat} (hd : NMap.get c.data k = none) :
    NMap.get c.exp k = none := by
  cases he : NMap.get c.exp k with
  | none => rfl
  | some d =>
    have := h.sub k (by simp [he])
    simp [hd] at this

theorem live_of_notExp {c : CState} {k : Nat} (hx : isExpired c k = false) (v : Value) :
    live (unix c) ⟨v, (NMap.get c.exp k).map (· + c.epoch)⟩ = true := by
  have := live_absEntry c k v
  simpa [absEntry, hx] using this

theorem unix_eq {c cs : CState} (hn : c.now = cs.now) (he : c.epoch = cs.epoch) : unix cs = unix c := by
  simp [unix, hn, he]

set_option hygiene false in
/-- `gv h k`: case analysis of `getValue cs k` under `h : CInv cs`, everything restated about the
    state `c` it leaves behind -/
macro "gv" h:ident k:ident : tactic => `(tactic| (
  have g := getValue_spec $h $k
  rcases hr : getValue _ $k with ⟨c, o⟩
  rw [hr] at g
  obtain ⟨ginv, gsame, gnow, gep, gnx, gval, glook⟩ := g
  dsimp only at ginv gsame gnow gep gnx gval glook
  have gux := unix_eq gnow gep
  rw [← gep] at glook))

theorem cGet_sim {cs : CState} (h : CInv cs) (k : Nat) : Sim cs (.get k) (cGet cs k) := by
  have g := getValue_spec h k
  unfold cGet
  rcases hr : getValue cs k with ⟨c, o⟩
  rw [hr] at g
  obtain ⟨ginv, gsame, gnow, gep, gnx, gval, glook⟩ := g
  dsimp only at ginv gsame gnow gep gnx gval glook
  simp only [Sim, SimF, exec, execGet, lookupStr]
  rw [glook]
  cases o with
  | none => simp [gsame, purge_absP, ginv, gnow, gep]
  | some v => cases v <;> simp [gsame, purge_absP, ginv, gnow, gep, wrongType]

theorem cAppend_sim {cs : CState} (h : CInv cs) (k : Nat) (v : BS) :
    Sim cs (.append k v) (cAppend cs k v) := by
  unfold cAppend
  gv h k
  simp only [Sim, SimF, exec, execAppend, lookupStr]
  rw [glook, gux, ← gsame]
  cases o with
  | none =>
    refine ⟨by first | rfl | trivial, ?_, cinv_data ginv (valueOk_str _), gnow, gep⟩
    simp [upd_data ginv, gnx, purge_insert (wf_absP ginv.wfd), purge_absP, live, setAt,
      exp_none_of_data_none ginv gval]
  | some w =>
    cases w
    case str b =>
      refine ⟨by first | rfl | trivial, ?_, cinv_data ginv (valueOk_str _), gnow, gep⟩
      simp [upd_data ginv, gnx, purge_insert (wf_absP ginv.wfd), purge_absP, live_of_notExp gnx, setAt]
    all_goals exact ⟨by first | rfl | trivial, by simp [purge_absP], ginv, gnow, gep⟩

theorem cStrLen_sim {cs : CState} (h : CInv cs) (k : Nat) : Sim cs (.strlen k) (cStrLen cs k) := by
  unfold cStrLen
  gv h k
  simp only [Sim, SimF, exec, execStrLen, lookupStr]
  rw [glook]
  cases o with
  | none => simp [gsame, purge_absP, ginv, gnow, gep]
  | some v => cases v <;> simp [gsame, purge_absP, ginv, gnow, gep, wrongType]

theorem cSetNx_sim {cs : CState} (h : CInv cs) (k : Nat) (v : BS) :
    Sim cs (.setnx k v) (cSetNx cs k v) := by
  unfold cSetNx
  simp only [Sim, SimF, exec, execSetNx]
  rw [liveKey_eq h]
  cases hg : NMap.get (absP cs) k with
  | some e => simp [purge_absP, h]
  | none =>
    refine ⟨by simp, ?_, by simpa using cinv_data_clear h (valueOk_str _), by simp, by simp⟩
    simp [upd_data_clear h, purge_insert (wf_absP h.wfd), purge_absP, live, setAt]

theorem cSetDirect_sim {cs : CState} (h : CInv cs) (k : Nat) (v : BS) :
    Sim cs (.set k v .always .none false) (cSetDirect cs k v) := by
  unfold cSetDirect
  simp only [Sim, SimF, exec, execSet, setPlan, setCore]
  refine ⟨by simp [Reply.ok], ?_, cinv_data_clear h (valueOk_str _), trivial, trivial⟩
  simp [upd_data_clear h, purge_insert (wf_absP h.wfd), purge_absP, live, setAt, planDl]

/-- GETSET: the code is `ExecutorCode.codeGetSet` (the deadline stays — finding
    C01:getset-keeps-deadline); `Props.C01Data.getset_code_vs_spec` says where that differs from M7 -/
theorem cGetSet_sim {cs : CState} (h : CInv cs) (k : Nat) (v : BS) :
    SimF cs (fun s => ExecutorCode.codeGetSet s k v) (cGetSet cs k v) := by
  unfold cGetSet
  gv h k
  simp only [SimF, ExecutorCode.codeGetSet, lookupStr]
  rw [glook, gux, ← gsame]
  cases o with
  | none =>
    refine ⟨by first | rfl | trivial, ?_, cinv_data ginv (valueOk_str _), gnow, gep⟩
    simp [upd_data ginv, gnx, purge_insert (wf_absP ginv.wfd), purge_absP, live, setAt,
      exp_none_of_data_none ginv gval]
  | some w =>
    cases w
    case str b =>
      refine ⟨by first | rfl | trivial, ?_, cinv_data ginv (valueOk_str _), gnow, gep⟩
      simp [upd_data ginv, gnx, purge_insert (wf_absP ginv.wfd), purge_absP, live_of_notExp gnx, setAt]
    all_goals exact ⟨by first | rfl | trivial, by simp [purge_absP], ginv, gnow, gep⟩

/-- GETRANGE: the code is `ExecutorCode.codeGetRange` (finding C01:getrange-negative-inverted) -/
theorem cGetRange_sim {cs : CState} (h : CInv cs) (k : Nat) (a b : Int) :
    SimF cs (fun s => ExecutorCode.codeGetRange s k a b) (cGetRange cs k a b) := by
  unfold cGetRange
  gv h k
  simp only [SimF, ExecutorCode.codeGetRange, lookupStr]
  rw [glook]
  cases o with
  | none => simp [gsame, purge_absP, ginv, gnow, gep]
  | some v => cases v <;> simp [gsame, purge_absP, ginv, gnow, gep, wrongType]

theorem cGetDel_sim {cs : CState} (h : CInv cs) (k : Nat) : Sim cs (.getdel k) (cGetDel cs k) := by
  unfold cGetDel
  gv h k
  simp only [Sim, SimF, exec, execGetDel, lookupStr]
  rw [glook, gux, ← gsame]
  cases o with
  | none => exact ⟨by first | rfl | trivial, by simp [purge_absP], ginv, gnow, gep⟩
  | some w =>
    cases w
    case str b =>
      refine ⟨by first | rfl | trivial, ?_, cinv_drop ginv, gnow, gep⟩
      simp [upd_drop ginv, purge_erase (wf_absP ginv.wfd), purge_absP]
    all_goals exact ⟨by first | rfl | trivial, by simp [purge_absP], ginv, gnow, gep⟩

theorem checkedAdd_eq (a b : Int) : checkedAdd a b = if inI64 (a + b) then some (a + b) else none := rfl

theorem cIncrBy_sim {cs : CState} (h : CInv cs) (k : Nat) (d : Int) :
    SimF cs (fun s => execIncrBy s k d) (cIncrBy cs k d) := by
  unfold cIncrBy
  gv h k
  simp only [SimF, execIncrBy, lookupStr]
  rw [glook, gux, ← gsame]
  cases o with
  | none =>
    refine ⟨by first | rfl | trivial, ?_, cinv_data ginv (valueOk_str _), gnow, gep⟩
    simp [upd_data ginv, gnx, purge_insert (wf_absP ginv.wfd), purge_absP, live, setAt,
      exp_none_of_data_none ginv gval]
  | some w =>
    cases w
    case str b =>
      simp only [parseI64Canonical, Option.map_some]
      cases hp : parseCanon b with
      | none => exact ⟨by first | rfl | trivial, by simp [purge_absP], ginv, gnow, gep⟩
      | some cur =>
        simp only [checkedAdd_eq]
        by_cases hi : inI64 (cur + d) = true
        · simp only [hi, if_true]
          refine ⟨by first | rfl | trivial, ?_, cinv_data ginv (valueOk_str _), gnow, gep⟩
          simp [upd_data ginv, gnx, purge_insert (wf_absP ginv.wfd), purge_absP, live_of_notExp gnx, setAt]
        · simp only [hi]
          exact ⟨by first | rfl | trivial, by simp [purge_absP], ginv, gnow, gep⟩
    all_goals exact ⟨by first | rfl | trivial, by simp [purge_absP], ginv, gnow, gep⟩

theorem cDecrBy_sim {cs : CState} (h : CInv cs) (k : Nat) (d : Int) :
    Sim cs (.decrby k d) (cDecrBy cs k d) := by
  unfold cDecrBy
  simp only [Sim, exec, execDecrBy]
  by_cases hd : d = i64Min
  · simp only [hd, if_true]
    exact ⟨by first | rfl | trivial, by simp [purge_absP], h, rfl, rfl⟩
  · simp only [hd, if_false]
    exact cIncrBy_sim h k (-d)

/-! ### loops -/

theorem liveKey_fun {cs : CState} (h : CInv cs) :
    liveKey cs = fun k => (NMap.get (absP cs) k).isSome := funext (liveKey_eq h)

theorem cMGetLoop_spec (ks : List Nat) : ∀ {cs : CState}, CInv cs →
    CInv (cMGetLoop cs ks).1 ∧ absP (cMGetLoop cs ks).1 = absP cs ∧
    (cMGetLoop cs ks).1.now = cs.now ∧ (cMGetLoop cs ks).1.epoch = cs.epoch ∧
    (cMGetLoop cs ks).2 = ks.map (mgetElem (absP cs)) := by
  induction ks with
  | nil => intro cs h; exact ⟨h, rfl, rfl, rfl, rfl⟩
  | cons k ks ih =>
    intro cs h
    simp only [cMGetLoop]
    gv h k
    obtain ⟨i1, i2, i3, i4, i5⟩ := ih ginv
    refine ⟨i1, by rw [i2, gsame], by rw [i3, gnow], by rw [i4, gep], ?_⟩
    rw [i5, gsame]
    simp only [List.map_cons, mgetElem, lookupStr, glook]
    cases o with
    | none => rfl
    | some v => cases v <;> rfl

theorem cMGet_sim {cs : CState} (h : CInv cs) (ks : List Nat) : Sim cs (.mget ks) (cMGet cs ks) := by
  obtain ⟨i1, i2, i3, i4, i5⟩ := cMGetLoop_spec ks h
  unfold cMGet
  simp only [Sim, SimF, exec, execMGet]
  exact ⟨by rw [i5], by rw [i2, purge_absP], i1, i3, i4⟩

theorem cMSetLoop_spec (kvs : List (Nat × BS)) : ∀ {cs : CState}, CInv cs →
    CInv (cMSetLoop cs kvs) ∧ absP (cMSetLoop cs kvs) = msetAll (absP cs) kvs ∧
    (cMSetLoop cs kvs).now = cs.now ∧ (cMSetLoop cs kvs).epoch = cs.epoch := by
  induction kvs with
  | nil => intro cs h; exact ⟨h, rfl, rfl, rfl⟩
  | cons p kvs ih =>
    intro cs h
    obtain ⟨k, v⟩ := p
    simp only [cMSetLoop, msetAll]
    obtain ⟨i1, i2, i3, i4⟩ := ih (cinv_data_clear (k := k) h (valueOk_str v))
    exact ⟨i1, by rw [i2, upd_data_clear h], i3, i4⟩

theorem purge_msetAll (now : Nat) (kvs : List (Nat × BS)) : ∀ {s : State}, NMap.WF s →
    purge s now = s → purge (msetAll s kvs) now = msetAll s kvs := by
  induction kvs with
  | nil => intro s _ h; exact h
  | cons p kvs ih =>
    intro s hw h
    obtain ⟨k, v⟩ := p
    simp only [msetAll]
    apply ih (NMap.wf_insert hw)
    rw [purge_insert hw, h]
    simp [live, setAt]

theorem cMSet_sim {cs : CState} (h : CInv cs) (kvs : List (Nat × BS)) :
    Sim cs (.mset kvs) (cMSet cs kvs) := by
  obtain ⟨i1, i2, i3, i4⟩ := cMSetLoop_spec kvs h
  unfold cMSet
  simp only [Sim, SimF, exec, execMSet]
  exact ⟨by first | rfl | trivial, by rw [i2, purge_msetAll _ _ (wf_absP h.wfd) (purge_absP cs)], i1, i3, i4⟩

theorem cMSetNx_sim {cs : CState} (h : CInv cs) (kvs : List (Nat × BS)) :
    Sim cs (.msetnx kvs) (cMSetNx cs kvs) := by
  obtain ⟨i1, i2, i3, i4⟩ := cMSetLoop_spec kvs h
  unfold cMSetNx
  simp only [Sim, SimF, exec, execMSetNx, liveKey_fun h]
  split
  · exact ⟨by first | rfl | trivial, by rw [purge_absP], h, rfl, rfl⟩
  · exact ⟨by first | rfl | trivial, by rw [i2, purge_msetAll _ _ (wf_absP h.wfd) (purge_absP cs)], i1, i3, i4⟩

/-! ### SETRANGE -/

theorem overlayCode_eq (old : BS) (off : Nat) (v : BS) : overlayCode old off v = overlay old off v := by
  unfold overlayCode overlay
  by_cases hlen : off + v.length > old.length
  · simp only [hlen, if_true]
    by_cases ho : off ≤ old.length
    · have h0 : off - old.length = 0 := by omega
      simp only [h0, List.replicate_zero, List.append_nil]
      rw [List.take_append_of_le_length ho]
      congr 1
      rw [List.drop_of_length_le (by simp; omega), List.drop_of_length_le (by omega)]
    · have ho' : old.length < off := by omega
      congr 1
      · congr 1
        rw [List.take_append, List.take_append]
        simp only [List.take_replicate]
        congr 2
        omega
      · rw [List.drop_of_length_le (by simp; omega), List.drop_of_length_le (by simp; omega)]
  · simp only [hlen, if_false]
    have h0 : off - old.length = 0 := by omega
    simp [h0]

theorem overlay_nil (off : Nat) (v : BS) : overlay [] off v = List.replicate off 0 ++ v := by
  simp [overlay]

theorem cSetRange_sim {cs : CState} (h : CInv cs) (k : Nat) (off : Nat) (v : BS) :
    Sim cs (.setrange k off v) (cSetRange cs k off v) := by
  unfold cSetRange
  gv h k
  simp only [Sim, SimF, exec, execSetRange, lookupStr]
  rw [glook, gux, ← gsame]
  cases o with
  | none =>
    simp only [Option.map_none]
    by_cases hv : v = []
    · simp only [hv, if_true]
      exact ⟨by first | rfl | trivial, by simp [purge_absP], ginv, gnow, gep⟩
    · simp only [hv, if_false]
      by_cases hn : off + v.length ≤ maxStrLen
      · have hn' : ¬ off + v.length > maxStrLen := by omega
        simp only [hn, hn', if_true, if_false, overlay_nil]
        refine ⟨by simp, ?_, cinv_data ginv (valueOk_str _), gnow, gep⟩
        simp [upd_data ginv, gnx, purge_insert (wf_absP ginv.wfd), purge_absP, live, setAt,
          exp_none_of_data_none ginv gval]
      · have hn' : off + v.length > maxStrLen := by omega
        simp only [hn, hn', if_true, if_false]
        exact ⟨by first | rfl | trivial, by simp [purge_absP], ginv, gnow, gep⟩
  | some w =>
    cases w
    case str b =>
      simp only [Option.map_some]
      by_cases hv : v = []
      · simp only [hv, if_true]
        exact ⟨by first | rfl | trivial, by simp [purge_absP], ginv, gnow, gep⟩
      · simp only [hv, if_false]
        by_cases hn : off + v.length ≤ maxStrLen
        · have hn' : ¬ off + v.length > maxStrLen := by omega
          simp only [hn, hn', if_true, if_false, overlayCode_eq]
          refine ⟨by first | rfl | trivial, ?_, cinv_data ginv (valueOk_str _), gnow, gep⟩
          simp [upd_data ginv, gnx, purge_insert (wf_absP ginv.wfd), purge_absP, live_of_notExp gnx, setAt]
        · have hn' : off + v.length > maxStrLen := by omega
          simp only [hn, hn', if_true, if_false]
          exact ⟨by first | rfl | trivial, by simp [purge_absP], ginv, gnow, gep⟩
    all_goals exact ⟨by first | rfl | trivial, by simp [purge_absP], ginv, gnow, gep⟩

end RedisVerif.Executor
