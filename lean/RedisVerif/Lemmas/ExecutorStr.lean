import RedisVerif.Lemmas.Executor

/-! Refinement of the string / counter functions of `Model.Executor` to M7 (`Redis.exec`). -/
namespace RedisVerif.Executor
open RedisVerif RedisVerif.Redis

/-- the result `res` of an executor function simulates the state function `f` on `absP cs`: same
    reply, same visible keyspace afterwards, invariant kept, clock and configuration untouched -/
def SimF (cs : CState) (f : State → State × Reply) (res : CState × Reply) : Prop :=
  res.2 = (f (absP cs)).2 ∧
  absP res.1 = purge (f (absP cs)).1 (unix cs) ∧
  CInv res.1 ∧ res.1.now = cs.now ∧ res.1.epoch = cs.epoch

/-- … simulates M7's `exec` of `c` -/
def Sim (cs : CState) (c : Cmd) (res : CState × Reply) : Prop :=
  SimF cs (fun s => exec s (unix cs) c) res

theorem exp_none_of_data_none {c : CState} (h : CInv c) {k : Nat} (hd : NMap.get c.data k = none) :
    NMap.get c.exp k = none := by
  cases he : NMap.get c.exp k with
  | none => rfl
  | some d =>
    have := h.sub k (by simp [he])
    simp [hd] at this

theorem live_of_notExp {c : CState} {k : Nat} (hx : isExpired c k = false) (v : Value) :
    live (unix c) ⟨v, (NMap.get c.exp k).map (· + c.epoch)⟩ = true := by
  have := live_absEntry c k v
  simpa [absEntry, hx] using this

theorem unix_eq {c cs : CState} (hn : c.now = cs.now) (he : c.epoch = cs.epoch) : unix cs = unix c := by
  simp [unix, hn, he]

set_option hygiene false in
/-- `gv h k`: case analysis of `getValue cs k` under `h : CInv cs`, everything restated about the
    state `c` it leaves behind -/
macro "gv" h:ident k:ident : tactic => `(tactic| (
  have g := getValue_spec $h $k
  rcases hr : getValue _ $k with ⟨c, o⟩
  rw [hr] at g
  obtain ⟨ginv, gsame, gnow, gep, gnx, gval, glook⟩ := g
  dsimp only at ginv gsame gnow gep gnx gval glook
  have gux := unix_eq gnow gep
  rw [← gep] at glook))

theorem cGet_sim {cs : CState} (h : CInv cs) (k : Nat) : Sim cs (.get k) (cGet cs k) := by
  have g := getValue_spec h k
  unfold cGet
  rcases hr : getValue cs k with ⟨c, o⟩
  rw [hr] at g
  obtain ⟨ginv, gsame, gnow, gep, gnx, gval, glook⟩ := g
  dsimp only at ginv gsame gnow gep gnx gval glook
  simp only [Sim, SimF, exec, execGet, lookupStr]
  rw [glook]
  cases o with
  | none => simp [gsame, purge_absP, ginv, gnow, gep]
  | some v => cases v <;> simp [gsame, purge_absP, ginv, gnow, gep, wrongType]

theorem cAppend_sim {cs : CState} (h : CInv cs) (k : Nat) (v : BS) :
    Sim cs (.append k v) (cAppend cs k v) := by
  unfold cAppend
  gv h k
  simp only [Sim, SimF, exec, execAppend, lookupStr]
  rw [glook, gux, ← gsame]
  cases o with
  | none =>
    refine ⟨rfl, ?_, cinv_data ginv (valueOk_str _), gnow, gep⟩
    simp [upd_data ginv, gnx, purge_insert (wf_absP ginv.wfd), purge_absP, live, setAt,
      exp_none_of_data_none ginv gval]
  | some w =>
    cases w
    case str b =>
      refine ⟨rfl, ?_, cinv_data ginv (valueOk_str _), gnow, gep⟩
      simp [upd_data ginv, gnx, purge_insert (wf_absP ginv.wfd), purge_absP, live_of_notExp gnx, setAt]
    all_goals exact ⟨rfl, by simp [purge_absP], ginv, gnow, gep⟩

theorem cStrLen_sim {cs : CState} (h : CInv cs) (k : Nat) : Sim cs (.strlen k) (cStrLen cs k) := by
  unfold cStrLen
  gv h k
  simp only [Sim, SimF, exec, execStrLen, lookupStr]
  rw [glook]
  cases o with
  | none => simp [gsame, purge_absP, ginv, gnow, gep]
  | some v => cases v <;> simp [gsame, purge_absP, ginv, gnow, gep, wrongType]

theorem cSetNx_sim {cs : CState} (h : CInv cs) (k : Nat) (v : BS) :
    Sim cs (.setnx k v) (cSetNx cs k v) := by
  unfold cSetNx
  simp only [Sim, SimF, exec, execSetNx]
  rw [liveKey_eq h]
  cases hg : NMap.get (absP cs) k with
  | some e => simp [purge_absP, h]
  | none =>
    refine ⟨by simp, ?_, by simpa using cinv_data_clear h (valueOk_str _), by simp, by simp⟩
    simp [upd_data_clear h, purge_insert (wf_absP h.wfd), purge_absP, live, setAt]

theorem cSetDirect_sim {cs : CState} (h : CInv cs) (k : Nat) (v : BS) :
    Sim cs (.set k v .always .none false) (cSetDirect cs k v) := by
  unfold cSetDirect
  simp only [Sim, SimF, exec, execSet, setPlan, setCore]
  refine ⟨by simp [Reply.ok], ?_, cinv_data_clear h (valueOk_str _), trivial, trivial⟩
  simp [upd_data_clear h, purge_insert (wf_absP h.wfd), purge_absP, live, setAt, planDl]

/-- GETSET: the code is `ExecutorCode.codeGetSet` (the deadline stays — finding
    C01:getset-keeps-deadline); `Props.C01Data.getset_code_vs_spec` says where that differs from M7 -/
theorem cGetSet_sim {cs : CState} (h : CInv cs) (k : Nat) (v : BS) :
    SimF cs (fun s => ExecutorCode.codeGetSet s k v) (cGetSet cs k v) := by
  unfold cGetSet
  gv h k
  simp only [SimF, ExecutorCode.codeGetSet, lookupStr]
  rw [glook, gux, ← gsame]
  cases o with
  | none =>
    refine ⟨rfl, ?_, cinv_data ginv (valueOk_str _), gnow, gep⟩
    simp [upd_data ginv, gnx, purge_insert (wf_absP ginv.wfd), purge_absP, live, setAt,
      exp_none_of_data_none ginv gval]
  | some w =>
    cases w
    case str b =>
      refine ⟨rfl, ?_, cinv_data ginv (valueOk_str _), gnow, gep⟩
      simp [upd_data ginv, gnx, purge_insert (wf_absP ginv.wfd), purge_absP, live_of_notExp gnx, setAt]
    all_goals exact ⟨rfl, by simp [purge_absP], ginv, gnow, gep⟩

/-- GETRANGE: the code is `ExecutorCode.codeGetRange` (finding C01:getrange-negative-inverted) -/
theorem cGetRange_sim {cs : CState} (h : CInv cs) (k : Nat) (a b : Int) :
    SimF cs (fun s => ExecutorCode.codeGetRange s k a b) (cGetRange cs k a b) := by
  unfold cGetRange
  gv h k
  simp only [SimF, ExecutorCode.codeGetRange, lookupStr]
  rw [glook]
  cases o with
  | none => simp [gsame, purge_absP, ginv, gnow, gep]
  | some v => cases v <;> simp [gsame, purge_absP, ginv, gnow, gep, wrongType]

theorem cGetDel_sim {cs : CState} (h : CInv cs) (k : Nat) : Sim cs (.getdel k) (cGetDel cs k) := by
  unfold cGetDel
  gv h k
  simp only [Sim, SimF, exec, execGetDel, lookupStr]
  rw [glook, gux, ← gsame]
  cases o with
  | none => exact ⟨rfl, by simp [purge_absP], ginv, gnow, gep⟩
  | some w =>
    cases w
    case str b =>
      refine ⟨rfl, ?_, cinv_drop ginv, gnow, gep⟩
      simp [upd_drop ginv, purge_erase (wf_absP ginv.wfd), purge_absP]
    all_goals exact ⟨rfl, by simp [purge_absP], ginv, gnow, gep⟩

theorem checkedAdd_eq (a b : Int) : checkedAdd a b = if inI64 (a + b) then some (a + b) else none := rfl

theorem cIncrBy_sim {cs : CState} (h : CInv cs) (k : Nat) (d : Int) :
    SimF cs (fun s => execIncrBy s k d) (cIncrBy cs k d) := by
  unfold cIncrBy
  gv h k
  simp only [SimF, execIncrBy, lookupStr]
  rw [glook, gux, ← gsame]
  cases o with
  | none =>
    refine ⟨rfl, ?_, cinv_data ginv (valueOk_str _), gnow, gep⟩
    simp [upd_data ginv, gnx, purge_insert (wf_absP ginv.wfd), purge_absP, live, setAt,
      exp_none_of_data_none ginv gval]
  | some w =>
    cases w
    case str b =>
      simp only [parseI64Canonical, Option.map_some]
      cases hp : parseCanon b with
      | none => exact ⟨rfl, by simp [purge_absP], ginv, gnow, gep⟩
      | some cur =>
        simp only [checkedAdd_eq]
        by_cases hi : inI64 (cur + d) = true
        · simp only [hi, if_true]
          refine ⟨trivial, ?_, cinv_data ginv (valueOk_str _), gnow, gep⟩
          simp [upd_data ginv, gnx, purge_insert (wf_absP ginv.wfd), purge_absP, live_of_notExp gnx, setAt]
        · simp only [hi]
          exact ⟨rfl, by simp [purge_absP], ginv, gnow, gep⟩
    all_goals exact ⟨rfl, by simp [purge_absP], ginv, gnow, gep⟩

end RedisVerif.Executor
