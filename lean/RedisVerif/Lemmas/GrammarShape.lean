import RedisVerif.Model.GrammarDesc

/-
  Every hand-written body of the grammars IS the generic body `runGen` over its descriptor
  (`Model/GrammarDesc.lean`), for every argument list.  `GrammarTable.lean` attaches these proofs to
  the table entries (`CustomBody.desc_ok`).
-/
namespace RedisVerif.Grammar
namespace Shape
open Bodies

theorem extract_str (v : Bytes) : aStr.extract v = .ok (.s (lossy v)) := rfl
theorem extract_sds (v : Bytes) : aSds.extract v = .ok (.d v) := rfl
theorem extract_kw (v : Bytes) : aKw.extract v = .ok (.s (upper (lossy v))) := rfl

theorem ping : ∀ args, Bodies.ping args = runGen Desc.ping args := by
  intro args
  rcases args with _ | ⟨a, r⟩
  · rfl
  · simp [Bodies.ping, runGen, Desc.ping, Arity.ok, takeSlots, takeOpt, Tail.run, Arg.extract, aSds, bind, Except.bind, pure, Except.pure]

theorem select : ∀ args, Bodies.select args = runGen Desc.select args := by
  intro args
  rcases args with _ | ⟨a, _ | ⟨b, r⟩⟩
  · rfl
  · simp only [Bodies.select, runGen, Desc.select, Arity.ok, takeSlots, takeOpt, Tail.run, bind, Except.bind, pure, Except.pure,
      List.length_cons, List.length_nil, beq_self_eq_true, List.isEmpty_nil, if_true, List.append_nil]
    cases h : aU64.extract a with
    | error e => rfl
    | ok t => cases t <;> rfl
  · simp [Bodies.select, runGen, Desc.select, Arity.ok]


/-- the definitions every proof unfolds -/
macro "shape_simp" : tactic => `(tactic|
  simp only [runGen, Arity.ok, takeSlots, takeOpt, Tail.run, bind, Except.bind, pure, Except.pure,
    List.length_cons, List.length_nil, beq_self_eq_true, List.isEmpty_nil, if_true, List.append_nil, List.nil_append,
    List.cons_append, Nat.le_add_left, decide_true, extract_str, extract_sds, extract_kw,
    Bool.false_eq_true, if_false])

theorem auth : ∀ args, Bodies.auth args = runGen Desc.auth args := by
  intro args
  rcases args with _ | ⟨a, _ | ⟨b, _ | ⟨c, r⟩⟩⟩
  · rfl
  · rfl
  · rfl
  · simp [Bodies.auth, runGen, Desc.auth, Arity.ok]

theorem extractAll_str (vs : List Bytes) : extractAll aStr vs = .ok (vs.map (fun a => Tok.s (lossy a))) := by
  induction vs with
  | nil => rfl
  | cons v vs ih => simp only [extractAll, extract_str, ih, bind, Except.bind, pure, Except.pure, List.map_cons]

theorem set : ∀ args, Bodies.set args = runGen Desc.set args := by
  intro args
  rcases args with _ | ⟨k, _ | ⟨v, opts⟩⟩
  · rfl
  · rfl
  · simp only [Bodies.set, Desc.set]
    shape_simp
    have hu : Unk.fn (.lit .syntax) = fun _ => some (BErr.lit .syntax) := rfl
    rw [hu]
    cases scanOpts setOpts (fun _ => some (BErr.lit .syntax)) opts with
    | error e => rfl
    | ok s =>
      simp only [finWithChecks, firstFiring, Cond.eval, Desc.setChecks, Desc.expireChecks, Desc.getexChecks, Desc.luaSetChecks,
        List.map_cons, List.map_nil]
      by_cases c1 : (s.has 0 && s.has 1) = true
      · simp [c1]
      · by_cases c2 : (s.has 7 && (s.has 3 || s.has 4 || s.has 5 || s.has 6)) = true
        · simp [c1, c2]
        · simp [c1, c2]

theorem setex (px : Bool) : ∀ args, Bodies.setex px args = runGen (Desc.setex px) args := by
  intro args
  rcases args with _ | ⟨k, _ | ⟨n, _ | ⟨v, _ | ⟨x, r⟩⟩⟩⟩
  · rfl
  · rfl
  · rfl
  · simp only [Bodies.setex, Desc.setex]
    shape_simp
    cases aInt.extract n <;> rfl
  · simp [Bodies.setex, runGen, Desc.setex, Arity.ok]

theorem expire (ctor : Bytes) : ∀ args, Bodies.expire ctor args = runGen (Desc.expire ctor) args := by
  intro args
  rcases args with _ | ⟨k, _ | ⟨n, opts⟩⟩
  · rfl
  · rfl
  · simp only [Bodies.expire, Desc.expire]
    shape_simp
    have hu : Unk.fn (.fmt .unsupportedOption) = fun w => some (BErr.fmt .unsupportedOption w) := rfl
    rw [hu]
    cases aInt.extract n with
    | error e => rfl
    | ok t =>
      dsimp only
      cases scanOpts expireOpts (fun w => some (BErr.fmt .unsupportedOption w)) opts with
      | error e => rfl
      | ok s =>
        simp only [finWithChecks, firstFiring, Cond.eval, Desc.setChecks, Desc.expireChecks, Desc.getexChecks, Desc.luaSetChecks,
          List.map_cons, List.map_nil]
        by_cases c1 : (s.has 0 && (s.has 1 || s.has 2 || s.has 3)) = true
        · simp [c1]
        · by_cases c2 : (s.has 2 && s.has 3) = true
          · simp [c1, c2]
          · simp [c1, c2]

theorem getex : ∀ args, Bodies.getex args = runGen Desc.getex args := by
  intro args
  rcases args with _ | ⟨k, opts⟩
  · rfl
  · simp only [Bodies.getex, Desc.getex]
    shape_simp
    have hu : Unk.fn (.lit .syntax) = fun _ => some (BErr.lit .syntax) := rfl
    rw [hu]
    cases scanOpts getexOpts (fun _ => some (BErr.lit .syntax)) opts with
    | error e => rfl
    | ok s =>
      simp only [finWithChecks, firstFiring, Cond.eval, Desc.setChecks, Desc.expireChecks, Desc.getexChecks, Desc.luaSetChecks,
        List.map_cons, List.map_nil]
      by_cases c1 : List.count true [s.has 0, s.has 1, s.has 2, s.has 3, s.has 4] > 1
      · simp [c1]
      · simp [c1]

theorem lmove : ∀ args, Bodies.lmove args = runGen Desc.lmove args := by
  intro args
  rcases args with _ | ⟨a, _ | ⟨b, _ | ⟨c, _ | ⟨d, _ | ⟨e, r⟩⟩⟩⟩⟩
  · rfl
  · rfl
  · rfl
  · rfl
  · rfl
  · simp [Bodies.lmove, runGen, Desc.lmove, Arity.ok]

theorem spop : ∀ args, Bodies.spop args = runGen Desc.spop args := by
  intro args
  rcases args with _ | ⟨a, _ | ⟨b, _ | ⟨c, r⟩⟩⟩
  · rfl
  · rfl
  · simp only [Bodies.spop, Desc.spop, aUsz]
    shape_simp
    cases (Arg.mk .usz none).extract b <;> rfl
  · simp [Bodies.spop, runGen, Desc.spop, Arity.ok]

theorem zadd (score : Arg) : ∀ args, Bodies.zadd score args = runGen (Desc.zadd score) args := by
  intro args
  rcases args with _ | ⟨k, rest⟩
  · rfl
  · simp only [Bodies.zadd, Desc.zadd]
    shape_simp
    split
    · rfl
    · cases extractPairs score aSds (takeFlags zaddFlags rest).2 <;> rfl

theorem zrange (ctor : Bytes) : ∀ args, Bodies.zrange ctor args = runGen (Desc.zrange ctor) args := by
  intro args
  rcases args with _ | ⟨k, _ | ⟨a, _ | ⟨b, _ | ⟨w, _ | ⟨x, r⟩⟩⟩⟩⟩
  · rfl
  · rfl
  · rfl
  · simp only [Bodies.zrange, Desc.zrange, extractFixed]
    shape_simp
    cases aInt.extract a with
    | error e => rfl
    | ok ta => cases aInt.extract b <;> rfl
  · simp only [Bodies.zrange, Desc.zrange, extractFixed, kw]
    shape_simp
    cases aInt.extract a with
    | error e => rfl
    | ok ta => cases aInt.extract b <;> rfl
  · simp [Bodies.zrange, runGen, Desc.zrange, Arity.ok]

theorem zrangebyscore (off cnt : Arg) (m : Lit) (u : Fmt) :
    ∀ args, Bodies.zrangebyscore off cnt m u args = runGen (Desc.zrangebyscore off cnt m u) args := by
  intro args
  rcases args with _ | ⟨k, _ | ⟨mn, _ | ⟨mx, opts⟩⟩⟩
  · rfl
  · rfl
  · rfl
  · simp only [Bodies.zrangebyscore, Desc.zrangebyscore]
    shape_simp
    have hu : Unk.fn (.fmt u) = fun w => some (BErr.fmt u w) := rfl
    rw [hu]
    cases scanOpts (zrbsOpts off cnt m) (fun w => some (BErr.fmt u w)) opts <;> rfl

theorem scan (ctor : Bytes) (withKey : Bool) (u : Fmt) :
    ∀ args, Bodies.scan ctor withKey u args = runGen (Desc.scan ctor withKey u) args := by
  intro args
  have hu : Unk.fn (.fmt u) = fun w => some (BErr.fmt u w) := rfl
  cases withKey with
  | false =>
    rcases args with _ | ⟨cur, opts⟩
    · rfl
    · simp only [Bodies.scan, Desc.scan]
      shape_simp
      rw [hu]
      cases aU64.extract cur with
      | error e => rfl
      | ok c =>
        dsimp only
        cases scanOpts scanOptTbl (fun w => some (BErr.fmt u w)) opts <;> rfl
  | true =>
    rcases args with _ | ⟨k, _ | ⟨cur, opts⟩⟩
    · rfl
    · rfl
    · simp only [Bodies.scan, Desc.scan]
      shape_simp
      rw [hu]
      cases aU64.extract cur with
      | error e => rfl
      | ok c =>
        dsimp only
        cases scanOpts scanOptTbl (fun w => some (BErr.fmt u w)) opts <;> rfl

theorem sort : ∀ args, Bodies.sort args = runGen Desc.sort args := by
  intro args
  rcases args with _ | ⟨k, opts⟩
  · rfl
  · simp only [Bodies.sort, Desc.sort]
    shape_simp
    have hu : Unk.fn (.lit .syntax) = fun _ => some (BErr.lit .syntax) := rfl
    rw [hu]
    cases scanOpts sortOpts (fun _ => some (BErr.lit .syntax)) opts <;> rfl

theorem eval (ctor : Bytes) (keysErr : Lit) : ∀ args, Bodies.eval ctor keysErr args = runGen (Desc.eval ctor keysErr) args := by
  intro args
  rcases args with _ | ⟨sc, _ | ⟨nk, rest⟩⟩
  · rfl
  · rfl
  · simp only [Bodies.eval, Desc.eval]
    shape_simp
    cases aInt.extract nk with
    | error e => rfl
    | ok t => cases t <;> rfl

theorem command : ∀ args, Bodies.command args = runGen Desc.command args := by
  intro args
  rcases args with _ | ⟨a, r⟩
  · rfl
  · simp only [Bodies.command, Desc.command, kw]
    shape_simp
    rfl

theorem setrange : ∀ args, Bodies.setrange args = runGen Desc.setrange args := by
  intro args
  rcases args with _ | ⟨k, _ | ⟨n, _ | ⟨v, _ | ⟨x, r⟩⟩⟩⟩
  · rfl
  · rfl
  · rfl
  · simp only [Bodies.setrange, Desc.setrange]
    shape_simp
    cases aInt.extract n with
    | error e => rfl
    | ok t => cases t <;> rfl
  · simp [Bodies.setrange, runGen, Desc.setrange, Arity.ok]

theorem setbit : ∀ args, Bodies.setbit args = runGen Desc.setbit args := by
  intro args
  rcases args with _ | ⟨k, _ | ⟨n, _ | ⟨v, _ | ⟨x, r⟩⟩⟩⟩
  · rfl
  · rfl
  · rfl
  · simp only [Bodies.setbit, Desc.setbit, Desc.aBitOff, Desc.aBitVal]
    shape_simp
    cases (Arg.mk .u64 (some .bitOffset)).extract n with
    | error e => rfl
    | ok o =>
      cases (Arg.mk .int (some .bitValue)).extract v with
      | error e => rfl
      | ok b => cases b <;> rfl
  · simp [Bodies.setbit, runGen, Desc.setbit, Arity.ok]

theorem getbit : ∀ args, Bodies.getbit args = runGen Desc.getbit args := by
  intro args
  rcases args with _ | ⟨k, _ | ⟨n, _ | ⟨x, r⟩⟩⟩
  · rfl
  · rfl
  · simp only [Bodies.getbit, Desc.getbit, Desc.aBitOff]
    shape_simp
    cases (Arg.mk .u64 (some .bitOffset)).extract n <;> rfl
  · simp [Bodies.getbit, runGen, Desc.getbit, Arity.ok]

theorem incrbyfloat : ∀ args, Bodies.incrbyfloat args = runGen Desc.incrbyfloat args := by
  intro args
  rcases args with _ | ⟨k, _ | ⟨n, _ | ⟨x, r⟩⟩⟩
  · rfl
  · rfl
  · simp only [Bodies.incrbyfloat, Desc.incrbyfloat]
    shape_simp
    cases aFlt.extract n with
    | error e => rfl
    | ok t => cases t <;> rfl
  · simp [Bodies.incrbyfloat, runGen, Desc.incrbyfloat, Arity.ok]

theorem optStr (ctor : Bytes) : ∀ args, Bodies.optStr ctor args = runGen (Desc.optStr ctor) args := by
  intro args
  rcases args with _ | ⟨a, r⟩
  · rfl
  · simp only [Bodies.optStr, Desc.optStr]
    shape_simp

theorem aclGenpass : ∀ args, Bodies.aclGenpass args = runGen Desc.aclGenpass args := by
  intro args
  rcases args with _ | ⟨a, r⟩
  · rfl
  · have hx : (Arg.mk .u32 (some .invalidBits)).extract a =
        (match parseUnsigned u32Max (lossy a) with
          | .ok n => .ok (.n n)
          | .error _ => .error (.lit .invalidBits)) := rfl
    simp only [Bodies.aclGenpass, Desc.aclGenpass, Desc.aBits]
    shape_simp
    rw [hx]
    cases parseUnsigned u32Max (lossy a) <;> rfl

theorem aclDryrun : ∀ args, Bodies.aclDryrun args = runGen Desc.aclDryrun args := by
  intro args
  rcases args with _ | ⟨u, _ | ⟨c, rest⟩⟩
  · rfl
  · rfl
  · simp only [Bodies.aclDryrun, Desc.aclDryrun, kw]
    shape_simp
    rw [extractAll_str rest]

theorem aclLog : ∀ args, Bodies.aclLog args = runGen Desc.aclLog args := by
  intro args
  rcases args with _ | ⟨a, _ | ⟨b, r⟩⟩
  · rfl
  · simp only [Bodies.aclLog, Desc.aclLog, kw]
    shape_simp
    rfl
  · simp [Bodies.aclLog, runGen, Desc.aclLog, Arity.ok]

theorem stub (text : Bytes) : ∀ args, (fun (_ : List Bytes) => (Except.ok ⟨s2b "Unknown", [.s text]⟩ : BRes)) args =
    runGen (Desc.stub text) args := by
  intro args
  simp only [Desc.stub]
  shape_simp

theorem luaSet : ∀ args, Bodies.luaSet args = runGen Desc.luaSet args := by
  intro args
  rcases args with _ | ⟨k, _ | ⟨v, opts⟩⟩
  · rfl
  · rfl
  · simp only [Bodies.luaSet, Desc.luaSet]
    shape_simp
    have hu : Unk.fn (.fmt .luaUnknownSet) = fun w => some (BErr.fmt .luaUnknownSet w) := rfl
    rw [hu]
    cases scanOpts luaSetOpts (fun w => some (BErr.fmt .luaUnknownSet w)) opts with
    | error e => rfl
    | ok s =>
      simp only [finWithChecks, firstFiring, Cond.eval, Desc.setChecks, Desc.expireChecks, Desc.getexChecks, Desc.luaSetChecks,
        List.map_cons, List.map_nil]
      by_cases c1 : (s.has 0 && s.has 1) = true
      · simp [c1]
      · simp [c1]

theorem luaExpire : ∀ args, Bodies.luaExpire args = runGen Desc.luaExpire args := by
  intro args
  rcases args with _ | ⟨k, _ | ⟨n, _ | ⟨x, r⟩⟩⟩
  · rfl
  · rfl
  · simp only [Bodies.luaExpire, Desc.luaExpire]
    shape_simp
    cases (aIntE .luaExpireInt).extract n <;> rfl
  · simp [Bodies.luaExpire, runGen, Desc.luaExpire, Arity.ok]

theorem luaZrange : ∀ args, Bodies.luaZrange args = runGen Desc.luaZrange args := by
  intro args
  rcases args with _ | ⟨k, _ | ⟨a, _ | ⟨b, _ | ⟨x, r⟩⟩⟩⟩
  · rfl
  · rfl
  · rfl
  · simp only [Bodies.luaZrange, Desc.luaZrange, extractFixed]
    shape_simp
    cases (aIntE .luaZrangeStart).extract a with
    | error e => rfl
    | ok ta => cases (aIntE .luaZrangeStop).extract b <;> rfl
  · simp [Bodies.luaZrange, runGen, Desc.luaZrange, Arity.ok]

end Shape

/-! ## what the finishing functions can answer -/
namespace Fin

/-- close a `FinOk` goal: split on the result, then on the token shapes and the tests of the finishing function -/
macro "fin_ok" : tactic => `(tactic|
  (intro ts tv
   simp only []
   split <;> rename_i x heq <;> (repeat' (split at heq)) <;>
    first
      | (simp only [Except.ok.injEq] at heq; subst heq; simp [Bodies.mkSet]; done)
      | (simp only [Except.error.injEq] at heq; subst heq; simp; done)
      | (simp at heq; done)))

theorem firstFiring_mem {s : Seen} {checks : List (Cond × Lit)} {l : Lit} (h : firstFiring s checks = some l) :
    l ∈ checks.map (·.2) := by
  induction checks with
  | nil => simp [firstFiring] at h
  | cons c cs ih =>
    obtain ⟨cnd, lit⟩ := c
    simp only [firstFiring] at h
    split at h
    · simp only [Option.some.injEq] at h; simp [h]
    · simp [ih h]

theorem finWithChecks_ok {checks : List (Cond × Lit)} {build : Seen → Cmd} {s : Seen} {c : Cmd}
    (h : finWithChecks checks build s = .ok c) : c = build s ∧ firstFiring s checks = none := by
  unfold finWithChecks at h
  cases hf : firstFiring s checks with
  | some l => rw [hf] at h; simp at h
  | none => rw [hf] at h; simp only [Except.ok.injEq] at h; exact ⟨h.symm, rfl⟩

theorem finWithChecks_err {checks : List (Cond × Lit)} {build : Seen → Cmd} {s : Seen} {e : BErr}
    (h : finWithChecks checks build s = .error e) : ∃ l, firstFiring s checks = some l ∧ e = .lit l := by
  unfold finWithChecks at h
  cases hf : firstFiring s checks with
  | some l => rw [hf] at h; simp only [Except.error.injEq] at h; exact ⟨l, rfl, h.symm⟩
  | none => rw [hf] at h; simp at h

/-- `FinOk` for a finishing function given by conflict rules: one token shape, everything else unreachable -/
theorem finOk_of_checks (d : GenDesc) (checks : List (Cond × Lit)) (build : List Tok → Seen → Cmd)
    (hfin : ∀ ts tv, d.fin ts tv = .error .unreachable ∨ ∃ s, d.fin ts tv = finWithChecks checks (build ts) s)
    (hc : ∀ ts s, (build ts s).ctor ∈ d.ctors) (hl : ∀ l ∈ checks.map (·.2), l ∈ d.finLits) : FinOk d := by
  intro ts tv
  rcases hfin ts tv with h | ⟨s, h⟩
  · rw [h]; exact Or.inl rfl
  · rw [h]
    cases hr : finWithChecks checks (build ts) s with
    | ok c => rw [(finWithChecks_ok hr).1]; exact hc ts s
    | error e =>
      obtain ⟨l, hf, he⟩ := finWithChecks_err hr
      exact Or.inr ⟨l, hl l (firstFiring_mem hf), he⟩

theorem ping : FinOk Desc.ping := by unfold FinOk Desc.ping; fin_ok
theorem select : FinOk Desc.select := by unfold FinOk Desc.select; fin_ok
theorem auth : FinOk Desc.auth := by unfold FinOk Desc.auth; fin_ok
theorem set : FinOk Desc.set := by
  refine finOk_of_checks _ Desc.setChecks
    (fun ts s => match ts with
      | [k, v] => Bodies.mkSet k v (s.opt1 3) (s.opt1 4) (s.opt1 5) (s.opt1 6) (s.has 0) (s.has 1) (s.has 2) (s.has 7)
      | _ => ⟨s2b "Set", []⟩) ?_ ?_ (by decide)
  · intro ts tv
    simp only [Desc.set]
    split
    · exact Or.inr ⟨_, rfl⟩
    · exact Or.inl rfl
  · intro ts s; split <;> simp [Desc.set, Bodies.mkSet]
theorem setex (px : Bool) : FinOk (Desc.setex px) := by unfold FinOk Desc.setex; fin_ok
theorem expire (c : Bytes) : FinOk (Desc.expire c) := by
  refine finOk_of_checks _ Desc.expireChecks
    (fun ts s => match ts with
      | [k, t] => ⟨c, [k, t, .b (s.has 0), .b (s.has 1), .b (s.has 2), .b (s.has 3)]⟩
      | _ => ⟨c, []⟩) ?_ ?_ (by intro l hl; simp only [Desc.expire]; revert l; decide)
  · intro ts tv
    simp only [Desc.expire]
    split
    · exact Or.inr ⟨_, rfl⟩
    · exact Or.inl rfl
  · intro ts s; split <;> simp [Desc.expire]
theorem getex : FinOk Desc.getex := by
  refine finOk_of_checks _ Desc.getexChecks
    (fun ts s => match ts with
      | [k] => ⟨s2b "GetEx", [k, s.opt1 0, s.opt1 1, s.opt1 2, s.opt1 3, .b (s.has 4)]⟩
      | _ => ⟨s2b "GetEx", []⟩) ?_ ?_ (by decide)
  · intro ts tv
    simp only [Desc.getex]
    split
    · exact Or.inr ⟨_, rfl⟩
    · exact Or.inl rfl
  · intro ts s; split <;> simp [Desc.getex]
theorem lmove : FinOk Desc.lmove := by unfold FinOk Desc.lmove; fin_ok
theorem spop : FinOk Desc.spop := by unfold FinOk Desc.spop; fin_ok
theorem zadd (a : Arg) : FinOk (Desc.zadd a) := by unfold FinOk Desc.zadd; fin_ok
theorem zrange (c : Bytes) : FinOk (Desc.zrange c) := by unfold FinOk Desc.zrange; fin_ok
theorem zrangebyscore (o c : Arg) (m : Lit) (u : Fmt) : FinOk (Desc.zrangebyscore o c m u) := by
  unfold FinOk Desc.zrangebyscore; fin_ok
theorem scan (c : Bytes) (k : Bool) (u : Fmt) : FinOk (Desc.scan c k u) := by unfold FinOk Desc.scan; fin_ok
theorem sort : FinOk Desc.sort := by unfold FinOk Desc.sort; fin_ok
theorem eval (c : Bytes) (l : Lit) : FinOk (Desc.eval c l) := by unfold FinOk Desc.eval; fin_ok
theorem command : FinOk Desc.command := by unfold FinOk Desc.command; fin_ok
theorem setrange : FinOk Desc.setrange := by unfold FinOk Desc.setrange; fin_ok
theorem setbit : FinOk Desc.setbit := by unfold FinOk Desc.setbit; fin_ok
theorem getbit : FinOk Desc.getbit := by unfold FinOk Desc.getbit; fin_ok
theorem incrbyfloat : FinOk Desc.incrbyfloat := by unfold FinOk Desc.incrbyfloat; fin_ok
theorem optStr (c : Bytes) : FinOk (Desc.optStr c) := by unfold FinOk Desc.optStr; fin_ok
theorem aclGenpass : FinOk Desc.aclGenpass := by unfold FinOk Desc.aclGenpass; fin_ok
theorem aclDryrun : FinOk Desc.aclDryrun := by unfold FinOk Desc.aclDryrun; fin_ok
theorem aclLog : FinOk Desc.aclLog := by unfold FinOk Desc.aclLog; fin_ok
theorem stub (t : Bytes) : FinOk (Desc.stub t) := by unfold FinOk Desc.stub; intro ts tv; simp
theorem luaSet : FinOk Desc.luaSet := by
  refine finOk_of_checks _ Desc.luaSetChecks
    (fun ts s => match ts with
      | [k, v] => Bodies.mkSet k v (s.opt1 3) (s.opt1 4) .none .none (s.has 0) (s.has 1) (s.has 2) false
      | _ => ⟨s2b "Set", []⟩) ?_ ?_ (by decide)
  · intro ts tv
    simp only [Desc.luaSet]
    split
    · exact Or.inr ⟨_, rfl⟩
    · exact Or.inl rfl
  · intro ts s; split <;> simp [Desc.luaSet, Bodies.mkSet]
theorem luaExpire : FinOk Desc.luaExpire := by unfold FinOk Desc.luaExpire; fin_ok
theorem luaZrange : FinOk Desc.luaZrange := by unfold FinOk Desc.luaZrange; fin_ok

end Fin


/-! ## the declared conflict rules are what the finishing functions test -/
namespace Chk

/-- a finishing function given by conflict rules satisfies `ChecksOk` by construction -/
theorem of_checks (d : GenDesc) (build : List Tok → Seen → Cmd)
    (hfin : ∀ ts s, d.fin ts (.seen s) = .error .unreachable ∨ d.fin ts (.seen s) = finWithChecks d.checks (build ts) s) :
    ∀ ts s, match d.fin ts (.seen s) with
      | .ok _ => firstFiring s d.checks = none
      | .error (.lit l) => firstFiring s d.checks = some l
      | .error .unreachable => True
      | .error _ => False := by
  intro ts s
  rcases hfin ts s with h | h
  · rw [h]; trivial
  · rw [h]
    cases hr : finWithChecks d.checks (build ts) s with
    | ok c => exact (Fin.finWithChecks_ok hr).2
    | error e =>
      obtain ⟨l, hf, he⟩ := Fin.finWithChecks_err hr
      subst he
      exact hf

theorem set : ChecksOk Desc.set := by
  show ∀ ts s, _
  refine of_checks Desc.set (fun ts s => match ts with
      | [k, v] => Bodies.mkSet k v (s.opt1 3) (s.opt1 4) (s.opt1 5) (s.opt1 6) (s.has 0) (s.has 1) (s.has 2) (s.has 7)
      | _ => ⟨[], []⟩) ?_
  intro ts s
  simp only [Desc.set]
  split
  · rename_i h; simp only [TailV.seen.injEq] at h; subst h; exact Or.inr rfl
  · exact Or.inl rfl

theorem expire (c : Bytes) : ChecksOk (Desc.expire c) := by
  show ∀ ts s, _
  refine of_checks (Desc.expire c) (fun ts s => match ts with
      | [k, t] => ⟨c, [k, t, .b (s.has 0), .b (s.has 1), .b (s.has 2), .b (s.has 3)]⟩
      | _ => ⟨[], []⟩) ?_
  intro ts s
  simp only [Desc.expire]
  split
  · rename_i h; simp only [TailV.seen.injEq] at h; subst h; exact Or.inr rfl
  · exact Or.inl rfl

theorem getex : ChecksOk Desc.getex := by
  show ∀ ts s, _
  refine of_checks Desc.getex (fun ts s => match ts with
      | [k] => ⟨s2b "GetEx", [k, s.opt1 0, s.opt1 1, s.opt1 2, s.opt1 3, .b (s.has 4)]⟩
      | _ => ⟨[], []⟩) ?_
  intro ts s
  simp only [Desc.getex]
  split
  · rename_i h; simp only [TailV.seen.injEq] at h; subst h; exact Or.inr rfl
  · exact Or.inl rfl

theorem luaSet : ChecksOk Desc.luaSet := by
  show ∀ ts s, _
  refine of_checks Desc.luaSet (fun ts s => match ts with
      | [k, v] => Bodies.mkSet k v (s.opt1 3) (s.opt1 4) .none .none (s.has 0) (s.has 1) (s.has 2) false
      | _ => ⟨[], []⟩) ?_
  intro ts s
  simp only [Desc.luaSet]
  split
  · rename_i h; simp only [TailV.seen.injEq] at h; subst h; exact Or.inr rfl
  · exact Or.inl rfl

/-- scan bodies without conflict rules never answer an error literal -/
macro "chk_none" : tactic => `(tactic|
  (show ∀ ts s, _
   intro ts s
   simp only [firstFiring]
   split <;> rename_i x heq <;> (repeat' (split at heq)) <;> (try simp_all)))

theorem zrangebyscore (o c : Arg) (m : Lit) (u : Fmt) : ChecksOk (Desc.zrangebyscore o c m u) := by
  unfold Desc.zrangebyscore; chk_none
theorem scan (c : Bytes) (k : Bool) (u : Fmt) : ChecksOk (Desc.scan c k u) := by
  unfold Desc.scan
  show ∀ ts s, _
  intro ts s
  simp [firstFiring]
theorem sort : ChecksOk Desc.sort := by unfold Desc.sort; chk_none

theorem ping : ChecksOk Desc.ping := rfl
theorem select : ChecksOk Desc.select := rfl
theorem auth : ChecksOk Desc.auth := rfl
theorem setex (px : Bool) : ChecksOk (Desc.setex px) := rfl
theorem lmove : ChecksOk Desc.lmove := rfl
theorem spop : ChecksOk Desc.spop := rfl
theorem zadd (a : Arg) : ChecksOk (Desc.zadd a) := rfl
theorem zrange (c : Bytes) : ChecksOk (Desc.zrange c) := rfl
theorem eval (c : Bytes) (l : Lit) : ChecksOk (Desc.eval c l) := rfl
theorem command : ChecksOk Desc.command := rfl
theorem setrange : ChecksOk Desc.setrange := rfl
theorem setbit : ChecksOk Desc.setbit := rfl
theorem getbit : ChecksOk Desc.getbit := rfl
theorem incrbyfloat : ChecksOk Desc.incrbyfloat := rfl
theorem optStr (c : Bytes) : ChecksOk (Desc.optStr c) := rfl
theorem aclGenpass : ChecksOk Desc.aclGenpass := rfl
theorem aclDryrun : ChecksOk Desc.aclDryrun := rfl
theorem aclLog : ChecksOk Desc.aclLog := rfl
theorem stub (t : Bytes) : ChecksOk (Desc.stub t) := rfl
theorem luaExpire : ChecksOk Desc.luaExpire := rfl
theorem luaZrange : ChecksOk Desc.luaZrange := rfl

end Chk

end RedisVerif.Grammar
