import RedisVerif.Lemmas.Glue

/-! C06 layer 2: the node invariant `GInv` ("the node serves what its replication state says")
    and its preservation by every supported client command and delivery. -/
namespace RedisVerif.Glue
open Redis

/-! ### the node invariant -/

/-- the invariant of a node: canonical executor keyspace, canonical replication state, and the
    node serves (value and TTL) what its replication state says, for every key -/
structure GInv (n : Node) : Prop where
  inv : Inv n.exec
  wf : n.rs.NodeWF
  srv : ∀ k, served n k = materialise (NMap.get n.rs.keys k)

theorem toV_zero_inj {a b : Option Entry} (h : a.map (toV 0) = b.map (toV 0)) : a = b := by
  cases a with
  | none => cases b with
    | none => rfl
    | some y => simp at h
  | some x => cases b with
    | none => simp at h
    | some y =>
      simp only [Option.map_some, Option.some.injEq, toV_zero, VEntry.mk.injEq] at h
      obtain ⟨xv, xd⟩ := x
      obtain ⟨yv, yd⟩ := y
      simp only at h
      rw [h.1, h.2]

theorem served_eq (n : Node) (k : Nat) :
    served n k = (NMap.get (purge n.exec 0) k).map (toV 0) := get_view n.exec 0 k

theorem ok_of_ginv {n : Node} (h : GInv n) : Ok (purge n.exec 0) n.rs :=
  ⟨inv_purge 0 h.inv, nodead_purge _, h.wf, fun k => toV_zero_inj (by
    rw [← served_eq, h.srv k, materialise_eq])⟩

theorem ginv_of_ok {e s' : State} {rs' : Shard} (hv : view e 0 = view s' 0) (hI : Inv e)
    (h : Ok s' rs') : GInv { exec := e, rs := rs' } :=
  ⟨hI, h.wf, fun k => by
    simp only [served]
    rw [hv, get_view, purge_of_nodead h.nodead, h.srv k, materialise_eq]⟩

theorem ginv_of_ok' {s' : State} {rs' : Shard} (h : Ok s' rs') : GInv { exec := s', rs := rs' } :=
  ginv_of_ok rfl h.inv h

theorem nodewf_init (rid : Nat) (causal : Bool) : (Shard.init rid causal).NodeWF :=
  ⟨NMap.wf_nil, fun _ hp => by cases hp⟩

theorem ginv_init (rid : Nat) (causal : Bool) : GInv (Node.init rid causal) :=
  ginv_of_ok' (s' := Redis.init) (rs' := Shard.init rid causal)
    { inv := inv_nil
      nodead := fun _ hp => by cases hp
      wf := nodewf_init rid causal
      srv := fun k => by simp [Redis.init, Shard.init, NMap.get, matE] }

/-! ### client steps -/

theorem client_eq (n : Node) (c : Cmd) :
    (n.client c).1 =
      { exec := (exec (purge n.exec 0) 0 c).1, rs := clientRs n.rs (purge n.exec 0) c } := by
  simp only [Node.client, execStep, step, clientRs]
  by_cases ha : applied c (exec (purge n.exec 0) 0 c).2 = true
  · simp only [ha, if_true]
  · simp only [ha]; rfl

theorem ginv_other {n : Node} (h : GInv n) (c : Cmd)
    (hrec : ∀ rs post, (record rs post c).1 = rs)
    (hv : view (execStep n.exec c).1 0 = view n.exec 0) : GInv (n.client c).1 := by
  rw [client_eq]
  have hrs : clientRs n.rs (purge n.exec 0) c = n.rs := by
    simp only [clientRs]; split
    · exact hrec _ _
    · rfl
  rw [hrs]
  refine ⟨inv_exec (inv_purge 0 h.inv) 0 c, h.wf, fun k => ?_⟩
  have : view (exec (purge n.exec 0) 0 c).1 0 = view n.exec 0 := hv
  simp only [served]
  rw [this]
  exact h.srv k

theorem ginv_client {n : Node} (h : GInv n) (c : Cmd) (hs : unsupported n (.client c) = none) :
    GInv (n.client c).1 := by
  have hok := ok_of_ginv h
  cases c with
  | set k v cond e g => rw [client_eq]; exact ginv_of_ok' (ok_set hok k v cond e g)
  | del ks => rw [client_eq]; exact ginv_of_ok' (ok_del hok ks)
  | getset k v => rw [client_eq]; exact ginv_of_ok' (ok_getset hok k v)
  | hset k fvs => rw [client_eq]; exact ginv_of_ok' (ok_hset hok k fvs)
  | hdel k fs => rw [client_eq]; exact ginv_of_ok' (ok_hdel hok k fs)
  | hincrby k f d => rw [client_eq]; exact ginv_of_ok' (ok_hincrby hok k f d)
  | incr k => rw [client_eq]; exact ginv_of_ok' (ok_incr hok k)
  | decr k => rw [client_eq]; exact ginv_of_ok' (ok_decr hok k)
  | incrby k d => rw [client_eq]; exact ginv_of_ok' (ok_incrby hok k d)
  | decrby k d => rw [client_eq]; exact ginv_of_ok' (ok_decrby hok k d)
  | append k v => rw [client_eq]; exact ginv_of_ok' (ok_append hok k v)
  | _ =>
    apply ginv_other h _ (fun _ _ => rfl)
    simp only [unsupported, recorded, Bool.false_eq_true, if_false] at hs
    split at hs
    · assumption
    · cases hs

/-! ### deliveries -/

theorem execStep_purge (s : State) (c : Cmd) : execStep (purge s 0) c = execStep s c := by
  simp only [execStep, step, purge_idem]

theorem get_purge_cases {s : State} (hw : NMap.WF s) (k : Nat) :
    NMap.get (purge s 0) k = NMap.get s k ∨ NMap.get (purge s 0) k = none := by
  rw [get_purge hw]
  cases NMap.get s k with
  | none => left; rfl
  | some e =>
    by_cases hl : live 0 e = true
    · left; simp [Option.filter, hl]
    · right; simp [Option.filter, hl]

theorem nonHashAt_purge {s : State} (hw : NMap.WF s) (k : Nat) :
    nonHashAt (purge s 0) k = true → nonHashAt s k = true := by
  intro h
  rcases get_purge_cases hw k with hg | hg
  · simpa only [nonHashAt, hg] using h
  · simp [nonHashAt, hg] at h

theorem get_purge_none_of_nonHash {s : State} (hw : NMap.WF s) {k : Nat}
    (h1 : nonHashAt s k = true) (h2 : nonHashAt (purge s 0) k = false) :
    NMap.get (purge s 0) k = none := by
  rcases get_purge_cases hw k with hg | hg
  · simp only [nonHashAt, hg] at h2
    simp only [nonHashAt] at h1
    rw [h1] at h2; cases h2
  · exact hg

theorem rematHash2_purge (s : State) (k : Nat) (h : NMap Lww) :
    (rematHash2 s k h = s ∧ rematHash2 (purge s 0) k h = purge s 0) ∨
    rematHash2 s k h = rematHash2 (purge s 0) k h := by
  simp only [rematHash2]
  cases (liveFields h).isEmpty with
  | true =>
    simp only [if_true]
    cases (tombFields h).isEmpty with
    | true => left; exact ⟨rfl, rfl⟩
    | false => right; simp only [Bool.false_eq_true, if_false, execStep_purge]
  | false => right; simp only [Bool.false_eq_true, if_false, execStep_purge]

/-- re-materialisation starts by purging, unless it does nothing at all -/
theorem remat_purge {s : State} (hI : Inv s) (k : Nat) (m : RV) :
    (rematerialise s k m = s ∧ rematerialise (purge s 0) k m = purge s 0) ∨
    rematerialise s k m = rematerialise (purge s 0) k m := by
  have hl : (rematLww s k m = s ∧ rematLww (purge s 0) k m = purge s 0) ∨
      rematLww s k m = rematLww (purge s 0) k m := by
    simp only [rematLww]
    cases m.get with
    | some v =>
      right
      simp only [rematStr]
      cases m.expiry <;> simp only [execStep_purge]
    | none =>
      simp only
      cases m.isTombstone with
      | true => right; simp only [if_true, execStep_purge]
      | false => left; exact ⟨rfl, rfl⟩
  cases hc : m.crdt with
  | hash h =>
    simp only [rematerialise, hc, rematHash_eq]
    cases h1 : nonHashAt s k with
    | false =>
      have h2 : nonHashAt (purge s 0) k = false := by
        cases hx : nonHashAt (purge s 0) k with
        | false => rfl
        | true => rw [nonHashAt_purge hI.1 k hx] at h1; cases h1
      simp only [h2, Bool.false_eq_true, if_false]
      exact rematHash2_purge s k h
    | true =>
      right
      simp only [if_true]
      cases h2 : nonHashAt (purge s 0) k with
      | true => simp only [if_true, execStep_purge]
      | false =>
        simp only [Bool.false_eq_true, if_false]
        have hnone := get_purge_none_of_nonHash hI.1 h1 h2
        have : (execStep s (.del [k])).1 = purge s 0 := by
          rw [← execStep_purge, execStep_of_nodead (nodead_purge s), exec_del1 (wf_purge 0 hI.1)]
          exact erase_of_get_none (wf_purge 0 hI.1) hnone
        rw [this]
  | lww r => simpa only [rematerialise, hc] using hl
  | gcounter c => simpa only [rematerialise, hc] using hl
  | pncounter p n => simpa only [rematerialise, hc] using hl
  | gset s => simpa only [rematerialise, hc] using hl
  | orset e n => simpa only [rematerialise, hc] using hl

theorem deliver_eq (n : Node) (k : Nat) (d : RV) :
    n.deliver k d = { exec := rematerialise n.exec k (mergedVal n.rs k d), rs := n.rs.applyRemote k d } := by
  simp only [Node.deliver, get_remote]

theorem ginv_deliver {n : Node} (h : GInv n) (k : Nat) (d : RV)
    (hs : unsupported n (.deliver k d) = none) : GInv (n.deliver k d) := by
  have hok := ok_of_ginv h
  rw [deliver_eq]
  -- the purged executor satisfies `Ok` after the delivery
  have hd : d.WF := by
    simp only [unsupported] at hs
    by_cases hd : d.WF
    · exact hd
    · simp [hd] at hs
  have hs' := hs
  simp only [unsupported, hd, not_true_eq_false, if_false, get_remote] at hs'
  have hOk : Ok (rematerialise (purge n.exec 0) k (mergedVal n.rs k d)) (n.rs.applyRemote k d) := by
    cases hc : (mergedVal n.rs k d).crdt with
    | hash hm =>
      simp only [hc] at hs'
      by_cases hp : hm.all (fun p => Lww.proper p.2) = true
      · exact ok_deliver_hash hok k d hd hm hc hp
      · simp [hp] at hs'
    | lww r =>
      simp only [hc] at hs'
      by_cases hp : Lww.proper r = true
      · simp only [hp, not_true_eq_false, if_false] at hs'
        refine ok_deliver_lww hok k d hd r hc hp (fun v ms hv hm => ?_)
        simp only [hv, hm] at hs'
        by_cases hr : 1 ≤ ms ∧ (ms : Int) ≤ i64Max
        · exact hr
        · simp [hr] at hs'
      · simp [hp] at hs'
    | gcounter c => simp [hc] at hs'
    | pncounter p q => simp [hc] at hs'
    | gset s => simp [hc] at hs'
    | orset e q => simp [hc] at hs'
  rcases remat_purge h.inv k (mergedVal n.rs k d) with ⟨h1, h2⟩ | h1
  · rw [h1]
    rw [h2] at hOk
    exact ginv_of_ok (view_purge n.exec 0).symm h.inv hOk
  · rw [h1]
    exact ginv_of_ok' hOk

/-! ### histories of one node -/

theorem ginv_step {n : Node} (h : GInv n) (e : NEv) (hs : unsupported n e = none) : GInv (n.step e) := by
  cases e with
  | client c => exact ginv_client h c hs
  | deliver k d => exact ginv_deliver h k d hs

theorem ginv_run {n : Node} (h : GInv n) (evs : List NEv) (hs : Supported n evs) : GInv (n.run evs) := by
  induction evs generalizing n with
  | nil => exact h
  | cons e evs ih =>
    simp only [Node.run, List.foldl_cons]
    exact ih (ginv_step h e hs.1) hs.2
/-! ### recovery of a checkpoint value into a node that does not know the key -/

theorem hsetAll_nil_wf {l : MHash} (hw : NMap.WF l) : (hsetAll [] l).1 = l := by
  apply NMap.ext (wf_hsetAll NMap.wf_nil _) hw
  intro f
  rw [get_hsetAll_wf l hw]
  cases NMap.get l f <;> rfl

theorem keys_recovered (rs : Shard) (k : Nat) (v : RV) :
    (rs.applyRecovered k v).keys = NMap.insert k v rs.keys := rfl

theorem nodewf_recovered {rs : Shard} (k : Nat) (v : RV) (h : rs.NodeWF) (hv : v.WF) :
    (rs.applyRecovered k v).NodeWF := by
  refine ⟨h.1, fun p hp => ?_⟩
  rw [keys_recovered] at hp
  rcases NMap.mem_insert hp with hp | hp
  · subst hp; exact hv
  · exact h.2 p hp

/-- in-range expiry of a live string (what `SET … PX` accepts) -/
def ExpiryOk (v : RV) : Prop :=
  match v.get, v.expiry with
  | some _, some ms => 1 ≤ ms ∧ (ms : Int) ≤ i64Max
  | _, _ => True

instance (v : RV) : Decidable (ExpiryOk v) := by
  unfold ExpiryOk; split <;> infer_instance

theorem ok_recovered {s : State} {rs : Shard} (h : Ok s rs) (k : Nat) (v : RV)
    (hk : NMap.get rs.keys k = none) (hv : v.WF) (he : ExpiryOk v) :
    Ok (recoverExec s k v) (rs.applyRecovered k v) := by
  have hsk : NMap.get s k = none := by rw [h.srv k, hk]; rfl
  have hl : ∀ r, v.crdt = .lww r ∨ True → (match v.crdt with | .hash _ => False | _ => True) →
      Ok (recoverStr s k v) (rs.applyRecovered k v) := by
    intro r _ hnh
    simp only [recoverStr]
    cases hg : v.get with
    | none =>
      simp only
      refine ⟨h.inv, h.nodead, nodewf_recovered k v h.wf hv, ?_⟩
      rw [keys_recovered]
      apply srvk_same h.srv
      rw [hsk]
      obtain ⟨crdt, vc, expiry, ts, rf⟩ := v
      cases crdt with
      | lww r' => simp only [RV.get] at hg; simp [matE, hg]
      | hash hm => exact absurd hnh (by simp)
      | gcounter c => rfl
      | pncounter p n => rfl
      | gset s => rfl
      | orset e n => rfl
    | some x =>
      simp only [rematStr]
      have hm : matE (some v) = some { val := .str x, dl := v.expiry } := by
        obtain ⟨crdt, vc, expiry, ts, rf⟩ := v
        cases crdt with
        | lww r' => simp only [RV.get] at hg; simp [matE, hg]
        | hash hm => exact absurd hnh (by simp)
        | gcounter c => simp [RV.get] at hg
        | pncounter p n => simp [RV.get] at hg
        | gset s => simp [RV.get] at hg
        | orset e n => simp [RV.get] at hg
      cases hx : v.expiry with
      | none =>
        simp only
        rw [execStep_of_nodead h.nodead, exec_setCmd]
        refine ⟨inv_insert h.inv (valueOk_str x), nodead_insert h.nodead (live_none _),
          nodewf_recovered k v h.wf hv, ?_⟩
        rw [keys_recovered]
        apply srvk_insert h.srv
        rw [hm, hx]
      | some ms =>
        simp only
        obtain ⟨h1, h2⟩ : 1 ≤ ms ∧ (ms : Int) ≤ i64Max := by
          have := he; simp only [ExpiryOk, hg, hx] at this; exact this
        rw [execStep_of_nodead h.nodead, exec_setPx s k x ms h1 h2]
        refine ⟨inv_insert h.inv (valueOk_str x),
          nodead_insert h.nodead ((live_some_iff _ ms).mpr (by omega)), nodewf_recovered k v h.wf hv, ?_⟩
        rw [keys_recovered]
        apply srvk_insert h.srv
        rw [hm, hx]
  cases hc : v.crdt with
  | hash hm =>
    simp only [recoverExec, hc]
    have hwm : NMap.WF hm := by have := hv.1; rw [hc] at this; exact this
    by_cases hle : (liveFields hm).isEmpty = true
    · simp only [hle, if_true]
      refine ⟨h.inv, h.nodead, nodewf_recovered k v h.wf hv, ?_⟩
      rw [keys_recovered]
      apply srvk_same h.srv
      rw [hsk, matE_hash v hm hc, (isEmpty_eq_true_iff _).mp hle]
      rfl
    · have hlf : (liveFields hm).isEmpty = false := by simpa using hle
      have hne : liveFields hm ≠ [] := fun hh => hle ((isEmpty_eq_true_iff _).mpr hh)
      simp only [hlf, Bool.false_eq_true, if_false]
      have hcell : NMap.get s k = cellEntry [] := hsk
      rw [execStep_of_nodead h.nodead, hset_step hcell _ hne, hsetAll_nil_wf (wf_liveFields hwm)]
      refine ⟨inv_putHash h.inv k (wf_liveFields hwm) none, nodead_putHash h.nodead k _,
        nodewf_recovered k v h.wf hv, ?_⟩
      rw [keys_recovered]
      intro k'
      rw [get_putHash h.inv.1, NMap.get_insert]
      by_cases hkk : k' = k
      · simp only [hkk, if_true]; rw [matE_hash v hm hc]
      · simp only [hkk, if_false]; exact h.srv k'
  | lww r => simpa only [recoverExec, hc] using hl r (Or.inr trivial) (by simp [hc])
  | gcounter c => simpa only [recoverExec, hc] using hl default (Or.inr trivial) (by simp [hc])
  | pncounter p n => simpa only [recoverExec, hc] using hl default (Or.inr trivial) (by simp [hc])
  | gset s => simpa only [recoverExec, hc] using hl default (Or.inr trivial) (by simp [hc])
  | orset e n => simpa only [recoverExec, hc] using hl default (Or.inr trivial) (by simp [hc])

theorem recover_purge (s : State) (k : Nat) (v : RV) :
    (recoverExec s k v = s ∧ recoverExec (purge s 0) k v = purge s 0) ∨
    recoverExec s k v = recoverExec (purge s 0) k v := by
  have hl : (recoverStr s k v = s ∧ recoverStr (purge s 0) k v = purge s 0) ∨
      recoverStr s k v = recoverStr (purge s 0) k v := by
    simp only [recoverStr]
    cases v.get with
    | none => left; exact ⟨rfl, rfl⟩
    | some x =>
      right
      simp only [rematStr]
      cases v.expiry <;> simp only [execStep_purge]
  cases hc : v.crdt with
  | hash h =>
    simp only [recoverExec, hc]
    cases (liveFields h).isEmpty with
    | true => left; exact ⟨rfl, rfl⟩
    | false => right; simp only [Bool.false_eq_true, if_false, execStep_purge]
  | lww r => simpa only [recoverExec, hc] using hl
  | gcounter c => simpa only [recoverExec, hc] using hl
  | pncounter p n => simpa only [recoverExec, hc] using hl
  | gset s => simpa only [recoverExec, hc] using hl
  | orset e n => simpa only [recoverExec, hc] using hl

/-- `ApplyRecoveredState` for a key the node does not know yet keeps the node invariant -/
theorem ginv_recovered {n : Node} (h : GInv n) (k : Nat) (v : RV)
    (hk : NMap.get n.rs.keys k = none) (hv : v.WF) (he : ExpiryOk v) : GInv (n.recovered k v) := by
  have hOk := ok_recovered (ok_of_ginv h) k v hk hv he
  simp only [Node.recovered]
  rcases recover_purge n.exec k v with ⟨h1, h2⟩ | h1
  · rw [h1]
    rw [h2] at hOk
    exact ginv_of_ok (view_purge n.exec 0).symm h.inv hOk
  · rw [h1]
    exact ginv_of_ok' hOk

/-- a checkpoint: recovered values applied one after the other -/
def recoverAll (n : Node) (kvs : List (Nat × RV)) : Node :=
  kvs.foldl (fun n p => n.recovered p.1 p.2) n

theorem ginv_recoverAll (kvs : List (Nat × RV)) : ∀ n : Node, GInv n →
    (∀ p ∈ kvs, NMap.get n.rs.keys p.1 = none) → (kvs.map (·.1)).Nodup →
    (∀ p ∈ kvs, p.2.WF ∧ ExpiryOk p.2) → GInv (recoverAll n kvs) := by
  induction kvs with
  | nil => intro n h _ _ _; exact h
  | cons p kvs ih =>
    intro n h hfresh hnd hok
    simp only [recoverAll, List.foldl_cons]
    simp only [List.map_cons, List.nodup_cons] at hnd
    apply ih _ (ginv_recovered h p.1 p.2 (hfresh p (by simp)) (hok p (by simp)).1 (hok p (by simp)).2)
    · intro q hq
      simp only [Node.recovered, keys_recovered, NMap.get_insert]
      have hne : q.1 ≠ p.1 := fun he => hnd.1 (by rw [← he]; exact List.mem_map_of_mem hq)
      simp only [hne, if_false]
      exact hfresh q (by simp [hq])
    · exact hnd.2
    · intro q hq; exact hok q (by simp [hq])

end RedisVerif.Glue
