import RedisVerif.Lemmas.SimAcc

/-!
  Two quiet rounds empty the simulator cluster: with no partition in place and every flight due
  within `D` ms, `advance D; gossip_round; advance D; gossip_round` (= `converge(2)` with delays
  ≤ `D`) leaves every outbox and the message queue empty — everything that was recorded before has
  been handed to its destinations.
-/
namespace RedisVerif
namespace SimC
open Gossip Cluster

theorem popReady_all (now : Nat) : ∀ (q : List Flight), (∀ f ∈ q, f.due ≤ now) → Sim.popReady [] now q = (q, []) := by
  intro q
  induction q with
  | nil => intro _; rfl
  | cons m q ih =>
    intro h
    have hm := h m (by simp)
    have hc : Sim.canComm [] m.src m.dst = true := rfl
    simp only [Sim.popReady, hm, hc, and_self, if_true]
    rw [ih (fun f hf => h f (List.mem_cons_of_mem _ hf))]

/-- the ready prefix: what was due before the round goes, what the round appended stays or goes -/
theorem popReady_append (now : Nat) : ∀ (old new : List Flight), (∀ f ∈ old, f.due ≤ now) →
    Sim.popReady [] now (old ++ new) = (old ++ (Sim.popReady [] now new).1, (Sim.popReady [] now new).2) := by
  intro old
  induction old with
  | nil => intro new _; rfl
  | cons m old ih =>
    intro new h
    have hm := h m (by simp)
    have hc : Sim.canComm [] m.src m.dst = true := rfl
    simp only [List.cons_append, Sim.popReady, hm, hc, and_self, if_true]
    rw [ih new (fun f hf => h f (List.mem_cons_of_mem _ hf))]

theorem popReady_sub (parts : List (Nat × Nat)) (now : Nat) (q : List Flight) :
    ∀ f ∈ (Sim.popReady parts now q).2, f ∈ q := by
  intro f hf
  have := popReady_split parts now q
  rw [← this]
  exact List.mem_append_right _ hf

/-- the sends of a round only append to the queue, with dues at most `now + D` when the oracle's
    delays are at most `D` -/
theorem sendFold_shape (parts : List (Nat × Nat)) (now D : Nat) (sends : List (Nat × Nat × List Msg)) :
    ∀ (acc : List Flight × List (Bool × Nat)), (∀ p ∈ acc.2, p.2 ≤ D) → 1 ≤ D →
    ∃ new, (sends.foldl (fun acc sp => Sim.sendOne parts now acc sp.1 sp.2) acc).1 = acc.1 ++ new ∧
      ∀ f ∈ new, f.due ≤ now + D := by
  induction sends with
  | nil => intro acc _ _; exact ⟨[], by simp, fun f hf => by cases hf⟩
  | cons sp sends ih =>
    intro acc hor hD
    simp only [List.foldl_cons]
    have hone : ∃ one, (Sim.sendOne parts now acc sp.1 sp.2).1 = acc.1 ++ one ∧ (∀ f ∈ one, f.due ≤ now + D) ∧
        ∀ p ∈ (Sim.sendOne parts now acc sp.1 sp.2).2, p.2 ≤ D := by
      unfold Sim.sendOne
      split
      · exact ⟨[], by simp, (fun f hf => by cases hf), hor⟩
      · simp only []
        have hd : (acc.2.headD (false, 1)).2 ≤ D := by
          cases h : acc.2 with
          | nil => exact hD
          | cons p ps => simp only [List.headD_cons]; exact hor p (by rw [h]; simp)
        split
        · exact ⟨[], by simp, (fun f hf => by cases hf), fun p hp => hor p (List.mem_of_mem_tail hp)⟩
        · refine ⟨[_], rfl, ?_, fun p hp => hor p (List.mem_of_mem_tail hp)⟩
          intro f hf
          simp only [List.mem_singleton] at hf
          rw [hf]
          simp only
          omega
    obtain ⟨one, h1, h2, h3⟩ := hone
    obtain ⟨new, h4, h5⟩ := ih (Sim.sendOne parts now acc sp.1 sp.2) h3 hD
    refine ⟨one ++ new, by rw [h4, h1, List.append_assoc], ?_⟩
    intro f hf
    rcases List.mem_append.mp hf with h | h
    · exact h2 f h
    · exact h5 f h

/-- what a gossip round leaves behind, in terms of the queue after its sends -/
theorem gossip_step_shape (H : AE.Hasher) (cfg : Cfg) (c : Sim) (oracle : List (Bool × Nat)) (q : List Flight)
    (hq : ((((List.range c.nodes.length).flatMap fun src =>
        (Sim.sendsOf c.routers c.nodes.length src ((c.nodes.map fun nd => nd.ps.pending)[src]?.getD [])).map
          fun p => (src, p)).foldl (fun acc sp => Sim.sendOne c.parts c.now acc sp.1 sp.2) (c.queue, oracle)).1) = q) :
    (∀ nd ∈ (c.step H cfg (.gossip oracle)).nodes, nd.ps.pending = []) ∧
    (c.step H cfg (.gossip oracle)).queue = (Sim.popReady c.parts c.now q).2 ∧
    (c.step H cfg (.gossip oracle)).now = c.now ∧ (c.step H cfg (.gossip oracle)).parts = c.parts := by
  simp only [Sim.step]
  rw [hq]
  have hpend := deliverFlights_pending (Sim.popReady c.parts c.now q).1
    { c with nodes := c.nodes.map (fun nd => { nd with ps := { nd.ps with pending := [] } }),
             queue := (Sim.popReady c.parts c.now q).2 }
    (by
      intro nd hnd
      simp only [List.mem_map] at hnd
      obtain ⟨x, _, rfl⟩ := hnd
      rfl)
  have hrest : ∀ (fs : List Flight) (c0 : Sim), (fs.foldl Sim.deliverFlight c0).now = c0.now ∧
      (fs.foldl Sim.deliverFlight c0).parts = c0.parts := by
    intro fs
    induction fs with
    | nil => intro c0; exact ⟨rfl, rfl⟩
    | cons f fs ih =>
      intro c0
      rw [List.foldl_cons, (ih _).1, (ih _).2]
      unfold Sim.deliverFlight
      split <;> exact ⟨rfl, rfl⟩
  exact ⟨hpend.1, hpend.2.2, (hrest _ _).1, (hrest _ _).2⟩

/-- one gossip round with no partition, every queued flight already due: afterwards every outbox
    is empty and what is left in the queue was sent by this round (due within `D`) -/
theorem gossip_round_due (H : AE.Hasher) (cfg : Cfg) (c : Sim) (oracle : List (Bool × Nat)) (D : Nat) (hD : 1 ≤ D)
    (hparts : c.parts = []) (hdue : ∀ f ∈ c.queue, f.due ≤ c.now) (hor : ∀ p ∈ oracle, p.2 ≤ D) :
    (∀ nd ∈ (c.step H cfg (.gossip oracle)).nodes, nd.ps.pending = []) ∧
    (∀ f ∈ (c.step H cfg (.gossip oracle)).queue, f.due ≤ c.now + D) ∧
    (c.step H cfg (.gossip oracle)).now = c.now ∧ (c.step H cfg (.gossip oracle)).parts = [] := by
  obtain ⟨new, hq, hnew⟩ := sendFold_shape c.parts c.now D
    ((List.range c.nodes.length).flatMap fun src =>
      (Sim.sendsOf c.routers c.nodes.length src ((c.nodes.map fun nd => nd.ps.pending)[src]?.getD [])).map
        fun p => (src, p)) (c.queue, oracle) hor hD
  obtain ⟨h1, h2, h3, h4⟩ := gossip_step_shape H cfg c oracle _ hq
  refine ⟨h1, ?_, h3, by rw [h4]; exact hparts⟩
  intro f hf
  rw [h2, hparts, popReady_append c.now c.queue new hdue] at hf
  exact hnew f (popReady_sub [] c.now new f hf)

/-- with empty outboxes a round sends nothing: if everything queued is due, the queue empties -/
theorem gossip_round_flush (H : AE.Hasher) (cfg : Cfg) (c : Sim) (oracle : List (Bool × Nat))
    (hparts : c.parts = []) (hdue : ∀ f ∈ c.queue, f.due ≤ c.now) (hp : ∀ nd ∈ c.nodes, nd.ps.pending = []) :
    (∀ nd ∈ (c.step H cfg (.gossip oracle)).nodes, nd.ps.pending = []) ∧ (c.step H cfg (.gossip oracle)).queue = [] := by
  have hsends : ((List.range c.nodes.length).flatMap fun src =>
      (Sim.sendsOf c.routers c.nodes.length src ((c.nodes.map fun nd => nd.ps.pending)[src]?.getD [])).map
        fun p => (src, p)) = [] := by
    apply List.flatMap_eq_nil_iff.mpr
    intro src _
    have : ((c.nodes.map fun nd => nd.ps.pending)[src]?.getD []) = [] := by
      simp only [List.getElem?_map]
      cases hs : c.nodes[src]? with
      | none => rfl
      | some nd => simp [hp nd (List.mem_of_getElem? hs)]
    rw [this]
    simp [Sim.sendsOf]
  obtain ⟨h1, h2, _, _⟩ := gossip_step_shape H cfg c oracle c.queue (by rw [hsends]; rfl)
  refine ⟨h1, ?_⟩
  rw [h2, hparts, popReady_all c.now c.queue hdue]

/-- `converge(2)` with delays ≤ `D` = `advance D; gossip; advance D; gossip` -/
def quiesce (D : Nat) (o1 o2 : List (Bool × Nat)) : List SEv := [.advance D, .gossip o1, .advance D, .gossip o2]

/-- **two rounds empty the cluster** -/
theorem quiesce_quiet (H : AE.Hasher) (cfg : Cfg) (c : Sim) (D : Nat) (o1 o2 : List (Bool × Nat)) (hD : 1 ≤ D)
    (hparts : c.parts = []) (hdue : ∀ f ∈ c.queue, f.due ≤ c.now + D) (hor : ∀ p ∈ o1, p.2 ≤ D) :
    (∀ nd ∈ (c.run H cfg (quiesce D o1 o2)).nodes, nd.ps.pending = []) ∧ (c.run H cfg (quiesce D o1 o2)).queue = [] := by
  simp only [quiesce, Sim.run, List.foldl_cons, List.foldl_nil]
  -- round 1
  have c1parts : (c.step H cfg (.advance D)).parts = [] := hparts
  have c1due : ∀ f ∈ (c.step H cfg (.advance D)).queue, f.due ≤ (c.step H cfg (.advance D)).now := hdue
  obtain ⟨p2, q2, n2, r2⟩ := gossip_round_due H cfg (c.step H cfg (.advance D)) o1 D hD c1parts c1due hor
  -- round 2
  have c3parts : (((c.step H cfg (.advance D)).step H cfg (.gossip o1)).step H cfg (.advance D)).parts = [] := r2
  have c3due : ∀ f ∈ (((c.step H cfg (.advance D)).step H cfg (.gossip o1)).step H cfg (.advance D)).queue,
      f.due ≤ (((c.step H cfg (.advance D)).step H cfg (.gossip o1)).step H cfg (.advance D)).now := by
    intro f hf
    have := q2 f hf
    show f.due ≤ ((c.step H cfg (.advance D)).step H cfg (.gossip o1)).now + D
    rw [n2]; exact this
  exact gossip_round_flush H cfg _ o2 c3parts c3due p2

end SimC
end RedisVerif
