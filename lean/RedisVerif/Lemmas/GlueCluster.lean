import RedisVerif.Lemmas.GlueNode
import RedisVerif.Lemmas.ClusterInv

/-! C06 layer 2, cluster level: every supported step of a cluster of glue nodes is zero or one
    step of the layer-1 cluster of their replication states; all nodes keep the node invariant. -/
namespace RedisVerif.Glue
open Redis

/-! ### from the recorder to the local operations of layer 1 -/

/-- the shard actor hands back only the LAST key's delta of a `DEL k₁ … kₙ`: every delta reaches
    the caller iff no earlier key has an entry in the replication state.  (Always true for the
    single-key DELs `ReplicatedShardedState::execute` sends since the multi-key split.) -/
def delShipsAll (rs : Shard) (ks : List Nat) : Bool :=
  ks.dropLast.all (fun k => (NMap.get rs.keys k).isNone)


/-- the recorder either leaves the replication state alone (no delta) or performs exactly one
    local operation of the layer-1 model and hands back its delta -/
def RecLop (rs : Shard) (out : Shard × Option Delta) : Prop :=
  out = (rs, none) ∨
  ∃ (op : LOp) (d : RV), Shard.step rs op.toOp = (out.1, some d) ∧ out.2 = some (op.key, d)

theorem reclop_write (rs : Shard) (k : Nat) (v : Bytes) (e : Option Nat) :
    RecLop rs (writeDelta rs k v e) :=
  Or.inr ⟨.write k v e, (rs.recordWrite k v e).2, rfl, rfl⟩

theorem reclop_hwrite (rs : Shard) (k : Nat) (fs : List (Nat × Bytes)) :
    RecLop rs ((rs.recordHashWrite k fs).1, some (k, (rs.recordHashWrite k fs).2)) :=
  Or.inr ⟨.hwrite k fs, (rs.recordHashWrite k fs).2, rfl, rfl⟩

theorem reclop_of_step (rs : Shard) (op : LOp) :
    RecLop rs ((Shard.step rs op.toOp).1, (Shard.step rs op.toOp).2.map (fun v => (op.key, v))) := by
  cases hd : (Shard.step rs op.toOp).2 with
  | none =>
    left
    rw [Shard.local_none rs op hd]
    rfl
  | some d =>
    right
    refine ⟨op, d, ?_, rfl⟩
    rw [← hd]

theorem reclop_delete (rs : Shard) (k : Nat) :
    RecLop rs ((rs.recordDelete k).1, (rs.recordDelete k).2.map (fun v => (k, v))) :=
  reclop_of_step rs (.delete k)

theorem reclop_hdelete (rs : Shard) (k : Nat) (fs : List Nat) :
    RecLop rs ((rs.recordHashDelete k fs).1, (rs.recordHashDelete k fs).2.map (fun v => (k, v))) :=
  reclop_of_step rs (.hdelete k fs)

theorem delStep_absent (rs : Shard) (acc : Option Delta) (k : Nat) (h : NMap.get rs.keys k = none) :
    delStep (rs, acc) k = (rs, none) := by
  simp only [delStep, Shard.recordDelete_none h, Option.map_none]

theorem reclop_del (ks : List Nat) (rs : Shard) (h : delShipsAll rs ks = true) :
    RecLop rs (ks.foldl delStep (rs, none)) := by
  induction ks with
  | nil => left; rfl
  | cons k ks ih =>
    cases ks with
    | nil =>
      simp only [List.foldl_cons, List.foldl_nil, delStep]
      exact reclop_delete rs k
    | cons k' ks' =>
      have hk : NMap.get rs.keys k = none := by
        simp only [delShipsAll, List.dropLast_cons_cons, List.all_cons, Bool.and_eq_true] at h
        cases hx : NMap.get rs.keys k with
        | none => rfl
        | some _ => simp [hx] at h
      have hrest : delShipsAll rs (k' :: ks') = true := by
        simp only [delShipsAll, List.dropLast_cons_cons, List.all_cons, Bool.and_eq_true] at h
        exact h.2
      rw [List.foldl_cons, delStep_absent rs none k hk]
      exact ih hrest

theorem reclop_record (rs : Shard) (post : State) (c : Cmd)
    (hdel : ∀ ks, c = .del ks → delShipsAll rs ks = true) : RecLop rs (record rs post c) := by
  cases c with
  | set k v cond e g =>
    simp only [record]
    cases cond with
    | always => exact reclop_write ..
    | nx =>
      simp only
      cases strAt post k with
      | none => left; rfl
      | some _ => exact reclop_write ..
    | xx =>
      simp only
      split
      · left; rfl
      · exact reclop_write ..
  | del ks => exact reclop_del ks rs (hdel ks rfl)
  | incr k => simp only [record]; cases strAt post k with | none => left; rfl | some _ => exact reclop_write ..
  | decr k => simp only [record]; cases strAt post k with | none => left; rfl | some _ => exact reclop_write ..
  | incrby k d => simp only [record]; cases strAt post k with | none => left; rfl | some _ => exact reclop_write ..
  | decrby k d => simp only [record]; cases strAt post k with | none => left; rfl | some _ => exact reclop_write ..
  | append k v => simp only [record]; cases strAt post k with | none => left; rfl | some _ => exact reclop_write ..
  | getset k v => simp only [record]; cases strAt post k with | none => left; rfl | some _ => exact reclop_write ..
  | hset k fvs => exact reclop_hwrite ..
  | hdel k fs => exact reclop_hdelete ..
  | hincrby k f d =>
    simp only [record]
    cases hashFieldAt post k f with
    | none => left; rfl
    | some _ => exact reclop_hwrite ..
  | _ => left; rfl

theorem client_reclop (nd : Node) (c : Cmd)
    (hdel : ∀ ks, c = .del ks → delShipsAll nd.rs ks = true) :
    RecLop nd.rs ((nd.client c).1.rs, (nd.client c).2.2) := by
  simp only [Node.client]
  split
  · exact reclop_record nd.rs _ c hdel
  · left; rfl

/-! ### the replication-state layer of a glue cluster is a layer-1 cluster -/

theorem proj_nodes_get (g : GCluster) (i : Nat) :
    g.proj.nodes[i]? = (g.nodes[i]?).map (·.rs) := by
  simp [GCluster.proj]

theorem proj_client_none {g : GCluster} {i : Nat} {nd : Node} {c : Cmd} (hn : g.nodes[i]? = some nd)
    (hrs : (nd.client c).1.rs = nd.rs) (hd : (nd.client c).2.2 = none) :
    (g.clientOne i c).proj = g.proj := by
  simp only [GCluster.clientOne, hn, hd, GCluster.proj, List.map_set, hrs]
  congr 1
  have hi : i < g.nodes.length := (List.getElem?_eq_some_iff.mp hn).1
  have hget : g.nodes[i] = nd := (List.getElem?_eq_some_iff.mp hn).2
  apply List.ext_getElem?
  intro j
  by_cases hj : i = j
  · subst hj
    simp [hi, hget]
  · simp [hj]

theorem proj_client_some {g : GCluster} {i : Nat} {nd : Node} {c : Cmd} {op : LOp} {d : RV}
    (hn : g.nodes[i]? = some nd)
    (hst : Shard.step nd.rs op.toOp = ((nd.client c).1.rs, some d))
    (hd : (nd.client c).2.2 = some (op.key, d)) :
    (g.clientOne i c).proj = g.proj.step (.loc i op) := by
  have hp : g.proj.nodes[i]? = some nd.rs := by rw [proj_nodes_get, hn]; rfl
  simp only [GCluster.clientOne, hn, hd, Cluster.step, hp, hst]
  simp only [GCluster.proj, List.map_set]

theorem proj_deliver (g : GCluster) (j idx : Nat) :
    (g.step (.deliver j idx)).proj = g.proj.step (.deliver j idx) := by
  simp only [GCluster.step, Cluster.step, proj_nodes_get]
  cases hn : g.nodes[j]? with
  | none => simp [GCluster.proj]
  | some nd =>
    have hs : g.proj.sent = g.sent := rfl
    rw [hs]
    cases hm : g.sent[idx]? with
    | none => simp [GCluster.proj]
    | some m =>
      simp only [Option.map_some]
      simp only [GCluster.proj, List.map_set, deliver_eq]

theorem proj_init (n : Nat) (causal : Bool) : (GCluster.init n causal).proj = Cluster.init n causal := by
  simp only [GCluster.proj, GCluster.init, Cluster.init, List.map_map]
  rfl

/-- every node of the cluster satisfies the node invariant -/
def AllInv (g : GCluster) : Prop := ∀ nd ∈ g.nodes, GInv nd

theorem allinv_init (n : Nat) (causal : Bool) : AllInv (GCluster.init n causal) := by
  intro nd hnd
  simp only [GCluster.init, List.mem_map] at hnd
  obtain ⟨i, _, rfl⟩ := hnd
  exact ginv_init _ _

theorem allinv_clientOne {g : GCluster} (h : AllInv g) (i : Nat) (c : Cmd)
    (hs : ∀ nd, g.nodes[i]? = some nd → unsupported nd (.client c) = none) :
    AllInv (g.clientOne i c) := by
  simp only [GCluster.clientOne]
  cases hn : g.nodes[i]? with
  | none => exact h
  | some nd =>
    have hnew := ginv_client (h nd (List.mem_of_getElem? hn)) c (hs nd hn)
    simp only
    split <;>
    · intro x hx
      rcases Cluster.mem_set hx with hx | hx
      · subst hx; exact hnew
      · exact h x hx

/-- one shard command is zero or one step of the layer-1 cluster -/
theorem proj_clientOne (g : GCluster) (i : Nat) (c : Cmd)
    (hdel : ∀ nd, g.nodes[i]? = some nd → ∀ ks, c = .del ks → delShipsAll nd.rs ks = true) :
    ∃ evs : List Ev, (g.clientOne i c).proj = g.proj.run evs := by
  cases hn : g.nodes[i]? with
  | none => exact ⟨[], by simp [GCluster.clientOne, hn, Cluster.run]⟩
  | some nd =>
    rcases client_reclop nd c (hdel nd hn) with hl | ⟨op, d, hst, hd⟩
    · simp only [Prod.mk.injEq] at hl
      exact ⟨[], by rw [proj_client_none hn hl.1 hl.2]; rfl⟩
    · exact ⟨[.loc i op], proj_client_some hn hst hd⟩

theorem unsupported_del (nd : Node) (ks : List Nat) : unsupported nd (.client (.del ks)) = none := by
  simp [unsupported, recorded]

theorem delShipsAll_short (rs : Shard) (ks : List Nat) (h : ¬ ks.length > 1) :
    delShipsAll rs ks = true := by
  cases ks with
  | nil => rfl
  | cons k ks =>
    cases ks with
    | nil => rfl
    | cons k' ks' => simp at h

/-- the per-key DELs of a split multi-key DEL -/
theorem fold_single_dels (i : Nat) (ks : List Nat) : ∀ g : GCluster, AllInv g →
    AllInv ((ks.map (fun k => Cmd.del [k])).foldl (fun g c' => g.clientOne i c') g) ∧
    ∃ evs : List Ev,
      ((ks.map (fun k => Cmd.del [k])).foldl (fun g c' => g.clientOne i c') g).proj = g.proj.run evs := by
  induction ks with
  | nil => intro g h; exact ⟨h, [], rfl⟩
  | cons k ks ih =>
    intro g h
    simp only [List.map_cons, List.foldl_cons]
    have h1 := allinv_clientOne h i (.del [k]) (fun nd _ => unsupported_del nd [k])
    obtain ⟨evs1, hp1⟩ := proj_clientOne g i (.del [k]) (fun nd _ ks' hc => by
      cases hc; rfl)
    obtain ⟨h2, evs2, hp2⟩ := ih _ h1
    refine ⟨h2, evs1 ++ evs2, ?_⟩
    rw [hp2, hp1]
    simp only [Cluster.run, List.foldl_append]

/-- the per-pair SETs of a split MSET (repaired front end): every one is a recorded command -/
theorem fold_single_sets (i : Nat) (kvs : List (Nat × Redis.BS)) : ∀ g : GCluster, AllInv g →
    AllInv ((kvs.map (fun p => Cmd.set p.1 p.2 .always .none false)).foldl (fun g c' => g.clientOne i c') g) ∧
    ∃ evs : List Ev,
      ((kvs.map (fun p => Cmd.set p.1 p.2 .always .none false)).foldl (fun g c' => g.clientOne i c') g).proj
        = g.proj.run evs := by
  induction kvs with
  | nil => intro g h; exact ⟨h, [], rfl⟩
  | cons p kvs ih =>
    intro g h
    simp only [List.map_cons, List.foldl_cons]
    have h1 := allinv_clientOne h i (.set p.1 p.2 .always .none false) (fun nd _ => by simp [unsupported, recorded])
    obtain ⟨evs1, hp1⟩ := proj_clientOne g i (.set p.1 p.2 .always .none false) (fun nd _ ks' hc => by cases hc)
    obtain ⟨h2, evs2, hp2⟩ := ih _ h1
    refine ⟨h2, evs1 ++ evs2, ?_⟩
    rw [hp2, hp1]
    simp only [Cluster.run, List.foldl_append]

/-- one supported step of the glue cluster keeps every node's invariant and is a (possibly
    empty) sequence of steps of the layer-1 cluster -/
theorem step_ok {g : GCluster} (h : AllInv g) (e : GEv) (hs : gunsupported g e = none) :
    AllInv (g.step e) ∧ ∃ evs : List Ev, (g.step e).proj = g.proj.run evs := by
  cases e with
  | deliver j idx =>
    refine ⟨?_, [.deliver j idx], proj_deliver g j idx⟩
    simp only [GCluster.step]
    cases hn : g.nodes[j]? with
    | none => exact h
    | some nd =>
      cases hm : g.sent[idx]? with
      | none => exact h
      | some m =>
        simp only
        have hnd : GInv nd := h nd (List.mem_of_getElem? hn)
        have hu : unsupported nd (.deliver m.key m.val) = none := by
          simp only [gunsupported, hn, hm] at hs
          exact hs
        intro x hx
        rcases Cluster.mem_set hx with hx | hx
        · subst hx; exact ginv_deliver hnd _ _ hu
        · exact h x hx
  | client i c =>
    have hone : ∀ c', (c' = c) → (∀ ks, c' = .del ks → ¬ ks.length > 1) →
        AllInv (g.clientOne i c') ∧ ∃ evs : List Ev, (g.clientOne i c').proj = g.proj.run evs := by
      intro c' hc hshort
      subst hc
      refine ⟨allinv_clientOne h i c' (fun nd hn => ?_), proj_clientOne g i c' (fun nd _ ks hk =>
        delShipsAll_short nd.rs ks (hshort ks hk))⟩
      simp only [gunsupported, hn] at hs
      exact hs
    cases c with
    | del ks =>
      simp only [GCluster.step, splitCmd]
      by_cases hl : ks.length > 1
      · simp only [hl, if_true]
        exact fold_single_dels i ks g h
      · simp only [hl, if_false, List.foldl_cons, List.foldl_nil]
        exact hone (.del ks) rfl (fun ks' hk => by cases hk; exact hl)
    | mset kvs =>
      simp only [GCluster.step, splitCmd]
      exact fold_single_sets i kvs g h
    | _ =>
      simp only [GCluster.step, splitCmd, List.foldl_cons, List.foldl_nil]
      exact hone _ rfl (fun ks hk => by cases hk)

/-- a restarted actor satisfies the node invariant (it serves nothing and knows nothing), and the
    replication-state layer of the restarted cluster is the layer-1 restart -/
theorem restart_ok {g : GCluster} (h : AllInv g) (i : Nat) :
    AllInv (g.restart i) ∧ (g.restart i).proj = g.proj.restart i := by
  simp only [GCluster.restart, Cluster.restart, proj_nodes_get]
  cases hn : g.nodes[i]? with
  | none => exact ⟨h, rfl⟩
  | some nd =>
    refine ⟨?_, ?_⟩
    · intro x hx
      rcases Cluster.mem_set hx with hx | hx
      · subst hx; exact ginv_init _ _
      · exact h x hx
    · simp [GCluster.proj, List.map_set, Node.init]

theorem run_proj (hist : List GEv) : ∀ (g : GCluster), AllInv g → GSupported g hist →
    AllInv (g.run hist) ∧ ∃ evs : List Ev, (g.run hist).proj = g.proj.run evs := by
  induction hist with
  | nil => intro g h _; exact ⟨h, [], rfl⟩
  | cons e hist ih =>
    intro g h hs
    obtain ⟨h1, evs1, hp1⟩ := step_ok h e hs.1
    obtain ⟨hall, evs2, h2⟩ := ih (g.step e) h1 hs.2
    refine ⟨hall, evs1 ++ evs2, ?_⟩
    simp only [GCluster.run, List.foldl_cons] at h2 ⊢
    rw [h2, hp1]
    simp only [Cluster.run, List.foldl_append]
end RedisVerif.Glue
