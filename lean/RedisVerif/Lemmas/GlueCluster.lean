import RedisVerif.Lemmas.GlueNode
import RedisVerif.Lemmas.ClusterInv

/-! C06 layer 2, cluster level: every supported step of a cluster of glue nodes is zero or one
    step of the layer-1 cluster of their replication states; all nodes keep the node invariant. -/
namespace RedisVerif.Glue
open Redis

/-! ### from the recorder to the local operations of layer 1 -/

/-- the recorder either leaves the replication state alone (no delta) or performs exactly one
    local operation of the layer-1 model and hands back its delta -/
def RecLop (rs : Shard) (out : Shard × Option Delta) : Prop :=
  out = (rs, none) ∨
  ∃ (op : LOp) (d : RV), Shard.step rs op.toOp = (out.1, some d) ∧ out.2 = some (op.key, d)

theorem reclop_write (rs : Shard) (k : Nat) (v : Bytes) (e : Option Nat) :
    RecLop rs (writeDelta rs k v e) :=
  Or.inr ⟨.write k v e, (rs.recordWrite k v e).2, rfl, rfl⟩

theorem reclop_hwrite (rs : Shard) (k : Nat) (fs : List (Nat × Bytes)) :
    RecLop rs ((rs.recordHashWrite k fs).1, some (k, (rs.recordHashWrite k fs).2)) :=
  Or.inr ⟨.hwrite k fs, (rs.recordHashWrite k fs).2, rfl, rfl⟩

theorem reclop_of_step (rs : Shard) (op : LOp) :
    RecLop rs ((Shard.step rs op.toOp).1, (Shard.step rs op.toOp).2.map (fun v => (op.key, v))) := by
  cases hd : (Shard.step rs op.toOp).2 with
  | none =>
    left
    rw [Shard.local_none rs op hd]
    rfl
  | some d =>
    right
    refine ⟨op, d, ?_, rfl⟩
    rw [← hd]

theorem reclop_delete (rs : Shard) (k : Nat) :
    RecLop rs ((rs.recordDelete k).1, (rs.recordDelete k).2.map (fun v => (k, v))) :=
  reclop_of_step rs (.delete k)

theorem reclop_hdelete (rs : Shard) (k : Nat) (fs : List Nat) :
    RecLop rs ((rs.recordHashDelete k fs).1, (rs.recordHashDelete k fs).2.map (fun v => (k, v))) :=
  reclop_of_step rs (.hdelete k fs)

theorem delStep_absent (rs : Shard) (acc : Option Delta) (k : Nat) (h : NMap.get rs.keys k = none) :
    delStep (rs, acc) k = (rs, none) := by
  simp only [delStep, Shard.recordDelete_none h, Option.map_none]

theorem reclop_del (ks : List Nat) (rs : Shard) (h : delShipsAll rs ks = true) :
    RecLop rs (ks.foldl delStep (rs, none)) := by
  induction ks with
  | nil => left; rfl
  | cons k ks ih =>
    cases ks with
    | nil =>
      simp only [List.foldl_cons, List.foldl_nil, delStep]
      exact reclop_delete rs k
    | cons k' ks' =>
      have hk : NMap.get rs.keys k = none := by
        simp only [delShipsAll, List.dropLast_cons_cons, List.all_cons, Bool.and_eq_true] at h
        cases hx : NMap.get rs.keys k with
        | none => rfl
        | some _ => simp [hx] at h
      have hrest : delShipsAll rs (k' :: ks') = true := by
        simp only [delShipsAll, List.dropLast_cons_cons, List.all_cons, Bool.and_eq_true] at h
        exact h.2
      rw [List.foldl_cons, delStep_absent rs none k hk]
      exact ih hrest

theorem reclop_record (rs : Shard) (post : State) (c : Cmd)
    (hdel : ∀ ks, c = .del ks → delShipsAll rs ks = true) : RecLop rs (record rs post c) := by
  cases c with
  | set k v cond e g =>
    simp only [record]
    cases cond with
    | always => exact reclop_write ..
    | nx =>
      simp only
      cases strAt post k with
      | none => left; rfl
      | some _ => exact reclop_write ..
    | xx =>
      simp only
      split
      · left; rfl
      · exact reclop_write ..
  | del ks => exact reclop_del ks rs (hdel ks rfl)
  | incr k => simp only [record]; cases strAt post k with | none => left; rfl | some _ => exact reclop_write ..
  | decr k => simp only [record]; cases strAt post k with | none => left; rfl | some _ => exact reclop_write ..
  | incrby k d => simp only [record]; cases strAt post k with | none => left; rfl | some _ => exact reclop_write ..
  | decrby k d => simp only [record]; cases strAt post k with | none => left; rfl | some _ => exact reclop_write ..
  | append k v => simp only [record]; cases strAt post k with | none => left; rfl | some _ => exact reclop_write ..
  | getset k v => simp only [record]; cases strAt post k with | none => left; rfl | some _ => exact reclop_write ..
  | hset k fvs => exact reclop_hwrite ..
  | hdel k fs => exact reclop_hdelete ..
  | hincrby k f d =>
    simp only [record]
    cases hashFieldAt post k f with
    | none => left; rfl
    | some _ => exact reclop_hwrite ..
  | _ => left; rfl

theorem client_reclop (nd : Node) (c : Cmd)
    (hdel : ∀ ks, c = .del ks → delShipsAll nd.rs ks = true) :
    RecLop nd.rs ((nd.client c).1.rs, (nd.client c).2.2) := by
  simp only [Node.client]
  split
  · exact reclop_record nd.rs _ c hdel
  · left; rfl

/-! ### the replication-state layer of a glue cluster is a layer-1 cluster -/

theorem proj_nodes_get (g : GCluster) (i : Nat) :
    g.proj.nodes[i]? = (g.nodes[i]?).map (·.rs) := by
  simp [GCluster.proj]

theorem proj_client_none {g : GCluster} {i : Nat} {nd : Node} {c : Cmd} (hn : g.nodes[i]? = some nd)
    (hrs : (nd.client c).1.rs = nd.rs) (hd : (nd.client c).2.2 = none) :
    (g.step (.client i c)).proj = g.proj := by
  simp only [GCluster.step, hn, hd, GCluster.proj, List.map_set, hrs]
  congr 1
  have hi : i < g.nodes.length := (List.getElem?_eq_some_iff.mp hn).1
  have hget : g.nodes[i] = nd := (List.getElem?_eq_some_iff.mp hn).2
  apply List.ext_getElem?
  intro j
  by_cases hj : i = j
  · subst hj
    simp [hi, hget]
  · simp [hj]

theorem proj_client_some {g : GCluster} {i : Nat} {nd : Node} {c : Cmd} {op : LOp} {d : RV}
    (hn : g.nodes[i]? = some nd)
    (hst : Shard.step nd.rs op.toOp = ((nd.client c).1.rs, some d))
    (hd : (nd.client c).2.2 = some (op.key, d)) :
    (g.step (.client i c)).proj = g.proj.step (.loc i op) := by
  have hp : g.proj.nodes[i]? = some nd.rs := by rw [proj_nodes_get, hn]; rfl
  simp only [GCluster.step, hn, hd, Cluster.step, hp, hst]
  simp only [GCluster.proj, List.map_set]

theorem proj_deliver (g : GCluster) (j idx : Nat) :
    (g.step (.deliver j idx)).proj = g.proj.step (.deliver j idx) := by
  simp only [GCluster.step, Cluster.step, proj_nodes_get]
  cases hn : g.nodes[j]? with
  | none => simp [GCluster.proj]
  | some nd =>
    have hs : g.proj.sent = g.sent := rfl
    rw [hs]
    cases hm : g.sent[idx]? with
    | none => simp [GCluster.proj]
    | some m =>
      simp only [Option.map_some]
      split
      · rfl
      · simp only [GCluster.proj, List.map_set, deliver_eq]

theorem proj_init (n : Nat) (causal : Bool) : (GCluster.init n causal).proj = Cluster.init n causal := by
  simp only [GCluster.proj, GCluster.init, Cluster.init, List.map_map]
  rfl

/-- every node of the cluster satisfies the node invariant -/
def AllInv (g : GCluster) : Prop := ∀ nd ∈ g.nodes, GInv nd

theorem allinv_init (n : Nat) (causal : Bool) : AllInv (GCluster.init n causal) := by
  intro nd hnd
  simp only [GCluster.init, List.mem_map] at hnd
  obtain ⟨i, _, rfl⟩ := hnd
  exact ginv_init _ _

theorem unsupported_of_g {g : GCluster} {i : Nat} {nd : Node} {c : Cmd} (hn : g.nodes[i]? = some nd)
    (hs : gunsupported g (.client i c) = none) :
    unsupported nd (.client c) = none ∧ ∀ ks, c = .del ks → delShipsAll nd.rs ks = true := by
  simp only [gunsupported, hn] at hs
  cases hu : unsupported nd (.client c) with
  | some r => simp [hu] at hs
  | none =>
    refine ⟨rfl, fun ks hc => ?_⟩
    subst hc
    simp only [hu] at hs
    cases hx : delShipsAll nd.rs ks with
    | true => rfl
    | false => simp [hx] at hs

theorem allinv_step {g : GCluster} (h : AllInv g) (e : GEv) (hs : gunsupported g e = none) :
    AllInv (g.step e) := by
  cases e with
  | client i c =>
    simp only [GCluster.step]
    cases hn : g.nodes[i]? with
    | none => exact h
    | some nd =>
      have hnd : GInv nd := h nd (List.mem_of_getElem? hn)
      have hnew := ginv_client hnd c (unsupported_of_g hn hs).1
      simp only
      split <;>
      · intro x hx
        rcases Cluster.mem_set hx with hx | hx
        · subst hx; exact hnew
        · exact h x hx
  | deliver j idx =>
    simp only [GCluster.step]
    cases hn : g.nodes[j]? with
    | none => exact h
    | some nd =>
      cases hm : g.sent[idx]? with
      | none => exact h
      | some m =>
        simp only
        split
        · exact h
        · rename_i hne
          have hnd : GInv nd := h nd (List.mem_of_getElem? hn)
          have hu : unsupported nd (.deliver m.key m.val) = none := by
            simp only [gunsupported, hn, hm, hne, if_false] at hs
            exact hs
          intro x hx
          rcases Cluster.mem_set hx with hx | hx
          · subst hx; exact ginv_deliver hnd _ _ hu
          · exact h x hx

/-- one supported step of the glue cluster is zero or one step of the layer-1 cluster -/
theorem proj_step {g : GCluster} (e : GEv) (hs : gunsupported g e = none) :
    ∃ evs : List Ev, (g.step e).proj = g.proj.run evs := by
  cases e with
  | deliver j idx => exact ⟨[.deliver j idx], proj_deliver g j idx⟩
  | client i c =>
    cases hn : g.nodes[i]? with
    | none => exact ⟨[], by simp [GCluster.step, hn, Cluster.run]⟩
    | some nd =>
      rcases client_reclop nd c (unsupported_of_g hn hs).2 with hl | ⟨op, d, hst, hd⟩
      · simp only [Prod.mk.injEq] at hl
        exact ⟨[], by rw [proj_client_none hn hl.1 hl.2]; rfl⟩
      · exact ⟨[.loc i op], proj_client_some hn hst hd⟩

theorem run_proj (hist : List GEv) : ∀ (g : GCluster), AllInv g → GSupported g hist →
    AllInv (g.run hist) ∧ ∃ evs : List Ev, (g.run hist).proj = g.proj.run evs := by
  induction hist with
  | nil => intro g h _; exact ⟨h, [], rfl⟩
  | cons e hist ih =>
    intro g h hs
    obtain ⟨hall, evs2, h2⟩ := ih (g.step e) (allinv_step h e hs.1) hs.2
    obtain ⟨evs1, h1⟩ := proj_step e hs.1
    refine ⟨hall, evs1 ++ evs2, ?_⟩
    simp only [GCluster.run, List.foldl_cons] at h2 ⊢
    rw [h2, h1]
    simp only [Cluster.run, List.foldl_append]
end RedisVerif.Glue
