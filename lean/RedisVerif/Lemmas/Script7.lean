import RedisVerif.Model.Script7
import RedisVerif.Lemmas.RedisLocal

/-!
  Locality composes: a Lua script (`Redis.Prog`: the tree of its `redis.call`s) all of whose calls
  name keys of `K` is local on `K` — it preserves canonical form, leaves every other key alone, and
  its return value and the new entries of `K` are functions of the old entries of `K`.
-/
namespace RedisVerif
namespace Redis
open NMap

theorem LocalOn.weaken {K K' : List Nat} {f : State → State × Reply} (h : LocalOn K f)
    (hsub : ∀ x ∈ K, x ∈ K') : LocalOn K' f := by
  refine ⟨h.wf, ?_, ?_⟩
  · intro s k' hs hk'
    exact h.frame s k' hs (fun hm => hk' (hsub k' hm))
  · intro s s' hs hs' hag
    obtain ⟨e1, e2⟩ := h.loc s s' hs hs' (fun k hk => hag k (hsub k hk))
    refine ⟨e1, ?_⟩
    intro k hk
    by_cases hm : k ∈ K
    · exact e2 k hm
    · rw [h.frame s k hs hm, h.frame s' k hs' hm]; exact hag k hk

theorem LocalOn.bind {K : List Nat} {f : State → State × Reply} {g : Reply → State → State × Reply}
    (hf : LocalOn K f) (hg : ∀ r, LocalOn K (g r)) : LocalOn K (fun s => g (f s).2 (f s).1) := by
  refine ⟨fun s hs => (hg _).wf _ (hf.wf s hs), ?_, ?_⟩
  · intro s k' hs hk'
    show get (g (f s).2 (f s).1).1 k' = _
    rw [(hg _).frame _ k' (hf.wf s hs) hk', hf.frame s k' hs hk']
  · intro s s' hs hs' hag
    obtain ⟨e1, e2⟩ := hf.loc s s' hs hs' hag
    show (g (f s).2 (f s).1).2 = (g (f s').2 (f s').1).2 ∧ _
    rw [e1]
    exact (hg _).loc _ _ (hf.wf s hs) (hf.wf s' hs') e2

/-- **a script is local on the keys its calls name** -/
theorem prog_localOn (now : Nat) {K : List Nat} {p : Prog} (h : ProgKeys K p) :
    LocalOn K (fun s => runProg s now p) := by
  induction h with
  | ret r => exact ⟨fun s hs => hs, fun _ _ _ _ => rfl, fun s s' _ _ hag => ⟨rfl, hag⟩⟩
  | call c k Kc hc hsub _ ih =>
    have hf : LocalOn K (fun s => exec s now c) := (exec_localOn now c Kc hc).weaken hsub
    exact LocalOn.bind (g := fun r s => runProg s now (k r)) hf ih

end Redis
end RedisVerif

