import RedisVerif.Lemmas.OuterUnique

/-!
The two uniqueness invariants (`RInv.uniq`: a (key, slot, stamp) triple identifies one register;
`OInv.func`: per key an outer stamp identifies one kind) over executions WITH crashes.

A crashed node comes back empty (`Cluster.restart`: Lamport clock 0) and gets its history back as
ordinary deliveries — its own old deltas from WAL / segments (`apply_recovered_state(None, ..)` =
`apply_remote_deltas`), from peers, from anti-entropy.  While it has not got all of its OWN deltas
back its clock may be below stamps it issued before the crash: `RInv.own` / `OInv.own` / `OInv.cur`
do not hold for it.  They are replaced by three facts that survive a restart,

* `rdom` / `pdom`: every register / outer pair stamped by replica `j + 1` is covered by (is the pair
  of) a delta ISSUED by node `j`,
* `logclk`: a node's clock covers the outer stamp of every delta it has absorbed since its last
  restart, and a delta stamped with exactly the current clock value has the kind the node stores,

from which the three are re-derived for every node that has all its own deltas back
(`Recovered`), which is what a local write needs.  The hypothesis on the history is C08's
limitation made explicit and decidable: `RecoversFirst` — no node writes between a crash and having
re-absorbed every delta it issued before (what the binaries do: recovery precedes serving; what C09
/ C11 / C12 supply for acknowledged-durable writes).
-/
namespace RedisVerif
namespace Cluster

/-- node `i` holds (has absorbed since its last restart) every delta it ever issued -/
def Recovered (c : Cluster) (i : Nat) : Prop :=
  ∀ m ∈ c.sent, m.origin = i → (⟨i, m.key, m.val⟩ : Absorbed) ∈ c.log

instance (c : Cluster) (i : Nat) : Decidable (Recovered c i) := by unfold Recovered; infer_instance

structure XInv (c : Cluster) : Prop where
  rids : ∀ (i : Nat) (s : Shard), c.nodes[i]? = some s → s.rid = i + 1 ∧ s.clock.rid = s.rid
  wf : ∀ s ∈ c.nodes, s.NodeWF ∧ s.Inv
  sent_wf : ∀ m ∈ c.sent, m.val.WF ∧ m.val.Dominated
  /-- same key, slot and stamp ⇒ same register -/
  uniq : ∀ a b, InCluster c a → InCluster c b → a.1 = b.1 → a.2.1 = b.2.1 →
    a.2.2.ts = b.2.2.ts → a.2.2 = b.2.2
  /-- a register stamped by replica `j + 1` is covered by a delta node `j` issued -/
  rdom : ∀ a, InCluster c a → ∃ m ∈ c.sent, m.origin + 1 = a.2.2.ts.rid ∧
    a.2.2.ts.time ≤ m.val.ts.time
  /-- a node's clock covers what it has absorbed; at equality the stored kind is the delta's -/
  logclk : ∀ a ∈ c.log, ∀ s, c.nodes[a.node]? = some s → a.val.ts.time ≤ s.clock.time ∧
    (a.val.ts = s.clock → ∃ w, NMap.get s.keys a.key = some w ∧ w.crdt.kind = a.val.crdt.kind)
  stored : ∀ (i : Nat) (s : Shard), c.nodes[i]? = some s → ∀ k v, NMap.get s.keys k = some v →
    SentPair c k (v.ts, v.crdt.kind)
  func : ∀ k p q, SentPair c k p → SentPair c k q → p.1 = q.1 → p.2 = q.2
  /-- an outer pair stamped by replica `j + 1` is the pair of a delta node `j` issued for that key -/
  pdom : ∀ k p, SentPair c k p → ∃ m ∈ c.sent, m.origin + 1 = p.1.rid ∧ m.key = k ∧
    (m.val.ts, m.val.crdt.kind) = p

/-! ### what a recovered node knows -/

theorem XInv.own_reg {c : Cluster} (h : XInv c) {i : Nat} {s : Shard} (hs : c.nodes[i]? = some s)
    (hrec : Recovered c i) {a : Reg3} (ha : InCluster c a) (hrid : a.2.2.ts.rid = s.rid) :
    a.2.2.ts.time ≤ s.clock.time := by
  obtain ⟨m, hm, ho, hle⟩ := h.rdom a ha
  have hoi : m.origin = i := by have := (h.rids i s hs).1; omega
  have hl := hrec m hm hoi
  have := (h.logclk _ hl s hs).1
  simp only at this
  omega

theorem XInv.own_pair {c : Cluster} (h : XInv c) {i : Nat} {s : Shard} (hs : c.nodes[i]? = some s)
    (hrec : Recovered c i) {k : Nat} {p : Stamp × Nat} (hp : SentPair c k p)
    (hrid : p.1.rid = s.rid) : p.1.time ≤ s.clock.time := by
  obtain ⟨m, hm, ho, _, hpm⟩ := h.pdom k p hp
  have hoi : m.origin = i := by have := (h.rids i s hs).1; omega
  have hl := hrec m hm hoi
  have := (h.logclk _ hl s hs).1
  simp only at this
  rw [← hpm]
  exact this

theorem XInv.cur {c : Cluster} (h : XInv c) {i : Nat} {s : Shard} (hs : c.nodes[i]? = some s)
    (hrec : Recovered c i) {k : Nat} {p : Stamp × Nat} (hp : SentPair c k p)
    (hclk : p.1 = s.clock) : ∃ w, NMap.get s.keys k = some w ∧ w.crdt.kind = p.2 := by
  obtain ⟨m, hm, ho, hk, hpm⟩ := h.pdom k p hp
  have hoi : m.origin = i := by
    have := (h.rids i s hs)
    rw [hclk, this.2, this.1] at ho
    omega
  have hl := hrec m hm hoi
  have := (h.logclk _ hl s hs).2
  simp only at this
  have hts : m.val.ts = s.clock := by rw [← hclk, ← hpm]
  obtain ⟨w, hw1, hw2⟩ := this hts
  rw [hk] at hw1
  exact ⟨w, hw1, by rw [hw2, ← hpm]⟩

/-! ### the invariant holds initially and is preserved -/

theorem XInv_init (n : Nat) (causal : Bool) : XInv (init n causal) where
  rids := (RInv_init n causal).rids
  wf := (RInv_init n causal).wf
  sent_wf := (RInv_init n causal).sent_wf
  uniq := (RInv_init n causal).uniq
  rdom := by
    intro a ha
    rcases ha with ⟨s, hs, ha⟩ | ha
    · simp only [init, List.mem_map, List.mem_range] at hs
      obtain ⟨i, _, rfl⟩ := hs
      simp [shardRegs, Shard.init] at ha
    · simp [sentRegs, init] at ha
  logclk := by intro a ha; simp [init] at ha
  stored := (OInv_init n causal).stored
  func := (OInv_init n causal).func
  pdom := by intro k p hp; obtain ⟨m, hm, _⟩ := hp; simp [init] at hm

theorem XInv_restart {c : Cluster} (h : XInv c) (i : Nat) : XInv (c.restart i) := by
  cases hs : c.nodes[i]? with
  | none => simp only [restart, hs]; exact h
  | some s =>
    have hilt : i < c.nodes.length := (List.getElem?_eq_some_iff.mp hs).1
    have hstep : c.restart i =
        Cluster.mk (c.nodes.set i (Shard.init s.rid s.causal)) c.sent
          (c.log.filter (fun a => a.node ≠ i)) := by
      simp only [restart, hs]
    rw [hstep]
    have hold : ∀ a, InCluster (Cluster.mk (c.nodes.set i (Shard.init s.rid s.causal)) c.sent
          (c.log.filter (fun a => a.node ≠ i))) a → InCluster c a := by
      intro a ha
      rcases ha with ⟨s', hs', ha⟩ | ha
      · rcases mem_set hs' with h1 | h1
        · subst h1; simp [shardRegs, Shard.init] at ha
        · exact Or.inl ⟨s', h1, ha⟩
      · exact Or.inr ha
    refine ⟨?_, ?_, h.sent_wf, ?_, ?_, ?_, ?_, h.func, h.pdom⟩
    · intro i' s' hs'
      by_cases hii : i' = i
      · subst hii
        rw [List.getElem?_set_self hilt] at hs'
        cases hs'
        have := h.rids i' s hs
        simp [Shard.init, this.1]
      · rw [List.getElem?_set_ne (Ne.symm hii)] at hs'
        exact h.rids i' s' hs'
    · intro s' hs'
      rcases mem_set hs' with h1 | h1
      · subst h1
        exact ⟨⟨NMap.wf_nil, fun p hp => by cases hp⟩, Shard.inv_init _ _⟩
      · exact h.wf s' h1
    · intro a b ha hb
      exact h.uniq a b (hold a ha) (hold b hb)
    · intro a ha
      exact h.rdom a (hold a ha)
    · intro a ha s' hs'
      have ha' := List.mem_filter.mp ha
      have hne : a.node ≠ i := by simpa using ha'.2
      rw [List.getElem?_set_ne (Ne.symm hne)] at hs'
      exact h.logclk a ha'.1 s' hs'
    · intro i' s' hs' k v hg
      by_cases hii : i' = i
      · subst hii
        rw [List.getElem?_set_self hilt] at hs'
        cases hs'
        simp [Shard.init] at hg
      · rw [List.getElem?_set_ne (Ne.symm hii)] at hs'
        exact h.stored i' s' hs' k v hg

theorem XInv_step_deliver {c : Cluster} (h : XInv c) (j idx : Nat) :
    XInv (c.step (.deliver j idx)) := by
  cases hs : c.nodes[j]? with
  | none => simp only [step, hs]; exact h
  | some s =>
    cases hm : c.sent[idx]? with
    | none => simp only [step, hs, hm]; exact h
    | some m =>
      have hstep : c.step (.deliver j idx) =
          { c with
            nodes := c.nodes.set j (Shard.applyRemote s m.key m.val)
            log := c.log ++ [⟨j, m.key, m.val⟩] } := by
        simp only [step, hs, hm]
      rw [hstep]
      have hsmem : s ∈ c.nodes := List.mem_of_getElem? hs
      have hmmem : m ∈ c.sent := List.mem_of_getElem? hm
      have ⟨hnwf, hinv⟩ := h.wf s hsmem
      have ⟨hmw, hmd⟩ := h.sent_wf m hmmem
      have hjlt : j < c.nodes.length := (List.getElem?_eq_some_iff.mp hs).1
      have hold : ∀ a, InCluster ({ c with
            nodes := c.nodes.set j (Shard.applyRemote s m.key m.val)
            log := c.log ++ [⟨j, m.key, m.val⟩] } : Cluster) a → InCluster c a := by
        intro a ha
        rcases ha with ⟨s', hs', ha⟩ | ha
        · rcases mem_set hs' with h1 | h1
          · subst h1
            rcases remote_shard_regs s m.key m.val hnwf hmw hinv.1 a ha with h2 | h2
            · exact Or.inl ⟨s, hsmem, h2⟩
            · right
              simp only [sentRegs, List.mem_flatMap]
              exact ⟨m, hmmem, h2⟩
          · exact Or.inl ⟨s', h1, ha⟩
        · exact Or.inr ha
      have hclk : (Shard.applyRemote s m.key m.val).clock.time =
          Max.max s.clock.time m.val.ts.time + 1 := by
        simp [Shard.applyRemote]
      refine ⟨?_, ?_, h.sent_wf, ?_, ?_, ?_, ?_, h.func, h.pdom⟩
      · intro i s' hs'
        by_cases hij : i = j
        · subst hij
          rw [List.getElem?_set_self hjlt] at hs'
          cases hs'
          have := h.rids i s hs
          simp [Shard.applyRemote, this.1, this.2]
        · rw [List.getElem?_set_ne (Ne.symm hij)] at hs'
          exact h.rids i s' hs'
      · intro s' hs'
        rcases mem_set hs' with h1 | h1
        · subst h1
          exact ⟨Shard.nodewf_remote s m.key m.val hnwf hmw, C08.inv_remote s m.key m.val hinv hmd⟩
        · exact h.wf s' h1
      · intro a b ha hb
        exact h.uniq a b (hold a ha) (hold b hb)
      · intro a ha
        exact h.rdom a (hold a ha)
      · intro a ha s' hs'
        rcases List.mem_append.mp ha with h1 | h1
        · by_cases haj : a.node = j
          · rw [haj, List.getElem?_set_self hjlt] at hs'
            cases hs'
            have := (h.logclk a h1 s (by rw [haj]; exact hs)).1
            have hmx := Nat.le_max_left s.clock.time m.val.ts.time
            refine ⟨by omega, ?_⟩
            intro heq
            exfalso
            have : a.val.ts.time = (Shard.applyRemote s m.key m.val).clock.time := by rw [heq]
            omega
          · rw [List.getElem?_set_ne (Ne.symm haj)] at hs'
            exact h.logclk a h1 s' hs'
        · simp only [List.mem_singleton] at h1
          subst h1
          simp only at hs' ⊢
          rw [List.getElem?_set_self hjlt] at hs'
          cases hs'
          have hmx := Nat.le_max_right s.clock.time m.val.ts.time
          refine ⟨by omega, ?_⟩
          intro heq
          exfalso
          have : m.val.ts.time = (Shard.applyRemote s m.key m.val).clock.time := by rw [heq]
          omega
      · intro i s' hs' k v hg
        have hsp : ∀ k p, SentPair ({ c with
              nodes := c.nodes.set j (Shard.applyRemote s m.key m.val)
              log := c.log ++ [⟨j, m.key, m.val⟩] } : Cluster) k p ↔ SentPair c k p :=
          fun _ _ => Iff.rfl
        rw [hsp]
        by_cases hij : i = j
        · subst hij
          rw [List.getElem?_set_self hjlt] at hs'
          cases hs'
          simp only [Shard.applyRemote] at hg
          rw [NMap.get_insert] at hg
          by_cases hk : k = m.key
          · simp only [hk, if_true] at hg
            have hv := Option.some.inj hg
            subst hv
            rw [hk]
            cases hl : NMap.get s.keys m.key with
            | none => exact ⟨m, hmmem, rfl, rfl⟩
            | some l =>
              simp only
              rcases RV.merge_pair l m.val with h1 | h1
              · rw [h1]; exact h.stored i s hs m.key l hl
              · rw [h1]; exact ⟨m, hmmem, rfl, rfl⟩
          · simp only [hk, if_false] at hg
            exact h.stored i s hs k v hg
        · rw [List.getElem?_set_ne (Ne.symm hij)] at hs'
          exact h.stored i s' hs' k v hg

theorem recovered_other {c : Cluster} {i i' : Nat} (hne : i' ≠ i) (m0 : Msg) (a0 : Absorbed)
    (nodes' : List Shard) (ho : m0.origin = i) (ha : a0.node = i)
    (h : Recovered (Cluster.mk nodes' (c.sent ++ [m0]) (c.log ++ [a0])) i') : Recovered c i' := by
  intro m hm hoi
  have := h m (List.mem_append_left _ hm) hoi
  rcases List.mem_append.mp this with h1 | h1
  · exact h1
  · simp only [List.mem_singleton] at h1
    exfalso
    have : a0.node = i' := by rw [← h1]
    omega

theorem XInv_step_loc {c : Cluster} (h : XInv c) (i : Nat) (op : LOp) (hv : op.Valid = true)
    (hrec : Recovered c i) : XInv (c.step (.loc i op)) := by
  cases hs : c.nodes[i]? with
  | none => simp only [step, hs]; exact h
  | some s =>
    have hsmem : s ∈ c.nodes := List.mem_of_getElem? hs
    have ⟨hnwf, hinv⟩ := h.wf s hsmem
    have hilt : i < c.nodes.length := (List.getElem?_eq_some_iff.mp hs).1
    have hrid := h.rids i s hs
    have hinv' : (Shard.step s op.toOp).1.Inv :=
      C08.inv_step s op.toOp hinv (by cases op <;> trivial)
    have hnwf' : (Shard.step s op.toOp).1.NodeWF := Shard.nodewf_step s op hnwf
    have hmono := C08.clock_monotone s op.toOp
    have hfresh := local_shard_regs s op hinv'.1
    cases hd : (Shard.step s op.toOp).2 with
    | none =>
      have hstep : c.step (.loc i op) =
          Cluster.mk (c.nodes.set i (Shard.step s op.toOp).1) c.sent c.log := by
        simp only [step, hs, hd]
      rw [hstep, Shard.local_none s op hd]
      have : c.nodes.set i s = c.nodes := by
        apply List.ext_getElem?
        intro n
        by_cases hn : n = i
        · subst hn; rw [List.getElem?_set_self hilt, hs]
        · rw [List.getElem?_set_ne (Ne.symm hn)]
      rw [this]
      exact h
    | some d =>
      have hstep : c.step (.loc i op) =
          Cluster.mk (c.nodes.set i (Shard.step s op.toOp).1) (c.sent ++ [⟨i, op.key, d⟩])
            (c.log ++ [⟨i, op.key, d⟩]) := by
        simp only [step, hs, hd]
      rw [hstep]
      have hget := Shard.local_get s op d hd
      have hdmem := NMap.mem_of_get hget
      have hout := Shard.local_outer s op d hv hd
      -- d's outer stamp is covered by the new clock
      have hdle : d.ts.time ≤ (Shard.step s op.toOp).1.clock.time := (hinv'.2 _ hdmem).1
      -- the clock did not move unless the delta is stamped with the new clock value
      have hsame : ¬ (d.ts = (Shard.step s op.toOp).1.clock ∧ s.clock.time < d.ts.time) →
          (Shard.step s op.toOp).1.clock = s.clock := by
        intro hn
        rcases hout with ⟨_, h2⟩ | hB | ⟨_, h2, _⟩
        · exact h2
        · exact absurd hB hn
        · exact h2
      -- registers of the new cluster
      have hcls : ∀ a, InCluster (Cluster.mk (c.nodes.set i (Shard.step s op.toOp).1)
            (c.sent ++ [⟨i, op.key, d⟩]) (c.log ++ [⟨i, op.key, d⟩])) a →
          InCluster c a ∨ (a ∈ shardRegs (Shard.step s op.toOp).1 ∧
            Fresh s.clock (Shard.step s op.toOp).1.clock a.2.2) := by
        intro a ha
        have hnew : a ∈ shardRegs (Shard.step s op.toOp).1 →
            InCluster c a ∨ (a ∈ shardRegs (Shard.step s op.toOp).1 ∧
              Fresh s.clock (Shard.step s op.toOp).1.clock a.2.2) := by
          intro h1
          rcases hfresh a h1 with h2 | h2
          · exact Or.inl (Or.inl ⟨s, hsmem, h2⟩)
          · exact Or.inr ⟨h1, h2⟩
        rcases ha with ⟨s', hs', ha⟩ | ha
        · rcases mem_set hs' with h1 | h1
          · subst h1; exact hnew ha
          · exact Or.inl (Or.inl ⟨s', h1, ha⟩)
        · simp only [sentRegs, List.flatMap_append, List.mem_append, List.flatMap_cons,
            List.flatMap_nil, List.append_nil] at ha
          rcases ha with h1 | h1
          · exact Or.inl (Or.inr h1)
          · apply hnew
            have := mem_valRegs.mp h1
            apply mem_shardRegs.mpr
            exact ⟨d, by rw [this.1]; exact hdmem, this.2⟩
      -- pairs of the new cluster
      have hpcls : ∀ k p, SentPair (Cluster.mk (c.nodes.set i (Shard.step s op.toOp).1)
            (c.sent ++ [⟨i, op.key, d⟩]) (c.log ++ [⟨i, op.key, d⟩])) k p →
          SentPair c k p ∨ (k = op.key ∧ p = (d.ts, d.crdt.kind)) := by
        intro k p hp
        obtain ⟨m, hm, hk, hpm⟩ := hp
        rcases List.mem_append.mp hm with h1 | h1
        · exact Or.inl ⟨m, h1, hk, hpm⟩
        · simp only [List.mem_singleton] at h1
          subst h1
          exact Or.inr ⟨hk.symm, hpm.symm⟩
      have hpold : ∀ k p, SentPair c k p → SentPair (Cluster.mk (c.nodes.set i (Shard.step s op.toOp).1)
            (c.sent ++ [⟨i, op.key, d⟩]) (c.log ++ [⟨i, op.key, d⟩])) k p := by
        intro k p hp
        obtain ⟨m, hm, hk, hpm⟩ := hp
        exact ⟨m, List.mem_append_left _ hm, hk, hpm⟩
      have hpnew : SentPair (Cluster.mk (c.nodes.set i (Shard.step s op.toOp).1)
            (c.sent ++ [⟨i, op.key, d⟩]) (c.log ++ [⟨i, op.key, d⟩])) op.key (d.ts, d.crdt.kind) :=
        ⟨⟨i, op.key, d⟩, List.mem_append_right _ (List.mem_singleton.mpr rfl), rfl, rfl⟩
      have hpfresh : ∀ q, SentPair c op.key q → q.1 = d.ts → q.2 = d.crdt.kind := by
        intro q hq hts
        rcases hout with ⟨hA, _⟩ | ⟨hB1, hB2⟩ | ⟨hC1, _, old, hC3, hC4⟩
        · exact h.func op.key q (d.ts, d.crdt.kind) hq (h.stored i s hs op.key d hA) hts
        · exfalso
          have hq1 : q.1.rid = s.rid := by rw [hts, hB1, hmono.2, hrid.2]
          have := h.own_pair hs hrec hq hq1
          rw [hts] at this
          omega
        · obtain ⟨w, hw1, hw2⟩ := h.cur hs hrec hq (by rw [hts, hC1])
          rw [hC3] at hw1
          cases hw1
          rw [← hw2, hC4]
      refine ⟨?_, ?_, ?_, ?_, ?_, ?_, ?_, ?_, ?_⟩
      · -- rids
        intro i' s' hs'
        by_cases hii : i' = i
        · subst hii
          rw [List.getElem?_set_self hilt] at hs'
          cases hs'
          rw [Shard.rid_step, hmono.2]
          exact hrid
        · rw [List.getElem?_set_ne (Ne.symm hii)] at hs'
          exact h.rids i' s' hs'
      · -- wf
        intro s' hs'
        rcases mem_set hs' with h1 | h1
        · subst h1; exact ⟨hnwf', hinv'⟩
        · exact h.wf s' h1
      · -- sent_wf
        intro m hm
        rcases List.mem_append.mp hm with h1 | h1
        · exact h.sent_wf m h1
        · simp only [List.mem_singleton] at h1
          subst h1
          exact ⟨hnwf'.2 _ hdmem, (hinv'.2 _ hdmem).2⟩
      · -- uniq
        intro a b ha hb hk hsl hts
        rcases hcls a ha with ha1 | ⟨ha1, ha2⟩ <;> rcases hcls b hb with hb1 | ⟨hb1, hb2⟩
        · exact h.uniq a b ha1 hb1 hk hsl hts
        · exfalso
          have := h.own_reg hs hrec ha1 (by rw [hts, hb2.1, hrid.2])
          have h3 := hb2.2.1
          rw [hts] at this; omega
        · exfalso
          have := h.own_reg hs hrec hb1 (by rw [← hts, ha2.1, hrid.2])
          have h3 := ha2.2.1
          rw [← hts] at this; omega
        · exact shardRegs_functional hnwf' hinv'.1 ha1 hb1 hk hsl
      · -- rdom
        intro a ha
        rcases hcls a ha with h1 | ⟨_, h2⟩
        · obtain ⟨m, hm, ho, hle⟩ := h.rdom a h1
          exact ⟨m, List.mem_append_left _ hm, ho, hle⟩
        · refine ⟨⟨i, op.key, d⟩, List.mem_append_right _ (List.mem_singleton.mpr rfl), ?_, ?_⟩
          · simp only; rw [h2.1, hrid.2, hrid.1]
          · simp only
            by_cases hB : d.ts = (Shard.step s op.toOp).1.clock ∧ s.clock.time < d.ts.time
            · rw [hB.1]; exact h2.2.2
            · exfalso
              have := hsame hB
              have h3 := h2.2.1
              have h4 := h2.2.2
              rw [this] at h4
              omega
      · -- logclk
        intro a ha s' hs'
        have hcase : ∀ (a : Absorbed), a ∈ c.log → a.node = i →
            a.val.ts.time ≤ (Shard.step s op.toOp).1.clock.time ∧
            (a.val.ts = (Shard.step s op.toOp).1.clock →
              ∃ w, NMap.get (Shard.step s op.toOp).1.keys a.key = some w ∧
                w.crdt.kind = a.val.crdt.kind) := by
          intro a ha hai
          have hI := h.logclk a ha s (by rw [hai]; exact hs)
          refine ⟨Nat.le_trans hI.1 hmono.1, ?_⟩
          intro heq
          have hB : ¬ (d.ts = (Shard.step s op.toOp).1.clock ∧ s.clock.time < d.ts.time) := by
            intro hB
            have : a.val.ts.time = (Shard.step s op.toOp).1.clock.time := by rw [heq]
            rw [← hB.1] at this
            have := hI.1
            omega
          have hclk := hsame hB
          obtain ⟨w, hw1, hw2⟩ := hI.2 (by rw [heq, hclk])
          by_cases hk : a.key = op.key
          · refine ⟨d, by rw [hk]; exact hget, ?_⟩
            rw [hk] at hw1
            rcases hout with ⟨hA, _⟩ | hB' | ⟨_, _, old, hC3, hC4⟩
            · rw [hA] at hw1; cases hw1; exact hw2
            · exact absurd hB' hB
            · rw [hC3] at hw1; cases hw1; rw [← hC4]; exact hw2
          · rw [Shard.keys_step_other s op a.key hk]
            exact ⟨w, hw1, hw2⟩
        rcases List.mem_append.mp ha with h1 | h1
        · by_cases hai : a.node = i
          · rw [hai, List.getElem?_set_self hilt] at hs'
            cases hs'
            exact hcase a h1 hai
          · rw [List.getElem?_set_ne (Ne.symm hai)] at hs'
            exact h.logclk a h1 s' hs'
        · simp only [List.mem_singleton] at h1
          subst h1
          simp only at hs' ⊢
          rw [List.getElem?_set_self hilt] at hs'
          cases hs'
          exact ⟨hdle, fun _ => ⟨d, hget, rfl⟩⟩
      · -- stored
        intro i' s' hs' k v hg
        by_cases hii : i' = i
        · subst hii
          rw [List.getElem?_set_self hilt] at hs'
          cases hs'
          by_cases hk : k = op.key
          · subst hk
            rw [hget] at hg
            cases hg
            exact hpnew
          · rw [Shard.keys_step_other s op k hk] at hg
            exact hpold k _ (h.stored i' s hs k v hg)
        · rw [List.getElem?_set_ne (Ne.symm hii)] at hs'
          exact hpold k _ (h.stored i' s' hs' k v hg)
      · -- func
        intro k p q hp hq hts
        rcases hpcls k p hp with hp1 | ⟨hk1, hp1⟩ <;> rcases hpcls k q hq with hq1 | ⟨hk2, hq1⟩
        · exact h.func k p q hp1 hq1 hts
        · subst hk2
          rw [hq1] at hts ⊢
          exact hpfresh p hp1 hts
        · subst hk1
          rw [hp1] at hts ⊢
          exact (hpfresh q hq1 hts.symm).symm
        · rw [hp1, hq1]
      · -- pdom
        intro k p hp
        rcases hpcls k p hp with hp1 | ⟨hk1, hp1⟩
        · obtain ⟨m, hm, ho, hk, hpm⟩ := h.pdom k p hp1
          exact ⟨m, List.mem_append_left _ hm, ho, hk, hpm⟩
        · rcases hout with ⟨hA, _⟩ | ⟨hB1, _⟩ | ⟨hC1, _, _⟩
          · have hsp := h.stored i s hs op.key d hA
            obtain ⟨m, hm, ho, hk, hpm⟩ := h.pdom op.key _ hsp
            exact ⟨m, List.mem_append_left _ hm, by rw [hp1]; exact ho, by rw [hk1]; exact hk,
              by rw [hp1]; exact hpm⟩
          · refine ⟨⟨i, op.key, d⟩, List.mem_append_right _ (List.mem_singleton.mpr rfl), ?_,
              hk1.symm, hp1.symm⟩
            rw [hp1]; simp only; rw [hB1, hmono.2, hrid.2, hrid.1]
          · refine ⟨⟨i, op.key, d⟩, List.mem_append_right _ (List.mem_singleton.mpr rfl), ?_,
              hk1.symm, hp1.symm⟩
            rw [hp1]; simp only; rw [hC1, hrid.2, hrid.1]

/-- recovery first: every local write of node `i` happens in a state in which `i` holds all the
    deltas it ever issued (decidable on the history), and obeys the precondition of
    `record_hash_write` -/
def RecoversFirst : Cluster → List REv → Prop
  | _, [] => True
  | c, e :: rest =>
    (match e with
     | .ev (.loc i op) => Recovered c i ∧ op.Valid = true
     | _ => True) ∧ RecoversFirst (c.stepR e) rest

instance decRecoversFirst : (c : Cluster) → (evs : List REv) → Decidable (RecoversFirst c evs)
  | _, [] => isTrue trivial
  | c, e :: rest =>
    have := decRecoversFirst (c.stepR e) rest
    match e with
    | .ev (.loc i op) => by unfold RecoversFirst; exact inferInstance
    | .ev (.deliver _ _) => by unfold RecoversFirst; exact inferInstance
    | .restart _ => by unfold RecoversFirst; exact inferInstance

theorem XInv_runR (c : Cluster) (evs : List REv) (h : XInv c) (hr : RecoversFirst c evs) :
    XInv (c.runR evs) := by
  induction evs generalizing c with
  | nil => exact h
  | cons e evs ih =>
    obtain ⟨h1, h2⟩ := hr
    apply ih (c.stepR e) _ h2
    cases e with
    | restart i => exact XInv_restart h i
    | ev e =>
      cases e with
      | loc i op => exact XInv_step_loc h i op h1.2 h1.1
      | deliver j idx => exact XInv_step_deliver h j idx

end Cluster
end RedisVerif
