import RedisVerif.Model.Resp

/-
  Helper lemmas about the RESP decoder model (M6): line-terminator search, consumed counts,
  stability of decided outcomes under extension of the input, absence of crashes under the
  sanity predicates, allocation bounds.  Everything is proved for the generic decoder `parseD c`
  under `Codec.Good c`, which both `codec1` and `codec2` satisfy.
-/
namespace RedisVerif.Resp

/-- the input is a buffer that exists: below 2^56 bytes (64 PiB; Rust slices hold at most
    `isize::MAX` = 2^63-1 bytes, `max_buffer_size` is 512 MB).  The margin below 2^63 keeps
    `start + len + 2` and `40 · (len / 3)` away from the `usize` / `isize` limits. -/
def Small (bs : Bytes) : Prop := bs.length < 72057594037927936

instance (bs : Bytes) : Decidable (Small bs) := by unfold Small; infer_instance

/-! ### line terminator search -/

theorem findCrlf1_bound : ∀ (bs : Bytes) (p : Nat), findCrlf1 bs = some p → p + 2 ≤ bs.length := by
  intro bs
  induction bs with
  | nil => intro p h; simp [findCrlf1] at h
  | cons b rest ih =>
    intro p h
    unfold findCrlf1 at h
    by_cases hb : b = 13
    · simp only [hb, if_true] at h
      cases rest with
      | nil => simp at h
      | cons c r =>
        by_cases hc : c = 10
        · simp [hc] at h; subst h; simp
        · simp [hc] at h
    · simp only [hb, if_false] at h
      cases hq : findCrlf1 rest with
      | none => simp [hq] at h
      | some q =>
        simp [hq] at h
        have := ih q hq
        subst h
        simp
        omega

theorem findCrlf1_stable : ∀ (a b : Bytes) (p : Nat), findCrlf1 a = some p → findCrlf1 (a ++ b) = some p := by
  intro a
  induction a with
  | nil => intro b p h; simp [findCrlf1] at h
  | cons x rest ih =>
    intro b p h
    unfold findCrlf1 at h
    simp only [List.cons_append]
    unfold findCrlf1
    by_cases hx : x = 13
    · simp only [hx, if_true] at h ⊢
      cases rest with
      | nil => simp at h
      | cons c r =>
        by_cases hc : c = 10
        · simp [hc] at h ⊢; exact h
        · simp [hc] at h
    · simp only [hx, if_false] at h ⊢
      cases hq : findCrlf1 rest with
      | none => simp [hq] at h
      | some q =>
        simp [hq] at h
        rw [ih b q hq]
        simp [h]

theorem findCrlf1_pos (t : Nat) (rest : Bytes) (p : Nat) (ht : t ≠ 13)
    (h : findCrlf1 (t :: rest) = some p) : 1 ≤ p := by
  unfold findCrlf1 at h
  simp only [ht, if_false] at h
  cases hq : findCrlf1 rest with
  | none => simp [hq] at h
  | some q => simp [hq] at h; omega

theorem findCrlf2_bound : ∀ (bs : Bytes) (p : Nat), findCrlf2 bs = some p → p + 2 ≤ bs.length := by
  intro bs
  induction bs with
  | nil => intro p h; simp [findCrlf2] at h
  | cons x rest ih =>
    intro p h
    cases rest with
    | nil => simp [findCrlf2] at h
    | cons y r =>
      unfold findCrlf2 at h
      by_cases hxy : x = 13 ∧ y = 10
      · simp only [hxy, and_self, if_true] at h
        simp at h; subst h; simp
      · simp only [hxy, if_false] at h
        cases hq : findCrlf2 (y :: r) with
        | none => simp [hq] at h
        | some q =>
          simp [hq] at h
          have := ih q hq
          subst h
          simp at this ⊢
          omega

theorem findCrlf2_stable : ∀ (a b : Bytes) (p : Nat), findCrlf2 a = some p → findCrlf2 (a ++ b) = some p := by
  intro a
  induction a with
  | nil => intro b p h; simp [findCrlf2] at h
  | cons x rest ih =>
    intro b p h
    cases rest with
    | nil => simp [findCrlf2] at h
    | cons y r =>
      unfold findCrlf2 at h
      simp only [List.cons_append]
      unfold findCrlf2
      by_cases hxy : x = 13 ∧ y = 10
      · simp only [hxy, and_self, if_true] at h ⊢
        exact h
      · simp only [hxy, if_false] at h ⊢
        cases hq : findCrlf2 (y :: r) with
        | none => simp [hq] at h
        | some q =>
          simp [hq] at h
          have := ih b q hq
          simp only [List.cons_append] at this
          rw [this]
          simp [h]

theorem findCrlf2_pos (t : Nat) (rest : Bytes) (p : Nat) (ht : t ≠ 13)
    (h : findCrlf2 (t :: rest) = some p) : 1 ≤ p := by
  cases rest with
  | nil => simp [findCrlf2] at h
  | cons y r =>
    unfold findCrlf2 at h
    have : ¬ (t = 13 ∧ y = 10) := fun hh => ht hh.1
    simp only [this, if_false] at h
    cases hq : findCrlf2 (y :: r) with
    | none => simp [hq] at h
    | some q => simp [hq] at h; omega

/-! ### from_utf8_lossy never grows a string by more than a factor 3 -/

theorem utf8Lossy_length (bs : Bytes) : (utf8Lossy bs).length ≤ 3 * bs.length := by
  fun_induction utf8Lossy bs <;> simp_all [fffd] <;> omega

/-- what the generic theorems need to know about a codec -/
structure Codec.Good (c : Codec) : Prop where
  bound : ∀ (bs : Bytes) (p : Nat), c.findCrlf bs = some p → p + 2 ≤ bs.length
  stable : ∀ (a b : Bytes) (p : Nat), c.findCrlf a = some p → c.findCrlf (a ++ b) = some p
  pos : ∀ (t : Nat) (rest : Bytes) (p : Nat), t ≠ 13 → c.findCrlf (t :: rest) = some p → 1 ≤ p
  strLen : ∀ s : Bytes, (c.str s).length ≤ 3 * s.length
  skip : ∀ (t : Nat) (rest : Bytes), t ≠ 13 → c.findCrlf (t :: rest) = (c.findCrlf rest).map (· + 1)
  noCR : ∀ (s rest : Bytes), 13 ∉ s → c.findCrlf (s ++ 13 :: 10 :: rest) = some s.length

theorem findCrlf1_skip (t : Nat) (rest : Bytes) (ht : t ≠ 13) :
    findCrlf1 (t :: rest) = (findCrlf1 rest).map (· + 1) := by
  rw [findCrlf1]; simp [ht]

theorem findCrlf2_skip (t : Nat) (rest : Bytes) (ht : t ≠ 13) :
    findCrlf2 (t :: rest) = (findCrlf2 rest).map (· + 1) := by
  cases rest with
  | nil => simp [findCrlf2]
  | cons y r => rw [findCrlf2]; simp [ht]

theorem findCrlf1_noCR : ∀ (s rest : Bytes), 13 ∉ s → findCrlf1 (s ++ 13 :: 10 :: rest) = some s.length := by
  intro s
  induction s with
  | nil => intro rest _; simp [findCrlf1]
  | cons x xs ih =>
    intro rest h
    simp at h
    simp only [List.cons_append]
    rw [findCrlf1_skip x _ (fun e => h.1 e.symm), ih rest h.2]
    simp

theorem findCrlf2_noCR : ∀ (s rest : Bytes), 13 ∉ s → findCrlf2 (s ++ 13 :: 10 :: rest) = some s.length := by
  intro s
  induction s with
  | nil => intro rest _; simp [findCrlf2]
  | cons x xs ih =>
    intro rest h
    simp at h
    simp only [List.cons_append]
    rw [findCrlf2_skip x _ (fun e => h.1 e.symm), ih rest h.2]
    simp

theorem codec1_good : codec1.Good where
  bound := findCrlf2_bound
  stable := findCrlf2_stable
  pos := findCrlf2_pos
  strLen := by intro s; simp [codec1]; omega
  skip := findCrlf2_skip
  noCR := findCrlf2_noCR

theorem codec1Pinned_good : codec1Pinned.Good where
  bound := findCrlf1_bound
  stable := findCrlf1_stable
  pos := findCrlf1_pos
  strLen := by intro s; simp [codec1Pinned]; omega
  skip := findCrlf1_skip
  noCR := findCrlf1_noCR

theorem codec2Pinned_good : codec2Pinned.Good where
  bound := findCrlf2_bound
  stable := findCrlf2_stable
  pos := findCrlf2_pos
  strLen := utf8Lossy_length
  skip := findCrlf2_skip
  noCR := findCrlf2_noCR

theorem codec2_good : codec2.Good where
  bound := findCrlf2_bound
  stable := findCrlf2_stable
  pos := findCrlf2_pos
  strLen := utf8Lossy_length
  skip := findCrlf2_skip
  noCR := findCrlf2_noCR

/-! ### consumed counts -/

/-- a successful decode consumed at least one byte and no more than there are -/
def ConsumedOK (r : Res) (bs : Bytes) : Prop :=
  ∀ v k, r.out = .ok v k → 1 ≤ k ∧ k ≤ bs.length

theorem Small.drop {bs : Bytes} (h : Small bs) (k : Nat) : Small (bs.drop k) := by
  unfold Small at *; simp; omega

theorem parseLine_consumed (c : Codec) (hc : c.Good) (mk : Bytes → Val) (bs : Bytes) :
    ConsumedOK (parseLine c mk bs) bs := by
  intro v k h
  unfold parseLine at h
  split at h
  · simp at h
  · rename_i pos hpos
    have := hc.bound bs pos hpos
    split at h
    · simp at h
    · simp at h; omega

theorem parseInt_consumed (c : Codec) (hc : c.Good) (bs : Bytes) :
    ConsumedOK (parseInt c bs) bs := by
  intro v k h
  unfold parseInt at h
  split at h
  · simp at h
  · rename_i pos hpos
    have := hc.bound bs pos hpos
    split at h
    · simp at h
    · split at h
      · simp at h
      · simp at h; omega

theorem parseBulk_consumed (c : Codec) (hc : c.Good) (bs : Bytes) (hs : Small bs) :
    ConsumedOK (parseBulk c bs) bs := by
  intro v k h
  unfold parseBulk at h
  split at h
  · simp at h
  · rename_i pos hpos
    have := hc.bound bs pos hpos
    split at h
    · simp at h
    · split at h
      · simp at h
      · split at h
        · simp at h; omega
        · split at h
          · simp at h
          · simp only at h
            split at h
            · simp at h
            · split at h
              · simp at h
              · simp at h
                unfold Small at hs
                unfold W at *
                omega

/-- the element loop stops only with a non-`ok` outcome -/
theorem elems_stop_not_ok (p : Bytes → Res) (ec : Bool) :
    ∀ (n : Nat) (rest : Bytes) (v : Val) (k : Nat) (a : List Nat),
      elems p ec n rest ≠ (.stop (.ok v k), a) := by
  intro n
  induction n with
  | zero => intro rest v k a h; simp [elems] at h
  | succ n ih =>
    intro rest v k a h
    unfold elems at h
    split at h
    · simp at h
    · simp only at h
      split at h
      · split at h
        · simp at h
        · split at h
          · simp at h
          · rename_i o a' he
            simp at h
            obtain ⟨h1, _⟩ := h
            subst h1
            exact ih _ _ _ _ he
      · rename_i hne
        simp at h
        obtain ⟨h1, _⟩ := h
        exact hne v k h1

theorem elems_consumed (p : Bytes → Res) (ec : Bool)
    (hp : ∀ rest, Small rest → ConsumedOK (p rest) rest) :
    ∀ (n : Nat) (rest : Bytes), Small rest → ∀ vs k a, elems p ec n rest = (.ok vs k, a) →
      k ≤ rest.length ∧ vs.length = n ∧ n ≤ k := by
  intro n
  induction n with
  | zero =>
    intro rest _ vs k a h
    simp [elems] at h
    obtain ⟨⟨h1, h2⟩, _⟩ := h
    subst h1 h2
    simp
  | succ n ih =>
    intro rest hs vs k a h
    unfold elems at h
    split at h
    · simp at h
    · simp only at h
      split at h
      · rename_i v k0 hk0
        have h0 := hp rest hs v k0 hk0
        split at h
        · simp at h
        · split at h
          · rename_i vs' k' a' he
            have := ih (rest.drop k0) (hs.drop k0) vs' k' a' he
            simp at h
            obtain ⟨⟨h1, h2⟩, _⟩ := h
            subst h1 h2
            simp at this ⊢
            omega
          · simp at h
      · simp at h

theorem parseArray_consumed (c : Codec) (hc : c.Good) (mem : Nat) (p : Bytes → Res)
    (hp : ∀ rest, Small rest → ConsumedOK (p rest) rest) (bs : Bytes) (hs : Small bs) :
    ConsumedOK (parseArray c mem p bs) bs := by
  intro v k h
  unfold parseArray at h
  split at h
  · simp at h
  · rename_i pos hpos
    have := hc.bound bs pos hpos
    split at h
    · simp at h
    · split at h
      · simp at h
      · split at h
        · simp at h; omega
        · split at h
          · simp at h
          · split at h
            · simp at h
            · split at h
              · simp at h
              · split at h
                · rename_i vs k' a he
                  have := elems_consumed p c.emptyCheck hp _ _ (hs.drop (pos + 2)) vs k' a he
                  simp at h this
                  omega
                · rename_i o a he
                  simp only at h
                  subst h
                  exact absurd he (elems_stop_not_ok p c.emptyCheck _ _ _ _ _)

theorem parseD_consumed (c : Codec) (hc : c.Good) (mem : Nat) :
    ∀ (d nest : Nat) (bs : Bytes), Small bs → ConsumedOK (parseD c mem d nest bs) bs := by
  intro d
  induction d with
  | zero => intro nest bs _ v k h; simp [parseD] at h
  | succ d ih =>
    intro nest bs hs
    cases bs with
    | nil => intro v k h; simp [parseD] at h
    | cons t rest =>
      unfold parseD
      split
      · exact parseLine_consumed c hc _ _
      · split
        · exact parseLine_consumed c hc _ _
        · split
          · exact parseInt_consumed c hc _
          · split
            · exact parseBulk_consumed c hc _ hs
            · split
              · split
                · intro v k h; simp at h
                · exact parseArray_consumed c hc mem _ (ih (nest + 1)) _ hs
              · intro v k h; simp at h

/-! ### decided outcomes are stable under extension of the input -/

/-- the decoder did not ask for more bytes -/
def Decided (r : Res) : Prop := r.out.isIncomplete = false

theorem Small.of_append {a b : Bytes} (h : Small (a ++ b)) : Small a := by
  unfold Small at *; simp at h; omega

theorem field_append (a b : Bytes) (pos : Nat) (h : pos ≤ a.length) :
    field (a ++ b) pos = field a pos := by
  unfold field
  rw [List.take_append_of_le_length h]

theorem parseLine_stable (c : Codec) (hc : c.Good) (mk : Bytes → Val) (a b : Bytes)
    (hd : Decided (parseLine c mk a)) : parseLine c mk (a ++ b) = parseLine c mk a := by
  unfold Decided at hd
  unfold parseLine at hd ⊢
  cases hpos : c.findCrlf a with
  | none => simp [hpos, Outcome.isIncomplete] at hd
  | some pos =>
    have hb := hc.bound a pos hpos
    have hf := field_append a b pos (by omega)
    simp only [hc.stable a b pos hpos, hf]

theorem parseInt_stable (c : Codec) (hc : c.Good) (a b : Bytes)
    (hd : Decided (parseInt c a)) : parseInt c (a ++ b) = parseInt c a := by
  unfold Decided at hd
  unfold parseInt at hd ⊢
  cases hpos : c.findCrlf a with
  | none => simp [hpos, Outcome.isIncomplete] at hd
  | some pos =>
    have hb := hc.bound a pos hpos
    have hf := field_append a b pos (by omega)
    simp only [hc.stable a b pos hpos, hf]

theorem parseBulk_stable_aux (a b : Bytes) (pos : Nat) (n : Int) (hb : pos + 2 ≤ a.length)
    (hs : Small (a ++ b))
    (hd : (if ((pos + 2 + asUsize n) % W + 2) % W > a.length then (⟨.incomplete .short, []⟩ : Res)
        else if pos + 2 > (pos + 2 + asUsize n) % W ∨ (pos + 2 + asUsize n) % W > a.length then
          ⟨.crash .sliceOOB, []⟩
        else ⟨.ok (.bulk ((a.take ((pos + 2 + asUsize n) % W)).drop (pos + 2))) (((pos + 2 + asUsize n) % W + 2) % W),
              [(pos + 2 + asUsize n) % W - (pos + 2)]⟩).out.isIncomplete = false) :
    (if ((pos + 2 + asUsize n) % W + 2) % W > (a ++ b).length then (⟨.incomplete .short, []⟩ : Res)
        else if pos + 2 > (pos + 2 + asUsize n) % W ∨ (pos + 2 + asUsize n) % W > (a ++ b).length then
          ⟨.crash .sliceOOB, []⟩
        else ⟨.ok (.bulk (((a ++ b).take ((pos + 2 + asUsize n) % W)).drop (pos + 2))) (((pos + 2 + asUsize n) % W + 2) % W),
              [(pos + 2 + asUsize n) % W - (pos + 2)]⟩) =
    (if ((pos + 2 + asUsize n) % W + 2) % W > a.length then (⟨.incomplete .short, []⟩ : Res)
        else if pos + 2 > (pos + 2 + asUsize n) % W ∨ (pos + 2 + asUsize n) % W > a.length then
          ⟨.crash .sliceOOB, []⟩
        else ⟨.ok (.bulk ((a.take ((pos + 2 + asUsize n) % W)).drop (pos + 2))) (((pos + 2 + asUsize n) % W + 2) % W),
              [(pos + 2 + asUsize n) % W - (pos + 2)]⟩) := by
  unfold Small at hs
  simp only [List.length_append] at hs ⊢
  generalize asUsize n = m at hd ⊢
  unfold W at *
  by_cases h2 : ((pos + 2 + m) % 18446744073709551616 + 2) % 18446744073709551616 > a.length
  · rw [if_pos h2] at hd
    simp [Outcome.isIncomplete] at hd
  · have h2' : ¬ (((pos + 2 + m) % 18446744073709551616 + 2) % 18446744073709551616 > a.length + b.length) := by omega
    simp only [h2, h2', if_false]
    by_cases h3 : pos + 2 > (pos + 2 + m) % 18446744073709551616 ∨ (pos + 2 + m) % 18446744073709551616 > a.length
    · have h3' : pos + 2 > (pos + 2 + m) % 18446744073709551616 ∨ (pos + 2 + m) % 18446744073709551616 > a.length + b.length := by
        omega
      simp [h3, h3']
    · have h3' : ¬ (pos + 2 > (pos + 2 + m) % 18446744073709551616 ∨ (pos + 2 + m) % 18446744073709551616 > a.length + b.length) := by
        omega
      simp only [h3, h3', if_false]
      rw [List.take_append_of_le_length (by omega)]

theorem parseBulk_stable (c : Codec) (hc : c.Good) (a b : Bytes) (hs : Small (a ++ b))
    (hd : Decided (parseBulk c a)) : parseBulk c (a ++ b) = parseBulk c a := by
  unfold Decided at hd
  unfold parseBulk at hd ⊢
  cases hpos : c.findCrlf a with
  | none => simp [hpos, Outcome.isIncomplete] at hd
  | some pos =>
    have hb := hc.bound a pos hpos
    have hfa := field_append a b pos (by omega)
    simp only [hc.stable a b pos hpos, hfa]
    simp only [hpos] at hd
    cases hf : field a pos with
    | none => rfl
    | some s =>
      simp only [hf] at hd ⊢
      cases hn : parseI64 s with
      | none => rfl
      | some n =>
        simp only [hn] at hd ⊢
        by_cases h1 : n = -1
        · simp [h1]
        · simp only [h1, if_false] at hd ⊢
          by_cases hneg : c.bulkNegCheck = true ∧ n < 0
          · simp [hneg]
          · simp only [hneg, if_false] at hd ⊢
            exact parseBulk_stable_aux a b pos n hb hs hd

/-- the element loop did not stop for lack of bytes -/
def ElemsDecided (e : ElemsOut × List Nat) : Prop :=
  match e.1 with
  | .stop o => o.isIncomplete = false
  | .ok _ _ => True

theorem elems_stable (p : Bytes → Res) (ec : Bool)
    (hc : ∀ rest, Small rest → ConsumedOK (p rest) rest)
    (hst : ∀ a b, Small (a ++ b) → Decided (p a) → (p (a ++ b)).out = (p a).out) :
    ∀ (n : Nat) (a b : Bytes), Small (a ++ b) → ElemsDecided (elems p ec n a) →
      (elems p ec n (a ++ b)).1 = (elems p ec n a).1 := by
  intro n
  induction n with
  | zero => intro a b _ _; simp [elems]
  | succ n ih =>
    intro a b hs hd
    unfold elems at hd ⊢
    by_cases h0 : ec = true ∧ a = []
    · simp [h0, ElemsDecided, Outcome.isIncomplete] at hd
    · have h0' : ¬ (ec = true ∧ a ++ b = []) := by
        intro hh
        apply h0
        refine ⟨hh.1, ?_⟩
        have := hh.2
        simp at this
        exact this.1
      simp only [h0, h0', if_false] at hd ⊢
      by_cases hpd : Decided (p a)
      · have ho := hst a b hs hpd
        simp only [ho]
        cases hout : (p a).out with
        | ok v k =>
          have hk := hc a hs.of_append v k hout
          simp only [hout] at hd ⊢
          have hk1 : ¬ (k > a.length ∧ n ≠ 0 ∧ ¬ ec = true) := by omega
          have hk2 : ¬ (k > (a ++ b).length ∧ n ≠ 0 ∧ ¬ ec = true) := by simp; omega
          simp only [hk1, hk2, if_false] at hd ⊢
          have hdrop : (a ++ b).drop k = a.drop k ++ b := List.drop_append_of_le_length hk.2
          rw [hdrop]
          have hs' : Small (a.drop k ++ b) := by
            unfold Small at *; simp at hs ⊢; omega
          have hd' : ElemsDecided (elems p ec n (a.drop k)) := by
            unfold ElemsDecided at hd ⊢
            cases he : elems p ec n (a.drop k) with
            | mk e al =>
              cases e with
              | ok vs k' => trivial
              | stop o => simp [he] at hd; exact hd
          have hih := ih (a.drop k) b hs' hd'
          cases he1 : elems p ec n (a.drop k ++ b) with
          | mk e1 al1 =>
            cases he2 : elems p ec n (a.drop k) with
            | mk e2 al2 =>
              rw [he1, he2] at hih
              simp only at hih
              subst hih
              cases e1 <;> rfl
        | incomplete k => simp [Decided, hout, Outcome.isIncomplete] at hpd
        | error k => simp
        | crash k => simp
      · unfold Decided at hpd
        cases hout : (p a).out with
        | incomplete k => simp [hout, ElemsDecided, Outcome.isIncomplete] at hd
        | ok v k => simp [hout, Outcome.isIncomplete] at hpd
        | error k => simp [hout, Outcome.isIncomplete] at hpd
        | crash k => simp [hout, Outcome.isIncomplete] at hpd

theorem preReq_uncapped (c : Codec) (h : ¬ c.capPrealloc = true) (n : Int) (r r' : Nat) :
    preReq c n r = preReq c n r' := by
  unfold preReq; simp [h]

theorem preReq_capped_le (c : Codec) (h : c.capPrealloc = true) (n : Int) (r : Nat) :
    preReq c n r ≤ 14 * r := by
  unfold preReq elemSize
  split
  · have : min (asUsize n) (r / 3) ≤ r / 3 := Nat.min_le_right _ _
    omega
  · omega

theorem parseArray_stable_tail (c : Codec) (p : Bytes → Res)
    (hpc : ∀ rest, Small rest → ConsumedOK (p rest) rest)
    (hst : ∀ a b, Small (a ++ b) → Decided (p a) → (p (a ++ b)).out = (p a).out)
    (a b : Bytes) (pos : Nat) (n : Int) (hb : pos + 2 ≤ a.length) (hs : Small (a ++ b)) {x y : List Nat}
    (hd : (match elems p c.emptyCheck n.toNat (a.drop (pos + 2)) with
        | (.ok vs k, al) => (⟨.ok (.array vs) (pos + 2 + k), x ++ al⟩ : Res)
        | (.stop o, al) => ⟨o, x ++ al⟩).out.isIncomplete = false) :
    (match elems p c.emptyCheck n.toNat ((a ++ b).drop (pos + 2)) with
        | (.ok vs k, al) => (⟨.ok (.array vs) (pos + 2 + k), y ++ al⟩ : Res)
        | (.stop o, al) => ⟨o, y ++ al⟩).out =
    (match elems p c.emptyCheck n.toNat (a.drop (pos + 2)) with
        | (.ok vs k, al) => (⟨.ok (.array vs) (pos + 2 + k), x ++ al⟩ : Res)
        | (.stop o, al) => ⟨o, x ++ al⟩).out := by
  have hdrop : (a ++ b).drop (pos + 2) = a.drop (pos + 2) ++ b :=
    List.drop_append_of_le_length (by omega)
  rw [hdrop]
  have hs' : Small (a.drop (pos + 2) ++ b) := by
    unfold Small at *; simp at hs ⊢; omega
  have hd' : ElemsDecided (elems p c.emptyCheck n.toNat (a.drop (pos + 2))) := by
    unfold ElemsDecided
    cases he : elems p c.emptyCheck n.toNat (a.drop (pos + 2)) with
    | mk e al =>
      cases e with
      | ok vs k' => trivial
      | stop o => simp [he] at hd; exact hd
  have hes := elems_stable p c.emptyCheck hpc hst _ _ b hs' hd'
  cases he1 : elems p c.emptyCheck n.toNat (a.drop (pos + 2) ++ b) with
  | mk e1 al1 =>
    cases he2 : elems p c.emptyCheck n.toNat (a.drop (pos + 2)) with
    | mk e2 al2 =>
      rw [he1, he2] at hes
      simp only at hes
      subst hes
      cases e1 <;> rfl

theorem parseArray_stable (c : Codec) (hc : c.Good) (mem : Nat) (p : Bytes → Res)
    (hpc : ∀ rest, Small rest → ConsumedOK (p rest) rest)
    (hst : ∀ a b, Small (a ++ b) → Decided (p a) → (p (a ++ b)).out = (p a).out)
    (a b : Bytes) (hs : Small (a ++ b)) (hd : Decided (parseArray c mem p a)) :
    (parseArray c mem p (a ++ b)).out = (parseArray c mem p a).out := by
  unfold Decided at hd
  unfold parseArray at hd ⊢
  cases hpos : c.findCrlf a with
  | none => simp [hpos, Outcome.isIncomplete] at hd
  | some pos =>
    have hb := hc.bound a pos hpos
    have hfa := field_append a b pos (by omega)
    simp only [hc.stable a b pos hpos, hfa]
    simp only [hpos] at hd
    cases hf : field a pos with
    | none => rfl
    | some s =>
      simp only [hf] at hd ⊢
      cases hn : parseI64 s with
      | none => rfl
      | some n =>
        simp only [hn] at hd ⊢
        by_cases h1 : n = -1
        · simp [h1]
        · simp only [h1, if_false] at hd ⊢
          by_cases hneg : c.arrayNegCheck = true ∧ n < 0
          · simp [hneg]
          · simp only [hneg, if_false] at hd ⊢
            have hsa : Small a := hs.of_append
            -- the pre-allocation test gives the same verdict on the longer input
            have hcapA : c.capPrealloc = true → ¬ preReq c n (a.length - (pos + 2)) > isizeMax := by
              intro hcap
              have := preReq_capped_le c hcap n (a.length - (pos + 2))
              unfold Small at hsa; unfold isizeMax; omega
            have hcapAB : c.capPrealloc = true → ¬ preReq c n ((a ++ b).length - (pos + 2)) > isizeMax := by
              intro hcap
              have := preReq_capped_le c hcap n ((a ++ b).length - (pos + 2))
              unfold Small at hs; unfold isizeMax; omega
            by_cases hcap : c.capPrealloc = true
            · have h2 := hcapA hcap
              have h2' := hcapAB hcap
              have h3 : ¬ (¬ c.capPrealloc = true ∧ preReq c n (a.length - (pos + 2)) ≥ mem ∧ preReq c n (a.length - (pos + 2)) ≠ 0) := by
                simp [hcap]
              have h3' : ¬ (¬ c.capPrealloc = true ∧ preReq c n ((a ++ b).length - (pos + 2)) ≥ mem ∧ preReq c n ((a ++ b).length - (pos + 2)) ≠ 0) := by
                simp [hcap]
              simp only [h2, h2', h3, h3', if_false] at hd ⊢
              exact parseArray_stable_tail c p hpc hst a b pos n hb hs hd
            · rw [preReq_uncapped c hcap n ((a ++ b).length - (pos + 2)) (a.length - (pos + 2))]
              by_cases h2 : preReq c n (a.length - (pos + 2)) > isizeMax
              · simp [h2]
              · simp only [h2, if_false] at hd ⊢
                by_cases h3 : ¬ c.capPrealloc = true ∧ preReq c n (a.length - (pos + 2)) ≥ mem ∧ preReq c n (a.length - (pos + 2)) ≠ 0
                · simp [h3]
                · simp only [h3, if_false] at hd ⊢
                  exact parseArray_stable_tail c p hpc hst a b pos n hb hs hd

theorem parseD_stable (c : Codec) (hc : c.Good) (mem : Nat) :
    ∀ (d nest : Nat) (a b : Bytes), Small (a ++ b) → Decided (parseD c mem d nest a) →
      (parseD c mem d nest (a ++ b)).out = (parseD c mem d nest a).out := by
  intro d
  induction d with
  | zero => intro nest a b _ _; simp [parseD]
  | succ d ih =>
    intro nest a b hs hd
    cases a with
    | nil => simp [Decided, parseD, Outcome.isIncomplete] at hd
    | cons t rest =>
      simp only [List.cons_append] at hs ⊢
      unfold parseD at hd ⊢
      by_cases h1 : t = 43
      · simp only [h1, if_true] at hd ⊢
        rw [← List.cons_append, parseLine_stable c hc _ _ b hd]
      · simp only [h1, if_false] at hd ⊢
        by_cases h2 : t = 45
        · simp only [h2, if_true] at hd ⊢
          rw [← List.cons_append, parseLine_stable c hc _ _ b hd]
        · simp only [h2, if_false] at hd ⊢
          by_cases h3 : t = 58
          · simp only [h3, if_true] at hd ⊢
            rw [← List.cons_append, parseInt_stable c hc _ b hd]
          · simp only [h3, if_false] at hd ⊢
            by_cases h4 : t = 36
            · simp only [h4, if_true] at hd ⊢
              rw [← List.cons_append, parseBulk_stable c hc _ b hs hd]
            · simp only [h4, if_false] at hd ⊢
              by_cases h5 : t = 42
              · simp only [h5, if_true] at hd ⊢
                by_cases h6 : tooDeep c nest = true
                · simp [h6]
                · simp only [h6, if_false] at hd ⊢
                  exact parseArray_stable c hc mem _ (parseD_consumed c hc mem d (nest + 1)) (ih (nest + 1)) _ b hs hd
              · simp only [h5, if_false]

/-! ### no crash: the decoders after the fixes -/

theorem parseI64_range (s : Bytes) (n : Int) (h : parseI64 s = some n) :
    -9223372036854775808 ≤ n ∧ n ≤ 9223372036854775807 := by
  unfold parseI64 at h
  split at h
  · simp at h
  · split at h
    · split at h
      · simp at h
      · split at h
        · split at h
          · simp at h; omega
          · simp at h
        · simp at h
    · split at h
      · split at h
        · simp at h
        · split at h
          · split at h
            · simp at h; omega
            · simp at h
          · simp at h
      · split at h
        · split at h
          · simp at h; omega
          · simp at h
        · simp at h

theorem asUsize_nonneg (n : Int) (h0 : 0 ≤ n) (h1 : n ≤ 9223372036854775807) :
    asUsize n = n.toNat := by
  unfold asUsize W
  omega

/-- what the fix commits establish: negative lengths are rejected, a pre-allocation is capped
    by the input, nesting is limited to `m` -/
structure Codec.Fixed (c : Codec) (m : Nat) : Prop where
  bulkNeg : c.bulkNegCheck = true
  arr : c.prealloc = true → c.arrayNegCheck = true ∧ c.capPrealloc = true
  nest : c.maxNest = some m

theorem codec1_fixed : codec1.Fixed maxNesting := ⟨rfl, fun _ => ⟨rfl, rfl⟩, rfl⟩
theorem codec2_fixed : codec2.Fixed maxNesting := ⟨rfl, fun h => by simp [codec2] at h, rfl⟩

def NoCrash (r : Res) : Prop := r.out.isCrash = false

theorem parseLine_no_crash (c : Codec) (hc : c.Good) (mk : Bytes → Val) (t : Nat) (rest : Bytes)
    (ht : t ≠ 13) : NoCrash (parseLine c mk (t :: rest)) := by
  unfold NoCrash parseLine
  cases hpos : c.findCrlf (t :: rest) with
  | none => simp [Outcome.isCrash]
  | some pos =>
    have := hc.pos t rest pos ht hpos
    have hf : field (t :: rest) pos = some (((t :: rest).take pos).drop 1) := by
      unfold field; simp; omega
    simp [hf, Outcome.isCrash]

theorem parseInt_no_crash (c : Codec) (hc : c.Good) (t : Nat) (rest : Bytes)
    (ht : t ≠ 13) : NoCrash (parseInt c (t :: rest)) := by
  unfold NoCrash parseInt
  cases hpos : c.findCrlf (t :: rest) with
  | none => simp [Outcome.isCrash]
  | some pos =>
    have := hc.pos t rest pos ht hpos
    have hf : field (t :: rest) pos = some (((t :: rest).take pos).drop 1) := by
      unfold field; simp; omega
    simp only [hf]
    cases parseI64 (((t :: rest).take pos).drop 1) <;> simp [Outcome.isCrash]

theorem parseBulk_no_crash (c : Codec) (hc : c.Good) (hneg : c.bulkNegCheck = true) (rest : Bytes)
    (hs : Small (36 :: rest)) : NoCrash (parseBulk c (36 :: rest)) := by
  unfold NoCrash parseBulk
  cases hpos : c.findCrlf (36 :: rest) with
  | none => simp [Outcome.isCrash]
  | some pos =>
    have hp1 := hc.pos 36 rest pos (by decide) hpos
    have hb := hc.bound _ pos hpos
    have hf : field (36 :: rest) pos = some (((36 :: rest).take pos).drop 1) := by
      unfold field; simp; omega
    simp only [hf]
    cases hn : parseI64 (((36 :: rest).take pos).drop 1) with
    | none => simp [Outcome.isCrash]
    | some n =>
      simp only []
      have hr := parseI64_range _ n hn
      by_cases h1 : n = -1
      · simp [h1, Outcome.isCrash]
      · simp only [h1, if_false]
        by_cases h0 : c.bulkNegCheck = true ∧ n < 0
        · simp [h0, Outcome.isCrash]
        · simp only [h0, if_false]
          have hn0 : 0 ≤ n := by
            rw [hneg] at h0; simp at h0; exact h0
          have hu := asUsize_nonneg n hn0 hr.2
          rw [hu]
          unfold Small at hs
          unfold W
          have hm1 : (pos + 2 + n.toNat) % 18446744073709551616 = pos + 2 + n.toNat :=
            Nat.mod_eq_of_lt (by omega)
          have hm2 : (pos + 2 + n.toNat + 2) % 18446744073709551616 = pos + 2 + n.toNat + 2 :=
            Nat.mod_eq_of_lt (by omega)
          rw [hm1, hm2]
          split
          · simp [Outcome.isCrash]
          · split
            · rename_i h2 h3
              exfalso
              omega
            · simp [Outcome.isCrash]

def ElemsNoCrash (e : ElemsOut × List Nat) : Prop :=
  match e.1 with
  | .stop o => o.isCrash = false
  | .ok _ _ => True

theorem elems_no_crash (p : Bytes → Res) (ec : Bool) (Q : Bytes → Prop)
    (hQ : ∀ s k, Q s → Q (s.drop k))
    (hpc : ∀ s, Small s → ConsumedOK (p s) s)
    (hp : ∀ s, Q s → NoCrash (p s)) :
    ∀ (n : Nat) (rest : Bytes), Q rest → Small rest → ElemsNoCrash (elems p ec n rest) := by
  intro n
  induction n with
  | zero => intro rest _ _; simp [elems, ElemsNoCrash]
  | succ n ih =>
    intro rest hq hs
    unfold elems
    split
    · simp [ElemsNoCrash, Outcome.isCrash]
    · simp only
      have hnc := hp rest hq
      unfold NoCrash at hnc
      cases hout : (p rest).out with
      | ok v k =>
        have hk := hpc rest hs v k hout
        have hk1 : ¬ (k > rest.length ∧ n ≠ 0 ∧ ¬ ec = true) := by omega
        simp only [hk1, if_false]
        have := ih (rest.drop k) (hQ rest k hq) (hs.drop k)
        unfold ElemsNoCrash at this ⊢
        cases he : elems p ec n (rest.drop k) with
        | mk e al =>
          cases e with
          | ok vs k' => simp
          | stop o => simp [he] at this; simpa using this
      | incomplete k => simp [ElemsNoCrash, Outcome.isCrash]
      | error k => simp [ElemsNoCrash, Outcome.isCrash]
      | crash k => simp [hout, Outcome.isCrash] at hnc

theorem parseArray_no_crash (c : Codec) (hc : c.Good) (m : Nat) (hfix : c.Fixed m) (mem : Nat)
    (p : Bytes → Res)
    (hpc : ∀ s, Small s → ConsumedOK (p s) s)
    (hp : ∀ s, Small s → NoCrash (p s))
    (rest : Bytes) (hs : Small (42 :: rest)) :
    NoCrash (parseArray c mem p (42 :: rest)) := by
  unfold NoCrash parseArray
  cases hpos : c.findCrlf (42 :: rest) with
  | none => simp [Outcome.isCrash]
  | some pos =>
    have hp1 := hc.pos 42 rest pos (by decide) hpos
    have hb := hc.bound _ pos hpos
    have hf : field (42 :: rest) pos = some (((42 :: rest).take pos).drop 1) := by
      unfold field; simp; omega
    simp only [hf]
    cases hn : parseI64 (((42 :: rest).take pos).drop 1) with
    | none => simp [Outcome.isCrash]
    | some n =>
      simp only []
      by_cases h1 : n = -1
      · simp [h1, Outcome.isCrash]
      · simp only [h1, if_false]
        by_cases h0 : c.arrayNegCheck = true ∧ n < 0
        · simp [h0, Outcome.isCrash]
        · simp only [h0, if_false]
          have hreq : preReq c n ((42 :: rest).length - (pos + 2)) ≤ 14 * ((42 :: rest).length - (pos + 2)) := by
            by_cases hpre : c.prealloc = true
            · exact preReq_capped_le c (hfix.arr hpre).2 n _
            · unfold preReq; simp [hpre]
          have hcapd : ¬ (¬ c.capPrealloc = true ∧ preReq c n ((42 :: rest).length - (pos + 2)) ≥ mem ∧
              preReq c n ((42 :: rest).length - (pos + 2)) ≠ 0) := by
            by_cases hpre : c.prealloc = true
            · simp [(hfix.arr hpre).2]
            · have : preReq c n ((42 :: rest).length - (pos + 2)) = 0 := by
                unfold preReq; rw [if_neg hpre]
              rw [this]; simp
          have h2 : ¬ preReq c n ((42 :: rest).length - (pos + 2)) > isizeMax := by
            unfold Small at hs; unfold isizeMax; omega
          simp only [h2, hcapd, if_false]
          have := elems_no_crash p c.emptyCheck Small (fun s k h => h.drop k) hpc hp n.toNat
            ((42 :: rest).drop (pos + 2)) (hs.drop _) (hs.drop _)
          unfold ElemsNoCrash at this
          cases he : elems p c.emptyCheck n.toNat ((42 :: rest).drop (pos + 2)) with
          | mk e al =>
            cases e with
            | ok vs k' => simp [Outcome.isCrash]
            | stop o => rw [he] at this; simpa using this

/-- NO PANIC, NO ABORT, NO STACK OVERFLOW: with at least `m + 1` stack frames the repaired decoder
    does not crash on any input -/
theorem parseD_no_crash (c : Codec) (hc : c.Good) (m : Nat) (hfix : c.Fixed m) (mem : Nat) :
    ∀ (d nest : Nat) (bs : Bytes), nest ≤ m → m + 1 ≤ d + nest → Small bs →
      NoCrash (parseD c mem d nest bs) := by
  intro d
  induction d with
  | zero => intro nest bs h1 h2 _; omega
  | succ d ih =>
    intro nest bs hn hd hs
    cases bs with
    | nil => simp [NoCrash, parseD, Outcome.isCrash]
    | cons t rest =>
      unfold parseD
      by_cases h1 : t = 43
      · simp only [h1, if_true]
        exact parseLine_no_crash c hc _ _ _ (by decide)
      · simp only [h1, if_false]
        by_cases h2 : t = 45
        · simp only [h2, if_true]
          exact parseLine_no_crash c hc _ _ _ (by decide)
        · simp only [h2, if_false]
          by_cases h3 : t = 58
          · simp only [h3, if_true]
            exact parseInt_no_crash c hc _ _ (by decide)
          · simp only [h3, if_false]
            by_cases h4 : t = 36
            · subst h4
              simp only [if_true]
              exact parseBulk_no_crash c hc hfix.bulkNeg rest hs
            · simp only [h4, if_false]
              by_cases h5 : t = 42
              · subst h5
                simp only [if_true]
                by_cases h6 : tooDeep c nest = true
                · simp [h6, NoCrash, Outcome.isCrash]
                · simp only [h6, if_false]
                  have hlt : nest < m := by
                    unfold tooDeep at h6
                    rw [hfix.nest] at h6
                    simp at h6
                    exact h6
                  exact parseArray_no_crash c hc m hfix mem _ (parseD_consumed c hc mem d (nest + 1))
                    (fun s hss => ih (nest + 1) s (by omega) (by omega) hss) rest hs
              · simp [h5, NoCrash, Outcome.isCrash]

/-! ### the stack: no overflow with `m + 1` frames, whatever the input (no size hypothesis) -/

def NoSO (r : Res) : Prop := r.out ≠ .crash .stackOverflow

theorem parseLine_noSO (c : Codec) (mk : Bytes → Val) (bs : Bytes) : NoSO (parseLine c mk bs) := by
  unfold NoSO parseLine
  repeat' (first | (intro h; simp at h; done) | split)

theorem parseInt_noSO (c : Codec) (bs : Bytes) : NoSO (parseInt c bs) := by
  unfold NoSO parseInt
  repeat' (first | (intro h; simp at h; done) | split)

theorem parseBulk_noSO (c : Codec) (bs : Bytes) : NoSO (parseBulk c bs) := by
  unfold NoSO parseBulk
  repeat' (first | (intro h; simp at h; done) | split | (intro h; simp only [] at h; repeat' (first | (simp at h; done) | split at h)))

theorem elems_noSO (p : Bytes → Res) (ec : Bool) (hp : ∀ s, NoSO (p s)) :
    ∀ (n : Nat) (rest : Bytes) (al : List Nat), elems p ec n rest ≠ (.stop (.crash .stackOverflow), al) := by
  intro n
  induction n with
  | zero => intro rest al h; simp [elems] at h
  | succ n ih =>
    intro rest al h
    unfold elems at h
    split at h
    · simp at h
    · simp only at h
      have hps := hp rest
      unfold NoSO at hps
      split at h
      · split at h
        · simp at h
        · split at h
          · simp at h
          · rename_i o a' he
            simp at h
            obtain ⟨h1, _⟩ := h
            subst h1
            exact ih _ _ he
      · rename_i hne
        simp at h
        exact hps h.1

theorem parseArray_noSO (c : Codec) (mem : Nat) (p : Bytes → Res) (hp : ∀ s, NoSO (p s)) (bs : Bytes) :
    NoSO (parseArray c mem p bs) := by
  unfold NoSO parseArray
  split
  · intro h; simp at h
  · split
    · intro h; simp at h
    · split
      · intro h; simp at h
      · split
        · intro h; simp at h
        · split
          · intro h; simp at h
          · split
            · intro h; simp at h
            · split
              · intro h; simp at h
              · split
                · intro h; simp at h
                · rename_i o a he
                  intro h
                  simp only at h
                  subst h
                  exact elems_noSO p c.emptyCheck hp _ _ _ he

theorem parseD_noSO (c : Codec) (m : Nat) (hm : c.maxNest = some m) (mem : Nat) :
    ∀ (d nest : Nat) (bs : Bytes), nest ≤ m → m + 1 ≤ d + nest → NoSO (parseD c mem d nest bs) := by
  intro d
  induction d with
  | zero => intro nest bs h1 h2; omega
  | succ d ih =>
    intro nest bs hn hd
    cases bs with
    | nil => intro h; simp [parseD] at h
    | cons t rest =>
      unfold parseD
      split
      · exact parseLine_noSO c _ _
      · split
        · exact parseLine_noSO c _ _
        · split
          · exact parseInt_noSO c _
          · split
            · exact parseBulk_noSO c _
            · split
              · split
                · intro h; simp at h
                · rename_i h6
                  have hlt : nest < m := by
                    unfold tooDeep at h6
                    rw [hm] at h6
                    simp at h6
                    exact h6
                  exact parseArray_noSO c mem _ (fun s => ih (nest + 1) s (by omega) (by omega)) _
              · intro h; simp at h

/-! ### allocation bounds -/

/-- bytes pre-allocated per announced element: 40 for codec 1, 0 for codec 2 -/
def pf (c : Codec) : Nat := if c.prealloc then elemSize else 0

/-- allocation per input byte with `d` stack frames available -/
def K (c : Codec) (d : Nat) : Nat := 3 + pf c * d

/-- a successful decode allocated at most `k` bytes per consumed byte -/
def AllocOk (k : Nat) (r : Res) : Prop := ∀ v n, r.out = .ok v n → r.allocs.sum ≤ k * n

theorem field_length (bs : Bytes) (pos : Nat) (s : Bytes) (h : field bs pos = some s) (hp : pos ≤ bs.length) :
    s.length + 1 = pos := by
  unfold field at h
  split at h
  · simp at h
  · simp at h
    subst h
    simp
    omega

theorem parseLine_allocs (c : Codec) (hc : c.Good) (mk : Bytes → Val) (bs : Bytes) :
    (parseLine c mk bs).allocs.sum ≤ 3 * bs.length ∧ AllocOk 3 (parseLine c mk bs) := by
  unfold AllocOk parseLine
  cases hpos : c.findCrlf bs with
  | none => simp
  | some pos =>
    have hb := hc.bound bs pos hpos
    simp only []
    cases hf : field bs pos with
    | none => simp
    | some s =>
      have hl := field_length bs pos s hf (by omega)
      have := hc.strLen s
      simp
      omega

theorem parseInt_allocs (c : Codec) (bs : Bytes) : (parseInt c bs).allocs = [] := by
  unfold parseInt
  repeat (first | rfl | split)

theorem parseBulk_allocs (c : Codec) (hc : c.Good) (bs : Bytes) (hs : Small bs) :
    (parseBulk c bs).allocs.sum ≤ 3 * bs.length ∧ AllocOk 3 (parseBulk c bs) := by
  unfold AllocOk parseBulk
  cases hpos : c.findCrlf bs with
  | none => simp
  | some pos =>
    have hb := hc.bound bs pos hpos
    simp only []
    cases hf : field bs pos with
    | none => simp
    | some s =>
      simp only []
      cases hn : parseI64 s with
      | none => simp
      | some n =>
        simp only []
        by_cases h1 : n = -1
        · simp [h1]
        · simp only [h1, if_false]
          by_cases h0 : c.bulkNegCheck = true ∧ n < 0
          · simp [h0]
          · simp only [h0, if_false]
            generalize asUsize n = m
            unfold Small at hs
            unfold W
            split
            · simp
            · split
              · simp
              · simp
                omega

theorem elems_allocs_ok (p : Bytes → Res) (ec : Bool) (k : Nat)
    (hpc : ∀ s, Small s → ConsumedOK (p s) s)
    (hpa : ∀ s, Small s → AllocOk k (p s)) :
    ∀ (n : Nat) (rest : Bytes), Small rest → ∀ vs m a, elems p ec n rest = (.ok vs m, a) →
      a.sum ≤ k * m := by
  intro n
  induction n with
  | zero =>
    intro rest _ vs m a h
    simp [elems] at h
    obtain ⟨_, h3⟩ := h
    subst h3
    simp
  | succ n ih =>
    intro rest hs vs m a h
    unfold elems at h
    split at h
    · simp at h
    · simp only at h
      split at h
      · rename_i v k0 hk0
        have h0 := hpc rest hs v k0 hk0
        have ha := hpa rest hs v k0 hk0
        split at h
        · simp at h
        · split at h
          · rename_i vs' k' a' he
            have := ih (rest.drop k0) (hs.drop k0) vs' k' a' he
            simp at h
            obtain ⟨⟨_, h2⟩, h3⟩ := h
            subst h2 h3
            simp [Nat.mul_add]
            omega
          · simp at h
      · simp at h

theorem elems_allocs_len (p : Bytes → Res) (ec : Bool) (k : Nat) (Q : Bytes → Prop)
    (hQ : ∀ s j, Q s → Q (s.drop j))
    (hpc : ∀ s, Small s → ConsumedOK (p s) s)
    (hpa : ∀ s, Small s → AllocOk k (p s))
    (hpl : ∀ s, Q s → Small s → (p s).allocs.sum ≤ k * s.length) :
    ∀ (n : Nat) (rest : Bytes), Q rest → Small rest →
      (elems p ec n rest).2.sum ≤ k * rest.length := by
  intro n
  induction n with
  | zero => intro rest _ _; simp [elems]
  | succ n ih =>
    intro rest hq hs
    unfold elems
    split
    · simp
    · simp only
      have hl := hpl rest hq hs
      cases hout : (p rest).out with
      | ok v k0 =>
        have h0 := hpc rest hs v k0 hout
        have ha := hpa rest hs v k0 hout
        have hk1 : ¬ (k0 > rest.length ∧ n ≠ 0 ∧ ¬ ec = true) := by omega
        simp only [hk1, if_false]
        have := ih (rest.drop k0) (hQ rest k0 hq) (hs.drop k0)
        cases he : elems p ec n (rest.drop k0) with
        | mk e al =>
          rw [he] at this
          simp at this
          have hsum : (p rest).allocs.sum + al.sum ≤ k * rest.length := by
            have h1 : k * k0 + k * (rest.length - k0) = k * rest.length := by
              rw [← Nat.mul_add]; congr 1; omega
            omega
          cases e with
          | ok vs k' => simpa using hsum
          | stop o => simpa using hsum
      | incomplete _ => simpa using hl
      | error _ => simpa using hl
      | crash _ => simpa using hl

theorem preList_sum (r : Nat) : (preList r).sum = r := by
  unfold preList; split <;> simp_all

theorem asUsize_neg (n : Int) (h0 : n < 0) (h1 : -9223372036854775808 ≤ n) :
    9223372036854775808 ≤ asUsize n := by
  unfold asUsize W
  omega

/-- a codec that caps the pre-allocation also rejects negative lengths (true of all four) -/
def Codec.CapSane (c : Codec) : Prop := c.capPrealloc = true → c.arrayNegCheck = true

/-- on the way to the element loop the pre-allocation is at most `pf c` bytes per announced
    element -/
theorem preReq_le (c : Codec) (hcs : c.CapSane) (n : Int) (rem : Nat)
    (hr : -9223372036854775808 ≤ n ∧ n ≤ 9223372036854775807)
    (h0 : ¬ (c.arrayNegCheck = true ∧ n < 0))
    (h2 : ¬ preReq c n rem > isizeMax) : preReq c n rem ≤ pf c * n.toNat := by
  unfold preReq pf at *
  split
  · rename_i hp
    simp only [hp, if_true] at h2
    by_cases hcap : c.capPrealloc = true
    · have hnn : 0 ≤ n := by
        have := hcs hcap
        rw [this] at h0; simp at h0; exact h0
      rw [if_pos hcap, asUsize_nonneg n hnn hr.2, Nat.mul_comm]
      exact Nat.mul_le_mul_left _ (Nat.min_le_left _ _)
    · rw [if_neg hcap] at h2 ⊢
      by_cases hneg : n < 0
      · have := asUsize_neg n hneg hr.1
        unfold isizeMax elemSize at h2
        omega
      · rw [asUsize_nonneg n (by omega) hr.2, Nat.mul_comm]
        exact Nat.le_refl _
  · simp

theorem AllocOk.mono {k k' : Nat} {r : Res} (h : AllocOk k r) (hk : k ≤ k') : AllocOk k' r := by
  intro v n ho
  have := h v n ho
  have := Nat.mul_le_mul_right n hk
  omega

theorem parseArray_alloc_ok (c : Codec) (hc : c.Good) (hcs : c.CapSane) (mem : Nat) (p : Bytes → Res) (k : Nat)
    (hpc : ∀ s, Small s → ConsumedOK (p s) s)
    (hpa : ∀ s, Small s → AllocOk k (p s))
    (bs : Bytes) (hs : Small bs) : AllocOk (k + pf c) (parseArray c mem p bs) := by
  unfold AllocOk parseArray
  cases hpos : c.findCrlf bs with
  | none => simp
  | some pos =>
    have hb := hc.bound bs pos hpos
    simp only []
    cases hf : field bs pos with
    | none => simp
    | some s =>
      simp only []
      cases hn : parseI64 s with
      | none => simp
      | some n =>
        simp only []
        have hr := parseI64_range s n hn
        by_cases h1 : n = -1
        · simp [h1]
        · simp only [h1, if_false]
          by_cases h0 : c.arrayNegCheck = true ∧ n < 0
          · simp [h0]
          · simp only [h0, if_false]
            by_cases h2 : preReq c n (bs.length - (pos + 2)) > isizeMax
            · simp [h2]
            · simp only [h2, if_false]
              by_cases h3 : ¬ c.capPrealloc = true ∧ preReq c n (bs.length - (pos + 2)) ≥ mem ∧ preReq c n (bs.length - (pos + 2)) ≠ 0
              · simp [h3]
              · simp only [h3, if_false]
                have hpre := preReq_le c hcs n _ hr h0 h2
                cases he : elems p c.emptyCheck n.toNat (bs.drop (pos + 2)) with
                | mk e al =>
                  cases e with
                  | ok vs k' =>
                    have h5 := elems_consumed p c.emptyCheck hpc _ _ (hs.drop (pos + 2)) vs k' al he
                    have h6 := elems_allocs_ok p c.emptyCheck k hpc hpa _ _ (hs.drop (pos + 2)) vs k' al he
                    intro v m hm
                    simp at hm
                    obtain ⟨_, hm2⟩ := hm
                    subst hm2
                    simp only [List.sum_append, preList_sum]
                    have e1 : pf c * n.toNat ≤ pf c * (pos + 2 + k') := Nat.mul_le_mul_left _ (by omega)
                    have e2 : k * k' ≤ k * (pos + 2 + k') := Nat.mul_le_mul_left _ (by omega)
                    rw [Nat.add_mul]
                    omega
                  | stop o =>
                    intro v m hm
                    simp only at hm
                    subst hm
                    exact absurd he (elems_stop_not_ok p c.emptyCheck _ _ _ _ _)

theorem pf_le (c : Codec) : pf c ≤ 40 := by unfold pf elemSize; split <;> omega

/-- whatever the outcome: a decoder that caps its pre-allocation (or has none) requests at most
    `k + 40` bytes per input byte at this level when its elements request at most `k` -/
theorem parseArray_alloc_len (c : Codec) (hc : c.Good) (hcs : c.CapSane)
    (hcap : c.prealloc = true → c.capPrealloc = true) (mem : Nat) (p : Bytes → Res) (k : Nat)
    (hpc : ∀ s, Small s → ConsumedOK (p s) s)
    (hpa : ∀ s, Small s → AllocOk k (p s))
    (hpl : ∀ s, Small s → (p s).allocs.sum ≤ k * s.length)
    (bs : Bytes) (hs : Small bs) :
    (parseArray c mem p bs).allocs.sum ≤ (k + 40) * bs.length := by
  unfold parseArray
  cases hpos : c.findCrlf bs with
  | none => simp
  | some pos =>
    have hb := hc.bound bs pos hpos
    simp only []
    cases hf : field bs pos with
    | none => simp
    | some s =>
      simp only []
      cases hn : parseI64 s with
      | none => simp
      | some n =>
        simp only []
        by_cases h1 : n = -1
        · simp [h1]
        · simp only [h1, if_false]
          by_cases h0 : c.arrayNegCheck = true ∧ n < 0
          · simp [h0]
          · simp only [h0, if_false]
            by_cases h2 : preReq c n (bs.length - (pos + 2)) > isizeMax
            · simp [h2]
            · simp only [h2, if_false]
              have hpre2 : preReq c n (bs.length - (pos + 2)) ≤ 40 * bs.length := by
                by_cases hpre : c.prealloc = true
                · have := preReq_capped_le c (hcap hpre) n (bs.length - (pos + 2))
                  omega
                · unfold preReq; simp [hpre]
              by_cases h3 : ¬ c.capPrealloc = true ∧ preReq c n (bs.length - (pos + 2)) ≥ mem ∧ preReq c n (bs.length - (pos + 2)) ≠ 0
              · rw [if_pos h3]
                simp
                have : 40 * bs.length ≤ (k + 40) * bs.length := Nat.mul_le_mul_right _ (by omega)
                omega
              · simp only [h3, if_false]
                have h6 := elems_allocs_len p c.emptyCheck k Small (fun s j h => h.drop j) hpc hpa
                  (fun s _ hss => hpl s hss) n.toNat (bs.drop (pos + 2)) (hs.drop _) (hs.drop (pos + 2))
                have hsum : preReq c n (bs.length - (pos + 2)) + (elems p c.emptyCheck n.toNat (bs.drop (pos + 2))).2.sum ≤ (k + 40) * bs.length := by
                  have e2 : k * (bs.drop (pos + 2)).length ≤ k * bs.length := Nat.mul_le_mul_left _ (by simp)
                  rw [Nat.add_mul]
                  omega
                cases he : elems p c.emptyCheck n.toNat (bs.drop (pos + 2)) with
                | mk e al =>
                  rw [he] at hsum
                  cases e with
                  | ok vs k' => simpa [preList_sum] using hsum
                  | stop o => simpa [preList_sum] using hsum

/-- per-byte allocation constant with `m - nest` array levels still allowed -/
def KN (m nest : Nat) : Nat := 3 + 40 * (m - nest)

theorem parseD_alloc_okN (c : Codec) (hc : c.Good) (hcs : c.CapSane) (m : Nat) (hm : c.maxNest = some m) (mem : Nat) :
    ∀ (d nest : Nat) (bs : Bytes), nest ≤ m → Small bs → AllocOk (KN m nest) (parseD c mem d nest bs) := by
  intro d
  induction d with
  | zero => intro nest bs _ _ v n h; simp [parseD] at h
  | succ d ih =>
    intro nest bs hn hs
    have h3 : 3 ≤ KN m nest := by unfold KN; omega
    cases bs with
    | nil => intro v n h; simp [parseD] at h
    | cons t rest =>
      unfold parseD
      split
      · exact (parseLine_allocs c hc _ _).2.mono h3
      · split
        · exact (parseLine_allocs c hc _ _).2.mono h3
        · split
          · intro v n _; rw [parseInt_allocs]; simp
          · split
            · exact (parseBulk_allocs c hc _ hs).2.mono h3
            · split
              · split
                · intro v n h; simp at h
                · rename_i h6
                  have hlt : nest < m := by
                    unfold tooDeep at h6
                    rw [hm] at h6
                    simp at h6
                    exact h6
                  have := parseArray_alloc_ok c hc hcs mem _ (KN m (nest + 1)) (parseD_consumed c hc mem d (nest + 1))
                    (fun s hss => ih (nest + 1) s (by omega) hss) _ hs
                  refine this.mono ?_
                  have := pf_le c
                  unfold KN
                  omega
              · intro v n h; simp at h

/-- ALLOCATION BOUND, any outcome, any input: at most `3 + 40·(m - nest)` bytes per input byte -/
theorem parseD_alloc_lenN (c : Codec) (hc : c.Good) (hcs : c.CapSane)
    (hcap : c.prealloc = true → c.capPrealloc = true) (m : Nat) (hm : c.maxNest = some m) (mem : Nat) :
    ∀ (d nest : Nat) (bs : Bytes), nest ≤ m → Small bs →
      (parseD c mem d nest bs).allocs.sum ≤ KN m nest * bs.length := by
  intro d
  induction d with
  | zero => intro nest bs _ _; simp [parseD]
  | succ d ih =>
    intro nest bs hn hs
    cases bs with
    | nil => simp [parseD]
    | cons t rest =>
      have h3 : 3 * (t :: rest).length ≤ KN m nest * (t :: rest).length :=
        Nat.mul_le_mul_right _ (by unfold KN; omega)
      unfold parseD
      split
      · have := (parseLine_allocs c hc Val.simple (t :: rest)).1; omega
      · split
        · have := (parseLine_allocs c hc Val.error (t :: rest)).1; omega
        · split
          · rw [parseInt_allocs]; simp
          · split
            · have := (parseBulk_allocs c hc (t :: rest) hs).1; omega
            · split
              · split
                · simp
                · rename_i h6
                  have hlt : nest < m := by
                    unfold tooDeep at h6
                    rw [hm] at h6
                    simp at h6
                    exact h6
                  have := parseArray_alloc_len c hc hcs hcap mem _ (KN m (nest + 1))
                    (parseD_consumed c hc mem d (nest + 1))
                    (fun s hss => parseD_alloc_okN c hc hcs m hm mem d (nest + 1) s (by omega) hss)
                    (fun s hss => ih (nest + 1) s (by omega) hss) _ hs
                  have hk : KN m (nest + 1) + 40 = KN m nest := by unfold KN; omega
                  rw [hk] at this
                  exact this
              · simp

/-- a successful decode allocated at most `3 + pf c` bytes per consumed byte, whatever the
    nesting (every value leaves `pf c` bytes of credit for its slot in the parent's vector) -/
def AllocOk2 (c : Codec) (r : Res) : Prop :=
  ∀ v n, r.out = .ok v n → r.allocs.sum + pf c ≤ (3 + pf c) * n

theorem AllocOk2.of3 (c : Codec) (r : Res) (bs : Bytes) (h : AllocOk 3 r) (hc : ConsumedOK r bs) :
    AllocOk2 c r := by
  intro v n ho
  have h1 := h v n ho
  have h2 := (hc v n ho).1
  have : pf c * 1 ≤ pf c * n := Nat.mul_le_mul_left _ h2
  rw [Nat.add_mul]
  omega

theorem elems_allocs_ok2 (c : Codec) (p : Bytes → Res) (ec : Bool)
    (_hpc : ∀ s, Small s → ConsumedOK (p s) s)
    (hpa : ∀ s, Small s → AllocOk2 c (p s)) :
    ∀ (n : Nat) (rest : Bytes), Small rest → ∀ vs m a, elems p ec n rest = (.ok vs m, a) →
      a.sum + pf c * n ≤ (3 + pf c) * m := by
  intro n
  induction n with
  | zero =>
    intro rest _ vs m a h
    simp [elems] at h
    obtain ⟨_, h3⟩ := h
    subst h3
    simp
  | succ n ih =>
    intro rest hs vs m a h
    unfold elems at h
    split at h
    · simp at h
    · simp only at h
      split at h
      · rename_i v k0 hk0
        have ha := hpa rest hs v k0 hk0
        split at h
        · simp at h
        · split at h
          · rename_i vs' k' a' he
            have := ih (rest.drop k0) (hs.drop k0) vs' k' a' he
            simp at h
            obtain ⟨⟨_, h2⟩, h3⟩ := h
            subst h2 h3
            simp only [List.sum_append, Nat.mul_add, Nat.mul_one]
            omega
          · simp at h
      · simp at h

theorem parseArray_alloc_ok2 (c : Codec) (hc : c.Good) (hcs : c.CapSane) (mem : Nat) (p : Bytes → Res)
    (hpc : ∀ s, Small s → ConsumedOK (p s) s)
    (hpa : ∀ s, Small s → AllocOk2 c (p s))
    (bs : Bytes) (hs : Small bs) : AllocOk2 c (parseArray c mem p bs) := by
  unfold AllocOk2 parseArray
  cases hpos : c.findCrlf bs with
  | none => simp
  | some pos =>
    have hb := hc.bound bs pos hpos
    simp only []
    cases hf : field bs pos with
    | none => simp
    | some s =>
      simp only []
      cases hn : parseI64 s with
      | none => simp
      | some n =>
        simp only []
        have hr := parseI64_range s n hn
        by_cases h1 : n = -1
        · simp only [h1, if_true]
          intro v m hm
          simp at hm
          obtain ⟨_, hm2⟩ := hm
          subst hm2
          simp only [List.sum_nil, Nat.zero_add]
          have : pf c * 1 ≤ pf c * (pos + 2) := Nat.mul_le_mul_left _ (by omega)
          rw [Nat.add_mul]
          omega
        · simp only [h1, if_false]
          by_cases h0 : c.arrayNegCheck = true ∧ n < 0
          · simp [h0]
          · simp only [h0, if_false]
            by_cases h2 : preReq c n (bs.length - (pos + 2)) > isizeMax
            · simp [h2]
            · simp only [h2, if_false]
              by_cases h3 : ¬ c.capPrealloc = true ∧ preReq c n (bs.length - (pos + 2)) ≥ mem ∧ preReq c n (bs.length - (pos + 2)) ≠ 0
              · simp [h3]
              · simp only [h3, if_false]
                have hpre := preReq_le c hcs n _ hr h0 h2
                cases he : elems p c.emptyCheck n.toNat (bs.drop (pos + 2)) with
                | mk e al =>
                  cases e with
                  | ok vs k' =>
                    have h6 := elems_allocs_ok2 c p c.emptyCheck hpc hpa _ _ (hs.drop (pos + 2)) vs k' al he
                    intro v m hm
                    simp at hm
                    obtain ⟨_, hm2⟩ := hm
                    subst hm2
                    simp only [List.sum_append, preList_sum]
                    have e1 : pf c * 1 ≤ pf c * (pos + 2) := Nat.mul_le_mul_left _ (by omega)
                    rw [Nat.mul_add, Nat.add_mul 3 (pf c) (pos + 2)]
                    omega
                  | stop o =>
                    intro v m hm
                    simp only at hm
                    subst hm
                    exact absurd he (elems_stop_not_ok p c.emptyCheck _ _ _ _ _)

theorem parseD_alloc_ok2 (c : Codec) (hc : c.Good) (hcs : c.CapSane) (mem : Nat) :
    ∀ (d nest : Nat) (bs : Bytes), Small bs → AllocOk2 c (parseD c mem d nest bs) := by
  intro d
  induction d with
  | zero => intro nest bs _ v n h; simp [parseD] at h
  | succ d ih =>
    intro nest bs hs
    cases bs with
    | nil => intro v n h; simp [parseD] at h
    | cons t rest =>
      unfold parseD
      split
      · exact AllocOk2.of3 c _ _ (parseLine_allocs c hc _ _).2 (parseLine_consumed c hc _ _)
      · split
        · exact AllocOk2.of3 c _ _ (parseLine_allocs c hc _ _).2 (parseLine_consumed c hc _ _)
        · split
          · refine AllocOk2.of3 c _ _ ?_ (parseInt_consumed c hc _)
            intro v n _; rw [parseInt_allocs]; simp
          · split
            · exact AllocOk2.of3 c _ _ (parseBulk_allocs c hc _ hs).2 (parseBulk_consumed c hc _ hs)
            · split
              · split
                · intro v n h; simp at h
                · exact parseArray_alloc_ok2 c hc hcs mem _ (parseD_consumed c hc mem d (nest + 1)) (ih (nest + 1)) _ hs
              · intro v n h; simp at h

/-! ### the buffer loop: fragmentation does not matter -/

/-- what the buffer loop needs from a decoder -/
structure ParserSpec (p : Bytes → Outcome) : Prop where
  empty : (p []).isIncomplete = true
  consumed : ∀ bs, Small bs → ∀ v k, p bs = .ok v k → 1 ≤ k ∧ k ≤ bs.length
  stable : ∀ a b, Small (a ++ b) → (p a).isIncomplete = false → p (a ++ b) = p a

def drainAll (p : Bytes → Outcome) (buf : Bytes) : List Frame × Bytes × Bool :=
  drain p (buf.length + 1) buf

theorem drain_fuel (p : Bytes → Outcome) (hp : ParserSpec p) :
    ∀ (f g : Nat) (buf : Bytes), Small buf → buf.length < f → buf.length < g →
      drain p f buf = drain p g buf := by
  intro f
  induction f with
  | zero => intro g buf _ h _; omega
  | succ f ih =>
    intro g buf hs hf hg
    cases g with
    | zero => omega
    | succ g =>
      unfold drain
      cases hout : p buf with
      | ok v k =>
        have hk := hp.consumed buf hs v k hout
        simp only []
        rw [ih g (buf.drop k) (hs.drop k) (by simp; omega) (by simp; omega)]
      | incomplete _ => rfl
      | error _ => rfl
      | crash _ => rfl

/-- continue draining after more bytes arrived -/
def comb (p : Bytes → Outcome) (x : List Frame × Bytes × Bool) (b : Bytes) : List Frame × Bytes × Bool :=
  if x.2.2 then x
  else
    let y := drainAll p (x.2.1 ++ b)
    (x.1 ++ y.1, y.2.1, y.2.2)

theorem drain_append (p : Bytes → Outcome) (hp : ParserSpec p) (b : Bytes) :
    ∀ (f : Nat) (a : Bytes), a.length < f → Small (a ++ b) →
      drainAll p (a ++ b) = comb p (drain p f a) b := by
  intro f
  induction f with
  | zero => intro a h _; omega
  | succ f ih =>
    intro a hf hs
    have hsa : Small a := hs.of_append
    cases hout : p a with
    | ok v k =>
      have hk := hp.consumed a hsa v k hout
      have hab : p (a ++ b) = .ok v k := by
        rw [hp.stable a b hs (by simp [hout, Outcome.isIncomplete]), hout]
      have hs' : Small (a.drop k ++ b) := by
        unfold Small at *; simp at hs ⊢; omega
      have hrec := ih (a.drop k) (by simp; omega) hs'
      unfold drainAll at hrec ⊢
      rw [drain, hab]
      simp only []
      rw [List.drop_append_of_le_length hk.2]
      rw [drain_fuel p hp (a ++ b).length ((a.drop k ++ b).length + 1) _ hs'
        (by simp; omega) (by omega)]
      rw [hrec]
      conv => rhs; rw [drain, hout]
      simp only []
      unfold comb
      simp only []
      split <;> simp
    | incomplete i =>
      unfold drainAll
      conv => rhs; rw [drain, hout]
      simp [comb, drainAll]
    | error e =>
      have hab : p (a ++ b) = .error e := by
        rw [hp.stable a b hs (by simp [hout, Outcome.isIncomplete]), hout]
      unfold drainAll
      rw [drain, hab]
      conv => rhs; rw [drain, hout]
      simp [comb]
    | crash e =>
      have hab : p (a ++ b) = .crash e := by
        rw [hp.stable a b hs (by simp [hout, Outcome.isIncomplete]), hout]
      unfold drainAll
      rw [drain, hab]
      conv => rhs; rw [drain, hout]
      simp [comb]

def ofDrain (x : List Frame × Bytes × Bool) : FeedSt := ⟨x.1, x.2.1, x.2.2⟩

theorem feed_ofDrain (p : Bytes → Outcome) (hp : ParserSpec p) (pre c : Bytes) (hs : Small (pre ++ c)) :
    feed p (ofDrain (drainAll p pre)) c = ofDrain (drainAll p (pre ++ c)) := by
  have h := drain_append p hp c (pre.length + 1) pre (by omega) hs
  unfold feed
  rw [h]
  unfold comb ofDrain
  simp only []
  split
  · rename_i hd
    simp [drainAll] at hd ⊢
    simp [hd]
  · rename_i hd
    simp [drainAll] at hd ⊢
    simp [hd]

theorem feedAll_ofDrain (p : Bytes → Outcome) (hp : ParserSpec p) :
    ∀ (cs : List Bytes) (pre : Bytes), Small (pre ++ cs.flatten) →
      feedAll p (ofDrain (drainAll p pre)) cs = ofDrain (drainAll p (pre ++ cs.flatten)) := by
  intro cs
  induction cs with
  | nil => intro pre _; simp [feedAll]
  | cons c cs ih =>
    intro pre hs
    simp only [feedAll, List.foldl_cons, List.flatten_cons] at hs ⊢
    have hs1 : Small (pre ++ c) := by
      unfold Small at *; simp at hs ⊢; omega
    rw [feed_ofDrain p hp pre c hs1]
    have := ih (pre ++ c) (by simpa using hs)
    simp only [feedAll] at this
    rw [this]
    simp

theorem drainAll_nil (p : Bytes → Outcome) (hp : ParserSpec p) : ofDrain (drainAll p []) = FeedSt.init := by
  have := hp.empty
  unfold drainAll ofDrain FeedSt.init
  simp only [List.length_nil, drain]
  cases h : p [] with
  | incomplete _ => rfl
  | ok _ _ => simp [h, Outcome.isIncomplete] at this
  | error _ => simp [h, Outcome.isIncomplete] at this
  | crash _ => simp [h, Outcome.isIncomplete] at this

/-- any fragmentation of a byte stream gives the frames, the left-over bytes and the
    liveness that feeding it in one piece gives -/
theorem feedAll_fragmentation (p : Bytes → Outcome) (hp : ParserSpec p) (cs : List Bytes)
    (hs : Small cs.flatten) : feedAll p FeedSt.init cs = feedAll p FeedSt.init [cs.flatten] := by
  rw [← drainAll_nil p hp]
  rw [feedAll_ofDrain p hp cs [] (by simpa using hs)]
  rw [feedAll_ofDrain p hp [cs.flatten] [] (by simpa using hs)]
  simp

/-! ### decimal numbers -/

def valRev (ds : Bytes) : Nat := ds.foldr (fun b acc => (b - 48) + 10 * acc) 0

def AllDigits (ds : Bytes) : Prop := ∀ b ∈ ds, 48 ≤ b ∧ b ≤ 57

theorem decRev_spec : ∀ (f n : Nat), n < f →
    valRev (decRev f n) = n ∧ AllDigits (decRev f n) ∧ decRev f n ≠ [] := by
  intro f
  induction f with
  | zero => intro n h; omega
  | succ f ih =>
    intro n h
    unfold decRev
    split
    · refine ⟨by simp [valRev], ?_, by simp⟩
      intro b hb; simp at hb; omega
    · have := ih (n / 10) (by omega)
      refine ⟨?_, ?_, by simp⟩
      · simp only [valRev, List.foldr_cons] at this ⊢
        rw [this.1]; omega
      · intro b hb
        simp at hb
        cases hb with
        | inl h => omega
        | inr h => exact this.2.1 b h

theorem digitsVal_reverse (ds : Bytes) (h : AllDigits ds) :
    digitsVal ds.reverse = some (valRev ds) := by
  unfold digitsVal
  rw [List.foldl_reverse]
  induction ds with
  | nil => simp [valRev]
  | cons b rest ih =>
    have hb := h b (by simp)
    have := ih (fun x hx => h x (by simp [hx]))
    simp only [List.foldr_cons, this, valRev]
    simp [isDigit, hb.1, hb.2]
    omega

theorem dec_val (n : Nat) : digitsVal (dec n) = some n := by
  have := decRev_spec (n + 1) n (by omega)
  unfold dec
  rw [digitsVal_reverse _ this.2.1, this.1]

theorem dec_digits (n : Nat) : AllDigits (dec n) := by
  have := decRev_spec (n + 1) n (by omega)
  intro b hb
  unfold dec at hb
  exact this.2.1 b (by simpa using hb)

theorem dec_ne_nil (n : Nat) : dec n ≠ [] := by
  have := decRev_spec (n + 1) n (by omega)
  unfold dec
  simpa using this.2.2

theorem dec_noCR (n : Nat) : 13 ∉ dec n := by
  intro h
  have := dec_digits n 13 h
  omega

theorem parseI64_dec (n : Nat) (h : n ≤ 9223372036854775807) : parseI64 (dec n) = some (n : Int) := by
  have hv := dec_val n
  have hd := dec_digits n
  have hne := dec_ne_nil n
  cases hds : dec n with
  | nil => exact absurd hds hne
  | cons b rest =>
    rw [hds] at hv hd
    have hb := hd b (by simp)
    unfold parseI64
    have h1 : ¬ b = 43 := by omega
    have h2 : ¬ b = 45 := by omega
    simp only [h1, h2, if_false, hv]
    simp [h]

theorem parseI64_showInt (n : Int) (h0 : -9223372036854775808 ≤ n) (h1 : n ≤ 9223372036854775807) :
    parseI64 (showInt n) = some n := by
  unfold showInt
  split
  · rename_i hneg
    unfold parseI64
    have hne := dec_ne_nil n.natAbs
    simp only [show ¬ (45 : Nat) = 43 by decide, if_false, if_true, hne, dec_val]
    have : n.natAbs ≤ 9223372036854775808 := by omega
    simp [this]
    omega
  · rw [parseI64_dec n.toNat (by omega)]
    simp
    omega

theorem showInt_noCR (n : Int) : 13 ∉ showInt n := by
  unfold showInt
  split
  · intro h
    simp at h
    exact dec_noCR _ h
  · exact dec_noCR _

/-! ### decode ∘ encode -/

theorem hdr_find (c : Codec) (hc : c.Good) (t : Nat) (s rest : Bytes) (ht : t ≠ 13)
    (h : c.findCrlf (s ++ 13 :: 10 :: rest) = some s.length) :
    c.findCrlf (t :: (s ++ 13 :: 10 :: rest)) = some (s.length + 1) := by
  rw [hc.skip t _ ht, h]; rfl

theorem hdr_field (t : Nat) (s rest : Bytes) :
    field (t :: (s ++ 13 :: 10 :: rest)) (s.length + 1) = some s := by
  unfold field
  simp

theorem sanitize_noCR (s : Bytes) : 13 ∉ sanitize true s := by
  unfold sanitize
  simp only [if_true, List.mem_map, not_exists, not_and]
  intro x _ h
  split at h <;> omega

theorem encode2ListS_eq (san : Bool) (a : List Val) :
    encode2ListS san a = (a.map (encode2S san)).flatten := by
  induction a with
  | nil => simp [encode2ListS]
  | cons v vs ih => simp [encode2ListS, ih]

theorem encode2S_ne_nil (san : Bool) (v : Val) : encode2S san v ≠ [] := by
  cases v <;> simp [encode2S]

theorem parseLine_encode (c : Codec) (hc : c.Good) (mk : Bytes → Val) (t : Nat) (ht : t ≠ 13)
    (s rest : Bytes) (h13 : 13 ∉ s) (hstr : c.str s = s) :
    (parseLine c mk (t :: (s ++ 13 :: 10 :: rest))).out = .ok (mk s) (s.length + 3) := by
  unfold parseLine
  rw [hdr_find c hc t s rest ht (hc.noCR s rest h13)]
  simp only [hdr_field, hstr]

theorem parseInt_encode (c : Codec) (hc : c.Good) (n : Int) (rest : Bytes)
    (h0 : -9223372036854775808 ≤ n) (h1 : n ≤ 9223372036854775807) :
    (parseInt c (58 :: (showInt n ++ 13 :: 10 :: rest))).out = .ok (.int n) ((showInt n).length + 3) := by
  unfold parseInt
  rw [hdr_find c hc 58 _ rest (by decide) (hc.noCR _ rest (showInt_noCR n))]
  simp only [hdr_field, parseI64_showInt n h0 h1]

theorem parseBulk_encode (c : Codec) (hc : c.Good) (b rest : Bytes)
    (hs : Small (36 :: (dec b.length ++ 13 :: 10 :: (b ++ 13 :: 10 :: rest)))) :
    (parseBulk c (36 :: (dec b.length ++ 13 :: 10 :: (b ++ 13 :: 10 :: rest)))).out =
      .ok (.bulk b) ((dec b.length).length + 3 + b.length + 2) := by
  unfold Small at hs
  simp at hs
  unfold parseBulk
  rw [hdr_find c hc 36 _ _ (by decide) (hc.noCR _ _ (dec_noCR _))]
  simp only [hdr_field, parseI64_dec b.length (by omega)]
  have hne : ¬ ((b.length : Int) = -1) := by omega
  have hneg : ¬ (c.bulkNegCheck = true ∧ (b.length : Int) < 0) := by omega
  simp only [hne, hneg, if_false]
  rw [asUsize_nonneg _ (by omega) (by omega)]
  simp only [Int.toNat_natCast]
  unfold W
  have hm1 : ((dec b.length).length + 1 + 2 + b.length) % 18446744073709551616 = (dec b.length).length + 1 + 2 + b.length :=
    Nat.mod_eq_of_lt (by omega)
  have hm2 : ((dec b.length).length + 1 + 2 + b.length + 2) % 18446744073709551616 = (dec b.length).length + 1 + 2 + b.length + 2 :=
    Nat.mod_eq_of_lt (by omega)
  rw [hm1, hm2]
  have hc1 : ¬ ((dec b.length).length + 1 + 2 + b.length + 2 > (36 :: (dec b.length ++ 13 :: 10 :: (b ++ 13 :: 10 :: rest))).length) := by
    simp; omega
  have hc2 : ¬ ((dec b.length).length + 1 + 2 > (dec b.length).length + 1 + 2 + b.length ∨
      (dec b.length).length + 1 + 2 + b.length > (36 :: (dec b.length ++ 13 :: 10 :: (b ++ 13 :: 10 :: rest))).length) := by
    simp; omega
  simp only [hc1, hc2, if_false]
  congr 2
  · have e1 : (dec b.length).length + 1 + 2 + b.length = ((36 :: (dec b.length ++ [13, 10])) ++ b).length := by
      simp; omega
    have e2 : (36 :: (dec b.length ++ 13 :: 10 :: (b ++ 13 :: 10 :: rest))) = ((36 :: (dec b.length ++ [13, 10])) ++ b) ++ (13 :: 10 :: rest) := by
      simp
    rw [e2, e1, List.take_left']
    · have e3 : (dec b.length).length + 1 + 2 = (36 :: (dec b.length ++ [13, 10])).length := by simp
      rw [e3, List.drop_left']
      rfl
    · rfl

theorem elems_encode (p : Bytes → Res) (ec : Bool) :
    ∀ (a : List Val) (rest : Bytes),
      (∀ v ∈ a, ∀ r, Small (encode2S true v ++ r) →
        (p (encode2S true v ++ r)).out = .ok v.san (encode2S true v).length) →
      Small ((a.map (encode2S true)).flatten ++ rest) →
      (elems p ec a.length ((a.map (encode2S true)).flatten ++ rest)).1 =
        .ok (Val.sanList a) (a.map (encode2S true)).flatten.length := by
  intro a
  induction a with
  | nil => intro rest _ _; simp [elems, Val.sanList]
  | cons v vs ih =>
    intro rest hp hs
    simp only [List.map_cons, List.flatten_cons, List.length_cons, List.append_assoc] at hs ⊢
    unfold elems
    have hne : ¬ (ec = true ∧ encode2S true v ++ ((vs.map (encode2S true)).flatten ++ rest) = []) := by
      intro h
      have := h.2
      simp at this
      exact encode2S_ne_nil true v this.1
    simp only [hne, if_false]
    have hv := hp v (by simp) ((vs.map (encode2S true)).flatten ++ rest) hs
    simp only [hv]
    have hk : ¬ ((encode2S true v).length > (encode2S true v ++ ((vs.map (encode2S true)).flatten ++ rest)).length ∧ vs.length ≠ 0 ∧ ¬ ec = true) := by
      simp; omega
    simp only [hk, if_false]
    rw [List.drop_left']
    · have hs' : Small ((vs.map (encode2S true)).flatten ++ rest) := by
        unfold Small at *; simp at hs ⊢; omega
      have := ih rest (fun x hx => hp x (by simp [hx])) hs'
      cases he : elems p ec vs.length ((vs.map (encode2S true)).flatten ++ rest) with
      | mk e al =>
        rw [he] at this
        simp only at this
        subst this
        simp [Val.sanList]
    · rfl

theorem Val.depthList_mem (a : List Val) (v : Val) (h : v ∈ a) : v.depth ≤ Val.depthList a := by
  induction a with
  | nil => simp at h
  | cons x xs ih =>
    simp only [Val.depthList]
    simp at h
    cases h with
    | inl h => subst h; omega
    | inr h => have := ih h; omega

theorem Val.arrList_mem (a : List Val) (v : Val) (h : v ∈ a) : v.arr ≤ Val.arrList a := by
  induction a with
  | nil => simp at h
  | cons x xs ih =>
    simp only [Val.arrList]
    simp at h
    cases h with
    | inl h => subst h; omega
    | inr h => have := ih h; omega

theorem Val.wfList_mem (c : Codec) (a : List Val) (v : Val) (h : v ∈ a)
    (hw : Val.wfList c a = true) : v.wf c = true := by
  induction a with
  | nil => simp at h
  | cons x xs ih =>
    simp [Val.wfList] at hw
    simp at h
    cases h with
    | inl h => subst h; exact hw.1
    | inr h => exact ih h hw.2

theorem flatten_len_ge (a : List Val) : a.length ≤ (a.map (encode2S true)).flatten.length := by
  induction a with
  | nil => simp
  | cons v vs ih =>
    have h1 : 1 ≤ (encode2S true v).length := by
      cases h : encode2S true v with
      | nil => exact absurd h (encode2S_ne_nil true v)
      | cons _ _ => simp
    simp only [List.map_cons, List.flatten_cons, List.length_append, List.length_cons]
    omega

theorem parseArray_encode (c : Codec) (hc : c.Good) (m : Nat) (hfix : c.Fixed m) (mem : Nat) (p : Bytes → Res)
    (a : List Val) (rest : Bytes)
    (hp : ∀ v ∈ a, ∀ r, Small (encode2S true v ++ r) →
      (p (encode2S true v ++ r)).out = .ok v.san (encode2S true v).length)
    (hs : Small (42 :: (dec a.length ++ 13 :: 10 :: ((a.map (encode2S true)).flatten ++ rest)))) :
    (parseArray c mem p (42 :: (dec a.length ++ 13 :: 10 :: ((a.map (encode2S true)).flatten ++ rest)))).out =
      .ok (.array (Val.sanList a)) ((dec a.length).length + 3 + (a.map (encode2S true)).flatten.length) := by
  have hs0 := hs
  unfold Small at hs
  simp only [List.length_cons, List.length_append] at hs
  unfold parseArray
  rw [hdr_find c hc 42 _ _ (by decide) (hc.noCR _ _ (dec_noCR _))]
  have hlen := flatten_len_ge a
  simp only [hdr_field, parseI64_dec a.length (by omega)]
  have hne : ¬ ((a.length : Int) = -1) := by omega
  have hneg : ¬ (c.arrayNegCheck = true ∧ (a.length : Int) < 0) := by omega
  simp only [hne, hneg, if_false]
  generalize hrem : (42 :: (dec a.length ++ 13 :: 10 :: ((a.map (encode2S true)).flatten ++ rest))).length - ((dec a.length).length + 1 + 2) = rem
  have hreml : rem ≤ (42 :: (dec a.length ++ 13 :: 10 :: ((a.map (encode2S true)).flatten ++ rest))).length := by
    omega
  have hreq : preReq c (a.length : Int) rem ≤ 14 * rem := by
    by_cases hpre : c.prealloc = true
    · exact preReq_capped_le c (hfix.arr hpre).2 _ _
    · unfold preReq; rw [if_neg hpre]; omega
  have h2 : ¬ preReq c (a.length : Int) rem > isizeMax := by
    unfold Small at hs0; unfold isizeMax; omega
  have h3 : ¬ (¬ c.capPrealloc = true ∧ preReq c (a.length : Int) rem ≥ mem ∧ preReq c (a.length : Int) rem ≠ 0) := by
    by_cases hpre : c.prealloc = true
    · simp [(hfix.arr hpre).2]
    · have : preReq c (a.length : Int) rem = 0 := by unfold preReq; rw [if_neg hpre]
      rw [this]; simp
  simp only [h2, h3, if_false, Int.toNat_natCast]
  have hdrop : (42 :: (dec a.length ++ 13 :: 10 :: ((a.map (encode2S true)).flatten ++ rest))).drop ((dec a.length).length + 1 + 2)
      = (a.map (encode2S true)).flatten ++ rest := by
    have e2 : (42 :: (dec a.length ++ 13 :: 10 :: ((a.map (encode2S true)).flatten ++ rest))) =
        (42 :: (dec a.length ++ [13, 10])) ++ ((a.map (encode2S true)).flatten ++ rest) := by simp
    rw [e2, List.drop_left']
    simp
  rw [hdrop]
  have hs' : Small ((a.map (encode2S true)).flatten ++ rest) := by
    unfold Small; simp only [List.length_append]; omega
  have := elems_encode p c.emptyCheck a rest hp hs'
  cases he : elems p c.emptyCheck a.length ((a.map (encode2S true)).flatten ++ rest) with
  | mk e al =>
    rw [he] at this
    simp only at this
    subst this
    simp

/-- DECODE ∘ ENCODE: the repaired decoder reads the repaired encoder's output back as the value
    with its lines as they are on the wire, and nothing else -/
theorem parseD_encode (c : Codec) (hc : c.Good) (m : Nat) (hfix : c.Fixed m) (mem : Nat) :
    ∀ (d nest : Nat) (v : Val), v.depth ≤ d → nest + v.arr ≤ m → v.wf c = true →
      ∀ rest, Small (encode2S true v ++ rest) →
      (parseD c mem d nest (encode2S true v ++ rest)).out = .ok v.san (encode2S true v).length := by
  intro d
  induction d with
  | zero =>
    intro nest v h
    cases v <;> simp [Val.depth] at h
  | succ d ih =>
    intro nest v hd hn hw rest hs
    cases v with
    | simple s =>
      simp [Val.wf, lineOK] at hw
      simp only [encode2S, crlf, List.cons_append, List.append_assoc, List.nil_append]
      rw [parseD]
      simp only [if_true]
      rw [parseLine_encode c hc _ 43 (by decide) _ rest (sanitize_noCR s) hw]
      simp [Val.san]
    | error s =>
      simp [Val.wf, lineOK] at hw
      simp only [encode2S, crlf, List.cons_append, List.append_assoc, List.nil_append]
      rw [parseD]
      simp only [show ¬ (45 : Nat) = 43 by decide, if_false, if_true]
      rw [parseLine_encode c hc _ 45 (by decide) _ rest (sanitize_noCR s) hw]
      simp [Val.san]
    | int n =>
      simp [Val.wf] at hw
      simp only [encode2S, crlf, List.cons_append, List.append_assoc, List.nil_append]
      rw [parseD]
      simp only [show ¬ (58 : Nat) = 43 by decide, show ¬ (58 : Nat) = 45 by decide, if_false, if_true]
      rw [parseInt_encode c hc n rest hw.1 hw.2]
      simp [Val.san]
    | nullBulk =>
      simp only [encode2S, List.cons_append, List.nil_append]
      rw [parseD]
      simp only [show ¬ (36 : Nat) = 43 by decide, show ¬ (36 : Nat) = 45 by decide,
        show ¬ (36 : Nat) = 58 by decide, if_false, if_true]
      unfold parseBulk
      have := hdr_find c hc 36 [45, 49] rest (by decide) (hc.noCR [45, 49] rest (by decide))
      simp only [List.cons_append, List.nil_append, List.length_cons, List.length_nil] at this
      rw [this]
      have hf := hdr_field 36 [45, 49] rest
      simp only [List.cons_append, List.nil_append, List.length_cons, List.length_nil] at hf
      simp only [hf]
      have : parseI64 [45, 49] = some (-1) := by decide
      simp [this, Val.san]
    | bulk b =>
      simp only [encode2S, crlf, List.cons_append, List.append_assoc, List.nil_append] at hs ⊢
      rw [parseD]
      simp only [show ¬ (36 : Nat) = 43 by decide, show ¬ (36 : Nat) = 45 by decide,
        show ¬ (36 : Nat) = 58 by decide, if_false, if_true]
      rw [parseBulk_encode c hc b rest hs]
      simp [Val.san]
      omega
    | nullArray =>
      simp only [encode2S, List.cons_append, List.nil_append]
      rw [parseD]
      simp only [show ¬ (42 : Nat) = 43 by decide, show ¬ (42 : Nat) = 45 by decide,
        show ¬ (42 : Nat) = 58 by decide, show ¬ (42 : Nat) = 36 by decide, if_false, if_true]
      simp only [Val.arr] at hn
      have htd : tooDeep c nest = false := by
        unfold tooDeep; rw [hfix.nest]; simp; omega
      rw [htd]
      simp only [Bool.false_eq_true, if_false]
      unfold parseArray
      have := hdr_find c hc 42 [45, 49] rest (by decide) (hc.noCR [45, 49] rest (by decide))
      simp only [List.cons_append, List.nil_append, List.length_cons, List.length_nil] at this
      rw [this]
      have hf := hdr_field 42 [45, 49] rest
      simp only [List.cons_append, List.nil_append, List.length_cons, List.length_nil] at hf
      simp only [hf]
      have : parseI64 [45, 49] = some (-1) := by decide
      simp [this, Val.san]
    | array a =>
      simp [Val.wf] at hw
      simp only [Val.depth] at hd
      simp only [Val.arr] at hn
      simp only [encode2S, encode2ListS_eq, crlf, List.cons_append, List.append_assoc, List.nil_append] at hs ⊢
      rw [parseD]
      simp only [show ¬ (42 : Nat) = 43 by decide, show ¬ (42 : Nat) = 45 by decide,
        show ¬ (42 : Nat) = 58 by decide, show ¬ (42 : Nat) = 36 by decide, if_false, if_true]
      have htd : tooDeep c nest = false := by
        unfold tooDeep; rw [hfix.nest]; simp; omega
      rw [htd]
      simp only [Bool.false_eq_true, if_false]
      rw [parseArray_encode c hc m hfix mem _ a rest ?_ hs]
      · simp [Val.san]
        omega
      · intro v hv r hr
        have h1 := Val.depthList_mem a v hv
        have h2 := Val.arrList_mem a v hv
        exact ih (nest + 1) v (by omega) (by omega) (Val.wfList_mem c a v hv hw) r hr

/-! ### the buffer-appending encoders produce the same bytes as `RespParser::encode` -/

theorem encodeIntoListS_eq (san : Bool) (a : List Val)
    (h : ∀ v ∈ a, ∀ buf, encodeIntoS san v buf = buf ++ encode2S san v) :
    ∀ init : Bytes, encodeIntoListS san a init = init ++ encode2ListS san a := by
  induction a with
  | nil => intro init; simp [encodeIntoListS, encode2ListS]
  | cons v vs ih =>
    intro init
    simp only [encodeIntoListS, encode2ListS]
    rw [h v (by simp), ih (fun x hx => h x (by simp [hx]))]
    simp

theorem encodeIntoS_eq_aux (san : Bool) : ∀ (d : Nat) (v : Val), v.depth ≤ d → ∀ buf,
    encodeIntoS san v buf = buf ++ encode2S san v := by
  intro d
  induction d with
  | zero => intro v h; cases v <;> simp [Val.depth] at h
  | succ d ih =>
    intro v hd buf
    cases v with
    | array a =>
      simp only [Val.depth] at hd
      rw [encodeIntoS, encode2S]
      rw [encodeIntoListS_eq san a (fun v hv b => ih v (by have := Val.depthList_mem a v hv; omega) b)]
      simp [crlf]
    | simple s => simp [encodeIntoS, encode2S]
    | error s => simp [encodeIntoS, encode2S]
    | int n => simp [encodeIntoS, encode2S]
    | nullBulk => simp [encodeIntoS, encode2S]
    | bulk b => simp [encodeIntoS, encode2S]
    | nullArray => simp [encodeIntoS, encode2S]

theorem encodeIntoS_eq (san : Bool) (v : Val) (buf : Bytes) : encodeIntoS san v buf = buf ++ encode2S san v :=
  encodeIntoS_eq_aux san v.depth v (Nat.le_refl _) buf

theorem encode1_eq (v : Val) : encode1 v = encode2 v := by simp [encode1, encode2, encodeIntoS_eq]
theorem encode4_eq (v : Val) : encode4 v = encode2 v := by simp [encode4, encode2, encodeIntoS_eq]
theorem encode5_eq (v : Val) : encode5 v = encode2 v := by simp [encode5, encode2, encodeIntoS_eq]

theorem encodeConnListS_eq (san : Bool) (a : List Val)
    (h : ∀ v ∈ a, ∀ buf, encodeConnS san false v buf = buf ++ encode2S san v) :
    ∀ init : Bytes, encodeConnListS san false a init = init ++ encode2ListS san a := by
  induction a with
  | nil => intro init; simp [encodeConnListS, encode2ListS]
  | cons v vs ih =>
    intro init
    simp only [encodeConnListS, encode2ListS]
    rw [h v (by simp), ih (fun x hx => h x (by simp [hx]))]
    simp

theorem encodeConnS_eq_aux (san : Bool) : ∀ (d : Nat) (v : Val), v.depth ≤ d → ∀ buf,
    encodeConnS san false v buf = buf ++ encode2S san v := by
  intro d
  induction d with
  | zero => intro v h; cases v <;> simp [Val.depth] at h
  | succ d ih =>
    intro v hd buf
    cases v with
    | array a =>
      simp only [Val.depth] at hd
      rw [encodeConnS, encode2S]
      rw [encodeConnListS_eq san a (fun v hv b => ih v (by have := Val.depthList_mem a v hv; omega) b)]
      simp [crlf]
    | simple s => simp [encodeConnS, encode2S]
    | error s => simp [encodeConnS, encode2S]
    | int n => simp [encodeConnS, encode2S]
    | nullBulk => simp [encodeConnS, encode2S]
    | bulk b => simp [encodeConnS, encode2S]
    | nullArray => simp [encodeConnS, encode2S]

/-- the connection handler's encoder writes the bytes `RespParser::encode` writes -/
theorem encode3_eq (v : Val) : encode3 v = encode2 v := by
  unfold encode3 encode2
  rw [encodeConnS_eq_aux true v.depth v (Nat.le_refl _) []]
  simp

theorem sanitize_append (a b : Bytes) : sanitize true (a ++ b) = sanitize true a ++ sanitize true b := by
  simp [sanitize]

/-- `encode_error_into(msg)` writes the error value whose text is `errText msg` -/
theorem encodeErr_eq (msg : Bytes) : encodeErr msg = encode2 (.error (errText msg)) := by
  unfold encodeErr errText encode2
  split
  · simp [encode2S]
  · rw [encode2S, sanitize_append]
    have : sanitize true [69, 82, 82, 32] = [69, 82, 82, 32] := by decide
    rw [this]
    simp

/-! ### a value without CR / LF in its lines is what is on the wire -/

theorem encodeErr5_eq (msg : Bytes) : encodeErr5 msg = encode2 (.error ([69, 82, 82, 32] ++ msg)) := by
  have h4 : sanitize true [69, 82, 82, 32] = [69, 82, 82, 32] := by decide
  have h5 : sanitize true ([69, 82, 82, 32] ++ msg) = [69, 82, 82, 32] ++ sanitize true msg := by
    rw [sanitize_append, h4]
  unfold encodeErr5 encode2 encode2S
  rw [h5]
  simp [crlf]

theorem sanitize_plain (s : Bytes) (h : (!(s.contains 13) && !(s.contains 10)) = true) : sanitize true s = s := by
  unfold sanitize
  simp only [if_true]
  simp at h
  have : ∀ b ∈ s, (if b = 13 ∨ b = 10 then 32 else b) = b := by
    intro b hb
    have h1 : b ≠ 13 := fun e => h.1 (e ▸ hb)
    have h2 : b ≠ 10 := fun e => h.2 (e ▸ hb)
    simp [h1, h2]
  calc s.map (fun b => if b = 13 ∨ b = 10 then 32 else b) = s.map id := List.map_congr_left this
    _ = s := List.map_id s

theorem Val.plainList_mem (a : List Val) (v : Val) (h : v ∈ a) (hp : Val.plainList a = true) : v.plain = true := by
  induction a with
  | nil => simp at h
  | cons x xs ih =>
    simp [Val.plainList] at hp
    simp at h
    cases h with
    | inl h => subst h; exact hp.1
    | inr h => exact ih h hp.2

theorem sanList_id (a : List Val) (h : ∀ v ∈ a, v.san = v) : Val.sanList a = a := by
  induction a with
  | nil => simp [Val.sanList]
  | cons x xs ih =>
    simp only [Val.sanList]
    rw [h x (by simp), ih (fun v hv => h v (by simp [hv]))]

theorem san_plain_aux : ∀ (d : Nat) (v : Val), v.depth ≤ d → v.plain = true → v.san = v := by
  intro d
  induction d with
  | zero => intro v h; cases v <;> simp [Val.depth] at h
  | succ d ih =>
    intro v hd hp
    cases v with
    | simple s => simp only [Val.plain] at hp; simp [Val.san, sanitize_plain s hp]
    | error s => simp only [Val.plain] at hp; simp [Val.san, sanitize_plain s hp]
    | array a =>
      simp only [Val.depth] at hd
      simp only [Val.plain] at hp
      simp only [Val.san]
      rw [sanList_id a (fun v hv => ih v (by have := Val.depthList_mem a v hv; omega) (Val.plainList_mem a v hv hp))]
    | int n => simp [Val.san]
    | nullBulk => simp [Val.san]
    | bulk b => simp [Val.san]
    | nullArray => simp [Val.san]

theorem san_plain (v : Val) (h : v.plain = true) : v.san = v := san_plain_aux v.depth v (Nat.le_refl _) h

/-! ### the decoders against the independent line grammar -/

theorem findCrlf2_eq_firstCrlf : ∀ bs : Bytes, findCrlf2 bs = firstCrlf bs := by
  intro bs
  induction bs with
  | nil => simp [findCrlf2, firstCrlf]
  | cons a rest ih =>
    cases rest with
    | nil => simp [findCrlf2, firstCrlf]
    | cons b r =>
      unfold findCrlf2
      unfold firstCrlf at ih ⊢
      simp only [List.tail_cons, List.zip_cons_cons, List.findIdx?_cons]
      by_cases h : a = 13 ∧ b = 10
      · simp [h.1, h.2]
      · have h' : (a == 13 && b == 10) = false := by
          simp only [Bool.and_eq_false_iff, beq_eq_false_iff_ne]
          by_cases ha : a = 13
          · right; intro hb; exact h ⟨ha, hb⟩
          · left; exact ha
        simp only [h, if_false, h', Bool.false_eq_true]
        rw [ih]
        simp [List.tail_cons]

/-- the decoder searches lines as the grammar says -/
def Codec.Grammar (c : Codec) : Prop := c.findCrlf = findCrlf2

theorem firstCrlf_take (bs : Bytes) (p : Nat) (h : firstCrlf bs = some p) : firstCrlf (bs.take p) = none := by
  rw [← findCrlf2_eq_firstCrlf] at h ⊢
  cases hq : findCrlf2 (bs.take p) with
  | none => rfl
  | some q =>
    exfalso
    have hb := findCrlf2_bound _ _ hq
    have hst := findCrlf2_stable (bs.take p) (bs.drop p) q hq
    rw [List.take_append_drop, h] at hst
    simp at hb hst
    omega

/-- a `+` / `-` / `:` frame: where its line ends -/
theorem line_frame (c : Codec) (hg : c.Grammar) (t : Nat) (ht : t ≠ 13) (rest : Bytes) :
    (c.findCrlf (t :: rest) = none ∧ firstCrlf rest = none) ∨
    (∃ p, c.findCrlf (t :: rest) = some (p + 1) ∧ firstCrlf rest = some p ∧
      field (t :: rest) (p + 1) = some (rest.take p) ∧ firstCrlf (rest.take p) = none) := by
  rw [hg, findCrlf2_skip t rest ht, findCrlf2_eq_firstCrlf]
  cases h : firstCrlf rest with
  | none => left; simp
  | some p =>
    right
    refine ⟨p, by simp, rfl, ?_, firstCrlf_take rest p h⟩
    unfold field
    simp

theorem parseLine_grammar (c : Codec) (hg : c.Grammar) (mk : Bytes → Val) (t : Nat) (ht : t ≠ 13) (rest : Bytes) :
    (firstCrlf rest = none ∧ (parseLine c mk (t :: rest)).out = .incomplete .noCrlf) ∨
    (∃ p, firstCrlf rest = some p ∧ firstCrlf (rest.take p) = none ∧
      (parseLine c mk (t :: rest)).out = .ok (mk (c.str (rest.take p))) (p + 3)) := by
  unfold parseLine
  rcases line_frame c hg t ht rest with ⟨h1, h2⟩ | ⟨p, h1, h2, h3, h4⟩
  · left; rw [h1]; exact ⟨h2, rfl⟩
  · right; refine ⟨p, h2, h4, ?_⟩; rw [h1]; simp only [h3]

theorem parseInt_grammar (c : Codec) (hg : c.Grammar) (rest : Bytes) :
    (firstCrlf rest = none ∧ (parseInt c (58 :: rest)).out = .incomplete .noCrlf) ∨
    (∃ p, firstCrlf rest = some p ∧ firstCrlf (rest.take p) = none ∧
      (match parseI64 (rest.take p) with
       | some n => (parseInt c (58 :: rest)).out = .ok (.int n) (p + 3)
       | none => (parseInt c (58 :: rest)).out = .error .badInt)) := by
  unfold parseInt
  rcases line_frame c hg 58 (by decide) rest with ⟨h1, h2⟩ | ⟨p, h1, h2, h3, h4⟩
  · left; rw [h1]; exact ⟨h2, rfl⟩
  · right
    refine ⟨p, h2, h4, ?_⟩
    rw [h1]
    simp only [h3]
    cases parseI64 (rest.take p) <;> rfl

/-! ### the two decoders agree -/

theorem Val.lossyList_length (a : List Val) : (Val.lossyList a).length = a.length := by
  induction a with
  | nil => rfl
  | cons v vs ih => simp [Val.lossyList, ih]

/-- codec 1 rejected a length that codec 2 accepts (`*-5\r\n`): the one place they differ -/
def Agree (r1 r2 : Res) : Prop := r1.out.Agrees r2.out ∨ r1.out = .error .badLen

def ElemsAgree (e1 e2 : ElemsOut × List Nat) : Prop :=
  (match e1.1, e2.1 with
   | .ok vs1 k1, .ok vs2 k2 => k1 = k2 ∧ vs2 = Val.lossyList vs1
   | .stop o1, .stop o2 => o1.Agrees o2 ∧ o1.isOk = false
   | _, _ => False) ∨ e1.1 = .stop (.error .badLen)

theorem elems_agree (p1 p2 : Bytes → Res)
    (hag : ∀ s, Small s → Agree (p1 s) (p2 s))
    (hc2 : ∀ s, Small s → ConsumedOK (p2 s) s)
    (h2nil : (p2 []).out.isIncomplete = true) :
    ∀ (n : Nat) (rest : Bytes), Small rest → ElemsAgree (elems p1 true n rest) (elems p2 false n rest) := by
  intro n
  induction n with
  | zero => intro rest _; left; simp [elems, Val.lossyList]
  | succ n ih =>
    intro rest hs
    unfold elems
    by_cases hnil : rest = []
    · subst hnil
      simp only [true_and, if_true, Bool.false_eq_true, false_and, if_false]
      left
      cases h2 : (p2 []).out with
      | incomplete k => simp [Outcome.Agrees, Outcome.isOk]
      | ok v k => simp [h2, Outcome.isIncomplete] at h2nil
      | error k => simp [h2, Outcome.isIncomplete] at h2nil
      | crash k => simp [h2, Outcome.isIncomplete] at h2nil
    · simp only [hnil, and_false, if_false, Bool.false_eq_true, false_and]
      cases hag rest hs with
      | inr hbad =>
        right
        simp [hbad]
      | inl hag1 =>
        cases h1 : (p1 rest).out with
        | ok v1 k1 =>
          cases h2 : (p2 rest).out with
          | ok v2 k2 =>
            rw [h1, h2] at hag1
            simp only [Outcome.Agrees] at hag1
            obtain ⟨hk, hv⟩ := hag1
            subst hk hv
            have hk2 := hc2 rest hs _ _ h2
            simp only []
            have hgt : ¬ (k1 > rest.length ∧ n ≠ 0 ∧ ¬ True) := by simp
            have hgt2 : ¬ (k1 > rest.length ∧ n ≠ 0 ∧ ¬ False) := by omega
            rw [if_neg hgt, if_neg hgt2]
            have hrec := ih (rest.drop k1) (hs.drop k1)
            cases he1 : elems p1 true n (rest.drop k1) with
            | mk e1 a1 =>
              cases he2 : elems p2 false n (rest.drop k1) with
              | mk e2 a2 =>
                rw [he1, he2] at hrec
                unfold ElemsAgree at hrec ⊢
                cases e1 with
                | ok vs1 kk1 =>
                  cases e2 with
                  | ok vs2 kk2 =>
                    simp only [reduceCtorEq, or_false] at hrec
                    left
                    simp only []
                    exact ⟨by rw [hrec.1], by rw [hrec.2]; simp [Val.lossyList]⟩
                  | stop o2 => simp at hrec
                | stop o1 =>
                  cases e2 with
                  | ok vs2 kk2 =>
                    cases hrec with
                    | inl h => simp at h
                    | inr h => right; simp at h; simp [h]
                  | stop o2 =>
                    cases hrec with
                    | inl h => left; simpa using h
                    | inr h => right; simp at h; simp [h]
          | incomplete k => rw [h1, h2] at hag1; simp [Outcome.Agrees] at hag1
          | error k => rw [h1, h2] at hag1; simp [Outcome.Agrees] at hag1
          | crash k => rw [h1, h2] at hag1; simp [Outcome.Agrees] at hag1
        | incomplete i1 =>
          cases h2 : (p2 rest).out with
          | incomplete i2 => left; simp [Outcome.Agrees, Outcome.isOk]
          | ok v k => rw [h1, h2] at hag1; simp [Outcome.Agrees] at hag1
          | error k => rw [h1, h2] at hag1; simp [Outcome.Agrees] at hag1
          | crash k => rw [h1, h2] at hag1; simp [Outcome.Agrees] at hag1
        | error e1 =>
          cases h2 : (p2 rest).out with
          | error e2 =>
            rw [h1, h2] at hag1
            left; simp [Outcome.Agrees, Outcome.isOk] at hag1 ⊢; exact hag1
          | ok v k => rw [h1, h2] at hag1; simp [Outcome.Agrees] at hag1
          | incomplete k => rw [h1, h2] at hag1; simp [Outcome.Agrees] at hag1
          | crash k => rw [h1, h2] at hag1; simp [Outcome.Agrees] at hag1
        | crash c1 =>
          cases h2 : (p2 rest).out with
          | crash c2 =>
            rw [h1, h2] at hag1
            left; simp [Outcome.Agrees, Outcome.isOk] at hag1 ⊢; exact hag1
          | ok v k => rw [h1, h2] at hag1; simp [Outcome.Agrees] at hag1
          | incomplete k => rw [h1, h2] at hag1; simp [Outcome.Agrees] at hag1
          | error k => rw [h1, h2] at hag1; simp [Outcome.Agrees] at hag1

theorem parseLine_agree (mk : Bytes → Val) (hmk : ∀ s, (mk s).lossy = mk (utf8Lossy s)) (bs : Bytes) :
    (parseLine codec1 mk bs).out.Agrees (parseLine codec2 mk bs).out := by
  unfold parseLine
  show (match findCrlf2 bs with | none => _ | some pos => _ : Res).out.Agrees
    (match findCrlf2 bs with | none => _ | some pos => _ : Res).out
  cases findCrlf2 bs with
  | none => simp [Outcome.Agrees]
  | some pos =>
    simp only []
    cases field bs pos with
    | none => simp [Outcome.Agrees]
    | some s => simp [Outcome.Agrees, codec1, codec2, hmk]

theorem parseInt_eq (bs : Bytes) : parseInt codec1 bs = parseInt codec2 bs := rfl
theorem parseBulk_eq (bs : Bytes) : parseBulk codec1 bs = parseBulk codec2 bs := rfl

theorem parseInt_agree (bs : Bytes) : (parseInt codec1 bs).out.Agrees (parseInt codec2 bs).out := by
  rw [← parseInt_eq]
  unfold parseInt
  repeat' (first | (simp [Outcome.Agrees, Val.lossy]; done) | split)

theorem parseBulk_agree (bs : Bytes) : (parseBulk codec1 bs).out.Agrees (parseBulk codec2 bs).out := by
  rw [← parseBulk_eq]
  unfold parseBulk
  repeat' (first | (simp [Outcome.Agrees, Val.lossy]; done) | split | (simp only []))

theorem parseArray_agree (mem : Nat) (p1 p2 : Bytes → Res)
    (hag : ∀ s, Small s → Agree (p1 s) (p2 s))
    (hc2 : ∀ s, Small s → ConsumedOK (p2 s) s)
    (h2nil : (p2 []).out.isIncomplete = true)
    (bs : Bytes) (hs : Small bs) :
    Agree (parseArray codec1 mem p1 bs) (parseArray codec2 mem p2 bs) := by
  unfold Agree parseArray
  simp only [show codec1.findCrlf = findCrlf2 from rfl, show codec2.findCrlf = findCrlf2 from rfl,
    show codec1.emptyCheck = true from rfl, show codec2.emptyCheck = false from rfl]
  cases hpos : findCrlf2 bs with
  | none => left; simp [Outcome.Agrees]
  | some pos =>
    have hb := findCrlf2_bound bs pos hpos
    simp only []
    cases field bs pos with
    | none => left; simp [Outcome.Agrees]
    | some s =>
      simp only []
      cases hn : parseI64 s with
      | none => left; simp [Outcome.Agrees]
      | some n =>
        simp only []
        have hr := parseI64_range s n hn
        by_cases h1 : n = -1
        · left; simp [h1, Outcome.Agrees, Val.lossy]
        · simp only [h1, if_false]
          by_cases hneg : n < 0
          · right
            have : codec1.arrayNegCheck = true ∧ n < 0 := ⟨rfl, hneg⟩
            simp [this]
          · have e1 : ¬ (codec1.arrayNegCheck = true ∧ n < 0) := fun h => hneg h.2
            have e2 : ¬ (codec2.arrayNegCheck = true ∧ n < 0) := fun h => hneg h.2
            simp only [e1, e2, if_false]
            have hp2 : ∀ r, preReq codec2 n r = 0 := by intro r; simp [preReq, codec2]
            have hp1 := preReq_capped_le codec1 rfl n (bs.length - (pos + 2))
            have c1 : ¬ preReq codec1 n (bs.length - (pos + 2)) > isizeMax := by
              unfold Small at hs; unfold isizeMax; omega
            have c2 : ¬ (¬ codec1.capPrealloc = true ∧ preReq codec1 n (bs.length - (pos + 2)) ≥ mem ∧
                preReq codec1 n (bs.length - (pos + 2)) ≠ 0) := by simp [codec1]
            have c3 : ¬ preReq codec2 n (bs.length - (pos + 2)) > isizeMax := by rw [hp2]; unfold isizeMax; omega
            have c4 : ¬ (¬ codec2.capPrealloc = true ∧ preReq codec2 n (bs.length - (pos + 2)) ≥ mem ∧
                preReq codec2 n (bs.length - (pos + 2)) ≠ 0) := by rw [hp2]; simp
            simp only [c1, c2, c3, c4, if_false]
            have hel := elems_agree p1 p2 hag hc2 h2nil n.toNat (bs.drop (pos + 2)) (hs.drop _)
            cases he1 : elems p1 true n.toNat (bs.drop (pos + 2)) with
            | mk x1 a1 =>
              cases he2 : elems p2 false n.toNat (bs.drop (pos + 2)) with
              | mk x2 a2 =>
                rw [he1, he2] at hel
                unfold ElemsAgree at hel
                cases x1 with
                | ok vs1 k1 =>
                  cases x2 with
                  | ok vs2 k2 =>
                    simp only [reduceCtorEq, or_false] at hel
                    left
                    simp only [Outcome.Agrees, Val.lossy]
                    exact ⟨by rw [hel.1], by rw [hel.2]⟩
                  | stop o2 => simp at hel
                | stop o1 =>
                  cases x2 with
                  | ok vs2 k2 =>
                    cases hel with
                    | inl h => simp at h
                    | inr h => right; simp at h; simp [h]
                  | stop o2 =>
                    cases hel with
                    | inl h => left; exact h.1
                    | inr h => right; simp at h; simp [h]

/-- THE TWO DECODERS AGREE (after the fixes): same value up to the lossy UTF-8 conversion of line
    texts with the same consumed count, both "more bytes needed", or the same protocol error —
    except where codec 1 rejects a negative array length that codec 2 reads as an empty array -/
theorem parseD_agree (mem : Nat) :
    ∀ (d nest : Nat) (bs : Bytes), nest ≤ maxNesting → maxNesting + 1 ≤ d + nest → Small bs →
      Agree (parseD codec1 mem d nest bs) (parseD codec2 mem d nest bs) := by
  intro d
  induction d with
  | zero => intro nest bs h1 h2 _; omega
  | succ d ih =>
    intro nest bs hn hd hs
    cases bs with
    | nil => left; simp [parseD, Outcome.Agrees]
    | cons t rest =>
      unfold parseD
      by_cases h1 : t = 43
      · simp only [h1, if_true]
        exact Or.inl (parseLine_agree Val.simple (fun _ => rfl) _)
      · simp only [h1, if_false]
        by_cases h2 : t = 45
        · simp only [h2, if_true]
          exact Or.inl (parseLine_agree Val.error (fun _ => rfl) _)
        · simp only [h2, if_false]
          by_cases h3 : t = 58
          · simp only [h3, if_true]
            exact Or.inl (parseInt_agree _)
          · simp only [h3, if_false]
            by_cases h4 : t = 36
            · simp only [h4, if_true]
              exact Or.inl (parseBulk_agree _)
            · simp only [h4, if_false]
              by_cases h5 : t = 42
              · simp only [h5, if_true]
                have htd : tooDeep codec1 nest = tooDeep codec2 nest := rfl
                rw [← htd]
                by_cases h6 : tooDeep codec1 nest = true
                · left; simp [h6, Outcome.Agrees]
                · simp only [h6, if_false]
                  have hlt : nest < maxNesting := by
                    unfold tooDeep at h6
                    simp [codec1] at h6
                    exact h6
                  refine parseArray_agree mem _ _ (fun s hss => ih (nest + 1) s (by omega) (by omega) hss)
                    (parseD_consumed codec2 codec2_good mem d (nest + 1)) ?_ _ hs
                  have : 1 ≤ d := by omega
                  cases d with
                  | zero => omega
                  | succ d' => simp [parseD, Outcome.isIncomplete]
              · left; simp [h5, Outcome.Agrees]

end RedisVerif.Resp
