import RedisVerif.Model.Resp

/-
  Helper lemmas about the RESP decoder model (M6): line-terminator search, consumed counts,
  stability of decided outcomes under extension of the input, absence of crashes under the
  sanity predicates, allocation bounds.  Everything is proved for the generic decoder `parseD c`
  under `Codec.Good c`, which both `codec1` and `codec2` satisfy.
-/
namespace RedisVerif.Resp

/-- Rust slices hold at most `isize::MAX` bytes -/
def Small (bs : Bytes) : Prop := bs.length < 9223372036854775808

instance (bs : Bytes) : Decidable (Small bs) := by unfold Small; infer_instance

/-! ### line terminator search -/

theorem findCrlf1_bound : ∀ (bs : Bytes) (p : Nat), findCrlf1 bs = some p → p + 2 ≤ bs.length := by
  intro bs
  induction bs with
  | nil => intro p h; simp [findCrlf1] at h
  | cons b rest ih =>
    intro p h
    unfold findCrlf1 at h
    by_cases hb : b = 13
    · simp only [hb, if_true] at h
      cases rest with
      | nil => simp at h
      | cons c r =>
        by_cases hc : c = 10
        · simp [hc] at h; subst h; simp
        · simp [hc] at h
    · simp only [hb, if_false] at h
      cases hq : findCrlf1 rest with
      | none => simp [hq] at h
      | some q =>
        simp [hq] at h
        have := ih q hq
        subst h
        simp
        omega

theorem findCrlf1_stable : ∀ (a b : Bytes) (p : Nat), findCrlf1 a = some p → findCrlf1 (a ++ b) = some p := by
  intro a
  induction a with
  | nil => intro b p h; simp [findCrlf1] at h
  | cons x rest ih =>
    intro b p h
    unfold findCrlf1 at h
    simp only [List.cons_append]
    unfold findCrlf1
    by_cases hx : x = 13
    · simp only [hx, if_true] at h ⊢
      cases rest with
      | nil => simp at h
      | cons c r =>
        by_cases hc : c = 10
        · simp [hc] at h ⊢; exact h
        · simp [hc] at h
    · simp only [hx, if_false] at h ⊢
      cases hq : findCrlf1 rest with
      | none => simp [hq] at h
      | some q =>
        simp [hq] at h
        rw [ih b q hq]
        simp [h]

theorem findCrlf1_pos (t : Nat) (rest : Bytes) (p : Nat) (ht : t ≠ 13)
    (h : findCrlf1 (t :: rest) = some p) : 1 ≤ p := by
  unfold findCrlf1 at h
  simp only [ht, if_false] at h
  cases hq : findCrlf1 rest with
  | none => simp [hq] at h
  | some q => simp [hq] at h; omega

theorem findCrlf2_bound : ∀ (bs : Bytes) (p : Nat), findCrlf2 bs = some p → p + 2 ≤ bs.length := by
  intro bs
  induction bs with
  | nil => intro p h; simp [findCrlf2] at h
  | cons x rest ih =>
    intro p h
    cases rest with
    | nil => simp [findCrlf2] at h
    | cons y r =>
      unfold findCrlf2 at h
      by_cases hxy : x = 13 ∧ y = 10
      · simp only [hxy, and_self, if_true] at h
        simp at h; subst h; simp
      · simp only [hxy, if_false] at h
        cases hq : findCrlf2 (y :: r) with
        | none => simp [hq] at h
        | some q =>
          simp [hq] at h
          have := ih q hq
          subst h
          simp at this ⊢
          omega

theorem findCrlf2_stable : ∀ (a b : Bytes) (p : Nat), findCrlf2 a = some p → findCrlf2 (a ++ b) = some p := by
  intro a
  induction a with
  | nil => intro b p h; simp [findCrlf2] at h
  | cons x rest ih =>
    intro b p h
    cases rest with
    | nil => simp [findCrlf2] at h
    | cons y r =>
      unfold findCrlf2 at h
      simp only [List.cons_append]
      unfold findCrlf2
      by_cases hxy : x = 13 ∧ y = 10
      · simp only [hxy, and_self, if_true] at h ⊢
        exact h
      · simp only [hxy, if_false] at h ⊢
        cases hq : findCrlf2 (y :: r) with
        | none => simp [hq] at h
        | some q =>
          simp [hq] at h
          have := ih b q hq
          simp only [List.cons_append] at this
          rw [this]
          simp [h]

theorem findCrlf2_pos (t : Nat) (rest : Bytes) (p : Nat) (ht : t ≠ 13)
    (h : findCrlf2 (t :: rest) = some p) : 1 ≤ p := by
  cases rest with
  | nil => simp [findCrlf2] at h
  | cons y r =>
    unfold findCrlf2 at h
    have : ¬ (t = 13 ∧ y = 10) := fun hh => ht hh.1
    simp only [this, if_false] at h
    cases hq : findCrlf2 (y :: r) with
    | none => simp [hq] at h
    | some q => simp [hq] at h; omega

/-! ### from_utf8_lossy never grows a string by more than a factor 3 -/

theorem utf8Lossy_length (bs : Bytes) : (utf8Lossy bs).length ≤ 3 * bs.length := by
  fun_induction utf8Lossy bs <;> simp_all [fffd] <;> omega

/-- what the generic theorems need to know about a codec -/
structure Codec.Good (c : Codec) : Prop where
  bound : ∀ (bs : Bytes) (p : Nat), c.findCrlf bs = some p → p + 2 ≤ bs.length
  stable : ∀ (a b : Bytes) (p : Nat), c.findCrlf a = some p → c.findCrlf (a ++ b) = some p
  pos : ∀ (t : Nat) (rest : Bytes) (p : Nat), t ≠ 13 → c.findCrlf (t :: rest) = some p → 1 ≤ p
  strLen : ∀ s : Bytes, (c.str s).length ≤ 3 * s.length
  skip : ∀ (t : Nat) (rest : Bytes), t ≠ 13 → c.findCrlf (t :: rest) = (c.findCrlf rest).map (· + 1)
  noCR : ∀ (s rest : Bytes), 13 ∉ s → c.findCrlf (s ++ 13 :: 10 :: rest) = some s.length

theorem findCrlf1_skip (t : Nat) (rest : Bytes) (ht : t ≠ 13) :
    findCrlf1 (t :: rest) = (findCrlf1 rest).map (· + 1) := by
  rw [findCrlf1]; simp [ht]

theorem findCrlf2_skip (t : Nat) (rest : Bytes) (ht : t ≠ 13) :
    findCrlf2 (t :: rest) = (findCrlf2 rest).map (· + 1) := by
  cases rest with
  | nil => simp [findCrlf2]
  | cons y r => rw [findCrlf2]; simp [ht]

theorem findCrlf1_noCR : ∀ (s rest : Bytes), 13 ∉ s → findCrlf1 (s ++ 13 :: 10 :: rest) = some s.length := by
  intro s
  induction s with
  | nil => intro rest _; simp [findCrlf1]
  | cons x xs ih =>
    intro rest h
    simp at h
    simp only [List.cons_append]
    rw [findCrlf1_skip x _ (fun e => h.1 e.symm), ih rest h.2]
    simp

theorem findCrlf2_noCR : ∀ (s rest : Bytes), 13 ∉ s → findCrlf2 (s ++ 13 :: 10 :: rest) = some s.length := by
  intro s
  induction s with
  | nil => intro rest _; simp [findCrlf2]
  | cons x xs ih =>
    intro rest h
    simp at h
    simp only [List.cons_append]
    rw [findCrlf2_skip x _ (fun e => h.1 e.symm), ih rest h.2]
    simp

theorem codec1_good : codec1.Good where
  bound := findCrlf1_bound
  stable := findCrlf1_stable
  pos := findCrlf1_pos
  strLen := by intro s; simp [codec1]; omega
  skip := findCrlf1_skip
  noCR := findCrlf1_noCR

theorem codec2_good : codec2.Good where
  bound := findCrlf2_bound
  stable := findCrlf2_stable
  pos := findCrlf2_pos
  strLen := utf8Lossy_length
  skip := findCrlf2_skip
  noCR := findCrlf2_noCR

/-! ### consumed counts -/

/-- a successful decode consumed at least one byte and no more than there are -/
def ConsumedOK (r : Res) (bs : Bytes) : Prop :=
  ∀ v k, r.out = .ok v k → 1 ≤ k ∧ k ≤ bs.length

theorem Small.drop {bs : Bytes} (h : Small bs) (k : Nat) : Small (bs.drop k) := by
  unfold Small at *; simp; omega

theorem parseLine_consumed (c : Codec) (hc : c.Good) (mk : Bytes → Val) (bs : Bytes) :
    ConsumedOK (parseLine c mk bs) bs := by
  intro v k h
  unfold parseLine at h
  split at h
  · simp at h
  · rename_i pos hpos
    have := hc.bound bs pos hpos
    split at h
    · simp at h
    · simp at h; omega

theorem parseInt_consumed (c : Codec) (hc : c.Good) (bs : Bytes) :
    ConsumedOK (parseInt c bs) bs := by
  intro v k h
  unfold parseInt at h
  split at h
  · simp at h
  · rename_i pos hpos
    have := hc.bound bs pos hpos
    split at h
    · simp at h
    · split at h
      · simp at h
      · simp at h; omega

theorem parseBulk_consumed (c : Codec) (hc : c.Good) (bs : Bytes) (hs : Small bs) :
    ConsumedOK (parseBulk c bs) bs := by
  intro v k h
  unfold parseBulk at h
  split at h
  · simp at h
  · rename_i pos hpos
    have := hc.bound bs pos hpos
    split at h
    · simp at h
    · split at h
      · simp at h
      · split at h
        · simp at h; omega
        · simp only at h
          split at h
          · simp at h
          · split at h
            · simp at h
            · simp at h
              unfold Small at hs
              unfold W at *
              omega

/-- the element loop stops only with a non-`ok` outcome -/
theorem elems_stop_not_ok (p : Bytes → Res) (ec : Bool) :
    ∀ (n : Nat) (rest : Bytes) (v : Val) (k : Nat) (a : List Nat),
      elems p ec n rest ≠ (.stop (.ok v k), a) := by
  intro n
  induction n with
  | zero => intro rest v k a h; simp [elems] at h
  | succ n ih =>
    intro rest v k a h
    unfold elems at h
    split at h
    · simp at h
    · simp only at h
      split at h
      · split at h
        · simp at h
        · split at h
          · simp at h
          · rename_i o a' he
            simp at h
            obtain ⟨h1, _⟩ := h
            subst h1
            exact ih _ _ _ _ he
      · rename_i hne
        simp at h
        obtain ⟨h1, _⟩ := h
        exact hne v k h1

theorem elems_consumed (p : Bytes → Res) (ec : Bool)
    (hp : ∀ rest, Small rest → ConsumedOK (p rest) rest) :
    ∀ (n : Nat) (rest : Bytes), Small rest → ∀ vs k a, elems p ec n rest = (.ok vs k, a) →
      k ≤ rest.length ∧ vs.length = n ∧ n ≤ k := by
  intro n
  induction n with
  | zero =>
    intro rest _ vs k a h
    simp [elems] at h
    obtain ⟨⟨h1, h2⟩, _⟩ := h
    subst h1 h2
    simp
  | succ n ih =>
    intro rest hs vs k a h
    unfold elems at h
    split at h
    · simp at h
    · simp only at h
      split at h
      · rename_i v k0 hk0
        have h0 := hp rest hs v k0 hk0
        split at h
        · simp at h
        · split at h
          · rename_i vs' k' a' he
            have := ih (rest.drop k0) (hs.drop k0) vs' k' a' he
            simp at h
            obtain ⟨⟨h1, h2⟩, _⟩ := h
            subst h1 h2
            simp at this ⊢
            omega
          · simp at h
      · simp at h

theorem parseArray_consumed (c : Codec) (hc : c.Good) (mem : Nat) (p : Bytes → Res)
    (hp : ∀ rest, Small rest → ConsumedOK (p rest) rest) (bs : Bytes) (hs : Small bs) :
    ConsumedOK (parseArray c mem p bs) bs := by
  intro v k h
  unfold parseArray at h
  split at h
  · simp at h
  · rename_i pos hpos
    have := hc.bound bs pos hpos
    split at h
    · simp at h
    · split at h
      · simp at h
      · split at h
        · simp at h; omega
        · split at h
          · simp at h
          · split at h
            · simp at h
            · split at h
              · rename_i vs k' a he
                have := elems_consumed p c.emptyCheck hp _ _ (hs.drop (pos + 2)) vs k' a he
                simp at h this
                omega
              · rename_i o a he
                simp only at h
                subst h
                exact absurd he (elems_stop_not_ok p c.emptyCheck _ _ _ _ _)

theorem parseD_consumed (c : Codec) (hc : c.Good) (mem : Nat) :
    ∀ (d : Nat) (bs : Bytes), Small bs → ConsumedOK (parseD c mem d bs) bs := by
  intro d
  induction d with
  | zero => intro bs _ v k h; simp [parseD] at h
  | succ d ih =>
    intro bs hs
    cases bs with
    | nil => intro v k h; simp [parseD] at h
    | cons t rest =>
      unfold parseD
      split
      · exact parseLine_consumed c hc _ _
      · split
        · exact parseLine_consumed c hc _ _
        · split
          · exact parseInt_consumed c hc _
          · split
            · exact parseBulk_consumed c hc _ hs
            · split
              · exact parseArray_consumed c hc mem _ ih _ hs
              · intro v k h; simp at h

/-! ### decided outcomes are stable under extension of the input -/

/-- the decoder did not ask for more bytes -/
def Decided (r : Res) : Prop := r.out.isIncomplete = false

theorem Small.of_append {a b : Bytes} (h : Small (a ++ b)) : Small a := by
  unfold Small at *; simp at h; omega

theorem field_append (a b : Bytes) (pos : Nat) (h : pos ≤ a.length) :
    field (a ++ b) pos = field a pos := by
  unfold field
  rw [List.take_append_of_le_length h]

theorem parseLine_stable (c : Codec) (hc : c.Good) (mk : Bytes → Val) (a b : Bytes)
    (hd : Decided (parseLine c mk a)) : parseLine c mk (a ++ b) = parseLine c mk a := by
  unfold Decided at hd
  unfold parseLine at hd ⊢
  cases hpos : c.findCrlf a with
  | none => simp [hpos, Outcome.isIncomplete] at hd
  | some pos =>
    have hb := hc.bound a pos hpos
    have hf := field_append a b pos (by omega)
    simp only [hc.stable a b pos hpos, hf]

theorem parseInt_stable (c : Codec) (hc : c.Good) (a b : Bytes)
    (hd : Decided (parseInt c a)) : parseInt c (a ++ b) = parseInt c a := by
  unfold Decided at hd
  unfold parseInt at hd ⊢
  cases hpos : c.findCrlf a with
  | none => simp [hpos, Outcome.isIncomplete] at hd
  | some pos =>
    have hb := hc.bound a pos hpos
    have hf := field_append a b pos (by omega)
    simp only [hc.stable a b pos hpos, hf]

theorem parseBulk_stable (c : Codec) (hc : c.Good) (a b : Bytes) (hs : Small (a ++ b))
    (hd : Decided (parseBulk c a)) : parseBulk c (a ++ b) = parseBulk c a := by
  unfold Decided at hd
  unfold parseBulk at hd ⊢
  cases hpos : c.findCrlf a with
  | none => simp [hpos, Outcome.isIncomplete] at hd
  | some pos =>
    have hb := hc.bound a pos hpos
    have hfa := field_append a b pos (by omega)
    simp only [hc.stable a b pos hpos, hfa]
    simp only [hpos] at hd
    cases hf : field a pos with
    | none => rfl
    | some s =>
      simp only [hf] at hd ⊢
      cases hn : parseI64 s with
      | none => rfl
      | some n =>
        simp only [hn] at hd ⊢
        by_cases h1 : n = -1
        · simp [h1]
        · simp only [h1, if_false] at hd ⊢
          unfold Small at hs
          simp only [List.length_append] at hs ⊢
          generalize asUsize n = m at hd ⊢
          unfold W at *
          by_cases h2 : ((pos + 2 + m) % 18446744073709551616 + 2) % 18446744073709551616 > a.length
          · rw [if_pos h2] at hd
            simp [Outcome.isIncomplete] at hd
          · have h2' : ¬ (((pos + 2 + m) % 18446744073709551616 + 2) % 18446744073709551616 > a.length + b.length) := by omega
            simp only [h2, h2', if_false]
            by_cases h3 : pos + 2 > (pos + 2 + m) % 18446744073709551616 ∨ (pos + 2 + m) % 18446744073709551616 > a.length
            · have h3' : pos + 2 > (pos + 2 + m) % 18446744073709551616 ∨ (pos + 2 + m) % 18446744073709551616 > a.length + b.length := by
                omega
              simp [h3, h3']
            · have h3' : ¬ (pos + 2 > (pos + 2 + m) % 18446744073709551616 ∨ (pos + 2 + m) % 18446744073709551616 > a.length + b.length) := by
                omega
              simp only [h3, h3', if_false]
              rw [List.take_append_of_le_length (by omega)]

/-- the element loop did not stop for lack of bytes -/
def ElemsDecided (e : ElemsOut × List Nat) : Prop :=
  match e.1 with
  | .stop o => o.isIncomplete = false
  | .ok _ _ => True

theorem elems_stable (p : Bytes → Res) (ec : Bool)
    (hc : ∀ rest, Small rest → ConsumedOK (p rest) rest)
    (hst : ∀ a b, Small (a ++ b) → Decided (p a) → p (a ++ b) = p a) :
    ∀ (n : Nat) (a b : Bytes), Small (a ++ b) → ElemsDecided (elems p ec n a) →
      elems p ec n (a ++ b) = elems p ec n a := by
  intro n
  induction n with
  | zero => intro a b _ _; simp [elems]
  | succ n ih =>
    intro a b hs hd
    unfold elems at hd ⊢
    by_cases h0 : ec = true ∧ a = []
    · simp [h0, ElemsDecided, Outcome.isIncomplete] at hd
    · have h0' : ¬ (ec = true ∧ a ++ b = []) := by
        intro hh
        apply h0
        refine ⟨hh.1, ?_⟩
        have := hh.2
        simp at this
        exact this.1
      simp only [h0, h0', if_false] at hd ⊢
      by_cases hpd : Decided (p a)
      · rw [hst a b hs hpd]
        cases hout : (p a).out with
        | ok v k =>
          have hk := hc a hs.of_append v k hout
          simp only [hout] at hd ⊢
          have hk1 : ¬ (k > a.length ∧ n ≠ 0 ∧ ¬ ec = true) := by omega
          have hk2 : ¬ (k > (a ++ b).length ∧ n ≠ 0 ∧ ¬ ec = true) := by simp; omega
          simp only [hk1, hk2, if_false] at hd ⊢
          have hdrop : (a ++ b).drop k = a.drop k ++ b := List.drop_append_of_le_length hk.2
          rw [hdrop]
          have hs' : Small (a.drop k ++ b) := by
            unfold Small at *; simp at hs ⊢; omega
          have hd' : ElemsDecided (elems p ec n (a.drop k)) := by
            unfold ElemsDecided at hd ⊢
            cases he : elems p ec n (a.drop k) with
            | mk e al =>
              cases e with
              | ok vs k' => trivial
              | stop o => simp [he] at hd; exact hd
          rw [ih (a.drop k) b hs' hd']
        | incomplete k => simp [Decided, hout, Outcome.isIncomplete] at hpd
        | error k => simp
        | crash k => simp
      · -- p a is incomplete: the loop stops incomplete, excluded
        unfold Decided at hpd
        cases hout : (p a).out with
        | incomplete k => simp [hout, ElemsDecided, Outcome.isIncomplete] at hd
        | ok v k => simp [hout, Outcome.isIncomplete] at hpd
        | error k => simp [hout, Outcome.isIncomplete] at hpd
        | crash k => simp [hout, Outcome.isIncomplete] at hpd

theorem parseArray_stable (c : Codec) (hc : c.Good) (mem : Nat) (p : Bytes → Res)
    (hpc : ∀ rest, Small rest → ConsumedOK (p rest) rest)
    (hst : ∀ a b, Small (a ++ b) → Decided (p a) → p (a ++ b) = p a)
    (a b : Bytes) (hs : Small (a ++ b)) (hd : Decided (parseArray c mem p a)) :
    parseArray c mem p (a ++ b) = parseArray c mem p a := by
  unfold Decided at hd
  unfold parseArray at hd ⊢
  cases hpos : c.findCrlf a with
  | none => simp [hpos, Outcome.isIncomplete] at hd
  | some pos =>
    have hb := hc.bound a pos hpos
    have hfa := field_append a b pos (by omega)
    simp only [hc.stable a b pos hpos, hfa]
    simp only [hpos] at hd
    cases hf : field a pos with
    | none => rfl
    | some s =>
      simp only [hf] at hd ⊢
      cases hn : parseI64 s with
      | none => rfl
      | some n =>
        simp only [hn] at hd ⊢
        by_cases h1 : n = -1
        · simp [h1]
        · simp only [h1, if_false] at hd ⊢
          by_cases h2 : preReq c n > isizeMax
          · simp [h2]
          · simp only [h2, if_false] at hd ⊢
            by_cases h3 : preReq c n ≥ mem ∧ preReq c n ≠ 0
            · simp [h3]
            · simp only [h3, if_false] at hd ⊢
              have hdrop : (a ++ b).drop (pos + 2) = a.drop (pos + 2) ++ b :=
                List.drop_append_of_le_length (by omega)
              rw [hdrop]
              have hs' : Small (a.drop (pos + 2) ++ b) := by
                unfold Small at *; simp at hs ⊢; omega
              have hd' : ElemsDecided (elems p c.emptyCheck n.toNat (a.drop (pos + 2))) := by
                unfold ElemsDecided
                cases he : elems p c.emptyCheck n.toNat (a.drop (pos + 2)) with
                | mk e al =>
                  cases e with
                  | ok vs k' => trivial
                  | stop o => simp [he] at hd; exact hd
              rw [elems_stable p c.emptyCheck hpc hst _ _ b hs' hd']

theorem parseD_stable (c : Codec) (hc : c.Good) (mem : Nat) :
    ∀ (d : Nat) (a b : Bytes), Small (a ++ b) → Decided (parseD c mem d a) →
      parseD c mem d (a ++ b) = parseD c mem d a := by
  intro d
  induction d with
  | zero => intro a b _ _; simp [parseD]
  | succ d ih =>
    intro a b hs hd
    cases a with
    | nil => simp [Decided, parseD, Outcome.isIncomplete] at hd
    | cons t rest =>
      simp only [List.cons_append] at hs ⊢
      unfold parseD at hd ⊢
      by_cases h1 : t = 43
      · simp only [h1, if_true] at hd ⊢
        exact parseLine_stable c hc _ _ b hd
      · simp only [h1, if_false] at hd ⊢
        by_cases h2 : t = 45
        · simp only [h2, if_true] at hd ⊢
          exact parseLine_stable c hc _ _ b hd
        · simp only [h2, if_false] at hd ⊢
          by_cases h3 : t = 58
          · simp only [h3, if_true] at hd ⊢
            exact parseInt_stable c hc _ b hd
          · simp only [h3, if_false] at hd ⊢
            by_cases h4 : t = 36
            · simp only [h4, if_true] at hd ⊢
              exact parseBulk_stable c hc _ b hs hd
            · simp only [h4, if_false] at hd ⊢
              by_cases h5 : t = 42
              · simp only [h5, if_true] at hd ⊢
                exact parseArray_stable c hc mem _ (parseD_consumed c hc mem d) ih _ b hs hd
              · simp only [h5, if_false]

/-! ### no crash under the sanity predicates -/

theorem parseI64_range (s : Bytes) (n : Int) (h : parseI64 s = some n) :
    -9223372036854775808 ≤ n ∧ n ≤ 9223372036854775807 := by
  unfold parseI64 at h
  split at h
  · simp at h
  · split at h
    · split at h
      · simp at h
      · split at h
        · split at h
          · simp at h; omega
          · simp at h
        · simp at h
    · split at h
      · split at h
        · simp at h
        · split at h
          · split at h
            · simp at h; omega
            · simp at h
          · simp at h
      · split at h
        · split at h
          · simp at h; omega
          · simp at h
        · simp at h

theorem asUsize_nonneg (n : Int) (h0 : 0 ≤ n) (h1 : n ≤ 9223372036854775807) :
    asUsize n = n.toNat := by
  unfold asUsize W
  omega

theorem LengthsSane_drop (c : Codec) : ∀ (bs : Bytes) (k : Nat),
    LengthsSane c bs = true → LengthsSane c (bs.drop k) = true := by
  intro bs
  induction bs with
  | nil => intro k _; simp [LengthsSane]
  | cons b rest ih =>
    intro k h
    cases k with
    | zero => simpa using h
    | succ k =>
      simp only [List.drop_succ_cons]
      apply ih
      simp [LengthsSane] at h
      exact h.2

theorem LengthsSane_head (c : Codec) (b : Nat) (rest : Bytes)
    (h : LengthsSane c (b :: rest) = true) : headerSane c (b :: rest) = true := by
  simp [LengthsSane] at h
  exact h.1

theorem stars_drop : ∀ (bs : Bytes) (k : Nat), stars (bs.drop k) ≤ stars bs := by
  intro bs
  induction bs with
  | nil => intro k; simp [stars]
  | cons b rest ih =>
    intro k
    cases k with
    | zero => simp
    | succ k =>
      simp only [List.drop_succ_cons, stars]
      have := ih k
      omega

def NoCrash (r : Res) : Prop := r.out.isCrash = false

theorem parseLine_no_crash (c : Codec) (hc : c.Good) (mk : Bytes → Val) (t : Nat) (rest : Bytes)
    (ht : t ≠ 13) : NoCrash (parseLine c mk (t :: rest)) := by
  unfold NoCrash parseLine
  cases hpos : c.findCrlf (t :: rest) with
  | none => simp [Outcome.isCrash]
  | some pos =>
    have := hc.pos t rest pos ht hpos
    have hf : field (t :: rest) pos = some (((t :: rest).take pos).drop 1) := by
      unfold field; simp; omega
    simp [hf, Outcome.isCrash]

theorem parseInt_no_crash (c : Codec) (hc : c.Good) (t : Nat) (rest : Bytes)
    (ht : t ≠ 13) : NoCrash (parseInt c (t :: rest)) := by
  unfold NoCrash parseInt
  cases hpos : c.findCrlf (t :: rest) with
  | none => simp [Outcome.isCrash]
  | some pos =>
    have := hc.pos t rest pos ht hpos
    have hf : field (t :: rest) pos = some (((t :: rest).take pos).drop 1) := by
      unfold field; simp; omega
    simp only [hf]
    cases parseI64 (((t :: rest).take pos).drop 1) <;> simp [Outcome.isCrash]

theorem parseBulk_no_crash (c : Codec) (hc : c.Good) (rest : Bytes)
    (hs : (36 :: rest).length < 9223372036854775800) (hsane : headerSane c (36 :: rest) = true) :
    NoCrash (parseBulk c (36 :: rest)) := by
  unfold NoCrash parseBulk
  cases hpos : c.findCrlf (36 :: rest) with
  | none => simp [Outcome.isCrash]
  | some pos =>
    have hp1 := hc.pos 36 rest pos (by decide) hpos
    have hb := hc.bound _ pos hpos
    have hf : field (36 :: rest) pos = some (((36 :: rest).take pos).drop 1) := by
      unfold field; simp; omega
    simp only [hf]
    cases hn : parseI64 (((36 :: rest).take pos).drop 1) with
    | none => simp [Outcome.isCrash]
    | some n =>
      simp only []
      have hr := parseI64_range _ n hn
      unfold headerSane at hsane
      simp only [hpos, hf, hn] at hsane
      simp at hsane
      by_cases h1 : n = -1
      · simp [h1, Outcome.isCrash]
      · simp only [h1, if_false]
        have hu := asUsize_nonneg n (by omega) hr.2
        rw [hu]
        unfold W
        have hm1 : (pos + 2 + n.toNat) % 18446744073709551616 = pos + 2 + n.toNat :=
          Nat.mod_eq_of_lt (by omega)
        have hm2 : (pos + 2 + n.toNat + 2) % 18446744073709551616 = pos + 2 + n.toNat + 2 :=
          Nat.mod_eq_of_lt (by omega)
        rw [hm1, hm2]
        split
        · simp [Outcome.isCrash]
        · split
          · rename_i h2 h3
            exfalso
            omega
          · simp [Outcome.isCrash]

def ElemsNoCrash (e : ElemsOut × List Nat) : Prop :=
  match e.1 with
  | .stop o => o.isCrash = false
  | .ok _ _ => True

theorem elems_no_crash (p : Bytes → Res) (ec : Bool) (Q : Bytes → Prop)
    (hQ : ∀ s k, Q s → Q (s.drop k))
    (hpc : ∀ s, Small s → ConsumedOK (p s) s)
    (hp : ∀ s, Q s → NoCrash (p s)) :
    ∀ (n : Nat) (rest : Bytes), Q rest → Small rest → ElemsNoCrash (elems p ec n rest) := by
  intro n
  induction n with
  | zero => intro rest _ _; simp [elems, ElemsNoCrash]
  | succ n ih =>
    intro rest hq hs
    unfold elems
    split
    · simp [ElemsNoCrash, Outcome.isCrash]
    · simp only
      have hnc := hp rest hq
      unfold NoCrash at hnc
      cases hout : (p rest).out with
      | ok v k =>
        have hk := hpc rest hs v k hout
        have hk1 : ¬ (k > rest.length ∧ n ≠ 0 ∧ ¬ ec = true) := by omega
        simp only [hk1, if_false]
        have := ih (rest.drop k) (hQ rest k hq) (hs.drop k)
        unfold ElemsNoCrash at this ⊢
        cases he : elems p ec n (rest.drop k) with
        | mk e al =>
          cases e with
          | ok vs k' => simp
          | stop o => simp [he] at this; simpa using this
      | incomplete k => simp [ElemsNoCrash, Outcome.isCrash]
      | error k => simp [ElemsNoCrash, Outcome.isCrash]
      | crash k => simp [hout, Outcome.isCrash] at hnc

theorem parseArray_no_crash (c : Codec) (hc : c.Good) (mem : Nat) (p : Bytes → Res) (Q : Bytes → Prop)
    (hQ : ∀ s k, Q s → Q (s.drop k))
    (hpc : ∀ s, Small s → ConsumedOK (p s) s)
    (hp : ∀ s, Q s → NoCrash (p s))
    (rest : Bytes) (hs : Small (42 :: rest)) (hq : Q (rest.drop 0))
    (hmem : c.prealloc = false ∨ (elemSize * (42 :: rest).length < mem ∧ mem ≤ 9223372036854775808))
    (hsane : headerSane c (42 :: rest) = true) :
    NoCrash (parseArray c mem p (42 :: rest)) := by
  unfold NoCrash parseArray
  cases hpos : c.findCrlf (42 :: rest) with
  | none => simp [Outcome.isCrash]
  | some pos =>
    have hp1 := hc.pos 42 rest pos (by decide) hpos
    have hb := hc.bound _ pos hpos
    have hf : field (42 :: rest) pos = some (((42 :: rest).take pos).drop 1) := by
      unfold field; simp; omega
    simp only [hf]
    cases hn : parseI64 (((42 :: rest).take pos).drop 1) with
    | none => simp [Outcome.isCrash]
    | some n =>
      simp only []
      have hr := parseI64_range _ n hn
      unfold headerSane at hsane
      simp only [hpos, hf, hn] at hsane
      simp at hsane
      by_cases h1 : n = -1
      · simp [h1, Outcome.isCrash]
      · simp only [h1, if_false]
        have hu := asUsize_nonneg n (by omega) hr.2
        have hreq : preReq c n = 0 ∨ (preReq c n ≤ elemSize * (42 :: rest).length ∧
            elemSize * (42 :: rest).length < mem ∧ mem ≤ 9223372036854775808) := by
          unfold preReq
          split
          · rename_i hpre
            cases hmem with
            | inl h => simp [hpre] at h
            | inr h =>
              right
              refine ⟨?_, h⟩
              rw [hu]
              have : n.toNat ≤ (42 :: rest).length := by
                have := hsane.2; simp at this ⊢; omega
              rw [Nat.mul_comm]
              exact Nat.mul_le_mul_left _ this
          · exact Or.inl rfl
        have h2 : ¬ preReq c n > isizeMax := by unfold isizeMax; omega
        have h3 : ¬ (preReq c n ≥ mem ∧ preReq c n ≠ 0) := by omega
        simp only [h2, h3, if_false]
        have hdrop : (42 :: rest).drop (pos + 2) = (rest.drop 0).drop (pos + 1) := by simp
        have := elems_no_crash p c.emptyCheck Q hQ hpc hp n.toNat ((42 :: rest).drop (pos + 2))
          (by rw [hdrop]; exact hQ _ _ hq) (hs.drop _)
        unfold ElemsNoCrash at this
        cases he : elems p c.emptyCheck n.toNat ((42 :: rest).drop (pos + 2)) with
        | mk e al =>
          cases e with
          | ok vs k' => simp [Outcome.isCrash]
          | stop o => rw [he] at this; simpa using this

theorem parseD_no_crash (c : Codec) (hc : c.Good) (mem : Nat) :
    ∀ (d : Nat) (bs : Bytes), LengthsSane c bs = true → stars bs < d →
      bs.length < 9223372036854775800 →
      (c.prealloc = false ∨ (elemSize * bs.length < mem ∧ mem ≤ 9223372036854775808)) →
      NoCrash (parseD c mem d bs) := by
  intro d
  induction d with
  | zero => intro bs _ h _ _; omega
  | succ d ih =>
    intro bs hsane hstars hlen hmem
    cases bs with
    | nil => simp [NoCrash, parseD, Outcome.isCrash]
    | cons t rest =>
      unfold parseD
      by_cases h1 : t = 43
      · simp only [h1, if_true]
        exact parseLine_no_crash c hc _ _ _ (by decide)
      · simp only [h1, if_false]
        by_cases h2 : t = 45
        · simp only [h2, if_true]
          exact parseLine_no_crash c hc _ _ _ (by decide)
        · simp only [h2, if_false]
          by_cases h3 : t = 58
          · simp only [h3, if_true]
            exact parseInt_no_crash c hc _ _ (by decide)
          · simp only [h3, if_false]
            by_cases h4 : t = 36
            · subst h4
              simp only [if_true]
              exact parseBulk_no_crash c hc rest hlen (LengthsSane_head c _ _ hsane)
            · simp only [h4, if_false]
              by_cases h5 : t = 42
              · subst h5
                simp only [if_true]
                refine parseArray_no_crash c hc mem _
                  (fun s => LengthsSane c s = true ∧ stars s < d ∧ s.length < 9223372036854775800 ∧
                    (c.prealloc = false ∨ (elemSize * s.length < mem ∧ mem ≤ 9223372036854775808)))
                  ?_ (parseD_consumed c hc mem d) ?_ rest ?_ ?_ hmem (LengthsSane_head c _ _ hsane)
                · intro s k ⟨q1, q2, q3, q4⟩
                  refine ⟨LengthsSane_drop c s k q1, ?_, ?_, ?_⟩
                  · have := stars_drop s k; omega
                  · simp; omega
                  · cases q4 with
                    | inl h => exact Or.inl h
                    | inr h => right; simp; unfold elemSize at *; omega
                · intro s ⟨q1, q2, q3, q4⟩
                  exact ih s q1 q2 q3 q4
                · unfold Small; omega
                · simp only [List.drop_zero]
                  refine ⟨?_, ?_, ?_, ?_⟩
                  · simp [LengthsSane] at hsane; exact hsane.2
                  · simp [stars] at hstars; omega
                  · simp at hlen; omega
                  · cases hmem with
                    | inl h => exact Or.inl h
                    | inr h => right; simp at h; unfold elemSize at *; omega
              · simp [h5, NoCrash, Outcome.isCrash]

/-! ### allocation bounds -/

/-- bytes pre-allocated per announced element: 40 for codec 1, 0 for codec 2 -/
def pf (c : Codec) : Nat := if c.prealloc then elemSize else 0

/-- allocation per input byte with `d` stack frames available -/
def K (c : Codec) (d : Nat) : Nat := 3 + pf c * d

/-- a successful decode allocated at most `k` bytes per consumed byte -/
def AllocOk (k : Nat) (r : Res) : Prop := ∀ v n, r.out = .ok v n → r.allocs.sum ≤ k * n

theorem field_length (bs : Bytes) (pos : Nat) (s : Bytes) (h : field bs pos = some s) (hp : pos ≤ bs.length) :
    s.length + 1 = pos := by
  unfold field at h
  split at h
  · simp at h
  · simp at h
    subst h
    simp
    omega

theorem parseLine_allocs (c : Codec) (hc : c.Good) (mk : Bytes → Val) (bs : Bytes) :
    (parseLine c mk bs).allocs.sum ≤ 3 * bs.length ∧ AllocOk 3 (parseLine c mk bs) := by
  unfold AllocOk parseLine
  cases hpos : c.findCrlf bs with
  | none => simp
  | some pos =>
    have hb := hc.bound bs pos hpos
    simp only []
    cases hf : field bs pos with
    | none => simp
    | some s =>
      have hl := field_length bs pos s hf (by omega)
      have := hc.strLen s
      simp
      omega

theorem parseInt_allocs (c : Codec) (bs : Bytes) : (parseInt c bs).allocs = [] := by
  unfold parseInt
  repeat (first | rfl | split)

theorem parseBulk_allocs (c : Codec) (hc : c.Good) (bs : Bytes) (hs : Small bs) :
    (parseBulk c bs).allocs.sum ≤ 3 * bs.length ∧ AllocOk 3 (parseBulk c bs) := by
  unfold AllocOk parseBulk
  cases hpos : c.findCrlf bs with
  | none => simp
  | some pos =>
    have hb := hc.bound bs pos hpos
    simp only []
    cases hf : field bs pos with
    | none => simp
    | some s =>
      simp only []
      cases hn : parseI64 s with
      | none => simp
      | some n =>
        simp only []
        by_cases h1 : n = -1
        · simp [h1]
        · simp only [h1, if_false]
          generalize asUsize n = m
          unfold Small at hs
          unfold W
          split
          · simp
          · split
            · simp
            · simp
              omega

theorem elems_allocs_ok (p : Bytes → Res) (ec : Bool) (k : Nat)
    (hpc : ∀ s, Small s → ConsumedOK (p s) s)
    (hpa : ∀ s, Small s → AllocOk k (p s)) :
    ∀ (n : Nat) (rest : Bytes), Small rest → ∀ vs m a, elems p ec n rest = (.ok vs m, a) →
      a.sum ≤ k * m := by
  intro n
  induction n with
  | zero =>
    intro rest _ vs m a h
    simp [elems] at h
    obtain ⟨_, h3⟩ := h
    subst h3
    simp
  | succ n ih =>
    intro rest hs vs m a h
    unfold elems at h
    split at h
    · simp at h
    · simp only at h
      split at h
      · rename_i v k0 hk0
        have h0 := hpc rest hs v k0 hk0
        have ha := hpa rest hs v k0 hk0
        split at h
        · simp at h
        · split at h
          · rename_i vs' k' a' he
            have := ih (rest.drop k0) (hs.drop k0) vs' k' a' he
            simp at h
            obtain ⟨⟨_, h2⟩, h3⟩ := h
            subst h2 h3
            simp [Nat.mul_add]
            omega
          · simp at h
      · simp at h

theorem elems_allocs_len (p : Bytes → Res) (ec : Bool) (k : Nat) (Q : Bytes → Prop)
    (hQ : ∀ s j, Q s → Q (s.drop j))
    (hpc : ∀ s, Small s → ConsumedOK (p s) s)
    (hpa : ∀ s, Small s → AllocOk k (p s))
    (hpl : ∀ s, Q s → Small s → (p s).allocs.sum ≤ k * s.length) :
    ∀ (n : Nat) (rest : Bytes), Q rest → Small rest →
      (elems p ec n rest).2.sum ≤ k * rest.length := by
  intro n
  induction n with
  | zero => intro rest _ _; simp [elems]
  | succ n ih =>
    intro rest hq hs
    unfold elems
    split
    · simp
    · simp only
      have hl := hpl rest hq hs
      cases hout : (p rest).out with
      | ok v k0 =>
        have h0 := hpc rest hs v k0 hout
        have ha := hpa rest hs v k0 hout
        have hk1 : ¬ (k0 > rest.length ∧ n ≠ 0 ∧ ¬ ec = true) := by omega
        simp only [hk1, if_false]
        have := ih (rest.drop k0) (hQ rest k0 hq) (hs.drop k0)
        cases he : elems p ec n (rest.drop k0) with
        | mk e al =>
          rw [he] at this
          simp at this
          have hsum : (p rest).allocs.sum + al.sum ≤ k * rest.length := by
            have h1 : k * k0 + k * (rest.length - k0) = k * rest.length := by
              rw [← Nat.mul_add]; congr 1; omega
            omega
          cases e with
          | ok vs k' => simpa using hsum
          | stop o => simpa using hsum
      | incomplete _ => simpa using hl
      | error _ => simpa using hl
      | crash _ => simpa using hl

theorem preList_sum (r : Nat) : (preList r).sum = r := by
  unfold preList; split <;> simp_all

theorem asUsize_neg (n : Int) (h0 : n < 0) (h1 : -9223372036854775808 ≤ n) :
    9223372036854775808 ≤ asUsize n := by
  unfold asUsize W
  omega

/-- on the way to the element loop the pre-allocation is at most `pf c` bytes per announced
    element, and the announced number is not negative when something is pre-allocated -/
theorem preReq_le (c : Codec) (n : Int) (hr : -9223372036854775808 ≤ n ∧ n ≤ 9223372036854775807)
    (h2 : ¬ preReq c n > isizeMax) : preReq c n = pf c * n.toNat := by
  unfold preReq pf at *
  split
  · rename_i hp
    simp only [hp, if_true] at h2
    by_cases hneg : n < 0
    · have := asUsize_neg n hneg hr.1
      unfold isizeMax elemSize at h2
      omega
    · rw [asUsize_nonneg n (by omega) hr.2, Nat.mul_comm]
  · simp

theorem AllocOk.mono {k k' : Nat} {r : Res} (h : AllocOk k r) (hk : k ≤ k') : AllocOk k' r := by
  intro v n ho
  have := h v n ho
  have := Nat.mul_le_mul_right n hk
  omega

theorem parseArray_alloc_ok (c : Codec) (hc : c.Good) (mem : Nat) (p : Bytes → Res) (k : Nat)
    (hpc : ∀ s, Small s → ConsumedOK (p s) s)
    (hpa : ∀ s, Small s → AllocOk k (p s))
    (bs : Bytes) (hs : Small bs) : AllocOk (k + pf c) (parseArray c mem p bs) := by
  unfold AllocOk parseArray
  cases hpos : c.findCrlf bs with
  | none => simp
  | some pos =>
    have hb := hc.bound bs pos hpos
    simp only []
    cases hf : field bs pos with
    | none => simp
    | some s =>
      simp only []
      cases hn : parseI64 s with
      | none => simp
      | some n =>
        simp only []
        have hr := parseI64_range s n hn
        by_cases h1 : n = -1
        · simp [h1]
        · simp only [h1, if_false]
          by_cases h2 : preReq c n > isizeMax
          · simp [h2]
          · simp only [h2, if_false]
            by_cases h3 : preReq c n ≥ mem ∧ preReq c n ≠ 0
            · simp [h3]
            · simp only [h3, if_false]
              have hpre := preReq_le c n hr h2
              cases he : elems p c.emptyCheck n.toNat (bs.drop (pos + 2)) with
              | mk e al =>
                cases e with
                | ok vs k' =>
                  have h5 := elems_consumed p c.emptyCheck hpc _ _ (hs.drop (pos + 2)) vs k' al he
                  have h6 := elems_allocs_ok p c.emptyCheck k hpc hpa _ _ (hs.drop (pos + 2)) vs k' al he
                  intro v m hm
                  simp at hm
                  obtain ⟨_, hm2⟩ := hm
                  subst hm2
                  simp only [List.sum_append, preList_sum, hpre]
                  have e1 : pf c * n.toNat ≤ pf c * (pos + 2 + k') := Nat.mul_le_mul_left _ (by omega)
                  have e2 : k * k' ≤ k * (pos + 2 + k') := Nat.mul_le_mul_left _ (by omega)
                  rw [Nat.add_mul]
                  omega
                | stop o =>
                  intro v m hm
                  simp only at hm
                  subst hm
                  exact absurd he (elems_stop_not_ok p c.emptyCheck _ _ _ _ _)

theorem pf_mul_le (c : Codec) (n : Nat) (len : Nat) (h : c.prealloc = false ∨ n ≤ len) :
    pf c * n ≤ pf c * len := by
  unfold pf
  split
  · rename_i hp
    cases h with
    | inl h => simp [hp] at h
    | inr h => exact Nat.mul_le_mul_left _ h
  · simp

theorem parseArray_alloc_len (c : Codec) (hc : c.Good) (mem : Nat) (p : Bytes → Res) (k : Nat)
    (Q : Bytes → Prop) (hQ : ∀ s j, Q s → Q (s.drop j))
    (hpc : ∀ s, Small s → ConsumedOK (p s) s)
    (hpa : ∀ s, Small s → AllocOk k (p s))
    (hpl : ∀ s, Q s → Small s → (p s).allocs.sum ≤ k * s.length)
    (bs : Bytes) (hs : Small bs) (hq : Q bs)
    (hsane : c.prealloc = false ∨ headerSane c bs = true) (h42 : bs.head? = some 42) :
    (parseArray c mem p bs).allocs.sum ≤ (k + pf c) * bs.length := by
  unfold parseArray
  cases hpos : c.findCrlf bs with
  | none => simp
  | some pos =>
    have hb := hc.bound bs pos hpos
    simp only []
    cases hf : field bs pos with
    | none => simp
    | some s =>
      simp only []
      cases hn : parseI64 s with
      | none => simp
      | some n =>
        simp only []
        have hr := parseI64_range s n hn
        by_cases h1 : n = -1
        · simp [h1]
        · simp only [h1, if_false]
          by_cases h2 : preReq c n > isizeMax
          · simp [h2]
          · simp only [h2, if_false]
            have hpre := preReq_le c n hr h2
            have hn_le : c.prealloc = false ∨ n.toNat ≤ bs.length := by
              cases hsane with
              | inl h => exact Or.inl h
              | inr h =>
                right
                cases bs with
                | nil => simp at h42
                | cons t rest =>
                  simp at h42
                  subst h42
                  unfold headerSane at h
                  simp only [hpos, hf, hn] at h
                  simp at h ⊢
                  omega
            have hpre2 : preReq c n ≤ pf c * bs.length := by
              rw [hpre]; exact pf_mul_le c _ _ hn_le
            by_cases h3 : preReq c n ≥ mem ∧ preReq c n ≠ 0
            · rw [if_pos h3]
              simp
              have : pf c * bs.length ≤ (k + pf c) * bs.length := Nat.mul_le_mul_right _ (by omega)
              omega
            · simp only [h3, if_false]
              have h6 := elems_allocs_len p c.emptyCheck k Q hQ hpc hpa hpl n.toNat (bs.drop (pos + 2))
                (hQ bs _ hq) (hs.drop (pos + 2))
              have hsum : preReq c n + (elems p c.emptyCheck n.toNat (bs.drop (pos + 2))).2.sum ≤ (k + pf c) * bs.length := by
                have e2 : k * (bs.drop (pos + 2)).length ≤ k * bs.length := Nat.mul_le_mul_left _ (by simp)
                rw [Nat.add_mul]
                omega
              cases he : elems p c.emptyCheck n.toNat (bs.drop (pos + 2)) with
              | mk e al =>
                rw [he] at hsum
                cases e with
                | ok vs k' => simpa [preList_sum] using hsum
                | stop o => simpa [preList_sum] using hsum

theorem K_succ (c : Codec) (d : Nat) : K c (d + 1) = K c d + pf c := by
  unfold K; rw [Nat.mul_add]; omega

theorem K_ge3 (c : Codec) (d : Nat) : 3 ≤ K c d := by unfold K; omega

theorem parseD_alloc_ok (c : Codec) (hc : c.Good) (mem : Nat) :
    ∀ (d : Nat) (bs : Bytes), Small bs → AllocOk (K c d) (parseD c mem d bs) := by
  intro d
  induction d with
  | zero => intro bs _ v n h; simp [parseD] at h
  | succ d ih =>
    intro bs hs
    cases bs with
    | nil => intro v n h; simp [parseD] at h
    | cons t rest =>
      unfold parseD
      split
      · exact (parseLine_allocs c hc _ _).2.mono (K_ge3 c _)
      · split
        · exact (parseLine_allocs c hc _ _).2.mono (K_ge3 c _)
        · split
          · intro v n _; rw [parseInt_allocs]; simp
          · split
            · exact (parseBulk_allocs c hc _ hs).2.mono (K_ge3 c _)
            · split
              · rw [K_succ]
                exact parseArray_alloc_ok c hc mem _ (K c d) (parseD_consumed c hc mem d) ih _ hs
              · intro v n h; simp at h

/-- with `Vec::new()` (codec 2), or when every length header is sane, the decoder allocates at
    most `K c d` bytes per input byte, whatever the outcome -/
theorem parseD_alloc_len (c : Codec) (hc : c.Good) (mem : Nat) :
    ∀ (d : Nat) (bs : Bytes), Small bs → (c.prealloc = false ∨ LengthsSane c bs = true) →
      (parseD c mem d bs).allocs.sum ≤ K c d * bs.length := by
  intro d
  induction d with
  | zero => intro bs _ _; simp [parseD]
  | succ d ih =>
    intro bs hs hsane
    cases bs with
    | nil => simp [parseD]
    | cons t rest =>
      have h3 : 3 * (t :: rest).length ≤ K c (d + 1) * (t :: rest).length :=
        Nat.mul_le_mul_right _ (K_ge3 c _)
      unfold parseD
      split
      · have := (parseLine_allocs c hc Val.simple (t :: rest)).1; omega
      · split
        · have := (parseLine_allocs c hc Val.error (t :: rest)).1; omega
        · split
          · rw [parseInt_allocs]; simp
          · split
            · have := (parseBulk_allocs c hc (t :: rest) hs).1; omega
            · split
              · rename_i h42
                rw [K_succ]
                refine parseArray_alloc_len c hc mem _ (K c d)
                  (fun s => c.prealloc = false ∨ LengthsSane c s = true) ?_
                  (parseD_consumed c hc mem d) (parseD_alloc_ok c hc mem d) ?_ _ hs hsane ?_ (by simp [h42])
                · intro s j hq
                  cases hq with
                  | inl h => exact Or.inl h
                  | inr h => exact Or.inr (LengthsSane_drop c s j h)
                · intro s hq hss
                  exact ih s hss hq
                · cases hsane with
                  | inl h => exact Or.inl h
                  | inr h => exact Or.inr (LengthsSane_head c _ _ h)
              · simp

/-- a successful decode allocated at most `3 + pf c` bytes per consumed byte, whatever the
    nesting (every value leaves `pf c` bytes of credit for its slot in the parent's vector) -/
def AllocOk2 (c : Codec) (r : Res) : Prop :=
  ∀ v n, r.out = .ok v n → r.allocs.sum + pf c ≤ (3 + pf c) * n

theorem AllocOk2.of3 (c : Codec) (r : Res) (bs : Bytes) (h : AllocOk 3 r) (hc : ConsumedOK r bs) :
    AllocOk2 c r := by
  intro v n ho
  have h1 := h v n ho
  have h2 := (hc v n ho).1
  have : pf c * 1 ≤ pf c * n := Nat.mul_le_mul_left _ h2
  rw [Nat.add_mul]
  omega

theorem elems_allocs_ok2 (c : Codec) (p : Bytes → Res) (ec : Bool)
    (_hpc : ∀ s, Small s → ConsumedOK (p s) s)
    (hpa : ∀ s, Small s → AllocOk2 c (p s)) :
    ∀ (n : Nat) (rest : Bytes), Small rest → ∀ vs m a, elems p ec n rest = (.ok vs m, a) →
      a.sum + pf c * n ≤ (3 + pf c) * m := by
  intro n
  induction n with
  | zero =>
    intro rest _ vs m a h
    simp [elems] at h
    obtain ⟨_, h3⟩ := h
    subst h3
    simp
  | succ n ih =>
    intro rest hs vs m a h
    unfold elems at h
    split at h
    · simp at h
    · simp only at h
      split at h
      · rename_i v k0 hk0
        have ha := hpa rest hs v k0 hk0
        split at h
        · simp at h
        · split at h
          · rename_i vs' k' a' he
            have := ih (rest.drop k0) (hs.drop k0) vs' k' a' he
            simp at h
            obtain ⟨⟨_, h2⟩, h3⟩ := h
            subst h2 h3
            simp only [List.sum_append, Nat.mul_add, Nat.mul_one]
            omega
          · simp at h
      · simp at h

theorem parseArray_alloc_ok2 (c : Codec) (hc : c.Good) (mem : Nat) (p : Bytes → Res)
    (hpc : ∀ s, Small s → ConsumedOK (p s) s)
    (hpa : ∀ s, Small s → AllocOk2 c (p s))
    (bs : Bytes) (hs : Small bs) : AllocOk2 c (parseArray c mem p bs) := by
  unfold AllocOk2 parseArray
  cases hpos : c.findCrlf bs with
  | none => simp
  | some pos =>
    have hb := hc.bound bs pos hpos
    simp only []
    cases hf : field bs pos with
    | none => simp
    | some s =>
      simp only []
      cases hn : parseI64 s with
      | none => simp
      | some n =>
        simp only []
        have hr := parseI64_range s n hn
        by_cases h1 : n = -1
        · simp only [h1, if_true]
          intro v m hm
          simp at hm
          obtain ⟨_, hm2⟩ := hm
          subst hm2
          simp only [List.sum_nil, Nat.zero_add]
          have : pf c * 1 ≤ pf c * (pos + 2) := Nat.mul_le_mul_left _ (by omega)
          rw [Nat.add_mul]
          omega
        · simp only [h1, if_false]
          by_cases h2 : preReq c n > isizeMax
          · simp [h2]
          · simp only [h2, if_false]
            by_cases h3 : preReq c n ≥ mem ∧ preReq c n ≠ 0
            · simp [h3]
            · simp only [h3, if_false]
              have hpre := preReq_le c n hr h2
              cases he : elems p c.emptyCheck n.toNat (bs.drop (pos + 2)) with
              | mk e al =>
                cases e with
                | ok vs k' =>
                  have h6 := elems_allocs_ok2 c p c.emptyCheck hpc hpa _ _ (hs.drop (pos + 2)) vs k' al he
                  intro v m hm
                  simp at hm
                  obtain ⟨_, hm2⟩ := hm
                  subst hm2
                  simp only [List.sum_append, preList_sum, hpre]
                  have e1 : pf c * 1 ≤ pf c * (pos + 2) := Nat.mul_le_mul_left _ (by omega)
                  rw [Nat.mul_add, Nat.add_mul 3 (pf c) (pos + 2)]
                  omega
                | stop o =>
                  intro v m hm
                  simp only at hm
                  subst hm
                  exact absurd he (elems_stop_not_ok p c.emptyCheck _ _ _ _ _)

theorem parseD_alloc_ok2 (c : Codec) (hc : c.Good) (mem : Nat) :
    ∀ (d : Nat) (bs : Bytes), Small bs → AllocOk2 c (parseD c mem d bs) := by
  intro d
  induction d with
  | zero => intro bs _ v n h; simp [parseD] at h
  | succ d ih =>
    intro bs hs
    cases bs with
    | nil => intro v n h; simp [parseD] at h
    | cons t rest =>
      unfold parseD
      split
      · exact AllocOk2.of3 c _ _ (parseLine_allocs c hc _ _).2 (parseLine_consumed c hc _ _)
      · split
        · exact AllocOk2.of3 c _ _ (parseLine_allocs c hc _ _).2 (parseLine_consumed c hc _ _)
        · split
          · refine AllocOk2.of3 c _ _ ?_ (parseInt_consumed c hc _)
            intro v n _; rw [parseInt_allocs]; simp
          · split
            · exact AllocOk2.of3 c _ _ (parseBulk_allocs c hc _ hs).2 (parseBulk_consumed c hc _ hs)
            · split
              · exact parseArray_alloc_ok2 c hc mem _ (parseD_consumed c hc mem d) ih _ hs
              · intro v n h; simp at h

/-! ### the buffer loop: fragmentation does not matter -/

/-- what the buffer loop needs from a decoder -/
structure ParserSpec (p : Bytes → Outcome) : Prop where
  empty : (p []).isIncomplete = true
  consumed : ∀ bs, Small bs → ∀ v k, p bs = .ok v k → 1 ≤ k ∧ k ≤ bs.length
  stable : ∀ a b, Small (a ++ b) → (p a).isIncomplete = false → p (a ++ b) = p a

def drainAll (p : Bytes → Outcome) (buf : Bytes) : List Frame × Bytes × Bool :=
  drain p (buf.length + 1) buf

theorem drain_fuel (p : Bytes → Outcome) (hp : ParserSpec p) :
    ∀ (f g : Nat) (buf : Bytes), Small buf → buf.length < f → buf.length < g →
      drain p f buf = drain p g buf := by
  intro f
  induction f with
  | zero => intro g buf _ h _; omega
  | succ f ih =>
    intro g buf hs hf hg
    cases g with
    | zero => omega
    | succ g =>
      unfold drain
      cases hout : p buf with
      | ok v k =>
        have hk := hp.consumed buf hs v k hout
        simp only []
        rw [ih g (buf.drop k) (hs.drop k) (by simp; omega) (by simp; omega)]
      | incomplete _ => rfl
      | error _ => rfl
      | crash _ => rfl

/-- continue draining after more bytes arrived -/
def comb (p : Bytes → Outcome) (x : List Frame × Bytes × Bool) (b : Bytes) : List Frame × Bytes × Bool :=
  if x.2.2 then x
  else
    let y := drainAll p (x.2.1 ++ b)
    (x.1 ++ y.1, y.2.1, y.2.2)

theorem drain_append (p : Bytes → Outcome) (hp : ParserSpec p) (b : Bytes) :
    ∀ (f : Nat) (a : Bytes), a.length < f → Small (a ++ b) →
      drainAll p (a ++ b) = comb p (drain p f a) b := by
  intro f
  induction f with
  | zero => intro a h _; omega
  | succ f ih =>
    intro a hf hs
    have hsa : Small a := hs.of_append
    cases hout : p a with
    | ok v k =>
      have hk := hp.consumed a hsa v k hout
      have hab : p (a ++ b) = .ok v k := by
        rw [hp.stable a b hs (by simp [hout, Outcome.isIncomplete]), hout]
      have hs' : Small (a.drop k ++ b) := by
        unfold Small at *; simp at hs ⊢; omega
      have hrec := ih (a.drop k) (by simp; omega) hs'
      unfold drainAll at hrec ⊢
      rw [drain, hab]
      simp only []
      rw [List.drop_append_of_le_length hk.2]
      rw [drain_fuel p hp (a ++ b).length ((a.drop k ++ b).length + 1) _ hs'
        (by simp; omega) (by omega)]
      rw [hrec]
      conv => rhs; rw [drain, hout]
      simp only []
      unfold comb
      simp only []
      split <;> simp
    | incomplete i =>
      unfold drainAll
      conv => rhs; rw [drain, hout]
      simp [comb, drainAll]
    | error e =>
      have hab : p (a ++ b) = .error e := by
        rw [hp.stable a b hs (by simp [hout, Outcome.isIncomplete]), hout]
      unfold drainAll
      rw [drain, hab]
      conv => rhs; rw [drain, hout]
      simp [comb]
    | crash e =>
      have hab : p (a ++ b) = .crash e := by
        rw [hp.stable a b hs (by simp [hout, Outcome.isIncomplete]), hout]
      unfold drainAll
      rw [drain, hab]
      conv => rhs; rw [drain, hout]
      simp [comb]

def ofDrain (x : List Frame × Bytes × Bool) : FeedSt := ⟨x.1, x.2.1, x.2.2⟩

theorem feed_ofDrain (p : Bytes → Outcome) (hp : ParserSpec p) (pre c : Bytes) (hs : Small (pre ++ c)) :
    feed p (ofDrain (drainAll p pre)) c = ofDrain (drainAll p (pre ++ c)) := by
  have h := drain_append p hp c (pre.length + 1) pre (by omega) hs
  unfold feed
  rw [h]
  unfold comb ofDrain
  simp only []
  split
  · rename_i hd
    simp [drainAll] at hd ⊢
    simp [hd]
  · rename_i hd
    simp [drainAll] at hd ⊢
    simp [hd]

theorem feedAll_ofDrain (p : Bytes → Outcome) (hp : ParserSpec p) :
    ∀ (cs : List Bytes) (pre : Bytes), Small (pre ++ cs.flatten) →
      feedAll p (ofDrain (drainAll p pre)) cs = ofDrain (drainAll p (pre ++ cs.flatten)) := by
  intro cs
  induction cs with
  | nil => intro pre _; simp [feedAll]
  | cons c cs ih =>
    intro pre hs
    simp only [feedAll, List.foldl_cons, List.flatten_cons] at hs ⊢
    have hs1 : Small (pre ++ c) := by
      unfold Small at *; simp at hs ⊢; omega
    rw [feed_ofDrain p hp pre c hs1]
    have := ih (pre ++ c) (by simpa using hs)
    simp only [feedAll] at this
    rw [this]
    simp

theorem drainAll_nil (p : Bytes → Outcome) (hp : ParserSpec p) : ofDrain (drainAll p []) = FeedSt.init := by
  have := hp.empty
  unfold drainAll ofDrain FeedSt.init
  simp only [List.length_nil, drain]
  cases h : p [] with
  | incomplete _ => rfl
  | ok _ _ => simp [h, Outcome.isIncomplete] at this
  | error _ => simp [h, Outcome.isIncomplete] at this
  | crash _ => simp [h, Outcome.isIncomplete] at this

/-- any fragmentation of a byte stream gives the frames, the left-over bytes and the
    liveness that feeding it in one piece gives -/
theorem feedAll_fragmentation (p : Bytes → Outcome) (hp : ParserSpec p) (cs : List Bytes)
    (hs : Small cs.flatten) : feedAll p FeedSt.init cs = feedAll p FeedSt.init [cs.flatten] := by
  rw [← drainAll_nil p hp]
  rw [feedAll_ofDrain p hp cs [] (by simpa using hs)]
  rw [feedAll_ofDrain p hp [cs.flatten] [] (by simpa using hs)]
  simp

/-! ### decimal numbers -/

def valRev (ds : Bytes) : Nat := ds.foldr (fun b acc => (b - 48) + 10 * acc) 0

def AllDigits (ds : Bytes) : Prop := ∀ b ∈ ds, 48 ≤ b ∧ b ≤ 57

theorem decRev_spec : ∀ (f n : Nat), n < f →
    valRev (decRev f n) = n ∧ AllDigits (decRev f n) ∧ decRev f n ≠ [] := by
  intro f
  induction f with
  | zero => intro n h; omega
  | succ f ih =>
    intro n h
    unfold decRev
    split
    · refine ⟨by simp [valRev], ?_, by simp⟩
      intro b hb; simp at hb; omega
    · have := ih (n / 10) (by omega)
      refine ⟨?_, ?_, by simp⟩
      · simp only [valRev, List.foldr_cons] at this ⊢
        rw [this.1]; omega
      · intro b hb
        simp at hb
        cases hb with
        | inl h => omega
        | inr h => exact this.2.1 b h

theorem digitsVal_reverse (ds : Bytes) (h : AllDigits ds) :
    digitsVal ds.reverse = some (valRev ds) := by
  unfold digitsVal
  rw [List.foldl_reverse]
  induction ds with
  | nil => simp [valRev]
  | cons b rest ih =>
    have hb := h b (by simp)
    have := ih (fun x hx => h x (by simp [hx]))
    simp only [List.foldr_cons, this, valRev]
    simp [isDigit, hb.1, hb.2]
    omega

theorem dec_val (n : Nat) : digitsVal (dec n) = some n := by
  have := decRev_spec (n + 1) n (by omega)
  unfold dec
  rw [digitsVal_reverse _ this.2.1, this.1]

theorem dec_digits (n : Nat) : AllDigits (dec n) := by
  have := decRev_spec (n + 1) n (by omega)
  intro b hb
  unfold dec at hb
  exact this.2.1 b (by simpa using hb)

theorem dec_ne_nil (n : Nat) : dec n ≠ [] := by
  have := decRev_spec (n + 1) n (by omega)
  unfold dec
  simpa using this.2.2

theorem dec_noCR (n : Nat) : 13 ∉ dec n := by
  intro h
  have := dec_digits n 13 h
  omega

theorem parseI64_dec (n : Nat) (h : n ≤ 9223372036854775807) : parseI64 (dec n) = some (n : Int) := by
  have hv := dec_val n
  have hd := dec_digits n
  have hne := dec_ne_nil n
  cases hds : dec n with
  | nil => exact absurd hds hne
  | cons b rest =>
    rw [hds] at hv hd
    have hb := hd b (by simp)
    unfold parseI64
    have h1 : ¬ b = 43 := by omega
    have h2 : ¬ b = 45 := by omega
    simp only [h1, h2, if_false, hv]
    simp [h]

theorem parseI64_showInt (n : Int) (h0 : -9223372036854775808 ≤ n) (h1 : n ≤ 9223372036854775807) :
    parseI64 (showInt n) = some n := by
  unfold showInt
  split
  · rename_i hneg
    unfold parseI64
    have hne := dec_ne_nil n.natAbs
    simp only [show ¬ (45 : Nat) = 43 by decide, if_false, if_true, hne, dec_val]
    have : n.natAbs ≤ 9223372036854775808 := by omega
    simp [this]
    omega
  · rw [parseI64_dec n.toNat (by omega)]
    simp
    omega

theorem showInt_noCR (n : Int) : 13 ∉ showInt n := by
  unfold showInt
  split
  · intro h
    simp at h
    exact dec_noCR _ h
  · exact dec_noCR _

/-! ### decode ∘ encode -/

theorem hdr_find (c : Codec) (hc : c.Good) (t : Nat) (s rest : Bytes) (ht : t ≠ 13)
    (h : c.findCrlf (s ++ 13 :: 10 :: rest) = some s.length) :
    c.findCrlf (t :: (s ++ 13 :: 10 :: rest)) = some (s.length + 1) := by
  rw [hc.skip t _ ht, h]; rfl

theorem hdr_field (t : Nat) (s rest : Bytes) :
    field (t :: (s ++ 13 :: 10 :: rest)) (s.length + 1) = some s := by
  unfold field
  simp

theorem lineSafe_find (c : Codec) (hc : c.Good) (s rest : Bytes) (h : lineSafe c s = true) :
    c.findCrlf (s ++ 13 :: 10 :: rest) = some s.length ∧ c.str s = s := by
  unfold lineSafe at h
  simp at h
  have := hc.stable (s ++ [13, 10]) rest s.length h.1
  simp at this
  exact ⟨this, h.2⟩

theorem encode2List_eq (a : List Val) : encode2List a = (a.map encode2).flatten := by
  induction a with
  | nil => simp [encode2List]
  | cons v vs ih => simp [encode2List, ih]

theorem encode2_ne_nil (v : Val) : encode2 v ≠ [] := by
  cases v <;> simp [encode2]

theorem parseLine_encode (c : Codec) (hc : c.Good) (mk : Bytes → Val) (t : Nat) (ht : t ≠ 13)
    (s rest : Bytes) (h : lineSafe c s = true) :
    (parseLine c mk (t :: (s ++ 13 :: 10 :: rest))).out = .ok (mk s) (s.length + 3) := by
  have hl := lineSafe_find c hc s rest h
  unfold parseLine
  rw [hdr_find c hc t s rest ht hl.1]
  simp only [hdr_field, hl.2]

theorem parseInt_encode (c : Codec) (hc : c.Good) (n : Int) (rest : Bytes)
    (h0 : -9223372036854775808 ≤ n) (h1 : n ≤ 9223372036854775807) :
    (parseInt c (58 :: (showInt n ++ 13 :: 10 :: rest))).out = .ok (.int n) ((showInt n).length + 3) := by
  unfold parseInt
  rw [hdr_find c hc 58 _ rest (by decide) (hc.noCR _ rest (showInt_noCR n))]
  simp only [hdr_field, parseI64_showInt n h0 h1]

theorem parseBulk_encode (c : Codec) (hc : c.Good) (b rest : Bytes)
    (hs : Small (36 :: (dec b.length ++ 13 :: 10 :: (b ++ 13 :: 10 :: rest)))) :
    (parseBulk c (36 :: (dec b.length ++ 13 :: 10 :: (b ++ 13 :: 10 :: rest)))).out =
      .ok (.bulk b) ((dec b.length).length + 3 + b.length + 2) := by
  unfold Small at hs
  simp at hs
  unfold parseBulk
  rw [hdr_find c hc 36 _ _ (by decide) (hc.noCR _ _ (dec_noCR _))]
  simp only [hdr_field, parseI64_dec b.length (by omega)]
  have hne : ¬ ((b.length : Int) = -1) := by omega
  simp only [hne, if_false]
  rw [asUsize_nonneg _ (by omega) (by omega)]
  simp only [Int.toNat_natCast]
  unfold W
  have hm1 : ((dec b.length).length + 1 + 2 + b.length) % 18446744073709551616 = (dec b.length).length + 1 + 2 + b.length :=
    Nat.mod_eq_of_lt (by omega)
  have hm2 : ((dec b.length).length + 1 + 2 + b.length + 2) % 18446744073709551616 = (dec b.length).length + 1 + 2 + b.length + 2 :=
    Nat.mod_eq_of_lt (by omega)
  rw [hm1, hm2]
  have hc1 : ¬ ((dec b.length).length + 1 + 2 + b.length + 2 > (36 :: (dec b.length ++ 13 :: 10 :: (b ++ 13 :: 10 :: rest))).length) := by
    simp; omega
  have hc2 : ¬ ((dec b.length).length + 1 + 2 > (dec b.length).length + 1 + 2 + b.length ∨
      (dec b.length).length + 1 + 2 + b.length > (36 :: (dec b.length ++ 13 :: 10 :: (b ++ 13 :: 10 :: rest))).length) := by
    simp; omega
  simp only [hc1, hc2, if_false]
  congr 2
  · have e1 : (dec b.length).length + 1 + 2 + b.length = ((36 :: (dec b.length ++ [13, 10])) ++ b).length := by
      simp; omega
    have e2 : (36 :: (dec b.length ++ 13 :: 10 :: (b ++ 13 :: 10 :: rest))) = ((36 :: (dec b.length ++ [13, 10])) ++ b) ++ (13 :: 10 :: rest) := by
      simp
    rw [e2, e1, List.take_left']
    · have e3 : (dec b.length).length + 1 + 2 = (36 :: (dec b.length ++ [13, 10])).length := by simp
      rw [e3, List.drop_left']
      rfl
    · rfl

theorem elems_encode (p : Bytes → Res) (ec : Bool) :
    ∀ (a : List Val) (rest : Bytes),
      (∀ v ∈ a, ∀ r, Small (encode2 v ++ r) → (p (encode2 v ++ r)).out = .ok v (encode2 v).length) →
      Small ((a.map encode2).flatten ++ rest) →
      (elems p ec a.length ((a.map encode2).flatten ++ rest)).1 = .ok a (a.map encode2).flatten.length := by
  intro a
  induction a with
  | nil => intro rest _ _; simp [elems]
  | cons v vs ih =>
    intro rest hp hs
    simp only [List.map_cons, List.flatten_cons, List.length_cons, List.append_assoc] at hs ⊢
    unfold elems
    have hne : ¬ (ec = true ∧ encode2 v ++ ((vs.map encode2).flatten ++ rest) = []) := by
      intro h
      have := h.2
      simp at this
      exact encode2_ne_nil v this.1
    simp only [hne, if_false]
    have hv := hp v (by simp) ((vs.map encode2).flatten ++ rest) hs
    simp only [hv]
    have hk : ¬ ((encode2 v).length > (encode2 v ++ ((vs.map encode2).flatten ++ rest)).length ∧ vs.length ≠ 0 ∧ ¬ ec = true) := by
      simp; omega
    simp only [hk, if_false]
    rw [List.drop_left']
    · have hs' : Small ((vs.map encode2).flatten ++ rest) := by
        unfold Small at *; simp at hs ⊢; omega
      have := ih rest (fun x hx => hp x (by simp [hx])) hs'
      cases he : elems p ec vs.length ((vs.map encode2).flatten ++ rest) with
      | mk e al =>
        rw [he] at this
        simp only at this
        subst this
        simp
    · rfl

theorem Val.depthList_mem (a : List Val) (v : Val) (h : v ∈ a) : v.depth ≤ Val.depthList a := by
  induction a with
  | nil => simp at h
  | cons x xs ih =>
    simp only [Val.depthList]
    simp at h
    cases h with
    | inl h => subst h; omega
    | inr h => have := ih h; omega

theorem Val.wfList_mem (c : Codec) (mem : Nat) (a : List Val) (v : Val) (h : v ∈ a)
    (hw : Val.wfList c mem a = true) : v.wf c mem = true := by
  induction a with
  | nil => simp at h
  | cons x xs ih =>
    simp [Val.wfList] at hw
    simp at h
    cases h with
    | inl h => subst h; exact hw.1
    | inr h => exact ih h hw.2

theorem flatten_len_ge (a : List Val) : a.length ≤ (a.map encode2).flatten.length := by
  induction a with
  | nil => simp
  | cons v vs ih =>
    have h1 : 1 ≤ (encode2 v).length := by
      cases h : encode2 v with
      | nil => exact absurd h (encode2_ne_nil v)
      | cons _ _ => simp
    simp only [List.map_cons, List.flatten_cons, List.length_append, List.length_cons]
    omega

theorem parseArray_encode (c : Codec) (hc : c.Good) (mem : Nat) (p : Bytes → Res) (a : List Val) (rest : Bytes)
    (hfit : fits c mem a.length = true)
    (hp : ∀ v ∈ a, ∀ r, Small (encode2 v ++ r) → (p (encode2 v ++ r)).out = .ok v (encode2 v).length)
    (hs : Small (42 :: (dec a.length ++ 13 :: 10 :: ((a.map encode2).flatten ++ rest)))) :
    (parseArray c mem p (42 :: (dec a.length ++ 13 :: 10 :: ((a.map encode2).flatten ++ rest)))).out =
      .ok (.array a) ((dec a.length).length + 3 + (a.map encode2).flatten.length) := by
  unfold Small at hs
  simp only [List.length_cons, List.length_append] at hs
  unfold parseArray
  rw [hdr_find c hc 42 _ _ (by decide) (hc.noCR _ _ (dec_noCR _))]
  have hlen := flatten_len_ge a
  simp only [hdr_field, parseI64_dec a.length (by omega)]
  have hne : ¬ ((a.length : Int) = -1) := by omega
  simp only [hne, if_false]
  unfold fits at hfit
  simp at hfit
  have h2 : ¬ preReq c (a.length : Int) > isizeMax := by omega
  have h3 : ¬ (preReq c (a.length : Int) ≥ mem ∧ preReq c (a.length : Int) ≠ 0) := by
    cases hfit.2 with
    | inl h => omega
    | inr h => omega
  simp only [h2, h3, if_false, Int.toNat_natCast]
  have hdrop : (42 :: (dec a.length ++ 13 :: 10 :: ((a.map encode2).flatten ++ rest))).drop ((dec a.length).length + 1 + 2)
      = (a.map encode2).flatten ++ rest := by
    have e2 : (42 :: (dec a.length ++ 13 :: 10 :: ((a.map encode2).flatten ++ rest))) =
        (42 :: (dec a.length ++ [13, 10])) ++ ((a.map encode2).flatten ++ rest) := by simp
    rw [e2, List.drop_left']
    simp
  rw [hdrop]
  have hs' : Small ((a.map encode2).flatten ++ rest) := by
    unfold Small; simp only [List.length_append]; omega
  have := elems_encode p c.emptyCheck a rest hp hs'
  cases he : elems p c.emptyCheck a.length ((a.map encode2).flatten ++ rest) with
  | mk e al =>
    rw [he] at this
    simp only at this
    subst this
    simp

theorem parseD_encode (c : Codec) (hc : c.Good) (mem : Nat) :
    ∀ (d : Nat) (v : Val), v.depth ≤ d → v.wf c mem = true → ∀ rest, Small (encode2 v ++ rest) →
      (parseD c mem d (encode2 v ++ rest)).out = .ok v (encode2 v).length := by
  intro d
  induction d with
  | zero =>
    intro v h
    cases v <;> simp [Val.depth] at h
  | succ d ih =>
    intro v hd hw rest hs
    cases v with
    | simple s =>
      simp [Val.wf] at hw
      simp only [encode2, crlf, List.cons_append, List.append_assoc, List.nil_append]
      rw [parseD]
      simp only [if_true]
      rw [parseLine_encode c hc _ 43 (by decide) s rest hw]
      simp
    | error s =>
      simp [Val.wf] at hw
      simp only [encode2, crlf, List.cons_append, List.append_assoc, List.nil_append]
      rw [parseD]
      simp only [show ¬ (45 : Nat) = 43 by decide, if_false, if_true]
      rw [parseLine_encode c hc _ 45 (by decide) s rest hw]
      simp
    | int n =>
      simp [Val.wf] at hw
      simp only [encode2, crlf, List.cons_append, List.append_assoc, List.nil_append]
      rw [parseD]
      simp only [show ¬ (58 : Nat) = 43 by decide, show ¬ (58 : Nat) = 45 by decide, if_false, if_true]
      rw [parseInt_encode c hc n rest hw.1 hw.2]
      simp
    | nullBulk =>
      simp only [encode2, List.cons_append, List.nil_append]
      rw [parseD]
      simp only [show ¬ (36 : Nat) = 43 by decide, show ¬ (36 : Nat) = 45 by decide,
        show ¬ (36 : Nat) = 58 by decide, if_false, if_true]
      unfold parseBulk
      have := hdr_find c hc 36 [45, 49] rest (by decide) (hc.noCR [45, 49] rest (by decide))
      simp only [List.cons_append, List.nil_append, List.length_cons, List.length_nil] at this
      rw [this]
      have hf := hdr_field 36 [45, 49] rest
      simp only [List.cons_append, List.nil_append, List.length_cons, List.length_nil] at hf
      simp only [hf]
      have : parseI64 [45, 49] = some (-1) := by decide
      simp [this]
    | bulk b =>
      simp only [encode2, crlf, List.cons_append, List.append_assoc, List.nil_append] at hs ⊢
      rw [parseD]
      simp only [show ¬ (36 : Nat) = 43 by decide, show ¬ (36 : Nat) = 45 by decide,
        show ¬ (36 : Nat) = 58 by decide, if_false, if_true]
      rw [parseBulk_encode c hc b rest hs]
      simp
      omega
    | nullArray =>
      simp only [encode2, List.cons_append, List.nil_append]
      rw [parseD]
      simp only [show ¬ (42 : Nat) = 43 by decide, show ¬ (42 : Nat) = 45 by decide,
        show ¬ (42 : Nat) = 58 by decide, show ¬ (42 : Nat) = 36 by decide, if_false, if_true]
      unfold parseArray
      have := hdr_find c hc 42 [45, 49] rest (by decide) (hc.noCR [45, 49] rest (by decide))
      simp only [List.cons_append, List.nil_append, List.length_cons, List.length_nil] at this
      rw [this]
      have hf := hdr_field 42 [45, 49] rest
      simp only [List.cons_append, List.nil_append, List.length_cons, List.length_nil] at hf
      simp only [hf]
      have : parseI64 [45, 49] = some (-1) := by decide
      simp [this]
    | array a =>
      simp [Val.wf] at hw
      simp only [Val.depth] at hd
      simp only [encode2, encode2List_eq, crlf, List.cons_append, List.append_assoc, List.nil_append] at hs ⊢
      rw [parseD]
      simp only [show ¬ (42 : Nat) = 43 by decide, show ¬ (42 : Nat) = 45 by decide,
        show ¬ (42 : Nat) = 58 by decide, show ¬ (42 : Nat) = 36 by decide, if_false, if_true]
      rw [parseArray_encode c hc mem _ a rest hw.1 ?_ hs]
      · simp
        omega
      · intro v hv r hr
        have h1 := Val.depthList_mem a v hv
        exact ih v (by omega) (Val.wfList_mem c mem a v hv hw.2) r hr

/-! ### the buffer-appending encoders produce the same bytes as `RespParser::encode` -/

theorem encodeIntoList_eq (a : List Val)
    (h : ∀ v ∈ a, ∀ buf, encodeInto v buf = buf ++ encode2 v) :
    ∀ init : Bytes, encodeIntoList a init = init ++ encode2List a := by
  induction a with
  | nil => intro init; simp [encodeIntoList, encode2List]
  | cons v vs ih =>
    intro init
    simp only [encodeIntoList, encode2List]
    rw [h v (by simp), ih (fun x hx => h x (by simp [hx]))]
    simp

theorem encodeInto_eq_aux : ∀ (d : Nat) (v : Val), v.depth ≤ d → ∀ buf, encodeInto v buf = buf ++ encode2 v := by
  intro d
  induction d with
  | zero => intro v h; cases v <;> simp [Val.depth] at h
  | succ d ih =>
    intro v hd buf
    cases v with
    | array a =>
      simp only [Val.depth] at hd
      rw [encodeInto, encode2]
      rw [encodeIntoList_eq a (fun v hv b => ih v (by have := Val.depthList_mem a v hv; omega) b)]
      simp [crlf]
    | simple s => simp [encodeInto, encode2]
    | error s => simp [encodeInto, encode2]
    | int n => simp [encodeInto, encode2]
    | nullBulk => simp [encodeInto, encode2]
    | bulk b => simp [encodeInto, encode2]
    | nullArray => simp [encodeInto, encode2]

theorem encodeInto_eq (v : Val) (buf : Bytes) : encodeInto v buf = buf ++ encode2 v :=
  encodeInto_eq_aux v.depth v (Nat.le_refl _) buf

theorem encode1_eq (v : Val) : encode1 v = encode2 v := by simp [encode1, encodeInto_eq]
theorem encode3_eq (v : Val) : encode3 v = encode2 v := by simp [encode3, encodeInto_eq]

end RedisVerif.Resp
