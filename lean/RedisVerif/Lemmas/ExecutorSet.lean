import RedisVerif.Lemmas.ExecutorStr

/-! Refinement of `execute_set` / `execute_getex` (option handling and deadline arithmetic). -/
set_option linter.unusedSimpArgs false
set_option linter.unusedVariables false

namespace RedisVerif.Executor
open RedisVerif RedisVerif.Redis

theorem i64Max_eq : i64Max = 9223372036854775807 := rfl
theorem i64Min_eq : i64Min = -9223372036854775808 := rfl
theorem div_eq : i64MaxDiv1000 = 9223372036854775 := rfl
theorem divMin_eq : i64MinDiv1000 = -9223372036854775 := rfl

/-- `getExpireMillisecondsOrReply` in closed form -/
theorem absDeadline_eq (now : Nat) (us rel : Bool) (v : Int) :
    absDeadline now us rel v =
      if v ≤ 0 ∨ (us = true ∧ v > 9223372036854775) ∨
          (if us then v * 1000 else v) + (if rel then (now : Int) else 0) > 9223372036854775807 then none
      else some ((if us then v * 1000 else v) + (if rel then (now : Int) else 0)).toNat := by
  unfold absDeadline
  have e := i64Max_eq
  have e2 := div_eq
  by_cases h1 : v ≤ 0
  · simp [h1]
  · cases us <;> cases rel <;> simp [h1, e, e2]
    all_goals
      by_cases h2 : 9223372036854775 < v
      · simp [h2]
      · simp [h2]

/-- `checked_add` fails exactly when the sum leaves i64 -/
theorem checkedAdd_isNone (a b : Int) :
    (checkedAdd a b).isNone = true ↔ (a + b < -9223372036854775808 ∨ a + b > 9223372036854775807) := by
  rw [checkedAdd_eq]
  by_cases h : inI64 (a + b) = true
  · have := (inI64_iff _).mp h
    simp only [h, if_true, Option.isNone_some, Bool.false_eq_true, false_iff]
    omega
  · have : ¬ (-9223372036854775808 ≤ a + b ∧ a + b ≤ 9223372036854775807) :=
      fun hh => h ((inI64_iff _).mpr hh)
    simp only [h, Bool.false_eq_true, if_false, Option.isNone_none, true_iff]
    omega

theorem two64_eq : two64 = 18446744073709551616 := rfl

theorem u64Mul1000_eq {n : Nat} (h : n * 1000 < 18446744073709551616) : u64Mul1000 n = some (n * 1000) := by
  unfold u64Mul1000
  rw [if_pos (by rw [two64_eq]; exact h)]

theorem u64Add_eq {a b : Nat} (h : a + b < 18446744073709551616) : u64Add a b = some (a + b) := by
  unfold u64Add
  rw [if_pos (by rw [two64_eq]; exact h)]

/-- an integer argument of a command is an i64 (the `Command` fields are) -/
def I64 (v : Int) : Prop := -9223372036854775808 ≤ v ∧ v ≤ 9223372036854775807

instance (v : Int) : Decidable (I64 v) := by unfold I64; infer_instance

def SetExpOk : SetExp → Prop
  | .ex v | .px v | .exat v | .pxat v => I64 v
  | _ => True

instance : DecidablePred SetExpOk := fun e => by cases e <;> unfold SetExpOk <;> infer_instance

/-- validation block of `execute_set` = M7's "invalid expire time" -/
theorem setArgsInvalid_iff {cs : CState} (h : CInv cs) (c : SetCond) (e : SetExp) (g : Bool)
    (he : SetExpOk e) :
    setArgsInvalid cs (setArgsOf c e g) = true ↔ setPlan (unix cs) e = .invalid := by
  have hb := basetime_eq h
  have ht := h.timeOk
  have hu : ((unix cs : Nat) : Int) = (cs.epoch : Int) + (cs.now : Int) := by simp [unix]
  cases e with
  | none => simp [setArgsInvalid, setArgsOf, setPlan]
  | keepttl => simp [setArgsInvalid, setArgsOf, setPlan]
  | ex v =>
    simp only [setArgsInvalid, setArgsOf, setPlan, absDeadline_eq, planOfOpt, Bool.or_false, Bool.or_eq_true,
      decide_eq_true_eq, checkedAdd_isNone, hb, div_eq]
    split <;> rename_i hh <;> simp at hh ⊢ <;> omega
  | px v =>
    simp only [setArgsInvalid, setArgsOf, setPlan, absDeadline_eq, planOfOpt, Bool.or_false, Bool.false_or,
      Bool.or_eq_true, decide_eq_true_eq, checkedAdd_isNone, hb]
    split <;> rename_i hh <;> simp at hh ⊢ <;> omega
  | exat v =>
    simp only [setArgsInvalid, setArgsOf, setPlan, absDeadline_eq, planOfOpt, Bool.or_false, Bool.false_or,
      Bool.or_eq_true, decide_eq_true_eq, div_eq]
    split <;> rename_i hh <;> simp at hh ⊢ <;> omega
  | pxat v =>
    have := he.2
    simp only [setArgsInvalid, setArgsOf, setPlan, absDeadline_eq, planOfOpt, Bool.or_false, Bool.false_or,
      decide_eq_true_eq]
    split <;> rename_i hh <;> simp at hh ⊢ <;> omega

/-! closed forms of the four deadline plans (`planOfOpt ∘ absDeadline`), positive condition first -/

theorem plan_ex (U : Nat) (s : Int) : planOfOpt (absDeadline U true true s) =
    if 0 < s ∧ s ≤ 9223372036854775 ∧ s * 1000 + (U : Int) ≤ 9223372036854775807
    then .at (s * 1000 + (U : Int)).toNat else .invalid := by
  rw [absDeadline_eq]
  by_cases hc : 0 < s ∧ s ≤ 9223372036854775 ∧ s * 1000 + (U : Int) ≤ 9223372036854775807
  · rw [if_pos hc, if_neg (by simp only [if_true, true_and]; omega)]; simp [planOfOpt]
  · rw [if_neg hc, if_pos (by simp only [if_true, true_and]; omega)]; rfl

theorem plan_px (U : Nat) (s : Int) : planOfOpt (absDeadline U false true s) =
    if 0 < s ∧ s + (U : Int) ≤ 9223372036854775807 then .at (s + (U : Int)).toNat else .invalid := by
  rw [absDeadline_eq]
  by_cases hc : 0 < s ∧ s + (U : Int) ≤ 9223372036854775807
  · rw [if_pos hc, if_neg (by simp only [if_true, Bool.false_eq_true, false_and, false_or, if_false]; omega)]
    simp [planOfOpt]
  · rw [if_neg hc, if_pos (by simp only [if_true, Bool.false_eq_true, false_and, false_or, if_false]; omega)]
    rfl

theorem plan_exat (U : Nat) (s : Int) : planOfOpt (absDeadline U true false s) =
    if 0 < s ∧ s ≤ 9223372036854775 then .at (s * 1000).toNat else .invalid := by
  rw [absDeadline_eq]
  by_cases hc : 0 < s ∧ s ≤ 9223372036854775
  · rw [if_pos hc, if_neg (by simp only [if_true, true_and, Bool.false_eq_true, if_false]; omega)]
    simp [planOfOpt]
  · rw [if_neg hc, if_pos (by simp only [if_true, true_and, Bool.false_eq_true, if_false]; omega)]
    rfl

theorem plan_pxat (U : Nat) (s : Int) : planOfOpt (absDeadline U false false s) =
    if 0 < s ∧ s ≤ 9223372036854775807 then .at s.toNat else .invalid := by
  rw [absDeadline_eq]
  by_cases hc : 0 < s ∧ s ≤ 9223372036854775807
  · rw [if_pos hc, if_neg (by simp only [Bool.false_eq_true, false_and, false_or, if_false]; omega)]
    simp [planOfOpt]
  · rw [if_neg hc, if_pos (by simp only [Bool.false_eq_true, false_and, false_or, if_false]; omega)]
    rfl

/-- the part of `execute_set` after the NX / XX tests: `data.insert`, then "Handle expiration" -/
theorem setExpiry_spec {c : CState} (h : CInv c) (k : Nat) (v : BS) (cnd : SetCond) (e : SetExp) (g : Bool)
    (he : SetExpOk e) (hx : isExpired c k = false) (hvalid : setPlan (unix c) e ≠ .invalid) :
    ∃ c', setExpiry { c with data := NMap.insert k (.str v) c.data } k (setArgsOf cnd e g) = some c' ∧
      CInv c' ∧ c'.now = c.now ∧ c'.epoch = c.epoch ∧
      absP c' = purge (NMap.insert k
        ⟨.str v, planDl (setPlan (unix c) e) ((NMap.get c.exp k).map (· + c.epoch))⟩ (absP c)) (unix c) := by
  have h3 : CInv { c with data := NMap.insert k (.str v) c.data } := cinv_data h (valueOk_str v)
  have hv3 : NMap.get ({ c with data := NMap.insert k (.str v) c.data } : CState).data k = some (.str v) := by
    simp [NMap.get_insert]
  have hk3 : (NMap.get ({ c with data := NMap.insert k (.str v) c.data } : CState).data k).isSome = true := by
    rw [hv3]; rfl
  have ha3 : absP { c with data := NMap.insert k (.str v) c.data } =
      NMap.insert k ⟨.str v, (NMap.get c.exp k).map (· + c.epoch)⟩ (absP c) := by
    rw [upd_data h, hx]; rfl
  have hw := wf_absP h.wfd
  have ht := h.timeOk
  have hu : ((unix c : Nat) : Int) = (c.epoch : Int) + (c.now : Int) := by simp [unix]
  have hu' : unix { c with data := NMap.insert k (.str v) c.data } = unix c := rfl
  cases e with
  | none =>
    refine ⟨{ c with data := NMap.insert k (.str v) c.data, exp := NMap.erase k c.exp },
      by simp [setExpiry, setArgsOf], cinv_persist h3, rfl, rfl, ?_⟩
    have := dl_clear h3 hv3
    rw [ha3, insert_insert hw, hu'] at this
    exact this
  | keepttl =>
    refine ⟨{ c with data := NMap.insert k (.str v) c.data }, by simp [setExpiry, setArgsOf], h3, rfl, rfl, ?_⟩
    rw [ha3, purge_insert hw, purge_absP]
    simp only [setPlan, planDl, live_of_notExp hx, if_true, setAt]
  | ex s =>
    have hp := plan_ex (unix c) s
    by_cases hc : 0 < s ∧ s ≤ 9223372036854775 ∧ s * 1000 + ((unix c : Nat) : Int) ≤ 9223372036854775807
    · rw [if_pos hc] at hp
      obtain ⟨p1, p2, p3⟩ := hc
      have hmul : u64Mul1000 (asU64 s) = some (s.toNat * 1000) := by
        rw [asU64_nonneg (by omega)]; exact u64Mul1000_eq (by omega)
      have hadd : u64Add c.now (s.toNat * 1000) = some (c.now + s.toNat * 1000) := u64Add_eq (by omega)
      refine ⟨{ c with data := NMap.insert k (.str v) c.data, exp := NMap.insert k (c.now + s.toNat * 1000) c.exp },
        by simp [setExpiry, setArgsOf, hmul, hadd],
        cinv_exp h3 hk3 (by show c.epoch + (c.now + s.toNat * 1000) ≤ _; omega), rfl, rfl, ?_⟩
      have := dl_set h3 hv3 (c.now + s.toNat * 1000)
      rw [ha3, insert_insert hw, hu'] at this
      rw [this]
      simp only [setPlan, hp, planDl]
      have : c.now + s.toNat * 1000 + c.epoch = (s * 1000 + ((unix c : Nat) : Int)).toNat := by omega
      rw [this]
    · rw [if_neg hc] at hp
      exact absurd hp hvalid
  | px s =>
    have hp := plan_px (unix c) s
    by_cases hc : 0 < s ∧ s + ((unix c : Nat) : Int) ≤ 9223372036854775807
    · rw [if_pos hc] at hp
      obtain ⟨p1, p3⟩ := hc
      have hadd : u64Add c.now (asU64 s) = some (c.now + s.toNat) := by
        rw [asU64_nonneg (by omega)]; exact u64Add_eq (by omega)
      refine ⟨{ c with data := NMap.insert k (.str v) c.data, exp := NMap.insert k (c.now + s.toNat) c.exp },
        by simp [setExpiry, setArgsOf, hadd],
        cinv_exp h3 hk3 (by show c.epoch + (c.now + s.toNat) ≤ _; omega), rfl, rfl, ?_⟩
      have := dl_set h3 hv3 (c.now + s.toNat)
      rw [ha3, insert_insert hw, hu'] at this
      rw [this]
      simp only [setPlan, hp, planDl]
      have : c.now + s.toNat + c.epoch = (s + ((unix c : Nat) : Int)).toNat := by omega
      rw [this]
    · rw [if_neg hc] at hp
      exact absurd hp hvalid
  | exat s =>
    have hp := plan_exat (unix c) s
    by_cases hc : 0 < s ∧ s ≤ 9223372036854775
    · rw [if_pos hc] at hp
      obtain ⟨p1, p2⟩ := hc
      have hrel : sat (sat (s * 1000) - (c.epoch : Int)) = s * 1000 - (c.epoch : Int) := by
        have h1 : sat (s * 1000) = s * 1000 := sat_id (by omega) (by omega)
        rw [h1, sat_id (by omega) (by omega)]
      simp only [setPlan, hp, planDl]
      by_cases hr : s * 1000 - (c.epoch : Int) ≤ 0
      · refine ⟨dropKey { c with data := NMap.insert k (.str v) c.data } k,
          by simp [setExpiry, setArgsOf, hrel, hr], cinv_drop h3, rfl, rfl, ?_⟩
        have := dl_drop (w := .str v) (k := k) h3 (t := (s * 1000).toNat) (by rw [hu']; simp only [unix]; omega)
        rw [ha3, insert_insert hw, hu'] at this
        exact this
      · have hd : asU64 (s * 1000 - (c.epoch : Int)) = (s * 1000 - (c.epoch : Int)).toNat :=
          asU64_nonneg (by omega)
        refine ⟨{ c with data := NMap.insert k (.str v) c.data,
                         exp := NMap.insert k (s * 1000 - (c.epoch : Int)).toNat c.exp },
          by simp [setExpiry, setArgsOf, hrel, hr, hd],
          cinv_exp h3 hk3 (by show c.epoch + (s * 1000 - (c.epoch : Int)).toNat ≤ _; omega), rfl, rfl, ?_⟩
        have := dl_set h3 hv3 (s * 1000 - (c.epoch : Int)).toNat
        rw [ha3, insert_insert hw, hu'] at this
        rw [this]
        have : (s * 1000 - (c.epoch : Int)).toNat + c.epoch = (s * 1000).toNat := by omega
        rw [this]
    · rw [if_neg hc] at hp
      exact absurd hp hvalid
  | pxat s =>
    have hp := plan_pxat (unix c) s
    by_cases hc : 0 < s ∧ s ≤ 9223372036854775807
    · rw [if_pos hc] at hp
      obtain ⟨p1, p2⟩ := hc
      have hrel : sat (s - (c.epoch : Int)) = s - (c.epoch : Int) := sat_id (by omega) (by omega)
      simp only [setPlan, hp, planDl]
      by_cases hr : s - (c.epoch : Int) ≤ 0
      · refine ⟨dropKey { c with data := NMap.insert k (.str v) c.data } k,
          by simp [setExpiry, setArgsOf, hrel, hr], cinv_drop h3, rfl, rfl, ?_⟩
        have := dl_drop (w := .str v) (k := k) h3 (t := s.toNat) (by rw [hu']; simp only [unix]; omega)
        rw [ha3, insert_insert hw, hu'] at this
        exact this
      · have hd : asU64 (s - (c.epoch : Int)) = (s - (c.epoch : Int)).toNat := asU64_nonneg (by omega)
        refine ⟨{ c with data := NMap.insert k (.str v) c.data,
                         exp := NMap.insert k (s - (c.epoch : Int)).toNat c.exp },
          by simp [setExpiry, setArgsOf, hrel, hr, hd],
          cinv_exp h3 hk3 (by show c.epoch + (s - (c.epoch : Int)).toNat ≤ _; omega), rfl, rfl, ?_⟩
        have := dl_set h3 hv3 (s - (c.epoch : Int)).toNat
        rw [ha3, insert_insert hw, hu'] at this
        rw [this]
        have : (s - (c.epoch : Int)).toNat + c.epoch = s.toNat := by omega
        rw [this]
    · rw [if_neg hc] at hp
      exact absurd hp hvalid

theorem getValue_of_notExp {c : CState} {k : Nat} (hx : isExpired c k = false) :
    getValue c k = (c, NMap.get c.data k) := by simp [getValue, hx]

def wrongOpt : Option Value → Bool
  | some (.str _) => false
  | some _ => true
  | none => false

def strOpt : Option Value → Option BS
  | some (.str b) => some b
  | _ => none

/-- `execute_set` refines M7's SET for every option combination -/
theorem cSet_sim {cs : CState} (h : CInv cs) (k : Nat) (v : BS) (cnd : SetCond) (e : SetExp) (g : Bool)
    (he : SetExpOk e) :
    ∃ res, cSet cs k v (setArgsOf cnd e g) = some res ∧ Sim cs (.set k v cnd e g) res := by
  unfold cSet
  by_cases hinv : setArgsInvalid cs (setArgsOf cnd e g) = true
  · have hp := (setArgsInvalid_iff h cnd e g he).mp hinv
    refine ⟨(cs, .err .invalidExpire), by simp [hinv], ?_⟩
    simp [Sim, SimF, exec, execSet, hp, purge_absP, h]
  · have hp : setPlan (unix cs) e ≠ .invalid := fun hh => hinv ((setArgsInvalid_iff h cnd e g he).mpr hh)
    have hget : (setArgsOf cnd e g).get = g := rfl
    have hnx : (setArgsOf cnd e g).nx = (cnd == .nx) := rfl
    have hxx : (setArgsOf cnd e g).xx = (cnd == .xx) := rfl
    simp only [hinv, Bool.false_eq_true, if_false, hget, hnx, hxx]
    simp only [Sim, SimF, exec, execSet, if_neg hp, setCore]
    have g0 := getValue_spec h k
    rcases hr : getValue cs k with ⟨c, o⟩
    rw [hr] at g0
    obtain ⟨ginv, gsame, gnow, gep, gnx, gval, glook⟩ := g0
    dsimp only at ginv gsame gnow gep gnx gval glook
    have gux := unix_eq gnow gep
    rw [← gep] at glook
    have hc2 : getValue c k = (c, o) := by rw [getValue_of_notExp gnx, gval]
    -- M7's lookups in terms of `o`
    have hsome : (NMap.get (absP cs) k).isSome = o.isSome := by rw [glook]; cases o <;> rfl
    have hold : oldDl (absP cs) k = (NMap.get c.exp k).map (· + c.epoch) := by
      unfold oldDl
      rw [glook]
      cases o with
      | none => simp [exp_none_of_data_none ginv gval]
      | some w => rfl
    have hwrong : wrongStr (absP cs) k = wrongOpt o := by
      unfold wrongStr lookupStr
      rw [glook]
      cases o with
      | none => rfl
      | some w => cases w <;> rfl
    have holdr : oldStrReply (absP cs) k = oldReply (strOpt o) := by
      unfold oldStrReply lookupStr
      rw [glook]
      cases o with
      | none => rfl
      | some w => cases w <;> rfl
    obtain ⟨c', hc', ci', cn', ce', ca'⟩ := setExpiry_spec ginv k v cnd e g he gnx (by rw [← gux]; exact hp)
    rw [hsome, hold, hwrong, holdr, gux, ← gsame]
    -- the executor's own control flow
    cases g with
    | false =>
      simp only [Bool.false_eq_true, if_false, Bool.false_and, hr]
      by_cases hn : ((cnd == SetCond.nx) && o.isSome) = true
      · simp only [hn, if_true, Bool.true_or]
        exact ⟨_, rfl, by first | rfl | trivial | simp [wrongOpt, strOpt, oldReply, wrongType], by simp [purge_absP, wrongOpt, strOpt], ginv, gnow, gep⟩
      · by_cases hxx' : ((cnd == SetCond.xx) && !o.isSome) = true
        · simp only [hn, hxx', Bool.false_eq_true, if_false, if_true, Bool.or_true]
          exact ⟨_, rfl, by first | rfl | trivial | simp [wrongOpt, strOpt, oldReply, wrongType], by simp [purge_absP, wrongOpt, strOpt], ginv, gnow, gep⟩
        · simp only [hn, hxx', Bool.false_eq_true, if_false, Bool.or_false, hc', Option.map_some]
          exact ⟨_, rfl, by first | rfl | trivial | simp [wrongOpt, strOpt, oldReply, wrongType], by simp [wrongOpt, strOpt, ca'], ci', by rw [cn', gnow], by rw [ce', gep]⟩
    | true =>
      simp only [if_true, Bool.true_and, hr]
      cases o with
      | none =>
        simp only [hc2, Option.isSome_none, Bool.and_false, Bool.false_eq_true, if_false, Bool.not_false,
          Bool.and_true]
        by_cases hxx' : (cnd == SetCond.xx) = true
        · simp only [hxx', if_true, Bool.or_true, Bool.false_or]
          exact ⟨_, rfl, by first | rfl | trivial | simp [wrongOpt, strOpt, oldReply, wrongType], by simp [purge_absP, wrongOpt, strOpt], ginv, gnow, gep⟩
        · simp only [hxx', Bool.false_eq_true, if_false, Bool.or_false, hc', Option.map_some]
          exact ⟨_, rfl, by first | rfl | trivial | simp [wrongOpt, strOpt, oldReply, wrongType], by simp [wrongOpt, strOpt, ca'], ci', by rw [cn', gnow], by rw [ce', gep]⟩
      | some w =>
        cases w
        case str b =>
          simp only [hc2, Option.isSome_some, Bool.and_true, Bool.not_true, Bool.and_false, Bool.or_false,
            Bool.false_eq_true, if_false]
          by_cases hn : (cnd == SetCond.nx) = true
          · simp only [hn, if_true]
            exact ⟨_, rfl, by first | rfl | trivial | simp [wrongOpt, strOpt, oldReply, wrongType], by simp [purge_absP, wrongOpt, strOpt], ginv, gnow, gep⟩
          · simp only [hn, Bool.false_eq_true, if_false, hc', Option.map_some]
            exact ⟨_, rfl, by first | rfl | trivial | simp [wrongOpt, strOpt, oldReply, wrongType], by simp [wrongOpt, strOpt, ca'], ci', by rw [cn', gnow], by rw [ce', gep]⟩
        all_goals
          simp only [if_true]
          exact ⟨_, rfl, by first | rfl | trivial | simp [wrongOpt, strOpt, oldReply, wrongType], by simp [purge_absP, wrongOpt, strOpt], ginv, gnow, gep⟩

def GetExOk : GetExOpt → Prop
  | .ex v | .px v | .exat v | .pxat v => I64 v
  | _ => True

instance : DecidablePred GetExOk := fun e => by cases e <;> unfold GetExOk <;> infer_instance

/-- `execute_getex` refines M7's GETEX -/
theorem cGetEx_sim {cs : CState} (h : CInv cs) (k : Nat) (o : GetExOpt) (he : GetExOk o) :
    ∃ res, cGetEx cs k (getExArgsOf o) = some res ∧ Sim cs (.getex k o) res := by
  unfold cGetEx
  have g0 := getValue_spec h k
  rcases hr : getValue cs k with ⟨c, ov⟩
  rw [hr] at g0
  obtain ⟨ginv, gsame, gnow, gep, gnx, gval, glook⟩ := g0
  dsimp only at ginv gsame gnow gep gnx gval glook
  have gux := unix_eq gnow gep
  rw [← gep] at glook
  simp only [Sim, SimF, exec, execGetEx, lookupStr]
  rw [glook, gux, ← gsame]
  cases ov with
  | none => exact ⟨_, rfl, rfl, by simp [purge_absP], ginv, gnow, gep⟩
  | some w =>
    cases w
    case str b =>
      have hk : (NMap.get c.data k).isSome = true := by rw [gval]; rfl
      have hw := wf_absP ginv.wfd
      have hb := basetime_eq ginv
      have ht := ginv.timeOk
      have hdv := div_eq
      have hu : ((unix c : Nat) : Int) = (c.epoch : Int) + (c.now : Int) := by simp [unix]
      simp only [Option.map_some]
      cases o with
      | none =>
        refine ⟨(c, .bulk b), by simp [getExArgsOf], by simp [getExPlan], ?_, ginv, gnow, gep⟩
        simp [getExPlan, purge_absP]
      | persist =>
        refine ⟨({ c with exp := NMap.erase k c.exp }, .bulk b), by simp [getExArgsOf], by simp [getExPlan], ?_,
          cinv_persist ginv, gnow, gep⟩
        simp only [getExPlan]
        exact dl_clear ginv gval
      | ex s =>
        have hp := plan_ex (unix c) s
        simp only [getExPlan]
        by_cases hc : 0 < s ∧ s ≤ 9223372036854775 ∧ s * 1000 + ((unix c : Nat) : Int) ≤ 9223372036854775807
        · rw [if_pos hc] at hp
          obtain ⟨p1, p2, p3⟩ := hc
          have hmul : u64Mul1000 (asU64 s) = some (s.toNat * 1000) := by
            rw [asU64_nonneg (by omega)]; exact u64Mul1000_eq (by omega)
          have hadd : u64Add c.now (s.toNat * 1000) = some (c.now + s.toNat * 1000) := u64Add_eq (by omega)
          have hval : (decide (s ≤ 0) || decide (s > i64MaxDiv1000) ||
              (checkedAdd (s * 1000) (basetimeMs c)).isNone) = false := by
            rw [Bool.eq_false_iff]
            intro hh
            simp only [Bool.or_eq_true, decide_eq_true_eq, checkedAdd_isNone, hb] at hh
            try simp only [decide_eq_true_eq] at hh
            omega
          refine ⟨({ c with exp := NMap.insert k (c.now + s.toNat * 1000) c.exp }, .bulk b),
            by simp [getExArgsOf, hval, hmul, hadd], by simp [hp],
            ?_, cinv_exp ginv hk (by show c.epoch + (c.now + s.toNat * 1000) ≤ _; omega), gnow, gep⟩
          rw [hp]
          have := dl_set ginv gval (c.now + s.toNat * 1000)
          have e2 : c.now + s.toNat * 1000 + c.epoch = (s * 1000 + ((unix c : Nat) : Int)).toNat := by omega
          rw [e2] at this
          exact this
        · rw [if_neg hc] at hp
          have hval : (decide (s ≤ 0) || decide (s > i64MaxDiv1000) ||
              (checkedAdd (s * 1000) (basetimeMs c)).isNone) = true := by
            simp only [Bool.or_eq_true, decide_eq_true_eq, checkedAdd_isNone, hb]
            try simp only [decide_eq_true_eq]
            have := he.1
            omega
          exact ⟨(c, .err .invalidExpire), by simp [getExArgsOf, hval], by simp [hp], by simp [hp, purge_absP],
            ginv, gnow, gep⟩
      | px s =>
        have hp := plan_px (unix c) s
        simp only [getExPlan]
        by_cases hc : 0 < s ∧ s + ((unix c : Nat) : Int) ≤ 9223372036854775807
        · rw [if_pos hc] at hp
          obtain ⟨p1, p3⟩ := hc
          have hadd : u64Add c.now (asU64 s) = some (c.now + s.toNat) := by
            rw [asU64_nonneg (by omega)]; exact u64Add_eq (by omega)
          have hval : (decide (s ≤ 0) || (checkedAdd s (basetimeMs c)).isNone) = false := by
            rw [Bool.eq_false_iff]
            intro hh
            simp only [Bool.or_eq_true, decide_eq_true_eq, checkedAdd_isNone, hb] at hh
            try simp only [decide_eq_true_eq] at hh
            omega
          refine ⟨({ c with exp := NMap.insert k (c.now + s.toNat) c.exp }, .bulk b),
            by simp [getExArgsOf, hval, hadd], by simp [hp],
            ?_, cinv_exp ginv hk (by show c.epoch + (c.now + s.toNat) ≤ _; omega), gnow, gep⟩
          rw [hp]
          have := dl_set ginv gval (c.now + s.toNat)
          have e2 : c.now + s.toNat + c.epoch = (s + ((unix c : Nat) : Int)).toNat := by omega
          rw [e2] at this
          exact this
        · rw [if_neg hc] at hp
          have hval : (decide (s ≤ 0) || (checkedAdd s (basetimeMs c)).isNone) = true := by
            simp only [Bool.or_eq_true, decide_eq_true_eq, checkedAdd_isNone, hb]
            try simp only [decide_eq_true_eq]
            have := he.1
            omega
          exact ⟨(c, .err .invalidExpire), by simp [getExArgsOf, hval], by simp [hp], by simp [hp, purge_absP],
            ginv, gnow, gep⟩
      | exat s =>
        have hp := plan_exat (unix c) s
        simp only [getExPlan]
        by_cases hc : 0 < s ∧ s ≤ 9223372036854775
        · rw [if_pos hc] at hp
          obtain ⟨p1, p2⟩ := hc
          have hrel : sat (sat (s * 1000) - (c.epoch : Int)) = s * 1000 - (c.epoch : Int) := by
            have h1 : sat (s * 1000) = s * 1000 := sat_id (by omega) (by omega)
            rw [h1, sat_id (by omega) (by omega)]
          have hval : (decide (s ≤ 0) || decide (s > i64MaxDiv1000)) = false := by
            rw [Bool.eq_false_iff]
            intro hh
            simp only [Bool.or_eq_true, decide_eq_true_eq] at hh
            try simp only [decide_eq_true_eq] at hh
            omega
          rw [hp]
          by_cases hr' : s * 1000 - (c.epoch : Int) ≤ 0
          · refine ⟨(dropKey c k, .bulk b), by simp [getExArgsOf, hval, hrel, hr'], by simp, ?_,
              cinv_drop ginv, gnow, gep⟩
            exact dl_drop (w := .str b) (k := k) ginv (t := (s * 1000).toNat) (by simp only [unix]; omega)
          · have hd : asU64 (s * 1000 - (c.epoch : Int)) = (s * 1000 - (c.epoch : Int)).toNat :=
              asU64_nonneg (by omega)
            refine ⟨({ c with exp := NMap.insert k (s * 1000 - (c.epoch : Int)).toNat c.exp }, .bulk b),
              by simp [getExArgsOf, hval, hrel, hr', hd], by simp, ?_,
              cinv_exp ginv hk (by show c.epoch + (s * 1000 - (c.epoch : Int)).toNat ≤ _; omega), gnow, gep⟩
            have := dl_set ginv gval (s * 1000 - (c.epoch : Int)).toNat
            have e2 : (s * 1000 - (c.epoch : Int)).toNat + c.epoch = (s * 1000).toNat := by omega
            rw [e2] at this
            exact this
        · rw [if_neg hc] at hp
          have hval : (decide (s ≤ 0) || decide (s > i64MaxDiv1000)) = true := by
            simp only [Bool.or_eq_true, decide_eq_true_eq]
            try simp only [decide_eq_true_eq]
            omega
          exact ⟨(c, .err .invalidExpire), by simp [getExArgsOf, hval], by simp [hp], by simp [hp, purge_absP],
            ginv, gnow, gep⟩
      | pxat s =>
        have hp := plan_pxat (unix c) s
        have := he.2
        simp only [getExPlan]
        by_cases hc : 0 < s ∧ s ≤ 9223372036854775807
        · rw [if_pos hc] at hp
          obtain ⟨p1, p2⟩ := hc
          have hrel : sat (s - (c.epoch : Int)) = s - (c.epoch : Int) := sat_id (by omega) (by omega)
          have hval : decide (s ≤ 0) = false := by simp; omega
          rw [hp]
          by_cases hr' : s - (c.epoch : Int) ≤ 0
          · refine ⟨(dropKey c k, .bulk b), by simp [getExArgsOf, hval, hrel, hr'], by simp, ?_,
              cinv_drop ginv, gnow, gep⟩
            exact dl_drop (w := .str b) (k := k) ginv (t := s.toNat) (by simp only [unix]; omega)
          · have hd : asU64 (s - (c.epoch : Int)) = (s - (c.epoch : Int)).toNat := asU64_nonneg (by omega)
            refine ⟨({ c with exp := NMap.insert k (s - (c.epoch : Int)).toNat c.exp }, .bulk b),
              by simp [getExArgsOf, hval, hrel, hr', hd], by simp, ?_,
              cinv_exp ginv hk (by show c.epoch + (s - (c.epoch : Int)).toNat ≤ _; omega), gnow, gep⟩
            have := dl_set ginv gval (s - (c.epoch : Int)).toNat
            have e2 : (s - (c.epoch : Int)).toNat + c.epoch = s.toNat := by omega
            rw [e2] at this
            exact this
        · rw [if_neg hc] at hp
          have hval : decide (s ≤ 0) = true := by simp; omega
          exact ⟨(c, .err .invalidExpire), by simp [getExArgsOf, hval], by simp [hp], by simp [hp, purge_absP],
            ginv, gnow, gep⟩
    all_goals exact ⟨_, rfl, rfl, by simp [purge_absP], ginv, gnow, gep⟩

end RedisVerif.Executor
