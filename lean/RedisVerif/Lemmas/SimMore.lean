import RedisVerif.Model.SimMore
import RedisVerif.Lemmas.Sim

/-!
Helper lemmas for the whole-run statements of C20 (Props/C20.lean, T4): a run does not depend on
the hidden inputs the model makes explicit.
-/
namespace RedisVerif
namespace SimMoreLemmas
open SimRng SimHarness SimMore SimLemmas

/-! ## the node-map order through a whole `DSTSimulation` / `RedisDSTSimulation` run -/

theorem recoverLoop_perm {σ} (S : Sampler σ) (c : DstCfg) (pi pi' : List Nat) (d : Dst σ)
    (hs : c.sortedNodes = true) (hp : pi.Perm pi') : recoverLoop S c pi d = recoverLoop S c pi' d := by
  unfold recoverLoop crashedNodes
  rw [hs]
  simp only [if_true]
  rw [sortNat_perm_invariant _ _ (hp.filter _)]

theorem dstStep_perm {σ} (S : Sampler σ) (c : DstCfg) (pi pi' : List Nat) (d : Dst σ)
    (hs : c.sortedNodes = true) (hp : pi.Perm pi') : dstStep S c pi d = dstStep S c pi' d := by
  unfold dstStep
  simp only [recoverLoop_perm S c pi pi' _ hs hp]

theorem dstLoop_perm (c : DstCfg) (pi pi' : List Nat) (hs : c.sortedNodes = true) (hp : pi.Perm pi') :
    ∀ (fuel k : Nat) (d : Dst Rng) (acc : List String), dstLoop c pi fuel k d acc = dstLoop c pi' fuel k d acc := by
  intro fuel
  induction fuel with
  | zero => intro k d acc; rfl
  | succ n ih =>
    intro k d acc
    simp only [dstLoop, dstStep_perm chacha c pi pi' d hs hp]
    cases dstStep chacha c pi' d with
    | error e => rfl
    | ok d' =>
      simp only [bind, Except.bind]
      split
      · rfl
      · exact ih _ _ _

/-- the states of `ops` consecutive steps over ANY sampler -/
def dstRun {σ} (S : Sampler σ) (c : DstCfg) (pi : List Nat) : Nat → Dst σ → Except String (Dst σ) :=
  repeatM (dstStep S c pi)

theorem repeatM_congr {α} (f g : α → Except String α) (h : ∀ a, f a = g a) : ∀ n a, repeatM f n a = repeatM g n a := by
  intro n
  induction n with
  | zero => intro a; rfl
  | succ n ih =>
    intro a
    show (f a >>= fun a => repeatM f n a) = (g a >>= fun a => repeatM g n a)
    rw [h a]
    cases g a with
    | error e => rfl
    | ok a' => exact ih a'

theorem redisStep_perm {σ} (S : Sampler σ) (c : RCfg) (pi pi' : List Nat) (s : RSt σ)
    (hs : c.dst.sortedNodes = true) (hp : pi.Perm pi') : redisStep S c pi s = redisStep S c pi' s := by
  unfold redisStep
  cases crashLoop S c.dst s.d with
  | error e => rfl
  | ok d => simp only [bind, Except.bind, dstStep_perm S c.dst pi pi' d hs hp]

theorem redisLoop_perm {σ} (S : Sampler σ) (c : RCfg) (pi pi' : List Nat)
    (hs : c.dst.sortedNodes = true) (hp : pi.Perm pi') :
    ∀ (fuel : Nat) (s : RSt σ), redisLoop S c pi fuel s = redisLoop S c pi' fuel s := by
  intro fuel
  induction fuel with
  | zero => intro s; rfl
  | succ n ih =>
    intro s
    simp only [redisLoop, redisStep_perm S c pi pi' s hs hp]
    cases redisStep S c pi' s with
    | error e => rfl
    | ok s' =>
      simp only [bind, Except.bind]
      split
      · cases randomOperation S c s' with
        | error e => rfl
        | ok s'' => exact ih _
      · split
        · rfl
        · exact ih _

/-! ## scenario timing: the executor cannot influence it -/

/-- what two scenario states over different executors share -/
def ScSim {ε ρ ε' ρ' : Type} (s : ScSt ε ρ) (s' : ScSt ε' ρ') : Prop :=
  s.rng = s'.rng ∧ s.now = s'.now ∧
    s.recs.map (fun x => (x.client, x.inv, x.done)) = s'.recs.map (fun x => (x.client, x.inv, x.done))

theorem scExecute_sim {ε ρ ε' ρ' : Type} (exec : ε → Nat → Nat → ε × ρ) (exec' : ε' → Nat → Nat → ε' × ρ')
    (c : ScCfg) (idx client : Nat) (s : ScSt ε ρ) (s' : ScSt ε' ρ') (h : ScSim s s') :
    ScSim (scExecute exec c idx client s) (scExecute exec' c idx client s') := by
  obtain ⟨hr, hn, hl⟩ := h
  unfold scExecute ScSim
  simp only [hr, hn]
  refine ⟨?_, ?_, ?_⟩
  · trivial
  · trivial
  · simp only [List.map_cons, hl]

theorem setNow_sim {ε ρ ε' ρ' : Type} (s : ScSt ε ρ) (s' : ScSt ε' ρ') (h : ScSim s s') (t : Nat) :
    ScSim { s with now := t } { s' with now := t } := ⟨h.1, rfl, h.2.2⟩

theorem setNowEx_sim {ε ρ ε' ρ' : Type} (s : ScSt ε ρ) (s' : ScSt ε' ρ') (h : ScSim s s') (t : Nat) (e : ε) (e' : ε') :
    ScSim { s with now := t, ex := e } { s' with now := t, ex := e' } := ⟨h.1, rfl, h.2.2⟩

theorem scRun_sim {ε ρ ε' ρ' : Type} (exec : ε → Nat → Nat → ε × ρ) (exec' : ε' → Nat → Nat → ε' × ρ') (c : ScCfg) :
    ∀ (ops : List (Nat × ScOp)) (s : ScSt ε ρ) (s' : ScSt ε' ρ'), ScSim s s' → ScSim (scRun exec c ops s) (scRun exec' c ops s') := by
  intro ops
  induction ops with
  | nil => intro s s' h; exact h
  | cons p rest ih =>
    intro s s' h
    simp only [scRun, List.foldl_cons]
    exact ih _ _ (scExecute_sim exec exec' c p.1 p.2.client _ _ (setNow_sim s s' h p.2.time))

theorem scEvictLoop_sim {ε ρ ε' ρ' : Type} (exec : ε → Nat → Nat → ε × ρ) (exec' : ε' → Nat → Nat → ε' × ρ')
    (evict : ε → Nat → ε) (evict' : ε' → Nat → ε') (c : ScCfg) (maxTime : Nat) :
    ∀ (fuel : Nat) (ops : List (Nat × ScOp)) (nextEv : Nat) (s : ScSt ε ρ) (s' : ScSt ε' ρ'), ScSim s s' →
      ScSim (scEvictLoop exec evict c maxTime fuel ops nextEv s) (scEvictLoop exec' evict' c maxTime fuel ops nextEv s') := by
  intro fuel
  induction fuel with
  | zero => intro ops nextEv s s' h; exact h
  | succ n ih =>
    intro ops nextEv s s' h
    cases ops with
    | nil =>
      by_cases hle : nextEv ≤ maxTime
      · simp only [scEvictLoop, hle, decide_true]
        have hn : s.now = s'.now := h.2.1
        rw [hn]
        split
        · exact ih _ _ _ _ (setNowEx_sim s s' h nextEv _ _)
        · exact h
      · simp only [scEvictLoop, hle, decide_false]
        exact h
    | cons p rest =>
      obtain ⟨i, op⟩ := p
      by_cases hle : nextEv ≤ maxTime
      · simp only [scEvictLoop, hle, decide_true]
        split
        · exact ih _ _ _ _ (scExecute_sim exec exec' c i op.client _ _ (setNow_sim s s' h op.time))
        · exact ih _ _ _ _ (setNowEx_sim s s' h nextEv _ _)
      · simp only [scEvictLoop, hle, decide_false]
        exact ih _ _ _ _ (scExecute_sim exec exec' c i op.client _ _ (setNow_sim s s' h op.time))

/-! ## the harness loop around a workload -/

theorem harnessLoop_ops {τ ω : Type} (store : τ → WOp → τ × ω) :
    ∀ (ops : List WOp) (t : τ), (harnessLoop store ops t).map (·.1) = ops := by
  intro ops
  induction ops with
  | nil => intro t; rfl
  | cons o rest ih =>
    intro t
    simp only [harnessLoop, List.map_cons, ih]

/-! ## `find?` over a permutation -/

theorem find?_isNone_perm {α} (p : α → Bool) (l l' : List α) (h : l.Perm l') :
    (l.find? p).isNone = (l'.find? p).isNone := by
  have : ∀ (m : List α), (m.find? p).isNone = m.all (fun x => !p x) := by
    intro m
    induction m with
    | nil => rfl
    | cons x xs ih =>
      simp only [List.find?_cons, List.all_cons]
      cases hx : p x <;> simp [ih]
  rw [this l, this l']
  exact Bool.eq_iff_iff.mpr ⟨fun ha => List.all_eq_true.mpr fun x hx => List.all_eq_true.mp ha x (h.mem_iff.mpr hx),
    fun ha => List.all_eq_true.mpr fun x hx => List.all_eq_true.mp ha x (h.mem_iff.mp hx)⟩

theorem hashCheck_isOk (fmt : NSet → String) (impl : Impl) (expected pi : NSet) :
    isOk (hashCheck fmt impl expected pi) = hashCheckOk impl expected pi := by
  unfold hashCheck hashCheckOk
  by_cases a : impl.len = expected.length <;> by_cases b : impl.isEmpty = expected.isEmpty <;>
    by_cases k : impl.keys = expected <;>
    cases hf : pi.find? (fun f => !impl.exists_ f) <;> cases hg : pi.find? (fun f => !impl.getSome f) <;>
    simp [a, b, k, hf, hg, isOk]

end SimMoreLemmas
end RedisVerif
