/-!
# Folding an ACI operation computes a least upper bound

For an operation `m` that is commutative, associative and idempotent on a carrier `P` closed
under it, `foldl m x l` is the least upper bound of `x :: l` in the induced order
`a ≤ b :↔ m a b = b`; hence it depends only on the *set* of elements: it is invariant under
permutation and duplication.  This is the one lemma behind every "any order, any duplication"
claim (C06 delivery schedules, C11 recovery, C13 compaction).
-/
namespace RedisVerif

structure ACI {α : Type} (m : α → α → α) (P : α → Prop) : Prop where
  closed : ∀ a b, P a → P b → P (m a b)
  comm : ∀ a b, P a → P b → m a b = m b a
  assoc : ∀ a b c, P a → P b → P c → m a (m b c) = m (m a b) c
  idem : ∀ a, P a → m a a = a

namespace ACI
variable {α : Type} {m : α → α → α} {P : α → Prop}

/-- the induced order -/
def le (m : α → α → α) (a b : α) : Prop := m a b = b

theorem le_refl (h : ACI m P) {a : α} (ha : P a) : le m a a := h.idem a ha

theorem le_antisymm (h : ACI m P) {a b : α} (ha : P a) (hb : P b) (h1 : le m a b)
    (h2 : le m b a) : a = b := by
  unfold le at h1 h2
  rw [← h2, h.comm b a hb ha, h1]

theorem le_trans (h : ACI m P) {a b c : α} (ha : P a) (hb : P b) (hc : P c) (h1 : le m a b)
    (h2 : le m b c) : le m a c := by
  unfold le at *
  rw [← h2, h.assoc a b c ha hb hc, h1]

theorem le_merge_left (h : ACI m P) {a b : α} (ha : P a) (hb : P b) : le m a (m a b) := by
  unfold le
  rw [h.assoc a a b ha ha hb, h.idem a ha]

theorem le_merge_right (h : ACI m P) {a b : α} (ha : P a) (hb : P b) : le m b (m a b) := by
  unfold le
  rw [h.comm a b ha hb, h.assoc b b a hb hb ha, h.idem b hb]

theorem merge_le (h : ACI m P) {a b u : α} (ha : P a) (hb : P b) (hu : P u) (h1 : le m a u)
    (h2 : le m b u) : le m (m a b) u := by
  unfold le at *
  rw [← h.assoc a b u ha hb hu, h2, h1]

theorem fold_closed (h : ACI m P) (l : List α) (x : α) (hx : P x) (hl : ∀ a ∈ l, P a) :
    P (l.foldl m x) := by
  induction l generalizing x with
  | nil => exact hx
  | cons a l ih =>
    exact ih (m x a) (h.closed x a hx (hl a (by simp))) (fun b hb => hl b (by simp [hb]))

/-- the fold is an upper bound of its seed and of every element -/
theorem fold_upper (h : ACI m P) (l : List α) (x : α) (hx : P x) (hl : ∀ a ∈ l, P a) :
    le m x (l.foldl m x) ∧ ∀ a ∈ l, le m a (l.foldl m x) := by
  induction l generalizing x with
  | nil => exact ⟨h.le_refl hx, fun a ha => by cases ha⟩
  | cons b l ih =>
    have hb : P b := hl b (by simp)
    have hl' : ∀ a ∈ l, P a := fun a ha => hl a (by simp [ha])
    have hxb : P (m x b) := h.closed x b hx hb
    have ⟨h1, h2⟩ := ih (m x b) hxb hl'
    have hF : P (l.foldl m (m x b)) := h.fold_closed l _ hxb hl'
    refine ⟨h.le_trans hx hxb hF (h.le_merge_left hx hb) h1, ?_⟩
    intro a ha
    simp only [List.foldl_cons]
    cases ha with
    | head => exact h.le_trans hb hxb hF (h.le_merge_right hx hb) h1
    | tail _ ha' => exact h2 a ha'

/-- … and the least one -/
theorem fold_least (h : ACI m P) (l : List α) (x u : α) (hx : P x) (hl : ∀ a ∈ l, P a)
    (hu : P u) (h1 : le m x u) (h2 : ∀ a ∈ l, le m a u) : le m (l.foldl m x) u := by
  induction l generalizing x with
  | nil => exact h1
  | cons b l ih =>
    have hb : P b := hl b (by simp)
    exact ih (m x b) (h.closed x b hx hb) (fun a ha => hl a (by simp [ha]))
      (h.merge_le hx hb hu h1 (h2 b (by simp))) (fun a ha => h2 a (by simp [ha]))

/-- **order- and duplication-independence**: two folds over lists with the same elements
    (seed included) are equal -/
theorem fold_eq_of_same_elems (h : ACI m P) (x x' : α) (l l' : List α)
    (hx : P x) (hl : ∀ a ∈ l, P a) (hx' : P x') (hl' : ∀ a ∈ l', P a)
    (hsame : ∀ a, a ∈ x :: l ↔ a ∈ x' :: l') :
    l.foldl m x = l'.foldl m x' := by
  have hF := h.fold_closed l x hx hl
  have hF' := h.fold_closed l' x' hx' hl'
  have ⟨u1, u2⟩ := h.fold_upper l x hx hl
  have ⟨v1, v2⟩ := h.fold_upper l' x' hx' hl'
  have ub : ∀ a ∈ x :: l, le m a (l.foldl m x) := by
    intro a ha
    cases ha with
    | head => exact u1
    | tail _ ha' => exact u2 a ha'
  have vb : ∀ a ∈ x' :: l', le m a (l'.foldl m x') := by
    intro a ha
    cases ha with
    | head => exact v1
    | tail _ ha' => exact v2 a ha'
  apply h.le_antisymm hF hF'
  · apply h.fold_least l x _ hx hl hF'
    · exact vb x ((hsame x).mp (by simp))
    · intro a ha; exact vb a ((hsame a).mp (by simp [ha]))
  · apply h.fold_least l' x' _ hx' hl' hF
    · exact ub x' ((hsame x').mpr (by simp))
    · intro a ha; exact ub a ((hsame a).mpr (by simp [ha]))

/-- absorbing an element already below the accumulator changes nothing -/
theorem absorb (h : ACI m P) {x a : α} (hx : P x) (ha : P a) (hle : le m a x) : m x a = x := by
  unfold le at hle
  rw [h.comm x a hx ha, hle]

end ACI
end RedisVerif
