import RedisVerif.Lemmas.SimCluster

/-!
  An execution whose local operations are string writes and deletes only (all that
  `SimulatedNode::execute` records) never holds, ships or transfers anything but LWW registers:
  every key is kind-stable, so the convergence theorems need no kind hypothesis there.
-/
namespace RedisVerif
namespace SimC
open Gossip Cluster ACluster

def StrOp : LOp → Prop
  | .write _ _ _ => True
  | .delete _ => True
  | _ => False

def StrEv : AEv → Prop
  | .ev (.loc _ op) => StrOp op
  | _ => True

structure LwwInv (c : ACluster) : Prop where
  sent : ∀ m ∈ c.base.sent, m.val.crdt.kind = 0
  nodes : ∀ s ∈ c.base.nodes, ∀ k v, NMap.get s.keys k = some v → v.crdt.kind = 0
  snaps : ∀ sn ∈ c.snaps, sn.val.crdt.kind = 0

theorem lwwInv_init (n : Nat) (causal : Bool) : LwwInv (ACluster.init n causal) := by
  refine ⟨(by intro m hm; cases hm), ?_, (by intro sn hsn; cases hsn)⟩
  intro s hs k v hg
  simp only [ACluster.init, Cluster.init, List.mem_map, List.mem_range] at hs
  obtain ⟨i, _, rfl⟩ := hs
  simp [Shard.init] at hg

/-- the delta of a string write / delete on a shard that holds LWW registers only is one -/
theorem strOp_delta_kind (s : Shard) (op : LOp) (hop : StrOp op)
    (hs : ∀ k v, NMap.get s.keys k = some v → v.crdt.kind = 0) (d : RV)
    (hd : (Shard.step s op.toOp).2 = some d) : d.crdt.kind = 0 := by
  cases op with
  | write k v e =>
    simp only [LOp.toOp, Shard.step, Option.some.injEq] at hd
    rw [← hd]; rfl
  | delete k =>
    simp only [LOp.toOp, Shard.step, Shard.recordDelete] at hd
    cases hg : NMap.get s.keys k with
    | none => simp only [hg] at hd; cases hd
    | some rv =>
      simp only [hg] at hd
      have hk := hs k rv hg
      cases hc : rv.crdt with
      | lww r =>
        simp only [hc, Option.some.injEq] at hd
        rw [← hd]; rfl
      | hash h => rw [hc] at hk; cases hk
      | gcounter c => rw [hc] at hk; cases hk
      | pncounter p n => rw [hc] at hk; cases hk
      | gset g => rw [hc] at hk; cases hk
      | orset e nx => rw [hc] at hk; cases hk
  | hwrite k fs => cases hop
  | hdelete k fs => cases hop

theorem applyRemote_kind (s : Shard) (k : Nat) (d : RV)
    (hs : ∀ k v, NMap.get s.keys k = some v → v.crdt.kind = 0) (hd : d.crdt.kind = 0) :
    ∀ k' v, NMap.get (Shard.applyRemote s k d).keys k' = some v → v.crdt.kind = 0 := by
  intro k' v hg
  simp only [Shard.applyRemote] at hg
  rw [NMap.get_insert] at hg
  split at hg
  · simp only [Option.some.injEq] at hg
    rw [← hg]
    cases hl : NMap.get s.keys k with
    | none => exact hd
    | some l =>
      simp only []
      rw [merge_kind_of_same (by rw [hs k l hl, hd])]
      exact hs k l hl
  · exact hs k' v hg

theorem lwwInv_step {c : ACluster} (h : LwwInv c) (e : AEv) (he : StrEv e) : LwwInv (c.step e) := by
  cases e with
  | ev e =>
    cases e with
    | loc i op =>
      cases hs : c.base.nodes[i]? with
      | none =>
        have : c.step (.ev (.loc i op)) = c := by simp only [ACluster.step, Cluster.step, hs]
        rw [this]; exact h
      | some s =>
        have hsmem : s ∈ c.base.nodes := List.mem_of_getElem? hs
        cases hd : (Shard.step s op.toOp).2 with
        | none =>
          have hsame := Shard.local_none s op hd
          have : c.step (.ev (.loc i op)) = { c with base := { c.base with nodes := c.base.nodes.set i s } } := by
            simp only [ACluster.step, Cluster.step, hs, hd, hsame]
          rw [this]
          refine ⟨h.sent, ?_, h.snaps⟩
          intro s' hs' k v hg
          rcases mem_set hs' with h1 | h1
          · rw [h1] at hg; exact h.nodes s hsmem k v hg
          · exact h.nodes s' h1 k v hg
        | some d =>
          have hdk := strOp_delta_kind s op he (h.nodes s hsmem) d hd
          have : c.step (.ev (.loc i op)) = { c with base :=
              { nodes := c.base.nodes.set i (Shard.step s op.toOp).1
                sent := c.base.sent ++ [⟨i, op.key, d⟩]
                log := c.base.log ++ [⟨i, op.key, d⟩] } } := by
            simp only [ACluster.step, Cluster.step, hs, hd]
          rw [this]
          refine ⟨?_, ?_, h.snaps⟩
          · intro m hm
            rcases List.mem_append.mp hm with h1 | h1
            · exact h.sent m h1
            · simp only [List.mem_singleton] at h1; rw [h1]; exact hdk
          · intro s' hs' k v hg
            rcases mem_set hs' with h1 | h1
            · rw [h1] at hg
              by_cases hk : k = op.key
              · rw [hk, Shard.local_get s op d hd] at hg
                rw [← Option.some.inj hg]; exact hdk
              · rw [Shard.keys_step_other s op k hk] at hg
                exact h.nodes s hsmem k v hg
            · exact h.nodes s' h1 k v hg
    | deliver j idx =>
      cases hs : c.base.nodes[j]? with
      | none =>
        have : c.step (.ev (.deliver j idx)) = c := by simp only [ACluster.step, Cluster.step, hs]
        rw [this]; exact h
      | some s =>
        cases hm : c.base.sent[idx]? with
        | none =>
          have : c.step (.ev (.deliver j idx)) = c := by simp only [ACluster.step, Cluster.step, hs, hm]
          rw [this]; exact h
        | some m =>
          have : c.step (.ev (.deliver j idx)) = { c with base := { c.base with
              nodes := c.base.nodes.set j (Shard.applyRemote s m.key m.val)
              log := c.base.log ++ [⟨j, m.key, m.val⟩] } } := by
            simp only [ACluster.step, Cluster.step, hs, hm]
          rw [this]
          refine ⟨h.sent, ?_, h.snaps⟩
          intro s' hs' k v hg
          rcases mem_set hs' with h1 | h1
          · rw [h1] at hg
            exact applyRemote_kind s m.key m.val (h.nodes s (List.mem_of_getElem? hs))
              (h.sent m (List.mem_of_getElem? hm)) k v hg
          · exact h.nodes s' h1 k v hg
  | snapshot i k =>
    cases hs : c.base.nodes[i]? with
    | none => simp only [ACluster.step, hs]; exact h
    | some s =>
      cases hg : NMap.get s.keys k with
      | none => simp only [ACluster.step, hs, hg]; exact h
      | some v =>
        simp only [ACluster.step, hs, hg]
        refine ⟨h.sent, h.nodes, ?_⟩
        intro sn hsn
        rcases List.mem_append.mp hsn with h1 | h1
        · exact h.snaps sn h1
        · simp only [List.mem_singleton] at h1
          rw [h1]
          exact h.nodes s (List.mem_of_getElem? hs) k v hg
  | applySnap j idx =>
    cases hs : c.base.nodes[j]? with
    | none => simp only [ACluster.step, hs]; exact h
    | some s =>
      cases hn : c.snaps[idx]? with
      | none => simp only [ACluster.step, hs, hn]; exact h
      | some sn =>
        simp only [ACluster.step, hs, hn]
        refine ⟨h.sent, ?_, h.snaps⟩
        intro s' hs' k v hg
        rcases mem_set hs' with h1 | h1
        · rw [h1] at hg
          exact applyRemote_kind s sn.key sn.val (h.nodes s (List.mem_of_getElem? hs))
            (h.snaps sn (List.mem_of_getElem? hn)) k v hg
        · exact h.nodes s' h1 k v hg

theorem lwwInv_run (es : List AEv) : ∀ (c : ACluster), LwwInv c → (∀ e ∈ es, StrEv e) → LwwInv (c.run es) := by
  induction es with
  | nil => intro c h _; exact h
  | cons e es ih =>
    intro c h he
    exact ih (c.step e) (lwwInv_step h e (he e (by simp))) (fun e' he' => he e' (List.mem_cons_of_mem _ he'))

/-- the events a simulator run is made of are string events -/
theorem strEv_of_filter (evs : List SEv) (es : List AEv)
    (h : es.filter isLocA = (evs.flatMap locsOf).map AEv.ev) : ∀ e ∈ es, StrEv e := by
  intro e he
  cases e with
  | ev e =>
    cases e with
    | loc i op =>
      have hmem : AEv.ev (.loc i op) ∈ es.filter isLocA := List.mem_filter.mpr ⟨he, rfl⟩
      rw [h] at hmem
      simp only [List.mem_map, List.mem_flatMap] at hmem
      obtain ⟨e', ⟨sev, _, hsev⟩, heq⟩ := hmem
      cases heq
      cases sev with
      | exec j sop =>
        simp only [locsOf, List.mem_map] at hsev
        obtain ⟨o, ho, heq⟩ := hsev
        cases heq
        cases sop with
        | set k v ex => simp only [SOp.lops, List.mem_singleton] at ho; rw [ho]; trivial
        | del ks =>
          simp only [SOp.lops, List.mem_map] at ho
          obtain ⟨k, _, rfl⟩ := ho
          trivial
      | _ => simp [locsOf] at hsev
    | deliver j idx => trivial
  | snapshot i k => trivial
  | applySnap j idx => trivial

end SimC
end RedisVerif
