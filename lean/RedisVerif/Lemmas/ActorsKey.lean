import RedisVerif.Lemmas.Actors
import RedisVerif.Lemmas.Shards

/-!
  Per-key composition: a log that is valid for ONE local executor on one store stays valid when
  restricted to the operations of one key (the easy direction of the locality of linearizability).
-/
namespace RedisVerif
namespace Actors

open NMap Shards

/-! ## request ids grow along a valid log; `keyMap` finds every invocation's key -/

section ids
variable {σ Req Resp : Type}

def IncIds : Nat → List (Ev Req Resp) → Prop
  | _, [] => True
  | n, .inv id _ :: es => n ≤ id ∧ IncIds (id + 1) es
  | n, .lin _ _ :: es => IncIds n es
  | n, .res _ _ :: es => IncIds n es

theorem incIds_mono {n m : Nat} (l : List (Ev Req Resp)) (h : IncIds n l) (hm : m ≤ n) : IncIds m l := by
  induction l generalizing n m with
  | nil => trivial
  | cons e es ih =>
    cases e with
    | inv id req => exact ⟨Nat.le_trans hm h.1, h.2⟩
    | lin id resp => exact ih h hm
    | res id resp => exact ih h hm

theorem incIds_mem {n : Nat} (l : List (Ev Req Resp)) (h : IncIds n l) (id : Nat) (req : Req)
    (hm : (.inv id req) ∈ l) : n ≤ id := by
  induction l generalizing n with
  | nil => cases hm
  | cons e es ih =>
    cases e with
    | inv id' req' =>
      rcases List.mem_cons.mp hm with e1 | e1
      · injection e1 with e2 _; rw [e2]; exact h.1
      · have := ih h.2 e1; have h1 := h.1; omega
    | lin id' resp' =>
      rcases List.mem_cons.mp hm with e1 | e1
      · cases e1
      · exact ih h e1
    | res id' resp' =>
      rcases List.mem_cons.mp hm with e1 | e1
      · cases e1
      · exact ih h e1

theorem incIds_history {n : Nat} (l : List (Ev Req Resp)) (h : IncIds n l) : IncIds n (history l) := by
  induction l generalizing n with
  | nil => trivial
  | cons e es ih =>
    cases e with
    | inv id req => exact ⟨h.1, ih h.2⟩
    | lin id resp => exact ih h
    | res id resp => exact ih h

theorem incIds_of_replay [DecidableEq Resp] (step : σ → Req → σ × Resp) (log : List (Ev Req Resp))
    (r r' : RState σ Req Resp) (h : replay step r log = some r') : IncIds r.next log := by
  induction log generalizing r with
  | nil => trivial
  | cons e es ih =>
    simp only [replay] at h
    cases he : stepEv step r e with
    | none => rw [he] at h; cases h
    | some r1 =>
      rw [he] at h
      have := ih r1 h
      cases e with
      | inv id req =>
        simp only [stepEv] at he
        split at he
        · rename_i hle; injection he with he; subst he; exact ⟨hle, this⟩
        · cases he
      | lin id resp =>
        simp only [stepEv] at he
        split at he
        · cases he
        · split at he
          · injection he with he; subst he; exact this
          · cases he
      | res id resp =>
        simp only [stepEv] at he
        split at he
        · injection he with he; subst he; exact this
        · cases he

theorem keyMap_get (keyOf : Req → Nat) {n : Nat} (h : List (Ev Req Resp)) (hi : IncIds n h)
    (id : Nat) (req : Req) (hm : (.inv id req) ∈ h) :
    get (keyMap keyOf h) id = some (keyOf req) := by
  induction h generalizing n with
  | nil => cases hm
  | cons e es ih =>
    cases e with
    | inv id' req' =>
      show get (insert id' (keyOf req') (keyMap keyOf es)) id = _
      rw [get_insert]
      rcases List.mem_cons.mp hm with e1 | e1
      · injection e1 with e2 e3; subst e2; subst e3; simp
      · have := incIds_mem es hi.2 id req e1
        rw [if_neg (by omega)]
        exact ih hi.2 e1
    | lin id' resp' =>
      rcases List.mem_cons.mp hm with e1 | e1
      · cases e1
      · exact ih hi e1
    | res id' resp' =>
      rcases List.mem_cons.mp hm with e1 | e1
      · cases e1
      · exact ih hi e1

theorem mem_history_of_inv (log : List (Ev Req Resp)) (id : Nat) (req : Req)
    (h : (.inv id req) ∈ log) : (.inv id req) ∈ history log :=
  List.mem_filter.mpr ⟨h, rfl⟩

end ids

/-! ## projection of a valid log to one key -/

section proj
variable {S : Sig} {E : Exec S}

theorem singleKey_keyed (c : Cmd S) (h : SingleKey c = true) : Keyed c = true ∧ keyList c = [cmdKey c] := by
  cases c with
  | single _ _ => exact ⟨rfl, rfl⟩
  | fastGet _ => exact ⟨rfl, rfl⟩
  | fastSet _ _ => exact ⟨rfl, rfl⟩
  | batchGet ks =>
    match ks, h with
    | [_], _ => exact ⟨rfl, rfl⟩
  | batchSet kvs =>
    match kvs, h with
    | [_], _ => exact ⟨rfl, rfl⟩
  | mget ks =>
    match ks, h with
    | [_], _ => exact ⟨rfl, rfl⟩
  | mset kvs =>
    match kvs, h with
    | [_], _ => exact ⟨rfl, rfl⟩
  | del ks =>
    match ks, h with
    | [_], _ => exact ⟨rfl, rfl⟩
  | _ => simp [SingleKey] at h

/-- what relates the replay of the whole log to the replay of key `k`'s part -/
structure PRel (km : NMap Nat) (k : Nat) (r rk : RState (Store S.Val) (Cmd S) Reply) : Prop where
  wfs : WF r.s
  wfsk : WF rk.s
  agree : get r.s k = get rk.s k
  wfp : WF r.pend
  wfd : WF r.done
  wfpk : WF rk.pend
  wfdk : WF rk.done
  pend : ∀ id, get rk.pend id = if get km id = some k then get r.pend id else none
  done : ∀ id, get rk.done id = if get km id = some k then get r.done id else none
  next : rk.next ≤ r.next
  ok : ∀ id req, get r.pend id = some req → get km id = some (cmdKey req) ∧ SingleKey req = true

theorem proj_step (hL : E.Local) (km : NMap Nat) (k : Nat) (e : Ev (Cmd S) Reply)
    (r r1 rk : RState (Store S.Val) (Cmd S) Reply) (hrel : PRel km k r rk)
    (hkm : ∀ id req, e = .inv id req → get km id = some (cmdKey req) ∧ SingleKey req = true)
    (he : stepEv E.exec r e = some r1) :
    if get km e.id = some k then ∃ rk1, stepEv E.exec rk e = some rk1 ∧ PRel km k r1 rk1
    else PRel km k r1 rk := by
  cases e with
  | inv id req =>
    obtain ⟨hk1, hk2⟩ := hkm id req rfl
    simp only [stepEv] at he
    by_cases hle : r.next ≤ id
    · rw [if_pos hle] at he
      injection he with he
      subst he
      show if get km id = some k then _ else _
      by_cases hs : get km id = some k
      · rw [if_pos hs]
        refine ⟨{ rk with pend := insert id req rk.pend, next := id + 1 }, ?_, ?_⟩
        · simp only [stepEv]
          rw [if_pos (Nat.le_trans hrel.next hle)]
        · refine { hrel with wfp := wf_insert hrel.wfp, wfpk := wf_insert hrel.wfpk, pend := ?_,
                             next := Nat.le_refl _, ok := ?_ }
          · intro id'
            show get (insert id req rk.pend) id' = if _ then get (insert id req r.pend) id' else none
            rw [get_insert, get_insert]
            by_cases e1 : id' = id
            · subst e1; simp [hs]
            · simp only [if_neg e1]; exact hrel.pend id'
          · intro id' req' hg
            have hg' : get (insert id req r.pend) id' = some req' := hg
            rw [get_insert] at hg'
            by_cases e1 : id' = id
            · subst e1; rw [if_pos rfl] at hg'; injection hg' with e2; subst e2; exact ⟨hk1, hk2⟩
            · rw [if_neg e1] at hg'; exact hrel.ok id' req' hg'
      · rw [if_neg hs]
        have hnext : rk.next ≤ id + 1 := by have := hrel.next; omega
        refine { hrel with wfp := wf_insert hrel.wfp, pend := ?_, next := hnext, ok := ?_ }
        · intro id'
          show get rk.pend id' = if _ then get (insert id req r.pend) id' else none
          rw [get_insert, hrel.pend id']
          by_cases e1 : id' = id
          · subst e1; simp [hs]
          · simp only [if_neg e1]
        · intro id' req' hg
          have hg' : get (insert id req r.pend) id' = some req' := hg
          rw [get_insert] at hg'
          by_cases e1 : id' = id
          · subst e1; rw [if_pos rfl] at hg'; injection hg' with e2; subst e2; exact ⟨hk1, hk2⟩
          · rw [if_neg e1] at hg'; exact hrel.ok id' req' hg'
    · rw [if_neg hle] at he; cases he
  | lin id resp =>
    simp only [stepEv] at he
    cases hg : get r.pend id with
    | none => rw [hg] at he; cases he
    | some req =>
      rw [hg] at he
      simp only at he
      by_cases hr : (E.exec r.s req).2 = resp
      · rw [if_pos hr] at he
        injection he with he
        subst he
        obtain ⟨hk1, hk2⟩ := hrel.ok id req hg
        obtain ⟨hkd, hkl⟩ := singleKey_keyed req hk2
        have hokrest : ∀ id' req', get (erase id r.pend) id' = some req' →
            get km id' = some (cmdKey req') ∧ SingleKey req' = true := by
          intro id' req' hg'
          rw [get_erase hrel.wfp] at hg'
          by_cases e1 : id' = id
          · rw [if_pos e1] at hg'; cases hg'
          · rw [if_neg e1] at hg'; exact hrel.ok id' req' hg'
        show if get km id = some k then _ else _
        by_cases hs : get km id = some k
        · rw [if_pos hs]
          have hkk : cmdKey req = k := by rw [hk1] at hs; injection hs
          have hloc := exec_local hL req hkd r.s rk.s hrel.wfs hrel.wfsk
            (by intro k' hk'; rw [hkl] at hk'; have : k' = cmdKey req := by simpa using hk'
                rw [this, hkk]; exact hrel.agree)
          have hgk : get rk.pend id = some req := by rw [hrel.pend id, if_pos hs]; exact hg
          refine ⟨{ rk with s := (E.exec rk.s req).1, pend := erase id rk.pend,
                            done := insert id resp rk.done }, ?_, ?_⟩
          · simp only [stepEv, hgk]
            rw [if_pos (by rw [← hloc.1]; exact hr)]
          · refine { wfs := exec_wf hL req _ hrel.wfs, wfsk := exec_wf hL req _ hrel.wfsk,
                     agree := ?_, wfp := wf_erase hrel.wfp, wfd := wf_insert hrel.wfd,
                     wfpk := wf_erase hrel.wfpk, wfdk := wf_insert hrel.wfdk, pend := ?_, done := ?_,
                     next := hrel.next, ok := hokrest }
            · have := hloc.2 k (by rw [hkl, hkk]; simp)
              exact this
            · intro id'
              show get (erase id rk.pend) id' = if _ then get (erase id r.pend) id' else none
              rw [get_erase hrel.wfpk, get_erase hrel.wfp]
              by_cases e1 : id' = id
              · simp [e1]
              · simp only [if_neg e1]; exact hrel.pend id'
            · intro id'
              show get (insert id resp rk.done) id' = if _ then get (insert id resp r.done) id' else none
              rw [get_insert, get_insert]
              by_cases e1 : id' = id
              · subst e1; simp [hs]
              · simp only [if_neg e1]; exact hrel.done id'
        · rw [if_neg hs]
          have hkk : cmdKey req ≠ k := by intro e1; apply hs; rw [hk1, e1]
          refine { wfs := exec_wf hL req _ hrel.wfs, wfsk := hrel.wfsk, agree := ?_,
                   wfp := wf_erase hrel.wfp, wfd := wf_insert hrel.wfd, wfpk := hrel.wfpk,
                   wfdk := hrel.wfdk, pend := ?_, done := ?_, next := hrel.next, ok := hokrest }
          · show get (E.exec r.s req).1 k = get rk.s k
            rw [exec_frame hL req hkd r.s hrel.wfs k (by rw [hkl]; simp; exact fun e1 => hkk e1.symm)]
            exact hrel.agree
          · intro id'
            show get rk.pend id' = if _ then get (erase id r.pend) id' else none
            rw [get_erase hrel.wfp, hrel.pend id']
            by_cases e1 : id' = id
            · subst e1; simp [hs]
            · simp only [if_neg e1]
          · intro id'
            show get rk.done id' = if _ then get (insert id resp r.done) id' else none
            rw [get_insert, hrel.done id']
            by_cases e1 : id' = id
            · subst e1; simp [hs]
            · simp only [if_neg e1]
      · rw [if_neg hr] at he; cases he
  | res id resp =>
    simp only [stepEv] at he
    by_cases hg : get r.done id = some resp
    · rw [if_pos hg] at he
      injection he with he
      subst he
      show if get km id = some k then _ else _
      by_cases hs : get km id = some k
      · rw [if_pos hs]
        have hgk : get rk.done id = some resp := by rw [hrel.done id, if_pos hs]; exact hg
        refine ⟨{ rk with done := erase id rk.done }, ?_, ?_⟩
        · simp only [stepEv]; rw [if_pos hgk]
        · refine { hrel with wfd := wf_erase hrel.wfd, wfdk := wf_erase hrel.wfdk, done := ?_ }
          intro id'
          show get (erase id rk.done) id' = if _ then get (erase id r.done) id' else none
          rw [get_erase hrel.wfdk, get_erase hrel.wfd]
          by_cases e1 : id' = id
          · simp [e1]
          · simp only [if_neg e1]; exact hrel.done id'
      · rw [if_neg hs]
        refine { hrel with wfd := wf_erase hrel.wfd, done := ?_ }
        intro id'
        show get rk.done id' = if _ then get (erase id r.done) id' else none
        rw [get_erase hrel.wfd, hrel.done id']
        by_cases e1 : id' = id
        · subst e1; simp [hs]
        · simp only [if_neg e1]
    · rw [if_neg hg] at he; cases he

theorem proj_replay (hL : E.Local) (km : NMap Nat) (k : Nat) (log : List (Ev (Cmd S) Reply))
    (r r' rk : RState (Store S.Val) (Cmd S) Reply) (hrel : PRel km k r rk)
    (hkm : ∀ id req, (.inv id req) ∈ log → get km id = some (cmdKey req) ∧ SingleKey req = true)
    (h : replay E.exec r log = some r') :
    ∃ rk', replay E.exec rk (log.filter (fun e => get km e.id == some k)) = some rk' := by
  induction log generalizing r rk with
  | nil => exact ⟨rk, rfl⟩
  | cons e es ih =>
    simp only [replay] at h
    cases he : stepEv E.exec r e with
    | none => rw [he] at h; cases h
    | some r1 =>
      rw [he] at h
      have hstep := proj_step hL km k e r r1 rk hrel (fun id req e1 => hkm id req (by simp [e1])) he
      have hkm' : ∀ id req, (.inv id req) ∈ es → get km id = some (cmdKey req) ∧ SingleKey req = true :=
        fun id req hm => hkm id req (by simp [hm])
      rw [List.filter_cons]
      by_cases hs : get km e.id = some k
      · rw [if_pos hs] at hstep
        obtain ⟨rk1, hk1, hrel1⟩ := hstep
        rw [if_pos (by simp [hs])]
        simp only [replay, hk1]
        exact ih r1 rk1 hrel1 hkm' h
      · rw [if_neg hs] at hstep
        rw [if_neg (by simp [hs])]
        exact ih r1 rk hstep hkm' h

/-- **per-key composition**: a log valid for one local executor on one store yields, for every
    key, a valid log of that key's operations (started on the empty store) -/
theorem perKey_of_valid (hL : E.Local) (log : List (Ev (Cmd S) Reply))
    (hv : ValidLog E.exec ([] : Store S.Val) log)
    (hsk : ∀ id req, (.inv id req) ∈ log → SingleKey req = true) :
    PerKeyLinearizable E.exec cmdKey ([] : Store S.Val) (history log) := by
  intro k
  unfold ValidLog at hv
  cases hrep : replay E.exec (initR ([] : Store S.Val)) log with
  | none => rw [hrep] at hv; cases hv
  | some r' =>
    have hinc := incIds_history log (incIds_of_replay E.exec log _ r' hrep)
    let km := keyMap cmdKey (history log)
    have hkm : ∀ id req, (.inv id req) ∈ log → get km id = some (cmdKey req) ∧ SingleKey req = true :=
      fun id req hm => ⟨keyMap_get cmdKey (history log) hinc id req (mem_history_of_inv log id req hm),
        hsk id req hm⟩
    have hrel : PRel km k (initR ([] : Store S.Val)) (initR ([] : Store S.Val)) :=
      { wfs := wf_nil, wfsk := wf_nil, agree := rfl, wfp := wf_nil, wfd := wf_nil, wfpk := wf_nil,
        wfdk := wf_nil, pend := by intro id; simp [initR], done := by intro id; simp [initR],
        next := Nat.le_refl _, ok := by intro id req hg; cases hg }
    obtain ⟨rk', hk'⟩ := proj_replay hL km k log _ r' _ hrel hkm hrep
    refine ⟨log.filter (fun e => get km e.id == some k), ?_, ?_⟩
    · unfold history projKey
      rw [List.filter_filter, List.filter_filter]
      apply List.filter_congr
      intro e _
      exact Bool.and_comm _ _
    · unfold ValidLog; rw [hk']; rfl

end proj

end Actors
end RedisVerif
